import TinsModel.Wire.Chain.FixIp
import TinsModel.Wire.Chain.FixTransport
import TinsModel.Wire.Chain.FixL2
import TinsModel.Wire.Chain.FixIp6
import TinsModel.Wire.Chain.FixIcmp
import TinsModel.Wire.Chain.FixApp
import TinsModel.Wire.Chain.FixWifi
/-
  Second-serialization fixed point, part 3: **the one-layer step for every covered class** (`fix_all`) over the interface the
  registry uses.

  Setting: layer `x` (representable above the stack `os`) was written around the bytes `io` of its inner chain (`out`); the
  parsing constructor reached under the entry name `n`, run on `out` followed by `k` zero bytes of an enclosing layer's
  minimum-frame padding, returned `x'`.  The re-parsed inner chain `os'` shows the same classes / EtherTypes (`hkeys`) and
  serializes to `io` followed by `e2` zero bytes — the padding that reached the payload: all of it (`e2 = trl + k`, only when
  `x` hands everything behind its header to the next layer) or none (`e2 = 0`: cut off by a length field at or below `x`).
  Then `x'`, in a context the writers cannot tell from the first one, writes `out` again — followed by the `k` zero bytes when
  they have become payload.
-/
namespace Tins.Wire.ChainAll
open Tins Tins.Wire
open Tins.Wire.L2 (layerView splitRaw stripView padOf ViewEq IsTail TailInner cxOf)

/-- **the one-layer step of the second-serialization fixed point, every covered class** -/
theorem fix_all (ps ps' : List LayerInfo) (x : AnyObj) (os os' : List AnyObj) (k e2 : Nat) (hok : LayerOK x os)
    (hna : ∀ q, x = .l2 (.dot1q q) → q.appendPadding = true → e2 = x.trl (sizeOfStack os) + k)
    (hpay : (splitRaw (x :: os)).2 ≠ [])
    (region io : Bytes)
    (hlen : region.length = x.hdr + sizeOfStack os + x.trl (sizeOfStack os))
    (hio : (region.drop x.hdr).take (sizeOfStack os) = io) (hiol : io.length = sizeOfStack os)
    (hnil : os = [] → io = []) (hraw : ∀ p, os = [.raw p] → io = p)
    (hpos : ∀ y r, nextA os = .obj y r → 0 < io.length) (hnostp : ∀ s r, os ≠ .app (.stp s) :: r)
    (out : Bytes) (hw : x.write (cxOf ps os) region = .ok out)
    (n : String) (hn : EntryName n x) (hk : PadCondN ps n x k)
    (x' : AnyObj) (inner : Inner) (hp : parseOne n (out ++ List.replicate k 0) = .ok (x', inner))
    (hps : ParentSim ps ps') (hkeys : (infos os').map L2.key = (infos os).map L2.key)
    (he2 : e2 = 0 ∨ (e2 = x.trl (sizeOfStack os) + k ∧ cut x e2 = e2))
    (hsz : sizeOfStack os' = sizeOfStack os + e2) :
    FixStep x x' os os' (cxOf ps' os') io out k e2 := by
  obtain ⟨hinv, hser, hside, hlink⟩ := hok
  have hsim : CtxSimA (cxOf ps os) (cxOf ps' os') := ctxSimA_cxOf hps hkeys
  cases x with
  | raw p => exact hside.elim
  | l2 o =>
    have hk0 : ¬ L2.EtherTier o → k = 0 := fun hne => by
      rcases hk with h | ⟨_, h | ⟨he, _⟩⟩
      · exact h
      · exact absurd h hne
      · cases he
    have hname : n = (L2.info o).1 := by rcases hn with h | h; exact h; exact h.elim
    subst hname
    have hna' : ∀ q, o = .dot1q q → q.appendPadding = true → e2 = L2.trl o (sizeOfStack os) + k :=
      fun q hq hqa => hna q (by rw [hq]) hqa
    have hid : x' = .l2 (L2.wr (cxOf ps os) o) ∧ L2.ObjInv (L2.wr (cxOf ps os) o) ∧ L2.Serializable (L2.wr (cxOf ps os) o) ∧
        (∀ l, o = .llc l → (cxOf ps os).innerCls ≠ some "STP") := by
      rcases linkAll_l2_cases o os hlink with ⟨y, r, rfl, hy, hl⟩ | ⟨y, r, nn, rfl, hy, hl⟩ | ⟨s, r, rfl, hl⟩ | hl
      · have hfront : L2Front o := l2Front_of_netP o y hl
        have hwi := wr_inv_front (cxOf ps (y :: r)) o hinv hfront
        exact ⟨l2_wr_of_parse (cxOf ps (y :: r)) o hinv hfront region hlen k hk0 out hw x' inner hp, hwi.1, hwi.2,
          fun l hl' => by subst hl'; exact hfront.elim⟩
      · have hfront : L2Front o := l2Front_of_ether o hl
        have hwi := wr_inv_front (cxOf ps (y :: r)) o hinv hfront
        exact ⟨l2_wr_of_parse (cxOf ps (y :: r)) o hinv hfront region hlen k hk0 out hw x' inner hp, hwi.1, hwi.2,
          fun l hl' => by subst hl'; exact hfront.elim⟩
      · exact absurd rfl (hnostp s r)
      · have hk' : k = 0 ∨ (ps ≠ [] ∧ L2.EtherTier o) := by
          rcases hk with h | ⟨hps', h | ⟨he, _⟩⟩
          · exact .inl h
          · exact .inr ⟨hps', h⟩
          · cases he
        rcases L2.l2_step ps o os hinv hl k hk' region io hlen hio hiol hnil hraw
          (fun y r h => hpos (.l2 y) r (by rw [h]; rfl)) with ⟨out2, x2, inner2, hw2, _, hp2, _, hx2, _⟩
        have := out_unique hw2 hw; subst this
        have hwi := L2.wr_inv ps o os hinv hl
        refine ⟨by rw [← hx2]; exact l2_obj_of_parse hp2 hp, hwi.1, hwi.2, ?_⟩
        intro l hl'
        subst hl'
        cases hnx : L2.next os with
        | none => have := L2.next_none hnx; subst this; rw [L2.cxOf_innerCls_nil]; exact fun h => by cases h
        | raw p => have := L2.next_raw hnx; rw [this, L2.cxOf_innerCls_raw]; decide
        | l2 y r => rw [hnx] at hl; simp [L2.Link] at hl
        | bad => rw [hnx] at hl; simp [L2.Link] at hl
    obtain ⟨hx', hwi1, hwi2, hstp⟩ := hid
    subst hx'
    exact l2_fix (cxOf ps os) (cxOf ps' os') o os os' k e2 hinv hser ⟨hwi1, hwi2⟩ hna' hstp rfl rfl region io hlen hio out hw hk0
      hsim he2 hsz
  | ip6 o =>
    cases o with
    | ip6 p =>
      have hname : n = "IPv6" := by rcases hn with h | h; exact h; exact h.elim
      subst hname
      have he0 : e2 = 0 := by
        rcases he2 with h | ⟨_, h⟩
        · exact h
        · exact h.symm
      subst he0
      obtain ⟨hhp, h16⟩ : (∀ h ∈ p.headers, Ip6.Ipv6.HdrParsed h) ∧ p.hdr + sizeOfStack os - 40 < 65536 := hside
      have hlen0 : region.length = p.hdr + sizeOfStack os := hlen
      have hnl : (Ip6.Ipv6.isExtensionHeader (Ip6.Ipv6.lastNext (cxOf ps os) p) &&
          Ip6.Ipv6.lastNext (cxOf ps os) p != Ip6.Ipv6.NO_NEXT_HEADER) = false := by
        cases hnx : nextA os with
        | none => have := nextA_none hnx; subst this; rw [lastNext_nil]; exact no_next_header_ok
        | raw q =>
          have := nextA_raw hnx; subst this
          have hl3 : Ip6TailOK p := by simpa only [LinkAll, hnx] using hlink
          rw [lastNext_raw]; exact hl3.1
        | obj y r =>
          have hos := (nextA_obj hnx).1; subst hos
          have hl2 : Ip6.Ipv6.hasFragment p.headers = false ∧ ProtoTier y := by simpa only [LinkAll, hnx] using hlink
          rw [lastNext_obj ps y r p hl2.2]; exact (protoTier_roundtrip y hl2.2).2.2.2
        | bad => simp only [LinkAll, hnx] at hlink
      exact fix_of_simple _ x' os os' _ region io out k rfl hlen hio hsz
        (ip6_fix (cxOf ps os) (cxOf ps' os') p hinv hhp hnl region (by rw [cxOf_innerSizeA]; exact hlen0) (by omega) _ out hw
          x' inner hp hsim)
  | icmp o =>
    have hk0 : k = 0 := k_zero_of_not_padOK hk (fun h => h) rfl
    subst hk0
    rw [List.replicate_zero, List.append_nil] at hp
    have hll := leaf_link hlink
    have htail : tailBytes os = io := by
      rcases hll with h | ⟨q, h⟩
      · rw [nextA_none h, hnil (nextA_none h)]; rfl
      · rw [nextA_raw h, hraw q (nextA_raw h)]; rfl
    cases o with
    | icmp p =>
      have hname : n = "ICMP" := by rcases hn with h | h; exact h; exact h.elim
      subst hname
      obtain ⟨hsm, hext, hg⟩ := hside
      have ht : p.trl (sizeOfStack os) = 0 := icmp_trl_zero p hext _
      have he0 : e2 = 0 := by
        rcases he2 with h | ⟨h, _⟩
        · exact h
        · rw [h]; show p.trl (sizeOfStack os) + 0 = 0; omega
      subst he0
      have hisz : (cxOf ps' os').innerSize = (cxOf ps os).innerSize := by
        rw [cxOf_innerSizeA, cxOf_innerSizeA, hsz]; rfl
      have hlen0 : region.length = p.hdr + sizeOfStack os := by
        have : region.length = p.hdr + sizeOfStack os + p.trl (sizeOfStack os) := hlen
        omega
      have hio' : region.drop p.hdr = io := by rw [← hio]; exact (take_drop_fullA region p.hdr _ hlen0).symm
      exact fix_of_simple (.icmp (.icmp p)) x' os os' _ region io out 0 ht hlen hio hsz
        (icmp_fix (cxOf ps os) (cxOf ps' os') p hinv hsm hext region (by omega)
          (fun ha => by have := hg ha; rw [htail, ← cxOf_innerSizeA ps os, ← hio'] at this; exact this)
          out hw x' inner hp hisz)
    | icmp6 p =>
      have hname : n = "ICMPv6" := by rcases hn with h | h; exact h; exact h.elim
      subst hname
      obtain ⟨hsm, hext, _, hbw, how, hg⟩ := hside
      have ht : p.trl (sizeOfStack os) = 0 := icmp6_trl_zero p hext _
      have he0 : e2 = 0 := by
        rcases he2 with h | ⟨h, _⟩
        · exact h
        · rw [h]; show p.trl (sizeOfStack os) + 0 = 0; omega
      subst he0
      have hisz : (cxOf ps' os').innerSize = (cxOf ps os).innerSize := by
        rw [cxOf_innerSizeA, cxOf_innerSizeA, hsz]; rfl
      have hlen0 : region.length = p.hdr + sizeOfStack os := by
        have : region.length = p.hdr + sizeOfStack os + p.trl (sizeOfStack os) := hlen
        omega
      have hio' : region.drop p.hdr = io := by rw [← hio]; exact (take_drop_fullA region p.hdr _ hlen0).symm
      rw [htail, ← cxOf_innerSizeA ps os] at hbw hg
      rw [htail] at how
      exact fix_of_simple (.icmp (.icmp6 p)) x' os os' _ region io out 0 ht hlen hio hsz
        (icmp6_fix (cxOf ps os) (cxOf ps' os') p hinv hser hsm hext region (by omega) (by rw [hio']; exact hbw)
          (by rw [hio']; exact how) (by rw [hio']; exact hg) out hw x' inner hp hsim hisz)
  | app o =>
    cases o with
    | arp a =>
      have hname : n = "ARP" := by rcases hn with h | h; exact h; exact h.elim
      subst hname
      have he2' : e2 = 0 ∨ e2 = k := by
        rcases he2 with h | ⟨h, _⟩
        · exact .inl h
        · right; rw [h]; show 0 + k = k; omega
      have hlen0 : region.length = 28 + sizeOfStack os := hlen
      have hio' : region.drop 28 = io := by rw [← hio]; exact (take_drop_fullA region 28 _ hlen0).symm
      exact arp_fix (cxOf ps os) (cxOf ps' os') a hinv os os' region io hlen0 hio' out hw k x' inner hp e2 he2' hsz
    | vxlan v =>
      have hname : n = "VXLAN" := by rcases hn with h | h; exact h; exact h.elim
      subst hname
      have hk0 : k = 0 := k_zero_of_not_padOK hk (fun h => h) rfl
      subst hk0
      have he0 : e2 = 0 := by
        rcases he2 with h | ⟨h, _⟩
        · exact h
        · exact h
      subst he0
      rw [List.replicate_zero, List.append_nil] at hp
      have hlen0 : region.length = 8 + sizeOfStack os := hlen
      exact fix_of_simple _ x' os os' _ region io out 0 rfl hlen hio hsz
        (vxlan_fix (cxOf ps os) (cxOf ps' os') v hinv region (by omega) out hw x' inner hp)
    | rtp t =>
      have hname : n = "RTP" := by rcases hn with h | h; exact h; exact h.elim
      subst hname
      have hk0 : k = 0 := k_zero_of_not_padOK hk (fun h => h) rfl
      subst hk0
      have he0 : e2 = 0 := by
        rcases he2 with h | ⟨_, h⟩
        · exact h
        · exact h.symm
      subst he0
      rw [List.replicate_zero, List.append_nil] at hp
      exact rtp_fix (cxOf ps os) (cxOf ps' os') t hinv hside os os' region io rfl rfl hlen hio out hw x' inner hp hsz
    | stp s =>
      have := nextA_none (none_link hlink); subst this
      exact absurd (splitRaw_single _ rfl) hpay
    | bootp s =>
      have := nextA_none (none_link hlink); subst this
      exact absurd (splitRaw_single _ rfl) hpay
    | dhcp s =>
      have := nextA_none (none_link hlink); subst this
      exact absurd (splitRaw_single _ rfl) hpay
    | dhcpv6 s =>
      have := nextA_none (none_link hlink); subst this
      exact absurd (splitRaw_single _ rfl) hpay
  | wifi o =>
    cases o with
    | dot11 d =>
      have hk0 : k = 0 := k_zero_of_not_padOK hk (fun h => h) rfl
      subst hk0
      have he0 : e2 = 0 := by
        rcases he2 with h | ⟨h, _⟩
        · exact h
        · exact h
      subst he0
      rw [List.replicate_zero, List.append_nil] at hp
      have hlen0 : region.length = d.hdrSize + sizeOfStack os := hlen
      have hio' : region.drop d.hdrSize = io := by rw [← hio]; exact (take_drop_fullA region d.hdrSize _ hlen0).symm
      exact fix_of_simple _ x' os os' _ region io out 0 rfl hlen hio hsz
        (dot11_fix (cxOf ps' os') d os hinv hser hside hlink n hn region io hlen0 hio' hnil hraw hpos out hw x' inner hp)
    | eapol e =>
      have he0 : e2 = 0 := by
        rcases he2 with h | ⟨_, h⟩
        · exact h
        · exact h.symm
      subst he0
      have hk' : k = 0 ∨ n = "EAPOL" ∨ n = "EAPOL*" := by
        rcases hk with h | ⟨_, h | ⟨_, h⟩⟩
        · exact .inl h
        · exact h.elim
        · exact .inr h
      have hlen0 : region.length = e.hdrSize + sizeOfStack os := hlen
      have hio' : region.drop e.hdrSize = io := by rw [← hio]; exact (take_drop_fullA region e.hdrSize _ hlen0).symm
      exact fix_of_simple _ x' os os' _ region io out k rfl hlen hio hsz
        (eapol_fix (cxOf ps' os') e os hinv hside n hn k hk' region io hlen0 hio' hnil out hw x' inner hp)
    | radiotap t =>
      have hname : n = "RadioTap" := by rcases hn with h | h; exact h; exact h.elim
      subst hname
      have hk0 : k = 0 := k_zero_of_not_padOK hk (fun h => h) rfl
      subst hk0
      have he0 : e2 = 0 := by
        rcases he2 with h | ⟨_, h⟩
        · exact h
        · exact h.symm
      subst he0
      rw [List.replicate_zero, List.append_nil] at hp
      rcases radiotap_link_cases t os hlink with ⟨rfl, _⟩ | ⟨d, r, rfl, _⟩
      · exact absurd (splitRaw_single _ rfl) hpay
      · have hne' : (cxOf ps' os').inners.isEmpty = false := by rw [hsim.isEmpty]; rfl
        have h4 : 4 ≤ io.length + t.trl := by
          have := dot11_size_ge d r
          omega
        exact radiotap_fix (cxOf ps (.wifi (.dot11 d) :: r)) (cxOf ps' os') t hinv hside _ os' rfl hne' rfl rfl region io hlen hio
          h4 out hw x' inner hp hsz
  | ip o =>
    cases o with
    | ip i =>
      have hname : n = "IP" := by rcases hn with h | h; exact h; exact h.elim
      subst hname
      have he0 : e2 = 0 := by
        rcases he2 with h | ⟨_, h⟩
        · exact h
        · exact h.symm
      subst he0
      obtain ⟨hnrm, h16⟩ : i.Normal ∧ i.hdr + sizeOfStack os < 65536 := hside
      have hlen0 : region.length = i.hdr + sizeOfStack os := hlen
      exact fix_of_simple _ x' os os' _ region io out k rfl hlen hio hsz
        (ip_fix (cxOf ps os) (cxOf ps' os') i hinv hnrm hser region (by omega) (by omega) _ out hw x' inner hp hsim)
    | ah a =>
      have hname : n = "IPSecAH" := by rcases hn with h | h; exact h; exact h.elim
      subst hname
      have hk0 : k = 0 := k_zero_of_not_padOK hk (fun h => h) rfl
      subst hk0
      have he0 : e2 = 0 := by
        rcases he2 with h | ⟨h, _⟩
        · exact h
        · exact h
      subst he0
      rw [List.replicate_zero, List.append_nil] at hp
      have hlen0 : region.length = a.hdr + sizeOfStack os := hlen
      exact fix_of_simple _ x' os os' _ region io out 0 rfl hlen hio hsz
        (ah_fix (cxOf ps os) (cxOf ps' os') a hinv hside region (by omega) out hw x' inner hp hsim)
    | esp e =>
      have hname : n = "IPSecESP" := by rcases hn with h | h; exact h; exact h.elim
      subst hname
      have hk0 : k = 0 := k_zero_of_not_padOK hk (fun h => h) rfl
      subst hk0
      have he0 : e2 = 0 := by
        rcases he2 with h | ⟨h, _⟩
        · exact h
        · exact h
      subst he0
      rw [List.replicate_zero, List.append_nil] at hp
      have hlen0 : region.length = 8 + sizeOfStack os := hlen
      exact fix_of_simple _ x' os os' _ region io out 0 rfl hlen hio hsz
        (esp_fix (cxOf ps os) (cxOf ps' os') e hinv region (by omega) out hw x' inner hp)
  | tr o =>
    have hk0 : k = 0 := k_zero_of_not_padOK hk (fun h => h) rfl
    subst hk0
    have he0 : e2 = 0 := by
      rcases he2 with h | ⟨h, _⟩
      · exact h
      · exact h
    subst he0
    rw [List.replicate_zero, List.append_nil] at hp
    have hisz : (cxOf ps' os').innerSize = (cxOf ps os).innerSize := by
      rw [cxOf_innerSizeA, cxOf_innerSizeA, hsz]; rfl
    cases o with
    | udp u =>
      have hname : n = "UDP" := by rcases hn with h | h; exact h; exact h.elim
      subst hname
      have hlen0 : region.length = 8 + sizeOfStack os := hlen
      exact fix_of_simple _ x' os os' _ region io out 0 rfl hlen hio hsz
        (udp_fix (cxOf ps os) (cxOf ps' os') u hinv region (by omega) out hw x' inner hp hsim hisz)
    | tcp t =>
      have hname : n = "TCP" := by rcases hn with h | h; exact h; exact h.elim
      subst hname
      have hlen0 : region.length = t.hdr + sizeOfStack os := hlen
      exact fix_of_simple _ x' os os' _ region io out 0 rfl hlen hio hsz
        (tcp_fix (cxOf ps os) (cxOf ps' os') t hinv hside hser region (by omega) out hw x' inner hp hsim hisz)

end Tins.Wire.ChainAll
