import TinsModel.Wire.Chain.FixIp
import TinsModel.Wire.Chain.FixTransport
/-
  Second-serialization fixed point, part 3: **the one-layer step for every covered class** (`fix_all`) over the interface the
  registry uses.

  Setting: layer `x` (representable above the stack `os`) was written around the bytes `io` of its inner chain (`out`); the
  parsing constructor reached under the entry name `n`, run on `out` followed by `k` zero bytes of an enclosing layer's
  minimum-frame padding, returned `x'`.  The re-parsed inner chain `os'` shows the same classes / EtherTypes (`hkeys`) and
  serializes to `io` followed by `e2` zero bytes — the padding that reached the payload: all of it (`e2 = trl + k`, only when
  `x` hands everything behind its header to the next layer) or none (`e2 = 0`: cut off by a length field at or below `x`).
  Then `x'`, in a context the writers cannot tell from the first one, writes `out` again — followed by the `k` zero bytes when
  they have become payload.
-/
namespace Tins.Wire.ChainAll
open Tins Tins.Wire
open Tins.Wire.L2 (layerView splitRaw stripView padOf ViewEq IsTail TailInner cxOf)

/-- classes `fix_all` covers so far -/
def FixCov : AnyObj → Prop
  | .raw _ => True
  | .ip _ => True
  | .tr _ => True
  | _ => False

/-- `append_padding_` of a Dot1Q is object state that is not on the wire (KF-C04-L2-4); parsed objects never have it -/
def NoApp (o : AnyObj) : Prop := ∀ q, o = .l2 (.dot1q q) → q.appendPadding = false

/-- the conclusion of `fix_all` -/
def FixStep (x x' : AnyObj) (os os' : List AnyObj) (cx' : Ctx) (io out : Bytes) (k e2 : Nat) : Prop :=
  x'.hdr + x'.trl (sizeOfStack os') + e2 = x.hdr + x.trl (sizeOfStack os) + (if e2 = 0 then 0 else k) ∧
  ∀ region' : Bytes, region'.length = x'.hdr + sizeOfStack os' + x'.trl (sizeOfStack os') →
    (region'.drop x'.hdr).take (sizeOfStack os') = io ++ List.replicate e2 0 →
    x'.write cx' region' = .ok (out ++ List.replicate (if e2 = 0 then 0 else k) 0)

/-- classes without a trailer below which no padding arrives: the class lemma gives the step -/
theorem fix_of_simple (x x' : AnyObj) (os os' : List AnyObj) (cx' : Ctx) (region io out : Bytes) (k : Nat)
    (ht : x.trl (sizeOfStack os) = 0)
    (hlen : region.length = x.hdr + sizeOfStack os + x.trl (sizeOfStack os))
    (hio : (region.drop x.hdr).take (sizeOfStack os) = io)
    (hsz : sizeOfStack os' = sizeOfStack os + 0)
    (hcls : x'.hdr = x.hdr ∧ (∀ n, x'.trl n = 0) ∧
      ∀ region' : Bytes, region'.length = region.length → region'.drop x.hdr = region.drop x.hdr →
        x'.write cx' region' = .ok out) :
    FixStep x x' os os' cx' io out k 0 := by
  obtain ⟨hh, ht', hwr⟩ := hcls
  refine ⟨by rw [hh, ht', ht]; simp, ?_⟩
  intro region' hlen' hio'
  rw [hh, ht', hsz, Nat.add_zero] at hlen'
  rw [hh, hsz, Nat.add_zero, List.replicate_zero, List.append_nil] at hio'
  rw [ht] at hlen
  simp only [if_pos, List.replicate_zero, List.append_nil]
  apply hwr region' (by omega)
  have h1 : (region'.drop x.hdr).take (sizeOfStack os) = region'.drop x.hdr :=
    List.take_of_length_le (by simp only [List.length_drop]; omega)
  have h2 : (region.drop x.hdr).take (sizeOfStack os) = region.drop x.hdr :=
    List.take_of_length_le (by simp only [List.length_drop]; omega)
  rw [← h1, ← h2, hio, hio']

/-- under the name of a class that tolerates no padding nothing follows the region -/
theorem k_zero_of_not_padOK {ps : List LayerInfo} {n : String} {x : AnyObj} {k : Nat} (hk : PadCondN ps n x k)
    (h1 : ¬ PadOK x) (h2 : isEapol x = false) : k = 0 := by
  rcases hk with h | ⟨_, h | ⟨he, _⟩⟩
  · exact h
  · exact absurd h h1
  · rw [h2] at he; cases he

/-- **the one-layer step of the second-serialization fixed point, every covered class** -/
theorem fix_all (ps ps' : List LayerInfo) (x : AnyObj) (os os' : List AnyObj) (hok : LayerOK x os) (hcov : FixCov x)
    (_hna : NoApp x) (_hpay : (splitRaw (x :: os)).2 ≠ [])
    (region io : Bytes)
    (hlen : region.length = x.hdr + sizeOfStack os + x.trl (sizeOfStack os))
    (hio : (region.drop x.hdr).take (sizeOfStack os) = io) (_hiol : io.length = sizeOfStack os)
    (out : Bytes) (hw : x.write (cxOf ps os) region = .ok out)
    (n : String) (k : Nat) (hn : EntryName n x) (hk : PadCondN ps n x k)
    (x' : AnyObj) (inner : Inner) (hp : parseOne n (out ++ List.replicate k 0) = .ok (x', inner))
    (hps : ParentSim ps ps') (hkeys : (infos os').map L2.key = (infos os).map L2.key)
    (e2 : Nat) (he2 : e2 = 0 ∨ (e2 = x.trl (sizeOfStack os) + k ∧ cut x e2 = e2))
    (hsz : sizeOfStack os' = sizeOfStack os + e2) :
    FixStep x x' os os' (cxOf ps' os') io out k e2 := by
  obtain ⟨hinv, hser, hside, hlink⟩ := hok
  have hsim : CtxSimA (cxOf ps os) (cxOf ps' os') := ctxSimA_cxOf hps hkeys
  cases x with
  | raw p => exact hside.elim
  | l2 o => exact hcov.elim
  | ip6 o => exact hcov.elim
  | icmp o => exact hcov.elim
  | app o => exact hcov.elim
  | wifi o => exact hcov.elim
  | ip o =>
    cases o with
    | ip i =>
      have hname : n = "IP" := by rcases hn with h | h; exact h; exact h.elim
      subst hname
      have he0 : e2 = 0 := by
        rcases he2 with h | ⟨_, h⟩
        · exact h
        · exact h.symm
      subst he0
      obtain ⟨hnrm, h16⟩ : i.Normal ∧ i.hdr + sizeOfStack os < 65536 := hside
      have hlen0 : region.length = i.hdr + sizeOfStack os := hlen
      exact fix_of_simple _ x' os os' _ region io out k rfl hlen hio hsz
        (ip_fix (cxOf ps os) (cxOf ps' os') i hinv hnrm hser region (by omega) (by omega) _ out hw x' inner hp hsim)
    | ah a =>
      have hname : n = "IPSecAH" := by rcases hn with h | h; exact h; exact h.elim
      subst hname
      have hk0 : k = 0 := k_zero_of_not_padOK hk (fun h => h) rfl
      subst hk0
      have he0 : e2 = 0 := by
        rcases he2 with h | ⟨h, _⟩
        · exact h
        · exact h
      subst he0
      rw [List.replicate_zero, List.append_nil] at hp
      have hlen0 : region.length = a.hdr + sizeOfStack os := hlen
      exact fix_of_simple _ x' os os' _ region io out 0 rfl hlen hio hsz
        (ah_fix (cxOf ps os) (cxOf ps' os') a hinv hside region (by omega) out hw x' inner hp hsim)
    | esp e =>
      have hname : n = "IPSecESP" := by rcases hn with h | h; exact h; exact h.elim
      subst hname
      have hk0 : k = 0 := k_zero_of_not_padOK hk (fun h => h) rfl
      subst hk0
      have he0 : e2 = 0 := by
        rcases he2 with h | ⟨h, _⟩
        · exact h
        · exact h
      subst he0
      rw [List.replicate_zero, List.append_nil] at hp
      have hlen0 : region.length = 8 + sizeOfStack os := hlen
      exact fix_of_simple _ x' os os' _ region io out 0 rfl hlen hio hsz
        (esp_fix (cxOf ps os) (cxOf ps' os') e hinv region (by omega) out hw x' inner hp)
  | tr o =>
    have hk0 : k = 0 := k_zero_of_not_padOK hk (fun h => h) rfl
    subst hk0
    have he0 : e2 = 0 := by
      rcases he2 with h | ⟨h, _⟩
      · exact h
      · exact h
    subst he0
    rw [List.replicate_zero, List.append_nil] at hp
    have hisz : (cxOf ps' os').innerSize = (cxOf ps os).innerSize := by
      rw [cxOf_innerSizeA, cxOf_innerSizeA, hsz]; rfl
    cases o with
    | udp u =>
      have hname : n = "UDP" := by rcases hn with h | h; exact h; exact h.elim
      subst hname
      have hlen0 : region.length = 8 + sizeOfStack os := hlen
      exact fix_of_simple _ x' os os' _ region io out 0 rfl hlen hio hsz
        (udp_fix (cxOf ps os) (cxOf ps' os') u hinv region (by omega) out hw x' inner hp hsim hisz)
    | tcp t =>
      have hname : n = "TCP" := by rcases hn with h | h; exact h; exact h.elim
      subst hname
      have hlen0 : region.length = t.hdr + sizeOfStack os := hlen
      exact fix_of_simple _ x' os os' _ region io out 0 rfl hlen hio hsz
        (tcp_fix (cxOf ps os) (cxOf ps' os') t hinv hside hser region (by omega) out hw x' inner hp hsim hisz)

end Tins.Wire.ChainAll
