import TinsModel.Wire.Chain.FixAll
import TinsModel.Wire.Chain.ParseAll
/-
  **Whole-packet C03, second half, over all covered families** — "serializing the re-parsed packet reproduces the first
  serialization byte for byte whenever the innermost payload is non-empty".

  `chain_fix_aux_all` extends the induction of `chain_reparse_aux_all` (ReparseAll.lean): besides re-parsing the serialization
  of every sub-stack it serializes the re-parsed sub-stack again, in the context the re-parsed ancestors give it (`ReFix`):
  the inner chain first (`PDU::serialize` recurses before `write_serialization`), so that the derived lengths, checksums and
  tags of a layer are recomputed over inner bytes that are already known to be the same (`fix_all`).

  Minimum-frame padding (EthernetII to 60 bytes): after the first round trip the zero bytes that reached the payload *are*
  payload; the second serialization then has nothing to pad, and produces the same bytes (`e` of `ReFix`: the number of zero
  bytes behind the sub-stack's region that its re-parsed version serializes as its own — all `k` or none).
-/
namespace Tins.Wire.ChainAll
open Tins Tins.Wire
open Tins.Wire.L2 (layerView splitRaw stripView padOf ViewEq IsTail TailInner cxOf)

/-- no Dot1Q pads on behalf of `append_padding_` (object state that is not on the wire: KF-C04-L2-4) -/
def NoAppAll (os : List AnyObj) : Prop := ∀ o ∈ os, NoApp o

/-- **the region excluded from the fixed point for stacks that did not come out of a parser** (KF-C04-L2-4): a Dot1Q that
    pads on behalf of `append_padding_` — object state that is not on the wire and that the parser clears — above a layer whose
    length field cuts the padding off (PPPoE, IP, IPv6, EAPOL through its factory, RadioTap, RTP, STP …): the re-parsed packet
    neither carries the padding in its payload nor re-creates it.  `PadKeptAll` is the complement: wherever a Dot1Q pads, the
    padding reaches the payload (`passes`).  Decidable; never the case for a parsed stack (`padKeptAll_of_noApp`). -/
def PadKeptAll : List AnyObj → Prop
  | [] => True
  | .l2 (.dot1q q) :: r => (q.appendPadding = true → passes r = true) ∧ PadKeptAll r
  | _ :: r => PadKeptAll r

theorem padKeptAll_cons {x : AnyObj} {r : List AnyObj} (h : PadKeptAll (x :: r)) :
    (∀ q, x = .l2 (.dot1q q) → q.appendPadding = true → passes r = true) ∧ PadKeptAll r := by
  cases x with
  | l2 o =>
    cases o with
    | dot1q q => exact ⟨fun q' hq => (by injection hq with hq; injection hq with hq; subst hq; exact h.1), h.2⟩
    | _ => exact ⟨fun q hq => (by injection hq with hq; cases hq), h⟩
  | _ => exact ⟨fun q hq => (by cases hq), h⟩

theorem padKeptAll_of_noApp (os : List AnyObj) (h : NoAppAll os) : PadKeptAll os := by
  induction os with
  | nil => trivial
  | cons a r ih =>
    have hr : NoAppAll r := fun o ho => h o (List.mem_cons_of_mem _ ho)
    cases a with
    | l2 x =>
      cases x with
      | dot1q q =>
        exact ⟨fun ht => absurd ((h _ List.mem_cons_self q rfl).symm.trans ht) (by decide), ih hr⟩
      | _ => exact ih hr
    | _ => exact ih hr

/-- the re-parsed sub-stack `os'` of `os` (serialized as `out`, re-parsed with `k` zero bytes behind it): it shows its
    ancestors the same classes and EtherTypes, and under ancestors the writers cannot tell from the original ones (`ParentSim`)
    it serializes to `out` followed by the `e` zero bytes that became payload -/
def ReFix (ps : List LayerInfo) (os : List AnyObj) (out : Bytes) (k : Nat) (os' : List AnyObj) : Prop :=
  (infos os').map L2.key = (infos os).map L2.key ∧
  ∃ e, (e = 0 ∨ e = k) ∧ (passes os = true → e = k) ∧ sizeOfStack os' = sizeOfStack os + e ∧
    ∀ (ps' : List LayerInfo) (region' : Bytes), ParentSim ps ps' → region'.length = sizeOfStack os' →
      serializeInto (semsAux ps' os' (infos os')) region' = .ok (out ++ List.replicate e 0)

/-- a final RawPDU: the padding behind it becomes payload -/
theorem reFix_raw (ps : List LayerInfo) (p : Bytes) (k : Nat) : ReFix ps [.raw p] p k [.raw (p ++ List.replicate k 0)] := by
  refine ⟨?_, k, .inr rfl, fun _ => rfl, ?_, ?_⟩
  · simp only [infos, List.map_cons, List.map_nil, AnyObj.info, L2.key, L2.etherTagOf_raw]
  · rw [sizeOfStack_raw, sizeOfStack_raw]; simp
  · intro ps' region' _ hl
    rw [sizeOfStack_raw] at hl
    exact L2.serializeInto_raw ps' _ region' hl

/-- **one layer on top of a sub-stack whose second serialization is known** -/
theorem chain_fix_layer (x : AnyObj) (os : List AnyObj) (ps : List LayerInfo) (region : Bytes)
    (hok : LayerOK x os) (hpk : ∀ q, x = .l2 (.dot1q q) → q.appendPadding = true → passes os = true)
    (hpay : (splitRaw (x :: os)).2 ≠ [])
    (hlen : region.length = Wire.sizeOf (semsAux ps (x :: os) (infos (x :: os)))) (io : Bytes)
    (hio : serializeInto (semsAux (liOfA x os :: ps) os (infos os)) (innerOf (semOfA ps x os) region) = .ok io)
    (hiol : io.length = sizeOfStack os)
    (hnil : os = [] → io = []) (hraw : ∀ p, os = [.raw p] → io = p)
    (hpos : ∀ y r, nextA os = .obj y r → 0 < io.length) (hnostp : ∀ s r, os ≠ .app (.stp s) :: r)
    (out : Bytes) (hser : serializeInto (semsAux ps (x :: os) (infos (x :: os))) region = .ok out)
    (n : String) (k : Nat) (hn : EntryName n x) (hk : PadCondN ps n x k)
    (x' : AnyObj) (inner : Inner) (hp : parseOne n (out ++ List.replicate k 0) = .ok (x', inner))
    (hv : layerView false x' = layerView false x) (os'' : List AnyObj)
    (hsub : ReFix (liOfA x os :: ps) os io (cut x (x.trl (sizeOfStack os) + k)) os'') :
    ReFix ps (x :: os) out k (x' :: os'') := by
  obtain ⟨hkeys, e2, he2, hpass2, hsz2, hser2⟩ := hsub
  have hna : ∀ q, x = .l2 (.dot1q q) → q.appendPadding = true → e2 = x.trl (sizeOfStack os) + k := by
    intro q hq hqa
    have h1 := hpass2 (hpk q hq hqa)
    rw [h1]
    exact cut_of_keeps (by subst hq; rfl) _
  have hlen0 := hlen
  rw [semsAux_consA] at hlen0
  simp only [Wire.sizeOf, sizeOf_semsAuxA, semOfA_hdr, semOfA_trl] at hlen0
  -- the first serialization of this layer
  have hw : x.write (cxOf ps os) (splice region x.hdr io) = .ok out := by
    rw [serializeInto_consA, hio] at hser
    exact hser
  have hsl : (splice region x.hdr io).length = region.length := splice_length _ _ _ (by omega)
  have hin : ((splice region x.hdr io).drop x.hdr).take (sizeOfStack os) = io :=
    L2.splice_inner region io x.hdr (sizeOfStack os) (x.trl (sizeOfStack os)) (by omega) hiol
  have he2' : e2 = 0 ∨ (e2 = x.trl (sizeOfStack os) + k ∧ cut x e2 = e2) := by
    rcases he2 with h | h
    · exact .inl h
    · rcases cut_all_or_none x (x.trl (sizeOfStack os) + k) with hc | hc
      · exact .inl (by omega)
      · exact .inr ⟨by omega, by rw [h, hc, hc]⟩
  have hstep := fun (ps' : List LayerInfo) (hps : ParentSim ps ps') =>
    fix_all ps ps' x os os'' k e2 hok hna hpay (splice region x.hdr io) io (by rw [hsl]; omega) hin hiol hnil hraw hpos hnostp
      out hw n hn hk x' inner hp hps hkeys he2' hsz2
  have hsize := (hstep ps (ParentSim.refl ps)).1
  refine ⟨keys_cons hv os os'' hkeys, (if e2 = 0 then 0 else k), by split <;> simp, ?_, ?_, ?_⟩
  · intro hpass
    rw [passes_cons (not_raw_of_layerOK x os hok), Bool.and_eq_true] at hpass
    have h1 := hpass2 hpass.2
    rw [cut_of_keeps hpass.1] at h1
    split
    · omega
    · rfl
  · rw [sizeOfStack_cons, sizeOfStack_cons]; omega
  · intro ps' region' hps hlen'
    rw [sizeOfStack_cons] at hlen'
    rw [serializeInto_consA]
    have hil : (innerOf (semOfA ps' x' os'') region').length = sizeOfStack os'' := by
      simp only [innerOf, semOfA_hdr, semOfA_trl, List.length_take, List.length_drop]; omega
    rw [hser2 (liOfA x' os'' :: ps') _ (parentSim_cons hv os os'' ps ps') hil]
    have hml : (io ++ List.replicate e2 (0 : UInt8)).length = sizeOfStack os'' := by
      simp only [List.length_append, List.length_replicate, hiol, hsz2]
    show x'.write (cxOf ps' os'') (splice region' x'.hdr (io ++ List.replicate e2 0)) = _
    apply (hstep ps' hps).2
    · rw [splice_length _ _ _ (by omega)]; omega
    · exact L2.splice_inner region' _ x'.hdr (sizeOfStack os'') (x'.trl (sizeOfStack os'')) (by omega) hml

/-- **the induction over the stack**: `chain_reparse_aux_all` with the second serialization -/
theorem chain_fix_aux_all (os : List AnyObj) : ∀ (x : AnyObj) (ps : List LayerInfo) (region : Bytes),
    isRaw x = false → StackableAll (x :: os) → PadKeptAll (x :: os) → (splitRaw (x :: os)).2 ≠ [] →
    region.length = Wire.sizeOf (semsAux ps (x :: os) (infos (x :: os))) →
    ∃ out, serializeInto (semsAux ps (x :: os) (infos (x :: os))) region = .ok out ∧ out.length = region.length ∧
      FirstNib x out ∧
      ∀ n k, EntryName n x → PadCondN ps n x k → ∀ fuel, out.length + k < fuel →
        ∃ os', parseChain fuel n (out ++ List.replicate k 0) = .ok os' ∧ ReFix ps (x :: os) out k os' := by
  induction os with
  | nil =>
    intro x ps region hx _ _ hpay _
    exact absurd (splitRaw_single x hx) hpay
  | cons a r ih =>
    intro x ps region hx hst hcv hpay hlen
    rw [stackableAll_cons hx] at hst
    obtain ⟨hok, hst'⟩ := hst
    obtain ⟨hcx, hcv'⟩ := padKeptAll_cons hcv
    have hlen0 := hlen
    rw [semsAux_consA] at hlen0
    simp only [Wire.sizeOf, sizeOf_semsAuxA, semOfA_hdr, semOfA_trl] at hlen0
    have hil : (innerOf (semOfA ps x (a :: r)) region).length = sizeOfStack (a :: r) := by
      simp only [innerOf, semOfA_hdr, semOfA_trl, List.length_take, List.length_drop]; omega
    cases ha : isRaw a with
    | true =>
      cases a with
      | raw p =>
        have hr : r = [] := hst'
        subst hr
        have hsz := sizeOfStack_raw p
        have hio := L2.serializeInto_raw (liOfA x [.raw p] :: ps) p (innerOf (semOfA ps x [.raw p]) region) (by rw [hil, hsz])
        rcases chain_step_all x [.raw p] ps region hok hlen p hio (by rw [hsz]) (fun h => by cases h)
          (fun q h => by cases h; rfl) (fun y r h => by cases h) (fun y r h => by cases h) with
          ⟨out, hser, hl, hf, hstep⟩
        refine ⟨out, hser, hl, hf, ?_⟩
        intro n k hn hk fuel hfu
        rcases hstep n k hn hk with ⟨x', inner, hp, hv, hs⟩
        obtain ⟨f, rfl⟩ : ∃ f, fuel = f + 1 := ⟨fuel - 1, by omega⟩
        unfold StepInnerA at hs
        have hnx : nextA [AnyObj.raw p] = .raw p := rfl
        rw [hnx] at hs
        obtain ⟨_, ht⟩ := hs
        have hp0 : p ≠ [] := by
          have : (splitRaw [x, .raw p]).2 = p := by cases x <;> rfl
          rw [this] at hpay; exact hpay
        have hinner : inner = .raw (p ++ List.replicate (cut x (x.trl (sizeOfStack [.raw p]) + k)) 0) := by
          rcases ht with ⟨_, h⟩ | h
          · exact absurd (List.append_eq_nil_iff.mp h).1 hp0
          · exact h
        subst hinner
        have hname := name_of_entry n x _ hn hok
        refine ⟨[x', .raw (p ++ List.replicate (cut x (x.trl (sizeOfStack [.raw p]) + k)) 0)],
          by simp [parseChain, hname.1, hp], ?_⟩
        exact chain_fix_layer x [.raw p] ps region hok hcx hpay hlen p hio (by rw [hsz]) (fun h => by cases h)
          (fun q h => by cases h; rfl) (fun y r h => by cases h) (fun s r h => by cases h) out hser n k hn hk x' _ hp hv _
          (reFix_raw _ p _)
      | _ => cases ha
    | false =>
      have hst'' := hst'
      rw [stackableAll_cons ha] at hst''
      have hoka := hst''.1
      have hnx : nextA (a :: r) = .obj a r := nextA_cons_of_not_raw a r ha
      have hpay' : (splitRaw (a :: r)).2 ≠ [] := by rw [L2.splitRaw_cons_cons] at hpay; exact hpay
      rcases ih a (liOfA x (a :: r) :: ps) (innerOf (semOfA ps x (a :: r)) region) ha hst' hcv' hpay'
        (by rw [hil, sizeOf_semsAuxA]) with ⟨io, hio, hiol, hfn, hpar⟩
      have hapos := hdrA_pos a r hoka
      have hnostp : ∀ s r', a :: r ≠ .app (.stp s) :: r' := by
        intro s r' h
        injection h with h1 h2
        subst h1; subst h2
        have hlk : LinkAll (.app (.stp s)) r := hoka.2.2.2
        have hr : r = [] := by
          cases hn' : nextA r with
          | none => exact nextA_none hn'
          | raw p => simp only [LinkAll, hn'] at hlk
          | obj y t => simp only [LinkAll, hn'] at hlk
          | bad => simp only [LinkAll, hn'] at hlk
        subst hr
        exact hpay' rfl
      have hiopos : 0 < io.length := by
        rw [hiol, hil, sizeOfStack_cons]; omega
      rcases chain_step_all x (a :: r) ps region hok hlen io hio (by rw [hiol, hil]) (fun h => by cases h)
        (fun q h => by cases h; cases ha) (fun _ _ _ => hiopos)
        (fun y r' h => by rw [hnx] at h; injection h with h1 h2; subst h1; exact hfn) with
        ⟨out, hser, hl, hf, hstep⟩
      refine ⟨out, hser, hl, hf, ?_⟩
      intro n k hn hk fuel hfu
      rcases hstep n k hn hk with ⟨x', inner, hp, hv, hs⟩
      obtain ⟨f, rfl⟩ : ∃ f, fuel = f + 1 := ⟨fuel - 1, by omega⟩
      unfold StepInnerA at hs
      rw [hnx] at hs
      obtain ⟨n', fb, hinner, hen', hpad'⟩ := hs
      subst hinner
      have hxpos := hdrA_pos x _ hok
      have hcl := cut_le x (x.trl (sizeOfStack (a :: r)) + k)
      have hname := name_of_entry n x _ hn hok
      rcases hpar n' (cut x (x.trl (sizeOfStack (a :: r)) + k)) hen'
        (by rcases hpad' with h | h; exact .inl h; exact .inr ⟨by simp, h⟩) f (by rw [hiol, hil]; omega) with
        ⟨os'', hrec, hsub⟩
      refine ⟨_, L2.parseChain_cls f _ _ _ _ _ _ _ hname.1 hp hrec, ?_⟩
      exact chain_fix_layer x (a :: r) ps region hok hcx hpay hlen io hio (by rw [hiol, hil]) (fun h => by cases h)
        (fun q h => by cases h; cases ha) (fun _ _ _ => hiopos) hnostp out hser n k hn hk x' _ hp hv os'' hsub

/-- **second-serialization fixed point, whole packets of all seven families, under any entry name**: for every
    representable stack (`StackableAll`) outside the region `PadKeptAll` excludes (a Dot1Q that pads on behalf of
    `append_padding_` above a length-delimited payload) whose innermost payload is non-empty, parsing the serialization `out`
    under an entry name of the outermost class and serializing the result gives `out` again. -/
theorem chain_fixpoint_named (n : String) (o : AnyObj) (os : List AnyObj) (hn : EntryName n o)
    (hs : StackableAll (o :: os)) (hc : PadKeptAll (o :: os)) (hpay : (splitRaw (o :: os)).2 ≠ [])
    (out : Bytes) (hser : serializeObjs (o :: os) = .ok out) :
    ∃ os', parseChain (out.length + 2) n out = .ok os' ∧ serializeObjs os' = .ok out := by
  cases ho : isRaw o with
  | true =>
    cases o with
    | raw p =>
      have hr : os = [] := hs
      subst hr
      have hnr : n = "RawPDU" := by
        rcases hn with h | h
        · exact h
        · exact h.elim
      subst hnr
      have hser' : serializeInto (semsAux [] [.raw p] (infos [.raw p])) (List.replicate p.length 0) = .ok out := by
        have : Wire.sizeOf (semsAux [] [.raw p] (infos [.raw p])) = p.length := by
          simp [semsAux, infos, Wire.sizeOf, AnyObj.hdr, AnyObj.trl]
        rw [← this]; exact hser
      rw [L2.serializeInto_raw [] p _ (by simp)] at hser'
      injection hser' with hser'
      subst hser'
      exact ⟨[.raw p], by simp [parseChain, modelled, parseOne], hser⟩
    | _ => cases ho
  | false =>
    rcases chain_fix_aux_all os o [] (List.replicate (Wire.sizeOf (sems (o :: os))) 0) ho hs hc hpay (by simp [sems]) with
      ⟨out', hser', hl, _, hpar⟩
    have : out' = out := by
      have := hser'.symm.trans hser
      injection this
    subst this
    rcases hpar n 0 hn (.inl rfl) (out'.length + 2) (by omega) with ⟨os', hp, _, e, he, _, hsz, hre⟩
    rw [List.replicate_zero, List.append_nil] at hp
    have he0 : e = 0 := by rcases he with h | h <;> exact h
    subst he0
    refine ⟨os', hp, ?_⟩
    have := hre [] (List.replicate (Wire.sizeOf (sems os')) 0) (ParentSim.refl [])
      (by rw [List.length_replicate]; exact sizeOf_semsAuxA os' [])
    rw [List.replicate_zero, List.append_nil] at this
    exact this

/-! ### the full statement, its refutation, the proved part -/

/-- **C03, whole packets of all families, second clause — full statement over every representable stack** (parsed or built
    through the API) -/
def chain_reserialize_fixpoint_all : Prop :=
  ∀ (n : String) (o : AnyObj) (os : List AnyObj) (out : Bytes) (os' : List AnyObj), EntryName n o → StackableAll (o :: os) →
    (splitRaw (o :: os)).2 ≠ [] → serializeObjs (o :: os) = .ok out →
    parseChain (out.length + 2) n out = .ok os' → serializeObjs os' = .ok out

theorem padLostWitness_stackableAll : StackableAll L2.padLostWitness :=
  ⟨⟨L2.dot1q_create_wf 5 true, trivial, trivial, trivial⟩,
   ⟨⟨by decide, by decide, by decide, by decide, by decide, rfl, fun t ht => nomatch ht⟩, trivial, trivial,
    ⟨rfl, rfl, by decide⟩⟩, rfl⟩

/-- **… refuted** on `Dot1Q(5, append_pad = true) / PPPoE session / RawPDU(01 02 03)` (the witness of the link-layer theorem,
    replayed on the real classes: known finding KF-C04-L2-4): 50 bytes the first time, 13 the second -/
theorem chain_reserialize_fixpoint_all_fails : ¬ chain_reserialize_fixpoint_all := by
  intro h
  have h1 := h "Dot1Q" (.l2 (.dot1q (L2.Dot1Q.create 5 true))) [.l2 (.pppoe ⟨1, 1, 0, 0x1234, 0, [], 0⟩), .raw [1, 2, 3]]
    L2.padLostBytes L2.padLostRe (.inl rfl) padLostWitness_stackableAll (by decide) rfl rfl
  have h2 : serializeObjs L2.padLostRe = .ok [0x00,0x05,0x88,0x64, 0x11,0,0x12,0x34,0,3, 1,2,3] := rfl
  rw [h2] at h1
  injection h1 with h1
  exact absurd (congrArg List.length h1) (by decide)

/-- … and the witness lies in the excluded region -/
example : ¬ PadKeptAll L2.padLostWitness := fun h => absurd (h.1 rfl) (by decide)

/-- **… proved part**: everything outside the excluded region (`PadKeptAll`) -/
theorem chain_reserialize_fixpoint_all_partial (n : String) (o : AnyObj) (os : List AnyObj) (out : Bytes) (os' : List AnyObj)
    (hn : EntryName n o) (hs : StackableAll (o :: os)) (hk : PadKeptAll (o :: os)) (hpay : (splitRaw (o :: os)).2 ≠ [])
    (hser : serializeObjs (o :: os) = .ok out) (hpar : parseChain (out.length + 2) n out = .ok os') :
    serializeObjs os' = .ok out := by
  rcases chain_fixpoint_named n o os hn hs hk hpay out hser with ⟨os2, hp2, hs2⟩
  have e : os2 = os' := by
    have := hp2.symm.trans hpar
    injection this
  rw [← e]; exact hs2

/-! ### parsed packets -/

/-- no parsing constructor sets `append_padding_` -/
theorem parseOne_noApp (cls : String) (b : Bytes) (o : AnyObj) (i : Inner) (h : parseOne cls b = .ok (o, i)) : NoApp o := by
  intro q hq
  subst hq
  rcases parseOne_cases cls b _ i h with ⟨_, ho, _⟩ | ⟨x, hc, hx, ho⟩ | ⟨x, _, _, ho⟩ | ⟨x, _, _, ho⟩ | ⟨x, _, _, ho⟩ |
    ⟨x, _, _, ho⟩ | ⟨x, _, _, ho⟩ | ⟨x, _, _, ho⟩ <;> try (cases ho; done)
  injection ho with ho
  subst ho
  exact (L2.l2_parse_link cls b _ i hc hx trivial).2.2

theorem parse_noApp_all : ∀ (fuel : Nat) (cls : String) (b : Bytes) (os : List AnyObj),
    parseChain fuel cls b = .ok os → ∀ o ∈ os, NoApp o := by
  intro fuel
  induction fuel with
  | zero => intro cls b os h; simp [parseChain] at h
  | succ f ih =>
    intro cls b os h
    unfold parseChain at h
    by_cases hm : modelled cls = true
    · simp only [hm, Bool.not_true, Bool.false_eq_true, if_false] at h
      cases hp : parseOne cls b with
      | throw e => rw [hp] at h; cases h
      | fault s => rw [hp] at h; cases h
      | ok r =>
        obtain ⟨o, inner⟩ := r
        rw [hp] at h
        simp only at h
        have ho := parseOne_noApp cls b o inner hp
        have hraw : ∀ pb, NoApp (.raw pb) := fun pb q hq => by cases hq
        cases inner with
        | none =>
          injection h with h; subst h
          intro y hy
          simp only [List.mem_singleton] at hy
          subst hy; exact ho
        | raw pb =>
          injection h with h; subst h
          intro y hy
          simp only [List.mem_cons, List.mem_nil_iff, or_false] at hy
          rcases hy with rfl | rfl
          · exact ho
          · exact hraw pb
        | cls name pb fb =>
          simp only at h
          cases hrec : parseChain f name pb with
          | ok ls =>
            rw [hrec] at h
            injection h with h; subst h
            intro y hy
            simp only [List.mem_cons] at hy
            rcases hy with rfl | hy
            · exact ho
            · exact ih name pb ls hrec y hy
          | unmodelled c => rw [hrec] at h; cases h
          | fault s => rw [hrec] at h; cases h
          | throw e =>
            rw [hrec] at h
            simp only at h
            split at h
            · injection h with h; subst h
              intro y hy
              simp only [List.mem_cons, List.mem_nil_iff, or_false] at hy
              rcases hy with rfl | rfl
              · exact ho
              · exact hraw pb
            · cases h
    · have : modelled cls = false := by simpa using hm
      simp [this] at h

/-- **Property C03, second clause, over ALL seven families, as stated** (`whole_packet_c03_fixpoint`): if libtins accepts `b`
    as the stack `os` (outside `ResidualAll`, the hypotheses of `c03_all`) and the innermost payload is non-empty, then with
    `y = serialize(os)`: parsing `y` with the same entry point succeeds, and serializing the re-parsed packet gives `y` again,
    byte for byte — lengths, checksums, next-protocol tags, option / extension-header padding, the RadioTap FCS and the
    minimum-frame padding of EthernetII included (after the first round trip the padding that reached the payload is payload;
    where an IP / IPv6 / PPPoE / EAPOL length cut it off it is re-created). -/
theorem c03_fixpoint_all (cls : String) (b : Bytes) (os : List AnyObj) (hb : b.length < 4294967296)
    (hparse : parseChain (b.length + 2) cls b = .ok os) (hres : ResidualAll os)
    (_henv : ∀ o t, os = .ip o :: t → Ip.envDependentTop o = false) (hpay : (splitRaw os).2 ≠ []) :
    ∃ out, serializeObjs os = .ok out ∧
      ∃ os', parseChain (out.length + 2) cls out = .ok os' ∧ serializeObjs os' = .ok out := by
  rcases parse_stackable_all _ cls b os hb hparse hres with ⟨hst, h, t, rfl, hhd⟩
  rcases stackableAll_serializes _ hst with ⟨out, hser, _⟩
  have hna := parse_noApp_all _ cls b _ hparse
  rcases chain_fixpoint_named cls h t hhd.1 hst (padKeptAll_of_noApp _ hna) hpay out hser with ⟨os', hp, hs2⟩
  exact ⟨out, hser, os', hp, hs2⟩

/-- … with the view clause of `c03_all` in one statement: the re-parse `os'` of `y = serialize(os)` has the same classes and
    views as `os`, and (payload non-empty) serializes to `y` -/
theorem c03_all_with_fixpoint (cls : String) (b : Bytes) (os : List AnyObj) (hb : b.length < 4294967296)
    (hparse : parseChain (b.length + 2) cls b = .ok os) (hres : ResidualAll os)
    (henv : ∀ o t, os = .ip o :: t → Ip.envDependentTop o = false) :
    ∃ out, serializeObjs os = .ok out ∧
      ∃ os', parseChain (out.length + 2) cls out = .ok os' ∧ ViewEqAll (padAll os) os os' ∧
        ((splitRaw os).2 ≠ [] → serializeObjs os' = .ok out) := by
  rcases c03_all cls b os hb hparse hres henv with ⟨out, hser, os', hp, hv⟩
  refine ⟨out, hser, os', hp, hv, ?_⟩
  intro hpay
  rcases c03_fixpoint_all cls b os hb hparse hres henv hpay with ⟨out2, hser2, os2, hp2, hs2⟩
  have := out_unique hser2 hser; subst this
  have e : os2 = os' := by
    have := hp2.symm.trans hp
    injection this
  rw [← e]; exact hs2

end Tins.Wire.ChainAll
