import TinsModel.Wire.Chain.ParseLinkIp6
/-
  Whole-packet C03 over all covered families, the premise, part 4: the parsing constructors of the App family (ARP, VXLAN, STP,
  RTP, BootP, DHCP, DHCPv6) establish the side conditions of their step theorems (`Side`) and the link to whatever they build
  on the rest of the buffer (`LinkInnerA`).
-/
namespace Tins.Wire.ChainAll
open Tins Tins.Wire Tins.Wire.App
open Tins.Wire.L2 (layerView splitRaw stripView padOf ViewEq IsTail TailInner cxOf)

/-! ### names -/

/-- every entry name of a covered object is a modelled class -/
theorem app_classes_modelled : ∀ c ∈ App.classes, modelled c = true := by decide

theorem entry_modelled (n : String) (y : AnyObj) (hy : EntryName n y) (hc : Coverable y) : modelled n = true := by
  cases y with
  | raw p => exact hc.elim
  | app o => exact app_classes_modelled n (app_entry_names n o hy)
  | wifi o => exact (wifi_classes_modelled n (wifi_entry_names n o hy hc)).1
  | l2 z => rw [← entryName_eq hy (fun _ e => by cases e)]; exact L2.l2_modelled z
  | ip o => rw [← entryName_eq hy (fun _ e => by cases e)]; cases o <;> (simp only [AnyObj.info, Ip.info]; decide)
  | ip6 o => rw [← entryName_eq hy (fun _ e => by cases e)]; cases o; simp only [AnyObj.info, Ip6.info]; decide
  | tr o => rw [← entryName_eq hy (fun _ e => by cases e)]; cases o <;> (simp only [AnyObj.info, Transport.info]; decide)
  | icmp o => rw [← entryName_eq hy (fun _ e => by cases e)]; cases o <;> (simp only [AnyObj.info, Icmp.info]; decide)

/-- the link-layer class names are names of no other family -/
theorem l2_classes_disjoint : ∀ c ∈ L2.classes, c ∉ App.classes ∧ c ∉ Wifi.classes ∧
    c ∉ ["IP", "IPSecAH", "IPSecESP", "IPv6", "UDP", "TCP", "ICMP", "ICMPv6"] := by decide

/-- a covered object entered under a link-layer class name is a link-layer object of that class -/
theorem entry_is_l2 (name : String) (y : AnyObj) (hl2 : name ∈ L2.classes) (hy : EntryName name y) (hc : Coverable y) :
    ∃ z, y = .l2 z ∧ (L2.info z).1 = name := by
  obtain ⟨h1, h2, h3⟩ := l2_classes_disjoint name hl2
  cases y with
  | raw p => exact hc.elim
  | app o => exact absurd (app_entry_names name o hy) h1
  | wifi o => exact absurd (wifi_entry_names name o hy hc) h2
  | l2 z => exact ⟨z, rfl, entryName_eq hy (fun _ e => by cases e)⟩
  | ip o =>
    exfalso; apply h3; rw [← entryName_eq hy (fun _ e => by cases e)]
    cases o <;> (simp only [AnyObj.info, Ip.info]; decide)
  | ip6 o =>
    exfalso; apply h3; rw [← entryName_eq hy (fun _ e => by cases e)]
    cases o; simp only [AnyObj.info, Ip6.info]; decide
  | tr o =>
    exfalso; apply h3; rw [← entryName_eq hy (fun _ e => by cases e)]
    cases o <;> (simp only [AnyObj.info, Transport.info]; decide)
  | icmp o =>
    exfalso; apply h3; rw [← entryName_eq hy (fun _ e => by cases e)]
    cases o <;> (simp only [AnyObj.info, Icmp.info]; decide)

/-! ### ARP, RTP: RawPDU or nothing -/

theorem arp_parse_linkA (b : Bytes) (a : Arp) (i : Inner) (h : Arp.parse b = .ok (a, i)) : LinkInnerA (.app (.arp a)) i := by
  cases i with
  | none => trivial
  | raw pb => trivial
  | cls name pb fb => exact absurd h (arp_parse_no_cls b a name pb fb)

theorem rtp_parse_linkA (b : Bytes) (t : Rtp) (i : Inner) (h : Rtp.parse b = .ok (t, i)) : LinkInnerA (.app (.rtp t)) i := by
  cases i with
  | none => trivial
  | raw pb => trivial
  | cls name pb fb => exact absurd h (rtp_parse_no_cls b t name pb fb)

/-! ### STP, BootP, DHCP, DHCPv6: never an inner PDU -/

theorem stp_parse_inner (b : Bytes) (s : Stp) (i : Inner) (h : Stp.parse b = .ok (s, i)) : i = .none := by
  unfold Stp.parse at h
  rcases bind_ok_inv h with ⟨⟨hd, c⟩, _, h⟩
  injection h with h; injection h with _ h2; exact h2.symm

theorem bootp_parse_inner (b : Bytes) (p : BootP) (i : Inner) (h : BootP.parse b = .ok (p, i)) : i = .none := by
  unfold BootP.parse at h
  rcases bind_ok_inv h with ⟨⟨q, c⟩, _, h⟩
  injection h with h; injection h with _ h2; exact h2.symm

/-- **the DHCP parsing constructor yields canonical options** (and never an inner PDU) -/
theorem dhcp_parse_canon (b : Bytes) (d : Dhcp) (i : Inner) (h : Dhcp.parse b = .ok (d, i)) :
    (∀ o ∈ d.opts, Dhcp.Canon o) ∧ i = .none := by
  unfold Dhcp.parse at h
  rcases bootp_parseWith_safe b 0 with ⟨p, c, e, _, hh, _, hlen⟩ | e
  · simp only [e, bind, Out.bind] at h
    rcases Cursor.skip_spec (Cursor.ofBytes b) (BootP.hdrSize + p.vend.length - p.vend.length) (Cursor.ofBytes_inv b)
      with ⟨c1, e1, i1, hs1, _⟩ | ⟨e1, _⟩
    · simp only [e1] at h
      rcases Cursor.read_spec c1 4 i1 with ⟨m, c2, e2, i2, _, hs2, hn2, _⟩ | ⟨e2, _⟩
      · simp only [e2] at h
        split at h
        · cases h
        · cases e3 : Dhcp.parseOpts c2.size c2 with
          | ok os =>
            simp only [e3] at h
            injection h with h; injection h with h1 h2; subst h1
            exact ⟨dhcp_parseOpts_canon _ c2 i2 os e3, h2.symm⟩
          | throw e => simp only [e3] at h; cases h
          | fault s => simp only [e3] at h; cases h
      · simp only [e2] at h; cases h
    · simp only [e1] at h; cases h
  · simp only [e, bind, Out.bind] at h; cases h

/-- **the DHCPv6 parsing constructor yields canonical options** (and never an inner PDU) -/
theorem dhcpv6_parse_canon (b : Bytes) (d : Dhcpv6) (i : Inner) (h : Dhcpv6.parse b = .ok (d, i)) :
    (∀ o ∈ d.opts, Dhcpv6.Canon o) ∧ i = .none := by
  unfold Dhcpv6.parse at h
  have i0 := Cursor.ofBytes_inv b
  by_cases hb : (Cursor.ofBytes b).toBool
  · simp only [hb, Bool.not_true, Bool.false_eq_true, if_false] at h
    have hpos : (Cursor.ofBytes b).size > 0 := by simpa [Cursor.toBool] using hb
    rcases peek_safe "DHCPv6::DHCPv6 *stream.pointer()" (Cursor.ofBytes b) 0 1 i0 (by omega) with ⟨t, e0, _⟩
    simp only [e0, bind, Out.bind] at h
    generalize (if (Cursor.beNat t == 12 || Cursor.beNat t == 13) = true then 2 else 4) = required at h
    rcases Cursor.read_spec (Cursor.ofBytes b) required i0 with ⟨hd, c1, e1, i1, hl1, hs1, _⟩ | ⟨e1, _⟩
    · simp only [e1] at h
      rcases dhcpv6_readRelay_safe (Dhcpv6.isRelay ⟨hd ++ List.replicate (4 - required) 0, List.replicate 16 0, List.replicate 16 0, [], 0⟩) c1 i1
        with ⟨l, p, c2, e2, i2, hl, hp, hs2⟩ | e2
      · simp only [e2] at h
        cases e4 : Dhcpv6.parseOpts c2.size c2 with
        | ok os =>
          simp only [e4] at h
          injection h with h; injection h with h1 h2; subst h1
          exact ⟨dhcpv6_parseOpts_canon _ c2 i2 os e4, h2.symm⟩
        | throw e => simp only [e4] at h; cases h
        | fault s => simp only [e4] at h; cases h
      · simp only [e2] at h; cases h
    · simp only [e1] at h; cases h
  · simp only [hb, Bool.not_false, if_true] at h; cases h

/-! ### VXLAN: EthernetII or nothing -/

theorem vxlan_parse_linkA (b : Bytes) (v : Vxlan) (i : Inner) (h : Vxlan.parse b = .ok (v, i)) :
    LinkInnerA (.app (.vxlan v)) i := by
  unfold Vxlan.parse at h
  rcases bind_ok_inv h with ⟨⟨hd, c⟩, _, h⟩
  dsimp only at h
  split at h
  · rcases bind_ok_inv h with ⟨rest, _, h⟩
    injection h with h; injection h with _ h2
    subst h2
    refine ⟨rfl, by decide, ?_⟩
    intro y r hy hcov _
    rcases entry_is_l2 "EthernetII" y (by decide) hy hcov with ⟨z, rfl, hz⟩
    cases z <;> first | trivial | (simp only [L2.info] at hz; exact absurd hz (by decide))
  · injection h with h; injection h with _ h2
    subst h2
    trivial

/-! ### the whole family -/

/-- **every parsing constructor of the App family establishes the side conditions and the link** -/
theorem app_parse_facts (cls : String) (b : Bytes) (o : App.Obj) (i : Inner) (hc : cls ∈ App.classes)
    (h : App.parse cls b = .ok (o, i)) : (∀ r, Side (.app o) r) ∧ LinkInnerA (.app o) i ∧ (App.info o).1 = cls := by
  simp only [App.classes, List.mem_cons, List.mem_nil_iff, or_false] at hc
  rcases hc with hc | hc | hc | hc | hc | hc | hc <;> subst hc <;> simp only [App.parse] at h <;>
    rcases Ip.map_ok h with ⟨⟨x, j⟩, hx, hr⟩ <;> injection hr with e1 e2 <;> subst e1 <;> subst e2
  · exact ⟨fun _ => trivial, arp_parse_linkA b x j hx, rfl⟩
  · exact ⟨fun _ => trivial, vxlan_parse_linkA b x j hx, rfl⟩
  · have := stp_parse_inner b x j hx; subst this
    exact ⟨fun _ => trivial, trivial, rfl⟩
  · exact ⟨fun _ => rtp_parse_canon b x j hx, rtp_parse_linkA b x j hx, rfl⟩
  · have := bootp_parse_inner b x j hx; subst this
    exact ⟨fun _ => (bootp_parse_inv b x _ hx).2, trivial, rfl⟩
  · obtain ⟨hcan, hi⟩ := dhcp_parse_canon b x j hx; subst hi
    exact ⟨fun _ => hcan, trivial, rfl⟩
  · obtain ⟨hcan, hi⟩ := dhcpv6_parse_canon b x j hx; subst hi
    exact ⟨fun _ => hcan, trivial, rfl⟩

end Tins.Wire.ChainAll
