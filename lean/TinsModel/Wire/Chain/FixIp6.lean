import TinsModel.Wire.Chain.FixCtx
import TinsModel.Wire.Chain.StepIp6
/-
  Second-serialization fixed point, part 2d: IPv6 with extension headers.

  The re-parsed object is `Ipv6.rederived`: the original with the payload length and the next-header octets
  `write_serialization` derived.  The writer overwrites the payload length and the whole next-header chain before anything
  depends on them; the only stored field it reads is `finalNext` (the tag kept for a payload without a protocol number), which
  the re-parse set to what the first serialization put on the wire (`lastNext_idem`).  Extension headers as a parser stores
  them are already aligned to 8 octets, so no alignment padding is added or lost (`HdrParsed`).
-/
namespace Tins.Wire.ChainAll
open Tins Tins.Wire Tins.Wire.Ip6 Tins.Wire.Ip6.Ipv6
open Tins.Wire.L2 (layerView splitRaw stripView padOf ViewEq IsTail TailInner cxOf)

/-- the last next-header octet is a fixed point -/
theorem lastNext_idem {cx cx' : Ctx} (h : CtxSimA cx cx') (p : Ipv6) (total : Nat) :
    lastNext cx' (Ipv6.rederived cx p total) = lastNext cx p := by
  have hc := h.innerCls
  show (match cx'.innerCls with
    | some cls => if Tags.ipProtoOfPduType (Tags.pduTypeOf cls) != 255 then Tags.ipProtoOfPduType (Tags.pduTypeOf cls)
                  else lastNext cx p
    | none => NO_NEXT_HEADER) = _
  rw [hc]
  unfold lastNext
  cases cx.innerCls with
  | none => rfl
  | some cls =>
    simp only
    split <;> simp_all

/-- **IPv6** -/
theorem ip6_fix (cx cx' : Ctx) (p : Ipv6) (hi : p.Inv) (hhp : ∀ h ∈ p.headers, HdrParsed h)
    (hnl : (isExtensionHeader (lastNext cx p) && lastNext cx p != NO_NEXT_HEADER) = false)
    (region : Bytes) (hr : region.length = p.hdr + cx.innerSize) (hsz : region.length - 40 < 65536) (junk : Bytes)
    (out : Bytes) (hw : p.write cx region = .ok out)
    (x' : AnyObj) (inner : Inner) (hp : parseOne "IPv6" (out ++ junk) = .ok (x', inner))
    (hsim : CtxSimA cx cx') :
    x'.hdr = p.hdr ∧ (∀ n, x'.trl n = 0) ∧
      ∀ region' : Bytes, region'.length = region.length → region'.drop p.hdr = region.drop p.hdr →
        x'.write cx' region' = .ok out := by
  rcases ipv6_reparse_parsed cx p hi hhp hnl region hr hsz junk with ⟨out2, hw2, _, hp2⟩
  have := out_unique hw2 hw; subst this
  have hx := (parseOne_ip6 _ _ _ hp2).symm.trans hp
  injection hx with hx
  injection hx with hx1 _
  subst hx1
  refine ⟨rfl, fun _ => rfl, ?_⟩
  intro region' hl' hd'
  show (Ipv6.rederived cx p region.length).write cx' region' = _
  rw [ipv6_write_rederived cx cx' p region.length region' (lastNext_idem hsim p region.length),
    ipv6_write_eq cx p hi region' (by omega), ← hw, ipv6_write_eq cx p hi region (by omega), hl', hd']

end Tins.Wire.ChainAll
