import TinsModel.Wire.Chain.FixCtx
import TinsModel.Wire.Chain.StepApp
/-
  Second-serialization fixed point, part 2f: the App family.  Only ARP, VXLAN and RTP can be followed by anything; STP, BootP,
  DHCP and DHCPv6 end a stack (`LinkAll`), so a stack through them has no payload and the fixed-point clause asks nothing.

  ARP, VXLAN and RTP keep their header as the bytes they read: the re-parsed object *is* the original (`arp_reparse`,
  `vxlan_reparse`, `rtp_reparse`), and their writers do not look at the context beyond the size of the inner chain (RTP: to
  find its padding trailer).  ARP hands whatever follows its 28 bytes to RawPDU, so the minimum-frame padding of an enclosing
  EthernetII becomes its payload — and is written back as payload.
-/
namespace Tins.Wire.ChainAll
open Tins Tins.Wire Tins.Wire.App
open Tins.Wire.L2 (layerView splitRaw stripView padOf ViewEq IsTail TailInner cxOf)

theorem app_obj_of_parse {cls : String} {buf : Bytes} {x' : AnyObj} {inner i2 : Inner} {y : App.Obj}
    (h2 : parseOne cls buf = .ok (.app y, i2)) (hp : parseOne cls buf = .ok (x', inner)) : x' = .app y := by
  have := h2.symm.trans hp
  injection this with this
  injection this with h _
  exact h.symm

/-- **ARP**: padding behind the region becomes payload -/
theorem arp_fix (cx cx' : Ctx) (a : Arp) (hi : a.Inv) (os os' : List AnyObj) (region io : Bytes)
    (hlen : region.length = 28 + sizeOfStack os) (hio : region.drop 28 = io)
    (out : Bytes) (hw : a.write cx region = .ok out) (k : Nat)
    (x' : AnyObj) (inner : Inner) (hp : parseOne "ARP" (out ++ List.replicate k 0) = .ok (x', inner))
    (e2 : Nat) (he2 : e2 = 0 ∨ e2 = k) (hsz : sizeOfStack os' = sizeOfStack os + e2) :
    FixStep (.app (.arp a)) x' os os' cx' io out k e2 := by
  rcases header_write a.h region 28 hi (by omega) with ⟨out2, hw2, _, _, he⟩
  have := out_unique hw2 hw; subst this
  rw [hio] at he
  have hp2 := arp_reparse a hi (io ++ List.replicate k 0)
  rw [← List.append_assoc, ← he] at hp2
  have hx := app_obj_of_parse (parseOne_arp _ _ _ hp2) hp
  subst hx
  have hee : (if e2 = 0 then 0 else k) = e2 := by
    rcases he2 with h | h
    · simp [h]
    · by_cases h0 : e2 = 0
      · simp [h0]
      · rw [if_neg h0, h]
  refine ⟨?_, ?_⟩
  · rw [hee]; rfl
  · intro region' hlen' hio'
    have hlen'' : region'.length = 28 + sizeOfStack os' := hlen'
    have hio'' : (region'.drop 28).take (sizeOfStack os') = io ++ List.replicate e2 0 := hio'
    rw [List.take_of_length_le (by simp only [List.length_drop]; omega)] at hio''
    rcases header_write a.h region' 28 hi (by omega) with ⟨out', hw', _, _, he'⟩
    show a.write cx' region' = _
    have hw'' : a.write cx' region' = .ok out' := hw'
    rw [hw'', he', hio'', he, hee, List.append_assoc]

/-- **VXLAN** (entry class in front of EthernetII) -/
theorem vxlan_fix (cx cx' : Ctx) (v : Vxlan) (hi : v.Inv) (region : Bytes) (hr : 8 ≤ region.length)
    (out : Bytes) (hw : v.write cx region = .ok out)
    (x' : AnyObj) (inner : Inner) (hp : parseOne "VXLAN" out = .ok (x', inner)) :
    x'.hdr = 8 ∧ (∀ n, x'.trl n = 0) ∧
      ∀ region' : Bytes, region'.length = region.length → region'.drop 8 = region.drop 8 →
        x'.write cx' region' = .ok out := by
  rcases header_write v.h region 8 hi hr with ⟨out2, hw2, _, _, he⟩
  have := out_unique hw2 hw; subst this
  have hp2 := vxlan_reparse v hi (region.drop 8)
  rw [← he] at hp2
  have hx := app_obj_of_parse (parseOne_vxlan _ _ _ hp2) hp
  subst hx
  refine ⟨rfl, fun _ => rfl, ?_⟩
  intro region' hl' hd'
  rcases header_write v.h region' 8 hi (by omega) with ⟨out', hw', _, _, he'⟩
  show v.write cx' region' = _
  have hw'' : v.write cx' region' = .ok out' := hw'
  rw [hw'', he', hd', he]

/-- **RTP** (entry class; its padding trailer is re-created from the stored padding size) -/
theorem rtp_fix (cx cx' : Ctx) (t : Rtp) (hi : t.Inv) (hc : t.Canon) (os os' : List AnyObj) (region io : Bytes)
    (hcx : cx.innerSize = sizeOfStack os) (hcx' : cx'.innerSize = sizeOfStack os')
    (hlen : region.length = t.hdr + sizeOfStack os + t.trl)
    (hio : (region.drop t.hdr).take (sizeOfStack os) = io)
    (out : Bytes) (hw : t.write cx region = .ok out)
    (x' : AnyObj) (inner : Inner) (hp : parseOne "RTP" out = .ok (x', inner))
    (_hsz : sizeOfStack os' = sizeOfStack os + 0) :
    FixStep (.app (.rtp t)) x' os os' cx' io out 0 0 := by
  have hw2 := rtp_write_eq cx t hi region (by rw [hcx]; exact hlen)
  rw [hcx, hio] at hw2
  have := out_unique hw2 hw; subst this
  have hp2 := rtp_reparse t hi hc io
  have hx := app_obj_of_parse (parseOne_rtp _ _ _ hp2) hp
  subst hx
  refine ⟨rfl, ?_⟩
  intro region' hlen' hio'
  have hlen'' : region'.length = t.hdr + sizeOfStack os' + t.trl := hlen'
  have hio'' : (region'.drop t.hdr).take (sizeOfStack os') = io ++ List.replicate 0 0 := hio'
  have hw' := rtp_write_eq cx' t hi region' (by rw [hcx']; exact hlen'')
  rw [hcx', hio''] at hw'
  show t.write cx' region' = _
  rw [hw']
  simp

end Tins.Wire.ChainAll
