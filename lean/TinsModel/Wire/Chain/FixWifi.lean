import TinsModel.Wire.Chain.FixCtx
import TinsModel.Wire.Chain.StepWifi
/-
  Second-serialization fixed point, part 2g: the Wifi family.

    * the Dot11 classes keep every member as the bytes they read: the re-parsed object *is* the original (`dot11_reparse`), under
      the class name and through `Dot11::from_bytes`; `write_serialization` does not look at the context;
    * RC4EAPOL / RSNEAPOL: the re-parsed frame carries the EAPOL length and the key length the writer derived; both are
      struct-member assignments at a fixed offset and width, which are idempotent (`patch_patch`);
    * RadioTap: `it_len` likewise; the FCS trailer is the CRC-32 of the inner frame, which is the same frame
      (`radiotap_write_crc`: the explicit form of the trailer when an inner frame exists).
-/
namespace Tins.Wire.ChainAll
open Tins Tins.Wire Tins.Wire.Wifi
open Tins.Wire.L2 (layerView splitRaw stripView padOf ViewEq IsTail TailInner cxOf)

theorem wifi_obj_of_parse {cls : String} {buf : Bytes} {x' : AnyObj} {inner i2 : Inner} {y : Wifi.Obj}
    (h2 : parseOne cls buf = .ok (.wifi y, i2)) (hp : parseOne cls buf = .ok (x', inner)) : x' = .wifi y := by
  have := h2.symm.trans hp
  injection this with this
  injection this with h _
  exact h.symm

/-- **assigning a struct member twice is assigning it once** (same offset, same width) -/
theorem patch_patch (bs v v' : Bytes) (i : Nat) (hv : v.length = v'.length) :
    Dot11.patch (Dot11.patch bs i v) i v' = Dot11.patch bs i v' := by
  by_cases h : i + v.length ≤ bs.length
  · have h' : i + v'.length ≤ bs.length := by omega
    have hl : (bs.take i).length = i := by simp only [List.length_take]; omega
    have hlen : (bs.take i ++ v ++ bs.drop (i + v.length)).length = bs.length := by
      simp only [List.length_append, List.length_take, List.length_drop]; omega
    unfold Dot11.patch
    rw [if_pos h, if_pos (by rw [hlen]; exact h'), if_pos h']
    have e1 : (bs.take i ++ v ++ bs.drop (i + v.length)).take i = bs.take i := by
      rw [List.append_assoc]; exact List.take_left' hl
    have e2 : (bs.take i ++ v ++ bs.drop (i + v.length)).drop (i + v'.length) = bs.drop (i + v'.length) := by
      rw [← hv]
      have : (bs.take i ++ v).length = i + v.length := by simp only [List.length_append, hl]
      rw [List.drop_left' this]
    rw [e1, e2]
  · have h' : ¬ i + v'.length ≤ bs.length := by omega
    unfold Dot11.patch
    rw [if_neg h, if_neg h']

/-! ### the Dot11 classes -/

/-- **Dot11, every class, under the class name and through `Dot11::from_bytes`** -/
theorem dot11_fix (cx' : Ctx) (d : Dot11) (os : List AnyObj) (hw : d.WF) (hf : d.Fits)
    (hside : Side (.wifi (.dot11 d)) os) (hlink : LinkAll (.wifi (.dot11 d)) os) (n : String)
    (hn : EntryName n (.wifi (.dot11 d))) (region io : Bytes)
    (hlen : region.length = d.hdrSize + sizeOfStack os) (hio : region.drop d.hdrSize = io)
    (hnil : os = [] → io = []) (hraw : ∀ p, os = [.raw p] → io = p) (hpos : ∀ y r, nextA os = .obj y r → 0 < io.length)
    (out : Bytes) (hwr : d.write region = .ok out)
    (x' : AnyObj) (inner : Inner) (hp : parseOne n out = .ok (x', inner)) :
    x'.hdr = d.hdrSize ∧ (∀ m, x'.trl m = 0) ∧
      ∀ region' : Bytes, region'.length = region.length → region'.drop d.hdrSize = region.drop d.hdrSize →
        x'.write cx' region' = .ok out := by
  rcases dot11_written d os hw hf hside hlink region io hlen hio hnil hraw hpos with ⟨out2, hwr2, _, ⟨rest, hrest⟩, hp2, _⟩
  have := out_unique hwr2 hwr; subst this
  have hx : x' = .wifi (.dot11 d) := by
    rcases hn with rfl | hps
    · exact wifi_obj_of_parse (parseOne_dot11 d.cls d.lay out2 d _ hside.2 hp2) hp
    · obtain ⟨rfl, hdisp⟩ : n = "Dot11*" ∧ Dot11.dispatch (Wifi.byteAt d.hdr 0) = d.cls := hps
      have h10 := hw.hdr
      have hb0 : Wifi.byteAt out2 0 = Wifi.byteAt d.hdr 0 := by
        rw [hrest]
        cases hh : d.hdr with
        | nil => rw [hh] at h10; simp at h10
        | cons a t => rfl
      have hl2 : 2 ≤ out2.length := by rw [hrest, List.length_append]; omega
      exact wifi_obj_of_parse (parseOne_dot11_pseudo d.cls d.lay out2 d _ hside.2 hl2 (by rw [hb0]; exact hdisp) hp2) hp
  subst hx
  refine ⟨rfl, fun _ => rfl, ?_⟩
  intro region' hl' hd'
  show d.write region' = _
  rw [Dot11.write_eq d hw hf region' (by omega), ← hwr, Dot11.write_eq d hw hf region (by omega), hd']

/-! ### RC4EAPOL / RSNEAPOL -/

theorem eapol_hdrFor_idem (e : Eapol) (n m : Nat) :
    Eapol.hdrFor ⟨e.rsn, Eapol.hdrFor e n, Eapol.subForWrite e, e.key⟩ m = Eapol.hdrFor e m := by
  unfold Eapol.hdrFor
  exact patch_patch _ _ _ 2 (by simp only [OutCursor.beBytes_length])

theorem eapol_subForWrite_idem (e : Eapol) (n : Nat) :
    Eapol.subForWrite ⟨e.rsn, Eapol.hdrFor e n, Eapol.subForWrite e, e.key⟩ = Eapol.subForWrite e := by
  show (if e.key.length == 0 then Eapol.subForWrite e
        else if !e.rsn then Dot11.patch (Eapol.subForWrite e) 0 (OutCursor.beBytes 2 e.key.length)
        else Dot11.patch (Eapol.subForWrite e) 92 (OutCursor.beBytes 2 e.key.length)) = _
  by_cases hk : (e.key.length == 0) = true
  · rw [if_pos hk]
  · rw [if_neg hk]
    unfold Eapol.subForWrite
    rw [if_neg hk]
    cases e.rsn with
    | false => simp only [Bool.not_false, if_true]; exact patch_patch _ _ _ 0 rfl
    | true => simp only [Bool.not_true, Bool.false_eq_true, if_false]; exact patch_patch _ _ _ 92 rfl

/-- **RC4EAPOL / RSNEAPOL, under the class name and through `EAPOL::from_bytes`** (`k` zero bytes may follow under the factory
    names: the length field cuts them off) -/
theorem eapol_fix (cx' : Ctx) (e : Eapol) (os : List AnyObj) (hw : e.WF) (hside : Side (.wifi (.eapol e)) os)
    (n : String) (hn : EntryName n (.wifi (.eapol e))) (k : Nat) (hk : k = 0 ∨ n = "EAPOL" ∨ n = "EAPOL*") (region io : Bytes)
    (hlen : region.length = e.hdrSize + sizeOfStack os) (hio : region.drop e.hdrSize = io) (hnil : os = [] → io = [])
    (out : Bytes) (hwr : e.write region = .ok out)
    (x' : AnyObj) (inner : Inner) (hp : parseOne n (out ++ List.replicate k 0) = .ok (x', inner)) :
    x'.hdr = e.hdrSize ∧ (∀ m, x'.trl m = 0) ∧
      ∀ region' : Bytes, region'.length = region.length → region'.drop e.hdrSize = region.drop e.hdrSize →
        x'.write cx' region' = .ok out := by
  rcases eapol_written e os hw hside region io hlen hio hnil with ⟨out2, hwr2, hol, hrest, hp2⟩
  have := out_unique hwr2 hwr; subst this
  have hx : x' = .wifi (.eapol ⟨e.rsn, Eapol.hdrFor e region.length, Eapol.subForWrite e, e.key⟩) := by
    rcases hn with rfl | ⟨hnn, htyped⟩
    · -- the class's own constructor tolerates no padding
      have hk0 : k = 0 := by
        rcases hk with h | h | h
        · exact h
        · rw [eapol_info_name] at h; cases hr : e.rsn <;> simp [hr] at h
        · rw [eapol_info_name] at h; cases hr : e.rsn <;> simp [hr] at h
      subst hk0
      rw [List.replicate_zero, List.append_nil] at hp
      have h3 := parseOne_eapol _ _ _ _ hp2
      rw [← eapol_info_name] at h3
      exact wifi_obj_of_parse h3 hp
    · have hsz : e.hdrSize + sizeOfStack os < 65540 := hside.2.2
      have h48 : 48 ≤ e.hdrSize := by simp only [Eapol.hdrSize, Eapol.subLen]; split <;> omega
      have hfb := eapol_fromBytes_written e hw htyped out2 (List.replicate k 0) region.length hrest hol ⟨by omega, by omega⟩
      rw [hp2] at hfb
      exact wifi_obj_of_parse (parseOne_eapol_pseudo n hnn _ _ _ hfb) hp
  subst hx
  have hw' : Eapol.WF ⟨e.rsn, Eapol.hdrFor e region.length, Eapol.subForWrite e, e.key⟩ :=
    ⟨by show (Eapol.hdrFor e region.length).length = 5; unfold Eapol.hdrFor; rw [Dot11.patch_length]; exact hw.hdr,
     Eapol.subForWrite_length e hw⟩
  refine ⟨rfl, fun _ => rfl, ?_⟩
  intro region' hl' hd'
  show Eapol.write ⟨e.rsn, Eapol.hdrFor e region.length, Eapol.subForWrite e, e.key⟩ region' = _
  have h2 := eapol_write_eq _ hw' region' (by show e.hdrSize ≤ region'.length; omega)
  rw [eapol_hdrFor_idem, eapol_subForWrite_idem] at h2
  rw [h2, ← hwr, eapol_write_eq e hw region (by omega), hl']
  show Out.ok (_ ++ (_ ++ (e.key ++ region'.drop e.hdrSize))) = _
  rw [hd']

/-! ### RadioTap -/

/-- `RadioTap::write_serialization` in front of an inner frame, explicitly: header with the derived `it_len`, the options, the
    inner frame untouched, and — when the FLAGS field announces an FCS — the CRC-32 of the inner frame -/
theorem radiotap_write_crc (cx : Ctx) (r : RadioTap) (hw : r.WF) (hne : cx.inners.isEmpty = false) (region : Bytes)
    (hr : region.length = r.hdrSize + cx.innerSize + r.trl) :
    r.write cx region = .ok (rtHdrFor r ++ (r.payload ++ ((region.drop r.hdrSize).take cx.innerSize ++
      (if r.trl > 0 then OutCursor.leBytes 4 (crc32 ((region.drop r.hdrSize).take cx.innerSize)) else [])))) := by
  obtain ⟨t, ht, ht04⟩ := hw.trl
  have htrl : r.trl = t := by simp only [RadioTap.trl, ht]
  rw [htrl] at hr ⊢
  unfold rtHdrFor
  generalize hh : Dot11.patch r.hdr 2 (OutCursor.leBytes 2 r.hdrSize) = hdr
  have hhl : hdr.length = 4 := by rw [← hh, Dot11.patch_length]; exact hw.hdr
  have hi : (OutCursor.ofRegion region).Inv := by simp [OutCursor.ofRegion, OutCursor.Inv]
  have hall := Dot11.writeAll_spec [hdr, r.payload] (OutCursor.ofRegion region) hi
    (by simp only [List.flatten_cons, List.flatten_nil, List.length_append, List.length_nil, hhl, OutCursor.ofRegion, RadioTap.hdrSize] at *; omega)
  simp only [RadioTap.write, hh, hall, ht, bind, Out.bind]
  simp only [OutCursor.ofRegion, List.nil_append, List.flatten_cons, List.flatten_nil, List.append_nil, List.length_append, hhl]
  have hhs : r.hdrSize = 4 + r.payload.length := rfl
  simp only [hne, Bool.not_false, Bool.and_true]
  by_cases hcond : t > 0
  · simp only [hcond, decide_true, ↓reduceIte]
    have ht4 : t = 4 := by
      rcases ht04 with h | h
      · omega
      · exact h
    have hrest : (List.drop (4 + r.payload.length) region).length = cx.innerSize + 4 := by
      simp only [List.length_drop]; omega
    have h1 : 0 + cx.innerSize ≤ (List.drop (4 + r.payload.length) region).length := by omega
    simp only [rdN, h1, ↓reduceIte]
    have hskip : ¬ cx.innerSize > region.length - (4 + r.payload.length) := by omega
    simp only [OutCursor.skip, hskip, ↓reduceIte]
    have hw1 : ¬ region.length - (4 + r.payload.length) - cx.innerSize < (OutCursor.leBytes 4
        (crc32 (List.take cx.innerSize (List.drop 0 (List.drop (4 + r.payload.length) region))))).length := by
      simp only [OutCursor.leBytes_length]; omega
    have hw2 : ¬ (List.drop cx.innerSize (List.drop (4 + r.payload.length) region)).length < (OutCursor.leBytes 4
        (crc32 (List.take cx.innerSize (List.drop 0 (List.drop (4 + r.payload.length) region))))).length := by
      simp only [OutCursor.leBytes_length, List.length_drop]; omega
    simp only [OutCursor.write, hw1, hw2, ↓reduceIte, Out.pure_eq, OutCursor.buffer]
    simp only [List.append_assoc, hhs]
    have hd : List.drop (OutCursor.leBytes 4 (crc32 (List.take cx.innerSize (List.drop 0 (List.drop (4 + r.payload.length) region))))).length
        (List.drop cx.innerSize (List.drop (4 + r.payload.length) region)) = [] :=
      List.drop_eq_nil_of_le (by simp only [OutCursor.leBytes_length, List.length_drop]; omega)
    rw [hd]
    simp
  · have ht0 : t = 0 := by omega
    simp only [hcond, decide_false, Bool.false_eq_true, ↓reduceIte, Out.pure_eq, OutCursor.buffer]
    have hd : (region.drop (4 + r.payload.length)).take cx.innerSize = region.drop (4 + r.payload.length) :=
      List.take_of_length_le (by simp only [List.length_drop]; omega)
    rw [hhs, hd]
    simp

theorem rtHdrFor_idem (t : RadioTap) : rtHdrFor ⟨rtHdrFor t, t.payload⟩ = rtHdrFor t := by
  unfold rtHdrFor
  exact patch_patch _ _ _ 2 (by simp only [OutCursor.leBytes_length])

/-- **RadioTap** in front of a Dot11 frame: the same `it_len`, the same options, the CRC-32 of the same inner frame -/
theorem radiotap_fix (cx cx' : Ctx) (t : RadioTap) (hw : t.WF) (hside : RtSide t) (os os' : List AnyObj)
    (hne : cx.inners.isEmpty = false) (hne' : cx'.inners.isEmpty = false)
    (hcx : cx.innerSize = sizeOfStack os) (hcx' : cx'.innerSize = sizeOfStack os')
    (region io : Bytes) (hlen : region.length = t.hdrSize + sizeOfStack os + t.trl)
    (hio : (region.drop t.hdrSize).take (sizeOfStack os) = io) (h4 : 4 ≤ io.length + t.trl)
    (out : Bytes) (hwr : t.write cx region = .ok out)
    (x' : AnyObj) (inner : Inner) (hp : parseOne "RadioTap" out = .ok (x', inner))
    (_hsz : sizeOfStack os' = sizeOfStack os + 0) :
    FixStep (.wifi (.radiotap t)) x' os os' cx' io out 0 0 := by
  have hw1 := radiotap_write_crc cx t hw hne region (by rw [hcx]; exact hlen)
  rw [hcx, hio] at hw1
  have := out_unique hw1 hwr; subst this
  have htl : (if t.trl > 0 then OutCursor.leBytes 4 (crc32 io) else []).length = t.trl := by
    obtain ⟨t0, ht0, h04⟩ := hw.trl
    have htrl : t.trl = t0 := by simp only [RadioTap.trl, ht0]
    split
    · rw [OutCursor.leBytes_length]; omega
    · simp only [List.length_nil]; omega
  have hp2 := radiotap_reparse t hw hside io _ htl (by rw [htl]; exact h4)
  have hx := wifi_obj_of_parse (parseOne_radiotap _ _ _ hp2) hp
  subst hx
  have hw' : RadioTap.WF ⟨rtHdrFor t, t.payload⟩ :=
    ⟨by show (rtHdrFor t).length = 4; unfold rtHdrFor; rw [Dot11.patch_length]; exact hw.hdr, hw.trl⟩
  refine ⟨rfl, ?_⟩
  intro region' hlen' hio'
  have hlen'' : region'.length = t.hdrSize + sizeOfStack os' + t.trl := hlen'
  have hio'' : (region'.drop t.hdrSize).take (sizeOfStack os') = io ++ List.replicate 0 0 := hio'
  have h2 := radiotap_write_crc cx' ⟨rtHdrFor t, t.payload⟩ hw' hne' region' (by rw [hcx']; exact hlen'')
  rw [hcx'] at h2
  have h3 : (region'.drop (RadioTap.hdrSize ⟨rtHdrFor t, t.payload⟩)).take (sizeOfStack os') = io := by
    rw [List.replicate_zero, List.append_nil] at hio''; exact hio''
  rw [h3, rtHdrFor_idem] at h2
  show RadioTap.write cx' ⟨rtHdrFor t, t.payload⟩ region' = _
  rw [h2]
  simp only [if_pos, List.replicate_zero, List.append_nil]
  rfl

end Tins.Wire.ChainAll
