import TinsModel.Wire.Chain.FixCtx
/-
  Second-serialization fixed point, part 2b: the Transport family (UDP, TCP with options).

  Both writers overwrite the derived fields (UDP length, TCP data offset, the checksum — zeroed before it is summed) before
  anything depends on them, so their output is a function of the non-derived members, the bytes behind the header, the size
  of the inner chain and the pseudo header of the immediate parent (`pseudo_sim`: class and addresses of the parent are
  part of its view).
-/
namespace Tins.Wire.ChainAll
open Tins Tins.Wire Tins.Wire.Transport
open Tins.Wire.L2 (layerView splitRaw stripView padOf ViewEq IsTail TailInner cxOf)

/-- the immediate parents of the two serializations: none at all, or two with the same class and the same addresses -/
theorem parentSim_cases {ps ps' : List LayerInfo} (h : ParentSim ps ps') :
    (ps'.head? = none ∧ ps.head? = none) ∨
    ∃ p q, ps'.head? = some p ∧ ps.head? = some q ∧ p.cls = q.cls ∧
      p.fields.get "src_addr" = q.fields.get "src_addr" ∧ p.fields.get "dst_addr" = q.fields.get "dst_addr" := by
  have hh := h.head
  cases h1 : ps'.head? with
  | none =>
    cases h2 : ps.head? with
    | none => exact .inl ⟨rfl, rfl⟩
    | some q => rw [h1, h2] at hh; cases hh
  | some p =>
    cases h2 : ps.head? with
    | none => rw [h1, h2] at hh; cases hh
    | some q =>
      rw [h1, h2] at hh
      simp only [Option.map_some, Option.some.injEq, pkey, Prod.mk.injEq] at hh
      exact .inr ⟨p, q, rfl, rfl, hh.1, hh.2.1, hh.2.2⟩

/-! ### UDP -/

theorem udp_pseudo_sim {cx cx' : Ctx} (h : CtxSimA cx cx') (size : Nat) : Udp.pseudoOf cx' size = Udp.pseudoOf cx size := by
  unfold Udp.pseudoOf
  rcases parentSim_cases h.parents with ⟨h1, h2⟩ | ⟨p, q, h1, h2, hc, hs, hd⟩
  · rw [h1, h2]
  · rw [h1, h2]; simp only [hc, hs, hd]

/-- `UDP::write_serialization` as a function of the ports, the bytes behind the header, the inner size and the pseudo header -/
theorem udp_write_form (cx : Ctx) (u : Udp) (region : Bytes) (hr : 8 ≤ region.length) :
    u.write cx region =
      (match Udp.pseudoOf cx (8 + cx.innerSize) with
       | none => pure ((⟨u.sport, u.dport, (8 + cx.innerSize) % 65536, 0⟩ : Udp).headerBytes ++ region.drop 8)
       | some ps =>
         let r1 := (⟨u.sport, u.dport, (8 + cx.innerSize) % 65536, 0⟩ : Udp).headerBytes ++ region.drop 8
         let chk := not16 (fold16 ((ps + sumRange r1) % 4294967296))
         let chk := if chk = 0 then 65535 else chk
         poke "UDP::write_serialization check" r1 6 (le16 chk)) := by
  have hlen : ({ u with check := 0, len := (8 + cx.innerSize) % 65536 } : Udp).headerBytes.length = 8 :=
    udp_headerBytes_length _
  have hw := writeAtStart_eq region ({ u with check := 0, len := (8 + cx.innerSize) % 65536 } : Udp).headerBytes
    (by rw [hlen]; exact hr)
  rw [hlen] at hw
  unfold Udp.write
  simp only [hw, bind, Out.bind]
  rfl

/-- **UDP** -/
theorem udp_fix (cx cx' : Ctx) (u : Udp) (hi : u.WF) (region : Bytes) (hr : 8 ≤ region.length)
    (out : Bytes) (hw : u.write cx region = .ok out)
    (x' : AnyObj) (inner : Inner) (hp : parseOne "UDP" out = .ok (x', inner))
    (hsim : CtxSimA cx cx') (hsz : cx'.innerSize = cx.innerSize) :
    x'.hdr = 8 ∧ (∀ n, x'.trl n = 0) ∧
      ∀ region' : Bytes, region'.length = region.length → region'.drop 8 = region.drop 8 →
        x'.write cx' region' = .ok out := by
  rcases udp_reparse cx u hi region hr with ⟨out2, u', hw2, _, hp2, hv, _⟩
  have e : out2 = out := by have := hw2.symm.trans hw; injection this
  subst e
  have hx := (parseOne_udp _ _ _ hp2).symm.trans hp
  injection hx with hx
  injection hx with hx1 _
  subst hx1
  refine ⟨rfl, fun _ => rfl, ?_⟩
  intro region' hl' hd'
  show u'.write cx' region' = _
  simp only [Udp.view, Prod.mk.injEq] at hv
  rw [← hw, udp_write_form cx' u' region' (by omega), udp_write_form cx u region hr, udp_pseudo_sim hsim, hsz, hd', hv.1, hv.2]

/-! ### TCP -/

theorem tcp_pseudo_sim {cx cx' : Ctx} (h : CtxSimA cx cx') (size : Nat) : Tcp.pseudoOf cx' size = Tcp.pseudoOf cx size := by
  unfold Tcp.pseudoOf
  rcases parentSim_cases h.parents with ⟨h1, h2⟩ | ⟨p, q, h1, h2, hc, hs, hd⟩
  · rw [h1, h2]
  · rw [h1, h2]; simp only [hc, hs, hd]

/-- what `TCP::write_serialization` does once header, options and padding are laid down -/
def tcpFinish (ps : Option Nat) (r1 : Bytes) : Out Bytes :=
  match ps with
  | none => pure r1
  | some ps => poke "TCP::write_serialization ((tcp_header*)buffer)->check" r1 16
      (le16 (not16 (fold16 ((ps + sumRange r1) % 4294967296))))

/-- `TCP::write_serialization` as a function of the non-derived members, the bytes behind the header, the inner size and the
    pseudo header -/
theorem tcp_write_form (cx : Ctx) (t : Tcp) (hs : Tcp.optsSum t.opts ≤ 40) (region : Bytes) (hr : t.hdr ≤ region.length) :
    t.write cx region =
      tcpFinish (Tcp.pseudoOf cx (t.hdr + cx.innerSize))
        (({ t with check := 0, doff := (20 + Tcp.padded (Tcp.optsSum t.opts)) / 4 } : Tcp).headerBytes ++ Tcp.optsBytes t.opts ++
          List.replicate (Tcp.padded (Tcp.optsSum t.opts) - Tcp.optsSum t.opts) 0 ++ region.drop t.hdr) := by
  have hp := tcp_padded_spec (Tcp.optsSum t.opts)
  have hh := tcp_hdr_eq t hs
  rw [hh] at hr
  have hcalc : Tcp.calcOptionsSize t.opts = Tcp.optsSum t.opts := Nat.mod_eq_of_lt (by omega)
  have hpad : Tcp.padOptionsSize (Tcp.optsSum t.opts) = Tcp.padded (Tcp.optsSum t.opts) :=
    tcp_padOptionsSize_eq _ (by omega)
  have hnd' : ¬ (20 + Tcp.padded (Tcp.optsSum t.opts)) / 4 > 15 := by omega
  have hmod : (20 + Tcp.padded (Tcp.optsSum t.opts)) % 4294967296 = 20 + Tcp.padded (Tcp.optsSum t.opts) :=
    Nat.mod_eq_of_lt (by omega)
  have hdrop : region.drop t.hdr = region.drop (20 + Tcp.padded (Tcp.optsSum t.opts)) := by rw [hh]
  rw [hdrop]
  generalize hS : Tcp.optsSum t.opts = S at *
  generalize hP : Tcp.padded S = P at *
  have hb := tcp_headerBytes_length ({ t with check := 0, doff := (20 + P) / 4 } : Tcp)
  unfold Tcp.write
  simp only [hcalc, hpad, hnd', if_false, hmod]
  exact tcp_stream_ok region _ t.opts S P (fun r1 : Bytes => tcpFinish (Tcp.pseudoOf cx (t.hdr + cx.innerSize)) r1)
    hb hS hp.1 hp.2.1 hr

/-- **TCP** -/
theorem tcp_fix (cx cx' : Ctx) (t : Tcp) (hi : t.Inv) (hc : ∀ o ∈ t.opts, Tcp.Canon o) (hs : Tcp.optsSum t.opts ≤ 40)
    (region : Bytes) (hr : t.hdr ≤ region.length)
    (out : Bytes) (hw : t.write cx region = .ok out)
    (x' : AnyObj) (inner : Inner) (hp : parseOne "TCP" out = .ok (x', inner))
    (hsim : CtxSimA cx cx') (hsz : cx'.innerSize = cx.innerSize) :
    x'.hdr = t.hdr ∧ (∀ n, x'.trl n = 0) ∧
      ∀ region' : Bytes, region'.length = region.length → region'.drop t.hdr = region.drop t.hdr →
        x'.write cx' region' = .ok out := by
  rcases tcp_reparse cx t hi hc hs region hr with ⟨out2, c, hw2, _, hp2⟩
  have e : out2 = out := by have := hw2.symm.trans hw; injection this
  subst e
  have hx := (parseOne_tcp _ _ _ hp2).symm.trans hp
  injection hx with hx
  injection hx with hx1 _
  subst hx1
  refine ⟨rfl, fun _ => rfl, ?_⟩
  intro region' hl' hd'
  show ({ t with doff := t.hdr / 4, check := c } : Tcp).write cx' region' = _
  have h2 := tcp_write_form cx' ({ t with doff := t.hdr / 4, check := c } : Tcp) hs region' (by rw [hl']; exact hr)
  rw [h2, ← hw, tcp_write_form cx t hs region hr, hsz]
  show tcpFinish (Tcp.pseudoOf cx' (t.hdr + cx.innerSize)) (_ ++ _ ++ _ ++ region'.drop t.hdr) = _
  rw [tcp_pseudo_sim hsim, hd']

end Tins.Wire.ChainAll
