import TinsModel.Wire.Chain.FixCtx
import TinsModel.Wire.Chain.StepIcmp
/-
  Second-serialization fixed point, part 2e: ICMP and ICMPv6 **without an RFC 4884 extension structure** (the objects with a
  structure, and the error messages whose quote is not ghost-free, are in `ResidualAll`: known findings KF-C03-Icmp-3/4).

  The re-parsed object is `onWire`: members that are not on the wire for the message type are zero-initialised, the union
  carries the derived RFC 4884 length octet (ICMPv6: and the derived MLDv2 record count).  The writers emit only the members
  that belong to the message type, and the derived octets are fixed points (`icmp_lengthFor_idem`: once a non-zero length is
  stored the writer keeps deriving it from the same inner size; a zero length stays zero), so the header image — and with it
  the checksum over header and payload — is the same (`icmp_headBytes_onWire`, `icmp6_headBytes_onWire`).
-/
namespace Tins.Wire.ChainAll
open Tins Tins.Wire Tins.Wire.Icmp
open Tins.Wire.L2 (layerView splitRaw stripView padOf ViewEq IsTail TailInner cxOf)

/-! ### ICMP -/

theorem icmp_lengthFor_lt (p : Icmp4) (inner : Option Nat) : p.lengthFor inner < 256 := by
  unfold Icmp4.lengthFor Icmp4.length
  split
  · dsimp only
    split
    · exact Nat.mod_lt _ (by decide)
    · exact byteAt_lt _ _
  · exact byteAt_lt _ _

/-- **the RFC 4884 length octet is a fixed point** of `write_serialization` (same type, same inner size, no structure) -/
theorem icmp_lengthFor_idem (p p' : Icmp4) (inner : Option Nat) (ht : p'.type = p.type) (he : p'.hasExt = p.hasExt)
    (hl : p'.length = p.lengthFor inner) : p'.lengthFor inner = p.lengthFor inner := by
  have hl' := hl
  unfold Icmp4.lengthFor at hl' ⊢
  rw [ht, he]
  by_cases hc : Icmp4.extAllowed p.type = true
  · simp only [hc, if_true] at hl' ⊢
    by_cases hA : (p.length != 0 || decide (paddedInner inner 4 > 128)) = true
    · simp only [hA, if_true] at hl' ⊢
      rw [hl']
      simp only [ite_self]
    · simp only [hA, Bool.false_eq_true, if_false] at hl' ⊢
      have h0 : p.length = 0 ∧ ¬ paddedInner inner 4 > 128 := by simpa using hA
      rw [hl', h0.1]
      simp [h0.2]
  · simp only [hc, Bool.false_eq_true, if_false] at hl' ⊢
    exact hl'

theorem icmp_unFor_length (p : Icmp4) (inner : Option Nat) (hi : p.Inv) : (p.unFor inner).length = 4 := by
  unfold Icmp4.unFor
  rw [patch_length _ _ _ (by simp [hi.un])]
  exact hi.un

/-- outside the RFC 4884 types the union is written as stored -/
theorem icmp_unFor_plain (p : Icmp4) (hi : p.Inv) (inner : Option Nat) (ha : Icmp4.extAllowed p.type = false) :
    p.unFor inner = p.un := by
  rcases un_quad p.un hi.un with ⟨a, b, c, d, hu⟩
  simp [Icmp4.unFor, Icmp4.lengthFor, ha, Icmp4.length, hu, patch, Icmp.byteAt]

theorem icmp_onWire_inv (p : Icmp4) (hi : p.Inv) (ck : Nat) (inner : Option Nat) :
    (p.onWire ck (p.unFor inner) ExtS.default).Inv := by
  refine ⟨icmp_unFor_length p inner hi, ?_, ?_, ?_⟩
  · show (if _ then p.orig else List.replicate 4 0).length = 4
    split <;> simp [hi.orig]
  · show (if _ then p.recv else List.replicate 4 0).length = 4
    split <;> simp [hi.recv]
  · show (if _ then p.trans else List.replicate 4 0).length = 4
    split <;> simp [hi.trans]

/-- **the header image of the re-parsed message is the header image of the original** -/
theorem icmp_headBytes_onWire (p : Icmp4) (hi : p.Inv) (he : p.hasExt = false) (inner : Option Nat) (ck : Nat) :
    (p.onWire ck (p.unFor inner) ExtS.default).headBytes inner = p.headBytes inner := by
  have hL := icmp_lengthFor_lt p inner
  rcases un_quad p.un hi.un with ⟨a, b, c, d, hu⟩
  have hlen : (p.onWire ck (p.unFor inner) ExtS.default).length = p.lengthFor inner := by
    simp [Icmp4.length, Icmp4.onWire, Icmp4.unFor, hu, patch, Icmp.byteAt, ofNat_toNat_of_lt _ hL]
  have hidem := icmp_lengthFor_idem p (p.onWire ck (p.unFor inner) ExtS.default) inner rfl
    (by rw [he]; simp [Icmp4.hasExt, Icmp4.onWire, ExtS.default]) hlen
  have hbody : (p.onWire ck (p.unFor inner) ExtS.default).bodyBytes = p.bodyBytes := by
    unfold Icmp4.bodyBytes
    by_cases ht : Icmp4.isTimestamp p.type = true
    · simp [Icmp4.onWire, ht]
    · by_cases hm : Icmp4.isMask p.type = true
      · simp [Icmp4.onWire, ht, hm]
      · simp [Icmp4.onWire, ht, hm]
  unfold Icmp4.headBytes
  rw [hidem, hbody]
  simp [Icmp4.onWire, Icmp4.unFor, hu, patch]

/-- **ICMP** -/
theorem icmp_fix (cx cx' : Ctx) (p : Icmp4) (hi : p.Inv) (hsm : p.Small) (hext : p.ext = ExtS.default) (region : Bytes)
    (hr : p.hdr ≤ region.length)
    (hg : Icmp4.extAllowed p.type = true →
      ghostFree (p.lengthFor (Icmp4.innerOf cx.innerSize) % 256 * 4) (region.drop p.hdr))
    (out : Bytes) (hw : p.write cx region = .ok out)
    (x' : AnyObj) (inner : Inner) (hp : parseOne "ICMP" out = .ok (x', inner)) (hsz : cx'.innerSize = cx.innerSize) :
    x'.hdr = p.hdr ∧ (∀ n, x'.trl n = 0) ∧
      ∀ region' : Bytes, region'.length = region.length → region'.drop p.hdr = region.drop p.hdr →
        x'.write cx' region' = .ok out := by
  have he : p.hasExt = false := by simp [Icmp4.hasExt, hext, ExtS.default]
  -- the re-parsed object
  have hx : ∃ ck, x' = .icmp (.icmp (p.onWire ck (p.unFor (Icmp4.innerOf cx.innerSize)) ExtS.default)) := by
    cases ha : Icmp4.extAllowed p.type with
    | false =>
      rcases icmp_reparse_plain cx p hi hsm he ha region hr with ⟨out2, ck, hw2, _, hp2⟩
      have := out_unique hw2 hw; subst this
      have hxx := (parseOne_icmp _ _ _ hp2).symm.trans hp
      injection hxx with hxx
      injection hxx with hx1 _
      exact ⟨ck, by rw [icmp_unFor_plain p hi _ ha]; exact hx1.symm⟩
    | true =>
      rcases icmp_reparse_quote cx p hi hsm he ha region hr (hg ha) with ⟨out2, ck, hw2, _, hp2⟩
      have := out_unique hw2 hw; subst this
      have hxx := (parseOne_icmp _ _ _ hp2).symm.trans hp
      injection hxx with hxx
      injection hxx with hx1 _
      exact ⟨ck, hx1.symm⟩
  obtain ⟨ck, rfl⟩ := hx
  refine ⟨rfl, fun n => icmp_trl_zero (p.onWire ck (p.unFor (Icmp4.innerOf cx.innerSize)) ExtS.default) rfl n, ?_⟩
  intro region' hl' hd'
  have hi' := icmp_onWire_inv p hi ck (Icmp4.innerOf cx.innerSize)
  have he' : (p.onWire ck (p.unFor (Icmp4.innerOf cx.innerSize)) ExtS.default).hasExt = false := by
    simp [Icmp4.hasExt, Icmp4.onWire, ExtS.default]
  show (p.onWire ck (p.unFor (Icmp4.innerOf cx.innerSize)) ExtS.default).write cx' region' = _
  have h2 := icmp_write_plain_eq cx' _ hi' he' region' (by rw [hl']; exact hr)
  rw [hsz, icmp_headBytes_onWire p hi he] at h2
  rw [h2, ← hw, icmp_write_plain_eq cx p hi he region hr]
  show Out.ok (setCk (_ ++ region'.drop p.hdr) (not16 (sumRange (_ ++ region'.drop p.hdr)))) = _
  rw [hd']

/-! ### ICMPv6 -/

theorem icmp6_lengthFor_lt (p : Icmp6) (inner : Option Nat) : p.lengthFor inner < 256 := by
  unfold Icmp6.lengthFor Icmp6.length
  split
  · dsimp only
    split
    · exact Nat.mod_lt _ (by decide)
    · exact byteAt_lt _ _
  · exact byteAt_lt _ _

/-- **the RFC 4884 length octet of ICMPv6 is a fixed point** of `write_serialization` -/
theorem icmp6_lengthFor_idem (p p' : Icmp6) (inner : Option Nat) (ht : p'.type = p.type) (he : p'.hasExt = p.hasExt)
    (hl : p'.length = p.lengthFor inner) : p'.lengthFor inner = p.lengthFor inner := by
  have hl' := hl
  unfold Icmp6.lengthFor at hl' ⊢
  rw [ht, he]
  by_cases hc : Icmp6.extAllowed p.type = true
  · simp only [hc, if_true] at hl' ⊢
    by_cases hA : (p.length != 0 || decide (paddedInner inner 8 > 128)) = true
    · simp only [hA, if_true] at hl' ⊢
      rw [hl']
      simp only [ite_self]
    · simp only [hA, Bool.false_eq_true, if_false] at hl' ⊢
      have h0 : p.length = 0 ∧ ¬ paddedInner inner 8 > 128 := by simpa using hA
      rw [hl', h0.1]
      simp [h0.2]
  · simp only [hc, Bool.false_eq_true, if_false] at hl' ⊢
    exact hl'

theorem bytes_len2 (l : Bytes) (h : l.length = 2) : ∃ a b, l = [a, b] := by
  match l, h with
  | [a, b], _ => exact ⟨a, b, rfl⟩

/-- the union the re-parsed message writes is the union the original wrote -/
theorem icmp6_unBytes_onWire (p : Icmp6) (hi : p.Inv) (he : p.hasExt = false) (inner : Option Nat) (ck : Nat) :
    (p.onWire ck (p.unBytes inner) ExtS.default).unBytes inner = p.unBytes inner := by
  have hL := icmp6_lengthFor_lt p inner
  have hlen : (p.onWire ck (p.unBytes inner) ExtS.default).length = p.lengthFor inner := by
    show Icmp.byteAt (p.unBytes inner) 0 = _
    rw [byteAt_unBytes p hi inner, Nat.mod_eq_of_lt hL]
  have hidem := icmp6_lengthFor_idem p (p.onWire ck (p.unBytes inner) ExtS.default) inner rfl
    (by rw [he]; simp [Icmp6.hasExt, Icmp6.onWire, ExtS.default]) hlen
  rcases un_quad p.un hi.un with ⟨a, b, c, d, hu⟩
  rcases bytes_len2 (OutCursor.beBytes 2 p.records.length) (OutCursor.beBytes_length _ _) with ⟨r0, r1, hr⟩
  have htype : (p.onWire ck (p.unBytes inner) ExtS.default).type = p.type := rfl
  have hun : (p.onWire ck (p.unBytes inner) ExtS.default).un = p.unBytes inner := rfl
  have hdef : ∀ q : Icmp6, q.unBytes inner =
      if q.type == 143 then patch (patch q.un 0 [UInt8.ofNat (q.lengthFor inner)]) 2 (OutCursor.beBytes 2 q.records.length)
      else patch q.un 0 [UInt8.ofNat (q.lengthFor inner)] := fun _ => rfl
  rw [hdef (p.onWire ck (p.unBytes inner) ExtS.default), hidem, htype, hun]
  by_cases h143 : (p.type == 143) = true
  · have hrec : (p.onWire ck (p.unBytes inner) ExtS.default).records = p.records := by
      simp [Icmp6.onWire, Icmp6.bodyOnWire, h143]
    rw [hrec]
    simp [Icmp6.unBytes, h143, hu, hr, patch]
  · simp [Icmp6.unBytes, h143, hu, patch]

theorem icmp6_bodyBytes_onWire (p : Icmp6) (ck : Nat) (un : Bytes) :
    (p.onWire ck un ExtS.default).bodyBytes = p.bodyBytes := by
  unfold Icmp6.bodyBytes
  by_cases h134 : (p.type == 134) = true
  · simp [Icmp6.onWire, Icmp6.bodyOnWire, h134]
  · by_cases h143 : (p.type == 143) = true
    · simp [Icmp6.onWire, Icmp6.bodyOnWire, h134, h143]
    · by_cases h130 : (p.type == 130) = true
      · by_cases hv : p.useMldv2 = true
        · simp [Icmp6.onWire, Icmp6.bodyOnWire, h134, h143, h130, hv]
        · simp [Icmp6.onWire, Icmp6.bodyOnWire, h134, h143, h130, hv]
      · simp [Icmp6.onWire, Icmp6.bodyOnWire, h134, h143, h130]

theorem icmp6_extra_onWire (p : Icmp6) (ck : Nat) (un : Bytes) : (p.onWire ck un ExtS.default).extra = p.extra := by
  unfold Icmp6.extra
  by_cases h134 : (p.type == 134) = true
  · simp [Icmp6.onWire, Icmp6.bodyOnWire, h134]
  · by_cases h143 : (p.type == 143) = true
    · simp [Icmp6.onWire, Icmp6.bodyOnWire, h134, h143]
    · by_cases h130 : (p.type == 130) = true
      · by_cases hv : p.useMldv2 = true
        · simp [Icmp6.onWire, Icmp6.bodyOnWire, h134, h143, h130, hv]
        · simp [Icmp6.onWire, Icmp6.bodyOnWire, h134, h143, h130, hv]
      · simp [Icmp6.onWire, Icmp6.bodyOnWire, h134, h143, h130]

theorem icmp6_hdr_onWire (p : Icmp6) (hi : p.Inv) (ck : Nat) (un : Bytes) : (p.onWire ck un ExtS.default).hdr = p.hdr := by
  unfold Icmp6.hdr
  rw [icmp6_extra_onWire]
  show (8 + Icmp6.sizeAfter 0 p.opts + p.extra + _ + _) % 4294967296 = _
  rw [sizeAfter_zero, ← hi.optsSize]
  rfl

/-- **the header image of the re-parsed message is the header image of the original** -/
theorem icmp6_headBytes_onWire (p : Icmp6) (hi : p.Inv) (he : p.hasExt = false) (inner : Option Nat) (ck : Nat) :
    (p.onWire ck (p.unBytes inner) ExtS.default).headBytes inner = p.headBytes inner := by
  unfold Icmp6.headBytes
  rw [icmp6_unBytes_onWire p hi he, icmp6_bodyBytes_onWire]
  have h1 : (if Icmp6.hasTarget (p.onWire ck (p.unBytes inner) ExtS.default).type then
      (p.onWire ck (p.unBytes inner) ExtS.default).target else []) = (if Icmp6.hasTarget p.type then p.target else []) := by
    by_cases h : Icmp6.hasTarget p.type = true <;> simp [Icmp6.onWire, Icmp6.bodyOnWire, h]
  have h2 : (if Icmp6.hasDest (p.onWire ck (p.unBytes inner) ExtS.default).type then
      (p.onWire ck (p.unBytes inner) ExtS.default).dest else []) = (if Icmp6.hasDest p.type then p.dest else []) := by
    by_cases h : Icmp6.hasDest p.type = true <;> simp [Icmp6.onWire, Icmp6.bodyOnWire, h]
  rw [h1, h2]
  rfl

theorem icmp6_pseudo_sim {cx cx' : Ctx} (h : CtxSimA cx cx') (size : Nat) : Icmp6.pseudoOf cx' size = Icmp6.pseudoOf cx size := by
  unfold Icmp6.pseudoOf
  have hh := h.parents.head
  cases h1 : cx'.parents.head? with
  | none =>
    cases h2 : cx.parents.head? with
    | none => rfl
    | some q => rw [h1, h2] at hh; cases hh
  | some p =>
    cases h2 : cx.parents.head? with
    | none => rw [h1, h2] at hh; cases hh
    | some q =>
      rw [h1, h2] at hh
      simp only [Option.map_some, Option.some.injEq, pkey, Prod.mk.injEq] at hh
      simp only [hh.1, hh.2.1, hh.2.2]

/-- what `ICMPv6::write_serialization` does once the header is laid down (no extension structure) -/
def icmp6Finish (ps : Option Nat) (r : Bytes) : Out Bytes :=
  match ps with
  | none => pure r
  | some ps => poke "ICMPv6::write_serialization checksum" r 2 (le16 (not16 (fold16 ((ps + sumRange r) % 4294967296)) % 65536))

/-- `ICMPv6::write_serialization` without an extension structure, as a function of the header image, the bytes behind the
    header and the pseudo header -/
theorem icmp6_write_form (cx : Ctx) (p : Icmp6) (hi : p.Inv) (hs : p.Ser) (he : p.hasExt = false) (region : Bytes)
    (hr : p.hdr ≤ region.length) :
    p.write cx region = icmp6Finish (Icmp6.pseudoOf cx (p.hdr + cx.innerSize + p.trl cx.innerSize))
      (p.headBytes (Icmp4.innerOf cx.innerSize) ++ region.drop p.hdr) := by
  have hhl := icmp6_headBytes_length p hi hs (Icmp4.innerOf cx.innerSize)
  unfold Icmp6.write
  dsimp only
  rw [icmp6_writeHead_eq p hi hs _ region hr]
  simp only [Out.bind_ok]
  unfold Icmp6.writeTail
  dsimp only
  rw [emit_ofRegion_buffer, hhl]
  simp only [he, Bool.false_eq_true, if_false, Out.pure_eq, Out.bind_ok]
  rfl

/-- **ICMPv6** -/
theorem icmp6_fix (cx cx' : Ctx) (p : Icmp6) (hi : p.Inv) (hs : p.Ser) (hsm : p.Small) (hext : p.ext = ExtS.default)
    (region : Bytes) (hr : p.hdr ≤ region.length)
    (hbw : p.BodyWire (p.unBytes (Icmp4.innerOf cx.innerSize)) (!(Icmp6.optsBytes p.opts ++ region.drop p.hdr).isEmpty))
    (how : p.OptsWire (region.drop p.hdr))
    (hg : Icmp6.extAllowed p.type = true →
      ghostFree (Icmp.byteAt (p.unBytes (Icmp4.innerOf cx.innerSize)) 0 * 8) (region.drop p.hdr))
    (out : Bytes) (hw : p.write cx region = .ok out)
    (x' : AnyObj) (inner : Inner) (hp : parseOne "ICMPv6" out = .ok (x', inner))
    (hsim : CtxSimA cx cx') (hsz : cx'.innerSize = cx.innerSize) :
    x'.hdr = p.hdr ∧ (∀ n, x'.trl n = 0) ∧
      ∀ region' : Bytes, region'.length = region.length → region'.drop p.hdr = region.drop p.hdr →
        x'.write cx' region' = .ok out := by
  have he : p.hasExt = false := by simp [Icmp6.hasExt, hext, ExtS.default]
  rcases icmp6_reparse_plain cx p hi hs hsm he region hr hbw how hg with ⟨out2, ck, hw2, hp2⟩
  have := out_unique hw2 hw; subst this
  have hxx := (parseOne_icmp6 _ _ _ hp2).symm.trans hp
  injection hxx with hxx
  injection hxx with hx1 _
  subst hx1
  have hi' := icmp6_parse_inv _ _ _ hp2
  have hhdr := icmp6_hdr_onWire p hi ck (p.unBytes (Icmp4.innerOf cx.innerSize))
  have hs' : (p.onWire ck (p.unBytes (Icmp4.innerOf cx.innerSize)) ExtS.default).Ser := by
    refine ⟨?_, by simp [Icmp6.onWire, ExtS.default, ExtS.plainSize]⟩
    rw [icmp6_extra_onWire]
    exact hs.1
  have he' : (p.onWire ck (p.unBytes (Icmp4.innerOf cx.innerSize)) ExtS.default).hasExt = false := by
    simp [Icmp6.hasExt, Icmp6.onWire, ExtS.default]
  have htrl : ∀ n, (p.onWire ck (p.unBytes (Icmp4.innerOf cx.innerSize)) ExtS.default).trl n = 0 :=
    fun n => icmp6_trl_zero _ rfl n
  refine ⟨hhdr, htrl, ?_⟩
  intro region' hl' hd'
  show (p.onWire ck (p.unBytes (Icmp4.innerOf cx.innerSize)) ExtS.default).write cx' region' = _
  have h2 := icmp6_write_form cx' _ hi' hs' he' region' (by rw [hhdr, hl']; exact hr)
  rw [hsz, icmp6_headBytes_onWire p hi he, hhdr, htrl, icmp6_pseudo_sim hsim, hd'] at h2
  rw [h2, ← hw, icmp6_write_form cx p hi hs he region hr, icmp6_trl_zero p hext]

end Tins.Wire.ChainAll
