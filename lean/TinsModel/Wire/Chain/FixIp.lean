import TinsModel.Wire.Chain.FixCtx
/-
  Second-serialization fixed point, part 2a: the Ip family (IP with options, IPSecAH, IPSecESP).

  Shape of every class lemma (`*_fix`): the object `o` was written in context `cx` on `region` (result `out`) and the parsing
  constructor, run on `out` followed by `junk`, returned `x'`.  Then, in any context `cx'` the writers cannot tell from `cx`
  (`CtxSimA`) and on any region of the same length with the same bytes behind the header, `x'` writes `out` again: the
  derived fields (`ihl`, total length, protocol, checksum; AH next header / length) are recomputed from the same inputs, and
  the stored next-protocol tag is what the first serialization derived (`protocolFor_idem`).
-/
namespace Tins.Wire.ChainAll
open Tins Tins.Wire Tins.Wire.Ip
open Tins.Wire.L2 (layerView splitRaw stripView padOf ViewEq IsTail TailInner cxOf)

/-! ### IP -/

/-- the protocol number is a fixed point: derived from the same inner class, or — in front of a class without a protocol
    number — the stored one, which is the one the first serialization kept -/
theorem protocolFor_idem {cx cx' : Ctx} (h : CtxSimA cx cx') (o : Ip4) (region : Bytes) :
    Ip4.protocolFor cx' (Ip4.final cx o region) = Ip4.protocolFor cx o := by
  have hh := h.headCls
  rw [final_protocol_of]
  unfold Ip4.protocolFor
  cases h1 : cx'.inners.head? with
  | none =>
    cases h2 : cx.inners.head? with
    | none => rfl
    | some j => rw [h1, h2] at hh; cases hh
  | some i =>
    cases h2 : cx.inners.head? with
    | none => rw [h1, h2] at hh; cases hh
    | some j =>
      rw [h1, h2] at hh
      have hc : i.cls = j.cls := by simpa using hh
      simp only [hc]
      split <;> rfl
where
  final_protocol_of : Ip4.protocolFor cx' (Ip4.final cx o region) =
      (match cx'.inners.head? with
       | some i => if Tags.ipProtoOfPduType (Tags.pduTypeOf i.cls) != 255 then Tags.ipProtoOfPduType (Tags.pduTypeOf i.cls) % 256
                   else Ip4.protocolFor cx o
       | none => 0) := rfl

theorem written_final {cx cx' : Ctx} (h : CtxSimA cx cx') (o : Ip4) (region : Bytes) (n : Nat) :
    Ip4.written cx' (Ip4.final cx o region) n = Ip4.written cx o n := by
  have hp := protocolFor_idem h o region
  unfold Ip4.written
  rw [hp]
  rfl

theorem checksumField_append (H t : Bytes) (n : Nat) (h : H.length = n) : Ip4.checksumField (H ++ t) n = Ip4.checksumField H n := by
  unfold Ip4.checksumField
  rw [take_append_len _ _ n h, List.take_of_length_le (by omega)]

/-- the header the re-parsed object stores is the header the original stored -/
theorem final_final {cx cx' : Ctx} (h : CtxSimA cx cx') (o : Ip4) (hi : o.Inv) (region region' : Bytes)
    (hl' : region'.length = region.length) : Ip4.final cx' (Ip4.final cx o region) region' = Ip4.final cx o region := by
  have hw := written_final h o region region.length
  have hI : Ip4.headerImage cx' (Ip4.final cx o region) region.length = Ip4.headerImage cx o region.length := by
    unfold Ip4.headerImage; rw [hw]; rfl
  have hlen := headerImage_length cx o region.length hi
  show ({ Ip4.written cx' (Ip4.final cx o region) region'.length with
      check := Ck.bswap16 (Ip4.checksumField (Ip4.headerImage cx' (Ip4.final cx o region) region'.length ++ region'.drop o.hdr) o.hdr) } : Ip4)
    = { Ip4.written cx o region.length with
      check := Ck.bswap16 (Ip4.checksumField (Ip4.headerImage cx o region.length ++ region.drop o.hdr) o.hdr) }
  rw [hl', hI, hw, checksumField_append _ _ _ hlen, checksumField_append _ _ _ hlen]

/-- **IP: the re-parsed datagram header serializes to the same bytes** -/
theorem ip_fix (cx cx' : Ctx) (o : Ip4) (hi : o.Inv) (hn : o.Normal) (hf : o.Fits) (region : Bytes)
    (hr : o.hdr ≤ region.length) (h16 : region.length < 65536) (junk out : Bytes) (hw : o.write cx region = .ok out)
    (x' : AnyObj) (inner : Inner) (hp : parseOne "IP" (out ++ junk) = .ok (x', inner))
    (hsim : CtxSimA cx cx') :
    x'.hdr = o.hdr ∧ (∀ n, x'.trl n = 0) ∧
      ∀ region' : Bytes, region'.length = region.length → region'.drop o.hdr = region.drop o.hdr →
        x'.write cx' region' = .ok out := by
  rcases ip4_reparse_junk cx o hi hn hf region hr h16 junk with ⟨out2, hw2, _, hp2⟩
  have e : out2 = out := by have := hw2.symm.trans hw; injection this
  subst e
  have hx := (parseOne_ip _ _ _ hp2).symm.trans hp
  injection hx with hx
  injection hx with hx1 _
  subst hx1
  have hfi := final_inv cx o region hi hf
  refine ⟨rfl, fun _ => rfl, ?_⟩
  intro region' hl' hd'
  show (Ip4.final cx o region).write cx' region' = _
  have h2 := ip4_write_final cx' (Ip4.final cx o region) hfi hf region' (by rw [hl']; exact hr)
  rw [final_final hsim o hi region region' hl'] at h2
  rw [h2, ← hw, ip4_write_final cx o hi hf region hr]
  show Out.ok (_ ++ (_ ++ (_ ++ region'.drop o.hdr))) = _
  rw [hd']
  rfl

/-! ### IPSecAH -/

theorem ah_written_written {cx cx' : Ctx} (h : CtxSimA cx cx') (a : Ah) : Ah.written cx' (Ah.written cx a) = Ah.written cx a := by
  have hh := h.headCls
  have hn : Ah.nextHeaderFor cx' (Ah.written cx a) = Ah.nextHeaderFor cx a := by
    show (match cx'.inners.head? with
       | some i => if Tags.ipProtoOfPduType (Tags.pduTypeOf i.cls) != 255 then Tags.ipProtoOfPduType (Tags.pduTypeOf i.cls) % 256
                   else Ah.nextHeaderFor cx a
       | none => Ah.nextHeaderFor cx a) = _
    unfold Ah.nextHeaderFor
    cases h1 : cx'.inners.head? with
    | none =>
      cases h2 : cx.inners.head? with
      | none => rfl
      | some j => rfl
    | some i =>
      cases h2 : cx.inners.head? with
      | none => rw [h1, h2] at hh; cases hh
      | some j =>
        rw [h1, h2] at hh
        have hc : i.cls = j.cls := by simpa using hh
        simp only [hc]
        split <;> simp_all
  show ({ Ah.written cx a with nextHeader := Ah.nextHeaderFor cx' (Ah.written cx a),
                                length := Ah.lengthFor (Ah.written cx a) } : Ah) = _
  rw [hn]
  rfl

/-- **IPSecAH** -/
theorem ah_fix (cx cx' : Ctx) (a : Ah) (hi : a.Inv) (hrp : a.Repr) (region : Bytes) (hr : a.hdr ≤ region.length)
    (out : Bytes) (hw : a.write cx region = .ok out)
    (x' : AnyObj) (inner : Inner) (hp : parseOne "IPSecAH" out = .ok (x', inner))
    (hsim : CtxSimA cx cx') :
    x'.hdr = a.hdr ∧ (∀ n, x'.trl n = 0) ∧
      ∀ region' : Bytes, region'.length = region.length → region'.drop a.hdr = region.drop a.hdr →
        x'.write cx' region' = .ok out := by
  rcases ah_reparse cx a hi hrp region hr with ⟨out2, hw2, hp2⟩
  have e : out2 = out := by have := hw2.symm.trans hw; injection this
  subst e
  have hx := (parseOne_ah _ _ _ hp2).symm.trans hp
  injection hx with hx
  injection hx with hx1 _
  subst hx1
  have hwi : (Ah.written cx a).Inv := ⟨ah_nextHeaderFor_lt cx a hi.nextHeader, Nat.mod_lt _ (by decide), hi.reserved, hi.spi, hi.seq⟩
  refine ⟨rfl, fun _ => rfl, ?_⟩
  intro region' hl' hd'
  show (Ah.written cx a).write cx' region' = _
  have h2 := ah_write_eq cx' (Ah.written cx a) hwi region' (by rw [hl']; exact hr)
  rw [ah_written_written hsim a] at h2
  rw [h2, ← hw, ah_write_eq cx a hi region hr]
  show Out.ok (_ ++ _ ++ region'.drop a.hdr) = _
  rw [hd']
  rfl

/-! ### IPSecESP -/

/-- **IPSecESP** -/
theorem esp_fix (cx cx' : Ctx) (e : Esp) (hi : e.Inv) (region : Bytes) (hr : 8 ≤ region.length)
    (out : Bytes) (hw : e.write cx region = .ok out)
    (x' : AnyObj) (inner : Inner) (hp : parseOne "IPSecESP" out = .ok (x', inner))
    :
    x'.hdr = 8 ∧ (∀ n, x'.trl n = 0) ∧
      ∀ region' : Bytes, region'.length = region.length → region'.drop 8 = region.drop 8 →
        x'.write cx' region' = .ok out := by
  rcases esp_reparse cx e hi region hr with ⟨out2, hw2, hp2⟩
  have e' : out2 = out := by have := hw2.symm.trans hw; injection this
  subst e'
  have hx := (parseOne_esp _ _ _ hp2).symm.trans hp
  injection hx with hx
  injection hx with hx1 _
  subst hx1
  refine ⟨rfl, fun _ => rfl, ?_⟩
  intro region' hl' hd'
  show writeAtStart region' e.headerBytes = _
  have h1 := writeAtStart_eq region' e.headerBytes (by rw [esp_headerBytes_length]; omega)
  have h2 := writeAtStart_eq region e.headerBytes (by rw [esp_headerBytes_length]; omega)
  have hw' : writeAtStart region e.headerBytes = .ok out2 := hw
  rw [h1, ← hw', h2, esp_headerBytes_length, hd']

end Tins.Wire.ChainAll
