import TinsModel.Wire.Chain.ReparseAll
/-
  Whole-packet C03 over all covered families: **where the minimum-frame padding goes**.

  `padAll os` (= `reach os 0`) is the exact number of zero bytes the re-parse appends to the innermost payload.  Two facts
  make it usable without unfolding:
    * `padAll_le_padOf`   it never exceeds Σ trailer sizes (`L2.padOf`), the bound of the link-layer theorem;
    * `padAll_zero_of_net` it is 0 for every representable stack that contains an IP or IPv6 layer: EthernetII pads the
      frame to 60 bytes, the IP total length / IPv6 payload length cuts the padding off on re-parse, and no class below IP /
      IPv6 has a trailer (only network / transport classes follow: `below_netFam`) — the re-parsed view is then **equal**, no extra zeros (`chain_reparse_all_net`).
-/
namespace Tins.Wire.ChainAll
open Tins Tins.Wire
open Tins.Wire.L2 (layerView splitRaw stripView padOf ViewEq IsTail TailInner cxOf)

/-- IP and IPv6: the classes whose length field cuts off whatever follows the datagram -/
def isNet : AnyObj → Bool
  | .ip (.ip _) => true
  | .ip6 _ => true
  | _ => false

/-- the classes at or below the network layer: IP, IPSecAH, IPSecESP, IPv6, UDP, TCP, ICMP, ICMPv6 -/
def isNetFam : AnyObj → Bool
  | .ip _ => true
  | .ip6 _ => true
  | .tr _ => true
  | .icmp _ => true
  | _ => false

theorem cut_of_isNet (x : AnyObj) (h : isNet x = true) (k : Nat) : cut x k = 0 := by
  cases x with
  | ip o => cases o <;> first | rfl | cases h
  | ip6 o => rfl
  | _ => cases h

theorem protoTier_netFam {y : AnyObj} (h : ProtoTier y) : isNetFam y = true := by
  cases y <;> first | rfl | exact h.elim

/-- below IP / IPv6 / IPSecAH only classes of the network and transport layers follow (no link-layer, App or Wifi class) -/
theorem below_netFam (x y : AnyObj) (r : List AnyObj) (hx : isNetFam x = true) (hy : isRaw y = false)
    (hok : LayerOK x (y :: r)) : isNetFam y = true := by
  obtain ⟨_, _, hside, hlink⟩ := hok
  have hnx := nextA_cons_of_not_raw y r hy
  cases x with
  | l2 z => cases hx
  | raw p => cases hx
  | app o => cases hx
  | wifi o => cases hx
  | ip o =>
    cases o with
    | ip i =>
      have h2 : i.isFragmented = false ∧ ProtoTier y := by simpa only [LinkAll, hnx] using hlink
      exact protoTier_netFam h2.2
    | ah a =>
      have h2 : ProtoTier y := by simpa only [LinkAll, hnx] using hlink
      exact protoTier_netFam h2
    | esp e => simp only [LinkAll, hnx] at hlink
  | ip6 o =>
    cases o with
    | ip6 p =>
      have h2 : Ip6.Ipv6.hasFragment p.headers = false ∧ ProtoTier y := by simpa only [LinkAll, hnx] using hlink
      exact protoTier_netFam h2.2
  | tr o => simp only [LinkAll, hnx] at hlink
  | icmp o => simp only [LinkAll, hnx] at hlink

/-- the classes of the network and transport layers have no trailer in a representable stack -/
theorem trl_zero_of_netFam (x : AnyObj) (r : List AnyObj) (hx : isNetFam x = true) (hok : LayerOK x r) (n : Nat) :
    x.trl n = 0 := by
  obtain ⟨_, _, hside, _⟩ := hok
  cases x with
  | l2 z => cases hx
  | raw p => rfl
  | app o => cases hx
  | wifi o => cases hx
  | ip o => rfl
  | ip6 o => rfl
  | tr o => rfl
  | icmp o =>
    cases o with
    | icmp p => exact icmp_trl_zero p hside.2.1 n
    | icmp6 p => exact icmp6_trl_zero p hside.2.1 n

theorem netFam_not_raw {x : AnyObj} (h : isNetFam x = true) : isRaw x = false := by
  cases x <;> first | rfl | cases h

/-- below a class of the network / transport layers nothing has a trailer -/
theorem padOf_zero_below : ∀ (os : List AnyObj) (x : AnyObj), isNetFam x = true → StackableAll (x :: os) →
    padOf (x :: os) = 0 := by
  intro os
  induction os with
  | nil =>
    intro x hl hs
    rw [stackableAll_cons (netFam_not_raw hl)] at hs
    rw [padOf_consA, trl_zero_of_netFam x [] hl hs.1]
    rfl
  | cons a r ih =>
    intro x hl hs
    rw [stackableAll_cons (netFam_not_raw hl)] at hs
    rw [padOf_consA, trl_zero_of_netFam x _ hl hs.1, Nat.zero_add]
    cases ha : isRaw a with
    | true =>
      cases a with
      | raw p =>
        have hr : r = [] := hs.2
        subst hr
        simp [padOf, infos, AnyObj.trl]
      | _ => cases ha
    | false => exact ih a (below_netFam x a r hl ha hs.1) hs.2

theorem isNet_netFam (x : AnyObj) (h : isNet x = true) : isNetFam x = true ∧ isRaw x = false := by
  cases x <;> first | exact ⟨rfl, rfl⟩ | cases h

/-- **no padding reaches the payload of a stack that contains IP or IPv6** -/
theorem reach_zero_of_net : ∀ (os : List AnyObj), StackableAll os → (∃ o ∈ os, isNet o = true) → ∀ k, reach os k = 0 := by
  intro os
  induction os with
  | nil => intro _ ⟨o, ho, _⟩; cases ho
  | cons x r ih =>
    intro hs ⟨o, ho, hn⟩ k
    cases hx : isRaw x with
    | true =>
      cases x with
      | raw p =>
        have hr : r = [] := hs
        subst hr
        simp only [List.mem_singleton] at ho
        subst ho
        cases hn
      | _ => cases hx
    | false =>
      rw [reach_cons x r k hx]
      have hs2 := hs
      rw [stackableAll_cons hx] at hs2
      cases hnx : isNet x with
      | true =>
        rw [cut_of_isNet x hnx]
        have hle := reach_le r 0
        cases r with
        | nil => rfl
        | cons a t =>
          cases ha : isRaw a with
          | true =>
            cases a with
            | raw p => rfl
            | _ => cases ha
          | false =>
            have := padOf_zero_below t a (below_netFam x a t (isNet_netFam x hnx).1 ha hs2.1) hs2.2
            omega
      | false =>
        simp only [List.mem_cons] at ho
        rcases ho with rfl | ho
        · rw [hnx] at hn; cases hn
        · exact ih hs2.2 ⟨o, ho, hn⟩ _

theorem padAll_zero_of_net (os : List AnyObj) (hs : StackableAll os) (h : ∃ o ∈ os, isNet o = true) : padAll os = 0 :=
  reach_zero_of_net os hs h 0

/-- **C03 for stacks through IP / IPv6, padding in play**: EthernetII pads the frame to 60 bytes and the IP total length /
    IPv6 payload length cuts the padding off on re-parse — the re-parsed packet has the same view and the **same payload
    bytes**, no extra zeros -/
theorem chain_reparse_all_net (o : AnyObj) (os : List AnyObj) (hs : StackableAll (o :: os))
    (hnet : ∃ x ∈ o :: os, isNet x = true) (out : Bytes) (hser : serializeObjs (o :: os) = .ok out) :
    ∃ os', parseChain (out.length + 2) o.info.1 out = .ok os' ∧ ViewEqAll 0 (o :: os) os' ∧
      (splitRaw os').2 = (splitRaw (o :: os)).2 :=
  chain_reparse_all_exact o os hs (padAll_zero_of_net _ hs hnet) out hser

end Tins.Wire.ChainAll
