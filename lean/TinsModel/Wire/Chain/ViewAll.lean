import TinsModel.Wire.RegistryFacts
import TinsModel.Wire.L2.ThChainParse
/-
  Whole-packet C03 over ALL covered families, part 1: the comparison and the bookkeeping that does not depend on a class.

  The comparison is the one of the link-layer theorem (`L2.ViewEq`, the Lean counterpart of `WireSpec.sameView`): it is
  stated over `AnyObj` stacks and is reused unchanged (`ViewEqAll`).  What is generalised here is everything that was tied
  to the `.l2` constructor in `Wire/L2/ThChain*.lean`:

    * `nextA`       what follows a layer in a stack (nothing / a final RawPDU / another protocol layer of any family);
    * `cut`         how many of the zero bytes behind a layer's region reach the layers below it: a PPPoE payload length,
                    an IP total length and an IPv6 payload length cut them off, every other class passes them on;
    * `reach`       the number of zero bytes (minimum-frame padding of EthernetII / Dot1Q) that reach the innermost payload
                    of a stack: the exact `pad` of `ViewEqAll` in the whole-packet theorem (`reach_le_padOf`: never more than
                    `L2.padOf`; 0 as soon as an IP / IPv6 layer sits between the padding layer and the payload);
    * `StepInnerA`  the inner-PDU decision of the re-parse of one layer, for any class.
-/
namespace Tins.Wire.ChainAll
open Tins Tins.Wire
open Tins.Wire.L2 (layerView splitRaw stripView padOf ViewEq IsTail TailInner cxOf)

/-- **the C03 comparison for stacks of any families** — same classes in the same order, same `Fields.view` per layer (`^`
    tags only for the layer directly above a non-empty unrecognised payload), same payload bytes followed by at most `pad`
    zero bytes; an empty payload counts as no payload.  Identical to `L2.ViewEq` (which never looked at the family). -/
abbrev ViewEqAll (pad : Nat) (os os' : List AnyObj) : Prop := ViewEq pad os os'

/-- `size()` of a stack: Σ header + trailer sizes -/
def sizeOfStack (os : List AnyObj) : Nat := ((infos os).map (fun l => l.hdr + l.trl)).sum

theorem cxOf_innerSizeA (ps : List LayerInfo) (os : List AnyObj) : (cxOf ps os).innerSize = sizeOfStack os := rfl

def isRaw : AnyObj → Bool
  | .raw _ => true
  | _ => false

/-- what follows a layer in a stack -/
inductive NextA
  | none                                   -- the stack ends here
  | raw (p : Bytes)                        -- a final RawPDU
  | obj (y : AnyObj) (r : List AnyObj)     -- another protocol layer (never a RawPDU)
  | bad                                    -- a RawPDU that is not the last layer

def nextA : List AnyObj → NextA
  | [] => .none
  | [.raw p] => .raw p
  | .raw _ :: _ :: _ => .bad
  | y :: r => .obj y r

theorem nextA_none {os : List AnyObj} (h : nextA os = .none) : os = [] := by
  unfold nextA at h; split at h <;> first | rfl | cases h
theorem nextA_raw {os : List AnyObj} {p : Bytes} (h : nextA os = .raw p) : os = [.raw p] := by
  unfold nextA at h; split at h <;> cases h <;> rfl
theorem nextA_obj {os : List AnyObj} {y : AnyObj} {r : List AnyObj} (h : nextA os = .obj y r) :
    os = y :: r ∧ isRaw y = false := by
  unfold nextA at h
  split at h
  · cases h
  · cases h
  · cases h
  · rename_i y' r' h1 h2
    injection h with hy hr
    subst hy; subst hr
    refine ⟨rfl, ?_⟩
    cases y' with
    | raw p =>
      cases r' with
      | nil => exact (h1 p rfl rfl).elim
      | cons a t => exact (h2 p a t rfl rfl).elim
    | _ => rfl

theorem nextA_cons_of_not_raw (y : AnyObj) (r : List AnyObj) (h : isRaw y = false) : nextA (y :: r) = .obj y r := by
  cases y <;> first | rfl | cases h

/-- the link-layer `next` agrees with `nextA` wherever it is defined -/
theorem l2next_of_none {os : List AnyObj} (h : nextA os = .none) : L2.next os = .none := by rw [nextA_none h]; rfl
theorem l2next_of_raw {os : List AnyObj} {p : Bytes} (h : nextA os = .raw p) : L2.next os = .raw p := by rw [nextA_raw h]; rfl
theorem l2next_of_l2 {os : List AnyObj} {y : L2.Obj} {r : List AnyObj} (h : nextA os = .obj (.l2 y) r) :
    L2.next os = .l2 y r := by rw [(nextA_obj h).1]; rfl

/-- how many of `k` zero bytes behind the region of layer `x` reach the layers below it -/
def cut : AnyObj → Nat → Nat
  | .l2 x, k => L2.padTo x k
  | .ip (.ip _), _ => 0          -- the IP total length cuts them off
  | .ip6 _, _ => 0               -- the IPv6 payload length cuts them off
  | .app (.arp _), k => k        -- ARP hands whatever follows its 28 bytes to RawPDU
  | .app (.vxlan _), k => k      -- VXLAN hands everything to EthernetII
  | .app _, _ => 0               -- STP ignores what follows; RTP strips its own padding trailer; BootP / DHCP / DHCPv6 are leaves
  | .wifi (.dot11 _), k => k     -- data frames hand everything to SNAP / RawPDU
  | .wifi _, _ => 0              -- the EAPOL length field cuts them off (`EAPOL::from_bytes`); RadioTap strips the FCS it announces
  | _, k => k

theorem cut_le (x : AnyObj) (k : Nat) : cut x k ≤ k := by
  unfold cut
  split <;> first | exact L2.padTo_le _ _ | omega

theorem cut_zero (x : AnyObj) : cut x 0 = 0 := Nat.le_zero.mp (cut_le x 0)

/-- classes that may have zero bytes (padding of an enclosing EthernetII / Dot1Q) behind their region -/
def PadOK : AnyObj → Prop
  | .l2 y => L2.EtherTier y
  | .ip (.ip _) => True
  | .ip6 _ => True
  | .app (.arp _) => True        -- the padding becomes ARP's RawPDU
  | .app (.stp _) => True        -- STP ignores it
  | _ => False

/-- the `k` zero bytes behind the region of `x` (which has the ancestors `ps`) are legitimate -/
def PadCond (ps : List LayerInfo) (x : AnyObj) (k : Nat) : Prop := k = 0 ∨ (ps ≠ [] ∧ PadOK x)

/-- the number of zero bytes that reach the innermost payload when `k` zero bytes follow the stack -/
def reach : List AnyObj → Nat → Nat
  | [], k => k
  | .raw _ :: _, k => k
  | o :: os, k => reach os (cut o (o.trl (sizeOfStack os) + k))

/-- **the exact amount of minimum-frame padding the re-parse appends to the payload of a stack** -/
def padAll (os : List AnyObj) : Nat := reach os 0

theorem reach_cons (o : AnyObj) (os : List AnyObj) (k : Nat) (h : isRaw o = false) :
    reach (o :: os) k = reach os (cut o (o.trl (sizeOfStack os) + k)) := by
  cases o <;> first | rfl | cases h

theorem padOf_consA (o : AnyObj) (os : List AnyObj) : padOf (o :: os) = o.trl (sizeOfStack os) + padOf os := by
  simp [padOf, infos, sizeOfStack]

theorem reach_le (os : List AnyObj) : ∀ k, reach os k ≤ k + padOf os := by
  induction os with
  | nil => intro k; simp [reach]
  | cons o os ih =>
    intro k
    cases ho : isRaw o with
    | true =>
      cases o with
      | raw p => simp only [reach]; omega
      | _ => cases ho
    | false =>
      rw [reach_cons o os k ho, padOf_consA]
      have h1 := ih (cut o (o.trl (sizeOfStack os) + k))
      have h2 := cut_le o (o.trl (sizeOfStack os) + k)
      omega

/-- never more than the Σ trailer sizes the link-layer theorem allows -/
theorem padAll_le_padOf (os : List AnyObj) : padAll os ≤ padOf os := by
  have := reach_le os 0; simpa [padAll] using this

/-! ### entry names

The parsing constructors reach most classes under their own name.  Two families are (also) reached through a factory:
`Dot11::from_bytes` (entry `Dot11*`: what RadioTap calls) picks the class from the frame-control octet, and
`EAPOL::from_bytes` (entries `EAPOL` — what the EtherType 0x888e dispatches to — and `EAPOL*`) picks RC4EAPOL / RSNEAPOL from
the key-descriptor type octet and cuts the buffer at the EAPOL length field. -/

/-- the key-descriptor type octet names the class of the object (`EAPOL::from_bytes`: 1 = RC4, 2 / 254 = RSN) -/
def EapolTyped (e : Wifi.Eapol) : Prop :=
  (e.rsn = false ∧ Wifi.byteAt e.hdr 4 = 1) ∨ (e.rsn = true ∧ (Wifi.byteAt e.hdr 4 = 2 ∨ Wifi.byteAt e.hdr 4 = 254))

/-- `n` is a factory entry that builds the class of `y` from `y`'s own bytes -/
def PseudoName (n : String) : AnyObj → Prop
  | .wifi (.dot11 d) => n = "Dot11*" ∧ Wifi.Dot11.dispatch (Wifi.byteAt d.hdr 0) = d.cls
  | .wifi (.eapol e) => (n = "EAPOL" ∨ n = "EAPOL*") ∧ EapolTyped e
  | _ => False

/-- names under which the parsing constructors build an object of `y`'s class from `y`'s serialization -/
def EntryName (n : String) (y : AnyObj) : Prop := n = y.info.1 ∨ PseudoName n y

theorem entryName_self (y : AnyObj) : EntryName y.info.1 y := .inl rfl

def isEapol : AnyObj → Bool
  | .wifi (.eapol _) => true
  | _ => false

/-- zero bytes behind the region of `x` are legitimate when `x` is entered under the name `n`: the classes of `PadOK`, and
    RC4EAPOL / RSNEAPOL when entered through `EAPOL::from_bytes` (which cuts the buffer at the length field) -/
def PadOKN (n : String) (x : AnyObj) : Prop := PadOK x ∨ (isEapol x = true ∧ (n = "EAPOL" ∨ n = "EAPOL*"))

/-- the `k` zero bytes behind the region of `x` (ancestors `ps`, entered under the name `n`) are legitimate -/
def PadCondN (ps : List LayerInfo) (n : String) (x : AnyObj) (k : Nat) : Prop := k = 0 ∨ (ps ≠ [] ∧ PadOKN n x)

theorem padCondN_of_padCond {ps : List LayerInfo} {n : String} {x : AnyObj} {k : Nat} (h : PadCond ps x k) :
    PadCondN ps n x k := by
  rcases h with h | h
  · exact .inl h
  · exact .inr ⟨h.1, .inl h.2⟩

/-- the inner-PDU decision of the re-parse of layer `x` (re-parsed as `x'`) above the stack `os`, whose serialization is
    `io`, when `k'` zero bytes follow `io` in the buffer -/
def StepInnerA (x : AnyObj) (os : List AnyObj) (io : Bytes) (k' : Nat) (x' : AnyObj) (inner : Inner) : Prop :=
  match nextA os with
  | .none => TailInner inner (List.replicate (cut x k') 0)
  | .raw p => layerView (!p.isEmpty) x' = layerView (!p.isEmpty) x ∧ TailInner inner (p ++ List.replicate (cut x k') 0)
  | .obj y _ => ∃ n fb, inner = .cls n (io ++ List.replicate (cut x k') 0) fb ∧ EntryName n y ∧ (cut x k' = 0 ∨ PadOKN n y)
  | .bad => False

/-! ### views -/

theorem splitRaw_tailA (x : AnyObj) (hx : isRaw x = false) (t : List AnyObj) (p : Bytes) (h : IsTail t p) :
    splitRaw (x :: t) = ([x], p) := by
  rcases h with ⟨rfl, rfl⟩ | rfl <;> cases x <;> first | rfl | cases hx

/-- the last protocol layer with what follows it (any family) -/
theorem viewEq_leafA (pad : Nat) (x x' : AnyObj) (hx : isRaw x = false) (hx' : isRaw x' = false) (t t' : List AnyObj)
    (p : Bytes) (j : Nat) (hj : j ≤ pad) (ht : IsTail t p) (ht' : IsTail t' (p ++ List.replicate j 0))
    (hv : layerView (!p.isEmpty) x = layerView (!p.isEmpty) x') : ViewEqAll pad (x :: t) (x' :: t') := by
  rw [ViewEqAll, ViewEq, splitRaw_tailA x hx t p ht, splitRaw_tailA x' hx' t' _ ht']
  exact ⟨by simp only [stripView, hv], j, hj, rfl⟩

theorem splitRaw_ne_of_not_raw (y : AnyObj) (hy : isRaw y = false) (r : List AnyObj) : (splitRaw (y :: r)).1 ≠ [] := by
  cases r with
  | nil =>
    cases y with
    | raw p => cases hy
    | _ => simp [splitRaw]
  | cons a t => rw [L2.splitRaw_cons_cons]; simp

/-- the class name of a re-parsed layer is part of its view -/
theorem info_of_layerView {b : Bool} {x x' : AnyObj} (h : layerView b x' = layerView b x) : x'.info.1 = x.info.1 := by
  show (layerView b x').1 = (layerView b x).1
  rw [h]

end Tins.Wire.ChainAll
