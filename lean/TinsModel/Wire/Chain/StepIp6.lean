import TinsModel.Wire.Chain.StepL2
/-
  Whole-packet C03 over all covered families, part 3d: the one-layer step of IPv6 (with extension headers), and the first
  nibble of what IP / IPv6 write (MPLS dispatches on it).

  `Ip6.ipv6_reparse_parsed` is already stated with arbitrary bytes behind the datagram (the payload length
  `write_serialization` stores cuts them off); the step adds the dispatch: the last next-header octet is derived from the
  inner class (`lastNext`), is never an extension-header type for the classes the protocol dispatch names
  (`protoTier_roundtrip`) and names that class back; in front of a RawPDU the stored value is kept.
-/
namespace Tins.Wire.ChainAll
open Tins Tins.Wire Tins.Wire.Ip6 Tins.Wire.Ip6.Ipv6
open Tins.Wire.L2 (layerView splitRaw stripView padOf ViewEq IsTail TailInner cxOf)

theorem parseOne_ip6 (b : Bytes) (o : Ipv6) (i : Inner) (h : Ipv6.parse b = .ok (o, i)) :
    parseOne "IPv6" b = .ok (.ip6 (.ip6 o), i) := by
  have h1 : ("IPv6" == "RawPDU") = false := by decide
  have h2 : L2.classes.contains "IPv6" = false := by decide
  have h3 : Ip.classes.contains "IPv6" = false := by decide
  have h4 : Ip6.classes.contains "IPv6" = true := by decide
  simp only [parseOne, h1, h2, h3, h4, Bool.false_eq_true, if_false, if_true, Ip6.parse, beq_self_eq_true, h, bind, Out.bind,
    pure]

/-- the getter dump of an IPv6 object without the fields libtins derives; the fixed header's next-header octet is a tag
    (`^`) only when there are no extension headers -/
theorem ip6_view_of (b : Bool) (p : Ipv6) (n l f : Nat) (hn : b = true → p.headers = [] → n = p.nextHeader) :
    layerView b (.ip6 (.ip6 { p with nextHeader := n, payloadLength := l, finalNext := f })) = layerView b (.ip6 (.ip6 p)) := by
  cases hh : p.headers with
  | nil =>
    cases b with
    | false =>
      simp [layerView, AnyObj.info, Ip6.info, Ipv6.fields, Fields.view, Ipv6.optionsGetter, Ipv6.routingGetter,
        Ipv6.fragmentGetter, Ipv6.searchHeader, hh]
    | true =>
      simp [layerView, AnyObj.info, Ip6.info, Ipv6.fields, Fields.view, Ipv6.optionsGetter, Ipv6.routingGetter,
        Ipv6.fragmentGetter, Ipv6.searchHeader, hh, hn rfl hh]
  | cons a t =>
    cases b <;>
      simp [layerView, AnyObj.info, Ip6.info, Ipv6.fields, Fields.view, Ipv6.optionsGetter, Ipv6.routingGetter,
        Ipv6.fragmentGetter, Ipv6.searchHeader, hh]

theorem lastNext_nil (ps : List LayerInfo) (p : Ipv6) : lastNext (cxOf ps []) p = NO_NEXT_HEADER := rfl

theorem lastNext_raw (ps : List LayerInfo) (q : Bytes) (p : Ipv6) : lastNext (cxOf ps [.raw q]) p = p.finalNext := by
  have h : (cxOf ps [.raw q]).innerCls = some "RawPDU" := rfl
  simp [lastNext, h, raw_no_proto]

theorem lastNext_obj (ps : List LayerInfo) (y : AnyObj) (r : List AnyObj) (p : Ipv6) (hy : ProtoTier y) :
    lastNext (cxOf ps (y :: r)) p = Tags.ipProtoOfPduType (Tags.pduTypeOf y.info.1) := by
  have ht := protoTier_roundtrip y hy
  have hne : (Tags.ipProtoOfPduType (Tags.pduTypeOf y.info.1) != 255) = true := bne_iff_ne.mpr ht.1
  simp [lastNext, cxOf_innerCls_obj, hne]

theorem no_next_header_ok : (isExtensionHeader NO_NEXT_HEADER && NO_NEXT_HEADER != NO_NEXT_HEADER) = false := by decide
theorem classOfIpProto_no_next : Tags.classOfIpProto NO_NEXT_HEADER = none := by decide

/-- **IPv6 step**: `k` zero bytes may follow the datagram: the payload length cuts them off -/
theorem ip6_step (ps : List LayerInfo) (p : Ipv6) (os : List AnyObj) (hi : p.Inv)
    (hside : Side (.ip6 (.ip6 p)) os) (hlink : LinkAll (.ip6 (.ip6 p)) os) (k : Nat) (region io : Bytes)
    (hlen : region.length = p.hdr + sizeOfStack os) (hio : region.drop p.hdr = io)
    (hnil : os = [] → io = []) (hraw : ∀ q, os = [.raw q] → io = q) (hpos : ∀ y r, nextA os = .obj y r → 0 < io.length) :
    ∃ out x' inner, p.write (cxOf ps os) region = .ok out ∧ out.length = region.length ∧
      parseOne "IPv6" (out ++ List.replicate k 0) = .ok (x', inner) ∧
      layerView false x' = layerView false (.ip6 (.ip6 p)) ∧
      StepInnerA (.ip6 (.ip6 p)) os io k x' inner := by
  obtain ⟨hhp, h16⟩ : (∀ h ∈ p.headers, HdrParsed h) ∧ p.hdr + sizeOfStack os - 40 < 65536 := hside
  have hcut : cut (.ip6 (.ip6 p)) k = 0 := rfl
  have hiol : io.length = region.length - p.hdr := by rw [← hio]; simp
  cases hnx : nextA os with
  | none =>
    have hos := nextA_none hnx; subst hos
    have hio0 := hnil rfl; subst hio0
    rcases ipv6_reparse_parsed (cxOf ps []) p hi hhp (by rw [lastNext_nil]; exact no_next_header_ok) region
      (by rw [cxOf_innerSizeA]; exact hlen) (by omega) (List.replicate k 0) with ⟨out, hw, hl, hp⟩
    rw [hio] at hp
    refine ⟨out, _, _, hw, hl, parseOne_ip6 _ _ _ hp, ip6_view_of false p _ _ _ (fun h => by cases h), ?_⟩
    unfold StepInnerA
    rw [hnx, hcut]
    simp only [List.replicate_zero]
    rw [lastNext_nil]
    unfold Ipv6.innerFor
    by_cases he : ([] ++ List.replicate k (0 : UInt8)).isEmpty = true
    · left; rw [if_pos he]; exact ⟨rfl, rfl⟩
    · right
      rw [if_neg he]
      cases hasFragment p.headers
      · simp only [Bool.false_eq_true, if_false, classOfIpProto_no_next]
      · simp only [if_true]
  | raw q =>
    have hos := nextA_raw hnx; subst hos
    have hioq := hraw q rfl; subst hioq
    have hl3 : Ip6TailOK p := by simpa only [LinkAll, hnx] using hlink
    rcases ipv6_reparse_parsed (cxOf ps [.raw io]) p hi hhp (by rw [lastNext_raw]; exact hl3.1) region
      (by rw [cxOf_innerSizeA]; exact hlen) (by omega) (List.replicate k 0) with ⟨out, hw, hl, hp⟩
    rw [hio] at hp
    have hview : ∀ b, layerView b (.ip6 (.ip6 (Ipv6.rederived (cxOf ps [.raw io]) p region.length))) =
        layerView b (.ip6 (.ip6 p)) := by
      intro b
      apply ip6_view_of b p
      intro _ hh
      rw [hh, lastNext_raw]
      exact (hl3.2.2 hh).symm
    refine ⟨out, _, _, hw, hl, parseOne_ip6 _ _ _ hp, hview false, ?_⟩
    unfold StepInnerA
    rw [hnx, hcut]
    simp only [List.replicate_zero, List.append_nil]
    refine ⟨hview _, ?_⟩
    rw [lastNext_raw]
    unfold Ipv6.innerFor
    by_cases he : (io ++ List.replicate k (0 : UInt8)).isEmpty = true
    · left
      rw [if_pos he]
      refine ⟨rfl, ?_⟩
      have : io ++ List.replicate k (0 : UInt8) = [] := List.isEmpty_iff.mp he
      exact (List.append_eq_nil_iff.mp this).1
    · right
      rw [if_neg he]
      rcases hl3.2.1 with hf | hc
      · simp only [hf, if_true]
      · cases hasFragment p.headers
        · simp only [Bool.false_eq_true, if_false, hc]
        · simp only [if_true]
  | obj y r =>
    have hos := (nextA_obj hnx).1; subst hos
    have hl2 : hasFragment p.headers = false ∧ ProtoTier y := by simpa only [LinkAll, hnx] using hlink
    have ht := protoTier_roundtrip y hl2.2
    rcases ipv6_reparse_parsed (cxOf ps (y :: r)) p hi hhp (by rw [lastNext_obj ps y r p hl2.2]; exact ht.2.2.2) region
      (by rw [cxOf_innerSizeA]; exact hlen) (by omega) (List.replicate k 0) with ⟨out, hw, hl, hp⟩
    rw [hio] at hp
    refine ⟨out, _, _, hw, hl, parseOne_ip6 _ _ _ hp, ip6_view_of false p _ _ _ (fun h => by cases h), ?_⟩
    have := hpos y r hnx
    have hne : (io ++ List.replicate k (0 : UInt8)).isEmpty = false := by
      cases io with
      | nil => simp at this
      | cons a t => rfl
    apply stepInnerA_obj _ _ y r io k 0 _ false (nextA_obj hnx).2 hcut _ (.inl rfl)
    rw [lastNext_obj ps y r p hl2.2]
    simp only [Ipv6.innerFor, hne, Bool.false_eq_true, if_false, hl2.1, ht.2.2.1, List.replicate_zero, List.append_nil]
  | bad => simp only [LinkAll, hnx] at hlink

/-! ### the version nibble -/

/-- the first nibble of what `IPv6::write_serialization` leaves in its region is the version field -/
theorem ip6_write_firstNib (cx : Ctx) (p : Ipv6) (hi : p.Inv) (region out : Bytes) (hr : p.hdr ≤ region.length)
    (hw : p.write cx region = .ok out) : L2.byteAt out 0 / 16 = p.version := by
  rw [ipv6_write_eq cx p hi region hr] at hw
  injection hw with hw
  rw [← hw]
  have hv := hi.version
  have ht := hi.trafficClass
  simp only [Ipv6.headerBytes, Ipv6.written, List.cons_append, L2.byteAt, List.getD_cons_zero]
  have : (UInt8.ofNat (p.version * 16 + p.trafficClass / 16)).toNat = p.version * 16 + p.trafficClass / 16 :=
    Ip6.ofNat_toNat_lt _ (by omega)
  rw [this]
  omega

/-- the first nibble of what `IP::write_serialization` leaves in its region is the version field -/
theorem ip4_write_firstNib (cx : Ctx) (o : Ip.Ip4) (hi : o.Inv) (hf : o.Fits) (region out : Bytes) (hr : o.hdr ≤ region.length)
    (hw : o.write cx region = .ok out) : L2.byteAt out 0 / 16 = o.version := by
  rw [Ip.ip4_write_final cx o hi hf region hr] at hw
  injection hw with hw
  rw [← hw]
  have hv := hi.version
  have hh : o.hdr / 4 ≤ 15 := by simp only [Ip.Ip4.Fits] at hf; omega
  simp only [Ip.Ip4.headerBytes, List.cons_append, L2.byteAt, List.getD_cons_zero, Ip.final_ihl]
  have hver : (Ip.Ip4.final cx o region).version = o.version := rfl
  rw [hver]
  have : (UInt8.ofNat (o.hdr / 4 + o.version * 16)).toNat = o.hdr / 4 + o.version * 16 :=
    Ip.ofNat_toNat_lt _ (by omega)
  rw [this]
  omega

end Tins.Wire.ChainAll
