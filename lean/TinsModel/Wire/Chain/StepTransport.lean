import TinsModel.Wire.Chain.StepIp
/-
  Whole-packet C03 over all covered families, part 3b: the one-layer steps of the Transport family (UDP, TCP with options).
  Both classes hand whatever follows their header to RawPDU and always sit below IP / IPv6 / IPSecAH (or are the entry point),
  so no padding follows their region.  The checksums and the UDP length / TCP data offset are `~` fields.
-/
namespace Tins.Wire.ChainAll
open Tins Tins.Wire Tins.Wire.Transport
open Tins.Wire.L2 (layerView splitRaw stripView padOf ViewEq IsTail TailInner cxOf)

theorem parseOne_udp (b : Bytes) (o : Udp) (i : Inner) (h : Udp.parse b = .ok (o, i)) :
    parseOne "UDP" b = .ok (.tr (.udp o), i) := by
  have h1 : ("UDP" == "RawPDU") = false := by decide
  have h2 : L2.classes.contains "UDP" = false := by decide
  have h3 : Ip.classes.contains "UDP" = false := by decide
  have h4 : Ip6.classes.contains "UDP" = false := by decide
  have h5 : Icmp.classes.contains "UDP" = false := by decide
  have h6 : Transport.classes.contains "UDP" = true := by decide
  simp only [parseOne, h1, h2, h3, h4, h5, h6, Bool.false_eq_true, if_false, if_true, Transport.parse, beq_self_eq_true, h,
    bind, Out.bind, pure]

theorem parseOne_tcp (b : Bytes) (o : Tcp) (i : Inner) (h : Tcp.parse b = .ok (o, i)) :
    parseOne "TCP" b = .ok (.tr (.tcp o), i) := by
  have h1 : ("TCP" == "RawPDU") = false := by decide
  have h2 : L2.classes.contains "TCP" = false := by decide
  have h3 : Ip.classes.contains "TCP" = false := by decide
  have h4 : Ip6.classes.contains "TCP" = false := by decide
  have h5 : Icmp.classes.contains "TCP" = false := by decide
  have h6 : Transport.classes.contains "TCP" = true := by decide
  have h7 : ("TCP" == "UDP") = false := by decide
  simp only [parseOne, h1, h2, h3, h4, h5, h6, h7, Bool.false_eq_true, if_false, if_true, Transport.parse, beq_self_eq_true, h,
    bind, Out.bind, pure]

theorem udp_view_of (b : Bool) (u u' : Udp) (h : u'.view = u.view) :
    layerView b (.tr (.udp u')) = layerView b (.tr (.udp u)) := by
  simp only [Udp.view, Prod.mk.injEq] at h
  simp [layerView, AnyObj.info, Transport.info, Udp.fields, Fields.view, h.1, h.2]

/-- **UDP step** -/
theorem udp_step (ps : List LayerInfo) (u : Udp) (os : List AnyObj) (hi : u.WF)
    (hlink : LinkAll (.tr (.udp u)) os) (region io : Bytes)
    (hlen : region.length = 8 + sizeOfStack os) (hio : region.drop 8 = io)
    (hnil : os = [] → io = []) (hraw : ∀ p, os = [.raw p] → io = p) :
    ∃ out x' inner, u.write (cxOf ps os) region = .ok out ∧ out.length = region.length ∧
      parseOne "UDP" out = .ok (x', inner) ∧
      layerView false x' = layerView false (.tr (.udp u)) ∧
      StepInnerA (.tr (.udp u)) os io 0 x' inner := by
  rcases udp_reparse (cxOf ps os) u hi region (by omega) with ⟨out, u', hw, hol, hp, hv, _⟩
  rw [hio] at hp
  have hiol : io.length = region.length - 8 := by rw [← hio]; simp
  refine ⟨out, _, _, hw, hol, parseOne_udp _ _ _ hp, udp_view_of false _ _ hv, ?_⟩
  apply leaf_stepInner _ _ os io _ rfl (leaf_link hlink) _ (fun b => udp_view_of b _ _ hv) hnil hraw
  rw [hiol]
  congr 1
  apply propext
  constructor <;> intro <;> omega

theorem tcp_view_of (b : Bool) (t : Tcp) (d c : Nat) :
    layerView b (.tr (.tcp { t with doff := d, check := c })) = layerView b (.tr (.tcp t)) := by
  simp [layerView, AnyObj.info, Transport.info, Tcp.fields, Fields.view, Tcp.flags, Tcp.flagBits, Tcp.typedGet,
    Tcp.searchOption]

/-- **TCP step** (canonical options that fit the option area) -/
theorem tcp_step (ps : List LayerInfo) (t : Tcp) (os : List AnyObj) (hi : t.Inv) (hs : Tcp.optsSum t.opts ≤ 40)
    (hside : Side (.tr (.tcp t)) os) (hlink : LinkAll (.tr (.tcp t)) os) (region io : Bytes)
    (hlen : region.length = t.hdr + sizeOfStack os) (hio : region.drop t.hdr = io)
    (hnil : os = [] → io = []) (hraw : ∀ p, os = [.raw p] → io = p) :
    ∃ out x' inner, t.write (cxOf ps os) region = .ok out ∧ out.length = region.length ∧
      parseOne "TCP" out = .ok (x', inner) ∧
      layerView false x' = layerView false (.tr (.tcp t)) ∧
      StepInnerA (.tr (.tcp t)) os io 0 x' inner := by
  have hc : ∀ o ∈ t.opts, Tcp.Canon o := hside
  rcases tcp_reparse (cxOf ps os) t hi hc hs region (by omega) with ⟨out, c, hw, hol, hp⟩
  rw [hio] at hp
  have hiol : io.length = region.length - t.hdr := by rw [← hio]; simp
  refine ⟨out, _, _, hw, hol, parseOne_tcp _ _ _ hp, tcp_view_of false t _ _, ?_⟩
  apply leaf_stepInner _ _ os io _ rfl (leaf_link hlink) _ (fun b => tcp_view_of b t _ _) hnil hraw
  rw [hiol]
  congr 1
  apply propext
  constructor <;> intro <;> omega

end Tins.Wire.ChainAll
