import TinsModel.Wire.Chain.FixChain
import TinsModel.Wire.Chain.Examples
/-
  Second-serialization fixed point over all seven families: **non-vacuity**.  For accepted byte strings `b` (the parsed stacks
  are what `parseChain` returns: `rfl`) the theorem `c03_fixpoint_all` is applied — its hypotheses are met —, and the two
  serializations and the two parses are also evaluated by the kernel (`rfl`): `y = serialize(parse b)`,
  `serialize(parse y) = y`.
-/
namespace Tins.Wire.ChainAll
open Tins Tins.Wire
open Tins.Wire.L2 (layerView splitRaw stripView padOf ViewEq IsTail TailInner cxOf)

section FixExamples

/-- the statement of the second clause of C03 on one accepted byte string -/
def FixOn (cls : String) (b : Bytes) : Prop :=
  ∃ os, parseChain (b.length + 2) cls b = .ok os ∧ (splitRaw os).2 ≠ [] ∧
    ∃ y, serializeObjs os = .ok y ∧ ∃ q, parseChain (y.length + 2) cls y = .ok q ∧ serializeObjs q = .ok y

/-! #### 1. EthernetII / IP / UDP / RawPDU: the 60-byte frame (15 bytes of Ethernet padding, cut off by the IP total length and
    re-created by the second serialization) -/
example : FixOn "EthernetII" ex1_bytes := by
  refine ⟨ex1_re, rfl, by decide, ?_⟩
  exact c03_fixpoint_all "EthernetII" ex1_bytes ex1_re (by decide) rfl
    ⟨trivial, (by show (_ : Nat) < 65536; decide), trivial, trivial, trivial⟩ (fun o t h => by cases h) (by decide)
/-- … evaluated: `ex1_bytes` is its own second serialization -/
example : serializeObjs ex1_re = .ok ex1_bytes ∧ parseChain (ex1_bytes.length + 2) "EthernetII" ex1_bytes = .ok ex1_re := ⟨rfl, rfl⟩

/-! #### 2. EthernetII / IP (NOOP + stream identifier: one byte of option padding) / TCP (MSS, NOP, window scale) / RawPDU -/
def ex2_re : List AnyObj :=
  [.l2 (.eth ⟨[1,2,3,4,5,6], [7,8,9,10,11,12], 2048⟩),
   .ip (.ip { exIp2 with ihl := 7, totLen := 59, protocol := 6, check := 32184 }),
   .tr (.tcp { exTcp with doff := 7, check := 19271 }), .raw [0x47, 0x45, 0x54]]
example : parseChain (ex2_bytes.length + 2) "EthernetII" ex2_bytes = .ok ex2_re := rfl
example : FixOn "EthernetII" ex2_bytes := by
  refine ⟨ex2_re, rfl, by decide, ?_⟩
  exact c03_fixpoint_all "EthernetII" ex2_bytes ex2_re (by decide) rfl
    ⟨trivial, (by show (_ : Nat) < 65536; decide), trivial, trivial, trivial⟩ (fun o t h => by cases h) (by decide)
example : serializeObjs ex2_re = .ok ex2_bytes := rfl

/-! #### 3. EthernetII / Dot1Q / IPv6 / hop-by-hop header / ICMPv6 echo request / RawPDU (66 bytes: no padding) -/
def ex3_re : List AnyObj :=
  [.l2 (.eth ⟨[1,2,3,4,5,6], [7,8,9,10,11,12], 33024⟩), .l2 (.dot1q ⟨3, 0, 100, 34525, false⟩),
   .ip6 (.ip6 { exIp6 with payloadLength := 20, nextHeader := 0, finalNext := 58 }),
   .icmp (.icmp6 { exIcmp6 with cksum := 27003 }), .raw [1, 2, 3, 4]]
set_option maxRecDepth 8192 in
example : parseChain (ex3_bytes.length + 2) "EthernetII" ex3_bytes = .ok ex3_re := rfl
set_option maxRecDepth 8192 in
example : FixOn "EthernetII" ex3_bytes := by
  refine ⟨ex3_re, rfl, by decide, ?_⟩
  exact c03_fixpoint_all "EthernetII" ex3_bytes ex3_re (by decide) rfl
    ⟨trivial, trivial, (by show (_ : Nat) < 65536; decide),
     ⟨rfl, fun h => absurd h (by decide), ⟨fun h => absurd h (by decide), fun h => absurd h (by decide)⟩,
      ⟨fun h => absurd h (by decide), fun _ => rfl⟩, fun h => absurd h (by decide)⟩, trivial, trivial⟩
    (fun o t h => by cases h) (by decide)
set_option maxRecDepth 8192 in
example : serializeObjs ex3_re = .ok ex3_bytes := rfl

/-! #### 4. RadioTap (FCS at end) / Dot11QoSData / SNAP / IP / UDP / RawPDU: the capture carries a wrong FCS (`aa bb cc dd`), the
    first serialization computes the CRC-32 of the Dot11 frame, the second one computes the same -/
set_option maxRecDepth 16384 in
example : FixOn "RadioTap" exQos_bytes := by
  refine ⟨exQos_os, rfl, by decide, ?_⟩
  exact c03_fixpoint_all "RadioTap" exQos_bytes exQos_os (by decide) rfl
    ⟨trivial, trivial, trivial, (by show (_ : Nat) < 65536; decide), trivial, trivial, trivial⟩
    (fun o t h => by cases h) (by decide)
set_option maxRecDepth 16384 in
example : ∃ q, parseChain (exQos_ser.length + 2) "RadioTap" exQos_ser = .ok q ∧ serializeObjs q = .ok exQos_ser := ⟨_, rfl, rfl⟩

/-! #### 5. EthernetII / Dot1Q / PPPoE session / RawPDU: 27 bytes accepted; serialized with 33 bytes of padding, which the PPPoE
    payload length cuts off again and the second serialization re-creates -/
def exP_bytes : Bytes := [1,2,3,4,5,6, 7,8,9,10,11,12, 0x81,0, 0x20,5, 0x88,0x64, 0x11,0,0x12,0x34,0,3, 1,2,3]
def exP_os : List AnyObj :=
  [.l2 (.eth ⟨[1,2,3,4,5,6], [7,8,9,10,11,12], 33024⟩), .l2 (.dot1q ⟨1, 0, 5, 34916, false⟩),
   .l2 (.pppoe ⟨1, 1, 0, 4660, 3, [], 0⟩), .raw [1, 2, 3]]
example : parseChain (exP_bytes.length + 2) "EthernetII" exP_bytes = .ok exP_os := rfl
example : FixOn "EthernetII" exP_bytes := by
  refine ⟨exP_os, rfl, by decide, ?_⟩
  exact c03_fixpoint_all "EthernetII" exP_bytes exP_os (by decide) rfl ⟨trivial, trivial, trivial, trivial, trivial⟩
    (fun o t h => by cases h) (by decide)
example : serializeObjs exP_os = .ok (exP_bytes ++ List.replicate 33 0) ∧
    parseChain 62 "EthernetII" (exP_bytes ++ List.replicate 33 0) = .ok exP_os := ⟨rfl, rfl⟩

/-! #### 6. EthernetII / ARP / RawPDU: a 44-byte frame with a 2-byte payload; the 16 bytes of minimum-frame padding become
    payload of the re-parsed packet — and are written back as payload: the second serialization is the first -/
def exArp2_bytes : Bytes :=
  [1, 2, 3, 4, 5, 6, 7, 8, 9, 10, 11, 12, 8, 6, 0, 1, 8, 0, 6, 4, 0, 1, 7, 8, 9, 10, 11, 12, 10, 0, 0, 1, 0, 0, 0, 0, 0, 0,
   10, 0, 0, 2, 9, 9]
def exArp2_os : List AnyObj :=
  [.l2 (.eth ⟨[1,2,3,4,5,6], [7,8,9,10,11,12], 2054⟩),
   .app (.arp ⟨[0, 1, 8, 0, 6, 4, 0, 1, 7, 8, 9, 10, 11, 12, 10, 0, 0, 1, 0, 0, 0, 0, 0, 0, 10, 0, 0, 2]⟩), .raw [9, 9]]
set_option maxRecDepth 16384 in
example : parseChain (exArp2_bytes.length + 2) "EthernetII" exArp2_bytes = .ok exArp2_os := rfl
set_option maxRecDepth 16384 in
example : FixOn "EthernetII" exArp2_bytes := by
  refine ⟨exArp2_os, rfl, by decide, ?_⟩
  exact c03_fixpoint_all "EthernetII" exArp2_bytes exArp2_os (by decide) rfl ⟨trivial, trivial, trivial, trivial⟩
    (fun o t h => by cases h) (by decide)
set_option maxRecDepth 16384 in
example : serializeObjs exArp2_os = .ok (exArp2_bytes ++ List.replicate 16 0) ∧
    ∃ q, parseChain 62 "EthernetII" (exArp2_bytes ++ List.replicate 16 0) = .ok q ∧
      (splitRaw q).2 = [9, 9] ++ List.replicate 16 0 ∧ serializeObjs q = .ok (exArp2_bytes ++ List.replicate 16 0) :=
  ⟨rfl, _, rfl, rfl, rfl⟩

/-! #### 7. more families on accepted byte strings -/

/-- EthernetII / MPLS / IP / UDP / RawPDU -/
example : FixOn "EthernetII" exA_bytes := by
  refine ⟨exA_os, rfl, by decide, ?_⟩
  exact c03_fixpoint_all "EthernetII" exA_bytes exA_os (by decide) rfl
    ⟨trivial, trivial, (by show (_ : Nat) < 65536; decide), trivial, trivial, trivial⟩ (fun o t h => by cases h) (by decide)

/-- IP / IPSecAH / UDP / RawPDU -/
example : FixOn "IP" exB_bytes := by
  refine ⟨exB_os, rfl, by decide, ?_⟩
  exact c03_fixpoint_all "IP" exB_bytes exB_os (by decide) rfl
    ⟨(by show (_ : Nat) < 65536; decide), trivial, trivial, trivial, trivial⟩
    (fun o t h => by injection h with h1 _; injection h1 with h1; subst h1; rfl) (by decide)

/-- IP / IPSecESP / RawPDU -/
example : FixOn "IP" exC_bytes := by
  refine ⟨exC_os, rfl, by decide, ?_⟩
  exact c03_fixpoint_all "IP" exC_bytes exC_os (by decide) rfl
    ⟨(by show (_ : Nat) < 65536; decide), trivial, trivial, trivial⟩
    (fun o t h => by injection h with h1 _; injection h1 with h1; subst h1; rfl) (by decide)

/-- SLL / Dot1Q / IP / IP / ICMP echo request / RawPDU -/
example : FixOn "SLL" exE_bytes := by
  refine ⟨exE_os, rfl, by decide, ?_⟩
  exact c03_fixpoint_all "SLL" exE_bytes exE_os (by decide) rfl
    ⟨trivial, trivial, (by show (_ : Nat) < 65536; decide), (by show (_ : Nat) < 65536; decide),
     ⟨rfl, fun h => absurd h (by decide)⟩, trivial, trivial⟩ (fun o t h => by cases h) (by decide)

/-- an IP fragment carrying a RawPDU -/
example : FixOn "IP" exFrag := by
  refine ⟨exFrag_os, rfl, by decide, ?_⟩
  exact c03_fixpoint_all "IP" exFrag exFrag_os (by decide) rfl ⟨(by show (_ : Nat) < 65536; decide), trivial, trivial⟩
    (fun o t h => by injection h with h1 _; injection h1 with h1; subst h1; rfl) (by decide)

/-- EthernetII / ARP / RawPDU (18 zero bytes: the padding of the capture is the payload) -/
example : FixOn "EthernetII" exArp_bytes := by
  refine ⟨exArp_os, by (set_option maxRecDepth 16384 in exact rfl), by decide, ?_⟩
  exact c03_fixpoint_all "EthernetII" exArp_bytes exArp_os (by decide) (by (set_option maxRecDepth 16384 in exact rfl))
    ⟨trivial, trivial, trivial, trivial⟩ (fun o t h => by cases h) (by decide)

/-! #### 8. stacks that end without a payload: the clause asks nothing, the bytes agree nonetheless -/

/-- Dot3 / LLC / STP: no RawPDU -/
example : (splitRaw exStp_os).2 = [] := rfl
set_option maxRecDepth 16384 in
example : ∃ q, parseChain (exStp_bytes.length + 2) "Dot3" exStp_bytes = .ok q ∧ serializeObjs q = .ok exStp_bytes := ⟨_, rfl, rfl⟩

/-! #### 9. the combined statement -/

example : ∃ out, serializeObjs ex1_re = .ok out ∧
    ∃ os', parseChain (out.length + 2) "EthernetII" out = .ok os' ∧ ViewEqAll (padAll ex1_re) ex1_re os' ∧
      ((splitRaw ex1_re).2 ≠ [] → serializeObjs os' = .ok out) :=
  c03_all_with_fixpoint "EthernetII" ex1_bytes ex1_re (by decide) rfl
    ⟨trivial, (by show (_ : Nat) < 65536; decide), trivial, trivial, trivial⟩ (fun o t h => by cases h)

/-! #### 10. API-built stacks: `built`-side theorem (`chain_fixpoint_named`) and its exclusion -/

/-- `Dot1Q(5, append_pad = true) / RawPDU(01 02 03)` entered as Dot1Q: the Dot1Q pads to 50 bytes; nothing cuts the padding
    off, so it becomes payload of the re-parsed packet, whose Dot1Q (which no longer pads) writes the same 50 bytes:
    `PadKeptAll` holds although `append_padding_` is set -/
def exQpad : List AnyObj := [.l2 (.dot1q (L2.Dot1Q.create 5 true)), .raw [1, 2, 3]]
theorem exQpad_stackable : StackableAll exQpad :=
  ⟨⟨L2.dot1q_create_wf 5 true, trivial, trivial, (by decide : Tags.classOfEther 0 = none)⟩, rfl⟩
example : PadKeptAll exQpad := ⟨fun _ => rfl, trivial⟩
example : ∃ y, serializeObjs exQpad = .ok y ∧ y.length = 50 ∧
    ∃ q, parseChain (y.length + 2) "Dot1Q" y = .ok q ∧ serializeObjs q = .ok y := by
  refine ⟨_, rfl, rfl, ?_⟩
  exact chain_fixpoint_named "Dot1Q" _ _ (.inl rfl) exQpad_stackable ⟨fun _ => rfl, trivial⟩ (by decide) _ rfl
/-- the same Dot1Q above an IP datagram is in the excluded region: the IP total length cuts the padding off -/
example : ¬ PadKeptAll [.l2 (.dot1q (L2.Dot1Q.create 5 true)), .ip (.ip exIp), .tr (.udp exUdp), .raw [1, 2, 3]] :=
  fun h => absurd (h.1 rfl) (by decide)

end FixExamples

end Tins.Wire.ChainAll
