import TinsModel.Wire.Iface
import TinsModel.Wire.Checksum
import TinsModel.Wire.ChainLemmas
/- small facts about the writing primitives, shared by the per-layer `WritesOnly` proofs -/
namespace Tins.Wire

theorem writeAtStart_eq (region bs : Bytes) (h : bs.length ≤ region.length) :
    writeAtStart region bs = .ok (bs ++ region.drop bs.length) := by
  unfold writeAtStart OutCursor.ofRegion OutCursor.write
  have h1 : ¬ region.length < bs.length := by omega
  simp [h1, bind, Out.bind, OutCursor.buffer]

theorem writeAtStart_throws (region bs : Bytes) (h : region.length < bs.length) :
    writeAtStart region bs = .throw .serializationError := by
  unfold writeAtStart OutCursor.ofRegion OutCursor.write
  simp [h, bind, Out.bind]

theorem poke_eq (site : String) (region bs : Bytes) (off : Nat) (h : off + bs.length ≤ region.length) :
    poke site region off bs = .ok (region.take off ++ bs ++ region.drop (off + bs.length)) := by
  unfold poke; simp [h]

/-- replacing a prefix of `n` bytes does not change what lies at or after `n` -/
theorem drop_prefix_replaced (bs region : Bytes) (n : Nat) (hb : bs.length ≤ n) :
    (bs ++ region.drop bs.length).drop n = region.drop n := by
  rw [List.drop_append]
  have : List.drop n bs = [] := List.drop_eq_nil_of_le hb
  rw [this, List.nil_append, List.drop_drop]
  congr 1; omega

/-- patching `bs` at `off` with `off + bs.length ≤ n` does not change what lies at or after `n` -/
theorem drop_patched (region bs : Bytes) (off n : Nat) (h : off + bs.length ≤ n) (hr : off + bs.length ≤ region.length) :
    (region.take off ++ bs ++ region.drop (off + bs.length)).drop n = region.drop n := by
  have hto : (region.take off).length = off := by simp only [List.length_take]; omega
  rw [List.append_assoc, List.drop_append, List.drop_append]
  have h1 : List.drop n (region.take off) = [] := List.drop_eq_nil_of_le (by omega)
  have h2 : List.drop (n - (region.take off).length) bs = [] := List.drop_eq_nil_of_le (by omega)
  rw [h1, h2, List.nil_append, List.nil_append, List.drop_drop]
  congr 1; simp only [hto]; omega

theorem length_prefix_replaced (bs region : Bytes) (h : bs.length ≤ region.length) :
    (bs ++ region.drop bs.length).length = region.length := by
  simp only [List.length_append, List.length_drop]; omega

theorem length_patched (region bs : Bytes) (off : Nat) (hr : off + bs.length ≤ region.length) :
    (region.take off ++ bs ++ region.drop (off + bs.length)).length = region.length := by
  simp only [List.length_append, List.length_take, List.length_drop]; omega

/-- a layer whose `write` only rewrites bytes inside `[0, hdr)` and keeps the length meets `WritesOnly`
    (trailer-less layers) -/
theorem writesOnly_of_header_only (l : LayerSem) (ht : l.trl = 0)
    (h : ∀ region : Bytes, l.hdr ≤ region.length →
      ∃ out, l.write region = .ok out ∧ out.length = region.length ∧ out.drop l.hdr = region.drop l.hdr) :
    WritesOnly l := by
  intro region hr
  rcases h region (by omega) with ⟨out, ho, hl, hd⟩
  refine ⟨out, ho, hl, ?_⟩
  simp only [innerOf, hd, hl]

end Tins.Wire
