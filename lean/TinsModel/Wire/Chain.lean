import TinsModel.Basic.Out
/-
  `PDU::size()`, `PDU::serialize()` and `PDU::serialize(buffer, total_sz)` (src/pdu.cpp) over an abstract
  chain of layers.  A layer is what `PDU` sees of it: `header_size()`, `trailer_size()` and
  `write_serialization(buffer, total_sz)`, the latter as a function on the layer's *region*
  (`total_sz` bytes: own header, everything the inner layers produced, own trailer).
-/
namespace Tins.Wire

structure LayerSem where
  name : String
  hdr : Nat
  trl : Nat
  write : Bytes → Out Bytes

/-- `PDU::size()` -/
def sizeOf : List LayerSem → Nat
  | [] => 0
  | l :: ls => l.hdr + l.trl + sizeOf ls

/-- splice `mid` into `region` at offset `off` (what writing through `buffer + off` does) -/
def splice (region : Bytes) (off : Nat) (mid : Bytes) : Bytes :=
  region.take off ++ mid ++ region.drop (off + mid.length)

/-- `PDU::serialize(buffer, total_sz)`: inner layers first into `buffer + header_size()` with
    `total_sz - (header_size() + trailer_size())`, then this layer's `write_serialization`. -/
def serializeInto : List LayerSem → Bytes → Out Bytes
  | [], region => .ok region
  | l :: ls, region => do
    let innerTotal := region.length - (l.hdr + l.trl)
    let innerOut ← serializeInto ls ((region.drop l.hdr).take innerTotal)
    l.write (splice region l.hdr innerOut)

/-- `PDU::serialize()`: a zero-initialised vector of `size()` bytes -/
def serialize (ls : List LayerSem) : Out Bytes := serializeInto ls (List.replicate (sizeOf ls) 0)

/-- the inner part of a layer's region -/
def innerOf (l : LayerSem) (region : Bytes) : Bytes :=
  (region.drop l.hdr).take (region.length - (l.hdr + l.trl))

/-- The per-layer obligation of property C02: on a region large enough for its header and trailer the
    layer's `write_serialization` succeeds, keeps the region's length, and leaves the bytes that belong
    to the inner layers exactly as it found them. -/
def WritesOnly (l : LayerSem) : Prop :=
  ∀ region : Bytes, l.hdr + l.trl ≤ region.length →
    ∃ out, l.write region = .ok out ∧ out.length = region.length ∧ innerOf l out = innerOf l region

end Tins.Wire
