import TinsModel.Basic.Cursor
import TinsModel.Basic.OutCursor
import TinsModel.Wire.Chain
/-
  The interface every protocol family implements (see TinsModel/Wire/Registry.lean for the dispatch and
  CONVENTIONS-WIRE.md for the line protocol).  Class names are the C++ class names.
-/
namespace Tins.Wire

/-- canonical dump of an object's getters: `name=value` pairs in a fixed order.
    Names starting with `~` are fields libtins derives itself on serialization (lengths, checksums,
    padding, next-protocol tags): they are printed but excluded from the C03/C04 `view`. -/
abbrev Fields := List (String × String)

/-- what a parsing constructor does with the bytes after its own header -/
inductive Inner
  | none                                                   -- no inner PDU is created
  | raw (b : Bytes)                                        -- `new RawPDU(ptr, size)`
  | cls (name : String) (b : Bytes) (fallbackRaw : Bool)   -- construct `name` on `b`; on `malformed_packet`:
                                                           -- propagate (`false`) or fall back to RawPDU (`true`)
deriving Repr

structure LayerInfo where
  cls : String
  fields : Fields
  hdr : Nat
  trl : Nat
deriving Repr

/-- what `write_serialization` can see besides its own object: its ancestors (nearest first) and its
    descendants (nearest first), as dumps -/
structure Ctx where
  parents : List LayerInfo
  inners : List LayerInfo
deriving Repr

def Ctx.innerSize (c : Ctx) : Nat := (c.inners.map (fun l => l.hdr + l.trl)).sum
def Ctx.innerCls (c : Ctx) : Option String := c.inners.head?.map (·.cls)
def Ctx.parentCls (c : Ctx) : Option String := c.parents.head?.map (·.cls)

def Fields.get (f : Fields) (k : String) : Option String := (f.find? (·.1 == k)).map (·.2)

/-- the part of a dump that must survive a parse → serialize → parse round trip -/
def Fields.view (f : Fields) : Fields := f.filter (fun p => !p.1.startsWith "~")

def hexDigitVal (c : Char) : Option Nat :=
  if '0' ≤ c ∧ c ≤ '9' then some (c.toNat - 48)
  else if 'a' ≤ c ∧ c ≤ 'f' then some (c.toNat - 87)
  else if 'A' ≤ c ∧ c ≤ 'F' then some (c.toNat - 55)
  else none

def parseHexChars : List Char → Option Bytes
  | [] => some []
  | [_] => none
  | a :: b :: r => do
    let x ← hexDigitVal a
    let y ← hexDigitVal b
    let rest ← parseHexChars r
    pure (UInt8.ofNat (x * 16 + y) :: rest)

/-- hex string → bytes; "-" is the empty string -/
def parseHexStr (s : String) : Option Bytes := if s == "-" then some [] else parseHexChars s.toList

def hexStr (bs : Bytes) : String :=
  if bs.isEmpty then "-" else
  let hexChar (n : Nat) : Char := if n < 10 then Char.ofNat (48 + n) else Char.ofNat (87 + n)
  String.ofList (bs.foldr (fun b acc => hexChar (b.toNat / 16) :: hexChar (b.toNat % 16) :: acc) [])

/-- `new RawPDU(stream.pointer(), stream.size())` / any copy of the rest of the stream -/
def Cursor.rest (site : String) (c : Cursor) : Out Bytes := rdN site c.mem 0 c.size

/-- overwrite `region[0 .. hdrBytes.length)` — the common shape of `stream.write(header_)` at the start of
    `write_serialization` — through an `OutputMemoryStream` over the whole region -/
def writeAtStart (region : Bytes) (bs : Bytes) : Out Bytes := do
  let o ← (OutCursor.ofRegion region).write bs
  pure o.buffer

end Tins.Wire
