import TinsModel.Wire.Chain
/- Generic theorems of property C02 over arbitrary chains (any depth). -/
namespace Tins.Wire

theorem splice_length (region mid : Bytes) (off : Nat) (h : off + mid.length ≤ region.length) :
    (splice region off mid).length = region.length := by
  simp only [splice, List.length_append, List.length_take, List.length_drop]; omega

theorem innerOf_splice (l : LayerSem) (region mid : Bytes)
    (hm : mid.length = region.length - (l.hdr + l.trl)) (hr : l.hdr + l.trl ≤ region.length) :
    innerOf l (splice region l.hdr mid) = mid := by
  have hl := splice_length region mid l.hdr (by omega)
  unfold innerOf
  rw [hl]
  unfold splice
  have h1 : (region.take l.hdr).length = l.hdr := by simp only [List.length_take]; omega
  rw [List.append_assoc, List.drop_append_of_le_length (by omega)]
  have : l.hdr - (region.take l.hdr).length = 0 := by omega
  simp only [List.drop_eq_nil_of_le (Nat.le_of_eq h1), List.nil_append]
  rw [← hm, List.take_left']
  rfl

/-- **serialize is total and size-exact** on any region of exactly `size()` bytes, for chains of any depth,
    provided every layer meets `WritesOnly`. -/
theorem serializeInto_ok (ls : List LayerSem) (hall : ∀ l ∈ ls, WritesOnly l) (region : Bytes)
    (hlen : region.length = sizeOf ls) :
    ∃ out, serializeInto ls region = .ok out ∧ out.length = region.length := by
  induction ls generalizing region with
  | nil => exact ⟨region, rfl, rfl⟩
  | cons l ls ih =>
    simp only [sizeOf] at hlen
    have hin : ((region.drop l.hdr).take (region.length - (l.hdr + l.trl))).length = sizeOf ls := by
      simp only [List.length_take, List.length_drop]; omega
    rcases ih (fun x hx => hall x (List.mem_cons_of_mem _ hx)) _ hin with ⟨io, hio, hiol⟩
    have hsl : (splice region l.hdr io).length = region.length := splice_length _ _ _ (by omega)
    rcases hall l (List.mem_cons_self) (splice region l.hdr io) (by omega) with ⟨out, ho, hol, _⟩
    refine ⟨out, ?_, by omega⟩
    simp only [serializeInto, hio, bind, Out.bind] at *
    exact ho

theorem serialize_ok (ls : List LayerSem) (hall : ∀ l ∈ ls, WritesOnly l) :
    ∃ out, serialize ls = .ok out ∧ out.length = sizeOf ls := by
  rcases serializeInto_ok ls hall (List.replicate (sizeOf ls) 0) (by simp) with ⟨out, h, hl⟩
  exact ⟨out, h, by simpa using hl⟩

/-- **frame**: what the inner layers produced reaches the output of the outer layer unmodified, at offset
    `header_size()`. -/
theorem serializeInto_frame (l : LayerSem) (ls : List LayerSem) (hall : ∀ x ∈ l :: ls, WritesOnly x)
    (region : Bytes) (hlen : region.length = sizeOf (l :: ls)) :
    ∃ out io, serializeInto (l :: ls) region = .ok out ∧
      serializeInto ls (innerOf l region) = .ok io ∧ innerOf l out = io ∧ out.length = region.length := by
  simp only [sizeOf] at hlen
  have hin : (innerOf l region).length = sizeOf ls := by
    simp only [innerOf, List.length_take, List.length_drop]; omega
  rcases serializeInto_ok ls (fun x hx => hall x (List.mem_cons_of_mem _ hx)) _ hin with ⟨io, hio, hiol⟩
  have hsl : (splice region l.hdr io).length = region.length := splice_length _ _ _ (by omega)
  rcases hall l (List.mem_cons_self) (splice region l.hdr io) (by omega) with ⟨out, ho, hol, hfr⟩
  refine ⟨out, io, ?_, hio, ?_, by omega⟩
  · have hio' : serializeInto ls ((region.drop l.hdr).take (region.length - (l.hdr + l.trl))) = .ok io := hio
    simp only [serializeInto, hio', bind, Out.bind]
    exact ho
  · rw [hfr]
    exact innerOf_splice l region io (by omega) (by omega)

/-- offset of the `n`-th layer's region inside the packet -/
def offsetOf : List LayerSem → Nat → Nat
  | [], _ => 0
  | _, 0 => 0
  | l :: ls, n + 1 => l.hdr + offsetOf ls n

/-- **layers never overwrite each other** (chains of any depth): the serialization of the sub-chain starting
    at layer `n` appears, byte for byte, inside the serialization of the whole chain at the offset given by
    the header sizes of the layers above it. -/
theorem serialize_subchain (ls : List LayerSem) (hall : ∀ l ∈ ls, WritesOnly l) (n : Nat) (hn : n ≤ ls.length) :
    ∃ out sub, serialize ls = .ok out ∧ serialize (ls.drop n) = .ok sub ∧
      (out.drop (offsetOf ls n)).take (sizeOf (ls.drop n)) = sub := by
  induction n generalizing ls with
  | zero =>
    rcases serialize_ok ls hall with ⟨out, h, hl⟩
    refine ⟨out, out, h, by simpa using h, ?_⟩
    cases ls <;> simp [offsetOf, ← hl]
  | succ n ih =>
    cases ls with
    | nil => simp at hn
    | cons l ls =>
      have hall' : ∀ x ∈ ls, WritesOnly x := fun x hx => hall x (List.mem_cons_of_mem _ hx)
      rcases ih ls hall' (by simpa using hn) with ⟨io, sub, hio, hsub, hrel⟩
      have hz : innerOf l (List.replicate (sizeOf (l :: ls)) 0) = List.replicate (sizeOf ls) 0 := by
        simp only [innerOf, sizeOf, List.length_replicate, List.drop_replicate, List.take_replicate]
        congr 1; omega
      rcases serializeInto_frame l ls hall (List.replicate (sizeOf (l :: ls)) 0) (by simp) with
        ⟨out, io', ho, hio', hfr, hol⟩
      rw [hz] at hio'
      have : io' = io := by
        have := hio'.symm.trans hio
        injection this
      subst this
      refine ⟨out, sub, ho, by simpa using hsub, ?_⟩
      simp only [offsetOf, List.drop_succ_cons]
      rw [← hrel, ← hfr]
      simp only [innerOf]
      rw [← List.drop_drop]
      have hiolen : io'.length = sizeOf ls := by
        rcases serialize_ok ls hall' with ⟨o2, h2, hl2⟩
        have := h2.symm.trans hio
        injection this with e; rw [← e]; exact hl2
      -- the sub-chain lies inside the inner region
      have hle : offsetOf ls n + sizeOf (ls.drop n) ≤ sizeOf ls := by
        clear hrel hsub ih hio hio' hfr hiolen hz ho hol hall hall'
        induction ls generalizing n with
        | nil => simp [offsetOf, sizeOf]
        | cons a as iha =>
          cases n with
          | zero => simp [offsetOf]
          | succ m =>
            have := iha m (by simpa using hn)
            simp only [offsetOf, List.drop_succ_cons, sizeOf]; omega
      rw [List.drop_take, List.take_take]
      congr 1
      simp only [sizeOf, List.length_replicate] at hol
      omega


/-! ### The exact-region obligation

`WritesOnly` quantifies over every region that is large enough. A layer with a trailer (EthernetII / Dot1Q padding,
RadioTap FCS, RTP padding) locates its trailer by skipping `inner_pdu()->size()` bytes, so it can only keep the inner
bytes intact on the region `PDU::serialize` really hands it: exactly `header + inner chain + trailer` bytes.  The
theorems below are the same as above under that weaker per-layer obligation (hence they are the stronger theorems). -/

/-- the per-layer obligation of C02 on the exact region of a layer whose inner chain has `inner` bytes -/
def WritesOnlyAt (l : LayerSem) (inner : Nat) : Prop :=
  ∀ region : Bytes, region.length = l.hdr + inner + l.trl →
    ∃ out, l.write region = .ok out ∧ out.length = region.length ∧ innerOf l out = innerOf l region

theorem writesOnlyAt_of_writesOnly {l : LayerSem} (h : WritesOnly l) (n : Nat) : WritesOnlyAt l n :=
  fun region hr => h region (by omega)

/-- every layer meets its obligation for the size of the chain below it -/
def ChainOK : List LayerSem → Prop
  | [] => True
  | l :: ls => WritesOnlyAt l (sizeOf ls) ∧ ChainOK ls

theorem chainOK_of_writesOnly (ls : List LayerSem) (h : ∀ l ∈ ls, WritesOnly l) : ChainOK ls := by
  induction ls with
  | nil => trivial
  | cons l ls ih =>
    exact ⟨writesOnlyAt_of_writesOnly (h l List.mem_cons_self) _, ih (fun x hx => h x (List.mem_cons_of_mem _ hx))⟩

theorem chainOK_drop (ls : List LayerSem) (h : ChainOK ls) (n : Nat) : ChainOK (ls.drop n) := by
  induction n generalizing ls with
  | zero => simpa using h
  | succ n ih =>
    cases ls with
    | nil => simpa using h
    | cons l ls => simpa using ih ls h.2

theorem serializeInto_ok_at (ls : List LayerSem) (hall : ChainOK ls) (region : Bytes)
    (hlen : region.length = sizeOf ls) :
    ∃ out, serializeInto ls region = .ok out ∧ out.length = region.length := by
  induction ls generalizing region with
  | nil => exact ⟨region, rfl, rfl⟩
  | cons l ls ih =>
    simp only [sizeOf] at hlen
    have hin : ((region.drop l.hdr).take (region.length - (l.hdr + l.trl))).length = sizeOf ls := by
      simp only [List.length_take, List.length_drop]; omega
    rcases ih hall.2 _ hin with ⟨io, hio, hiol⟩
    have hsl : (splice region l.hdr io).length = region.length := splice_length _ _ _ (by omega)
    rcases hall.1 (splice region l.hdr io) (by omega) with ⟨out, ho, hol, _⟩
    refine ⟨out, ?_, by omega⟩
    simp only [serializeInto, hio, bind, Out.bind] at *
    exact ho

/-- **serialize is total and size-exact** under the exact-region obligation (chains of any depth) -/
theorem serialize_ok_at (ls : List LayerSem) (hall : ChainOK ls) :
    ∃ out, serialize ls = .ok out ∧ out.length = sizeOf ls := by
  rcases serializeInto_ok_at ls hall (List.replicate (sizeOf ls) 0) (by simp) with ⟨out, h, hl⟩
  exact ⟨out, h, by simpa using hl⟩

theorem serializeInto_frame_at (l : LayerSem) (ls : List LayerSem) (hall : ChainOK (l :: ls))
    (region : Bytes) (hlen : region.length = sizeOf (l :: ls)) :
    ∃ out io, serializeInto (l :: ls) region = .ok out ∧
      serializeInto ls (innerOf l region) = .ok io ∧ innerOf l out = io ∧ out.length = region.length := by
  simp only [sizeOf] at hlen
  have hin : (innerOf l region).length = sizeOf ls := by
    simp only [innerOf, List.length_take, List.length_drop]; omega
  rcases serializeInto_ok_at ls hall.2 _ hin with ⟨io, hio, hiol⟩
  have hsl : (splice region l.hdr io).length = region.length := splice_length _ _ _ (by omega)
  rcases hall.1 (splice region l.hdr io) (by omega) with ⟨out, ho, hol, hfr⟩
  refine ⟨out, io, ?_, hio, ?_, by omega⟩
  · have hio' : serializeInto ls ((region.drop l.hdr).take (region.length - (l.hdr + l.trl))) = .ok io := hio
    simp only [serializeInto, hio', bind, Out.bind]
    exact ho
  · rw [hfr]
    exact innerOf_splice l region io (by omega) (by omega)

/-- **layers never overwrite each other** under the exact-region obligation (chains of any depth) -/
theorem serialize_subchain_at (ls : List LayerSem) (hall : ChainOK ls) (n : Nat) (hn : n ≤ ls.length) :
    ∃ out sub, serialize ls = .ok out ∧ serialize (ls.drop n) = .ok sub ∧
      (out.drop (offsetOf ls n)).take (sizeOf (ls.drop n)) = sub := by
  induction n generalizing ls with
  | zero =>
    rcases serialize_ok_at ls hall with ⟨out, h, hl⟩
    refine ⟨out, out, h, by simpa using h, ?_⟩
    cases ls <;> simp [offsetOf, ← hl]
  | succ n ih =>
    cases ls with
    | nil => simp at hn
    | cons l ls =>
      have hall' : ChainOK ls := hall.2
      rcases ih ls hall' (by simpa using hn) with ⟨io, sub, hio, hsub, hrel⟩
      have hz : innerOf l (List.replicate (sizeOf (l :: ls)) 0) = List.replicate (sizeOf ls) 0 := by
        simp only [innerOf, sizeOf, List.length_replicate, List.drop_replicate, List.take_replicate]
        congr 1; omega
      rcases serializeInto_frame_at l ls hall (List.replicate (sizeOf (l :: ls)) 0) (by simp) with
        ⟨out, io', ho, hio', hfr, hol⟩
      rw [hz] at hio'
      have : io' = io := by
        have := hio'.symm.trans hio
        injection this
      subst this
      refine ⟨out, sub, ho, by simpa using hsub, ?_⟩
      simp only [offsetOf, List.drop_succ_cons]
      rw [← hrel, ← hfr]
      simp only [innerOf]
      rw [← List.drop_drop]
      have hiolen : io'.length = sizeOf ls := by
        rcases serialize_ok_at ls hall' with ⟨o2, h2, hl2⟩
        have := h2.symm.trans hio
        injection this with e; rw [← e]; exact hl2
      have hle : offsetOf ls n + sizeOf (ls.drop n) ≤ sizeOf ls := by
        clear hrel hsub ih hio hio' hfr hiolen hz ho hol hall hall'
        induction ls generalizing n with
        | nil => simp [offsetOf, sizeOf]
        | cons a as iha =>
          cases n with
          | zero => simp [offsetOf]
          | succ m =>
            have := iha m (by simpa using hn)
            simp only [offsetOf, List.drop_succ_cons, sizeOf]; omega
      rw [List.drop_take, List.take_take]
      congr 1
      simp only [sizeOf, List.length_replicate] at hol
      omega

end Tins.Wire
