import TinsModel.Wire.L2.Family
import TinsModel.Wire.Ip.Family
import TinsModel.Wire.Ip6.Family
import TinsModel.Wire.Icmp.Family
import TinsModel.Wire.Transport.Family
import TinsModel.Wire.App.Family
import TinsModel.Wire.Wifi.Family
/-
  Dispatch over all families: parse a whole chain the way the nested constructors do, compute
  `header_size()/trailer_size()` bottom-up, and serialize through `Wire.serialize`.
-/
namespace Tins.Wire

inductive AnyObj
  | raw (payload : Bytes)
  | l2 (o : L2.Obj)
  | ip (o : Ip.Obj)
  | ip6 (o : Ip6.Obj)
  | icmp (o : Icmp.Obj)
  | tr (o : Transport.Obj)
  | app (o : App.Obj)
  | wifi (o : Wifi.Obj)
deriving Repr

def toHexStr (bs : Bytes) : String := hexStr bs

namespace AnyObj

def info : AnyObj → String × Fields
  | raw p => ("RawPDU", [("payload", toHexStr p)])
  | l2 o => L2.info o | ip o => Ip.info o | ip6 o => Ip6.info o | icmp o => Icmp.info o | tr o => Transport.info o | app o => App.info o | wifi o => Wifi.info o

def hdr : AnyObj → Nat
  | raw p => p.length
  | l2 o => L2.hdr o | ip o => Ip.hdr o | ip6 o => Ip6.hdr o | icmp o => Icmp.hdr o | tr o => Transport.hdr o | app o => App.hdr o | wifi o => Wifi.hdr o

def trl : AnyObj → Nat → Nat
  | raw _, _ => 0
  | l2 o, n => L2.trl o n | ip o, n => Ip.trl o n | ip6 o, n => Ip6.trl o n | icmp o, n => Icmp.trl o n | tr o, n => Transport.trl o n | app o, n => App.trl o n
  | wifi o, n => Wifi.trl o n

def write (cx : Ctx) : AnyObj → Bytes → Out Bytes
  | raw p, region => writeAtStart region p          -- RawPDU::write_serialization
  | l2 o, r => L2.write cx o r | ip o, r => Ip.write cx o r | ip6 o, r => Ip6.write cx o r | icmp o, r => Icmp.write cx o r | tr o, r => Transport.write cx o r
  | app o, r => App.write cx o r | wifi o, r => Wifi.write cx o r

def apply : AnyObj → List String → Out AnyObj
  | raw p, ["payload", h] => match parseHexStr h with
    | some b => .ok (raw b)
    | none => .ok (raw p)
  | raw p, _ => .ok (raw p)
  | l2 o, op => (L2.apply o op) >>= fun x => pure (l2 x)
  | ip o, op => (Ip.apply o op) >>= fun x => pure (ip x)
  | ip6 o, op => (Ip6.apply o op) >>= fun x => pure (ip6 x)
  | icmp o, op => (Icmp.apply o op) >>= fun x => pure (icmp x)
  | tr o, op => (Transport.apply o op) >>= fun x => pure (tr x)
  | app o, op => (App.apply o op) >>= fun x => pure (app x)
  | wifi o, op => (Wifi.apply o op) >>= fun x => pure (wifi x)

end AnyObj

/-- is the parsing constructor of `cls` modelled by some family? -/
def modelled (cls : String) : Bool :=
  cls == "RawPDU" || L2.classes.contains cls || Ip.classes.contains cls || Ip6.classes.contains cls || Icmp.classes.contains cls || Transport.classes.contains cls ||
  App.classes.contains cls || Wifi.classes.contains cls

def parseOne (cls : String) (b : Bytes) : Out (AnyObj × Inner) :=
  if cls == "RawPDU" then .ok (.raw b, .none)
  else if L2.classes.contains cls then (L2.parse cls b) >>= fun (o, i) => pure (.l2 o, i)
  else if Ip.classes.contains cls then (Ip.parse cls b) >>= fun (o, i) => pure (.ip o, i)
  else if Ip6.classes.contains cls then (Ip6.parse cls b) >>= fun (o, i) => pure (.ip6 o, i)
  else if Icmp.classes.contains cls then (Icmp.parse cls b) >>= fun (o, i) => pure (.icmp o, i)
  else if Transport.classes.contains cls then (Transport.parse cls b) >>= fun (o, i) => pure (.tr o, i)
  else if App.classes.contains cls then (App.parse cls b) >>= fun (o, i) => pure (.app o, i)
  else if Wifi.classes.contains cls then (Wifi.parse cls b) >>= fun (o, i) => pure (.wifi o, i)
  else .throw .stdOther

/-- result of parsing a chain; `unmodelled c` = the chain reached a class no family models yet -/
inductive ChainResult
  | ok (layers : List AnyObj)
  | unmodelled (cls : String)
  | throw (e : Exc)
  | fault (site : String)

/-- the nested parsing constructors: every inner layer is constructed while its parent's constructor runs, so an
    exception from an inner constructor propagates unless the parent catches it (`fallbackRaw`). -/
def parseChain : Nat → String → Bytes → ChainResult
  | 0, _, _ => .fault "parseChain: out of fuel"
  | fuel + 1, cls, b =>
    if !modelled cls then .unmodelled cls else
    match parseOne cls b with
    | .throw e => .throw e
    | .fault s => .fault s
    | .ok (o, inner) =>
      match inner with
      | .none => .ok [o]
      | .raw pb => .ok [o, .raw pb]
      | .cls name pb fb =>
        match parseChain fuel name pb with
        | .ok ls => .ok (o :: ls)
        | .unmodelled c => .unmodelled c
        | .fault s => .fault s
        | .throw e => if fb && e.isMalformed then .ok [o, .raw pb] else .throw e

/-- bottom-up `LayerInfo`s (trailer sizes need the inner chain's size) -/
def infos : List AnyObj → List LayerInfo
  | [] => []
  | o :: os =>
    let rest := infos os
    let innerSize := (rest.map (fun l => l.hdr + l.trl)).sum
    let (c, f) := o.info
    { cls := c, fields := f, hdr := o.hdr, trl := o.trl innerSize } :: rest

/-- the `LayerSem` chain of a packet -/
def semsAux : List LayerInfo → List AnyObj → List LayerInfo → List LayerSem
  | _, [], _ => []
  | _, _, [] => []
  | parents, o :: os, li :: lis =>
    { name := li.cls, hdr := li.hdr, trl := li.trl, write := o.write { parents := parents, inners := lis } }
      :: semsAux (li :: parents) os lis

def sems (os : List AnyObj) : List LayerSem := semsAux [] os (infos os)

def serializeObjs (os : List AnyObj) : Out Bytes := serialize (sems os)

end Tins.Wire
