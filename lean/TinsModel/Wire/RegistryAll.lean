import TinsModel.Wire.RegistryLemmas
import TinsModel.Wire.ChainLemmas
import TinsModel.Wire.IfaceLemmas
/-
  Whole-registry assembly, generic part.  Every family exports the same four facts about its interface functions
  (`<fam>_parse_safe`, `<fam>_parse_consumes`, `<fam>_parse_inv`, `<fam>_writesOnlyAt`).  This file turns seven such
  packages into statements about `Wire.parseOne` / `Wire.parseChain` / `Wire.sems` / `Wire.serializeObjs`, i.e. about
  whole packets of any depth mixing layers of every family:

    * `classesSafe_of`      the hypothesis `ClassesSafe` of `parseChain_safe` (C01) is discharged;
    * `parseChain_good`     every layer of a parsed chain satisfies its family's object invariant;
    * `sems_chainOK`        the per-layer C02 obligation holds for every chain of invariant-satisfying, serializable layers;

  `TinsModel/Wire/RegistryFacts.lean` instantiates them with the families' theorems.
-/
namespace Tins.Wire

/-- C01 facts of one family over its interface -/
structure FamParse {Obj : Type} (classes : List String) (parse : String → Bytes → Out (Obj × Inner))
    (info : Obj → String × Fields) (ObjInv Ser : Obj → Prop) : Prop where
  safe : ∀ cls b, cls ∈ classes → ParseSafe (parse cls b)
  consumes : ∀ cls b o name pb fb, cls ∈ classes → parse cls b = .ok (o, .cls name pb fb) → pb.length < b.length
  inv : ∀ cls b o i, cls ∈ classes → parse cls b = .ok (o, i) → ObjInv o
  /-- what the constructor builds from a buffer a `uint32_t` can measure is serializable, unless it is one of the two
      capture pseudo-headers documented as not serializable -/
  ser : ∀ cls b o i, cls ∈ classes → b.length < 4294967296 → parse cls b = .ok (o, i) →
    (info o).1 ≠ "PPI" → (info o).1 ≠ "PKTAP" → Ser o

/-- C02 fact of one family over its interface -/
def FamWrite {Obj : Type} (ObjInv Serializable : Obj → Prop) (info : Obj → String × Fields) (hdr : Obj → Nat)
    (trl : Obj → Nat → Nat) (write : Ctx → Obj → Bytes → Out Bytes) : Prop :=
  ∀ (cx : Ctx) (o : Obj), ObjInv o → Serializable o →
    WritesOnlyAt { name := (info o).1, hdr := hdr o, trl := trl o cx.innerSize, write := write cx o } cx.innerSize

/-- the invariant / serializability predicates of the seven families, bundled -/
structure Preds where
  l2Inv : L2.Obj → Prop
  l2Ser : L2.Obj → Prop
  ipInv : Ip.Obj → Prop
  ipSer : Ip.Obj → Prop
  ip6Inv : Ip6.Obj → Prop
  ip6Ser : Ip6.Obj → Prop
  icmpInv : Icmp.Obj → Prop
  icmpSer : Icmp.Obj → Prop
  trInv : Transport.Obj → Prop
  trSer : Transport.Obj → Prop
  appInv : App.Obj → Prop
  appSer : App.Obj → Prop
  wifiInv : Wifi.Obj → Prop
  wifiSer : Wifi.Obj → Prop

/-- a layer satisfies its family's invariant -/
def Preds.Inv (P : Preds) : AnyObj → Prop
  | .raw _ => True
  | .l2 o => P.l2Inv o | .ip o => P.ipInv o | .ip6 o => P.ip6Inv o | .icmp o => P.icmpInv o
  | .tr o => P.trInv o | .app o => P.appInv o | .wifi o => P.wifiInv o

/-- a layer is one `PDU::serialize` supports -/
def Preds.Ser (P : Preds) : AnyObj → Prop
  | .raw _ => True
  | .l2 o => P.l2Ser o | .ip o => P.ipSer o | .ip6 o => P.ip6Ser o | .icmp o => P.icmpSer o
  | .tr o => P.trSer o | .app o => P.appSer o | .wifi o => P.wifiSer o

structure ParseFacts (P : Preds) : Prop where
  l2 : FamParse L2.classes L2.parse L2.info P.l2Inv P.l2Ser
  ip : FamParse Ip.classes Ip.parse Ip.info P.ipInv P.ipSer
  ip6 : FamParse Ip6.classes Ip6.parse Ip6.info P.ip6Inv P.ip6Ser
  icmp : FamParse Icmp.classes Icmp.parse Icmp.info P.icmpInv P.icmpSer
  tr : FamParse Transport.classes Transport.parse Transport.info P.trInv P.trSer
  app : FamParse App.classes App.parse App.info P.appInv P.appSer
  wifi : FamParse Wifi.classes Wifi.parse Wifi.info P.wifiInv P.wifiSer

structure WriteFacts (P : Preds) : Prop where
  l2 : FamWrite P.l2Inv P.l2Ser L2.info L2.hdr L2.trl L2.write
  ip : FamWrite P.ipInv P.ipSer Ip.info Ip.hdr Ip.trl Ip.write
  ip6 : FamWrite P.ip6Inv P.ip6Ser Ip6.info Ip6.hdr Ip6.trl Ip6.write
  icmp : FamWrite P.icmpInv P.icmpSer Icmp.info Icmp.hdr Icmp.trl Icmp.write
  tr : FamWrite P.trInv P.trSer Transport.info Transport.hdr Transport.trl Transport.write
  app : FamWrite P.appInv P.appSer App.info App.hdr App.trl App.write
  wifi : FamWrite P.wifiInv P.wifiSer Wifi.info Wifi.hdr Wifi.trl Wifi.write

private theorem contains_mem {l : List String} {c : String} (h : l.contains c = true) : c ∈ l := by
  simpa using h

private theorem map_ok {α β} {x : Out α} {f : α → β} {r : β} (h : (x >>= fun a => pure (f a)) = .ok r) :
    ∃ a, x = .ok a ∧ f a = r := by
  cases x with
  | ok a => exact ⟨a, rfl, by simpa [bind, Out.bind, pure] using h⟩
  | throw e => cases h
  | fault s => cases h

private theorem ps_map {α β} {x : Out α} (f : α → β) (h : ParseSafe x) : ParseSafe (x >>= fun a => pure (f a)) := by
  rcases h with ⟨a, h⟩ | h
  · exact .inl ⟨f a, by rw [h]; rfl⟩
  · exact .inr (by rw [h]; rfl)

/-- what `parseOne` returns for a modelled class, family by family -/
theorem parseOne_cases (cls : String) (b : Bytes) (o : AnyObj) (i : Inner) (h : parseOne cls b = .ok (o, i)) :
    (cls = "RawPDU" ∧ o = .raw b ∧ i = .none)
    ∨ (∃ x, cls ∈ L2.classes ∧ L2.parse cls b = .ok (x, i) ∧ o = .l2 x)
    ∨ (∃ x, cls ∈ Ip.classes ∧ Ip.parse cls b = .ok (x, i) ∧ o = .ip x)
    ∨ (∃ x, cls ∈ Ip6.classes ∧ Ip6.parse cls b = .ok (x, i) ∧ o = .ip6 x)
    ∨ (∃ x, cls ∈ Icmp.classes ∧ Icmp.parse cls b = .ok (x, i) ∧ o = .icmp x)
    ∨ (∃ x, cls ∈ Transport.classes ∧ Transport.parse cls b = .ok (x, i) ∧ o = .tr x)
    ∨ (∃ x, cls ∈ App.classes ∧ App.parse cls b = .ok (x, i) ∧ o = .app x)
    ∨ (∃ x, cls ∈ Wifi.classes ∧ Wifi.parse cls b = .ok (x, i) ∧ o = .wifi x) := by
  unfold parseOne at h
  split at h
  · rename_i hc
    injection h with h; injection h with h1 h2
    exact .inl ⟨by simpa using hc, h1.symm, h2.symm⟩
  split at h
  · rename_i hc
    rcases map_ok h with ⟨⟨x, j⟩, hx, hr⟩; injection hr with h1 h2; subst h2
    exact .inr (.inl ⟨x, contains_mem hc, hx, h1.symm⟩)
  split at h
  · rename_i hc
    rcases map_ok h with ⟨⟨x, j⟩, hx, hr⟩; injection hr with h1 h2; subst h2
    exact .inr (.inr (.inl ⟨x, contains_mem hc, hx, h1.symm⟩))
  split at h
  · rename_i hc
    rcases map_ok h with ⟨⟨x, j⟩, hx, hr⟩; injection hr with h1 h2; subst h2
    exact .inr (.inr (.inr (.inl ⟨x, contains_mem hc, hx, h1.symm⟩)))
  split at h
  · rename_i hc
    rcases map_ok h with ⟨⟨x, j⟩, hx, hr⟩; injection hr with h1 h2; subst h2
    exact .inr (.inr (.inr (.inr (.inl ⟨x, contains_mem hc, hx, h1.symm⟩))))
  split at h
  · rename_i hc
    rcases map_ok h with ⟨⟨x, j⟩, hx, hr⟩; injection hr with h1 h2; subst h2
    exact .inr (.inr (.inr (.inr (.inr (.inl ⟨x, contains_mem hc, hx, h1.symm⟩)))))
  split at h
  · rename_i hc
    rcases map_ok h with ⟨⟨x, j⟩, hx, hr⟩; injection hr with h1 h2; subst h2
    exact .inr (.inr (.inr (.inr (.inr (.inr (.inl ⟨x, contains_mem hc, hx, h1.symm⟩))))))
  split at h
  · rename_i hc
    rcases map_ok h with ⟨⟨x, j⟩, hx, hr⟩; injection hr with h1 h2; subst h2
    exact .inr (.inr (.inr (.inr (.inr (.inr (.inr ⟨x, contains_mem hc, hx, h1.symm⟩))))))
  · cases h

/-- **C01, whole registry**: the hypothesis of `parseChain_safe` follows from the seven families' facts -/
theorem classesSafe_of {P : Preds} (F : ParseFacts P) : ClassesSafe where
  safe := by
    intro cls b _
    unfold parseOne
    split
    · exact .inl ⟨_, rfl⟩
    split
    · rename_i hc; exact ps_map _ (F.l2.safe cls b (contains_mem hc))
    split
    · rename_i hc; exact ps_map _ (F.ip.safe cls b (contains_mem hc))
    split
    · rename_i hc; exact ps_map _ (F.ip6.safe cls b (contains_mem hc))
    split
    · rename_i hc; exact ps_map _ (F.icmp.safe cls b (contains_mem hc))
    split
    · rename_i hc; exact ps_map _ (F.tr.safe cls b (contains_mem hc))
    split
    · rename_i hc; exact ps_map _ (F.app.safe cls b (contains_mem hc))
    split
    · rename_i hc; exact ps_map _ (F.wifi.safe cls b (contains_mem hc))
    · rename_i h1 h2 h3 h4 h5 h6 h7 h8
      rename_i hm
      exfalso
      simp only [modelled, Bool.or_eq_true] at hm
      simp_all
  consumes := by
    intro cls b o name pb fb h
    rcases parseOne_cases cls b o _ h with ⟨_, _, hi⟩ | ⟨x, hc, hx, _⟩ | ⟨x, hc, hx, _⟩ | ⟨x, hc, hx, _⟩ | ⟨x, hc, hx, _⟩ |
      ⟨x, hc, hx, _⟩ | ⟨x, hc, hx, _⟩ | ⟨x, hc, hx, _⟩
    · cases hi
    · exact F.l2.consumes cls b x name pb fb hc hx
    · exact F.ip.consumes cls b x name pb fb hc hx
    · exact F.ip6.consumes cls b x name pb fb hc hx
    · exact F.icmp.consumes cls b x name pb fb hc hx
    · exact F.tr.consumes cls b x name pb fb hc hx
    · exact F.app.consumes cls b x name pb fb hc hx
    · exact F.wifi.consumes cls b x name pb fb hc hx

/-- not one of the two capture pseudo-headers (PPI, PKTAP), which libtins documents as not serializable -/
def NotPseudo (o : AnyObj) : Prop := o.info.1 ≠ "PPI" ∧ o.info.1 ≠ "PKTAP"

/-- what parsing establishes for a layer: its invariant, and serializability unless it is a capture pseudo-header -/
def Preds.Good (P : Preds) (o : AnyObj) : Prop := P.Inv o ∧ (NotPseudo o → P.Ser o)

/-- parsing one layer establishes its family's invariant (and serializability, see `Preds.Good`) -/
theorem parseOne_good {P : Preds} (F : ParseFacts P) (cls : String) (b : Bytes) (o : AnyObj) (i : Inner)
    (hb : b.length < 4294967296) (h : parseOne cls b = .ok (o, i)) : P.Good o := by
  rcases parseOne_cases cls b o i h with ⟨_, ho, _⟩ | ⟨x, hc, hx, ho⟩ | ⟨x, hc, hx, ho⟩ | ⟨x, hc, hx, ho⟩ | ⟨x, hc, hx, ho⟩ |
    ⟨x, hc, hx, ho⟩ | ⟨x, hc, hx, ho⟩ | ⟨x, hc, hx, ho⟩ <;> subst ho
  · exact ⟨trivial, fun _ => trivial⟩
  · exact ⟨F.l2.inv cls b x i hc hx, fun hn => F.l2.ser cls b x i hc hb hx hn.1 hn.2⟩
  · exact ⟨F.ip.inv cls b x i hc hx, fun hn => F.ip.ser cls b x i hc hb hx hn.1 hn.2⟩
  · exact ⟨F.ip6.inv cls b x i hc hx, fun hn => F.ip6.ser cls b x i hc hb hx hn.1 hn.2⟩
  · exact ⟨F.icmp.inv cls b x i hc hx, fun hn => F.icmp.ser cls b x i hc hb hx hn.1 hn.2⟩
  · exact ⟨F.tr.inv cls b x i hc hx, fun hn => F.tr.ser cls b x i hc hb hx hn.1 hn.2⟩
  · exact ⟨F.app.inv cls b x i hc hx, fun hn => F.app.ser cls b x i hc hb hx hn.1 hn.2⟩
  · exact ⟨F.wifi.inv cls b x i hc hx, fun hn => F.wifi.ser cls b x i hc hb hx hn.1 hn.2⟩

theorem good_raw {P : Preds} (pb : Bytes) : P.Good (.raw pb) := ⟨trivial, fun _ => trivial⟩

/-- **every layer of a parsed chain satisfies its invariant and is serializable unless it is a capture pseudo-header**
    (any depth, any mix of families; the buffer length fits the `uint32_t` the constructors take) -/
theorem parseChain_good {P : Preds} (F : ParseFacts P) (hcs : ClassesSafe) :
    ∀ (fuel : Nat) (cls : String) (b : Bytes) (os : List AnyObj), b.length < 4294967296 →
      parseChain fuel cls b = .ok os → ∀ o ∈ os, P.Good o := by
  intro fuel
  induction fuel with
  | zero => intro cls b os _ h; simp [parseChain] at h
  | succ fuel ih =>
    intro cls b os hb h
    unfold parseChain at h
    split at h
    · cases h
    · generalize hp : parseOne cls b = r at h
      cases r with
      | throw e => cases h
      | fault s => cases h
      | ok p =>
        obtain ⟨o, inner⟩ := p
        have ho := parseOne_good F cls b o inner hb hp
        cases inner with
        | none =>
          simp only at h; injection h with h; subst h
          intro x hx; simp only [List.mem_singleton] at hx; subst hx; exact ho
        | raw pb =>
          simp only at h; injection h with h; subst h
          intro x hx
          simp only [List.mem_cons, List.mem_nil_iff, or_false] at hx
          rcases hx with hx | hx <;> subst hx
          · exact ho
          · exact good_raw pb
        | cls name pb fb =>
          have hlt := hcs.consumes cls b o name pb fb hp
          simp only at h
          generalize hr : parseChain fuel name pb = r at h
          cases r with
          | ok ls =>
            simp only at h; injection h with h; subst h
            intro x hx
            simp only [List.mem_cons] at hx
            rcases hx with hx | hx
            · subst hx; exact ho
            · exact ih name pb ls (by omega) hr x hx
          | unmodelled c => cases h
          | fault s => cases h
          | throw e =>
            simp only at h
            split at h
            · injection h with h; subst h
              intro x hx
              simp only [List.mem_cons, List.mem_nil_iff, or_false] at hx
              rcases hx with hx | hx <;> subst hx
              · exact ho
              · exact good_raw pb
            · cases h

/-- a header-only layer: `write` replaces the first `n` bytes by `hb` (`hb.length = n`) -/
theorem writesOnly_of_writeAtStart' (name : String) (n : Nat) (w : Bytes → Out Bytes) (hb : Bytes) (hl : hb.length = n)
    (hw : ∀ region, w region = writeAtStart region hb) :
    WritesOnly { name := name, hdr := n, trl := 0, write := w } := by
  apply writesOnly_of_header_only _ rfl
  intro region hr
  simp only at hr
  refine ⟨hb ++ region.drop hb.length, ?_, ?_, ?_⟩
  · simp only [hw]; exact writeAtStart_eq region hb (by omega)
  · exact length_prefix_replaced _ _ (by omega)
  · exact drop_prefix_replaced _ _ n (by omega)

theorem sizeOf_semsAux' (os : List AnyObj) (parents : List LayerInfo) :
    Wire.sizeOf (semsAux parents os (infos os)) = ((infos os).map (fun l => l.hdr + l.trl)).sum := by
  induction os generalizing parents with
  | nil => rfl
  | cons o os ih =>
    simp only [infos, semsAux, Wire.sizeOf, List.map_cons, List.sum_cons, ih]

/-- **C02, whole registry**: every layer of the chain `Wire.sems` builds meets its obligation for the size of the chain
    below it, for every stack of invariant-satisfying, serializable layers of any families -/
theorem semsAux_chainOK_all {P : Preds} (W : WriteFacts P) (os : List AnyObj)
    (h : ∀ o ∈ os, P.Inv o ∧ P.Ser o) (parents : List LayerInfo) :
    ChainOK (semsAux parents os (infos os)) := by
  induction os generalizing parents with
  | nil => trivial
  | cons o os ih =>
    have hrest : ∀ x ∈ os, P.Inv x ∧ P.Ser x := fun x hx => h x (List.mem_cons_of_mem _ hx)
    have ho := h o List.mem_cons_self
    simp only [infos, semsAux, ChainOK]
    refine ⟨?_, ih hrest _⟩
    rw [sizeOf_semsAux']
    cases o with
    | raw p =>
      exact writesOnlyAt_of_writesOnly (writesOnly_of_writeAtStart' _ p.length _ p rfl (fun _ => rfl)) _
    | l2 x => exact W.l2 { parents := parents, inners := infos os } x ho.1 ho.2
    | ip x => exact W.ip { parents := parents, inners := infos os } x ho.1 ho.2
    | ip6 x => exact W.ip6 { parents := parents, inners := infos os } x ho.1 ho.2
    | icmp x => exact W.icmp { parents := parents, inners := infos os } x ho.1 ho.2
    | tr x => exact W.tr { parents := parents, inners := infos os } x ho.1 ho.2
    | app x => exact W.app { parents := parents, inners := infos os } x ho.1 ho.2
    | wifi x => exact W.wifi { parents := parents, inners := infos os } x ho.1 ho.2

theorem sems_chainOK {P : Preds} (W : WriteFacts P) (os : List AnyObj) (h : ∀ o ∈ os, P.Inv o ∧ P.Ser o) :
    ChainOK (sems os) :=
  semsAux_chainOK_all W os h []

/-- `PDU::serialize()` of any such stack succeeds and returns exactly `size()` bytes -/
theorem serializeObjs_total {P : Preds} (W : WriteFacts P) (os : List AnyObj) (h : ∀ o ∈ os, P.Inv o ∧ P.Ser o) :
    ∃ out, serializeObjs os = .ok out ∧ out.length = Wire.sizeOf (sems os) :=
  serialize_ok_at (sems os) (sems_chainOK W os h)

/-- … and the bytes of every sub-chain appear unmodified at the offset given by the header sizes above it -/
theorem serializeObjs_frame {P : Preds} (W : WriteFacts P) (os : List AnyObj) (h : ∀ o ∈ os, P.Inv o ∧ P.Ser o)
    (n : Nat) (hn : n ≤ (sems os).length) :
    ∃ out sub, serializeObjs os = .ok out ∧ serialize ((sems os).drop n) = .ok sub ∧
      (out.drop (offsetOf (sems os) n)).take (Wire.sizeOf ((sems os).drop n)) = sub :=
  serialize_subchain_at (sems os) (sems_chainOK W os h) n hn

end Tins.Wire
