import TinsModel.Wire.Wifi.Family
import TinsModel.Wire.Wifi.TheoremsDot11
import TinsModel.Wire.Wifi.TheoremsDot11Api
import TinsModel.Wire.Wifi.TheoremsDot11Reparse
import TinsModel.Wire.Wifi.TheoremsEapol
import TinsModel.Wire.Wifi.TheoremsRadioTap
import TinsModel.Wire.Wifi.ThEapolApi
/-
  Family-level theorems of Wifi for the four wire properties, over the interface the registry uses
  (`Wifi.parse`, `Wifi.hdr`, `Wifi.trl`, `Wifi.write`, `Wifi.mk`, `Wifi.apply`) — same statement shapes as
  `L2/ThFamily.lean`.  The per-class theorems are in `Theorems*.lean` and `ThEapolApi.lean`:
    C01  dot11_parse_safe / dot11_fromBytes_safe / dot11_parse_consumes (all 21 Dot11 classes and `Dot11::from_bytes`),
         eapol_parse_safe / eapol_fromBytes_safe / Eapol.parse_no_cls, radiotap_parse_safe / radiotap_parse_consumes
    C02  dot11_writesOnly, eapol_writesOnly, radiotap_writesOnly_exact (FCS trailer: exact region only)
    C04  Dot11.construct_WF, Tagged.apply_WF, Eapol.create_WF, Eapol.apply_WF

  Dot11: `options_size_` is a `uint32_t` counter; the invariant every parse establishes and every call keeps is the
  equation modulo 2³² (`Dot11.WF`), and `write_serialization` is size-exact iff additionally the tagged options are below
  the 4 GiB the counter can count (`Dot11.Fits`).  That bound is `Serializable` for the Dot11 classes; it holds for every
  packet parsed from a buffer a `uint32_t total_sz` can describe (`wifi_parse_serializable`) and for every constructed
  object (`wifi_mk_serializable`).
-/
namespace Tins.Wire.Wifi
open Tins Tins.Wire

/-- the invariant of a family object: what parsing establishes and every API call preserves -/
def ObjInv : Obj → Prop
  | .dot11 d => d.WF
  | .eapol e => e.WF
  | .radiotap r => r.WF

/-- every class of the family is serializable; a Dot11 object as long as its tagged options are below the 4 GiB its
    `uint32_t options_size_` can count -/
def Serializable : Obj → Prop
  | .dot11 d => d.Fits
  | _ => True

/-- the `LayerSem` the registry builds for a family object in context `cx` -/
def wifiSem (cx : Ctx) (o : Obj) : LayerSem :=
  { name := (info o).1, hdr := hdr o, trl := trl o cx.innerSize, write := write cx o }

theorem ParseSafe.bind {α β} {x : Out α} {f : α → Out β} (hx : ParseSafe x) (hf : ∀ a, x = .ok a → ParseSafe (f a)) :
    ParseSafe (x >>= f) := by
  rcases hx with ⟨a, rfl⟩ | rfl
  · exact hf a rfl
  · exact .inr rfl

theorem ParseSafe.ok {α} (a : α) : ParseSafe (Out.ok a) := .inl ⟨a, rfl⟩

/-- the six entries of the family that are not a Dot11 class name -/
theorem classes_dot11 (cls : String) (h : cls ∈ classes) (h1 : ¬ (cls == "Dot11*") = true) (h2 : ¬ (cls == "RadioTap") = true)
    (h3 : ¬ (cls == "RC4EAPOL") = true) (h4 : ¬ (cls == "RSNEAPOL") = true)
    (h5 : ¬ (cls == "EAPOL*" || cls == "EAPOL") = true) : cls ∈ dot11Classes := by
  simp only [classes, List.mem_append, List.mem_cons, List.mem_nil_iff, or_false] at h
  simp only [Bool.or_eq_true, beq_iff_eq, not_or] at h1 h2 h3 h4 h5
  rcases h with h | h | h | h | h | h | h
  · exact h
  · exact absurd h h1
  · exact absurd h h3
  · exact absurd h h4
  · exact absurd h h5.1
  · exact absurd h h5.2
  · exact absurd h h2

/-- **C01 / Wifi**: every parsing constructor of the family (and the two `from_bytes` factories), on every byte string,
    returns a packet (or a null pointer) or throws `malformed_packet`; it never touches a byte outside the buffer -/
theorem wifi_parse_safe (cls : String) (b : Bytes) (h : cls ∈ classes) : ParseSafe (parse cls b) := by
  unfold parse
  split
  · exact ParseSafe.bind (Dot11.dot11_fromBytes_safe b) (fun a _ => .ok _)
  rename_i h1
  split
  · exact ParseSafe.bind (RadioTap.radiotap_parse_safe b) (fun a _ => .ok _)
  rename_i h2
  split
  · exact ParseSafe.bind (Eapol.eapol_parse_safe false b) (fun a _ => .ok _)
  rename_i h3
  split
  · exact ParseSafe.bind (Eapol.eapol_parse_safe true b) (fun a _ => .ok _)
  rename_i h4
  split
  · refine ParseSafe.bind (Eapol.eapol_fromBytes_safe b) (fun r _ => ?_)
    cases r with
    | none => exact .ok _
    | some p => exact .ok _
  rename_i h5
  obtain ⟨lay, hl, _⟩ := Dot11.layouts_ok cls (classes_dot11 cls h h1 h2 h3 h4 h5)
  simp only [Dot11.parse, hl]
  exact ParseSafe.bind (Dot11.dot11_parse_safe cls lay b) (fun a _ => .ok _)

/-- where a successful result of the family's `parse` comes from: a Dot11 parsing constructor on the same bytes,
    the RadioTap constructor, an EAPOL constructor on (a prefix of) the bytes, or the null pointer of
    `EAPOL::from_bytes` — which is only returned after the 5-byte length check passed -/
theorem parse_ok_cases (cls : String) (b : Bytes) (o : Obj) (i : Inner) (hp : parse cls b = .ok (o, i)) :
    (∃ d, o = .dot11 d ∧ ∃ cls' lay, Dot11.parseWith cls' lay b = .ok (d, i))
    ∨ (∃ r, o = .radiotap r ∧ RadioTap.parse b = .ok (r, i))
    ∨ (∃ e, o = .eapol e ∧ ∃ rsn b', Eapol.parse rsn b' = .ok (e, i) ∧ b'.length ≤ b.length)
    ∨ (o = .eapol (Eapol.create false) ∧ i = .cls eapolNull [] false ∧ 5 ≤ b.length) := by
  unfold parse at hp
  split at hp
  · rcases bind_ok_inv hp with ⟨⟨d, j⟩, hx, hf⟩
    injection hf with hf; injection hf with h1 h2; subst h1; subst h2
    exact .inl ⟨d, rfl, Dot11.fromBytes_ok b _ hx⟩
  split at hp
  · rcases bind_ok_inv hp with ⟨⟨r, j⟩, hx, hf⟩
    injection hf with hf; injection hf with h1 h2; subst h1; subst h2
    exact .inr (.inl ⟨r, rfl, hx⟩)
  split at hp
  · rcases bind_ok_inv hp with ⟨⟨e, j⟩, hx, hf⟩
    injection hf with hf; injection hf with h1 h2; subst h1; subst h2
    exact .inr (.inr (.inl ⟨e, rfl, false, b, hx, Nat.le_refl _⟩))
  split at hp
  · rcases bind_ok_inv hp with ⟨⟨e, j⟩, hx, hf⟩
    injection hf with hf; injection hf with h1 h2; subst h1; subst h2
    exact .inr (.inr (.inl ⟨e, rfl, true, b, hx, Nat.le_refl _⟩))
  split at hp
  · rcases bind_ok_inv hp with ⟨r, hx, hf⟩
    obtain ⟨h5, hsome⟩ := Eapol.fromBytes_ok b r hx
    cases r with
    | none =>
      injection hf with hf; injection hf with h1 h2; subst h1; subst h2
      exact .inr (.inr (.inr ⟨rfl, rfl, h5⟩))
    | some p =>
      obtain ⟨e, j⟩ := p
      injection hf with hf; injection hf with h1 h2; subst h1; subst h2
      obtain ⟨rsn, n, hpar⟩ := hsome e j rfl
      exact .inr (.inr (.inl ⟨e, rfl, rsn, _, hpar, by simp only [List.length_take]; omega⟩))
  · rcases bind_ok_inv hp with ⟨⟨d, j⟩, hx, hf⟩
    injection hf with hf; injection hf with h1 h2; subst h1; subst h2
    unfold Dot11.parse at hx
    split at hx
    · exact .inl ⟨d, rfl, cls, _, hx⟩
    · cases hx

/-- **C01 / Wifi, termination of the nested constructors**: a parsing constructor of the family hands strictly fewer
    bytes to the next constructor.  (`EAPOL::from_bytes` returning a null pointer is modelled as the empty byte string
    for the class nobody models; it only happens after the length check `total_sz >= sizeof(eapol_header)`, so the
    input had at least 5 bytes.) -/
theorem wifi_parse_consumes (cls : String) (b : Bytes) (o : Obj) (name : String) (pb : Bytes) (fb : Bool)
    (_hc : cls ∈ classes) (h : parse cls b = .ok (o, .cls name pb fb)) : pb.length < b.length := by
  rcases parse_ok_cases cls b o _ h with ⟨d, _, cls', lay, hd⟩ | ⟨r, _, hr⟩ | ⟨e, _, rsn, b', he, _⟩ | ⟨_, hi, h5⟩
  · exact Dot11.dot11_parse_consumes cls' lay b d _ hd
  · exact RadioTap.radiotap_parse_consumes b r _ hr
  · exact absurd he (Eapol.parse_no_cls rsn b' e name pb fb)
  · injection hi with _ hpb _
    subst hpb
    simp only [List.length_nil]; omega

/-- parsing establishes the invariant -/
theorem wifi_parse_inv (cls : String) (b : Bytes) (o : Obj) (i : Inner) (_hc : cls ∈ classes)
    (h : parse cls b = .ok (o, i)) : ObjInv o := by
  rcases parse_ok_cases cls b o _ h with ⟨d, rfl, cls', lay, hd⟩ | ⟨r, rfl, hr⟩ | ⟨e, rfl, rsn, b', he, _⟩ | ⟨rfl, _, _⟩
  · exact (Dot11.dot11_parse_WF cls' lay b d i hd).1
  · exact RadioTap.radiotap_parse_WF b r i hr
  · exact Eapol.eapol_parse_WF rsn b' e i he
  · exact Eapol.create_WF false

/-- whatever is parsed from a buffer a `uint32_t total_sz` can describe is serializable -/
theorem wifi_parse_serializable (cls : String) (b : Bytes) (o : Obj) (i : Inner) (_hc : cls ∈ classes)
    (hb : b.length < 4294967296) (h : parse cls b = .ok (o, i)) : Serializable o := by
  rcases parse_ok_cases cls b o _ h with ⟨d, rfl, cls', lay, hd⟩ | ⟨r, rfl, hr⟩ | ⟨e, rfl, rsn, b', he, _⟩ | ⟨rfl, _, _⟩
  · have := (Dot11.dot11_parse_WF cls' lay b d i hd).2.2
    show Dot11.Fits d
    unfold Dot11.Fits; omega
  · trivial
  · trivial
  · trivial

/-- **C02 / Wifi**: for every serializable family object satisfying the invariant, in every context,
    `write_serialization` succeeds on the region `PDU::serialize` hands out, keeps its length and leaves the inner
    layers' bytes untouched (Dot11 / EAPOL: on every region that is large enough; RadioTap with its FCS trailer: on the
    exact region) -/
theorem wifi_writesOnlyAt (cx : Ctx) (o : Obj) (hi : ObjInv o) (hs : Serializable o) : WritesOnlyAt (wifiSem cx o) cx.innerSize := by
  cases o with
  | dot11 d => exact writesOnlyAt_of_writesOnly (Dot11.dot11_writesOnly d hi hs) _
  | eapol e => exact writesOnlyAt_of_writesOnly (Eapol.eapol_writesOnly e hi) _
  | radiotap r =>
    intro region hr
    have hr' : region.length = r.hdrSize + cx.innerSize + r.trl := hr
    obtain ⟨out, ho, hl, hin⟩ := RadioTap.radiotap_writesOnly_exact cx r hi region hr'
    refine ⟨out, ho, hl, ?_⟩
    show (out.drop r.hdrSize).take (out.length - (r.hdrSize + r.trl)) = (region.drop r.hdrSize).take (region.length - (r.hdrSize + r.trl))
    have h1 : out.length - (r.hdrSize + r.trl) = cx.innerSize := by omega
    have h2 : region.length - (r.hdrSize + r.trl) = cx.innerSize := by omega
    rw [h1, h2]; exact hin

private theorem mk_cases (cls : String) (args : List String) (o : Obj) (h : mk cls args = .ok o) :
    (∃ rsn, o = .eapol (Eapol.create rsn)) ∨ (∃ d, o = .dot11 d ∧ Dot11.construct cls args = .ok d) := by
  unfold mk at h
  split at h
  · split at h
    · injection h with h; subst h; exact .inl ⟨false, rfl⟩
    · cases h
  split at h
  · split at h
    · injection h with h; subst h; exact .inl ⟨true, rfl⟩
    · cases h
  · rcases bind_ok_inv h with ⟨d, hd, hf⟩
    injection hf with hf; subst hf
    exact .inr ⟨d, rfl, hd⟩

/-- the public constructors establish the invariant -/
theorem wifi_mk_inv (cls : String) (args : List String) (o : Obj) (h : mk cls args = .ok o) : ObjInv o := by
  rcases mk_cases cls args o h with ⟨rsn, rfl⟩ | ⟨d, rfl, hd⟩
  · exact Eapol.create_WF rsn
  · exact (Dot11.construct_WF cls args d hd).1

/-- … and yield serializable objects -/
theorem wifi_mk_serializable (cls : String) (args : List String) (o : Obj) (h : mk cls args = .ok o) : Serializable o := by
  rcases mk_cases cls args o h with ⟨rsn, rfl⟩ | ⟨d, rfl, hd⟩
  · trivial
  · exact (Dot11.construct_WF cls args d hd).2

/-- **C04 / Wifi**: every API call keeps the invariant — with `wifi_mk_inv` and `wifi_parse_inv`: every object reachable
    by parsing or by any finite sequence of constructor / setter / add-option / remove-option calls satisfies it, so
    `wifi_writesOnlyAt` applies to all of them (RadioTap has no modelled setter: they belong to C11) -/
theorem wifi_apply_inv (o o' : Obj) (op : List String) (hi : ObjInv o) (h : apply o op = .ok o') : ObjInv o' := by
  cases o with
  | dot11 d =>
    simp only [apply] at h
    rcases bind_ok_inv h with ⟨x, hx, hf⟩
    injection hf with hf; subst hf
    exact Tagged.apply_WF d x op hi hx
  | eapol e =>
    simp only [apply] at h
    rcases bind_ok_inv h with ⟨x, hx, hf⟩
    injection hf with hf; subst hf
    exact Eapol.apply_WF e x op hi hx
  | radiotap r => simp only [apply] at h; cases h

/-! ### non-vacuity -/

/-- a beacon with two tagged parameters: parsed by its own constructor and through `Dot11::from_bytes` -/
example : ∃ d, parse "Dot11*" ([0x80, 0] ++ List.replicate 34 1 ++ [0, 3, 97, 98, 99, 1, 2, 0x82, 0x84]) = .ok (.dot11 d, .none)
    ∧ d.cls = "Dot11Beacon" ∧ hdr (.dot11 d) = 45 := ⟨_, rfl, rfl, rfl⟩

/-- `EAPOL::from_bytes` on an unknown key-descriptor type: the null pointer, after 5 readable bytes -/
example : parse "EAPOL*" [1, 3, 0, 0, 9] = .ok (.eapol (Eapol.create false), .cls eapolNull [] false) := rfl

/-- RadioTap with the FCS flag over an ACK frame: the inner `Dot11::from_bytes` gets strictly fewer bytes -/
example : ∃ r pb, parse "RadioTap" ([0, 0, 17, 0, 3, 0, 0, 0] ++ List.replicate 8 7 ++ [0x10] ++
    [0xd4, 0, 0, 0, 1, 2, 3, 4, 5, 6] ++ [9, 9, 9, 9]) = .ok (.radiotap r, .cls "Dot11*" pb false) ∧ pb.length = 10
    ∧ trl (.radiotap r) 10 = 4 := ⟨_, _, rfl, rfl, rfl⟩

end Tins.Wire.Wifi
