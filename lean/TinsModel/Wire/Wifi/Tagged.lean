import TinsModel.Wire.Wifi.Dot11
/-
  Typed tagged-option setters and getters of `Dot11ManagementFrame` (src/dot11/dot11_mgmt.cpp), the converters
  they use (src/pdu_option.cpp) and `RSNInformation` (src/rsn_information.cpp).
  Setters: `encode…` builds the option bytes exactly as the C++ setter does and hands them to `add_tagged_option`.
  Getters: `decode…` mirrors `search_and_convert<T>` → `Converters::convert` / `T::from_option`.
-/
namespace Tins.Wire.Wifi
namespace Tagged
open Dot11 (leAt hexAt patch num hexArg hexAny addTagged)

def le (n v : Nat) : Bytes := OutCursor.leBytes n v
def u8 (v : Nat) : UInt8 := UInt8.ofNat (v % 256)

/-- option codes (`Dot11::OptionTypes`) -/
def SSID := 0
def SUPPORTED_RATES := 1
def FH_SET := 2
def DS_SET := 3
def CF_SET := 4
def TIM := 5
def IBSS_SET := 6
def COUNTRY := 7
def HOPPING_PATTERN_PARAMS := 8
def HOPPING_PATTERN_TABLE := 9
def REQUEST_INFORMATION := 10
def BSS_LOAD := 11
def EDCA := 12
def CHALLENGE_TEXT := 16
def POWER_CONSTRAINT := 32
def POWER_CAPABILITY := 33
def TPC_REPORT := 35
def SUPPORTED_CHANNELS := 36
def CHANNEL_SWITCH := 37
def QUIET := 40
def IBSS_DFS := 41
def ERP_INFORMATION := 42
def QOS_CAPABILITY := 46
def RSN := 48
def EXT_SUPPORTED_RATES := 50
def VENDOR_SPECIFIC := 221

/-! ### encoders (the byte strings the typed setters build) -/

/-- `serialize_rates`: the argument is the rate in units of 0.5 Mbit/s (`uint8_t(rate * 2)`); the four 802.11b basic
    rates get the "basic" bit -/
def encodeRate (r : Nat) : UInt8 :=
  let v := r % 256
  if v == 2 || v == 4 || v == 11 || v == 22 then u8 (v ||| 128) else u8 v

def encodeRates (rs : List Nat) : Bytes := rs.map encodeRate

def encodePairs (ps : List (Nat × Nat)) : Bytes := (ps.map (fun (a, b) => [u8 a, u8 b])).flatten

def encodeEdca (be bk vi vo : Nat) : Bytes := [0, 0] ++ le 4 be ++ le 4 bk ++ le 4 vi ++ le 4 vo
def encodeFhSet (dwell hopSet hopPattern hopIndex : Nat) : Bytes := le 2 dwell ++ [u8 hopSet, u8 hopPattern, u8 hopIndex]
def encodeCfSet (count period maxDur durRem : Nat) : Bytes := [u8 count, u8 period] ++ le 2 maxDur ++ le 2 durRem
def encodeIbssDfs (owner : Bytes) (recovery : Nat) (map : List (Nat × Nat)) : Bytes := owner ++ [u8 recovery] ++ encodePairs map

/-- `country`: 3 country bytes, triplets, one zero byte of padding when the length is odd -/
def encodeCountry (country : Bytes) (tr : List (Nat × Nat × Nat)) : Bytes :=
  let body := country ++ (tr.map (fun (a, b, c) => [u8 a, u8 b, u8 c])).flatten
  if body.length % 2 == 1 then body ++ [0] else body

def encodeFhPattern (flag sets modulus offset : Nat) (table : Bytes) : Bytes := [u8 flag, u8 sets, u8 modulus, u8 offset] ++ table
def encodeQuiet (count period dur off : Nat) : Bytes := [u8 count, u8 period] ++ le 2 dur ++ le 2 off
def encodeBssLoad (stations util cap : Nat) : Bytes := le 2 stations ++ [u8 util] ++ le 2 cap
def encodeTim (count period ctrl : Nat) (bitmap : Bytes) : Bytes := [u8 count, u8 period, u8 ctrl] ++ bitmap

/-- `RSNInformation`: version, group suite, pairwise suites, AKM suites, capabilities -/
structure Rsn where
  version : Nat
  group : Nat
  pairwise : List Nat
  akm : List Nat
  caps : Nat
deriving Repr, DecidableEq

/-- `RSNInformation::serialize()` -/
def encodeRsn (r : Rsn) : Bytes :=
  le 2 r.version ++ le 4 r.group ++ le 2 r.pairwise.length ++ (r.pairwise.map (le 4)).flatten ++
  le 2 r.akm.length ++ (r.akm.map (le 4)).flatten ++ le 2 r.caps

/-! ### argument parsing of the line protocol -/

def numList (s : String) : Out (List Nat) :=
  if s == "-" then .ok [] else (s.splitOn ",").mapM num

def pairList (s : String) : Out (List (Nat × Nat)) :=
  if s == "-" then .ok [] else
  (s.splitOn ",").mapM (fun it => match it.splitOn ":" with
    | [a, b] => do let x ← num a; let y ← num b; pure (x, y)
    | _ => .throw .stdOther)

def tripleList (s : String) : Out (List (Nat × Nat × Nat)) :=
  if s == "-" then .ok [] else
  (s.splitOn ",").mapM (fun it => match it.splitOn ":" with
    | [a, b, c] => do let x ← num a; let y ← num b; let z ← num c; pure (x, y, z)
    | _ => .throw .stdOther)

/-- typed setters of `Dot11ManagementFrame` → (option code, bytes handed to `add_tagged_option`) -/
def typedOption : List String → Out (Nat × Bytes)
  | ["ssid", h] => do let b ← hexAny h; pure (SSID, b)
  | ["supported_rates", l] => do let r ← numList l; pure (SUPPORTED_RATES, encodeRates r)
  | ["extended_supported_rates", l] => do let r ← numList l; pure (EXT_SUPPORTED_RATES, encodeRates r)
  | ["qos_capability", v] => do let n ← num v; pure (QOS_CAPABILITY, [u8 n])
  | ["power_capability", a, b] => do let x ← num a; let y ← num b; pure (POWER_CAPABILITY, [u8 x, u8 y])
  | ["supported_channels", l] => do let p ← pairList l; pure (SUPPORTED_CHANNELS, encodePairs p)
  | ["edca_parameter_set", a, b, c, d] => do
    let w ← num a; let x ← num b; let y ← num c; let z ← num d; pure (EDCA, encodeEdca w x y z)
  | ["request_information", h] => do let b ← hexAny h; pure (REQUEST_INFORMATION, b)
  | ["fh_parameter_set", a, b, c, d] => do
    let w ← num a; let x ← num b; let y ← num c; let z ← num d; pure (FH_SET, encodeFhSet w x y z)
  | ["ds_parameter_set", v] => do let n ← num v; pure (DS_SET, [u8 n])
  | ["cf_parameter_set", a, b, c, d] => do
    let w ← num a; let x ← num b; let y ← num c; let z ← num d; pure (CF_SET, encodeCfSet w x y z)
  | ["ibss_parameter_set", v] => do let n ← num v; pure (IBSS_SET, le 2 n)
  | ["ibss_dfs", o, r, l] => do
    let ow ← hexArg o 6; let rc ← num r; let p ← pairList l; pure (IBSS_DFS, encodeIbssDfs ow rc p)
  | ["country", c, l] => do let cc ← hexArg c 3; let t ← tripleList l; pure (COUNTRY, encodeCountry cc t)
  | ["fh_parameters", a, b] => do let x ← num a; let y ← num b; pure (HOPPING_PATTERN_PARAMS, [u8 x, u8 y])
  | ["fh_pattern_table", a, b, c, d, h] => do
    let w ← num a; let x ← num b; let y ← num c; let z ← num d; let t ← hexAny h
    pure (HOPPING_PATTERN_TABLE, encodeFhPattern w x y z t)
  | ["power_constraint", v] => do let n ← num v; pure (POWER_CONSTRAINT, [u8 n])
  | ["channel_switch", a, b, c] => do let x ← num a; let y ← num b; let z ← num c; pure (CHANNEL_SWITCH, [u8 x, u8 y, u8 z])
  | ["quiet", a, b, c, d] => do
    let w ← num a; let x ← num b; let y ← num c; let z ← num d; pure (QUIET, encodeQuiet w x y z)
  | ["tpc_report", a, b] => do let x ← num a; let y ← num b; pure (TPC_REPORT, [u8 x, u8 y])
  | ["erp_information", v] => do let n ← num v; pure (ERP_INFORMATION, [u8 n])
  | ["bss_load", a, b, c] => do let x ← num a; let y ← num b; let z ← num c; pure (BSS_LOAD, encodeBssLoad x y z)
  | ["tim", a, b, c, h] => do
    let x ← num a; let y ← num b; let z ← num c; let bm ← hexAny h; pure (TIM, encodeTim x y z bm)
  | ["challenge_text", h] => do let b ← hexAny h; pure (CHALLENGE_TEXT, b)
  | ["vendor_specific", o, h] => do let oui ← hexArg o 3; let b ← hexAny h; pure (VENDOR_SPECIFIC, oui ++ b)
  | ["rsn_information", v, g, p, a, c] => do
    let ver ← num v; let grp ← num g; let pw ← numList p; let ak ← numList a; let cp ← num c
    pure (RSN, encodeRsn ⟨ver, grp, pw, ak, cp⟩)
  | _ => .throw .stdOther

/-- one API call on a Dot11 object -/
def apply (d : Dot11) (op : List String) : Out Dot11 :=
  match Dot11.applyScalar d op with
  | .ok x => .ok x
  | .fault s => .fault s
  | .throw _ =>
    match Dot11.applyBody d op with
    | .ok x => .ok x
    | .fault s => .fault s
    | .throw _ =>
      match op with
      | ["add_option", code, lenField, h] => do
        -- add_option(option(code, length_field, data.begin(), data.end()))
        let c ← num code; let l ← num lenField; let b ← hexAny h
        pure (Dot11.addOption d ⟨c % 256, l % 65536, b⟩)
      | ["remove_option", code] => do let c ← num code; pure (Dot11.removeOption d (c % 256))
      | _ =>
        if d.lay.fam == .mgmt then do
          let (code, val) ← typedOption op
          pure (addTagged d code val)
        else .throw .stdOther

/-! ### decoders (`search_and_convert<T>` → `Converters::convert` / `T::from_option` / `RSNInformation::init`) -/

/-- `search_option(type)`: the first option with that code -/
def searchOption (os : List Opt) (code : Nat) : Option Opt := os.find? (fun o => o.code == code)

def b (bs : Bytes) (i : Nat) : Nat := byteAt bs i

/-- `convert<uint8_t>` -/
def decodeU8 (d : Bytes) : Out Nat := if d.length != 1 then .throw .malformedOption else .ok (b d 0)
/-- `convert<uint16_t>` with `Dot11::endianness = LE` -/
def decodeU16 (d : Bytes) : Out Nat := if d.length != 2 then .throw .malformedOption else .ok (leAt d 0 2)
/-- `convert<pair<uint8_t,uint8_t>>` -/
def decodePair (d : Bytes) : Out (Nat × Nat) := if d.length != 2 then .throw .malformedOption else .ok (b d 0, b d 1)

def pairsOf : Bytes → List (Nat × Nat)
  | x :: y :: r => (x.toNat, y.toNat) :: pairsOf r
  | _ => []

/-- `convert<vector<pair<uint8_t,uint8_t>>>` -/
def decodePairs (d : Bytes) : Out (List (Nat × Nat)) := if d.length % 2 != 0 then .throw .malformedOption else .ok (pairsOf d)

/-- `convert<vector<float>>`: `float(byte & 0x7f) / 2`, reported in units of 0.5 Mbit/s -/
def decodeRates (d : Bytes) : List Nat := d.map (fun x => x.toNat % 128)

/-- `fh_params_set::from_option` -/
def decodeFhSet (d : Bytes) : Out (Nat × Nat × Nat × Nat) :=
  if d.length != 5 then .throw .malformedOption else .ok (leAt d 0 2, b d 2, b d 3, b d 4)
/-- `cf_params_set::from_option` -/
def decodeCfSet (d : Bytes) : Out (Nat × Nat × Nat × Nat) :=
  if d.length != 6 then .throw .malformedOption else .ok (b d 0, b d 1, leAt d 2 2, leAt d 4 2)

/-- the `while (ptr != end)` loop of `ibss_dfs_params::from_option`: a lone last byte is `malformed_option` -/
def dfsPairs : Bytes → Out (List (Nat × Nat))
  | [] => .ok []
  | [_] => .throw .malformedOption
  | x :: y :: r => (dfsPairs r) >>= fun ps => pure ((x.toNat, y.toNat) :: ps)

/-- `ibss_dfs_params::from_option` (minimum size 9) -/
def decodeIbssDfs (d : Bytes) : Out (Bytes × Nat × List (Nat × Nat)) :=
  if d.length < 9 then .throw .malformedOption
  else (dfsPairs (d.drop 7)) >>= fun ps => pure (d.take 6, b d 6, ps)

def triplesOf : Bytes → List (Nat × Nat × Nat) × Bytes
  | x :: y :: z :: r => let (ts, rest) := triplesOf r; ((x.toNat, y.toNat, z.toNat) :: ts, rest)
  | r => ([], r)

/-- `country_params::from_option` (minimum size 6): triplets while at least 3 bytes remain; what is left over must be
    nothing, or the single pad byte the element carries when its length would otherwise be odd -/
def decodeCountry (d : Bytes) : Out (Bytes × List (Nat × Nat × Nat)) :=
  if d.length < 6 then .throw .malformedOption
  else
    let (ts, rest) := triplesOf (d.drop 3)
    if !rest.isEmpty && !(rest.length == 1 && d.length % 2 == 0) then .throw .malformedOption
    else .ok (d.take 3, ts)

/-- `fh_pattern_type::from_option` (minimum size 4) -/
def decodeFhPattern (d : Bytes) : Out (Nat × Nat × Nat × Nat × Bytes) :=
  if d.length < 4 then .throw .malformedOption else .ok (b d 0, b d 1, b d 2, b d 3, d.drop 4)
/-- `channel_switch_type::from_option` -/
def decodeChannelSwitch (d : Bytes) : Out (Nat × Nat × Nat) :=
  if d.length != 3 then .throw .malformedOption else .ok (b d 0, b d 1, b d 2)
/-- `quiet_type::from_option` -/
def decodeQuiet (d : Bytes) : Out (Nat × Nat × Nat × Nat) :=
  if d.length != 6 then .throw .malformedOption else .ok (b d 0, b d 1, leAt d 2 2, leAt d 4 2)
/-- `bss_load_type::from_option` -/
def decodeBssLoad (d : Bytes) : Out (Nat × Nat × Nat) :=
  if d.length != 5 then .throw .malformedOption else .ok (leAt d 0 2, b d 2, leAt d 3 2)
/-- `tim_type::from_option` (at least 4 bytes) -/
def decodeTim (d : Bytes) : Out (Nat × Nat × Nat × Bytes) :=
  if d.length < 4 then .throw .malformedOption else .ok (b d 0, b d 1, b d 2, d.drop 3)
/-- `vendor_specific()`: shorter than the OUI counts as "not there" -/
def decodeVendor (d : Bytes) : Out (Bytes × Bytes) :=
  if d.length < 3 then .throw .optionNotFound else .ok (d.take 3, d.drop 3)

/-- `while (count--) add(stream.read_le<uint32_t>())` -/
def readSuites : Nat → Cursor → Out (List Nat × Cursor)
  | 0, c => pure ([], c)
  | n + 1, c => do
    let (v, c) ← c.readLE 4
    let (vs, c) ← readSuites n c
    pure (v :: vs, c)

/-- `RSNInformation::from_option` + `RSNInformation::init` (note: `can_read(count)` checks the *count*, not
    `4·count` bytes; the reads that follow are bounds-checked themselves) -/
def decodeRsn (d : Bytes) : Out Rsn :=
  if d.length < 8 then .throw .malformedOption
  else do
    let c := Cursor.ofBytes d
    let (ver, c) ← c.readLE 2
    let (grp, c) ← c.readLE 4
    let (np, c) ← c.readLE 2
    if !c.canRead np then .throw .malformedPacket else do
    let (pw, c) ← readSuites np c
    let (na, c) ← c.readLE 2
    if !c.canRead na then .throw .malformedPacket else do
    let (ak, c) ← readSuites na c
    let (caps, _) ← c.readLE 2
    pure ⟨ver, grp, pw, ak, caps⟩

/-! ### canonical text of the typed getters (one entry per getter whose option is present) -/

def us (xs : List Nat) : String := "_".intercalate (xs.map toString)
def pairsStr (ps : List (Nat × Nat)) : String := if ps.isEmpty then "-" else ",".intercalate (ps.map (fun (a, c) => s!"{a}.{c}"))
def listStr (xs : List Nat) : String := if xs.isEmpty then "-" else ",".intercalate (xs.map toString)
def plusStr (xs : List Nat) : String := if xs.isEmpty then "-" else "+".intercalate (xs.map toString)

def excStr (e : Exc) : String := "!" ++ e.name

def showOut {α} (r : Out α) (f : α → String) : String :=
  match r with
  | .ok a => f a
  | .throw e => excStr e
  | .fault s => "!fault:" ++ s

/-- (getter name, option code, text of the decoded value) in the order the harness prints them -/
def typedEntries : List (String × Nat × (Bytes → String)) :=
  [("rsn_information", RSN, fun d => showOut (decodeRsn d) (fun r => s!"{r.version}_{r.group}_{plusStr r.pairwise}_{plusStr r.akm}_{r.caps}")),
   ("ssid", SSID, fun d => hexStr d),
   ("supported_rates", SUPPORTED_RATES, fun d => listStr (decodeRates d)),
   ("extended_supported_rates", EXT_SUPPORTED_RATES, fun d => listStr (decodeRates d)),
   ("qos_capability", QOS_CAPABILITY, fun d => showOut (decodeU8 d) toString),
   ("power_capability", POWER_CAPABILITY, fun d => showOut (decodePair d) (fun (x, y) => us [x, y])),
   ("supported_channels", SUPPORTED_CHANNELS, fun d => showOut (decodePairs d) pairsStr),
   ("request_information", REQUEST_INFORMATION, fun d => hexStr d),
   ("fh_parameter_set", FH_SET, fun d => showOut (decodeFhSet d) (fun (w, x, y, z) => us [w, x, y, z])),
   ("ds_parameter_set", DS_SET, fun d => showOut (decodeU8 d) toString),
   ("cf_parameter_set", CF_SET, fun d => showOut (decodeCfSet d) (fun (w, x, y, z) => us [w, x, y, z])),
   ("ibss_parameter_set", IBSS_SET, fun d => showOut (decodeU16 d) toString),
   ("ibss_dfs", IBSS_DFS, fun d => showOut (decodeIbssDfs d) (fun (o, r, ps) => s!"{hexStr o}_{r}_{pairsStr ps}")),
   ("country", COUNTRY, fun d => showOut (decodeCountry d) (fun (c, ts) =>
      s!"{hexStr c}_" ++ (if ts.isEmpty then "-" else ",".intercalate (ts.map (fun (x, y, z) => s!"{x}.{y}.{z}"))))),
   ("fh_parameters", HOPPING_PATTERN_PARAMS, fun d => showOut (decodePair d) (fun (x, y) => us [x, y])),
   ("fh_pattern_table", HOPPING_PATTERN_TABLE, fun d => showOut (decodeFhPattern d) (fun (w, x, y, z, t) => us [w, x, y, z] ++ "_" ++ hexStr t)),
   ("power_constraint", POWER_CONSTRAINT, fun d => showOut (decodeU8 d) toString),
   ("channel_switch", CHANNEL_SWITCH, fun d => showOut (decodeChannelSwitch d) (fun (x, y, z) => us [x, y, z])),
   ("quiet", QUIET, fun d => showOut (decodeQuiet d) (fun (w, x, y, z) => us [w, x, y, z])),
   ("tpc_report", TPC_REPORT, fun d => showOut (decodePair d) (fun (x, y) => us [x, y])),
   ("erp_information", ERP_INFORMATION, fun d => showOut (decodeU8 d) toString),
   ("bss_load", BSS_LOAD, fun d => showOut (decodeBssLoad d) (fun (x, y, z) => us [x, y, z])),
   ("tim", TIM, fun d => showOut (decodeTim d) (fun (x, y, z, bm) => us [x, y, z] ++ "_" ++ hexStr bm)),
   ("challenge_text", CHALLENGE_TEXT, fun d => hexStr d),
   ("vendor_specific", VENDOR_SPECIFIC, fun d => showOut (decodeVendor d) (fun (o, r) => s!"{hexStr o}_{hexStr r}"))]

def typedStr (os : List Opt) : String :=
  let items := typedEntries.filterMap (fun (name, code, f) =>
    match searchOption os code with
    | none => none
    | some o =>
      let v := f o.data
      if v == "!option_not_found" then none else some s!"{name}:{v}")
  if items.isEmpty then "-" else "|".intercalate items

/-- getter dump of a Dot11 object; management frames also list what their typed option getters return -/
def fieldsWithDecoded (d : Dot11) : Fields :=
  d.fields ++ (if d.lay.tagged then [("typed", typedStr d.opts)] else [])


end Tagged
end Tins.Wire.Wifi
