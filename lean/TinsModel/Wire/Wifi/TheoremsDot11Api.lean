import TinsModel.Wire.Wifi.TheoremsDot11
/-
  The well-formedness invariant of Dot11 objects (raw struct sizes + `options_size_` = wire size of the option list,
  which is what makes `header_size()` exact) holds for every object the public API can produce:
  constructors, every scalar / body setter, `add_tagged_option` (all typed setters), `add_option`, `remove_option`.
-/
namespace Tins.Wire.Wifi
open Tins Tins.Wire

theorem bind_ok_inv {α β} {x : Out α} {f : α → Out β} {b : β} (h : (x >>= f) = .ok b) :
    ∃ a, x = .ok a ∧ f a = .ok b := by
  cases x with
  | ok a => exact ⟨a, rfl, h⟩
  | throw e => simp [bind, Out.bind] at h
  | fault s => simp [bind, Out.bind] at h

namespace Dot11

theorem hexArg_length (s : String) (n : Nat) (a : Bytes) (h : hexArg s n = .ok a) : a.length = n := by
  unfold hexArg at h
  split at h
  · split at h
    · injection h with h; subst h; simp_all
    · cases h
  · cases h

theorem create_WF (cls : String) (lay : Layout) (dst second : Bytes) (h1 : dst.length = 6) (h2 : second.length = 6) :
    (create cls lay dst second).WF ∧ (create cls lay dst second).Fits := by
  refine ⟨⟨?_, ?_, ?_, ?_, ?_⟩, ?_⟩
  · simp [create, mkHdr, h1]
  · simp only [create]
    cases lay.fam <;> simp [Fam.extLen, h2, zeros]
  · simp [create, zeros]
  · simp [create, zeros]
  · simp [create, wireSize]
  · simp [create, Fits, wireSize]

/-- **every public constructor yields a well-formed object** -/
theorem construct_WF (cls : String) (args : List String) (d : Dot11) (h : construct cls args = .ok d) : d.WF ∧ d.Fits := by
  unfold construct at h
  split at h
  · cases h
  · split at h
    · injection h with h; subst h; exact create_WF _ _ _ _ (zeros_length 6) (zeros_length 6)
    · rcases bind_ok_inv h with ⟨x, hx, h⟩
      injection h with h; subst h
      exact create_WF _ _ _ _ (hexArg_length _ _ _ hx) (zeros_length 6)
    · split at h
      · cases h
      · rcases bind_ok_inv h with ⟨x, hx, h⟩
        rcases bind_ok_inv h with ⟨y, hy, h⟩
        injection h with h; subst h
        exact create_WF _ _ _ _ (hexArg_length _ _ _ hx) (hexArg_length _ _ _ hy)
    · cases h

/-- `add_tagged_option` keeps the cached size in step with the list (every typed setter goes through it) -/
theorem addTagged_WF (d : Dot11) (code : Nat) (val : Bytes) (hw : d.WF) : (addTagged d code val).WF := by
  refine ⟨hw.hdr, hw.ext, hw.a4, hw.body, ?_⟩
  simp only [addTagged, wireSize_append, wireSize, List.length_take]
  have := hw.osz
  have hmin : min (val.length % 256) val.length = val.length % 256 := Nat.min_eq_left (Nat.mod_le _ _)
  rw [hmin]
  omega

/-- `add_option` counts `data_size()`, which is what the writer emits -/
theorem addOption_WF (d : Dot11) (o : Opt) (hw : d.WF) : (addOption d o).WF := by
  refine ⟨hw.hdr, hw.ext, hw.a4, hw.body, ?_⟩
  simp only [addOption, wireSize_append, wireSize]
  have := hw.osz
  omega

theorem removeFirst_wire (code : Nat) (os : List Opt) (o : Opt) (rest : List Opt) (h : removeFirst code os = some (o, rest)) :
    wireSize os = wireSize rest + (o.data.length + 2) := by
  induction os generalizing rest with
  | nil => simp [removeFirst] at h
  | cons x xs ih =>
    simp only [removeFirst] at h
    split at h
    · injection h with h; injection h with h1 h2; subst h1; subst h2; simp [wireSize]; omega
    · cases hr : removeFirst code xs with
      | none => simp [hr] at h
      | some p =>
        obtain ⟨y, r⟩ := p
        simp only [hr, Option.map_some] at h
        injection h with h; injection h with h1 h2; subst h1; subst h2
        have := ih r hr
        simp only [wireSize]; omega

/-- `remove_option` subtracts exactly what the removed option contributed -/
theorem removeOption_WF (d : Dot11) (code : Nat) (hw : d.WF) : (removeOption d code).WF := by
  unfold removeOption
  cases hr : removeFirst code d.opts with
  | none => exact hw
  | some p =>
    obtain ⟨o, rest⟩ := p
    refine ⟨hw.hdr, hw.ext, hw.a4, hw.body, ?_⟩
    have h1 := removeFirst_wire code d.opts o rest hr
    have h2 := hw.osz
    simp only
    omega

/-- objects that differ only by same-size replacements of the raw structs -/
def SameShape (d d' : Dot11) : Prop :=
  d'.lay = d.lay ∧ d'.hdr.length = d.hdr.length ∧ (d'.ext.length = d.ext.length ∨ (d.lay.fam = .ta ∧ d'.ext.length = 6))
    ∧ (d'.addr4.length = d.addr4.length ∨ d'.addr4.length = 6) ∧ d'.body.length = d.body.length ∧ d'.opts = d.opts
    ∧ d'.optSize = d.optSize

theorem SameShape.wf {d d' : Dot11} (hs : SameShape d d') (hw : d.WF) : d'.WF := by
  obtain ⟨h1, h2, h3, h4, h5, h6, h7⟩ := hs
  refine ⟨by rw [h2]; exact hw.hdr, ?_, ?_, by rw [h5, h1]; exact hw.body, by rw [h6, h7]; exact hw.osz⟩
  · rcases h3 with h3 | ⟨hf, h3⟩
    · rw [h3, h1]; exact hw.ext
    · rw [h3, h1, hf]; rfl
  · rcases h4 with h4 | h4
    · rw [h4]; exact hw.a4
    · exact h4

theorem sameShape_hdr (d : Dot11) (h : Bytes) (hl : h.length = d.hdr.length) : SameShape d { d with hdr := h } :=
  ⟨rfl, hl, .inl rfl, .inl rfl, rfl, rfl, rfl⟩
theorem sameShape_ext (d : Dot11) (e : Bytes) (hl : e.length = d.ext.length) : SameShape d { d with ext := e } :=
  ⟨rfl, rfl, .inl hl, .inl rfl, rfl, rfl, rfl⟩
theorem sameShape_body (d : Dot11) (b : Bytes) (hl : b.length = d.body.length) : SameShape d { d with body := b } :=
  ⟨rfl, rfl, .inl rfl, .inl rfl, hl, rfl, rfl⟩

/-- **every scalar setter keeps the shape** (bit-fields, duration, addresses, fragment / sequence numbers) -/
theorem applyScalar_shape (d d' : Dot11) (op : List String) (h : applyScalar d op = .ok d') : SameShape d d' := by
  unfold applyScalar at h
  split at h
  all_goals first
    | (rcases bind_ok_inv h with ⟨n, _, h⟩; injection h with h; subst h
       first
         | exact sameShape_hdr _ _ (setBits_length ..)
         | exact sameShape_hdr _ _ (patch_length ..))
    | (split at h
       · rcases bind_ok_inv h with ⟨n, hn, h⟩; injection h with h; subst h
         first
           | exact sameShape_ext _ _ (setBits_length ..)
           | exact sameShape_ext _ _ (patch_length ..)
           | exact ⟨rfl, rfl, .inr ⟨by simp_all, hexArg_length _ _ _ hn⟩, .inl rfl, rfl, rfl, rfl⟩
           | exact ⟨rfl, rfl, .inl rfl, .inr (hexArg_length _ _ _ hn), rfl, rfl, rfl⟩
       · cases h)
    | cases h

/-- **every fixed-parameter setter keeps the shape** (timestamps, intervals, codes, capability bits, block-ack fields) -/
theorem applyBody_shape (d d' : Dot11) (op : List String) (h : applyBody d op = .ok d') : SameShape d d' := by
  unfold applyBody at h
  split at h
  all_goals first
    | (split at h
       · rcases bind_ok_inv h with ⟨n, hn, h⟩; injection h with h; subst h
         first
           | exact sameShape_body _ _ (setBits_length ..)
           | exact sameShape_body _ _ (patch_length ..)
       · cases h)
    | (split at h
       · rcases bind_ok_inv h with ⟨n, hn, h⟩
         rcases bind_ok_inv h with ⟨m, hm, h⟩
         split at h
         · injection h with h; subst h; exact sameShape_body _ _ (setBits_length ..)
         · cases h
       · cases h)
    | cases h

end Dot11

namespace Tagged

/-- **C02 invariant over API histories**: every call the line protocol can make on a Dot11 object — scalar and
    fixed-parameter setters, every typed tagged-option setter, `add_option`, `remove_option` — preserves
    well-formedness, in particular `options_size_` = wire size of `options_` (mod 2³²). -/
theorem apply_WF (d d' : Dot11) (op : List String) (hw : d.WF) (h : apply d op = .ok d') : d'.WF := by
  unfold apply at h
  split at h
  · rename_i x hx
    injection h with h; subst h
    exact (Dot11.applyScalar_shape _ _ _ hx).wf hw
  · cases h
  · split at h
    · rename_i x hx
      injection h with h; subst h
      exact (Dot11.applyBody_shape _ _ _ hx).wf hw
    · cases h
    · split at h
      · rcases bind_ok_inv h with ⟨c, _, h⟩
        rcases bind_ok_inv h with ⟨l, _, h⟩
        rcases bind_ok_inv h with ⟨b, _, h⟩
        injection h with h; subst h
        exact Dot11.addOption_WF _ _ hw
      · rcases bind_ok_inv h with ⟨c, _, h⟩
        injection h with h; subst h
        exact Dot11.removeOption_WF _ _ hw
      · split at h
        · rcases bind_ok_inv h with ⟨cv, _, h⟩
          injection h with h; subst h
          exact Dot11.addTagged_WF _ _ _ hw
        · cases h

end Tagged
end Tins.Wire.Wifi
