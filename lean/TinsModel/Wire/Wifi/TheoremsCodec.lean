import TinsModel.Wire.Wifi.Lemmas
/-
  C04 — typed option codecs of `Dot11ManagementFrame` and `RSNInformation`: for every *representable* argument
  (explicit range hypotheses = what the wire format can carry) the decoder applied to the encoder's bytes returns the
  argument, and the option container hands the getter exactly the bytes the setter stored.
-/
namespace Tins.Wire.Wifi
open Tins Tins.Wire
namespace Tagged

theorem u8_toNat (n : Nat) (h : n < 256) : (u8 n).toNat = n := by
  simp [u8, UInt8.toNat_ofNat']; omega

theorem leAt_le (n v : Nat) (rest : Bytes) (h : v < 256 ^ n) : Dot11.leAt (le n v ++ rest) 0 n = v := by
  unfold Dot11.leAt le
  rw [List.drop_zero, List.take_left' (OutCursor.leBytes_length n v), leNat_leBytes, Nat.mod_eq_of_lt h]

theorem leAt_skip (pre : Bytes) (n v : Nat) (rest : Bytes) (h : v < 256 ^ n) :
    Dot11.leAt (pre ++ (le n v ++ rest)) pre.length n = v := by
  unfold Dot11.leAt
  rw [List.drop_left' rfl]
  exact leAt_le n v rest h

/-- `qos_capability`, `ds_parameter_set`, `power_constraint`, `erp_information` -/
theorem codec_u8 (n : Nat) (h : n < 256) : decodeU8 [u8 n] = .ok n := by
  simp [decodeU8, b, byteAt, u8_toNat n h]

/-- `ibss_parameter_set` -/
theorem codec_u16 (n : Nat) (h : n < 65536) : decodeU16 (le 2 n) = .ok n := by
  have := leAt_le 2 n [] (by simpa using h)
  simp only [List.append_nil] at this
  simp only [le] at this
  simp [decodeU16, le, this]

/-- `power_capability`, `fh_parameters`, `tpc_report` -/
theorem codec_pair (x y : Nat) (hx : x < 256) (hy : y < 256) : decodePair [u8 x, u8 y] = .ok (x, y) := by
  simp [decodePair, b, byteAt, u8_toNat x hx, u8_toNat y hy]

theorem pairsOf_encode (ps : List (Nat × Nat)) (h : ∀ p ∈ ps, p.1 < 256 ∧ p.2 < 256) : pairsOf (encodePairs ps) = ps := by
  induction ps with
  | nil => rfl
  | cons p ps ih =>
    obtain ⟨x, y⟩ := p
    have hp := h (x, y) List.mem_cons_self
    simp only [encodePairs, List.map_cons, List.flatten_cons, List.cons_append, List.nil_append, pairsOf,
      u8_toNat x hp.1, u8_toNat y hp.2]
    congr 1
    exact ih (fun q hq => h q (List.mem_cons_of_mem _ hq))

theorem encodePairs_length (ps : List (Nat × Nat)) : (encodePairs ps).length = 2 * ps.length := by
  induction ps with
  | nil => rfl
  | cons p ps ih => obtain ⟨x, y⟩ := p; simp [encodePairs] at ih ⊢; omega

/-- `supported_channels` -/
theorem codec_pairs (ps : List (Nat × Nat)) (h : ∀ p ∈ ps, p.1 < 256 ∧ p.2 < 256) : decodePairs (encodePairs ps) = .ok ps := by
  simp [decodePairs, encodePairs_length, pairsOf_encode ps h]

/-- `supported_rates`, `extended_supported_rates`: rates below 64 Mbit/s (128 half-units) come back, whether or not the
    encoder marked them as basic rates -/
theorem codec_rates (rs : List Nat) (h : ∀ r ∈ rs, r < 128) : decodeRates (encodeRates rs) = rs := by
  induction rs with
  | nil => rfl
  | cons r rs ih =>
    have hr := h r List.mem_cons_self
    simp only [encodeRates, List.map_cons, decodeRates] at ih ⊢
    rw [ih (fun q hq => h q (List.mem_cons_of_mem _ hq))]
    congr 1
    unfold encodeRate
    have h256 : r % 256 = r := Nat.mod_eq_of_lt (by omega)
    simp only [h256]
    split
    · rename_i hc
      have hcases : ((r = 2 ∨ r = 4) ∨ r = 11) ∨ r = 22 := by simpa using hc
      rcases hcases with ((rfl | rfl) | rfl) | rfl <;> decide
    · rw [u8_toNat _ (by omega)]; omega

theorem le_length (n v : Nat) : (le n v).length = n := OutCursor.leBytes_length n v

theorem leAt_at (pre : Bytes) (k n v : Nat) (rest : Bytes) (hk : pre.length = k) (h : v < 256 ^ n) :
    Dot11.leAt (pre ++ (le n v ++ rest)) k n = v := by
  subst hk; exact leAt_skip pre n v rest h

/-- `fh_parameter_set` -/
theorem codec_fhSet (w x y z : Nat) (hw : w < 65536) (hx : x < 256) (hy : y < 256) (hz : z < 256) :
    decodeFhSet (encodeFhSet w x y z) = .ok (w, x, y, z) := by
  have h1 := leAt_le 2 w [u8 x, u8 y, u8 z] (by simpa using hw)
  simp [decodeFhSet, encodeFhSet, le_length, h1, b, byteAt, le, OutCursor.leBytes, u8_toNat x hx, u8_toNat y hy, u8_toNat z hz] at h1 ⊢

/-- `cf_parameter_set` -/
theorem codec_cfSet (w x y z : Nat) (hw : w < 256) (hx : x < 256) (hy : y < 65536) (hz : z < 65536) :
    decodeCfSet (encodeCfSet w x y z) = .ok (w, x, y, z) := by
  have h1 := leAt_at [u8 w, u8 x] 2 2 y (le 2 z) rfl (by simpa using hy)
  have h2 := leAt_at ([u8 w, u8 x] ++ le 2 y) 4 2 z [] (by simp [le_length]) (by simpa using hz)
  simp only [List.append_nil, List.append_assoc] at h2
  simp [decodeCfSet, encodeCfSet, le_length, b, byteAt, u8_toNat w hw, u8_toNat x hx]
  exact ⟨by simpa using h1, by simpa using h2⟩

/-- `quiet` -/
theorem codec_quiet (w x y z : Nat) (hw : w < 256) (hx : x < 256) (hy : y < 65536) (hz : z < 65536) :
    decodeQuiet (encodeQuiet w x y z) = .ok (w, x, y, z) := by
  have h1 := leAt_at [u8 w, u8 x] 2 2 y (le 2 z) rfl (by simpa using hy)
  have h2 := leAt_at ([u8 w, u8 x] ++ le 2 y) 4 2 z [] (by simp [le_length]) (by simpa using hz)
  simp only [List.append_nil, List.append_assoc] at h2
  simp [decodeQuiet, encodeQuiet, le_length, b, byteAt, u8_toNat w hw, u8_toNat x hx]
  exact ⟨by simpa using h1, by simpa using h2⟩

/-- `bss_load` -/
theorem codec_bssLoad (x y z : Nat) (hx : x < 65536) (hy : y < 256) (hz : z < 65536) :
    decodeBssLoad (encodeBssLoad x y z) = .ok (x, y, z) := by
  have h1 := leAt_le 2 x ([u8 y] ++ le 2 z) (by simpa using hx)
  have h2 := leAt_at (le 2 x ++ [u8 y]) 3 2 z [] (by simp [le_length]) (by simpa using hz)
  simp only [List.append_nil, List.append_assoc] at h2
  have hb : b (le 2 x ++ ([u8 y] ++ le 2 z)) 2 = y := by
    simp [b, byteAt, le, OutCursor.leBytes, u8_toNat y hy]
  simp [decodeBssLoad, encodeBssLoad, le_length]
  exact ⟨by simpa using h1, by simpa using hb, by simpa using h2⟩

/-- `channel_switch` -/
theorem codec_channelSwitch (x y z : Nat) (hx : x < 256) (hy : y < 256) (hz : z < 256) :
    decodeChannelSwitch [u8 x, u8 y, u8 z] = .ok (x, y, z) := by
  simp [decodeChannelSwitch, b, byteAt, u8_toNat x hx, u8_toNat y hy, u8_toNat z hz]

theorem dfsPairs_encode (ps : List (Nat × Nat)) (h : ∀ p ∈ ps, p.1 < 256 ∧ p.2 < 256) : dfsPairs (encodePairs ps) = .ok ps := by
  induction ps with
  | nil => rfl
  | cons p ps ih =>
    obtain ⟨x, y⟩ := p
    have hp := h (x, y) List.mem_cons_self
    have := ih (fun q hq => h q (List.mem_cons_of_mem _ hq))
    simp only [encodePairs, List.map_cons, List.flatten_cons, List.cons_append, List.nil_append, dfsPairs] at this ⊢
    simp [this, bind, Out.bind, u8_toNat x hp.1, u8_toNat y hp.2]

/-- `ibss_dfs`: representable = a 6-byte owner and a non-empty channel map of byte pairs -/
theorem codec_ibssDfs (owner : Bytes) (r : Nat) (ps : List (Nat × Nat)) (ho : owner.length = 6) (hr : r < 256)
    (hne : ps ≠ []) (h : ∀ p ∈ ps, p.1 < 256 ∧ p.2 < 256) :
    decodeIbssDfs (encodeIbssDfs owner r ps) = .ok (owner, r, ps) := by
  have hlen : ¬ (encodeIbssDfs owner r ps).length < 9 := by
    have : 1 ≤ ps.length := List.length_pos_iff.mpr hne
    simp only [encodeIbssDfs, List.length_append, ho, encodePairs_length, List.length_singleton]; omega
  have hd : (encodeIbssDfs owner r ps).drop 7 = encodePairs ps := by
    simp only [encodeIbssDfs, ← List.append_assoc]
    exact List.drop_left' (by simp [ho])
  have ht : (encodeIbssDfs owner r ps).take 6 = owner := by
    simp only [encodeIbssDfs, List.append_assoc]; exact List.take_left' ho
  have hb : b (encodeIbssDfs owner r ps) 6 = r := by
    simp only [b, byteAt, encodeIbssDfs, List.append_assoc]
    rw [List.getD_eq_getElem?_getD, List.getElem?_append_right (by omega)]
    simp [ho, u8_toNat r hr]
  simp only [decodeIbssDfs, hlen, ↓reduceIte, hd, dfsPairs_encode ps h, ht, hb, bind, Out.bind, Out.pure_eq]

theorem triplesOf_encode (ts : List (Nat × Nat × Nat)) (tail : Bytes) (htl : tail.length < 3)
    (h : ∀ t ∈ ts, t.1 < 256 ∧ t.2.1 < 256 ∧ t.2.2 < 256) :
    triplesOf ((ts.map (fun (a, b, c) => [u8 a, u8 b, u8 c])).flatten ++ tail) = (ts, tail) := by
  induction ts with
  | nil =>
    simp only [List.map_nil, List.flatten_nil, List.nil_append]
    match tail, htl with
    | [], _ => rfl
    | [_], _ => rfl
    | [_, _], _ => rfl
  | cons t ts ih =>
    obtain ⟨x, y, z⟩ := t
    have ht := h (x, y, z) List.mem_cons_self
    have := ih (fun q hq => h q (List.mem_cons_of_mem _ hq))
    simp only [List.map_cons, List.flatten_cons, List.cons_append, List.nil_append, triplesOf, this,
      u8_toNat x ht.1, u8_toNat y ht.2.1, u8_toNat z ht.2.2]

/-- `country` (after the padding fix): a 3-byte country string and at least one triplet — any number of triplets,
    padded or not -/
theorem codec_country (cc : Bytes) (ts : List (Nat × Nat × Nat)) (hc : cc.length = 3) (hne : ts ≠ [])
    (h : ∀ t ∈ ts, t.1 < 256 ∧ t.2.1 < 256 ∧ t.2.2 < 256) :
    decodeCountry (encodeCountry cc ts) = .ok (cc, ts) := by
  have hpos : 1 ≤ ts.length := List.length_pos_iff.mpr hne
  have hbl : (cc ++ (ts.map (fun (a, b, c) => [u8 a, u8 b, u8 c])).flatten).length = 3 + 3 * ts.length := by
    rw [List.length_append, hc]
    congr 1
    clear hne h hpos
    induction ts with
    | nil => rfl
    | cons t ts ih => obtain ⟨x, y, z⟩ := t; simp only [List.map_cons, List.flatten_cons, List.length_append, ih]; simp; omega
  unfold encodeCountry
  simp only [hbl]
  by_cases hodd : (3 + 3 * ts.length) % 2 == 1
  · simp only [hodd, ↓reduceIte]
    have hlen : ¬ (cc ++ (ts.map (fun (a, b, c) => [u8 a, u8 b, u8 c])).flatten ++ [0]).length < 6 := by
      simp only [List.length_append, hbl, List.length_singleton]; omega
    have hd : (cc ++ (ts.map (fun (a, b, c) => [u8 a, u8 b, u8 c])).flatten ++ [0]).drop 3
        = (ts.map (fun (a, b, c) => [u8 a, u8 b, u8 c])).flatten ++ [0] := by
      rw [List.append_assoc]; exact List.drop_left' hc
    have ht : (cc ++ (ts.map (fun (a, b, c) => [u8 a, u8 b, u8 c])).flatten ++ [0]).take 3 = cc := by
      rw [List.append_assoc]; exact List.take_left' hc
    have heven : (cc ++ (ts.map (fun (a, b, c) => [u8 a, u8 b, u8 c])).flatten ++ [0]).length % 2 = 0 := by
      simp only [List.length_append, hbl, List.length_singleton]
      simp only [beq_iff_eq] at hodd; omega
    simp only [decodeCountry, hlen, ↓reduceIte, hd, triplesOf_encode ts [0] (by simp) h, ht, heven]
    simp
  · simp only [hodd, Bool.false_eq_true, ↓reduceIte]
    have hlen : ¬ (cc ++ (ts.map (fun (a, b, c) => [u8 a, u8 b, u8 c])).flatten).length < 6 := by
      rw [hbl]; omega
    have hd : (cc ++ (ts.map (fun (a, b, c) => [u8 a, u8 b, u8 c])).flatten).drop 3
        = (ts.map (fun (a, b, c) => [u8 a, u8 b, u8 c])).flatten ++ [] := by
      rw [List.append_nil]; exact List.drop_left' hc
    have ht : (cc ++ (ts.map (fun (a, b, c) => [u8 a, u8 b, u8 c])).flatten).take 3 = cc := List.take_left' hc
    simp only [decodeCountry, hlen, ↓reduceIte, hd, triplesOf_encode ts [] (by simp) h, ht]
    simp

/-- `fh_pattern_table` -/
theorem codec_fhPattern (w x y z : Nat) (t : Bytes) (hw : w < 256) (hx : x < 256) (hy : y < 256) (hz : z < 256) :
    decodeFhPattern (encodeFhPattern w x y z t) = .ok (w, x, y, z, t) := by
  simp [decodeFhPattern, encodeFhPattern, b, byteAt, u8_toNat w hw, u8_toNat x hx, u8_toNat y hy, u8_toNat z hz]

/-- `tim`: representable = a non-empty partial virtual bitmap (the element always carries at least one octet of it) -/
theorem codec_tim (x y z : Nat) (bm : Bytes) (hx : x < 256) (hy : y < 256) (hz : z < 256) (hne : bm ≠ []) :
    decodeTim (encodeTim x y z bm) = .ok (x, y, z, bm) := by
  have : 1 ≤ bm.length := List.length_pos_iff.mpr hne
  have hl : ¬ (encodeTim x y z bm).length < 4 := by simp only [encodeTim, List.length_append, List.length_cons, List.length_nil]; omega
  simp [decodeTim, hl]
  simp [encodeTim, b, byteAt, u8_toNat x hx, u8_toNat y hy, u8_toNat z hz]

/-- `vendor_specific` -/
theorem codec_vendor (oui data : Bytes) (ho : oui.length = 3) : decodeVendor (oui ++ data) = .ok (oui, data) := by
  have hl : ¬ (oui ++ data).length < 3 := by simp only [List.length_append, ho]; omega
  simp only [decodeVendor, hl, ↓reduceIte, List.take_left' ho, List.drop_left' ho]

theorem readLE_ofBytes (n v : Nat) (rest : Bytes) (h : v < 256 ^ n) :
    (Cursor.ofBytes (le n v ++ rest)).readLE n = .ok (v, Cursor.ofBytes rest) := by
  have hl := le_length n v
  have h1 : n ≤ (le n v ++ rest).length := by simp only [List.length_append, hl]; omega
  have h2 : ¬ (le n v ++ rest).length < n := by omega
  simp only [Cursor.readLE, Cursor.read, Cursor.canRead, Cursor.ofBytes, h1, decide_true, Bool.not_true, Bool.false_eq_true,
    ↓reduceIte, h2, bind, Out.bind, Out.pure_eq, List.take_left' hl, List.drop_left' hl]
  have : Cursor.leNat (le n v) = v := by unfold le; rw [leNat_leBytes, Nat.mod_eq_of_lt h]
  have hsz : (le n v ++ rest).length - n = rest.length := by simp only [List.length_append, hl]; omega
  rw [this, hsz]

theorem readSuites_encode (ks : List Nat) (rest : Bytes) (h : ∀ k ∈ ks, k < 4294967296) :
    readSuites ks.length (Cursor.ofBytes ((ks.map (le 4)).flatten ++ rest)) = .ok (ks, Cursor.ofBytes rest) := by
  induction ks with
  | nil => rfl
  | cons k ks ih =>
    have hk := h k List.mem_cons_self
    simp only [List.map_cons, List.flatten_cons, List.append_assoc, List.length_cons, readSuites]
    rw [readLE_ofBytes 4 k _ (by simpa using hk)]
    simp only [bind, Out.bind, ih (fun q hq => h q (List.mem_cons_of_mem _ hq)), Out.pure_eq]

/-- what an RSN information element can carry -/
structure RsnRepr (r : Rsn) : Prop where
  version : r.version < 65536
  group : r.group < 4294967296
  pairwise : ∀ k ∈ r.pairwise, k < 4294967296
  akm : ∀ k ∈ r.akm, k < 4294967296
  npairwise : r.pairwise.length < 65536
  nakm : r.akm.length < 65536
  caps : r.caps < 65536

/-- **`RSNInformation`**: `RSNInformation::from_option(serialize(r)) = r` for every representable `r` -/
theorem codec_rsn (r : Rsn) (hr : RsnRepr r) : decodeRsn (encodeRsn r) = .ok r := by
  have hlen : ¬ (encodeRsn r).length < 8 := by
    simp only [encodeRsn, List.length_append, le_length]; omega
  simp only [decodeRsn, hlen, ↓reduceIte]
  simp only [encodeRsn, List.append_assoc]
  rw [readLE_ofBytes 2 r.version _ (by simpa using hr.version)]
  simp only [bind, Out.bind]
  rw [readLE_ofBytes 4 r.group _ (by simpa using hr.group)]
  simp only []
  rw [readLE_ofBytes 2 r.pairwise.length _ (by simpa using hr.npairwise)]
  simp only []
  have hcan1 : (Cursor.ofBytes ((r.pairwise.map (le 4)).flatten ++ (le 2 r.akm.length ++ ((r.akm.map (le 4)).flatten ++ le 2 r.caps)))).canRead
      r.pairwise.length = true := by
    have hfl : ((r.pairwise.map (le 4)).flatten).length = 4 * r.pairwise.length := by
      generalize r.pairwise = l
      induction l with
      | nil => rfl
      | cons x xs ih => simp only [List.map_cons, List.flatten_cons, List.length_append, le_length, ih, List.length_cons]; omega
    simp only [Cursor.canRead, Cursor.ofBytes, List.length_append, hfl, decide_eq_true_eq]; omega
  simp only [hcan1, Bool.not_true, Bool.false_eq_true, ↓reduceIte]
  rw [readSuites_encode r.pairwise _ hr.pairwise]
  simp only []
  rw [readLE_ofBytes 2 r.akm.length _ (by simpa using hr.nakm)]
  simp only []
  have hcan2 : (Cursor.ofBytes ((r.akm.map (le 4)).flatten ++ le 2 r.caps)).canRead r.akm.length = true := by
    have hfl : ((r.akm.map (le 4)).flatten).length = 4 * r.akm.length := by
      generalize r.akm = l
      induction l with
      | nil => rfl
      | cons x xs ih => simp only [List.map_cons, List.flatten_cons, List.length_append, le_length, ih, List.length_cons]; omega
    simp only [Cursor.canRead, Cursor.ofBytes, List.length_append, hfl, decide_eq_true_eq]; omega
  simp only [hcan2, Bool.not_true, Bool.false_eq_true, ↓reduceIte]
  rw [readSuites_encode r.akm _ hr.akm]
  simp only []
  have := readLE_ofBytes 2 r.caps [] (by simpa using hr.caps)
  simp only [List.append_nil] at this
  rw [this]
  rfl

/-! ### through the option container -/

/-- `add_tagged_option` followed by `search_option` on a frame that has no option of that code yet returns exactly the
    bytes the setter built (any value of at most 255 bytes — the one-byte length field) -/
theorem container_roundtrip (d : Dot11) (code : Nat) (val : Bytes) (hl : val.length < 256)
    (hfresh : ∀ o ∈ d.opts, (o.code == code) = false) :
    searchOption (Dot11.addTagged d code val).opts code = some ⟨code, val.length, val⟩ := by
  have hmod : val.length % 256 = val.length := Nat.mod_eq_of_lt hl
  simp only [searchOption, Dot11.addTagged, hmod, List.take_length, List.find?_append]
  have : d.opts.find? (fun o => o.code == code) = none := by
    rw [List.find?_eq_none]; intro o ho; simp [hfresh o ho]
  simp [this]

/-- a value longer than the length field can describe is not representable: the setter silently keeps `len mod 256`
    bytes of it (here 257 ↦ 1) -/
theorem container_truncates (d : Dot11) (code : Nat) (val : Bytes) (hl : val.length = 257) :
    ∃ x, (Dot11.addTagged d code val).opts = d.opts ++ [⟨code, 1, [x]⟩] := by
  match val, hl with
  | x :: t, hl =>
    have h1 : (t.length + 1) % 256 = 1 := by simp only [List.length_cons] at hl; omega
    exact ⟨x, by simp [Dot11.addTagged, h1]⟩

/-! ### the representability hypotheses are needed: each excluded point, executed (and replayed on the real code by the
    C04 generators' complement — libtins accepts these arguments and cannot read them back) -/

/-- a TIM element built with an empty partial virtual bitmap is rejected by its own getter -/
theorem codec_tim_empty_fails : decodeTim (encodeTim 1 2 3 []) = .throw .malformedOption := by rfl
/-- an IBSS DFS element built with an empty channel map is rejected by its own getter -/
theorem codec_ibssDfs_empty_fails : decodeIbssDfs (encodeIbssDfs [1, 2, 3, 4, 5, 6] 7 []) = .throw .malformedOption := by rfl
/-- a Country element built with no triplet is rejected by its own getter -/
theorem codec_country_empty_fails : decodeCountry (encodeCountry [85, 83, 32] []) = .throw .malformedOption := by rfl
/-- a rate of 64 Mbit/s or more (here 100 Mbit/s = 200 half-units) does not survive: bit 7 is the "basic rate" flag -/
theorem codec_rates_high_fails : decodeRates (encodeRates [200]) = [72] := by decide

/-! non-vacuity of the codec theorems -/
example : decodeCountry (encodeCountry [85, 83, 32] [(1, 11, 30), (36, 4, 23)]) = .ok ([85, 83, 32], [(1, 11, 30), (36, 4, 23)]) := by rfl
example : decodeRsn (encodeRsn ⟨1, 0x04ac0f00, [0x04ac0f00, 0x02ac0f00], [0x02ac0f00], 12⟩)
    = .ok ⟨1, 0x04ac0f00, [0x04ac0f00, 0x02ac0f00], [0x02ac0f00], 12⟩ := by rfl

end Tagged
end Tins.Wire.Wifi
