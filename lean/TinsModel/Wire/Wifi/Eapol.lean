import TinsModel.Wire.Wifi.Dot11
import TinsModel.Wire.Checksum
/-
  `Tins::EAPOL`, `RC4EAPOL`, `RSNEAPOL` (src/eapol.cpp): parsing constructors, `EAPOL::from_bytes`, `header_size`,
  `write_serialization` / `write_body`, setters.  Like the C++, an object is the raw `eapol_header` (5 bytes), the raw
  `rc4_eapol_header` (43 bytes) / `rsn_eapol_header` (94 bytes) and the key vector.
-/
namespace Tins.Wire.Wifi

structure Eapol where
  rsn : Bool           -- false: RC4EAPOL, true: RSNEAPOL
  hdr : Bytes          -- `eapol_header`: version, packet_type, length (BE), type
  sub : Bytes          -- `rc4_eapol_header` / `rsn_eapol_header`
  key : Bytes          -- `key_`
deriving Repr, DecidableEq

namespace Eapol
open Dot11 (leAt hexAt patch setBits num hexArg hexAny)

def subLen (rsn : Bool) : Nat := if rsn then 94 else 43
/-- offset of the big-endian 16-bit field that says how many key bytes follow: `key_length` (RC4) / `wpa_length` (RSN) -/
def keyLenOff (rsn : Bool) : Nat := if rsn then 92 else 0

def beAt (bs : Bytes) (i n : Nat) : Nat := Cursor.beNat ((bs.drop i).take n)

/-- `RC4EAPOL::RC4EAPOL(buffer, total_sz)` / `RSNEAPOL::RSNEAPOL(buffer, total_sz)` -/
def parse (rsn : Bool) (b : Bytes) : Out (Eapol × Inner) := do
  -- EAPOL::EAPOL(buffer, total_sz): stream.read(header_)
  let c := Cursor.ofBytes b
  let (hdr, _) ← c.read 5
  -- derived constructor: fresh stream, skip(sizeof(eapol_header)), read(header_)
  let c := Cursor.ofBytes b
  let c ← c.skip 5
  let (sub, c) ← c.read (subLen rsn)
  let klen := beAt sub (keyLenOff rsn) 2
  if c.size ≥ klen then do
    let (key, c) ← c.read klen
    if c.toBool then do
      let rest ← Cursor.rest "EAPOL RawPDU" c
      pure (⟨rsn, hdr, sub, key⟩, .raw rest)
    else pure (⟨rsn, hdr, sub, key⟩, .none)
  else pure (⟨rsn, hdr, sub, []⟩, .none)

/-- outcome of `EAPOL::from_bytes`: `none` = the function returns a null pointer (unknown key descriptor type) -/
def fromBytes (b : Bytes) : Out (Option (Eapol × Inner)) :=
  if b.length < 5 then .throw .malformedPacket
  else do
    -- `const eapol_header* ptr = (const eapol_header*)buffer; ptr->length; ptr->type`
    let h ← rdN "EAPOL::from_bytes ptr->length/type" b 0 5
    let dataLen := beAt h 2 2 + 4
    let total := if b.length < dataLen then b.length else dataLen
    let ty := byteAt h 4
    if ty == 1 then (parse false (b.take total)) >>= fun r => pure (some r)          -- RC4
    else if ty == 2 || ty == 254 then (parse true (b.take total)) >>= fun r => pure (some r)   -- RSN, EAPOL_WPA
    else pure none

def hdrSize (e : Eapol) : Nat := 5 + subLen e.rsn + e.key.length

/-- the header modifications `write_body` performs before writing (`header_` is updated in place) -/
def subForWrite (e : Eapol) : Bytes :=
  if e.key.length == 0 then e.sub
  else if !e.rsn then patch e.sub 0 (OutCursor.beBytes 2 e.key.length)        -- RC4: key_length = key_.size()
  else patch e.sub 92 (OutCursor.beBytes 2 e.key.length)                        -- RSN: wpa_length = key_.size()

/-- `EAPOL::write_serialization`: `length(total_sz - 4)`, `stream.write(header_)`, a redundant raw
    `memcpy(buffer, &header_, 5)`, then `write_body(stream)` -/
def write (e : Eapol) (region : Bytes) : Out Bytes := do
  let hdr := patch e.hdr 2 (OutCursor.beBytes 2 ((region.length + 4294967296 - 4) % 4294967296))
  -- stream.write(header_); write_body: stream.write(header_); stream.write(key_.begin(), key_.end())
  let o ← Dot11.writeAll (OutCursor.ofRegion region) [hdr, subForWrite e, e.key]
  -- the memcpy happens right after the first stream.write; it stores the same 5 bytes again
  poke "EAPOL::write_serialization memcpy" o.buffer 0 hdr

def commonFields (h : Bytes) : Fields :=
  [("version", toString (byteAt h 0)), ("packet_type", toString (byteAt h 1)), ("~length", toString (beAt h 2 2)),
   ("type", toString (byteAt h 4))]

def fields (e : Eapol) : Fields :=
  let s := e.sub
  commonFields e.hdr ++
  (if e.rsn then
    let b0 := byteAt s 0
    let b1 := byteAt s 1
    [("key_mic", toString (b0 % 2)), ("secure", toString (b0 / 2 % 2)), ("error", toString (b0 / 4 % 2)),
     ("request", toString (b0 / 8 % 2)), ("encrypted", toString (b0 / 16 % 2)),
     ("key_descriptor", toString (b1 % 8)), ("key_t", toString (b1 / 8 % 2)), ("key_index", toString (b1 / 16 % 4)),
     ("install", toString (b1 / 64 % 2)), ("key_ack", toString (b1 / 128 % 2)),
     ("key_length", toString (beAt s 2 2)), ("replay_counter", toString (beAt s 4 8)),
     ("nonce", hexAt s 12 32), ("key_iv", hexAt s 44 16), ("rsc", hexAt s 60 8), ("id", hexAt s 68 8),
     ("mic", hexAt s 76 16), ("~wpa_length", toString (beAt s 92 2)), ("key", hexStr e.key)]
   else
    [("~key_length", toString (beAt s 0 2)), ("replay_counter", toString (beAt s 2 8)), ("key_iv", hexAt s 10 16),
     ("key_flag", toString (byteAt s 26 / 128)), ("key_index", toString (byteAt s 26 % 128)),
     ("key_sign", hexAt s 27 16), ("key", hexStr e.key)])

/-- `RC4EAPOL()` / `RSNEAPOL()`: `EAPOL(0x03, RC4|RSN)` then `memset(&header_, 0, …)` -/
def create (rsn : Bool) : Eapol :=
  ⟨rsn, [1, 3, 0, 0, if rsn then 2 else 1], zeros (subLen rsn), []⟩

def bit01 (n : Nat) : Nat := if n != 0 then 1 else 0

def apply (e : Eapol) : List String → Out Eapol
  | ["version", v] => do let n ← num v; pure { e with hdr := patch e.hdr 0 [UInt8.ofNat (n % 256)] }
  | ["packet_type", v] => do let n ← num v; pure { e with hdr := patch e.hdr 1 [UInt8.ofNat (n % 256)] }
  | ["length", v] => do let n ← num v; pure { e with hdr := patch e.hdr 2 (OutCursor.beBytes 2 n) }
  | ["type", v] => do let n ← num v; pure { e with hdr := patch e.hdr 4 [UInt8.ofNat (n % 256)] }
  | ["key", v] => do let k ← hexAny v; pure { e with key := k }
  | [name, v] =>
    if e.rsn then
      if name == "key_mic" then do let n ← num v; pure { e with sub := setBits e.sub 0 1 0 1 n }
      else if name == "secure" then do let n ← num v; pure { e with sub := setBits e.sub 0 1 1 1 n }
      else if name == "error" then do let n ← num v; pure { e with sub := setBits e.sub 0 1 2 1 n }
      else if name == "request" then do let n ← num v; pure { e with sub := setBits e.sub 0 1 3 1 n }
      else if name == "encrypted" then do let n ← num v; pure { e with sub := setBits e.sub 0 1 4 1 n }
      else if name == "key_descriptor" then do let n ← num v; pure { e with sub := setBits e.sub 1 1 0 3 n }
      else if name == "key_t" then do let n ← num v; pure { e with sub := setBits e.sub 1 1 3 1 n }
      else if name == "key_index" then do let n ← num v; pure { e with sub := setBits e.sub 1 1 4 2 n }
      else if name == "install" then do let n ← num v; pure { e with sub := setBits e.sub 1 1 6 1 n }
      else if name == "key_ack" then do let n ← num v; pure { e with sub := setBits e.sub 1 1 7 1 n }
      else if name == "key_length" then do let n ← num v; pure { e with sub := patch e.sub 2 (OutCursor.beBytes 2 n) }
      else if name == "replay_counter" then do let n ← num v; pure { e with sub := patch e.sub 4 (OutCursor.beBytes 8 n) }
      else if name == "nonce" then do let a ← hexArg v 32; pure { e with sub := patch e.sub 12 a }
      else if name == "key_iv" then do let a ← hexArg v 16; pure { e with sub := patch e.sub 44 a }
      else if name == "rsc" then do let a ← hexArg v 8; pure { e with sub := patch e.sub 60 a }
      else if name == "id" then do let a ← hexArg v 8; pure { e with sub := patch e.sub 68 a }
      else if name == "mic" then do let a ← hexArg v 16; pure { e with sub := patch e.sub 76 a }
      else if name == "wpa_length" then do let n ← num v; pure { e with sub := patch e.sub 92 (OutCursor.beBytes 2 n) }
      else .throw .stdOther
    else
      if name == "key_length" then do let n ← num v; pure { e with sub := patch e.sub 0 (OutCursor.beBytes 2 n) }
      else if name == "replay_counter" then do let n ← num v; pure { e with sub := patch e.sub 2 (OutCursor.beBytes 8 n) }
      else if name == "key_iv" then do let a ← hexArg v 16; pure { e with sub := patch e.sub 10 a }
      else if name == "key_flag" then do let n ← num v; pure { e with sub := setBits e.sub 26 1 7 1 n }
      else if name == "key_index" then do let n ← num v; pure { e with sub := setBits e.sub 26 1 0 7 n }
      else if name == "key_sign" then do let a ← hexArg v 16; pure { e with sub := patch e.sub 27 a }
      else .throw .stdOther
  | _ => .throw .stdOther

end Eapol
end Tins.Wire.Wifi
