import TinsModel.Wire.Wifi.TheoremsEapol
import TinsModel.Wire.Wifi.TheoremsDot11Api
/-
  RC4EAPOL / RSNEAPOL / `EAPOL::from_bytes`, the pieces the family-level theorems need beyond `TheoremsEapol`:
  the constructors and every setter keep the raw structs at their C++ sizes; what `from_bytes` returns comes from one of
  the two parsing constructors, on at least the 5 bytes its length check demands; `Dot11::from_bytes` likewise.
-/
namespace Tins.Wire.Wifi
open Tins Tins.Wire

namespace Eapol

theorem WF.with_hdr {e : Eapol} (hw : e.WF) (h : Bytes) (hl : h.length = e.hdr.length) : ({ e with hdr := h } : Eapol).WF :=
  ⟨by simp only; rw [hl]; exact hw.hdr, hw.sub⟩

theorem WF.with_sub {e : Eapol} (hw : e.WF) (s : Bytes) (hl : s.length = e.sub.length) : ({ e with sub := s } : Eapol).WF :=
  ⟨hw.hdr, by simp only; rw [hl]; exact hw.sub⟩

theorem WF.with_key {e : Eapol} (hw : e.WF) (k : Bytes) : ({ e with key := k } : Eapol).WF := ⟨hw.hdr, hw.sub⟩

/-- `RC4EAPOL()` / `RSNEAPOL()` -/
theorem create_WF (rsn : Bool) : (create rsn).WF := by
  refine ⟨?_, ?_⟩
  · simp [create]
  · simp [create, zeros]

/-- every successful outcome is well-formed -/
def KeepsWF (x : Out Eapol) : Prop := ∀ e', x = .ok e' → e'.WF

theorem KeepsWF.throw (x : Exc) : KeepsWF (Out.throw x) := fun _ h => by cases h

theorem KeepsWF.pure {e : Eapol} (hw : e.WF) : KeepsWF (pure e) := fun _ h => by
  injection h with h; subst h; exact hw

theorem KeepsWF.ite {c : Prop} [Decidable c] {x y : Out Eapol} (hx : KeepsWF x) (hy : KeepsWF y) :
    KeepsWF (if c then x else y) := by
  split
  · exact hx
  · exact hy

theorem KeepsWF.bind {α} {x : Out α} {f : α → Out Eapol} (hf : ∀ a, KeepsWF (f a)) : KeepsWF (x >>= f) := by
  intro e' h
  rcases bind_ok_inv h with ⟨a, _, h⟩
  exact hf a e' h

/-- **every RC4EAPOL / RSNEAPOL setter keeps the raw structs at their sizes** -/
theorem apply_keepsWF (e : Eapol) (op : List String) (hw : e.WF) : KeepsWF (apply e op) := by
  unfold apply
  split
  all_goals
    repeat' first
      | with_reducible exact KeepsWF.throw _
      | with_reducible apply KeepsWF.ite
      | (with_reducible apply KeepsWF.bind; intro n)
      | (with_reducible apply KeepsWF.pure
         first
           | exact hw.with_hdr _ (Dot11.patch_length ..)
           | exact hw.with_key _
           | exact hw.with_sub _ (Dot11.patch_length ..)
           | exact hw.with_sub _ (Dot11.setBits_length ..))

theorem apply_WF (e e' : Eapol) (op : List String) (hw : e.WF) (h : apply e op = .ok e') : e'.WF :=
  apply_keepsWF e op hw e' h

/-- what `EAPOL::from_bytes` returns was built by one of the two parsing constructors on a prefix of the buffer; in
    every non-throwing case (the null pointer included) the buffer has the 5 bytes of the common header -/
theorem fromBytes_ok (b : Bytes) (r : Option (Eapol × Inner)) (h : fromBytes b = .ok r) :
    5 ≤ b.length ∧ ∀ e i, r = some (e, i) → ∃ rsn n, parse rsn (b.take n) = .ok (e, i) := by
  unfold fromBytes at h
  by_cases hl : b.length < 5
  · simp [hl] at h
  · simp only [hl, ↓reduceIte] at h
    refine ⟨by omega, ?_⟩
    have h5 : 0 + 5 ≤ b.length := by omega
    simp only [rdN, h5, ↓reduceIte, Out.bind_ok] at h
    intro e i hr
    subst hr
    split at h
    · rcases bind_ok_inv h with ⟨a, hp, h⟩
      simp only [pure] at h; injection h with h; injection h with h; subst h
      exact ⟨false, _, hp⟩
    · split at h
      · rcases bind_ok_inv h with ⟨a, hp, h⟩
        simp only [pure] at h; injection h with h; injection h with h; subst h
        exact ⟨true, _, hp⟩
      · simp only [pure] at h; injection h with h; cases h

/-- the parsing constructors never build an inner class: key material, then a RawPDU -/
theorem parse_no_cls (rsn : Bool) (b : Bytes) (e : Eapol) (name : String) (pb : Bytes) (fb : Bool) :
    parse rsn b ≠ .ok (e, .cls name pb fb) := by
  intro h
  rcases parse_spec rsn b with ⟨e', i', he, _, _, _, hi⟩ | he
  · rw [h] at he; injection he with he; injection he with _ e2; subst e2; exact hi
  · rw [h] at he; cases he

end Eapol

namespace Dot11

/-- what `Dot11::from_bytes` returns was built by the parsing constructor of a class of the family on the same bytes -/
theorem fromBytes_ok (b : Bytes) (r : Dot11 × Inner) (h : fromBytes b = .ok r) :
    ∃ cls lay, parseWith cls lay b = .ok r := by
  unfold fromBytes at h
  by_cases hl : b.length < 2
  · simp [hl] at h
  · simp only [hl, ↓reduceIte] at h
    have h2 : 0 + 2 ≤ b.length := by omega
    simp only [rdN, h2, ↓reduceIte, bind, Out.bind] at h
    rcases dispatch_known (byteAt (List.take 2 (List.drop 0 b)) 0) with ⟨lay, hlay⟩
    simp only [parse, hlay] at h
    exact ⟨_, lay, h⟩

end Dot11
end Tins.Wire.Wifi
