import TinsModel.Wire.Iface
/-
  `Tins::Dot11` and all its subclasses (src/dot11/*.cpp): parsing constructors, `Dot11::from_bytes`,
  `header_size`, `write_serialization`, scalar setters, tagged options.

  The C++ classes keep the wire structs raw (`dot11_header header_`, `dot11_extended_header ext_header_`,
  `body_` …) and decode them in the getters; the model does the same: an object is the raw bytes of those
  structs, the getters (`fields`) decode them, the setters patch them.
-/
namespace Tins.Wire.Wifi

/-- `PDUOption<uint8_t, Dot11>`: option code, advertised length (`size_`), stored data (`real_size_` bytes) -/
structure Opt where
  code : Nat
  lenField : Nat
  data : Bytes
deriving Repr, DecidableEq

/-- which chain of base-class constructors a class runs after `Dot11::Dot11(buffer, total_sz)` -/
inductive Fam
  | plain     -- Dot11, Dot11Control, Dot11Ack
  | ta        -- Dot11ControlTA and below: 6-byte target address
  | mgmt      -- Dot11ManagementFrame and below: addr2, addr3, frag_seq [, addr4]
  | data      -- Dot11Data / Dot11QoSData: addr2, addr3, frag_seq [, addr4]
deriving Repr, DecidableEq

structure Layout where
  fam : Fam
  body : List Nat      -- sizes of the successive `stream.read(...)` calls of the most derived constructor
  tagged : Bool        -- `parse_tagged_parameters(stream)`
  payload : Bool       -- data frames: RawPDU / SNAP inner PDU
deriving Repr, DecidableEq

/-- layout of every class of the family (class name = C++ class name) -/
def layoutOf (cls : String) : Option Layout :=
  if cls == "Dot11" || cls == "Dot11Control" || cls == "Dot11Ack" then some ⟨.plain, [], false, false⟩
  else if cls == "Dot11RTS" || cls == "Dot11PSPoll" || cls == "Dot11CFEnd" || cls == "Dot11EndCFAck" then
    some ⟨.ta, [], false, false⟩
  else if cls == "Dot11BlockAckRequest" then some ⟨.ta, [2, 2], false, false⟩
  else if cls == "Dot11BlockAck" then some ⟨.ta, [2, 2, 8], false, false⟩
  else if cls == "Dot11Data" then some ⟨.data, [], false, true⟩
  else if cls == "Dot11QoSData" then some ⟨.data, [2], false, true⟩
  else if cls == "Dot11Beacon" || cls == "Dot11ProbeResponse" then some ⟨.mgmt, [12], true, false⟩
  else if cls == "Dot11ProbeRequest" then some ⟨.mgmt, [], true, false⟩
  else if cls == "Dot11Disassoc" || cls == "Dot11Deauthentication" then some ⟨.mgmt, [2], true, false⟩
  else if cls == "Dot11AssocRequest" then some ⟨.mgmt, [4], true, false⟩
  else if cls == "Dot11AssocResponse" || cls == "Dot11ReAssocResponse" || cls == "Dot11Authentication" then
    some ⟨.mgmt, [6], true, false⟩
  else if cls == "Dot11ReAssocRequest" then some ⟨.mgmt, [10], true, false⟩
  else none

def dot11Classes : List String :=
  ["Dot11", "Dot11Control", "Dot11Ack", "Dot11RTS", "Dot11PSPoll", "Dot11CFEnd", "Dot11EndCFAck",
   "Dot11BlockAckRequest", "Dot11BlockAck", "Dot11Data", "Dot11QoSData", "Dot11Beacon", "Dot11ProbeResponse",
   "Dot11ProbeRequest", "Dot11Disassoc", "Dot11Deauthentication", "Dot11AssocRequest", "Dot11AssocResponse",
   "Dot11ReAssocResponse", "Dot11Authentication", "Dot11ReAssocRequest"]

/-- size of the extension header of a family (`sizeof(ext_header_)` / `taddr_.size()`) -/
def Fam.extLen : Fam → Nat
  | .plain => 0 | .ta => 6 | .mgmt => 14 | .data => 14

structure Dot11 where
  cls : String
  lay : Layout
  hdr : Bytes          -- `dot11_header header_` (10 bytes: frame control, duration, addr1)
  ext : Bytes          -- `ext_header_` (14) / `taddr_` (6) / nothing
  addr4 : Bytes        -- `addr4_` (6 bytes; on the wire only when to_ds and from_ds)
  body : Bytes         -- fixed parameters of the most derived class (`body_`, `qos_control_`, BAR/BA fields)
  opts : List Opt      -- `options_`
  optSize : Nat        -- `options_size_`
deriving Repr, DecidableEq

def zeros (n : Nat) : Bytes := List.replicate n 0

def byteAt (bs : Bytes) (i : Nat) : Nat := (bs.getD i 0).toNat

/-- `header_.control.to_ds && header_.control.from_ds` -/
def bothDS (hdr : Bytes) : Bool := byteAt hdr 1 % 4 == 3

namespace Dot11

/-- `Dot11::Dot11(const uint8_t* buffer, uint32_t total_sz)` -/
def parseBase (b : Bytes) : Out Bytes := do
  let c := Cursor.ofBytes b
  let (h, _) ← c.read 10
  pure h

/-- the base-class constructors between `Dot11` and the most derived class; returns (ext header, addr4, number of
    bytes consumed so far = `controlta_size()` / `management_frame_size()` / `Dot11Data::init`'s offset) -/
def parseExt (fam : Fam) (b : Bytes) (hdr : Bytes) : Out (Bytes × Bytes × Nat) :=
  match fam with
  | .plain => pure ([], zeros 6, 10)
  | .ta => do
    -- Dot11ControlTA: stream.skip(sizeof(dot11_header)); stream.read(taddr_)
    let c := Cursor.ofBytes b
    let c ← c.skip 10
    let (ta, _) ← c.read 6
    pure (ta, zeros 6, 16)
  | .mgmt | .data => do
    -- Dot11ManagementFrame / Dot11Data::init: skip the 10-byte header, read ext_header_, then addr4_ if both DS bits
    let c := Cursor.ofBytes b
    let c ← c.skip 10
    let (ext, c) ← c.read 14
    if bothDS hdr then
      let (a4, _) ← c.read 6
      pure (ext, a4, 30)
    else pure (ext, zeros 6, 24)

/-- successive `stream.read(field)` calls -/
def readChunks : Cursor → List Nat → Out (Bytes × Cursor)
  | c, [] => pure ([], c)
  | c, n :: ns => do
    let (x, c) ← c.read n
    let (xs, c) ← readChunks c ns
    pure (x ++ xs, c)

/-- `Dot11::parse_tagged_parameters` (the `while (stream.size() >= 2)` loop; `fuel` ≥ number of iterations) -/
def taggedLoop : Nat → Cursor → List Opt → Nat → Out (List Opt × Nat)
  | 0, _, _, _ => .fault "parse_tagged_parameters: out of fuel"
  | fuel + 1, c, acc, sz =>
    if c.size ≥ 2 then do
      let (code, c) ← c.readU8
      let (len, c) ← c.readU8
      if !c.canRead len then .throw .malformedPacket
      else do
        -- add_tagged_option(opcode, length, stream.pointer()): option(opt, val, val + len) copies through the raw pointer
        let data ← c.peek "Dot11::add_tagged_option" 0 len
        let c ← c.skip len
        taggedLoop fuel c (acc ++ [⟨code, len, data⟩]) ((sz + len + 2) % 4294967296)
    else pure (acc, sz)

def parseTagged (c : Cursor) : Out (List Opt × Nat) :=
  if c.toBool then taggedLoop (c.size / 2 + 1) c [] 0 else pure ([], 0)

/-- only the management subclasses call `parse_tagged_parameters` -/
def parseOpts (tagged : Bool) (c : Cursor) : Out (List Opt × Nat) :=
  if tagged then parseTagged c else pure ([], 0)

/-- the parsing constructor of class `cls` -/
def parseWith (cls : String) (lay : Layout) (b : Bytes) : Out (Dot11 × Inner) := do
  let hdr ← parseBase b
  let (ext, a4, off) ← parseExt lay.fam b hdr
  -- the most derived constructor opens a fresh stream and skips what its bases consumed
  let c := Cursor.ofBytes b
  let c ← c.skip off
  let (body, c) ← readChunks c lay.body
  let (opts, osz) ← parseOpts lay.tagged c
  let d : Dot11 := ⟨cls, lay, hdr, ext, a4, body, opts, osz⟩
  if lay.payload then
    if c.toBool then do
      let rest ← Cursor.rest "Dot11Data inner" c
      -- `if (wep()) RawPDU else SNAP` (no try/catch around `new SNAP`)
      if byteAt hdr 1 / 64 % 2 == 1 then pure (d, .raw rest) else pure (d, .cls "SNAP" rest false)
    else pure (d, .none)
  else pure (d, .none)

def parse (cls : String) (b : Bytes) : Out (Dot11 × Inner) :=
  match layoutOf cls with
  | some lay => parseWith cls lay b
  | none => .throw .stdOther

/-- class chosen by `Dot11::from_bytes` from the first frame-control octet -/
def dispatch (fc0 : Nat) : String :=
  let type := fc0 / 4 % 4
  let sub := fc0 / 16 % 16
  if type == 0 then
    if sub == 8 then "Dot11Beacon" else if sub == 10 then "Dot11Disassoc" else if sub == 0 then "Dot11AssocRequest"
    else if sub == 1 then "Dot11AssocResponse" else if sub == 2 then "Dot11ReAssocRequest"
    else if sub == 3 then "Dot11ReAssocResponse" else if sub == 11 then "Dot11Authentication"
    else if sub == 12 then "Dot11Deauthentication" else if sub == 4 then "Dot11ProbeRequest"
    else if sub == 5 then "Dot11ProbeResponse" else "Dot11"
  else if type == 2 then (if sub ≤ 4 then "Dot11Data" else "Dot11QoSData")
  else if type == 1 then
    if sub == 13 then "Dot11Ack" else if sub == 14 then "Dot11CFEnd" else if sub == 15 then "Dot11EndCFAck"
    else if sub == 10 then "Dot11PSPoll" else if sub == 11 then "Dot11RTS" else if sub == 9 then "Dot11BlockAck"
    else if sub == 8 then "Dot11BlockAckRequest" else "Dot11"
  else "Dot11"

/-- `Dot11::from_bytes(buffer, total_sz)` -/
def fromBytes (b : Bytes) : Out (Dot11 × Inner) :=
  if b.length < 2 then .throw .malformedPacket
  else do
    -- `const dot11_header* hdr = (const dot11_header*)buffer; hdr->control.type / subtype`: the 16-bit control word
    let ctl ← rdN "Dot11::from_bytes hdr->control" b 0 2
    parse (dispatch (byteAt ctl 0)) b

/-- `header_size()` of the most derived class -/
def hdrSize (d : Dot11) : Nat :=
  let base := 10 + d.optSize                                       -- Dot11::header_size
  let ext := match d.lay.fam with
    | .plain => 0
    | .ta => 6
    | .mgmt | .data => 14 + (if bothDS d.hdr then 6 else 0)
  base + ext + d.lay.body.sum

/-- the `stream.write(...)` calls of `Dot11::write_serialization`, in order -/
def optChunks : List Opt → List Bytes
  | [] => []
  | o :: os => [UInt8.ofNat (o.code % 256)] :: [UInt8.ofNat (o.lenField % 256)] :: o.data :: optChunks os

def chunks (d : Dot11) : List Bytes :=
  [d.hdr] ++
  (match d.lay.fam with
   | .plain => []
   | .ta => [d.ext]
   | .mgmt | .data => if bothDS d.hdr then [d.ext, d.addr4] else [d.ext]) ++
  [d.body] ++ optChunks d.opts

/-- successive writes through one `OutputMemoryStream` -/
def writeAll : OutCursor → List Bytes → Out OutCursor
  | o, [] => pure o
  | o, x :: xs => do
    let o ← o.write x
    writeAll o xs

/-- `Dot11::write_serialization(buffer, total_sz)` -/
def write (d : Dot11) (region : Bytes) : Out Bytes := do
  let o ← writeAll (OutCursor.ofRegion region) (chunks d)
  pure o.buffer

/-! ### getters -/

def leAt (bs : Bytes) (i n : Nat) : Nat := Cursor.leNat ((bs.drop i).take n)
def hexAt (bs : Bytes) (i n : Nat) : String := hexStr ((bs.drop i).take n)

def optStr (o : Opt) : String := s!"{o.code}:{o.lenField}:{hexStr o.data}"

def optsStr (os : List Opt) : String := if os.isEmpty then "-" else ",".intercalate (os.map optStr)

def baseFields (h : Bytes) : Fields :=
  let f0 := byteAt h 0
  let f1 := byteAt h 1
  [("protocol", toString (f0 % 4)), ("type", toString (f0 / 4 % 4)), ("subtype", toString (f0 / 16)),
   ("to_ds", toString (f1 % 2)), ("from_ds", toString (f1 / 2 % 2)), ("more_frag", toString (f1 / 4 % 2)),
   ("retry", toString (f1 / 8 % 2)), ("power_mgmt", toString (f1 / 16 % 2)), ("more_data", toString (f1 / 32 % 2)),
   ("wep", toString (f1 / 64 % 2)), ("order", toString (f1 / 128 % 2)),
   ("duration_id", toString (leAt h 2 2)), ("addr1", hexAt h 4 6)]

def extFields (d : Dot11) : Fields :=
  match d.lay.fam with
  | .plain => []
  | .ta => [("target_addr", hexStr d.ext)]
  | .mgmt | .data =>
    let fs := leAt d.ext 12 2
    [("addr2", hexAt d.ext 0 6), ("addr3", hexAt d.ext 6 6), ("frag_num", toString (fs % 16)),
     ("seq_num", toString (fs / 16 % 4096)), ("addr4", if bothDS d.hdr then hexStr d.addr4 else "-")]

def bodyFields (d : Dot11) : Fields :=
  let b := d.body
  let c := d.cls
  if c == "Dot11BlockAckRequest" then
    [("bar_control", toString (leAt b 0 2 % 16)), ("start_sequence", toString (leAt b 2 2 / 16 % 4096)),
     ("fragment_number", toString (leAt b 2 2 % 16))]
  else if c == "Dot11BlockAck" then
    [("bar_control", toString (leAt b 0 2 % 16)), ("start_sequence", toString (leAt b 2 2 / 16 % 4096)),
     ("fragment_number", toString (leAt b 2 2 % 16)), ("bitmap", hexAt b 4 8)]
  else if c == "Dot11QoSData" then [("qos_control", toString (leAt b 0 2))]
  else if c == "Dot11Beacon" || c == "Dot11ProbeResponse" then
    [("timestamp", toString (leAt b 0 8)), ("interval", toString (leAt b 8 2)), ("capabilities", toString (leAt b 10 2))]
  else if c == "Dot11Disassoc" || c == "Dot11Deauthentication" then [("reason_code", toString (leAt b 0 2))]
  else if c == "Dot11AssocRequest" then [("capabilities", toString (leAt b 0 2)), ("listen_interval", toString (leAt b 2 2))]
  else if c == "Dot11AssocResponse" || c == "Dot11ReAssocResponse" then
    [("capabilities", toString (leAt b 0 2)), ("status_code", toString (leAt b 2 2)), ("aid", toString (leAt b 4 2))]
  else if c == "Dot11ReAssocRequest" then
    [("capabilities", toString (leAt b 0 2)), ("listen_interval", toString (leAt b 2 2)), ("current_ap", hexAt b 4 6)]
  else if c == "Dot11Authentication" then
    [("auth_algorithm", toString (leAt b 0 2)), ("auth_seq_number", toString (leAt b 2 2)), ("status_code", toString (leAt b 4 2))]
  else []

def fields (d : Dot11) : Fields :=
  baseFields d.hdr ++ extFields d ++ bodyFields d ++
  (if d.lay.tagged then [("opts", optsStr d.opts)] else [])

/-! ### setters -/

/-- overwrite `bs[i ..]` with `v`: assignment to a member of a packed struct.  Every call site passes a member's
    offset and size, so `i + v.length ≤ bs.length`; outside that the struct is left alone (a struct never grows). -/
def patch (bs : Bytes) (i : Nat) (v : Bytes) : Bytes :=
  if i + v.length ≤ bs.length then bs.take i ++ v ++ bs.drop (i + v.length) else bs

/-- assign a bit-field of `width` bits at bit `shift` of the little-endian integer of `n` bytes at offset `i` -/
def setBits (bs : Bytes) (i n shift width v : Nat) : Bytes :=
  let old := leAt bs i n
  let cleared := old - (old / 2 ^ shift % 2 ^ width) * 2 ^ shift
  patch bs i (OutCursor.leBytes n (cleared + (v % 2 ^ width) * 2 ^ shift))

def num (s : String) : Out Nat := match s.toNat? with | some n => .ok n | none => .throw .stdOther
def hexArg (s : String) (n : Nat) : Out Bytes :=
  match parseHexStr s with
  | some b => if b.length == n then .ok b else .throw .stdOther
  | none => .throw .stdOther
def hexAny (s : String) : Out Bytes := match parseHexStr s with | some b => .ok b | none => .throw .stdOther

/-- `add_tagged_option(opt, len, val)`: `len` is already truncated to `uint8_t` by the caller's cast; the option keeps
    `len` bytes of `val` -/
def addTagged (d : Dot11) (code : Nat) (val : Bytes) : Dot11 :=
  let len := val.length % 256
  { d with opts := d.opts ++ [⟨code, len, val.take len⟩], optSize := (d.optSize + len + 2) % 4294967296 }

/-- `Dot11::add_option(const option&)` -/
def addOption (d : Dot11) (o : Opt) : Dot11 :=
  { d with opts := d.opts ++ [o], optSize := (d.optSize + o.data.length + 2) % 4294967296 }

def removeFirst (code : Nat) : List Opt → Option (Opt × List Opt)
  | [] => none
  | o :: os => if o.code == code then some (o, os) else (removeFirst code os).map (fun (x, r) => (x, o :: r))

/-- `Dot11::remove_option(type)` (`options_size_` is `uint32_t`) -/
def removeOption (d : Dot11) (code : Nat) : Dot11 :=
  match removeFirst code d.opts with
  | none => d
  | some (o, rest) => { d with opts := rest, optSize := (d.optSize + 4294967296 - (o.data.length + 2) % 4294967296) % 4294967296 }

def isMgmtData (d : Dot11) : Bool := d.lay.fam == .mgmt || d.lay.fam == .data

/-- scalar setters common to every class + per-class ones -/
def applyScalar (d : Dot11) : List String → Out Dot11
  | ["protocol", v] => do let n ← num v; pure { d with hdr := setBits d.hdr 0 1 0 2 n }
  | ["type", v] => do let n ← num v; pure { d with hdr := setBits d.hdr 0 1 2 2 n }
  | ["subtype", v] => do let n ← num v; pure { d with hdr := setBits d.hdr 0 1 4 4 n }
  | ["to_ds", v] => do let n ← num v; pure { d with hdr := setBits d.hdr 1 1 0 1 (if n != 0 then 1 else 0) }
  | ["from_ds", v] => do let n ← num v; pure { d with hdr := setBits d.hdr 1 1 1 1 (if n != 0 then 1 else 0) }
  | ["more_frag", v] => do let n ← num v; pure { d with hdr := setBits d.hdr 1 1 2 1 (if n != 0 then 1 else 0) }
  | ["retry", v] => do let n ← num v; pure { d with hdr := setBits d.hdr 1 1 3 1 (if n != 0 then 1 else 0) }
  | ["power_mgmt", v] => do let n ← num v; pure { d with hdr := setBits d.hdr 1 1 4 1 (if n != 0 then 1 else 0) }
  | ["more_data", v] => do let n ← num v; pure { d with hdr := setBits d.hdr 1 1 5 1 (if n != 0 then 1 else 0) }
  | ["wep", v] => do let n ← num v; pure { d with hdr := setBits d.hdr 1 1 6 1 (if n != 0 then 1 else 0) }
  | ["order", v] => do let n ← num v; pure { d with hdr := setBits d.hdr 1 1 7 1 (if n != 0 then 1 else 0) }
  | ["duration_id", v] => do let n ← num v; pure { d with hdr := patch d.hdr 2 (OutCursor.leBytes 2 n) }
  | ["addr1", v] => do let a ← hexArg v 6; pure { d with hdr := patch d.hdr 4 a }
  | ["target_addr", v] => if d.lay.fam == .ta then do let a ← hexArg v 6; pure { d with ext := a } else .throw .stdOther
  | ["addr2", v] => if isMgmtData d then do let a ← hexArg v 6; pure { d with ext := patch d.ext 0 a } else .throw .stdOther
  | ["addr3", v] => if isMgmtData d then do let a ← hexArg v 6; pure { d with ext := patch d.ext 6 a } else .throw .stdOther
  | ["addr4", v] => if isMgmtData d then do let a ← hexArg v 6; pure { d with addr4 := a } else .throw .stdOther
  | ["frag_num", v] => if isMgmtData d then do let n ← num v; pure { d with ext := setBits d.ext 12 2 0 4 n } else .throw .stdOther
  | ["seq_num", v] => if isMgmtData d then do let n ← num v; pure { d with ext := setBits d.ext 12 2 4 12 n } else .throw .stdOther
  | _ => .throw .stdOther

/-- offset/width of the 16-bit little-endian body members with a plain setter, per class -/
def le16Member (cls name : String) : Option Nat :=
  if cls == "Dot11QoSData" && name == "qos_control" then some 0
  else if (cls == "Dot11Beacon" || cls == "Dot11ProbeResponse") && name == "interval" then some 8
  else if (cls == "Dot11Disassoc" || cls == "Dot11Deauthentication") && name == "reason_code" then some 0
  else if (cls == "Dot11AssocRequest" || cls == "Dot11ReAssocRequest") && name == "listen_interval" then some 2
  else if (cls == "Dot11AssocResponse" || cls == "Dot11ReAssocResponse") && name == "status_code" then some 2
  else if (cls == "Dot11AssocResponse" || cls == "Dot11ReAssocResponse") && name == "aid" then some 4
  else if cls == "Dot11Authentication" && name == "auth_algorithm" then some 0
  else if cls == "Dot11Authentication" && name == "auth_seq_number" then some 2
  else if cls == "Dot11Authentication" && name == "status_code" then some 4
  else none

/-- offset of `capability_information` in `body_` -/
def capOffset (cls : String) : Option Nat :=
  if cls == "Dot11Beacon" || cls == "Dot11ProbeResponse" then some 10
  else if cls == "Dot11AssocRequest" || cls == "Dot11AssocResponse" || cls == "Dot11ReAssocRequest"
    || cls == "Dot11ReAssocResponse" then some 0
  else none

def isBlockAck (cls : String) : Bool := cls == "Dot11BlockAckRequest" || cls == "Dot11BlockAck"

def applyBody (d : Dot11) : List String → Out Dot11
  | ["timestamp", v] =>
    if d.cls == "Dot11Beacon" || d.cls == "Dot11ProbeResponse" then do
      let n ← num v; pure { d with body := patch d.body 0 (OutCursor.leBytes 8 n) }
    else .throw .stdOther
  | ["current_ap", v] =>
    if d.cls == "Dot11ReAssocRequest" then do let a ← hexArg v 6; pure { d with body := patch d.body 4 a }
    else .throw .stdOther
  | ["cap", bit, v] =>
    match capOffset d.cls with
    | some off => do
      let b ← num bit; let n ← num v
      if b < 16 then pure { d with body := setBits d.body off 2 b 1 (if n != 0 then 1 else 0) } else .throw .stdOther
    | none => .throw .stdOther
  | ["bar_control", v] => if isBlockAck d.cls then do let n ← num v; pure { d with body := setBits d.body 0 2 0 4 n } else .throw .stdOther
  | ["start_sequence", v] => if isBlockAck d.cls then do let n ← num v; pure { d with body := setBits d.body 2 2 4 12 n } else .throw .stdOther
  | ["fragment_number", v] => if isBlockAck d.cls then do let n ← num v; pure { d with body := setBits d.body 2 2 0 4 n } else .throw .stdOther
  | ["bitmap", v] => if d.cls == "Dot11BlockAck" then do let a ← hexArg v 8; pure { d with body := patch d.body 4 a } else .throw .stdOther
  | [name, v] =>
    match le16Member d.cls name with
    | some off => do let n ← num v; pure { d with body := patch d.body off (OutCursor.leBytes 2 n) }
    | none => .throw .stdOther
  | _ => .throw .stdOther

/-! ### public constructors -/

/-- header with `addr1 = dst` and the given type / subtype (`Dot11(dst)`, then `type(...)`, `subtype(...)`) -/
def mkHdr (dst : Bytes) (type sub : Nat) : Bytes :=
  [UInt8.ofNat ((type % 4) * 4 + (sub % 16) * 16), 0, 0, 0] ++ dst

def typeSubOf (cls : String) : Nat × Nat :=
  if cls == "Dot11" then (0, 0) else if cls == "Dot11Control" then (1, 0) else if cls == "Dot11Ack" then (1, 13)
  else if cls == "Dot11RTS" then (1, 11) else if cls == "Dot11PSPoll" then (1, 10) else if cls == "Dot11CFEnd" then (1, 14)
  else if cls == "Dot11EndCFAck" then (1, 15) else if cls == "Dot11BlockAckRequest" then (1, 8)
  else if cls == "Dot11BlockAck" then (1, 9) else if cls == "Dot11Data" then (2, 0) else if cls == "Dot11QoSData" then (2, 8)
  else if cls == "Dot11Beacon" then (0, 8) else if cls == "Dot11ProbeResponse" then (0, 5)
  else if cls == "Dot11ProbeRequest" then (0, 4) else if cls == "Dot11Disassoc" then (0, 10)
  else if cls == "Dot11Deauthentication" then (0, 12) else if cls == "Dot11AssocRequest" then (0, 0)
  else if cls == "Dot11AssocResponse" then (0, 1) else if cls == "Dot11ReAssocResponse" then (0, 3)
  else if cls == "Dot11Authentication" then (0, 11) else if cls == "Dot11ReAssocRequest" then (0, 2) else (0, 0)

/-- `Cls(dst_hw_addr [, src_hw_addr / target_addr])` -/
def create (cls : String) (lay : Layout) (dst second : Bytes) : Dot11 :=
  let (t, s) := typeSubOf cls
  let ext := match lay.fam with
    | .plain => []
    | .ta => second
    | .mgmt | .data => second ++ zeros 8
  ⟨cls, lay, mkHdr dst t s, ext, zeros 6, zeros lay.body.sum, [], 0⟩

def construct (cls : String) (args : List String) : Out Dot11 :=
  match layoutOf cls with
  | none => .throw .stdOther
  | some lay =>
    match args with
    | [] => .ok (create cls lay (zeros 6) (zeros 6))
    | [a] => do let x ← hexArg a 6; pure (create cls lay x (zeros 6))
    | [a, b] =>
      if lay.fam == .plain then .throw .stdOther
      else do let x ← hexArg a 6; let y ← hexArg b 6; pure (create cls lay x y)
    | _ => .throw .stdOther

end Dot11
end Tins.Wire.Wifi
