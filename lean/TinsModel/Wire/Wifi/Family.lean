import TinsModel.Wire.Wifi.Dot11
import TinsModel.Wire.Wifi.Tagged
import TinsModel.Wire.Wifi.Eapol
import TinsModel.Wire.Wifi.RadioTap
/-
  Family interface of `Wifi`: RadioTap (parse / serialize), the Dot11 class family, `Dot11::from_bytes` (entry
  `Dot11*`), RC4EAPOL, RSNEAPOL, `EAPOL::from_bytes` (entries `EAPOL*` and, as dispatched by
  `pdu_from_flag(Constants::Ethernet::EAPOL)`, `EAPOL`).
-/
namespace Tins.Wire.Wifi

inductive Obj
  | dot11 (d : Dot11)
  | eapol (e : Eapol)
  | radiotap (r : RadioTap)
deriving Repr

/-- C++ class names whose parsing constructor this family models -/
def classes : List String :=
  dot11Classes ++ ["Dot11*", "RC4EAPOL", "RSNEAPOL", "EAPOL*", "EAPOL", "RadioTap"]

/-- `EAPOL::from_bytes` returns a null pointer for an unknown key-descriptor type.  The shared chain driver has no
    "null" outcome, so the model hands the line over to a class nobody models: the driver then answers
    `unmodelled EAPOL:null` and the line is checked by the spec oracle and the sanitizers only. -/
def eapolNull : String := "EAPOL:null"

/-- the parsing constructor `cls(buffer, total_sz)` (or `from_bytes`) -/
def parse (cls : String) (b : Bytes) : Out (Obj × Inner) :=
  if cls == "Dot11*" then (Dot11.fromBytes b) >>= fun (d, i) => pure (.dot11 d, i)
  else if cls == "RadioTap" then (RadioTap.parse b) >>= fun (r, i) => pure (.radiotap r, i)
  else if cls == "RC4EAPOL" then (Eapol.parse false b) >>= fun (e, i) => pure (.eapol e, i)
  else if cls == "RSNEAPOL" then (Eapol.parse true b) >>= fun (e, i) => pure (.eapol e, i)
  else if cls == "EAPOL*" || cls == "EAPOL" then
    (Eapol.fromBytes b) >>= fun r =>
      match r with
      | some (e, i) => pure (.eapol e, i)
      | none => pure (.eapol (Eapol.create false), .cls eapolNull [] false)
  else (Dot11.parse cls b) >>= fun (d, i) => pure (.dot11 d, i)

/-- (actual class name, getter dump) -/
def info : Obj → String × Fields
  | .dot11 d => (d.cls, Tagged.fieldsWithDecoded d)
  | .eapol e => (if e.rsn then "RSNEAPOL" else "RC4EAPOL", e.fields)
  | .radiotap r => ("RadioTap", r.fields)

def hdr : Obj → Nat
  | .dot11 d => d.hdrSize
  | .eapol e => e.hdrSize
  | .radiotap r => r.hdrSize

def trl : Obj → Nat → Nat
  | .radiotap r, _ => r.trl
  | _, _ => 0

/-- `write_serialization(buffer, total_sz)` on the layer's region -/
def write (cx : Ctx) : Obj → Bytes → Out Bytes
  | .dot11 d, region => d.write region
  | .eapol e, region => e.write region
  | .radiotap r, region => r.write cx region

/-- public (non-parsing) constructors: `new <cls> args…` -/
def mk (cls : String) (args : List String) : Out Obj :=
  if cls == "RC4EAPOL" then (match args with | [] => .ok (.eapol (Eapol.create false)) | _ => .throw .stdOther)
  else if cls == "RSNEAPOL" then (match args with | [] => .ok (.eapol (Eapol.create true)) | _ => .throw .stdOther)
  else (Dot11.construct cls args) >>= fun d => pure (.dot11 d)

/-- one API call on the object: setters, add/remove option … -/
def apply : Obj → List String → Out Obj
  | .dot11 d, op => (Tagged.apply d op) >>= fun x => pure (.dot11 x)
  | .eapol e, op => (e.apply op) >>= fun x => pure (.eapol x)
  | .radiotap _, _ => .throw .stdOther

end Tins.Wire.Wifi
