import TinsModel.Wire.Wifi.Lemmas
/-
  Theorems about `RadioTap` and the `RadioTapParser` walk it uses: the parsing constructor never reads outside the
  buffer — although `advance_to_next_namespace` and `load_current_flags` dereference the present-word chain with no
  bounds check of their own — because `find_options_start` validated the chain once in the parser's constructor.
-/
namespace Tins.Wire.Wifi
open Tins Tins.Wire
namespace RtParser

/-- the present-word chain of `buf` ends at word `k` inside the buffer: words `< k` have the `ext` bit, word `k` has not -/
structure Chain (buf : Bytes) (k : Nat) : Prop where
  inb : 4 * k + 4 ≤ buf.length
  exts : ∀ j, j < k → extOf "x" buf j = .ok true
  last : extOf "x" buf k = .ok false

theorem extOf_site (s t : String) (buf : Bytes) (i : Nat) (v : Bool) (h : extOf s buf i = .ok v) : extOf t buf i = .ok v := by
  unfold extOf rdN at *
  by_cases hb : 4 * i + 4 ≤ buf.length
  · simpa [hb, bind, Out.bind] using h
  · simp [hb, bind, Out.bind] at h

theorem extOf_inb (s : String) (buf : Bytes) (i : Nat) (h : 4 * i + 4 ≤ buf.length) : ∃ v, extOf s buf i = .ok v := by
  unfold extOf rdN
  simp [h, bind, Out.bind]

theorem loadFlags_inb (buf : Bytes) (i : Nat) (h : 4 * i + 4 ≤ buf.length) : ∃ v, loadFlags buf i = .ok v := by
  unfold loadFlags rdN
  simp [h, bind, Out.bind]

/-- `find_options_start`'s loop: with `4·i + total = |buf|` and `total ≥ 4` it stays inside the buffer and either
    finds the end of the chain or throws `malformed_packet` -/
theorem findStartLoop_spec (fuel : Nat) (buf : Bytes) (i total : Nat) (hinv : 4 * i + total = buf.length) (ht : 4 ≤ total)
    (hf : total / 4 + 1 ≤ fuel + 1) (hpre : ∀ j, j < i → extOf "x" buf j = .ok true) :
    (∃ k, findStartLoop (fuel + 1) buf i total = .ok (4 * k + 4) ∧ Chain buf k ∧ i ≤ k)
    ∨ findStartLoop (fuel + 1) buf i total = .throw .malformedPacket := by
  induction fuel generalizing i total with
  | zero =>
    unfold findStartLoop
    rcases extOf_inb "RadioTapParser::find_options_start flags->ext" buf i (by omega) with ⟨v, hv⟩
    simp only [hv, bind, Out.bind]
    cases v with
    | true =>
      right
      have : total - 4 < 4 := by omega
      simp [this]
    | false =>
      left
      exact ⟨i, by simp, ⟨by omega, hpre, extOf_site _ _ _ _ _ hv⟩, Nat.le_refl _⟩
  | succ fuel ih =>
    unfold findStartLoop
    rcases extOf_inb "RadioTapParser::find_options_start flags->ext" buf i (by omega) with ⟨v, hv⟩
    simp only [hv, bind, Out.bind]
    cases v with
    | true =>
      by_cases h4 : total - 4 < 4
      · right; simp [h4]
      · simp only [h4, ↓reduceIte]
        have hpre' : ∀ j, j < i + 1 → extOf "x" buf j = .ok true := by
          intro j hj
          by_cases hji : j < i
          · exact hpre j hji
          · have : j = i := by omega
            subst this; exact extOf_site _ _ _ _ _ hv
        rcases ih (i + 1) (total - 4) (by omega) (by omega) (by omega) hpre' with ⟨k, hk, hc, hik⟩ | hk
        · left; exact ⟨k, by simpa using hk, hc, by omega⟩
        · right; simpa using hk
    | false =>
      left
      exact ⟨i, by simp, ⟨by omega, hpre, extOf_site _ _ _ _ _ hv⟩, Nat.le_refl _⟩

theorem findOptionsStart_spec (buf : Bytes) (hl : 4 ≤ buf.length) :
    (∃ k, findOptionsStart buf 0 = .ok (4 * k + 4) ∧ Chain buf k) ∨ findOptionsStart buf 0 = .throw .malformedPacket := by
  unfold findOptionsStart
  have : ¬ buf.length < 4 := by omega
  simp only [this, ↓reduceIte]
  rcases findStartLoop_spec (buf.length / 4) buf 0 buf.length (by omega) hl (by omega) (by intro j hj; omega) with ⟨k, h, hc, _⟩ | h
  · left; exact ⟨k, h, hc⟩
  · right; exact h

/-- `advance_to_next_namespace`'s unchecked walk from word `i ≤ k` of a validated chain ends at `k` without leaving the buffer -/
theorem nextNsLoop_spec (buf : Bytes) (k : Nat) (hc : Chain buf k) (fuel i : Nat) (hi : i ≤ k) (hf : k - i + 1 ≤ fuel) :
    nextNsLoop fuel buf i = .ok k := by
  induction fuel generalizing i with
  | zero => omega
  | succ fuel ih =>
    unfold nextNsLoop
    by_cases hik : i = k
    · subst hik
      simp [extOf_site _ "RadioTapParser::advance_to_next_namespace flags->ext" _ _ _ hc.last, bind, Out.bind]
    · have hlt : i < k := by omega
      simp only [extOf_site _ "RadioTapParser::advance_to_next_namespace flags->ext" _ _ _ (hc.exts i hlt), bind, Out.bind]
      simpa using ih (i + 1) (by omega) (by omega)

theorem skipZeroBits_spec (fuel bit flags : Nat) (hb : bit ≤ rtMax) :
    bit ≤ (skipZeroBits fuel bit flags).1 ∧ (skipZeroBits fuel bit flags).1 ≤ rtMax := by
  induction fuel generalizing bit flags with
  | zero => exact ⟨Nat.le_refl _, hb⟩
  | succ fuel ih =>
    unfold skipZeroBits
    split
    · rename_i hc
      have : bit < rtMax := by simp at hc; exact hc.2
      have := ih (bit + 1) (flags / 2) (by omega)
      omega
    · exact ⟨Nat.le_refl _, hb⟩

/-- the parser state the loops maintain: built on `buf`, on a validated chain, at or before its last word -/
structure Good (buf : Bytes) (k : Nat) (p : RtParser) : Prop where
  buf : p.buf = buf
  has : p.noBuf = false
  ns : p.ns ≤ k
  bit : p.bit ≤ rtMax

theorem advanceToNextField_good (buf : Bytes) (k : Nat) (p : RtParser) (hg : Good buf k p) :
    Good buf k (advanceToNextField p).1 ∧ p.bit ≤ (advanceToNextField p).1.bit ∧ (advanceToNextField p).1.ns = p.ns
      ∧ ((advanceToNextField p).2 = true → (advanceToNextField p).1.bit < rtMax) := by
  have hs := skipZeroBits_spec (rtMax + 1) p.bit p.flags hg.bit
  unfold advanceToNextField
  split
  rename_i bit flags heq
  have h1 : bit = (skipZeroBits (rtMax + 1) p.bit p.flags).1 := by rw [heq]
  split
  · rename_i hlt
    exact ⟨⟨hg.buf, hg.has, hg.ns, by simp only []; omega⟩, by simp only []; omega, rfl, fun _ => hlt⟩
  · exact ⟨⟨hg.buf, hg.has, hg.ns, by simp only []; omega⟩, by simp only []; omega, rfl, by simp⟩

/-- the progress measure of `skip_to_field`'s loop -/
def mu (k : Nat) (p : RtParser) : Nat := (if p.ns < k then rtMax + 1 else 0) + (rtMax - p.bit)

/-- the namespace switch of `advance_field()` on a validated chain: the unchecked walk stays inside the buffer -/
theorem nextNamespaceField_spec (buf : Bytes) (k : Nat) (hc : Chain buf k) (p1 : RtParser) (hg : Good buf k p1) :
    ∃ p' r, nextNamespaceField p1 = .ok (p', r) ∧ Good buf k p' ∧ p'.ns = k
      ∧ (p1.ns = k → p'.bit = rtMax) := by
  have hwalk : nextNsLoop (p1.buf.length / 4 + 2) p1.buf p1.ns = .ok k := by
    rw [hg.buf]; exact nextNsLoop_spec buf k hc (buf.length / 4 + 2) p1.ns hg.ns (by have := hc.inb; omega)
  rcases loadFlags_inb buf k hc.inb with ⟨fl, hfl0⟩
  have hfl : loadFlags p1.buf k = .ok fl := by rw [hg.buf]; exact hfl0
  simp only [nextNamespaceField, advanceToNextNamespace, hwalk, hfl, bind, Out.bind, Out.pure_eq]
  by_cases hmoved : (k != p1.ns) = true
  · simp only [hmoved, Bool.not_true, Bool.false_eq_true, ↓reduceIte]
    have hg2 : Good buf k { p1 with ns := k, flags := fl, bit := 0 } := ⟨hg.buf, hg.has, Nat.le_refl _, by simp [rtMax]⟩
    have ha2 := advanceToNextField_good buf k _ hg2
    cases hres2 : advanceToNextField { p1 with ns := k, flags := fl, bit := 0 } with
    | mk p3 ok3 =>
      rw [hres2] at ha2
      obtain ⟨hgp3, _, hns3, _⟩ := ha2
      have hne : p1.ns ≠ k := by
        simp only [bne_iff_ne, ne_eq] at hmoved
        exact fun h => hmoved h.symm
      cases ok3 with
      | true => exact ⟨p3, true, rfl, hgp3, hns3, fun h => absurd h hne⟩
      | false =>
        exact ⟨{ p3 with bit := rtMax }, false, rfl, ⟨hgp3.buf, hgp3.has, hgp3.ns, Nat.le_refl _⟩, hns3, fun _ => rfl⟩
  · simp only [hmoved, Bool.not_false, ↓reduceIte]
    exact ⟨_, false, rfl, ⟨hg.buf, hg.has, Nat.le_refl _, Nat.le_refl _⟩, rfl, fun _ => rfl⟩

/-- one `advance_field()` on a validated chain: no fault, no exception, the state stays good, and — when there was
    a current field — the measure strictly decreases -/
theorem advanceField_spec (buf : Bytes) (k : Nat) (hc : Chain buf k) (p : RtParser) (hg : Good buf k p) :
    ∃ p' r, advanceField p = .ok (p', r) ∧ Good buf k p' ∧ (p.bit < rtMax → mu k p' < mu k p) := by
  unfold advanceField
  by_cases h0 : (p.noBuf || p.bit == rtMax) = true
  · simp only [h0, ↓reduceIte]
    refine ⟨p, false, rfl, hg, ?_⟩
    intro hlt
    simp only [hg.has, Bool.false_or, beq_iff_eq] at h0
    omega
  · simp only [h0, Bool.false_eq_true, ↓reduceIte]
    have hbit : p.bit < rtMax := by
      simp only [hg.has, Bool.false_or, beq_iff_eq] at h0
      have := hg.bit; omega
    have hg1 : Good buf k { p with ptr := p.ptr + rtSize p.bit, flags := p.flags / 2, bit := p.bit + 1 } :=
      ⟨hg.buf, hg.has, hg.ns, by simp only []; omega⟩
    have ha := advanceToNextField_good buf k _ hg1
    simp only [skipCurrentField]
    cases hres : advanceToNextField { p with ptr := p.ptr + rtSize p.bit, flags := p.flags / 2, bit := p.bit + 1 } with
    | mk p1 ok =>
      rw [hres] at ha
      obtain ⟨hgp1, hb1, hns1, hok1⟩ := ha
      simp only at hb1 hns1 hok1
      cases ok with
      | true =>
        refine ⟨p1, true, rfl, hgp1, fun _ => ?_⟩
        have := hok1 rfl
        simp only [mu, hns1]
        omega
      | false =>
        rcases nextNamespaceField_spec buf k hc p1 hgp1 with ⟨p', r, he, hg', hns', hend⟩
        refine ⟨p', r, he, hg', fun _ => ?_⟩
        simp only [mu, hns', Nat.lt_irrefl, ↓reduceIte]
        by_cases hk : p.ns < k
        · simp only [hk, ↓reduceIte]
          have := hg'.bit
          omega
        · have : p1.ns = k := by
            have h1 : p1.ns = p.ns := hns1
            have := hg.ns; omega
          have := hend this
          simp only [hk, ↓reduceIte]
          omega

/-- **`skip_to_field` is safe and terminates**: with fuel above the measure it returns a good state that either has
    no current field or stands on the requested one -/
theorem skipToField_spec (buf : Bytes) (k : Nat) (hc : Chain buf k) (bit fuel : Nat) (p : RtParser) (hg : Good buf k p)
    (hf : mu k p < fuel) : ∃ p', skipToField fuel p bit = .ok p' ∧ Good buf k p' ∧ (p'.hasFields = true → p'.bit = bit) := by
  induction fuel generalizing p with
  | zero => omega
  | succ fuel ih =>
    unfold skipToField
    by_cases hcond : (p.hasFields && p.bit != bit) = true
    · simp only [hcond, ↓reduceIte]
      rcases advanceField_spec buf k hc p hg with ⟨p', r, he, hg', hdec⟩
      have hlt : p.bit < rtMax := by
        have h1 : p.hasFields = true := by
          cases hh : p.hasFields <;> simp [hh] at hcond ⊢
        simp only [hasFields, Bool.and_eq_true, bne_iff_ne, ne_eq, decide_eq_true_eq] at h1
        have := hg.bit; omega
      have := hdec hlt
      rcases ih p' hg' (by omega) with ⟨p'', he2, hg'', hx⟩
      exact ⟨p'', by simp only [he, bind, Out.bind, he2], hg'', hx⟩
    · simp only [hcond, Bool.false_eq_true, ↓reduceIte]
      refine ⟨p, rfl, hg, fun hh => ?_⟩
      simp only [hh, Bool.true_and, bne_iff_ne, ne_eq, Decidable.not_not] at hcond
      exact hcond

theorem mu_le (k : Nat) (p : RtParser) : mu k p ≤ 2 * rtMax + 1 := by
  unfold mu; split <;> omega

/-- the parser's constructor on a non-empty vector: `malformed_packet`, or a good state on a validated chain -/
theorem init_spec (buf : Bytes) (hl : 4 ≤ buf.length) :
    (∃ p k, init buf = .ok p ∧ Chain buf k ∧ Good buf k p) ∨ init buf = .throw .malformedPacket := by
  unfold init
  have h1 : buf.isEmpty = false := by
    cases buf with
    | nil => simp at hl
    | cons _ _ => rfl
  have h2 : ¬ buf.length < 4 := by omega
  simp only [h1, Bool.false_eq_true, ↓reduceIte, h2]
  rcases loadFlags_inb buf 0 (by omega) with ⟨fl, hfl⟩
  rcases findOptionsStart_spec buf hl with ⟨k, hs, hc⟩ | hs
  · left
    simp only [hfl, hs, bind, Out.bind]
    have hg0 : Good buf k ⟨buf, false, 4 * k + 4, 0, fl, 0⟩ := ⟨rfl, rfl, Nat.zero_le _, Nat.zero_le _⟩
    exact ⟨_, k, rfl, hc, (advanceToNextField_good buf k _ hg0).1⟩
  · right
    simp only [hfl, hs, bind, Out.bind]

end RtParser
namespace RadioTap

/-- `skipFuel` is above the largest value of the progress measure -/
theorem skipFuel_enough (k : Nat) (p : RtParser) : RtParser.mu k p < RtParser.skipFuel := by
  have := RtParser.mu_le k p
  simp only [RtParser.skipFuel, rtMax] at *
  omega

/-- a RadioTap object as the parser leaves it: 4 header bytes, and `trailer_size()` can be evaluated -/
structure WF (r : RadioTap) : Prop where
  hdr : r.hdr.length = 4
  trl : ∃ t, trlOut r = .ok t ∧ (t = 0 ∨ t = 4)

/-- once the parser's constructor accepts the payload, `trailer_size()` is 0 or 4 -/
theorem trlOut_ok (r : RadioTap) (p : RtParser) (k : Nat) (hi : RtParser.init r.payload = .ok p)
    (hc : RtParser.Chain r.payload k) (hg : RtParser.Good r.payload k p) : ∃ t, trlOut r = .ok t ∧ (t = 0 ∨ t = 4) := by
  unfold trlOut
  rcases RtParser.skipToField_spec r.payload k hc 1 RtParser.skipFuel p hg (skipFuel_enough k p) with ⟨p', hs, hg', hx⟩
  simp only [hi, hs, bind, Out.bind]
  by_cases hf : p'.hasFields
  · simp only [hf, ↓reduceIte]
    have hbit : p'.bit = 1 := hx hf
    have hsz : rtSize p'.bit = 1 := by rw [hbit]; rfl
    have hptr : p'.ptr < r.payload.length := by
      simp only [RtParser.hasFields, Bool.and_eq_true, decide_eq_true_eq, hg'.buf] at hf
      exact hf.2
    have hb : ¬ p'.ptr + rtSize p'.bit > r.payload.length := by omega
    have hb' : p'.ptr + rtSize p'.bit ≤ r.payload.length := by omega
    simp only [hb, ↓reduceIte, rdN, hb']
    have hlen : (List.take (rtSize p'.bit) (List.drop p'.ptr r.payload)).length = 1 := by
      simp only [List.length_take, List.length_drop]; omega
    simp only [hlen, bne_self_eq_false, Bool.false_eq_true, ↓reduceIte]
    split
    · exact ⟨4, rfl, .inr rfl⟩
    · exact ⟨0, rfl, .inl rfl⟩
  · simp only [hf, Bool.false_eq_true, ↓reduceIte]
    exact ⟨0, rfl, .inl rfl⟩

/-- `trailer_size()` on a payload of at least one present word: 0, 4, or `malformed_packet` — never a fault -/
theorem trlOut_spec (r : RadioTap) (hl : 4 ≤ r.payload.length) :
    (∃ t, trlOut r = .ok t ∧ (t = 0 ∨ t = 4)) ∨ trlOut r = .throw .malformedPacket := by
  rcases RtParser.init_spec r.payload hl with ⟨p, k, hi, hc, hg⟩ | hi
  · left; exact trlOut_ok r p k hi hc hg
  · right
    simp only [trlOut, hi, bind, Out.bind]

/-- **C01 / RadioTap**: for every byte string the parsing constructor returns a packet or throws `malformed_packet`:
    the present-word walk, the FLAGS look-up (`*parser.current_option_ptr()`), the copy of the options and the hand-over
    to `Dot11::from_bytes` all stay inside the buffer; what is handed to the inner parser is strictly shorter. -/
theorem radiotap_parse_spec (b : Bytes) :
    (∃ r i, parse b = .ok (r, i) ∧ r.WF ∧ 4 ≤ r.payload.length ∧ InnerShorter i b) ∨ parse b = .throw .malformedPacket := by
  unfold parse
  have h0 := Cursor.ofBytes_inv b
  have hsz : (Cursor.ofBytes b).size = b.length := rfl
  rcases Cursor.read_spec _ 4 h0 with ⟨hdr, c1, e1, i1, l1, s1, n1, _, _⟩ | ⟨e1, _⟩
  · simp only [e1, bind, Out.bind]
    by_cases hlen : Dot11.leAt hdr 2 2 < 8
    · right; simp [hlen]
    · simp only [hlen, ↓reduceIte]
      by_cases hfit : Dot11.leAt hdr 2 2 - 4 + 4 > c1.size
      · right; simp [hfit]
      · simp only [hfit, ↓reduceIte]
        rcases Cursor.peek_noFault "RadioTap::RadioTap options_payload_.assign" c1 0 (Dot11.leAt hdr 2 2 - 4) i1 (by omega) with
          ⟨payload, ep, lp⟩
        rcases Cursor.skip_spec c1 (Dot11.leAt hdr 2 2 - 4) i1 with ⟨c2, e2, i2, s2, _⟩ | ⟨e2, _⟩
        · simp only [ep, e2]
          have hpl : 4 ≤ payload.length := by omega
          rcases RtParser.init_spec payload hpl with ⟨p, k, hi, hc, hg⟩ | hi
          · rcases RtParser.skipToField_spec payload k hc 1 RtParser.skipFuel p hg (skipFuel_enough k p) with ⟨p', hs, hg', _⟩
            simp only [hi, hs]
            have hwf : (⟨hdr, payload⟩ : RadioTap).WF := ⟨l1, trlOut_ok ⟨hdr, payload⟩ p k hi hc hg⟩
            -- what is left for the inner frame
            have hinner : ∀ total, total ≤ c2.size →
                (∃ r i, (if (total != 0) = true then
                    (Cursor.peek "RadioTap::RadioTap Dot11::from_bytes" c2 0 total >>= fun inner =>
                      (pure ((⟨hdr, payload⟩ : RadioTap), Inner.cls "Dot11*" inner false) : Out (RadioTap × Inner)))
                  else pure (⟨hdr, payload⟩, Inner.none)) = .ok (r, i) ∧ r.WF ∧ 4 ≤ r.payload.length ∧ InnerShorter i b) := by
              intro total ht
              by_cases hz : (total != 0) = true
              · simp only [hz, ↓reduceIte]
                rcases Cursor.peek_noFault "RadioTap::RadioTap Dot11::from_bytes" c2 0 total i2 (by omega) with ⟨inner, ei, li⟩
                simp only [ei, bind, Out.bind]
                exact ⟨_, _, rfl, hwf, hpl, by simp only [InnerShorter]; omega⟩
              · simp only [hz, Bool.false_eq_true, ↓reduceIte]
                exact ⟨_, _, rfl, hwf, hpl, trivial⟩
            by_cases hf : p'.hasFields
            · simp only [hf, ↓reduceIte]
              have hptr : p'.ptr < payload.length := by
                simp only [RtParser.hasFields, Bool.and_eq_true, decide_eq_true_eq, hg'.buf] at hf
                exact hf.2
              obtain ⟨fv, hfv⟩ : ∃ fv, payload[p'.ptr]? = some fv := ⟨payload[p'.ptr], by simp [hptr]⟩
              simp only [rd, hfv]
              by_cases hfcs : (fv.toNat / 16 % 2 == 1) = true
              · simp only [hfcs, ↓reduceIte]
                by_cases ht4 : c2.size < 4
                · right; simp [ht4]
                · simp only [ht4, ↓reduceIte]
                  by_cases hbad : (fv.toNat / 64 % 2 == 1) = true
                  · right; simp [hbad]
                  · simp only [hbad, Bool.false_eq_true, ↓reduceIte]
                    left
                    rcases hinner (c2.size - 4) (by omega) with ⟨r, i, he, h1, h2, h3⟩
                    exact ⟨r, i, by simpa [bind, Out.bind] using he, h1, h2, h3⟩
              · simp only [hfcs, Bool.false_eq_true, ↓reduceIte]
                left
                rcases hinner c2.size (Nat.le_refl _) with ⟨r, i, he, h1, h2, h3⟩
                exact ⟨r, i, by simpa [bind, Out.bind] using he, h1, h2, h3⟩
            · simp only [hf, Bool.false_eq_true, ↓reduceIte]
              left
              rcases hinner c2.size (Nat.le_refl _) with ⟨r, i, he, h1, h2, h3⟩
              exact ⟨r, i, by simpa [bind, Out.bind] using he, h1, h2, h3⟩
          · right; simp only [hi]
        · omega
  · right; simp only [e1, bind, Out.bind]

theorem radiotap_parse_safe (b : Bytes) : ParseSafe (parse b) := by
  rcases radiotap_parse_spec b with ⟨r, i, h, _⟩ | h
  · left; exact ⟨_, h⟩
  · right; exact h

theorem radiotap_parse_consumes (b : Bytes) (r : RadioTap) (i : Inner) (h : parse b = .ok (r, i)) : InnerShorter i b := by
  rcases radiotap_parse_spec b with ⟨r', i', he, _, _, hi⟩ | he
  · rw [h] at he; injection he with he; injection he with _ e2; rw [e2]; exact hi
  · rw [h] at he; cases he

/-- a parsed RadioTap object is well-formed: its `trailer_size()` never throws -/
theorem radiotap_parse_WF (b : Bytes) (r : RadioTap) (i : Inner) (h : parse b = .ok (r, i)) : r.WF := by
  rcases radiotap_parse_spec b with ⟨r', i', he, hw, _, _⟩ | he
  · rw [h] at he; injection he with he; injection he with e1 _; rw [e1]; exact hw
  · rw [h] at he; cases he

/-- **C02 / RadioTap** (a layer with a trailer): on the region `PDU::serialize` hands it — exactly `header_size()` +
    the inner chain's size + `trailer_size()` bytes — `write_serialization` succeeds, keeps the length and leaves the
    inner region untouched: the header goes in front, the FCS (CRC-32 of the inner bytes, read through a raw pointer
    that stays inside the region) behind. -/
theorem radiotap_writesOnly_exact (cx : Ctx) (r : RadioTap) (hw : r.WF) (region : Bytes)
    (hr : region.length = r.hdrSize + cx.innerSize + r.trl) :
    ∃ out, r.write cx region = .ok out ∧ out.length = region.length
      ∧ (out.drop r.hdrSize).take cx.innerSize = (region.drop r.hdrSize).take cx.innerSize := by
  obtain ⟨t, ht, ht04⟩ := hw.trl
  have htrl : r.trl = t := by simp only [trl, ht]
  rw [htrl] at hr
  generalize hh : Dot11.patch r.hdr 2 (OutCursor.leBytes 2 r.hdrSize) = hdr
  have hhl : hdr.length = 4 := by rw [← hh, Dot11.patch_length]; exact hw.hdr
  have hi : (OutCursor.ofRegion region).Inv := by simp [OutCursor.ofRegion, OutCursor.Inv]
  have hall := Dot11.writeAll_spec [hdr, r.payload] (OutCursor.ofRegion region) hi
    (by simp only [List.flatten_cons, List.flatten_nil, List.length_append, List.length_nil, hhl, OutCursor.ofRegion, hdrSize] at *; omega)
  simp only [write, hh, hall, ht, bind, Out.bind]
  simp only [OutCursor.ofRegion, List.nil_append, List.flatten_cons, List.flatten_nil, List.append_nil, List.length_append, hhl]
  have hhs : r.hdrSize = 4 + r.payload.length := rfl
  by_cases hcond : (decide (t > 0) && !cx.inners.isEmpty) = true
  · simp only [hcond, ↓reduceIte]
    have ht4 : t = 4 := by
      rcases ht04 with h | h
      · simp [h] at hcond
      · exact h
    have hrest : (List.drop (4 + r.payload.length) region).length = cx.innerSize + 4 := by
      simp only [List.length_drop]; omega
    have h1 : 0 + cx.innerSize ≤ (List.drop (4 + r.payload.length) region).length := by omega
    simp only [rdN, h1, ↓reduceIte]
    have hskip : ¬ cx.innerSize > region.length - (4 + r.payload.length) := by omega
    simp only [OutCursor.skip, hskip, ↓reduceIte]
    have hw1 : ¬ region.length - (4 + r.payload.length) - cx.innerSize < (OutCursor.leBytes 4
        (crc32 (List.take cx.innerSize (List.drop 0 (List.drop (4 + r.payload.length) region))))).length := by
      simp only [OutCursor.leBytes_length]; omega
    have hw2 : ¬ (List.drop cx.innerSize (List.drop (4 + r.payload.length) region)).length < (OutCursor.leBytes 4
        (crc32 (List.take cx.innerSize (List.drop 0 (List.drop (4 + r.payload.length) region))))).length := by
      simp only [OutCursor.leBytes_length, List.length_drop]; omega
    simp only [OutCursor.write, hw1, hw2, ↓reduceIte, Out.pure_eq, OutCursor.buffer]
    refine ⟨_, rfl, ?_, ?_⟩
    · simp only [List.length_append, List.length_take, List.length_drop, OutCursor.leBytes_length, hhl]; omega
    · rw [hhs]
      simp only [List.append_assoc]
      rw [← List.append_assoc hdr r.payload]
      rw [List.drop_append_of_le_length (by simp only [List.length_append, hhl]; omega)]
      rw [List.drop_eq_nil_of_le (by simp only [List.length_append, hhl]; omega), List.nil_append]
      rw [List.take_append_of_le_length (by simp only [List.length_take, List.length_drop]; omega)]
      rw [List.take_take, Nat.min_self]
  · simp only [hcond, Bool.false_eq_true, ↓reduceIte, Out.pure_eq, OutCursor.buffer]
    refine ⟨_, rfl, ?_, ?_⟩
    · simp only [List.length_append, List.length_drop, hhl]; omega
    · rw [hhs]
      rw [List.drop_append_of_le_length (by simp only [List.length_append, hhl]; omega)]
      rw [List.drop_eq_nil_of_le (by simp only [List.length_append, hhl]; omega), List.nil_append]

end RadioTap

end Tins.Wire.Wifi
