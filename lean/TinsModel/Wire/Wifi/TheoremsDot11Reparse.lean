import TinsModel.Wire.Wifi.TheoremsDot11
/-
  C03 for the Dot11 class family: parsing what `write_serialization` wrote gives back the very same object — header
  structs, fixed parameters, the tagged options in order with their codes and bytes, and the cached option size.
-/
namespace Tins.Wire.Wifi
open Tins Tins.Wire
namespace Dot11

/-- what the parser leaves besides well-formedness: canonical options, no options on classes that do not parse them,
    and a zero `addr4_` whenever the address is not on the wire -/
structure Canon (d : Dot11) : Prop where
  opts : ∀ o ∈ d.opts, CanonOpt o
  untagged : d.lay.tagged = false → d.opts = [] ∧ d.optSize = 0
  a4 : ¬ ((d.lay.fam = .mgmt ∨ d.lay.fam = .data) ∧ bothDS d.hdr = true) → d.addr4 = zeros 6

theorem beNat_single (n : Nat) (h : n < 256) : Cursor.beNat [UInt8.ofNat (n % 256)] = n := by
  simp [Cursor.beNat, UInt8.toNat_ofNat']; omega

/-- **TLV list round trip**: the tagged-parameter loop run on the encoding of a canonical option list returns that list -/
theorem taggedLoop_encode (os : List Opt) (hc : ∀ o ∈ os, CanonOpt o) (fuel : Nat) (c : Cursor) (acc : List Opt) (sz : Nat)
    (hm : c.mem = (optChunks os).flatten) (hs : c.size = wireSize os) (hf : os.length + 1 ≤ fuel) :
    ∃ n, taggedLoop fuel c acc sz = .ok (acc ++ os, n) := by
  induction os generalizing fuel c acc sz with
  | nil =>
    cases fuel with
    | zero => omega
    | succ fuel =>
      unfold taggedLoop
      have : ¬ c.size ≥ 2 := by simp [hs, wireSize]
      simp only [this, ↓reduceIte]
      exact ⟨sz, by simp⟩
  | cons o os ih =>
    cases fuel with
    | zero => omega
    | succ fuel =>
      obtain ⟨hcode, hlen, hdl⟩ := hc o (List.mem_cons_self)
      have hinv : c.Inv := by
        simp only [Cursor.Inv, hm, hs, optChunks_length]; exact Nat.le_refl _
      unfold taggedLoop
      have h2 : c.size ≥ 2 := by simp only [hs, wireSize]; omega
      simp only [h2, ↓reduceIte]
      have hmem : c.mem = [UInt8.ofNat (o.code % 256)] ++ ([UInt8.ofNat (o.lenField % 256)] ++ (o.data ++ (optChunks os).flatten)) := by
        rw [hm]; simp [optChunks]
      rcases readU8_spec c hinv with ⟨v1, c1, e1, i1, s1, _, m1, hv1⟩ | ⟨_, hlt⟩
      · rcases readU8_spec c1 i1 with ⟨v2, c2, e2, i2, s2, _, m2, hv2⟩ | ⟨_, hlt⟩
        · have hv1' : v1 = o.code := by
            rw [hv1, hmem]; simp only [List.singleton_append, List.take_succ_cons, List.take_zero]
            exact beNat_single _ hcode
          have hm1' : c1.mem = [UInt8.ofNat (o.lenField % 256)] ++ (o.data ++ (optChunks os).flatten) := by
            rw [m1, hmem]; rfl
          have hv2' : v2 = o.lenField := by
            rw [hv2, hm1']; simp only [List.singleton_append, List.take_succ_cons, List.take_zero]
            exact beNat_single _ (by omega)
          have hm2' : c2.mem = o.data ++ (optChunks os).flatten := by rw [m2, hm1']; rfl
          have hs2' : c2.size = o.data.length + wireSize os := by
            simp only [hs, wireSize] at *; omega
          simp only [e1, e2, bind, Out.bind]
          have hcan : c2.canRead v2 = true := by
            simp only [Cursor.canRead, decide_eq_true_eq, hv2', hlen]; omega
          simp only [hcan, Bool.not_true, Bool.false_eq_true, ↓reduceIte]
          have hpeek : Cursor.peek "Dot11::add_tagged_option" c2 0 v2 = .ok o.data := by
            simp only [Cursor.peek, rdN, hm2', hv2', hlen, List.length_append]
            have : 0 + o.data.length ≤ o.data.length + (optChunks os).flatten.length := by omega
            simp only [this, ↓reduceIte, List.drop_zero, List.take_left' rfl]
          rcases Cursor.skip_spec c2 v2 i2 with ⟨c3, e3, i3, s3, _⟩ | ⟨_, hlt⟩
          · have hm3 : c3.mem = (optChunks os).flatten := by
              rw [skip_mem _ _ _ e3, hm2', hv2', hlen]; exact List.drop_left' rfl
            have hs3 : c3.size = wireSize os := by rw [s3, hs2', hv2', hlen]; omega
            simp only [hpeek, e3]
            rcases ih (fun x hx => hc x (List.mem_cons_of_mem _ hx)) fuel c3 (acc ++ [⟨v1, v2, o.data⟩])
              ((sz + v2 + 2) % 4294967296) hm3 hs3 (by simp only [List.length_cons] at hf; omega) with ⟨n, hn⟩
            refine ⟨n, ?_⟩
            rw [hn, hv1', hv2']
            simp
          · omega
        · omega
      · omega

/-- the parser's result on the encoding of canonical options: exactly the list, with its wire size as cached size -/
theorem parseTagged_encode (os : List Opt) (hc : ∀ o ∈ os, CanonOpt o) (hf : wireSize os < 4294967296) (c : Cursor)
    (hm : c.mem = (optChunks os).flatten) (hs : c.size = wireSize os) :
    parseTagged c = .ok (os, wireSize os) := by
  have hinv : c.Inv := by simp only [Cursor.Inv, hm, hs, optChunks_length]; exact Nat.le_refl _
  rcases parseTagged_spec c hinv with ⟨os', n, e, hn, _, _⟩ | e
  · unfold parseTagged at e ⊢
    by_cases ht : c.toBool
    · simp only [ht, ↓reduceIte] at e ⊢
      have hlen : os.length + 1 ≤ c.size / 2 + 1 := by
        have : 2 * os.length ≤ wireSize os := by
          clear hc hf hm hs hinv e hn ht
          induction os with
          | nil => simp [wireSize]
          | cons x xs ih => simp only [List.length_cons, wireSize]; omega
        omega
      rcases taggedLoop_encode os hc (c.size / 2 + 1) c [] 0 hm hs hlen with ⟨n', hn'⟩
      rw [hn'] at e
      simp only [List.nil_append] at e
      injection e with e; injection e with e1 e2
      subst e1; subst e2
      rw [hn', hn, Nat.mod_eq_of_lt hf]; simp
    · have hz : os = [] := by
        have : c.size = 0 := by simpa [Cursor.toBool] using ht
        cases os with
        | nil => rfl
        | cons x xs => simp only [wireSize] at hs; omega
      subst hz
      simp [ht, wireSize]
  · -- the loop cannot throw on a well-formed encoding
    exfalso
    unfold parseTagged at e
    by_cases ht : c.toBool
    · simp only [ht, ↓reduceIte] at e
      have hlen : os.length + 1 ≤ c.size / 2 + 1 := by
        have : 2 * os.length ≤ wireSize os := by
          clear hc hf hm hs hinv e ht
          induction os with
          | nil => simp [wireSize]
          | cons x xs ih => simp only [List.length_cons, wireSize]; omega
        omega
      rcases taggedLoop_encode os hc (c.size / 2 + 1) c [] 0 hm hs hlen with ⟨n', hn'⟩
      rw [hn'] at e; cases e
    · simp [ht] at e

/-- `addr4_` as it appears on the wire -/
def a4Bytes (d : Dot11) : Bytes :=
  if (d.lay.fam = .mgmt ∨ d.lay.fam = .data) ∧ bothDS d.hdr = true then d.addr4 else []

theorem chunks_flatten (d : Dot11) (hw : d.WF) :
    (chunks d).flatten = d.hdr ++ (d.ext ++ (a4Bytes d ++ (d.body ++ (optChunks d.opts).flatten))) := by
  have he := hw.ext
  unfold chunks a4Bytes
  rcases hfam : d.lay.fam with _ | _ | _ | _
  · have : d.ext = [] := by
      rw [hfam] at he; simpa [Fam.extLen] using he
    simp [this]
  · simp
  · by_cases hb : bothDS d.hdr = true <;> simp [hb]
  · by_cases hb : bothDS d.hdr = true <;> simp [hb]

/-- what the data-frame constructors do with the bytes that follow the header -/
def innerFor (d : Dot11) (p : Bytes) : Inner :=
  if d.lay.payload = true ∧ p ≠ [] then
    (if (byteAt d.hdr 1 / 64 % 2 == 1) = true then .raw p else .cls "SNAP" p false)
  else .none

/-- **C03 / every Dot11 class**: parsing the bytes `write_serialization` produced for a well-formed canonical object
    (followed, for data frames, by the payload `p`) yields exactly that object — every header struct, the fixed
    parameters, the tagged options in order (codes, lengths, bytes) and the cached size — and the same payload. -/
theorem dot11_reparse (d : Dot11) (hw : d.WF) (hc : d.Canon) (hf : d.Fits) (p : Bytes)
    (hp : d.lay.payload = false → p = []) (hx : d.lay.tagged = true → d.lay.payload = false) :
    parseWith d.cls d.lay ((chunks d).flatten ++ p) = .ok (d, innerFor d p) := by
  rw [chunks_flatten d hw]
  generalize hB : d.hdr ++ (d.ext ++ (a4Bytes d ++ (d.body ++ (optChunks d.opts).flatten))) ++ p = B
  have hBeq : B = d.hdr ++ (d.ext ++ (a4Bytes d ++ (d.body ++ ((optChunks d.opts).flatten ++ p)))) := by
    rw [← hB]; simp
  have ha4l : (a4Bytes d).length = if (d.lay.fam = .mgmt ∨ d.lay.fam = .data) ∧ bothDS d.hdr = true then 6 else 0 := by
    unfold a4Bytes; split <;> simp [hw.a4]
  have hBlen : B.length = 10 + d.lay.fam.extLen + (a4Bytes d).length + d.lay.body.sum + wireSize d.opts + p.length := by
    rw [hBeq]; simp only [List.length_append, hw.hdr, hw.ext, hw.body, optChunks_length]; omega
  unfold parseWith
  rcases parseBase_spec B with ⟨h, eh, _, hh, hb10⟩ | ⟨_, hlt⟩
  · have hh' : h = d.hdr := by rw [hh, hBeq]; exact List.take_left' hw.hdr
    subst hh'
    rcases parseExt_spec d.lay.fam B d.hdr hb10 with ⟨e, a, off, ee, _, _, _, _, he, hoff, ha1, ha2⟩ | ee
    · have hdrop10 : B.drop 10 = d.ext ++ (a4Bytes d ++ (d.body ++ ((optChunks d.opts).flatten ++ p))) := by
        rw [hBeq]; exact List.drop_left' hw.hdr
      have he' : e = d.ext := by rw [he, hdrop10]; exact List.take_left' hw.ext
      have hoff' : off = 10 + d.lay.fam.extLen + (a4Bytes d).length := by rw [hoff, ha4l]
      have ha' : a = d.addr4 := by
        by_cases hcond : (d.lay.fam = .mgmt ∨ d.lay.fam = .data) ∧ bothDS d.hdr = true
        · rw [ha1 hcond.1 hcond.2]
          have h14 : d.lay.fam.extLen = 14 := by rcases hcond.1 with h | h <;> simp [h, Fam.extLen]
          have : B.drop 24 = d.addr4 ++ (d.body ++ ((optChunks d.opts).flatten ++ p)) := by
            have : (24 : Nat) = 10 + 14 := rfl
            rw [this, ← List.drop_drop, hdrop10, List.drop_left' (by rw [hw.ext, h14])]
            simp [a4Bytes, hcond]
          rw [this]; exact List.take_left' hw.a4
        · rw [ha2 hcond]; exact (hc.a4 hcond).symm
      subst he'; subst ha'
      rcases Cursor.skip_spec (Cursor.ofBytes B) off (Cursor.ofBytes_inv B) with ⟨c1, e1, i1, s1, _⟩ | ⟨_, hlt⟩
      · have hm1 : c1.mem = d.body ++ ((optChunks d.opts).flatten ++ p) := by
          rw [skip_mem _ _ _ e1]
          show B.drop off = _
          rw [hoff', Nat.add_assoc, ← List.drop_drop, hdrop10, ← List.append_assoc,
            List.drop_left' (by simp only [List.length_append, hw.ext])]
        have hs1 : c1.size = d.lay.body.sum + wireSize d.opts + p.length := by
          have : (Cursor.ofBytes B).size = B.length := rfl
          omega
        rcases readChunks_spec d.lay.body c1 i1 with ⟨body, c2, e2, i2, _, s2, _, hbody, hm2⟩ | ⟨_, hlt⟩
        · have hbody' : body = d.body := by rw [hbody, hm1]; exact List.take_left' hw.body
          have hm2' : c2.mem = (optChunks d.opts).flatten ++ p := by rw [hm2, hm1]; exact List.drop_left' hw.body
          have hs2' : c2.size = wireSize d.opts + p.length := by omega
          subst hbody'
          have hopts : parseOpts d.lay.tagged c2 = .ok (d.opts, d.optSize) := by
            unfold parseOpts
            by_cases ht : d.lay.tagged = true
            · have hp0 : p = [] := hp (hx ht)
              subst hp0
              simp only [ht, ↓reduceIte]
              have hos : d.optSize = wireSize d.opts := by rw [hw.osz]; exact Nat.mod_eq_of_lt hf
              rw [hos]
              exact parseTagged_encode d.opts hc.opts hf c2 (by simpa using hm2') (by simpa using hs2')
            · have ht' : d.lay.tagged = false := by simpa using ht
              obtain ⟨h1, h2⟩ := hc.untagged ht'
              simp only [ht', Bool.false_eq_true, ↓reduceIte, h1, h2]; rfl
          simp only [eh, ee, e1, e2, hopts, bind, Out.bind]
          have heta : (⟨d.cls, d.lay, d.hdr, d.ext, d.addr4, d.body, d.opts, d.optSize⟩ : Dot11) = d := by cases d; rfl
          rw [heta]
          by_cases hpay : d.lay.payload = true
          · have ht' : d.lay.tagged = false := by
              cases ht : d.lay.tagged
              · rfl
              · have := hx ht; rw [hpay] at this; cases this
            obtain ⟨h1, _⟩ := hc.untagged ht'
            have hm2'' : c2.mem = p := by rw [hm2', h1]; simp [optChunks]
            have hs2'' : c2.size = p.length := by rw [hs2', h1]; simp [wireSize]
            simp only [hpay, ↓reduceIte]
            by_cases hpe : p = []
            · have : c2.toBool = false := by simp [Cursor.toBool, hs2'', hpe]
              simp [this, innerFor, hpe]
            · have hpos : 0 < p.length := List.length_pos_iff.mpr hpe
              have : c2.toBool = true := by simp [Cursor.toBool, hs2'']; exact hpos
              simp only [this, ↓reduceIte]
              have hrest : Cursor.rest "Dot11Data inner" c2 = .ok p := by
                simp only [Cursor.rest, rdN, hm2'', hs2'', Nat.zero_add, Nat.le_refl, ↓reduceIte, List.drop_zero, List.take_length]
              simp only [hrest, innerFor, hpay, hpe, ne_eq, not_false_eq_true, and_self, ↓reduceIte]
              split <;> rfl
          · have hpay' : d.lay.payload = false := by simpa using hpay
            simp [hpay', innerFor]
        · omega
      · have : (Cursor.ofBytes B).size = B.length := rfl
        omega
    · -- parseExt cannot throw: the bytes are there
      exfalso
      have hlen : 10 + d.lay.fam.extLen + (a4Bytes d).length ≤ B.length := by omega
      have h0 := Cursor.ofBytes_inv B
      have hsz : (Cursor.ofBytes B).size = B.length := rfl
      rcases hfam : d.lay.fam with _ | _ | _ | _ <;> simp only [hfam, parseExt] at ee
      · cases ee
      · rcases Cursor.skip_spec _ 10 h0 with ⟨c1, e1, i1, s1, _⟩ | ⟨_, hlt⟩
        · rcases Cursor.read_spec c1 6 i1 with ⟨ta, c2, e2, _⟩ | ⟨_, hlt⟩
          · simp [e1, e2, bind, Out.bind] at ee
          · simp only [hfam, Fam.extLen] at hlen; omega
        · omega
      all_goals
        rcases Cursor.skip_spec _ 10 h0 with ⟨c1, e1, i1, s1, _⟩ | ⟨_, hlt⟩
        · rcases Cursor.read_spec c1 14 i1 with ⟨ex, c2, e2, i2, _, s2, _⟩ | ⟨_, hlt⟩
          · by_cases hds : bothDS d.hdr = true
            · rcases Cursor.read_spec c2 6 i2 with ⟨a4, c3, e3, _⟩ | ⟨_, hlt⟩
              · simp [e1, e2, e3, hds, bind, Out.bind] at ee
              · simp only [hfam, Fam.extLen, ha4l, hds] at hlen; simp at hlen; omega
            · simp [e1, e2, hds, bind, Out.bind] at ee
          · simp only [hfam, Fam.extLen] at hlen; omega
        · omega
  · omega

/-- a parsed object is canonical -/
theorem dot11_parse_canon (cls : String) (lay : Layout) (b : Bytes) (d : Dot11) (i : Inner)
    (h : parseWith cls lay b = .ok (d, i)) : d.Canon ∧ d.cls = cls ∧ d.lay = lay := by
  rcases parseWith_spec cls lay b with ⟨d', i', e, _, hcls, hlay, hc, _, _, hnt, ha4⟩ | e
  · rw [h] at e; injection e with e; injection e with e1 _
    subst e1
    exact ⟨⟨hc, by rw [hlay]; exact hnt, by rw [hlay]; exact ha4⟩, hcls, hlay⟩
  · rw [h] at e; cases e

/-- **C03 / every Dot11 class, end to end**: if the parsing constructor of class `cls` accepts `b` (shorter than 4 GiB),
    then parsing the object's own serialization (for a non-data class: with nothing after it) with the same constructor
    succeeds and returns the identical object. -/
theorem dot11_parse_serialize_parse (cls : String) (lay : Layout) (b : Bytes) (d : Dot11) (i : Inner)
    (hb : b.length < 4294967296) (hx : lay.tagged = true → lay.payload = false)
    (h : parseWith cls lay b = .ok (d, i)) (p : Bytes) (hp : lay.payload = false → p = []) :
    parseWith cls lay ((chunks d).flatten ++ p) = .ok (d, innerFor d p) := by
  obtain ⟨hwf, _, hws⟩ := dot11_parse_WF cls lay b d i h
  obtain ⟨hcan, hcls, hlay⟩ := dot11_parse_canon cls lay b d i h
  have := dot11_reparse d hwf hcan (by unfold Fits; omega) p (by rw [hlay]; exact hp) (by rw [hlay]; exact hx)
  rw [hcls, hlay] at this
  exact this

/-- every class of the family has a layout, and it satisfies the side condition of the reparse theorem
    (classes with tagged parameters carry no payload) — the finite class table, decided as a whole -/
theorem layouts_ok : ∀ cls ∈ dot11Classes, ∃ lay, layoutOf cls = some lay ∧ (lay.tagged = true → lay.payload = false) := by
  decide

end Dot11
end Tins.Wire.Wifi
