import TinsModel.Wire.Wifi.TheoremsEapol
/- C03 for RC4EAPOL / RSNEAPOL: parsing what `write_serialization` wrote gives back the object with its derived
   lengths filled in. -/
namespace Tins.Wire.Wifi
open Tins Tins.Wire
namespace Eapol

theorem patch_read (bs v : Bytes) (i : Nat) (h : i + v.length ≤ bs.length) :
    ((Dot11.patch bs i v).drop i).take v.length = v := by
  unfold Dot11.patch
  simp only [h, ↓reduceIte]
  have hl : (bs.take i).length = i := by simp only [List.length_take]; omega
  rw [List.append_assoc, List.drop_left' hl]
  exact List.take_left' rfl

/-- the key-length field `write_body` leaves in the sub-header when the key is not empty -/
theorem subForWrite_klen (e : Eapol) (hw : e.WF) (hk : e.key ≠ []) (hl : e.key.length < 65536) :
    beAt (subForWrite e) (keyLenOff e.rsn) 2 = e.key.length := by
  have hs := hw.sub
  have hne : ¬ (e.key.length == 0) = true := by
    simp only [beq_iff_eq]; intro h; exact hk (List.length_eq_zero_iff.mp h)
  unfold subForWrite
  simp only [hne, Bool.false_eq_true, ↓reduceIte]
  cases hr : e.rsn
  · simp only [hr, Bool.not_false, ↓reduceIte, keyLenOff, Bool.false_eq_true]
    unfold beAt
    have := patch_read e.sub (OutCursor.beBytes 2 e.key.length) 0 (by simp [hs, hr, subLen])
    simp only [OutCursor.beBytes_length] at this
    rw [this, beNat_beBytes]; exact Nat.mod_eq_of_lt (by simpa using hl)
  · simp only [hr, Bool.not_true, Bool.false_eq_true, ↓reduceIte, keyLenOff]
    unfold beAt
    have := patch_read e.sub (OutCursor.beBytes 2 e.key.length) 92 (by simp [hs, hr, subLen])
    simp only [OutCursor.beBytes_length] at this
    rw [this, beNat_beBytes]; exact Nat.mod_eq_of_lt (by simpa using hl)

/-- the header as serialized into a region of `n` bytes (`length = n - 4`) -/
def hdrFor (e : Eapol) (n : Nat) : Bytes := Dot11.patch e.hdr 2 (OutCursor.beBytes 2 ((n + 4294967296 - 4) % 4294967296))

/-- **C03 / RC4EAPOL, RSNEAPOL**: parsing header ++ sub-header ++ key ++ payload as the writer lays them out gives the
    object back — same key, same payload, the sub-header with the key length the writer derived — provided the key
    length field can describe the key (key shorter than 64 KiB; an empty key goes with a zero length field). -/
theorem eapol_reparse (e : Eapol) (hw : e.WF) (p : Bytes) (n : Nat) (hl : e.key.length < 65536)
    (h0 : e.key = [] → beAt e.sub (keyLenOff e.rsn) 2 = 0) :
    parse e.rsn (hdrFor e n ++ (subForWrite e ++ (e.key ++ p))) =
      .ok (⟨e.rsn, hdrFor e n, subForWrite e, e.key⟩, if p = [] then .none else .raw p) := by
  have hhl : (hdrFor e n).length = 5 := by unfold hdrFor; rw [Dot11.patch_length]; exact hw.hdr
  have hsl := subForWrite_length e hw
  have hklen : beAt (subForWrite e) (keyLenOff e.rsn) 2 = e.key.length := by
    by_cases hk : e.key = []
    · have : subForWrite e = e.sub := by simp [subForWrite, hk]
      rw [this, h0 hk, hk]; rfl
    · exact subForWrite_klen e hw hk hl
  generalize hB : hdrFor e n ++ (subForWrite e ++ (e.key ++ p)) = B
  have hBl : B.length = 5 + subLen e.rsn + e.key.length + p.length := by
    rw [← hB]; simp only [List.length_append, hhl, hsl]; omega
  unfold parse
  have hinv := Cursor.ofBytes_inv B
  have hsz : (Cursor.ofBytes B).size = B.length := rfl
  have hmem : (Cursor.ofBytes B).mem = B := rfl
  rcases Cursor.read_spec _ 5 hinv with ⟨hdr, c0, e0, _, _, _, _, hhdr, _⟩ | ⟨_, hlt⟩
  · have hhdr' : hdr = hdrFor e n := by rw [hhdr, hmem, ← hB]; exact List.take_left' hhl
    rcases Cursor.skip_spec _ 5 hinv with ⟨c1, e1, i1, s1, _⟩ | ⟨_, hlt⟩
    · have hm1 : c1.mem = subForWrite e ++ (e.key ++ p) := by
        rw [skip_mem _ _ _ e1, hmem, ← hB]; exact List.drop_left' hhl
      rcases Cursor.read_spec c1 (subLen e.rsn) i1 with ⟨sub, c2, e2, i2, _, s2, _, hsub, hm2⟩ | ⟨_, hlt⟩
      · have hsub' : sub = subForWrite e := by rw [hsub, hm1]; exact List.take_left' hsl
        have hm2' : c2.mem = e.key ++ p := by rw [hm2, hm1]; exact List.drop_left' hsl
        have hs2' : c2.size = e.key.length + p.length := by omega
        subst hhdr'; subst hsub'
        simp only [e0, e1, e2, bind, Out.bind, hklen]
        have hge : c2.size ≥ e.key.length := by omega
        simp only [hge, ↓reduceIte]
        rcases Cursor.read_spec c2 e.key.length i2 with ⟨key, c3, e3, i3, _, s3, _, hkey, hm3⟩ | ⟨_, hlt⟩
        · have hkey' : key = e.key := by rw [hkey, hm2']; exact List.take_left' rfl
          have hm3' : c3.mem = p := by rw [hm3, hm2']; exact List.drop_left' rfl
          have hs3' : c3.size = p.length := by omega
          subst hkey'
          simp only [e3]
          by_cases hp : p = []
          · have : c3.toBool = false := by simp [Cursor.toBool, hs3', hp]
            simp [this, hp]
          · have hpos : 0 < p.length := List.length_pos_iff.mpr hp
            have : c3.toBool = true := by simp [Cursor.toBool, hs3']; exact hpos
            have hrest : Cursor.rest "EAPOL RawPDU" c3 = .ok p := by
              simp only [Cursor.rest, rdN, hm3', hs3', Nat.zero_add, Nat.le_refl, ↓reduceIte, List.drop_zero, List.take_length]
            simp [this, hrest, hp]
        · omega
      · omega
    · omega
  · omega

end Eapol
end Tins.Wire.Wifi
