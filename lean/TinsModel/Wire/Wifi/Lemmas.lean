import TinsModel.Wire.Wifi.Family
import TinsModel.Basic.CursorLemmas
import TinsModel.Basic.CodecLemmas
import TinsModel.Wire.ChainLemmas
import TinsModel.Wire.IfaceLemmas
/-
  Helper lemmas of the Wifi family: specifications of the stream-shaped pieces the parsers are made of
  (`readChunks`, the tagged-parameter loop, `writeAll`).
-/
namespace Tins.Wire.Wifi
open Tins Tins.Wire

/-- outcome classes of a parsing constructor: a packet, or `malformed_packet` — never a fault, never another exception -/
def ParseSafe {α} (r : Out α) : Prop := (∃ a, r = .ok a) ∨ r = .throw .malformedPacket

/-- what a parsing constructor hands to an inner class is strictly shorter than its own input (termination of the
    chain parser) -/
def InnerShorter (i : Inner) (b : Bytes) : Prop :=
  match i with
  | .none => True
  | .raw r => r.length ≤ b.length
  | .cls _ r _ => r.length < b.length

theorem readU8_spec (c : Cursor) (h : c.Inv) :
    (∃ v c', c.readU8 = .ok (v, c') ∧ c'.Inv ∧ c'.size = c.size - 1 ∧ 1 ≤ c.size ∧ c'.mem = c.mem.drop 1
        ∧ v = Cursor.beNat (c.mem.take 1))
    ∨ (c.readU8 = .throw .malformedPacket ∧ c.size < 1) := by
  rcases Cursor.read_spec c 1 h with ⟨bs, c', he, hi, _, hs, hn, hb, hm⟩ | ⟨he, hlt⟩
  · left; exact ⟨Cursor.beNat bs, c', by simp [Cursor.readU8, Cursor.readBE, he, bind, Out.bind], hi, hs, hn, hm, by rw [hb]⟩
  · right; exact ⟨by simp [Cursor.readU8, Cursor.readBE, he, bind, Out.bind], hlt⟩

theorem rest_spec (site : String) (c : Cursor) (h : c.Inv) :
    ∃ bs, Cursor.rest site c = .ok bs ∧ bs = c.mem.take c.size ∧ bs.length = c.size := by
  unfold Cursor.rest rdN
  have h' : c.size ≤ c.mem.length := h
  simp [h']

theorem skip_mem (c c' : Cursor) (n : Nat) (h : c.skip n = .ok c') : c'.mem = c.mem.drop n := by
  simp only [Cursor.skip] at h
  split at h
  · cases h
  · injection h with h; rw [← h]

theorem beNat_take1_lt (m : Bytes) : Cursor.beNat (m.take 1) < 256 := by
  cases m with
  | nil => simp [Cursor.beNat]
  | cons x xs => simp [Cursor.beNat]; exact x.toNat_lt

namespace Dot11

/-- successive reads: all succeed and deliver the next `ns.sum` bytes, or `malformed_packet` -/
theorem readChunks_spec (ns : List Nat) (c : Cursor) (h : c.Inv) :
    (∃ x c', readChunks c ns = .ok (x, c') ∧ c'.Inv ∧ x.length = ns.sum ∧ c'.size = c.size - ns.sum ∧ ns.sum ≤ c.size
        ∧ x = c.mem.take ns.sum ∧ c'.mem = c.mem.drop ns.sum)
    ∨ (readChunks c ns = .throw .malformedPacket ∧ c.size < ns.sum) := by
  induction ns generalizing c with
  | nil =>
    left
    exact ⟨[], c, rfl, h, rfl, by simp, by simp, by simp, by simp⟩
  | cons n ns ih =>
    rcases Cursor.read_spec c n h with ⟨bs, c1, he, hi, hl, hs, hn, hb, hm⟩ | ⟨he, hlt⟩
    · rcases ih c1 hi with ⟨x, c2, he2, hi2, hl2, hs2, hn2, hb2, hm2⟩ | ⟨he2, hlt2⟩
      · left
        refine ⟨bs ++ x, c2, by simp [readChunks, he, he2, bind, Out.bind], hi2, ?_, ?_, ?_, ?_, ?_⟩
        · simp [hl, hl2]
        · simp only [List.sum_cons]; omega
        · simp only [List.sum_cons]; omega
        · rw [hb, hb2, hm, List.sum_cons, List.take_add]
        · rw [hm2, hm, List.sum_cons, List.drop_drop]
      · right
        refine ⟨by simp [readChunks, he, he2, bind, Out.bind], ?_⟩
        simp only [List.sum_cons]; omega
    · right
      refine ⟨by simp [readChunks, he, bind, Out.bind], ?_⟩
      simp only [List.sum_cons]; omega

/-- bytes a list of options occupies on the wire (`Σ (2 + data_size)`) -/
def wireSize : List Opt → Nat
  | [] => 0
  | o :: os => o.data.length + 2 + wireSize os

theorem wireSize_append (a b : List Opt) : wireSize (a ++ b) = wireSize a + wireSize b := by
  induction a with
  | nil => simp [wireSize]
  | cons x xs ih => simp [wireSize, ih]; omega

/-- options as the parser produces them: code and length are single bytes and the length is the data's length -/
def CanonOpt (o : Opt) : Prop := o.code < 256 ∧ o.lenField = o.data.length ∧ o.data.length < 256

/-- **the tagged-parameter loop is safe** for every stream state (`fuel` = at least the number of iterations the
    remaining bytes allow): it never reads outside the buffer, throws only `malformed_packet`, and the cached size it
    accumulates is the wire size of the options it stored -/
theorem taggedLoop_spec (fuel : Nat) (c : Cursor) (acc : List Opt) (sz : Nat) (h : c.Inv) (hf : c.size / 2 + 1 ≤ fuel) :
    (∃ os n, taggedLoop fuel c acc sz = .ok (acc ++ os, n) ∧ n % 4294967296 = (sz + wireSize os) % 4294967296
        ∧ wireSize os ≤ c.size ∧ (∀ o ∈ os, CanonOpt o) ∧ (sz < 4294967296 → n < 4294967296))
    ∨ taggedLoop fuel c acc sz = .throw .malformedPacket := by
  induction fuel generalizing c acc sz with
  | zero => omega
  | succ fuel ih =>
    unfold taggedLoop
    by_cases hs : c.size ≥ 2
    · simp only [hs, ↓reduceIte]
      rcases readU8_spec c h with ⟨code, c1, e1, i1, s1, _, m1, v1⟩ | ⟨e1, _⟩
      · rcases readU8_spec c1 i1 with ⟨len, c2, e2, i2, s2, _, m2, v2⟩ | ⟨e2, _⟩
        · simp only [e1, e2, bind, Out.bind]
          by_cases hc : c2.canRead len
          · simp only [hc, Bool.not_true, Bool.false_eq_true, ↓reduceIte]
            have hc' : len ≤ c2.size := by simpa [Cursor.canRead] using hc
            rcases Cursor.peek_noFault "Dot11::add_tagged_option" c2 0 len i2 (by omega) with ⟨data, e3, l3⟩
            rcases Cursor.skip_spec c2 len i2 with ⟨c3, e4, i4, s4, _⟩ | ⟨e4, hlt⟩
            · simp only [e3, e4]
              rcases ih c3 (acc ++ [⟨code, len, data⟩]) ((sz + len + 2) % 4294967296) i4 (by omega) with
                ⟨os, n, e5, hn, hw, hcan, hlt5⟩ | e5
              · left
                refine ⟨⟨code, len, data⟩ :: os, n, ?_, ?_, ?_, ?_, ?_⟩
                · rw [e5]; simp
                · rw [hn]; simp only [wireSize, l3]; omega
                · simp only [wireSize, l3]; omega
                · intro o ho
                  rcases List.mem_cons.mp ho with rfl | ho
                  · refine ⟨?_, l3.symm, ?_⟩
                    · rw [v1]; exact beNat_take1_lt _
                    · rw [l3, v2]; exact beNat_take1_lt _
                  · exact hcan o ho
                · intro _; exact hlt5 (Nat.mod_lt _ (by decide))
              · right; exact e5
            · omega
          · right
            simp only [hc, Bool.not_false, ↓reduceIte]
        · omega
      · omega
    · left
      simp only [hs, ↓reduceIte]
      exact ⟨[], sz, by simp, by simp [wireSize], by simp [wireSize], by simp, fun h => h⟩

theorem parseTagged_spec (c : Cursor) (h : c.Inv) :
    (∃ os n, parseTagged c = .ok (os, n) ∧ n = wireSize os % 4294967296 ∧ wireSize os ≤ c.size ∧ (∀ o ∈ os, CanonOpt o))
    ∨ parseTagged c = .throw .malformedPacket := by
  unfold parseTagged
  by_cases ht : c.toBool
  · simp only [ht, ↓reduceIte]
    rcases taggedLoop_spec (c.size / 2 + 1) c [] 0 h (Nat.le_refl _) with ⟨os, n, e, hn, hw, hc, hlt⟩ | e
    · left
      refine ⟨os, n, by simpa using e, ?_, hw, hc⟩
      have := hlt (by decide)
      rw [Nat.mod_eq_of_lt this] at hn
      simpa using hn
    · right; exact e
  · left
    simp only [ht, Bool.false_eq_true, ↓reduceIte]
    exact ⟨[], 0, rfl, by simp [wireSize], by simp [wireSize], by simp⟩

end Dot11
end Tins.Wire.Wifi

namespace Tins.Wire.Wifi
open Tins Tins.Wire
namespace Dot11

/-- well-formedness of a Dot11 object: the raw structs have their C++ sizes and the cached `options_size_` is the wire
    size of the option list (as a `uint32_t`) -/
structure WF (d : Dot11) : Prop where
  hdr : d.hdr.length = 10
  ext : d.ext.length = d.lay.fam.extLen
  a4 : d.addr4.length = 6
  body : d.body.length = d.lay.body.sum
  osz : d.optSize = wireSize d.opts % 4294967296

/-- a struct member assignment never changes the struct's size -/
theorem patch_length (bs v : Bytes) (i : Nat) : (patch bs i v).length = bs.length := by
  unfold patch
  split
  · simp only [List.length_append, List.length_take, List.length_drop]; omega
  · rfl

theorem setBits_length (bs : Bytes) (i n shift width v : Nat) : (setBits bs i n shift width v).length = bs.length := by
  unfold setBits; exact patch_length _ _ _

theorem parseBase_spec (b : Bytes) :
    (∃ h, parseBase b = .ok h ∧ h.length = 10 ∧ h = b.take 10 ∧ 10 ≤ b.length)
    ∨ (parseBase b = .throw .malformedPacket ∧ b.length < 10) := by
  unfold parseBase
  rcases Cursor.read_spec (Cursor.ofBytes b) 10 (Cursor.ofBytes_inv b) with ⟨bs, c', he, _, hl, _, hn, hb, _⟩ | ⟨he, hlt⟩
  · left; exact ⟨bs, by simp [he, bind, Out.bind], hl, by simpa [Cursor.ofBytes] using hb, by simpa [Cursor.ofBytes] using hn⟩
  · right; exact ⟨by simp [he, bind, Out.bind], by simpa [Cursor.ofBytes] using hlt⟩

theorem zeros_length (n : Nat) : (zeros n).length = n := by simp [zeros]

theorem parseExt_spec (fam : Fam) (b h : Bytes) (hb : 10 ≤ b.length) :
    (∃ e a off, parseExt fam b h = .ok (e, a, off) ∧ e.length = fam.extLen ∧ a.length = 6 ∧ off ≤ b.length ∧ 10 ≤ off
        ∧ e = (b.drop 10).take fam.extLen
        ∧ off = 10 + fam.extLen + (if (fam = .mgmt ∨ fam = .data) ∧ bothDS h then 6 else 0)
        ∧ ((fam = .mgmt ∨ fam = .data) → bothDS h = true → a = (b.drop 24).take 6)
        ∧ (¬ ((fam = .mgmt ∨ fam = .data) ∧ bothDS h = true) → a = zeros 6))
    ∨ parseExt fam b h = .throw .malformedPacket := by
  have h0 := Cursor.ofBytes_inv b
  have hsz : (Cursor.ofBytes b).size = b.length := rfl
  have hmem : (Cursor.ofBytes b).mem = b := rfl
  cases fam with
  | plain =>
    left
    exact ⟨[], zeros 6, 10, rfl, rfl, zeros_length 6, hb, Nat.le_refl _, by simp [Fam.extLen], by simp [Fam.extLen],
      by simp, by simp⟩
  | ta =>
    simp only [parseExt]
    rcases Cursor.skip_spec _ 10 h0 with ⟨c1, e1, i1, s1, _⟩ | ⟨e1, hlt⟩
    · rcases Cursor.read_spec c1 6 i1 with ⟨ta, c2, e2, _, l2, _, n2, b2, _⟩ | ⟨e2, _⟩
      · left
        have hm1 : c1.mem = b.drop 10 := skip_mem _ _ _ e1
        refine ⟨ta, zeros 6, 16, by simp [e1, e2, bind, Out.bind], l2, zeros_length 6, by omega, by omega, ?_, by simp [Fam.extLen],
          by simp, by simp⟩
        rw [b2, hm1]; rfl
      · right; simp [e1, e2, bind, Out.bind]
    · right; simp [e1, bind, Out.bind]
  | mgmt =>
    simp only [parseExt]
    rcases Cursor.skip_spec _ 10 h0 with ⟨c1, e1, i1, s1, _⟩ | ⟨e1, hlt⟩
    · have hm1 : c1.mem = b.drop 10 := skip_mem _ _ _ e1
      rcases Cursor.read_spec c1 14 i1 with ⟨ext, c2, e2, i2, l2, s2, n2, b2, m2⟩ | ⟨e2, _⟩
      · by_cases hds : bothDS h
        · rcases Cursor.read_spec c2 6 i2 with ⟨a4, c3, e3, _, l3, _, n3, b3, _⟩ | ⟨e3, _⟩
          · left
            refine ⟨ext, a4, 30, by simp [e1, e2, e3, hds, bind, Out.bind], l2, l3, by omega, by omega, ?_, by simp [Fam.extLen, hds],
              ?_, by simp [hds]⟩
            · rw [b2, hm1]; rfl
            · intro _ _; rw [b3, m2, hm1, List.drop_drop]
          · right; simp [e1, e2, e3, hds, bind, Out.bind]
        · left
          refine ⟨ext, zeros 6, 24, by simp [e1, e2, hds, bind, Out.bind], l2, zeros_length 6, by omega, by omega, ?_,
            by simp [Fam.extLen, hds], by simp [hds], by simp⟩
          rw [b2, hm1]; rfl
      · right; simp [e1, e2, bind, Out.bind]
    · right; simp [e1, bind, Out.bind]
  | data =>
    simp only [parseExt]
    rcases Cursor.skip_spec _ 10 h0 with ⟨c1, e1, i1, s1, _⟩ | ⟨e1, hlt⟩
    · have hm1 : c1.mem = b.drop 10 := skip_mem _ _ _ e1
      rcases Cursor.read_spec c1 14 i1 with ⟨ext, c2, e2, i2, l2, s2, n2, b2, m2⟩ | ⟨e2, _⟩
      · by_cases hds : bothDS h
        · rcases Cursor.read_spec c2 6 i2 with ⟨a4, c3, e3, _, l3, _, n3, b3, _⟩ | ⟨e3, _⟩
          · left
            refine ⟨ext, a4, 30, by simp [e1, e2, e3, hds, bind, Out.bind], l2, l3, by omega, by omega, ?_, by simp [Fam.extLen, hds],
              ?_, by simp [hds]⟩
            · rw [b2, hm1]; rfl
            · intro _ _; rw [b3, m2, hm1, List.drop_drop]
          · right; simp [e1, e2, e3, hds, bind, Out.bind]
        · left
          refine ⟨ext, zeros 6, 24, by simp [e1, e2, hds, bind, Out.bind], l2, zeros_length 6, by omega, by omega, ?_,
            by simp [Fam.extLen, hds], by simp [hds], by simp⟩
          rw [b2, hm1]; rfl
      · right; simp [e1, e2, bind, Out.bind]
    · right; simp [e1, bind, Out.bind]

end Dot11
end Tins.Wire.Wifi

namespace Tins.Wire.Wifi
open Tins Tins.Wire
namespace Dot11

/-- successive `stream.write` calls whose total fits the stream all succeed and lay the chunks out back to back -/
theorem writeAll_spec (xs : List Bytes) (o : OutCursor) (h : o.Inv) (hs : xs.flatten.length ≤ o.size) :
    writeAll o xs = .ok ⟨o.done ++ xs.flatten, o.rest.drop xs.flatten.length, o.size - xs.flatten.length⟩ := by
  induction xs generalizing o with
  | nil => simp [writeAll]
  | cons x xs ih =>
    simp only [List.flatten_cons, List.length_append] at hs
    have h' : o.size ≤ o.rest.length := h
    have h1 : ¬ o.size < x.length := by omega
    have h2 : ¬ o.rest.length < x.length := by omega
    have hi : (⟨o.done ++ x, o.rest.drop x.length, o.size - x.length⟩ : OutCursor).Inv := by
      simp only [OutCursor.Inv, List.length_drop]; omega
    have := ih ⟨o.done ++ x, o.rest.drop x.length, o.size - x.length⟩ hi (by simp only []; omega)
    simp only [writeAll, OutCursor.write, h1, h2, ↓reduceIte, bind, Out.bind, this]
    simp only [List.flatten_cons, List.append_assoc, List.drop_drop, List.length_append]
    congr 2
    omega

/-- when the chunks do not fit, the bounds-checked stream throws `serialization_error` (it never writes past the
    region) -/
theorem writeAll_throws (xs : List Bytes) (o : OutCursor) (h : o.Inv) (hs : o.size < xs.flatten.length) :
    writeAll o xs = .throw .serializationError := by
  induction xs generalizing o with
  | nil => simp at hs
  | cons x xs ih =>
    simp only [List.flatten_cons, List.length_append] at hs
    have h' : o.size ≤ o.rest.length := h
    by_cases h1 : o.size < x.length
    · simp [writeAll, OutCursor.write, h1, bind, Out.bind]
    · have h2 : ¬ o.rest.length < x.length := by omega
      have hi : (⟨o.done ++ x, o.rest.drop x.length, o.size - x.length⟩ : OutCursor).Inv := by
        simp only [OutCursor.Inv, List.length_drop]; omega
      have := ih ⟨o.done ++ x, o.rest.drop x.length, o.size - x.length⟩ hi (by simp only []; omega)
      simp only [writeAll, OutCursor.write, h1, h2, ↓reduceIte, bind, Out.bind, this]

theorem optChunks_length (os : List Opt) : (optChunks os).flatten.length = wireSize os := by
  induction os with
  | nil => rfl
  | cons o os ih => simp [optChunks, wireSize, ih]; omega

/-- the option list fits the `uint32_t` cache (always true of real objects: the vectors would exceed 4 GiB otherwise) -/
def Fits (d : Dot11) : Prop := wireSize d.opts < 4294967296

/-- **size-exactness**: the bytes `write_serialization` emits are exactly `header_size()` many -/
theorem chunks_length (d : Dot11) (hw : d.WF) (hf : d.Fits) : (chunks d).flatten.length = d.hdrSize := by
  have ho : d.optSize = wireSize d.opts := by rw [hw.osz]; exact Nat.mod_eq_of_lt hf
  unfold chunks hdrSize
  rcases hfam : d.lay.fam with _ | _ | _ | _ <;>
    simp only [List.flatten_append, List.length_append, List.flatten_cons, List.flatten_nil, List.length_nil,
      optChunks_length, hw.hdr, hw.body, ho, hw.ext, hfam, Fam.extLen] <;>
    (try split) <;> simp [hw.ext, hw.a4, hfam, Fam.extLen] <;> omega

end Dot11
end Tins.Wire.Wifi
