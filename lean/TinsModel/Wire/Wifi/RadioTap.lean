import TinsModel.Wire.Wifi.Dot11
import TinsModel.Wire.Checksum
/-
  `Tins::RadioTap` (src/radiotap.cpp): parsing constructor, `header_size`, `trailer_size`, `write_serialization`
  (FCS included), and the part of `Utils::RadioTapParser` (src/utils/radiotap_parser.cpp) these use: constructor,
  `find_options_start`, `skip_to_field`, `advance_field`, `current_option`.  Offsets are relative to `start_`
  (= `&options_payload_[0]`, the first present-flags word); every raw pointer access of the C++ goes through
  `rd` / `rdN`.  The RadioTap *setters* (RadioTapWriter) belong to property C11 and are not modelled here.
-/
namespace Tins.Wire.Wifi

/-- `Utils::crc32` (src/utils/checksum_utils.cpp): nibble-table CRC-32 -/
def crcTable : List Nat :=
  [0x4DBDF21C, 0x500AE278, 0x76D3D2D4, 0x6B64C2B0, 0x3B61B38C, 0x26D6A3E8, 0x000F9344, 0x1DB88320,
   0xA005713C, 0xBDB26158, 0x9B6B51F4, 0x86DC4190, 0xD6D930AC, 0xCB6E20C8, 0xEDB71064, 0xF0000000]

def crcStep (crc : Nat) (b : UInt8) : Nat :=
  let c1 := (crc >>> 4) ^^^ crcTable.getD ((crc ^^^ b.toNat) &&& 15) 0
  (c1 >>> 4) ^^^ crcTable.getD ((c1 ^^^ (b.toNat >>> 4)) &&& 15) 0

def crc32 (bs : Bytes) : Nat := bs.foldl crcStep 0

/-- `RadioTapParser::RADIOTAP_METADATA`: (size, alignment) of fields 0 … 21 -/
def rtMeta : List (Nat × Nat) :=
  [(8, 8), (1, 1), (1, 1), (4, 2), (2, 2), (1, 1), (1, 1), (2, 2), (2, 2), (2, 2), (1, 1), (1, 1), (1, 1), (1, 1),
   (2, 2), (2, 2), (1, 1), (1, 1), (8, 4), (3, 1), (8, 4), (12, 2)]

/-- `MAX_RADIOTAP_FIELD` -/
def rtMax : Nat := 22

def rtSize (bit : Nat) : Nat := (rtMeta.getD bit (0, 1)).1
def rtAlign (bit : Nat) : Nat := (rtMeta.getD bit (0, 1)).2

structure RtParser where
  buf : Bytes          -- [start_, end_)
  noBuf : Bool         -- `start_ == 0` (constructed on an empty vector)
  ptr : Nat            -- current_ptr_ - start_
  bit : Nat            -- current_bit_
  flags : Nat          -- current_flags_
  ns : Nat             -- namespace_index_
deriving Repr

namespace RtParser

/-- `flags->ext` of the present word `i`: raw read through `get_flags_ptr()` -/
def extOf (site : String) (buf : Bytes) (i : Nat) : Out Bool := do
  let w ← rdN site buf (4 * i) 4
  pure (byteAt w 3 / 128 == 1)

/-- `load_current_flags()`: `memcpy(&current_flags_, get_flags_ptr(), 4)` -/
def loadFlags (buf : Bytes) (ns : Nat) : Out Nat := do
  let w ← rdN "RadioTapParser::load_current_flags" buf (4 * ns) 4
  pure (Cursor.leNat w)

/-- the `while (flags->ext == 1)` loop of `find_options_start` (`total` = its `total_sz`) -/
def findStartLoop : Nat → Bytes → Nat → Nat → Out Nat
  | 0, _, _, _ => .fault "find_options_start: out of fuel"
  | fuel + 1, buf, i, total => do
    let ext ← extOf "RadioTapParser::find_options_start flags->ext" buf i
    if ext then
      let total := total - 4
      if total < 4 then .throw .malformedPacket else findStartLoop fuel buf (i + 1) total
    else pure (4 * i + 4)

def findOptionsStart (buf : Bytes) (ns : Nat) : Out Nat :=
  if buf.length < 4 then .throw .malformedPacket
  else findStartLoop (buf.length / 4 + 1) buf ns buf.length

/-- the `while ((current_flags_ & 1) == 0 && current_bit_ < MAX)` loop -/
def skipZeroBits : Nat → Nat → Nat → Nat × Nat
  | 0, bit, flags => (bit, flags)
  | fuel + 1, bit, flags =>
    if flags % 2 == 0 && bit < rtMax then skipZeroBits fuel (bit + 1) (flags / 2) else (bit, flags)

/-- `advance_to_next_field()` (also `advance_to_first_field()`) -/
def advanceToNextField (p : RtParser) : RtParser × Bool :=
  let (bit, flags) := skipZeroBits (rtMax + 1) p.bit p.flags
  if bit < rtMax then
    -- align_buffer(start_ - 4, current_ptr_, alignment)
    let n := rtAlign bit
    let off := (p.ptr + 4) % n
    let ptr := if off != 0 then p.ptr + (n - off) else p.ptr
    ({ p with bit := bit, flags := flags, ptr := ptr }, true)
  else ({ p with bit := bit, flags := flags }, false)

/-- `skip_current_field()` -/
def skipCurrentField (p : RtParser) : RtParser × Bool :=
  advanceToNextField { p with ptr := p.ptr + rtSize p.bit, flags := p.flags / 2, bit := p.bit + 1 }

/-- the `while (flags->ext == 1)` loop of `advance_to_next_namespace` (no bounds check in the C++) -/
def nextNsLoop : Nat → Bytes → Nat → Out Nat
  | 0, _, _ => .fault "advance_to_next_namespace: out of fuel"
  | fuel + 1, buf, i => do
    let ext ← extOf "RadioTapParser::advance_to_next_namespace flags->ext" buf i
    if ext then nextNsLoop fuel buf (i + 1) else pure i

/-- `advance_to_next_namespace()` -/
def advanceToNextNamespace (p : RtParser) : Out (RtParser × Bool) := do
  let ns ← nextNsLoop (p.buf.length / 4 + 2) p.buf p.ns
  let flags ← loadFlags p.buf ns
  pure ({ p with ns := ns, flags := flags }, ns != p.ns)

/-- the second half of `advance_field()`: the current namespace is exhausted, try the next one -/
def nextNamespaceField (p1 : RtParser) : Out (RtParser × Bool) := do
  let (p2, moved) ← advanceToNextNamespace p1
  if !moved then pure ({ p2 with bit := rtMax }, false)
  else
    match advanceToNextField { p2 with bit := 0 } with
    | (p3, true) => pure (p3, true)
    | (p3, false) => pure ({ p3 with bit := rtMax }, false)

/-- `advance_field()` -/
def advanceField (p : RtParser) : Out (RtParser × Bool) :=
  if p.noBuf || p.bit == rtMax then pure (p, false)
  else
    match skipCurrentField p with
    | (p1, true) => pure (p1, true)
    | (p1, false) => nextNamespaceField p1

/-- `has_fields()` -/
def hasFields (p : RtParser) : Bool := p.bit != rtMax && p.ptr < p.buf.length

/-- `skip_to_field(flag)` with `flag = 1 << bit`; `fuel` ≥ number of loop iterations -/
def skipToField : Nat → RtParser → Nat → Out RtParser
  | 0, _, _ => .fault "skip_to_field: out of fuel"
  | fuel + 1, p, bit =>
    if p.hasFields && p.bit != bit then do
      let (p', _) ← advanceField p
      skipToField fuel p' bit
    else pure p

/-- `RadioTapParser::RadioTapParser(const vector<uint8_t>& buffer)` -/
def init (buf : Bytes) : Out RtParser :=
  if buf.isEmpty then pure ⟨buf, true, 0, rtMax, 0, 0⟩
  else if buf.length < 4 then .throw .malformedPacket
  else do
    let flags ← loadFlags buf 0
    let start ← findOptionsStart buf 0
    pure (advanceToNextField ⟨buf, false, start, 0, flags, 0⟩).1

/-- enough for two namespaces of 22 fields plus the namespace switch -/
def skipFuel : Nat := 64

end RtParser

structure RadioTap where
  hdr : Bytes          -- `radiotap_header`: it_version, it_pad, it_len (LE)
  payload : Bytes      -- `options_payload_`: present-flags words followed by the fields
deriving Repr, DecidableEq

namespace RadioTap
open Dot11 (leAt patch)

/-- `RadioTap::RadioTap(const uint8_t* buffer, uint32_t total_sz)` -/
def parse (b : Bytes) : Out (RadioTap × Inner) := do
  let c := Cursor.ofBytes b
  let (hdr, c) ← c.read 4
  let len := leAt hdr 2 2
  if len < 8 then .throw .malformedPacket else
  let rsz := len - 4
  if rsz + 4 > c.size then .throw .malformedPacket else do
  -- options_payload_.assign(input.pointer(), input.pointer() + radiotap_size)
  let payload ← c.peek "RadioTap::RadioTap options_payload_.assign" 0 rsz
  let c ← c.skip rsz
  let total := c.size
  let p ← RtParser.init payload
  let p ← RtParser.skipToField RtParser.skipFuel p 1
  let total ←
    if p.hasFields then do
      let fv ← rd "RadioTap::RadioTap *parser.current_option_ptr()" payload p.ptr
      if fv.toNat / 16 % 2 == 1 then
        if total < 4 then .throw .malformedPacket
        else if fv.toNat / 64 % 2 == 1 then .throw .malformedPacket
        else pure (total - 4)
      else pure total
    else pure total
  let r : RadioTap := ⟨hdr, payload⟩
  if total != 0 then do
    -- Dot11::from_bytes(input.pointer(), total_sz): no try/catch around it
    let inner ← c.peek "RadioTap::RadioTap Dot11::from_bytes" 0 total
    pure (r, .cls "Dot11*" inner false)
  else pure (r, .none)

def hdrSize (r : RadioTap) : Nat := 4 + r.payload.length

/-- `RadioTap::trailer_size()`; `throw` = `malformed_packet` escapes from `RadioTapParser` -/
def trlOut (r : RadioTap) : Out Nat := do
  let p ← RtParser.init r.payload
  let p ← RtParser.skipToField RtParser.skipFuel p 1
  if p.hasFields then
    -- parser.current_option(): `if (current_ptr_ + size > end_) throw malformed_packet()`, then the option copies `size` bytes
    if p.ptr + rtSize p.bit > r.payload.length then .throw .malformedPacket
    else do
      let v ← rdN "RadioTapParser::current_option" r.payload p.ptr (rtSize p.bit)
      -- .to<uint8_t>(): data_size() != 1 → malformed_option (FLAGS has size 1)
      if v.length != 1 then .throw .malformedOption
      else if byteAt v 0 / 16 % 2 == 1 then pure 4 else pure 0
  else pure 0

def trl (r : RadioTap) : Nat := match trlOut r with | .ok n => n | _ => 0

/-- `RadioTap::write_serialization` -/
def write (cx : Ctx) (r : RadioTap) (region : Bytes) : Out Bytes := do
  let hdr := patch r.hdr 2 (OutCursor.leBytes 2 (hdrSize r))
  -- stream.write(header_); stream.write(options_payload_.begin(), options_payload_.end())
  let o ← Dot11.writeAll (OutCursor.ofRegion region) [hdr, r.payload]
  let t ← trlOut r
  if t > 0 && !cx.inners.isEmpty then do
    -- Utils::crc32(stream.pointer(), inner_pdu()->size()) reads through the raw pointer
    let innerBytes ← rdN "RadioTap::write_serialization crc32" o.rest 0 cx.innerSize
    let o ← o.skip cx.innerSize
    let o ← o.write (OutCursor.leBytes 4 (crc32 innerBytes))
    pure o.buffer
  else pure o.buffer

def fields (r : RadioTap) : Fields :=
  [("version", toString (byteAt r.hdr 0)), ("padding", toString (byteAt r.hdr 1)),
   ("~length", toString (leAt r.hdr 2 2)), ("options", hexStr r.payload)]

end RadioTap
end Tins.Wire.Wifi
