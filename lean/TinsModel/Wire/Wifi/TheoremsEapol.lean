import TinsModel.Wire.Wifi.Lemmas
/- Theorems about RC4EAPOL / RSNEAPOL and `EAPOL::from_bytes`. -/
namespace Tins.Wire.Wifi
open Tins Tins.Wire
namespace Eapol

/-- the raw structs have their C++ sizes -/
structure WF (e : Eapol) : Prop where
  hdr : e.hdr.length = 5
  sub : e.sub.length = subLen e.rsn

theorem parse_spec (rsn : Bool) (b : Bytes) :
    (∃ e i, parse rsn b = .ok (e, i) ∧ e.WF ∧ e.rsn = rsn ∧ e.hdrSize ≤ b.length
        ∧ (match i with | .none => True | .raw r => r.length < b.length | .cls _ _ _ => False))
    ∨ parse rsn b = .throw .malformedPacket := by
  unfold parse
  have h0 := Cursor.ofBytes_inv b
  have hsz : (Cursor.ofBytes b).size = b.length := rfl
  rcases Cursor.read_spec _ 5 h0 with ⟨hdr, c0, e0, _, l0, _, _, _, _⟩ | ⟨e0, _⟩
  · rcases Cursor.skip_spec _ 5 h0 with ⟨c1, e1, i1, s1, _⟩ | ⟨e1, _⟩
    · rcases Cursor.read_spec c1 (subLen rsn) i1 with ⟨sub, c2, e2, i2, l2, s2, n2, _, _⟩ | ⟨e2, _⟩
      · simp only [e0, e1, e2, bind, Out.bind]
        by_cases hk : c2.size ≥ beAt sub (keyLenOff rsn) 2
        · simp only [hk, ↓reduceIte]
          rcases Cursor.read_spec c2 (beAt sub (keyLenOff rsn) 2) i2 with ⟨key, c3, e3, i3, l3, s3, n3, _, _⟩ | ⟨e3, _⟩
          · simp only [e3]
            have hwf : (⟨rsn, hdr, sub, key⟩ : Eapol).WF := ⟨l0, l2⟩
            have hsize : (⟨rsn, hdr, sub, key⟩ : Eapol).hdrSize ≤ b.length := by
              simp only [hdrSize, l3]; omega
            by_cases ht : c3.toBool
            · simp only [ht, ↓reduceIte]
              rcases rest_spec "EAPOL RawPDU" c3 i3 with ⟨r, er, _, rl⟩
              simp only [er]
              left
              exact ⟨_, _, rfl, hwf, rfl, hsize, by simp only []; omega⟩
            · simp only [ht, Bool.false_eq_true, ↓reduceIte]
              left
              exact ⟨_, _, rfl, hwf, rfl, hsize, trivial⟩
          · omega
        · simp only [hk, ↓reduceIte]
          left
          refine ⟨_, _, rfl, ⟨l0, l2⟩, rfl, ?_, trivial⟩
          simp only [hdrSize, List.length_nil]; omega
      · right; simp only [e0, e1, e2, bind, Out.bind]
    · right; simp only [e0, e1, bind, Out.bind]
  · right; simp only [e0, bind, Out.bind]

/-- **C01 / RC4EAPOL, RSNEAPOL**: the parsing constructors return a packet or throw `malformed_packet`, whatever the
    advertised key length says -/
theorem eapol_parse_safe (rsn : Bool) (b : Bytes) : ParseSafe (parse rsn b) := by
  rcases parse_spec rsn b with ⟨e, i, h, _⟩ | h
  · left; exact ⟨_, h⟩
  · right; exact h

/-- **C01 / `EAPOL::from_bytes`**: the `(const eapol_header*)buffer` cast reads only inside the 5 bytes the length
    check guarantees; the result is a packet, a null pointer (`none`) or `malformed_packet` -/
theorem eapol_fromBytes_safe (b : Bytes) : ParseSafe (fromBytes b) := by
  unfold fromBytes
  by_cases hl : b.length < 5
  · right; simp [hl]
  · simp only [hl, ↓reduceIte]
    have h5 : 0 + 5 ≤ b.length := by omega
    simp only [rdN, h5, ↓reduceIte, bind, Out.bind]
    split
    · rcases eapol_parse_safe false (b.take (if b.length < beAt (List.take 5 (List.drop 0 b)) 2 2 + 4 then b.length
          else beAt (List.take 5 (List.drop 0 b)) 2 2 + 4)) with ⟨a, h⟩ | h
      · left; simp only [h]; exact ⟨_, rfl⟩
      · right; simp only [h]
    · split
      · rcases eapol_parse_safe true (b.take (if b.length < beAt (List.take 5 (List.drop 0 b)) 2 2 + 4 then b.length
            else beAt (List.take 5 (List.drop 0 b)) 2 2 + 4)) with ⟨a, h⟩ | h
        · left; simp only [h]; exact ⟨_, rfl⟩
        · right; simp only [h]
      · left; exact ⟨_, rfl⟩

/-- a parsed object is well-formed -/
theorem eapol_parse_WF (rsn : Bool) (b : Bytes) (e : Eapol) (i : Inner) (h : parse rsn b = .ok (e, i)) : e.WF := by
  rcases parse_spec rsn b with ⟨e', i', he, hwf, _⟩ | he
  · rw [h] at he; injection he with he; injection he with h1 _; rw [h1]; exact hwf
  · rw [h] at he; cases he

theorem subForWrite_length (e : Eapol) (hw : e.WF) : (subForWrite e).length = subLen e.rsn := by
  have hs := hw.sub
  unfold subForWrite
  split
  · exact hs
  · split
    · rw [Dot11.patch_length]; exact hs
    · rw [Dot11.patch_length]; exact hs

def sem (e : Eapol) : LayerSem := { name := if e.rsn then "RSNEAPOL" else "RC4EAPOL", hdr := e.hdrSize, trl := 0, write := e.write }

/-- **C02 / RC4EAPOL, RSNEAPOL**: on every region of at least `header_size()` bytes `write_serialization` (length field,
    the redundant raw `memcpy`, `write_body`) succeeds, keeps the region's length and touches only the header bytes -/
theorem eapol_writesOnly (e : Eapol) (hw : e.WF) : WritesOnly (sem e) := by
  apply writesOnly_of_header_only _ rfl
  intro region hr
  simp only [sem, hdrSize] at hr
  generalize hh : Dot11.patch e.hdr 2 (OutCursor.beBytes 2 ((region.length + 4294967296 - 4) % 4294967296)) = hdr
  have hhl : hdr.length = 5 := by
    rw [← hh, Dot11.patch_length]; exact hw.hdr
  have hsl := subForWrite_length e hw
  have hi : (OutCursor.ofRegion region).Inv := by simp [OutCursor.ofRegion, OutCursor.Inv]
  have hall := Dot11.writeAll_spec [hdr, subForWrite e, e.key] (OutCursor.ofRegion region) hi
    (by simp only [List.flatten_cons, List.flatten_nil, List.length_append, List.length_nil, hhl, hsl, OutCursor.ofRegion]; omega)
  simp only [sem, write, hh, hall, bind, Out.bind]
  simp only [OutCursor.buffer, OutCursor.ofRegion, List.nil_append, List.flatten_cons,
    List.flatten_nil, List.append_nil, List.length_append, hhl, hsl]
  have hlen : ((hdr ++ (subForWrite e ++ e.key)) ++ List.drop (5 + (subLen e.rsn + e.key.length)) region).length = region.length := by
    simp only [List.length_append, List.length_drop, hhl, hsl]; omega
  have hp := poke_eq "EAPOL::write_serialization memcpy"
    ((hdr ++ (subForWrite e ++ e.key)) ++ List.drop (5 + (subLen e.rsn + e.key.length)) region) hdr 0 (by rw [hlen, hhl]; omega)
  refine ⟨_, hp, ?_, ?_⟩
  · rw [length_patched _ _ _ (by rw [hlen, hhl]; omega)]; exact hlen
  · rw [drop_patched _ _ 0 e.hdrSize (by simp only [hdrSize, hhl]; omega) (by rw [hlen, hhl]; omega)]
    rw [List.drop_append_of_le_length (by simp only [List.length_append, hhl, hsl, hdrSize]; omega)]
    rw [List.drop_eq_nil_of_le (by simp only [List.length_append, hhl, hsl, hdrSize]; omega), List.nil_append]
    congr 1
    simp only [hdrSize]; omega

end Eapol
end Tins.Wire.Wifi
