import TinsModel.Wire.Wifi.TheoremsDot11
import TinsModel.Wire.Wifi.TheoremsDot11Api
import TinsModel.Wire.Wifi.TheoremsDot11Reparse
import TinsModel.Wire.Wifi.TheoremsEapol
import TinsModel.Wire.Wifi.TheoremsEapolReparse
import TinsModel.Wire.Wifi.TheoremsRadioTap
import TinsModel.Wire.Wifi.TheoremsCodec
import TinsModel.Wire.Wifi.TheoremsSetters
import TinsModel.Wire.Wifi.ThFamily
/-
  Per-layer theorems of the Wifi family for the four wire properties (C01 parse_safe, C02 writesOnly,
  C03 reparse, C04 codec inverses), split by class group:
    TheoremsDot11     the Dot11 class family (stated over an arbitrary class layout, so all classes at once):
                      parse safety incl. the tagged-parameter loop and `Dot11::from_bytes`, size-exact writer
    TheoremsDot11Api  the size invariant over API histories (constructors, setters, add/remove option)
    TheoremsDot11Reparse  C03: TLV list round trip, parse ∘ serialize = id on parsed objects
    TheoremsEapol     RC4EAPOL / RSNEAPOL / `EAPOL::from_bytes`
    TheoremsEapolReparse  C03 for the EAPOL key frames
    TheoremsCodec     C04: decode ∘ encode = id for every typed tagged option and RSNInformation (explicit Repr)
    TheoremsSetters   C04: bit-field / member setters and getters of the raw structs form a last-write map
    ThEapolApi        EAPOL constructors / setters keep the raw struct sizes; what the two `from_bytes` factories return
    ThFamily          family-level theorems over `Wifi.parse/hdr/trl/write/mk/apply` (what the registry dispatches to)
    TheoremsRadioTap  RadioTap: the RadioTapParser walk is memory-safe and terminates, parse safety, FCS trailer writer
-/
namespace Tins.Wire.Wifi
open Tins Tins.Wire

/-! non-vacuity: the hypotheses of the theorems are met by real, non-trivial objects -/

/-- a beacon with an SSID and a rates element parses, is well-formed, and its header size is what is written -/
example : ∃ d, Dot11.parse "Dot11Beacon" ([0x80, 0] ++ List.replicate 34 1 ++ [0, 3, 97, 98, 99, 1, 2, 0x82, 0x84]) = .ok (d, .none)
    ∧ d.opts.length = 2 ∧ d.hdrSize = 45 := ⟨_, rfl, rfl, rfl⟩

/-- a truncated tagged parameter is rejected with `malformed_packet`, not read past the end -/
example : Dot11.parse "Dot11ProbeRequest" ([0x40, 0] ++ List.replicate 22 0 ++ [0, 5, 1, 2]) = .throw .malformedPacket := rfl

/-- the API history add, add, remove keeps the cached size exact -/
example :
    let d0 := Dot11.create "Dot11Beacon" ⟨.mgmt, [12], true, false⟩ (zeros 6) (zeros 6)
    let d := Dot11.removeOption (Dot11.addTagged (Dot11.addTagged d0 0 [97, 98, 99]) 3 [6]) 0
    d.optSize = 3 ∧ Dot11.wireSize d.opts = 3 ∧ d.hdrSize = 39 := by decide

/-- an RSN EAPOL key frame with a 2-byte key and 1 byte of payload -/
example : ∃ e, Eapol.parse true ([2, 3, 0, 98, 2] ++ List.replicate 92 0 ++ [0, 2, 7, 8, 9]) = .ok (e, .raw [9]) ∧ e.key = [7, 8] :=
  ⟨_, rfl, rfl⟩

/-- a RadioTap header with TSFT + FLAGS (FCS bit set) in front of an ACK frame and its FCS: the walk finds FLAGS, the
    FCS is cut off the inner frame and `trailer_size()` is 4 -/
example : RadioTap.parse ([0, 0, 17, 0, 3, 0, 0, 0] ++ List.replicate 8 7 ++ [0x10] ++
    [0xd4, 0, 0, 0, 1, 2, 3, 4, 5, 6] ++ [9, 9, 9, 9]) =
    .ok (⟨[0, 0, 17, 0], [3, 0, 0, 0] ++ List.replicate 8 7 ++ [0x10]⟩, .cls "Dot11*" [0xd4, 0, 0, 0, 1, 2, 3, 4, 5, 6] false) := rfl
example : RadioTap.trl ⟨[0, 0, 17, 0], [3, 0, 0, 0] ++ List.replicate 8 7 ++ [0x10]⟩ = 4 := rfl

/-- a present-word chain whose `ext` bits run off the end of the header is rejected, not followed -/
example : RadioTap.parse ([0, 0, 12, 0, 0, 0, 0, 0x80, 0, 0, 0, 0x80] ++ List.replicate 8 0) = .throw .malformedPacket := rfl

end Tins.Wire.Wifi
