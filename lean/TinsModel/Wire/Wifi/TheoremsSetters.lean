import TinsModel.Wire.Wifi.Lemmas
/-
  C04 — scalar setters and getters of the raw wire structs are a last-write map: a bit-field setter followed by its
  getter returns the value set (truncated to the field's width, as `small_uint<n>` arguments are), every other
  bit-field of the same integer keeps its value, and a byte-range member assignment reads back as assigned without
  touching any other byte.  All Dot11 / EAPOL getters are `leAt … / 2^shift % 2^width`, `beAt`, `hexAt` of such members.
-/
namespace Tins.Wire.Wifi
open Tins Tins.Wire
namespace Dot11

/-- replacing the `w`-bit field at bit `s` of `x` by `v` and reading that field back gives `v mod 2^w` -/
theorem bits_set_get (x s w v : Nat) :
    (x - (x / 2 ^ s % 2 ^ w) * 2 ^ s + (v % 2 ^ w) * 2 ^ s) / 2 ^ s % 2 ^ w = v % 2 ^ w := by
  have hs : 0 < 2 ^ s := Nat.pow_pos (by decide)
  have hw : 0 < 2 ^ w := Nat.pow_pos (by decide)
  have hx : x = 2 ^ s * (x / 2 ^ s) + x % 2 ^ s := (Nat.div_add_mod x (2 ^ s)).symm
  have hq : x / 2 ^ s = 2 ^ w * (x / 2 ^ s / 2 ^ w) + x / 2 ^ s % 2 ^ w := (Nat.div_add_mod _ _).symm
  generalize hqd : x / 2 ^ s = q at hx hq
  generalize hr : x % 2 ^ s = r at hx
  have hrlt : r < 2 ^ s := by rw [← hr]; exact Nat.mod_lt _ hs
  generalize hm : q % 2 ^ w = m at hq
  generalize ht : q / 2 ^ w = t at hq
  have e1 : x - m * 2 ^ s + (v % 2 ^ w) * 2 ^ s = r + (2 ^ w * t + v % 2 ^ w) * 2 ^ s := by
    rw [hx, hq]
    have : 2 ^ s * (2 ^ w * t + m) = (2 ^ w * t) * 2 ^ s + m * 2 ^ s := by
      rw [Nat.mul_comm, Nat.add_mul]
    rw [this, Nat.add_mul]
    omega
  rw [e1, Nat.add_mul_div_right _ _ hs, Nat.div_eq_of_lt hrlt, Nat.zero_add, Nat.mul_add_mod]
  exact Nat.mod_mod _ _

/-- the part of `x` below bit `s` is untouched -/
theorem bits_set_low (x s w v : Nat) :
    (x - (x / 2 ^ s % 2 ^ w) * 2 ^ s + (v % 2 ^ w) * 2 ^ s) % 2 ^ s = x % 2 ^ s := by
  have hs : 0 < 2 ^ s := Nat.pow_pos (by decide)
  have hx : x = 2 ^ s * (x / 2 ^ s) + x % 2 ^ s := (Nat.div_add_mod x (2 ^ s)).symm
  have hq : x / 2 ^ s = 2 ^ w * (x / 2 ^ s / 2 ^ w) + x / 2 ^ s % 2 ^ w := (Nat.div_add_mod _ _).symm
  generalize hqd : x / 2 ^ s = q at hx hq
  generalize hr : x % 2 ^ s = r at hx
  have hrlt : r < 2 ^ s := by rw [← hr]; exact Nat.mod_lt _ hs
  generalize hm : q % 2 ^ w = m at hq
  generalize ht : q / 2 ^ w = t at hq
  have e1 : x - m * 2 ^ s + (v % 2 ^ w) * 2 ^ s = r + (2 ^ w * t + v % 2 ^ w) * 2 ^ s := by
    rw [hx, hq]
    have : 2 ^ s * (2 ^ w * t + m) = (2 ^ w * t) * 2 ^ s + m * 2 ^ s := by
      rw [Nat.mul_comm, Nat.add_mul]
    rw [this, Nat.add_mul]
    omega
  rw [e1, Nat.add_mul_mod_self_right, Nat.mod_eq_of_lt hrlt]

/-- the part of `x` from bit `s + w` upwards is untouched -/
theorem bits_set_high (x s w v : Nat) :
    (x - (x / 2 ^ s % 2 ^ w) * 2 ^ s + (v % 2 ^ w) * 2 ^ s) / 2 ^ s / 2 ^ w = x / 2 ^ s / 2 ^ w := by
  have hs : 0 < 2 ^ s := Nat.pow_pos (by decide)
  have hw : 0 < 2 ^ w := Nat.pow_pos (by decide)
  have hx : x = 2 ^ s * (x / 2 ^ s) + x % 2 ^ s := (Nat.div_add_mod x (2 ^ s)).symm
  have hq : x / 2 ^ s = 2 ^ w * (x / 2 ^ s / 2 ^ w) + x / 2 ^ s % 2 ^ w := (Nat.div_add_mod _ _).symm
  generalize hqd : x / 2 ^ s = q at hx hq
  generalize hr : x % 2 ^ s = r at hx
  have hrlt : r < 2 ^ s := by rw [← hr]; exact Nat.mod_lt _ hs
  generalize hm : q % 2 ^ w = m at hq
  generalize ht : q / 2 ^ w = t at hq
  have e1 : x - m * 2 ^ s + (v % 2 ^ w) * 2 ^ s = r + (2 ^ w * t + v % 2 ^ w) * 2 ^ s := by
    rw [hx, hq]
    have : 2 ^ s * (2 ^ w * t + m) = (2 ^ w * t) * 2 ^ s + m * 2 ^ s := by
      rw [Nat.mul_comm, Nat.add_mul]
    rw [this, Nat.add_mul]
    omega
  have hvlt : v % 2 ^ w < 2 ^ w := Nat.mod_lt _ hw
  rw [e1, Nat.add_mul_div_right _ _ hs, Nat.div_eq_of_lt hrlt, Nat.zero_add, Nat.mul_comm (2 ^ w) t, Nat.add_comm,
    Nat.add_mul_div_right _ _ hw, Nat.div_eq_of_lt hvlt, Nat.zero_add]

/-- a member assignment reads back as assigned -/
theorem patch_get (bs v : Bytes) (i : Nat) (h : i + v.length ≤ bs.length) : ((patch bs i v).drop i).take v.length = v := by
  unfold patch
  simp only [h, ↓reduceIte]
  have hl : (bs.take i).length = i := by simp only [List.length_take]; omega
  rw [List.append_assoc, List.drop_left' hl]
  exact List.take_left' rfl

/-- … and leaves every byte before the member alone -/
theorem patch_before (bs v : Bytes) (i : Nat) : (patch bs i v).take i = bs.take i := by
  unfold patch
  split
  · rename_i h
    have hl : (bs.take i).length = i := by simp only [List.length_take]; omega
    rw [List.append_assoc, List.take_left' hl]
  · rfl

/-- … and every byte after it -/
theorem patch_after (bs v : Bytes) (i : Nat) : (patch bs i v).drop (i + v.length) = bs.drop (i + v.length) := by
  unfold patch
  split
  · rename_i h
    have hl : (bs.take i ++ v).length = i + v.length := by simp only [List.length_append, List.length_take]; omega
    exact List.drop_left' hl
  · rfl

/-- the integer a bit-field assignment leaves in the struct: the old value with the field replaced (the result still
    fits the integer's width, so nothing is lost in the store) -/
theorem leAt_setBits (bs : Bytes) (i n s w v : Nat) (h : i + n ≤ bs.length) (hfit : s + w ≤ 8 * n) :
    leAt (setBits bs i n s w v) i n = leAt bs i n - leAt bs i n / 2 ^ s % 2 ^ w * 2 ^ s + v % 2 ^ w * 2 ^ s := by
  unfold setBits leAt
  have hl : (OutCursor.leBytes n (Cursor.leNat ((bs.drop i).take n) - Cursor.leNat ((bs.drop i).take n) / 2 ^ s % 2 ^ w * 2 ^ s
      + v % 2 ^ w * 2 ^ s)).length = n := OutCursor.leBytes_length _ _
  have := patch_get bs _ i (by rw [hl]; exact h)
  rw [hl] at this
  rw [this, leNat_leBytes]
  -- the new value still fits the n-byte integer, so the `mod 256^n` of the store is the identity
  generalize hx : Cursor.leNat ((bs.drop i).take n) = x
  have hxlt : x < 256 ^ n := by
    rw [← hx]
    have hlen : ((bs.drop i).take n).length = n := by simp only [List.length_take, List.length_drop]; omega
    generalize (bs.drop i).take n = l at hlen
    clear hx this hl h hfit
    induction l generalizing n with
    | nil => simp at hlen; subst hlen; simp [Cursor.leNat]
    | cons a as ih =>
      cases n with
      | zero => simp at hlen
      | succ n =>
        have := ih n (by simpa using hlen)
        simp only [Cursor.leNat, List.foldr_cons] at this ⊢
        have ha := a.toNat_lt
        rw [Nat.pow_succ]; omega
  have hnew : x - x / 2 ^ s % 2 ^ w * 2 ^ s + v % 2 ^ w * 2 ^ s < 256 ^ n := by
    have h256 : (256 : Nat) ^ n = 2 ^ (8 * n) := by rw [show (256 : Nat) = 2 ^ 8 from rfl, ← Nat.pow_mul]
    have hsplit : (2 : Nat) ^ (8 * n) = 2 ^ s * (2 ^ w * 2 ^ (8 * n - (s + w))) := by
      rw [← Nat.pow_add, ← Nat.pow_add]; congr 1; omega
    have hhigh := bits_set_high x s w v
    have hlow := bits_set_low x s w v
    have hget := bits_set_get x s w v
    generalize x - x / 2 ^ s % 2 ^ w * 2 ^ s + v % 2 ^ w * 2 ^ s = y at *
    -- y / 2^s / 2^w = x / 2^s / 2^w < 2^(8n - s - w)
    rw [h256, hsplit]
    rw [h256, hsplit] at hxlt
    have hs : 0 < 2 ^ s := Nat.pow_pos (by decide)
    have hw : 0 < 2 ^ w := Nat.pow_pos (by decide)
    have hxq : x / 2 ^ s / 2 ^ w < 2 ^ (8 * n - (s + w)) := by
      apply Nat.div_lt_of_lt_mul
      apply Nat.div_lt_of_lt_mul
      exact hxlt
    rw [← hhigh] at hxq
    have h1 : y / 2 ^ s < 2 ^ w * 2 ^ (8 * n - (s + w)) := by
      have := Nat.div_add_mod (y / 2 ^ s) (2 ^ w)
      have hm : y / 2 ^ s % 2 ^ w < 2 ^ w := Nat.mod_lt _ hw
      calc y / 2 ^ s = 2 ^ w * (y / 2 ^ s / 2 ^ w) + y / 2 ^ s % 2 ^ w := this.symm
        _ < 2 ^ w * (y / 2 ^ s / 2 ^ w) + 2 ^ w := by omega
        _ = 2 ^ w * (y / 2 ^ s / 2 ^ w + 1) := by rw [Nat.mul_add, Nat.mul_one]
        _ ≤ 2 ^ w * 2 ^ (8 * n - (s + w)) := Nat.mul_le_mul_left _ hxq
    have := Nat.div_add_mod y (2 ^ s)
    have hm : y % 2 ^ s < 2 ^ s := Nat.mod_lt _ hs
    calc y = 2 ^ s * (y / 2 ^ s) + y % 2 ^ s := this.symm
      _ < 2 ^ s * (y / 2 ^ s) + 2 ^ s := by omega
      _ = 2 ^ s * (y / 2 ^ s + 1) := by rw [Nat.mul_add, Nat.mul_one]
      _ ≤ 2 ^ s * (2 ^ w * 2 ^ (8 * n - (s + w))) := Nat.mul_le_mul_left _ h1
  rw [Nat.mod_eq_of_lt hnew]

/-- **bit-field setter / getter**: after `setBits` (every Dot11 / EAPOL flag, type, subtype, fragment and sequence number
    setter) the getter of that field returns the argument truncated to the field width -/
theorem setBits_get (bs : Bytes) (i n s w v : Nat) (h : i + n ≤ bs.length) (hfit : s + w ≤ 8 * n) :
    leAt (setBits bs i n s w v) i n / 2 ^ s % 2 ^ w = v % 2 ^ w := by
  rw [leAt_setBits bs i n s w v h hfit]; exact bits_set_get _ s w v

/-- … the bit-fields below it keep their values -/
theorem setBits_low (bs : Bytes) (i n s w v : Nat) (h : i + n ≤ bs.length) (hfit : s + w ≤ 8 * n) :
    leAt (setBits bs i n s w v) i n % 2 ^ s = leAt bs i n % 2 ^ s := by
  rw [leAt_setBits bs i n s w v h hfit]; exact bits_set_low _ s w v

/-- … and so do the bit-fields above it -/
theorem setBits_high (bs : Bytes) (i n s w v : Nat) (h : i + n ≤ bs.length) (hfit : s + w ≤ 8 * n) :
    leAt (setBits bs i n s w v) i n / 2 ^ s / 2 ^ w = leAt bs i n / 2 ^ s / 2 ^ w := by
  rw [leAt_setBits bs i n s w v h hfit]; exact bits_set_high _ s w v

/-- the bytes outside the integer are untouched -/
theorem setBits_before (bs : Bytes) (i n s w v : Nat) : (setBits bs i n s w v).take i = bs.take i := patch_before _ _ _
theorem setBits_after (bs : Bytes) (i n s w v : Nat) : (setBits bs i n s w v).drop (i + n) = bs.drop (i + n) := by
  have := patch_after bs (OutCursor.leBytes n (leAt bs i n - leAt bs i n / 2 ^ s % 2 ^ w * 2 ^ s + v % 2 ^ w * 2 ^ s)) i
  rw [OutCursor.leBytes_length] at this
  exact this

/-- example instance: `Dot11::subtype(v)` then `subtype()` on the 10-byte header — and `type()`, `protocol()` unchanged -/
example (hdr : Bytes) (h : hdr.length = 10) (v : Nat) :
    leAt (setBits hdr 0 1 4 4 v) 0 1 / 2 ^ 4 % 2 ^ 4 = v % 16 ∧ leAt (setBits hdr 0 1 4 4 v) 0 1 % 2 ^ 4 = leAt hdr 0 1 % 2 ^ 4 :=
  ⟨setBits_get hdr 0 1 4 4 v (by omega) (by omega), setBits_low hdr 0 1 4 4 v (by omega) (by omega)⟩


end Dot11
end Tins.Wire.Wifi
