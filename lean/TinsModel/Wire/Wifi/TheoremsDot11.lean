import TinsModel.Wire.Wifi.Lemmas
/- Theorems about the Dot11 class family (all 21 classes at once: they are stated over an arbitrary class layout). -/
namespace Tins.Wire.Wifi
open Tins Tins.Wire

namespace Dot11

/-- everything the C01 / C02 / C03 theorems need to know about a successful parse -/
theorem parseWith_spec (cls : String) (lay : Layout) (b : Bytes) :
    (∃ d i, parseWith cls lay b = .ok (d, i) ∧ d.WF ∧ d.cls = cls ∧ d.lay = lay ∧ (∀ o ∈ d.opts, CanonOpt o)
        ∧ wireSize d.opts ≤ b.length ∧ InnerShorter i b ∧ (lay.tagged = false → d.opts = [] ∧ d.optSize = 0)
        ∧ (¬ ((lay.fam = .mgmt ∨ lay.fam = .data) ∧ bothDS d.hdr = true) → d.addr4 = zeros 6))
    ∨ parseWith cls lay b = .throw .malformedPacket := by
  unfold parseWith
  rcases parseBase_spec b with ⟨h, eh, hl, _, hb⟩ | ⟨eh, _⟩
  · rcases parseExt_spec lay.fam b h hb with ⟨e, a, off, ee, el, al, offle, off10, _, _, _, ha2⟩ | ee
    · rcases Cursor.skip_spec (Cursor.ofBytes b) off (Cursor.ofBytes_inv b) with ⟨c1, e1, i1, s1, _⟩ | ⟨e1, hlt⟩
      · rcases readChunks_spec lay.body c1 i1 with ⟨body, c2, e2, i2, l2, s2, _⟩ | ⟨e2, _⟩
        · have hsz : c2.size < b.length := by
            have : (Cursor.ofBytes b).size = b.length := rfl
            omega
          have hopts : (∃ os n, parseOpts lay.tagged c2 = .ok (os, n)
                ∧ n = wireSize os % 4294967296 ∧ wireSize os ≤ c2.size ∧ (∀ o ∈ os, CanonOpt o)
                ∧ (lay.tagged = false → os = [] ∧ n = 0))
              ∨ parseOpts lay.tagged c2 = .throw .malformedPacket := by
            unfold parseOpts
            by_cases ht : lay.tagged
            · simp only [ht, ↓reduceIte]
              rcases parseTagged_spec c2 i2 with ⟨os, n, e3, hn, hw, hc⟩ | e3
              · left; exact ⟨os, n, e3, hn, hw, hc, by simp⟩
              · right; exact e3
            · left
              simp only [ht, Bool.false_eq_true, ↓reduceIte]
              exact ⟨[], 0, rfl, by simp [wireSize], by simp [wireSize], by simp, by simp⟩
          simp only [eh, ee, e1, e2, bind, Out.bind]
          rcases hopts with ⟨os, n, e3, hn, hw, hc, hnt⟩ | e3
          · simp only [e3]
            have hwf : (⟨cls, lay, h, e, a, body, os, n⟩ : Dot11).WF := ⟨hl, el, al, l2, hn⟩
            have hws : wireSize os ≤ b.length := by omega
            by_cases hp : lay.payload
            · simp only [hp, ↓reduceIte]
              by_cases hb2 : c2.toBool
              · simp only [hb2, ↓reduceIte]
                rcases rest_spec "Dot11Data inner" c2 i2 with ⟨r, er, _, rl⟩
                simp only [er]
                have hr : r.length < b.length := by omega
                left
                by_cases hwep : (byteAt h 1 / 64 % 2 == 1) = true
                · simp only [hwep, ↓reduceIte]
                  exact ⟨_, _, rfl, hwf, rfl, rfl, hc, hws, Nat.le_of_lt hr, hnt, ha2⟩
                · simp only [hwep, Bool.false_eq_true, ↓reduceIte]
                  exact ⟨_, _, rfl, hwf, rfl, rfl, hc, hws, hr, hnt, ha2⟩
              · simp only [hb2, Bool.false_eq_true, ↓reduceIte]
                left
                exact ⟨_, _, rfl, hwf, rfl, rfl, hc, hws, trivial, hnt, ha2⟩
            · simp only [hp, Bool.false_eq_true, ↓reduceIte]
              left
              exact ⟨_, _, rfl, hwf, rfl, rfl, hc, hws, trivial, hnt, ha2⟩
          · right; simp only [e3]
        · right; simp only [eh, ee, e1, e2, bind, Out.bind]
      · right; simp only [eh, ee, e1, bind, Out.bind]
    · right; simp only [eh, ee, bind, Out.bind]
  · right; simp only [eh, bind, Out.bind]

/-- **C01 / every Dot11 class**: for every class layout and every byte string the parsing constructor returns a
    packet or throws `malformed_packet`; it never reads outside the buffer (tagged-parameter loop included). -/
theorem dot11_parse_safe (cls : String) (lay : Layout) (b : Bytes) : ParseSafe (parseWith cls lay b) := by
  rcases parseWith_spec cls lay b with ⟨d, i, e, _⟩ | e
  · left; exact ⟨_, e⟩
  · right; exact e

/-- `Dot11::from_bytes` only ever selects a class of the family -/
theorem dispatch_known (fc0 : Nat) : ∃ lay, layoutOf (dispatch fc0) = some lay := by
  unfold dispatch
  simp only
  repeat' split
  all_goals exact ⟨_, rfl⟩

/-- **C01 / `Dot11::from_bytes`** (the `(const dot11_header*)buffer` cast reads only the 2 bytes the length check
    guarantees) -/
theorem dot11_fromBytes_safe (b : Bytes) : ParseSafe (fromBytes b) := by
  unfold fromBytes
  by_cases hl : b.length < 2
  · right; simp [hl]
  · simp only [hl, ↓reduceIte]
    have h2 : 0 + 2 ≤ b.length := by omega
    simp only [rdN, h2, ↓reduceIte, bind, Out.bind]
    rcases dispatch_known (byteAt (List.take 2 (List.drop 0 b)) 0) with ⟨lay, hlay⟩
    simp only [parse, hlay]
    exact dot11_parse_safe _ _ _

/-- **C01 / chain termination**: the inner PDU of a data frame is built on strictly fewer bytes -/
theorem dot11_parse_consumes (cls : String) (lay : Layout) (b : Bytes) (d : Dot11) (i : Inner)
    (h : parseWith cls lay b = .ok (d, i)) : InnerShorter i b := by
  rcases parseWith_spec cls lay b with ⟨d', i', e, _, _, _, _, _, hi, _, _⟩ | e
  · rw [h] at e; injection e with e; injection e with _ e2; rw [e2]; exact hi
  · rw [h] at e; cases e

/-- a parsed object is well-formed (the raw structs have their sizes, `options_size_` is the options' wire size) -/
theorem dot11_parse_WF (cls : String) (lay : Layout) (b : Bytes) (d : Dot11) (i : Inner)
    (h : parseWith cls lay b = .ok (d, i)) : d.WF ∧ (∀ o ∈ d.opts, CanonOpt o) ∧ wireSize d.opts ≤ b.length := by
  rcases parseWith_spec cls lay b with ⟨d', i', e, hwf, _, _, hc, hw, _, _, _⟩ | e
  · rw [h] at e; injection e with e; injection e with e1 _; rw [e1]; exact ⟨hwf, hc, hw⟩
  · rw [h] at e; cases e

/-- the `LayerSem` of a Dot11 object (what `Registry.sems` builds: no trailer) -/
def sem (d : Dot11) : LayerSem := { name := d.cls, hdr := d.hdrSize, trl := 0, write := d.write }

/-- on a region that holds the header, `write_serialization` replaces exactly the first `header_size()` bytes by the
    concatenation of the chunks it writes -/
theorem write_eq (d : Dot11) (hw : d.WF) (hf : d.Fits) (region : Bytes) (hr : d.hdrSize ≤ region.length) :
    d.write region = .ok ((chunks d).flatten ++ region.drop d.hdrSize) := by
  have hl := chunks_length d hw hf
  have hi : (OutCursor.ofRegion region).Inv := by simp [OutCursor.ofRegion, OutCursor.Inv]
  have := writeAll_spec (chunks d) (OutCursor.ofRegion region) hi (by simp only [OutCursor.ofRegion, hl]; exact hr)
  simp only [write, this, bind, Out.bind]
  simp [OutCursor.buffer, OutCursor.ofRegion, hl]

/-- when the region is too small for the header the writer throws `serialization_error` — it never writes outside -/
theorem write_small (d : Dot11) (hw : d.WF) (hf : d.Fits) (region : Bytes) (hr : region.length < d.hdrSize) :
    d.write region = .throw .serializationError := by
  have hl := chunks_length d hw hf
  have hi : (OutCursor.ofRegion region).Inv := by simp [OutCursor.ofRegion, OutCursor.Inv]
  have := writeAll_throws (chunks d) (OutCursor.ofRegion region) hi (by simp only [OutCursor.ofRegion, hl]; exact hr)
  simp only [write, this, bind, Out.bind]

/-- **C02 / every Dot11 class**: for every well-formed object (parsed, constructed or edited — see `*_WF`) on every
    region of at least `header_size()` bytes `write_serialization` succeeds, keeps the region's length and touches
    only its own header bytes: `header_size()` (which uses the cached `options_size_`) is exactly what is written. -/
theorem dot11_writesOnly (d : Dot11) (hw : d.WF) (hf : d.Fits) : WritesOnly (sem d) := by
  apply writesOnly_of_header_only _ rfl
  intro region hr
  simp only [sem] at hr
  have hl := chunks_length d hw hf
  refine ⟨_, write_eq d hw hf region hr, ?_, ?_⟩
  · simp only [List.length_append, List.length_drop, hl]; omega
  · simp only [sem]
    rw [List.drop_append_of_le_length (by omega), List.drop_eq_nil_of_le (by omega), List.nil_append]

/-- **C02 for parsed packets**: whatever a Dot11 parsing constructor accepted (from a buffer below 4 GiB) serializes
    into exactly `header_size()` bytes without touching its payload -/
theorem dot11_parsed_writesOnly (cls : String) (lay : Layout) (b : Bytes) (d : Dot11) (i : Inner)
    (hb : b.length < 4294967296) (h : parseWith cls lay b = .ok (d, i)) : WritesOnly (sem d) := by
  obtain ⟨hwf, _, hws⟩ := dot11_parse_WF cls lay b d i h
  exact dot11_writesOnly d hwf (by unfold Fits; omega)

end Dot11
end Tins.Wire.Wifi
