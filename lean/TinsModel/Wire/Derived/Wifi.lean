import TinsModel.Wire.Derived.Bridge
import TinsModel.Wire.Wifi.Theorems
import TinsModel.Wire.L2.Theorems
import TinsModel.Checksum.Verify
import TinsModel.Checksum.SerLemmas
/-
  Property C05 over the wire models of RadioTap, EAPOL (`Wire/Wifi/`) and 802.3 (`Wire/L2/`), for **every** object of those
  models (any RadioTap option payload the parser accepts, RC4 and RSN key frames):

  * RadioTap: `it_len` is `header_size()`; when `trailer_size()` finds the FCS bit in the FLAGS field and there is an inner
    PDU, the four octets behind the inner region are the IEEE 802.3 CRC-32 (bit-by-bit definition) of exactly that region,
    least significant octet first; otherwise nothing is written behind it;
  * EAPOL: the packet body length is the size of the region minus the 4-octet EAPOL header;
  * 802.3: the length field is the size of everything behind the 14-octet header.

  `Wifi.crc32` (the wire model's `Utils::crc32`, over `Nat`) is identified with C05's `BitVec` model and through
  `crc32_table_spec` with the IEEE definition.
-/
set_option autoImplicit false
namespace Tins.Wire.Derived
open Tins Tins.Wire Tins.Wire.Wifi

/-! ### `Utils::crc32` of the wire model = the IEEE CRC-32 -/

/-- the Nat-level CRC of the wire model is the `BitVec` CRC of C05's model (`Utils::crc32` modelled twice) -/
theorem crcTable_same : crcTable = Gen.crcTable := by decide

theorem tbl_lt (i : Nat) : Gen.crcTable.getD i 0 < 2 ^ 32 := by
  by_cases h : i < 16
  · have : ∀ j : Fin 16, Gen.crcTable.getD j.val 0 < 2 ^ 32 := by decide
    exact this ⟨i, h⟩
  · rw [List.getD_eq_getElem?_getD, List.getElem?_eq_none (by simp [Gen.crcTable]; omega)]; decide

theorem crcStep_bv (c : BitVec 32) (d : UInt8) : crcStep c.toNat d = (Ck.crcByteT c d).toNat := by
  unfold crcStep Ck.crcByteT Ck.crcTbl
  simp only [crcTable_same]
  have hd : d.toNat < 256 := UInt8.toNat_lt d
  have e15 : (0x0F#32).toNat = 15 := rfl
  have hm : d.toNat % 2 ^ 32 = d.toNat := Nat.mod_eq_of_lt (by omega)
  simp only [BitVec.toNat_xor, BitVec.toNat_ushiftRight, BitVec.toNat_and, BitVec.toNat_ofNat, e15, hm,
    Nat.mod_eq_of_lt (tbl_lt _)]

theorem crc32_bv_fold (bs : Bytes) (c : BitVec 32) :
    bs.foldl crcStep c.toNat = (bs.foldl Ck.crcByteT c).toNat := by
  induction bs generalizing c with
  | nil => rfl
  | cons b r ih => simp only [List.foldl_cons]; rw [crcStep_bv, ih]

theorem crc32_eq_ck (bs : Bytes) : crc32 bs = (Ck.crc32 bs).toNat := by
  unfold crc32 Ck.crc32
  have := crc32_bv_fold bs (BitVec.ofNat 32 Gen.crcInit)
  rw [← this]; rfl

/-- **the wire model's `Utils::crc32` is the IEEE 802.3 CRC-32** -/
theorem wifi_crc32_ieee (bs : Bytes) : crc32 bs = (Ck.Spec.crcBitwise bs).toNat := by
  rw [crc32_eq_ck, Ck.Verify.crc32_table_spec]

example : crc32 [0x31, 0x32, 0x33, 0x34, 0x35, 0x36, 0x37, 0x38, 0x39] = 0xCBF43926 := by decide

/-! ### RadioTap -/

theorem radiotap_write_fcs (cx : Ctx) (r : RadioTap) (hw : r.WF) (region : Bytes)
    (ht : r.trlOut = .ok 4) (hne : cx.inners ≠ [])
    (hr : region.length = r.hdrSize + cx.innerSize + 4) :
    r.write cx region = .ok (Dot11.patch r.hdr 2 (OutCursor.leBytes 2 r.hdrSize) ++ r.payload
      ++ (region.drop r.hdrSize).take cx.innerSize
      ++ OutCursor.leBytes 4 (crc32 ((region.drop r.hdrSize).take cx.innerSize))) := by
  generalize hh : Dot11.patch r.hdr 2 (OutCursor.leBytes 2 r.hdrSize) = hdr
  have hhl : hdr.length = 4 := by rw [← hh, Dot11.patch_length]; exact hw.hdr
  have hi : (OutCursor.ofRegion region).Inv := by simp [OutCursor.ofRegion, OutCursor.Inv]
  have hall := Dot11.writeAll_spec [hdr, r.payload] (OutCursor.ofRegion region) hi
    (by simp only [List.flatten_cons, List.flatten_nil, List.length_append, List.length_nil, hhl, OutCursor.ofRegion, RadioTap.hdrSize] at *; omega)
  simp only [RadioTap.write, hh, hall, ht, bind, Out.bind]
  simp only [OutCursor.ofRegion, List.nil_append, List.flatten_cons, List.flatten_nil, List.append_nil, List.length_append, hhl]
  have hhs : r.hdrSize = 4 + r.payload.length := rfl
  have hcond : (decide (4 > 0) && !cx.inners.isEmpty) = true := by
    cases hc : cx.inners with
    | nil => exact absurd hc hne
    | cons a as => rfl
  simp only [hcond, ↓reduceIte]
  have hrest : (List.drop (4 + r.payload.length) region).length = cx.innerSize + 4 := by
    simp only [List.length_drop]; omega
  have h1 : 0 + cx.innerSize ≤ (List.drop (4 + r.payload.length) region).length := by omega
  simp only [rdN, h1, ↓reduceIte]
  have hskip : ¬ cx.innerSize > region.length - (4 + r.payload.length) := by omega
  simp only [OutCursor.skip, hskip, ↓reduceIte]
  have hw1 : ¬ region.length - (4 + r.payload.length) - cx.innerSize < (OutCursor.leBytes 4
      (crc32 (List.take cx.innerSize (List.drop 0 (List.drop (4 + r.payload.length) region))))).length := by
    simp only [OutCursor.leBytes_length]; omega
  have hw2 : ¬ (List.drop cx.innerSize (List.drop (4 + r.payload.length) region)).length < (OutCursor.leBytes 4
      (crc32 (List.take cx.innerSize (List.drop 0 (List.drop (4 + r.payload.length) region))))).length := by
    simp only [OutCursor.leBytes_length, List.length_drop]; omega
  simp only [OutCursor.write, hw1, hw2, ↓reduceIte, Out.pure_eq, OutCursor.buffer]
  have hnil : List.drop 4 (List.drop cx.innerSize (List.drop (4 + r.payload.length) region)) = [] :=
    List.drop_eq_nil_of_le (by simp only [List.length_drop]; omega)
  simp only [List.drop_zero, OutCursor.leBytes_length, hnil, List.append_nil, hhs]


theorem radiotap_write_plain (cx : Ctx) (r : RadioTap) (hw : r.WF) (region : Bytes) (t : Nat)
    (ht : r.trlOut = .ok t) (hc : t = 0 ∨ cx.inners = [])
    (hr : r.hdrSize ≤ region.length) :
    r.write cx region = .ok (Dot11.patch r.hdr 2 (OutCursor.leBytes 2 r.hdrSize) ++ r.payload ++ region.drop r.hdrSize) := by
  generalize hh : Dot11.patch r.hdr 2 (OutCursor.leBytes 2 r.hdrSize) = hdr
  have hhl : hdr.length = 4 := by rw [← hh, Dot11.patch_length]; exact hw.hdr
  have hi : (OutCursor.ofRegion region).Inv := by simp [OutCursor.ofRegion, OutCursor.Inv]
  have hall := Dot11.writeAll_spec [hdr, r.payload] (OutCursor.ofRegion region) hi
    (by simp only [List.flatten_cons, List.flatten_nil, List.length_append, List.length_nil, hhl, OutCursor.ofRegion, RadioTap.hdrSize] at *; omega)
  simp only [RadioTap.write, hh, hall, ht, bind, Out.bind]
  simp only [OutCursor.ofRegion, List.nil_append, List.flatten_cons, List.flatten_nil, List.append_nil, List.length_append, hhl]
  have hcond : (decide (t > 0) && !cx.inners.isEmpty) = false := by
    rcases hc with h | h
    · simp [h]
    · simp [h]
  simp only [hcond, Bool.false_eq_true, ↓reduceIte, Out.pure_eq, OutCursor.buffer, RadioTap.hdrSize]

/-- little-endian 16-bit read at offset 2 of a buffer that starts with a patched 4-octet RadioTap header -/
theorem leAt_patched_hdr (h : Bytes) (hl : h.length = 4) (v : Nat) (X : Bytes) :
    Dot11.leAt (Dot11.patch h 2 (OutCursor.leBytes 2 v) ++ X) 2 2 = v % 65536 := by
  have hp : (Dot11.patch h 2 (OutCursor.leBytes 2 v)).length = 4 := by rw [Dot11.patch_length]; exact hl
  have hr := Eapol.patch_read h (OutCursor.leBytes 2 v) 2 (by simp [hl])
  simp only [OutCursor.leBytes_length] at hr
  unfold Dot11.leAt
  rw [List.drop_append_of_le_length (by omega), List.take_append_of_le_length (by simp only [List.length_drop]; omega), hr,
    leNat_leBytes]

/-- **RadioTap `it_len`** (little-endian) is `header_size()` = 4 + the size of the option payload, whatever fields it holds. -/
theorem wire_radiotap_it_len (cx : Ctx) (r : RadioTap) (hw : r.WF) (region : Bytes)
    (hr : region.length = r.hdrSize + cx.innerSize + r.trl) (h16 : r.hdrSize < 65536) :
    ∃ out, r.write cx region = .ok out ∧ out.length = region.length ∧ Dot11.leAt out 2 2 = r.hdrSize := by
  obtain ⟨t, ht, ht04⟩ := hw.trl
  have htrl : r.trl = t := by simp only [RadioTap.trl, ht]
  rw [htrl] at hr
  by_cases hc : t = 0 ∨ cx.inners = []
  · refine ⟨_, radiotap_write_plain cx r hw region t ht hc (by omega), ?_, ?_⟩
    · simp only [List.length_append, Dot11.patch_length, hw.hdr, List.length_drop, RadioTap.hdrSize] at *; omega
    · rw [List.append_assoc, leAt_patched_hdr _ hw.hdr]; exact Nat.mod_eq_of_lt h16
  · have h4 : t = 4 := by rcases ht04 with h | h; (· exact absurd (Or.inl h) hc); exact h
    subst h4
    have hne : cx.inners ≠ [] := fun h => hc (Or.inr h)
    refine ⟨_, radiotap_write_fcs cx r hw region ht hne hr, ?_, ?_⟩
    · simp only [List.length_append, Dot11.patch_length, hw.hdr, List.length_take, List.length_drop,
        OutCursor.leBytes_length, RadioTap.hdrSize] at *; omega
    · rw [List.append_assoc, List.append_assoc, leAt_patched_hdr _ hw.hdr]; exact Nat.mod_eq_of_lt h16

/-- **RadioTap FCS.**  When the FLAGS field the RadioTap parser finds in the option payload has the FCS bit
    (`trailer_size()` = 4) and there is an inner PDU, what `write_serialization` leaves is: the header, the inner region
    untouched, and behind it — nowhere else — four octets holding, least significant first, the IEEE 802.3 CRC-32 of exactly
    the inner region. -/
theorem wire_radiotap_fcs (cx : Ctx) (r : RadioTap) (hw : r.WF) (region : Bytes)
    (ht : r.trlOut = .ok 4) (hne : cx.inners ≠ []) (hr : region.length = r.hdrSize + cx.innerSize + 4) :
    ∃ out, r.write cx region = .ok out ∧
      (out.drop r.hdrSize).take cx.innerSize = (region.drop r.hdrSize).take cx.innerSize ∧
      out.drop (r.hdrSize + cx.innerSize)
        = OutCursor.leBytes 4 (Ck.Spec.crcBitwise ((region.drop r.hdrSize).take cx.innerSize)).toNat := by
  refine ⟨_, radiotap_write_fcs cx r hw region ht hne hr, ?_, ?_⟩
  · have hl : (Dot11.patch r.hdr 2 (OutCursor.leBytes 2 r.hdrSize) ++ r.payload).length = r.hdrSize := by
      simp only [List.length_append, Dot11.patch_length, hw.hdr, RadioTap.hdrSize]
    rw [List.append_assoc, List.drop_left' hl, List.take_left']
    simp only [List.length_take, List.length_drop]; omega
  · have hl : (Dot11.patch r.hdr 2 (OutCursor.leBytes 2 r.hdrSize) ++ r.payload
        ++ (region.drop r.hdrSize).take cx.innerSize).length = r.hdrSize + cx.innerSize := by
      simp only [List.length_append, Dot11.patch_length, hw.hdr, RadioTap.hdrSize, List.length_take, List.length_drop] at *
      omega
    rw [List.drop_left' hl, wifi_crc32_ieee]

/-- without the FCS bit (or without an inner PDU) nothing is written behind the header: the rest of the region is left as it is -/
theorem wire_radiotap_no_fcs (cx : Ctx) (r : RadioTap) (hw : r.WF) (region : Bytes) (t : Nat)
    (ht : r.trlOut = .ok t) (hc : t = 0 ∨ cx.inners = []) (hr : r.hdrSize ≤ region.length) :
    ∃ out, r.write cx region = .ok out ∧ out.drop r.hdrSize = region.drop r.hdrSize := by
  refine ⟨_, radiotap_write_plain cx r hw region t ht hc hr, ?_⟩
  have hl : (Dot11.patch r.hdr 2 (OutCursor.leBytes 2 r.hdrSize) ++ r.payload).length = r.hdrSize := by
    simp only [List.length_append, Dot11.patch_length, hw.hdr, RadioTap.hdrSize]
  exact List.drop_left' hl

/-- the RadioTap object of C05's serialisation model (the default-constructed one, FCS flag on or off) seen by the wire
    model: same trailer size, decided by the same FLAGS field -/
theorem c05_radiotap_trailer_is_wire (fcs : Bool) :
    (⟨[0, 0, 0, 0], Ck.Ser.radiotapPayload fcs⟩ : RadioTap).trl = Ck.Ser.trailerSize (.radiotap fcs) none := by
  cases fcs <;> decide +kernel

/-! ### 802.3 and EAPOL lengths -/

/-- **802.3 length**: bytes 12..13 of what `Dot3::write_serialization` leaves count everything behind the 14-octet header
    (`size() - sizeof(header_)`), when that fits 16 bits. -/
theorem wire_dot3_length (cx : Ctx) (d : L2.Dot3) (h : d.WF) (region : Bytes)
    (hreg : region.length = 14 + cx.innerSize) (h16 : cx.innerSize < 65536) :
    ∃ out, d.write cx region = .ok out ∧ out.length = region.length ∧
      Cursor.beNat ((out.drop 12).take 2) = out.length - 14 := by
  have hwf1 : ({ d with len := cx.innerSize % 65536 } : L2.Dot3).WF := ⟨h.dst, h.src, Nat.mod_lt _ (by decide)⟩
  have hl := L2.dot3_headerBytes_length _ hwf1
  have hw := writeAtStart_eq region _ (by rw [hl]; omega)
  refine ⟨_, hw, ?_, ?_⟩
  · simp only [List.length_append, hl, List.length_drop]; omega
  · have hlen : (({ d with len := cx.innerSize % 65536 } : L2.Dot3).headerBytes
        ++ region.drop ({ d with len := cx.innerSize % 65536 } : L2.Dot3).headerBytes.length).length = region.length := by
      simp only [List.length_append, hl, List.length_drop]; omega
    rw [hlen]
    simp only [L2.Dot3.headerBytes, List.append_assoc]
    rw [← List.append_assoc d.dst d.src, List.drop_left' (by simp [h.dst, h.src]), List.take_left' (by simp), beNat_beBytes]
    have : cx.innerSize % 65536 % 256 ^ 2 = cx.innerSize := by omega
    omega

/-- **EAPOL packet body length** (RC4 and RSN key frames): bytes 2..3 of what `EAPOL::write_serialization` leaves count
    everything behind the 4-octet EAPOL header of its region (`length(total_sz - 4)`), when that fits 16 bits. -/
theorem wire_eapol_length (e : Eapol) (hw : e.WF) (region : Bytes) (hr : e.hdrSize ≤ region.length)
    (h16 : region.length - 4 < 65536) :
    ∃ out, e.write region = .ok out ∧ out.length = region.length ∧
      Cursor.beNat ((out.drop 2).take 2) = out.length - 4 := by
  simp only [Eapol.hdrSize] at hr
  generalize hh : Dot11.patch e.hdr 2 (OutCursor.beBytes 2 ((region.length + 4294967296 - 4) % 4294967296)) = hdr
  have hhl : hdr.length = 5 := by rw [← hh, Dot11.patch_length]; exact hw.hdr
  have hsl := Eapol.subForWrite_length e hw
  have hi : (OutCursor.ofRegion region).Inv := by simp [OutCursor.ofRegion, OutCursor.Inv]
  have hall := Dot11.writeAll_spec [hdr, Eapol.subForWrite e, e.key] (OutCursor.ofRegion region) hi
    (by simp only [List.flatten_cons, List.flatten_nil, List.length_append, List.length_nil, hhl, hsl, OutCursor.ofRegion]; omega)
  simp only [Eapol.write, hh, hall, bind, Out.bind]
  simp only [OutCursor.buffer, OutCursor.ofRegion, List.nil_append, List.flatten_cons,
    List.flatten_nil, List.append_nil, List.length_append, hhl, hsl]
  have hlen : ((hdr ++ (Eapol.subForWrite e ++ e.key)) ++ List.drop (5 + (Eapol.subLen e.rsn + e.key.length)) region).length
      = region.length := by
    simp only [List.length_append, List.length_drop, hhl, hsl]; omega
  have hp := poke_eq "EAPOL::write_serialization memcpy"
    ((hdr ++ (Eapol.subForWrite e ++ e.key)) ++ List.drop (5 + (Eapol.subLen e.rsn + e.key.length)) region) hdr 0
    (by rw [hlen, hhl]; omega)
  refine ⟨_, hp, ?_, ?_⟩
  · rw [length_patched _ _ _ (by rw [hlen, hhl]; omega)]; exact hlen
  · rw [length_patched _ _ _ (by rw [hlen, hhl]; omega), hlen]
    simp only [List.take_zero, List.nil_append]
    rw [List.drop_append_of_le_length (by omega), List.take_append_of_le_length (by simp only [List.length_drop]; omega)]
    have := Eapol.patch_read e.hdr (OutCursor.beBytes 2 ((region.length + 4294967296 - 4) % 4294967296)) 2 (by simp [hw.hdr])
    simp only [OutCursor.beBytes_length] at this
    rw [← hh, this, beNat_beBytes]
    omega

end Tins.Wire.Derived
