import TinsModel.Wire.Derived.Bridge
import TinsModel.Wire.Icmp.ThIcmpWrite
import TinsModel.Wire.Icmp.ThIcmp6Write
/-
  Property C05 over the wire models of `ICMP::write_serialization`, `ICMPv6::write_serialization` and
  `ICMPExtensionsStructure::serialize` (`Wire/Icmp/`): the checksums verify under RFC 792 / RFC 4443 (IPv6 pseudo header,
  next header 58) / RFC 4884 §7 over everything the message covers (header, quoted datagram, RFC 4884 padding, extension
  structure), and the RFC 4884 length octet is what the code derives — equal to the number of 32-bit (64-bit) words between
  the header and the extension structure / the end of the message outside the known findings KF-C05-1 / KF-C05-2.
-/
set_option autoImplicit false
namespace Tins.Wire.Derived
open Tins Tins.Wire Tins.Wire.Icmp

/-! ### windows and single bytes -/

theorem window_getElem? (r : Bytes) (a n i : Nat) (h : i < n) : (window r a n)[i]? = r[a + i]? := by
  unfold window
  rw [List.getElem?_take]
  simp [h]

/-- two buffers that agree on `[0, k]` agree at `k` -/
theorem get_of_window (r r' : Bytes) (k : Nat) (h : window r' k 1 = window r k 1) : r'[k]? = r[k]? := by
  have := congrArg (fun l : Bytes => l[0]?) h
  simp only [window_getElem? _ _ _ 0 (by omega : 0 < 1), Nat.add_zero] at this
  exact this

theorem innerOf_getD (n : Nat) : (Icmp4.innerOf n).getD 0 = n := by
  unfold Icmp4.innerOf; split
  · rename_i h; simp only [beq_iff_eq] at h; simp [h]
  · rfl

theorem len4 (l : Bytes) (h : l.length = 4) : ∃ a b c d, l = [a, b, c, d] := by
  match l, h with
  | [a, b, c, d], _ => exact ⟨a, b, c, d, rfl⟩

/-! ### ICMP -/

/-- the state of the region when `ICMP::write_serialization` reaches its checksum line: a buffer of the region's length
    that agrees with "header bytes, then the region as the inner layers left it" up to the end of the quoted datagram -/
theorem icmp_before_checksum (cx : Ctx) (p : Icmp4) (hi : p.Inv) (hs : p.Ser) (region : Bytes)
    (hreg : region.length = p.hdr + cx.innerSize + p.trl cx.innerSize) :
    ∃ r1, r1.length = region.length ∧
      (∀ a n, a + n ≤ p.hdr + cx.innerSize →
        window r1 a n = window (p.headBytes (Icmp4.innerOf cx.innerSize) ++ region.drop p.hdr) a n) ∧
      p.write cx region = poke "ICMP::write_serialization checksum" r1 2 (le16 (not16 (sumRange r1))) := by
  have hhl := icmp_headBytes_length p hi (Icmp4.innerOf cx.innerSize)
  have hgetD := innerOf_getD cx.innerSize
  unfold Icmp4.write
  dsimp only
  rw [icmp_writeHead_eq p hi _ region (by omega)]
  simp only [Out.bind_ok]
  unfold Icmp4.writeTail
  dsimp only
  have hbuf : (emit (OutCursor.ofRegion region) (p.headBytes (Icmp4.innerOf cx.innerSize))).buffer =
      p.headBytes (Icmp4.innerOf cx.innerSize) ++ region.drop p.hdr := by
    rw [emit_ofRegion_buffer, hhl]
  have hdone : (emit (OutCursor.ofRegion region) (p.headBytes (Icmp4.innerOf cx.innerSize))).done.length = p.hdr := by
    simp [OutCursor.ofRegion, hhl]
  have hrl : (p.headBytes (Icmp4.innerOf cx.innerSize) ++ region.drop p.hdr).length = region.length := by
    rw [← hhl]; exact length_prefix_replaced _ region (by omega)
  rw [hbuf, hdone]
  by_cases he : p.hasExt
  · simp only [he, if_true]
    have hne : p.ext.exts.isEmpty = false := by simpa [Icmp4.hasExt] using he
    rcases writeExtPart_window "ICMP::write_serialization memset" p.ext (Icmp4.innerOf cx.innerSize) 4 p.hdr 0
        (p.headBytes (Icmp4.innerOf cx.innerSize) ++ region.drop p.hdr) hs hne (.inl rfl) (Nat.zero_le _)
        (by rw [hrl, hreg, hgetD]; simp only [Icmp4.trl]) with ⟨r1, e1, l1, w1⟩
    rw [e1]
    simp only [Out.bind_ok]
    exact ⟨r1, by omega, fun a n h => w1 a n (by rw [hgetD]; exact h), rfl⟩
  · simp only [he, Bool.false_eq_true, if_false, Out.pure_eq, Out.bind_ok]
    exact ⟨_, hrl, fun _ _ _ => rfl, rfl⟩

theorem icmp_headBytes_check (p : Icmp4) (inner : Option Nat) (rest : Bytes) :
    (p.headBytes inner ++ rest)[2]? = some 0 ∧ (p.headBytes inner ++ rest)[3]? = some 0 := by
  simp [Icmp4.headBytes]

/-- **ICMP checksum, in situ** (RFC 792).  For every object satisfying the class invariant — every type (timestamp and
    address-mask bodies included), with or without an RFC 4884 extension structure — on the region `PDU::serialize` hands
    out (header + quoted datagram + trailer, at most 65535 bytes), `write_serialization` succeeds, leaves the quoted
    datagram untouched, and the RFC 1071 sum over the whole message it leaves in the region is 0xffff. -/
theorem wire_icmp_checksum_verifies (cx : Ctx) (p : Icmp4) (hi : p.Inv) (hs : p.Ser) (region : Bytes)
    (hreg : region.length = p.hdr + cx.innerSize + p.trl cx.innerSize) (h16 : region.length ≤ 65535) :
    ∃ out, p.write cx region = .ok out ∧ out.length = region.length ∧
      window out p.hdr cx.innerSize = window region p.hdr cx.innerSize ∧ Ck.Spec.verifies out = true := by
  have hhl := icmp_headBytes_length p hi (Icmp4.innerOf cx.innerSize)
  have h8 : 8 ≤ p.hdr := by unfold Icmp4.hdr; omega
  rcases icmp_before_checksum cx p hi hs region hreg with ⟨r1, l1, w1, hw⟩
  have hck := icmp_headBytes_check p (Icmp4.innerOf cx.innerSize) (region.drop p.hdr)
  have g2 : r1[2]? = some 0 := by rw [get_of_window _ r1 2 (w1 2 1 (by omega))]; exact hck.1
  have g3 : r1[2 + 1]? = some 0 := by rw [get_of_window _ r1 3 (w1 3 1 (by omega))]; exact hck.2
  rcases store_verifies0 "ICMP::write_serialization checksum" r1 2 (by omega) (by omega) g2 g3 with ⟨v, hp, hv⟩
  refine ⟨Ck.poke16 r1 2 v, by rw [hw]; exact hp, by rw [length_poke16, l1], ?_, hv⟩
  have hpw : window (Ck.poke16 r1 2 v) p.hdr cx.innerSize = window r1 p.hdr cx.innerSize := by
    unfold window; rw [drop_poke16 _ _ _ _ (by omega)]
  rw [hpw, w1 p.hdr cx.innerSize (Nat.le_refl _), ← hhl]
  exact window_prefix_replaced _ region _ _ (Nat.le_refl _)

/-- the number of octets the RFC 4884 length octet stands for: the quoted datagram rounded up to `align` (and to at least
    128 when an extension structure follows) -/
def covered (hasExt : Bool) (innerSize align : Nat) : Nat :=
  let lv := paddedInner (Icmp4.innerOf innerSize) align
  if lv != 0 && hasExt then (if lv > 128 then lv else 128) else lv

/-- the geometry of the RFC 4884 trailer: outside KF-C05-1/2 (an extension structure follows, or the quoted datagram is
    already aligned) the covered octets are a multiple of the alignment and, together with the extension structure, are
    exactly the quoted datagram plus `trailer_size()` -/
theorem covered_geometry (ext : ExtS) (hasExt : Bool) (hE : hasExt = !ext.exts.isEmpty) (hs : ext.plainSize < 4294967296)
    (n align : Nat) (ha : align = 4 ∨ align = 8) (hkf : hasExt = true ∨ n % align = 0) :
    covered hasExt n align % align = 0 ∧
      covered hasExt n align + (if hasExt then ext.plainSize else 0) = n + extTrailer ext (Icmp4.innerOf n) align := by
  unfold covered extTrailer Icmp4.innerOf
  by_cases hz : n = 0
  · subst hz
    cases hasExt with
    | true =>
      have hne : ext.exts.isEmpty = false := by simpa using hE.symm
      simp [paddedInner, hne, ExtS.size_eq ext hs]
    | false =>
      have hne : ext.exts.isEmpty = true := by simpa using hE.symm
      simp [paddedInner, hne]
  · have hzb : (n == 0) = false := by simp [hz]
    simp only [hzb, Bool.false_eq_true, if_false]
    have hb := paddedInner_bounds n align ha
    generalize paddedInner (some n) align = ips at *
    have hnz : (ips != 0) = true := by
      simp only [bne_iff_ne, ne_eq]; omega
    cases hasExt with
    | true =>
      have hne : ext.exts.isEmpty = false := by simpa using hE.symm
      simp only [hne, Bool.false_eq_true, if_false, ExtS.size_eq ext hs, hnz, Bool.and_self, if_true]
      by_cases h128 : ips > 128
      · simp only [h128, if_true]; omega
      · simp only [h128, if_false]
        rcases ha with rfl | rfl <;> omega
    | false =>
      have hne : ext.exts.isEmpty = true := by simpa using hE.symm
      have hm : n % align = 0 := by rcases hkf with h | h; exact absurd h (by decide); exact h
      simp only [hne, if_true, Bool.and_false, Bool.false_eq_true, if_false]
      have : ips = n := by
        have := hb.2.2
        rcases ha with rfl | rfl <;> omega
      omega

theorem patch_un_get1 (un : Bytes) (h : un.length = 4) (x : UInt8) : (patch un 1 [x])[1]? = some x := by
  rcases len4 un h with ⟨a, b, c, d, rfl⟩
  simp [patch]

/-- the octet at offset 5 of the written message is `lengthFor` -/
theorem icmp_length_octet (cx : Ctx) (p : Icmp4) (hi : p.Inv) (hs : p.Ser) (region : Bytes)
    (hreg : region.length = p.hdr + cx.innerSize + p.trl cx.innerSize) (h16 : region.length ≤ 65535) :
    ∃ out, p.write cx region = .ok out ∧ Icmp.byteAt out 5 = p.lengthFor (Icmp4.innerOf cx.innerSize) % 256 := by
  have h8 : 8 ≤ p.hdr := by unfold Icmp4.hdr; omega
  rcases icmp_before_checksum cx p hi hs region hreg with ⟨r1, l1, w1, hw⟩
  have hck := icmp_headBytes_check p (Icmp4.innerOf cx.innerSize) (region.drop p.hdr)
  have g2 : r1[2]? = some 0 := by rw [get_of_window _ r1 2 (w1 2 1 (by omega))]; exact hck.1
  have g3 : r1[2 + 1]? = some 0 := by rw [get_of_window _ r1 3 (w1 3 1 (by omega))]; exact hck.2
  rcases store_verifies0 "ICMP::write_serialization checksum" r1 2 (by omega) (by omega) g2 g3 with ⟨v, hp, _⟩
  refine ⟨Ck.poke16 r1 2 v, by rw [hw]; exact hp, ?_⟩
  have g5 : (Ck.poke16 r1 2 v)[5]? = some (UInt8.ofNat (p.lengthFor (Icmp4.innerOf cx.innerSize))) := by
    rw [getElem?_poke16_of_ne _ _ _ _ (by omega) (by omega), get_of_window _ r1 5 (w1 5 1 (by omega))]
    have hp4 : (patch p.un 1 [UInt8.ofNat (p.lengthFor (Icmp4.innerOf cx.innerSize))]).length = 4 := by
      rw [patch_length _ _ _ (by simp [hi.un])]; exact hi.un
    simp only [Icmp4.headBytes, List.append_assoc]
    rw [List.getElem?_append_right (by simp), List.getElem?_append_left (by simp [hp4])]
    exact patch_un_get1 p.un hi.un _
  unfold Icmp.byteAt
  rw [List.getD_eq_getElem?_getD, g5]
  simp [UInt8.toNat_ofNat']

/-- **ICMP RFC 4884 length field.**  For the types RFC 4884 extends (3, 11, 12), when the length field is in use (the
    stored length is non-zero, or the quoted datagram rounded up to 32-bit words exceeds 128 octets), the length octet
    (offset 5) is the code's `covered / 4`; and outside known finding KF-C05-1 — i.e. with an extension structure, or
    with a quoted datagram that is a multiple of 4 octets — times 4 it is exactly the number of octets between the header
    and the extension structure (the end of the message when there is none), whenever that fits the 8-bit field. -/
theorem wire_icmp_rfc4884_length (cx : Ctx) (p : Icmp4) (hi : p.Inv) (hs : p.Ser) (region : Bytes)
    (hreg : region.length = p.hdr + cx.innerSize + p.trl cx.innerSize) (h16 : region.length ≤ 65535)
    (ht : Icmp4.extAllowed p.type = true)
    (huse : p.length ≠ 0 ∨ paddedInner (Icmp4.innerOf cx.innerSize) 4 > 128) :
    ∃ out, p.write cx region = .ok out ∧
      Icmp.byteAt out 5 = covered p.hasExt cx.innerSize 4 / 4 % 256 ∧
      ((p.hasExt = true ∨ cx.innerSize % 4 = 0) → covered p.hasExt cx.innerSize 4 ≤ 1020 →
        Icmp.byteAt out 5 * 4 = covered p.hasExt cx.innerSize 4 ∧
        p.hdr + covered p.hasExt cx.innerSize 4 + (if p.hasExt then p.ext.plainSize else 0) = region.length) := by
  rcases icmp_length_octet cx p hi hs region hreg h16 with ⟨out, hw, hb⟩
  have hlf : p.lengthFor (Icmp4.innerOf cx.innerSize) = covered p.hasExt cx.innerSize 4 / 4 % 256 := by
    unfold Icmp4.lengthFor covered
    have hu : (p.length != 0 || paddedInner (Icmp4.innerOf cx.innerSize) 4 > 128) = true := by
      rcases huse with h | h <;> simp [h]
    simp only [ht, if_true, hu]
    by_cases h0 : paddedInner (Icmp4.innerOf cx.innerSize) 4 = 0
    · simp [h0]
    · by_cases he : p.hasExt <;> simp [h0, he]
  refine ⟨out, hw, by rw [hb, hlf, Nat.mod_mod], ?_⟩
  intro hkf hfit
  have hcov4 := covered_geometry p.ext p.hasExt rfl hs cx.innerSize 4 (.inl rfl) hkf
  have hgeo : p.hdr + covered p.hasExt cx.innerSize 4 + (if p.hasExt then p.ext.plainSize else 0) = region.length := by
    have := hcov4.2
    rw [hreg]; simp only [Icmp4.trl]; omega
  refine ⟨?_, hgeo⟩
  rw [hb, hlf, Nat.mod_mod, Nat.mod_eq_of_lt (by omega)]
  omega

/-! ### ICMP extension structure -/

/-- **ICMP extension structure checksum** (RFC 4884 §7).  The bytes `ICMPExtensionsStructure::serialize` produces — version,
    checksum, objects — have RFC 1071 sum 0xffff, for every structure below 128 KiB (sums passing 0xffff included); they are
    the bytes that end up in the region (`exts_write_eq`), and libtins' own `validate_extensions` accepts them
    (`exts_validate_wireBytes`). -/
theorem wire_icmp_ext_checksum_verifies (s : ExtS) (hs : s.plainSize < 131072) :
    Ck.Spec.verifies s.wireBytes = true ∧ (∀ tail, ExtS.validate (s.wireBytes ++ tail) s.plainSize = .ok true) ∧
    (∀ (region : Bytes) (off bufSize : Nat), off + s.plainSize ≤ region.length → s.plainSize ≤ bufSize →
      s.write region off bufSize = .ok (region.take off ++ s.wireBytes ++ region.drop (off + s.plainSize))) := by
  refine ⟨?_, fun tail => exts_validate_wireBytes s tail hs, fun region off bufSize h1 h2 =>
    exts_write_eq s region off bufSize (by omega) h1 h2⟩
  have hb := exts_bodyBytes_length s
  have h4 : 4 ≤ s.plainSize := by simp [ExtS.plainSize]
  have g : s.bodyBytes[2]? = some 0 ∧ s.bodyBytes[2 + 1]? = some 0 := by
    simp [ExtS.bodyBytes, OutCursor.beBytes]
  rcases store_verifies0 "ICMPExtensionsStructure::serialize checksum" s.bodyBytes 2 (by omega) (by omega) g.1 g.2
    with ⟨v, hp, hv⟩
  rw [poke_eq _ _ _ _ (by simp [le16]; omega)] at hp
  have e : s.wireBytes = Ck.poke16 s.bodyBytes 2 v := by
    have := Out.ok.inj hp
    rw [← this]; rfl
  rw [e]; exact hv

/-! ### ICMPv6 -/

theorem icmp6_pseudoOf_ip6 (cx : Ctx) (s d : Bytes) (size : Nat) (hp : ParentIp6 cx s d) :
    Icmp6.pseudoOf cx size = some (pseudo6 s d (size % 65536) 58) := by
  rcases hp with ⟨p, h1, h2, h3, h4⟩
  simp [Icmp6.pseudoOf, h1, h2, h3, h4]

theorem icmp6_pseudoOf_none (cx : Ctx) (size : Nat) (hp : NoIp6Parent cx) : Icmp6.pseudoOf cx size = none := by
  unfold Icmp6.pseudoOf
  cases h : cx.parents.head? with
  | none => rfl
  | some p =>
    have := hp p h
    simp [this]

/-- the state of the region when `ICMPv6::write_serialization` reaches its checksum lines -/
theorem icmp6_before_checksum (cx : Ctx) (p : Icmp6) (hi : p.Inv) (hs : p.Ser) (region : Bytes)
    (hreg : region.length = p.hdr + cx.innerSize + p.trl cx.innerSize) :
    ∃ r1, r1.length = region.length ∧
      (∀ a n, a + n ≤ p.hdr + cx.innerSize →
        window r1 a n = window (p.headBytes (Icmp4.innerOf cx.innerSize) ++ region.drop p.hdr) a n) ∧
      p.write cx region =
        match Icmp6.pseudoOf cx (p.hdr + cx.innerSize + p.trl cx.innerSize) with
        | none => .ok r1
        | some ps => poke "ICMPv6::write_serialization checksum" r1 2
            (le16 (not16 (fold16 ((ps + sumRange r1) % 4294967296)) % 65536)) := by
  have hhl := icmp6_headBytes_length p hi hs (Icmp4.innerOf cx.innerSize)
  have hgetD := innerOf_getD cx.innerSize
  unfold Icmp6.write
  dsimp only
  rw [icmp6_writeHead_eq p hi hs _ region (by omega)]
  simp only [Out.bind_ok]
  unfold Icmp6.writeTail
  dsimp only
  have hbuf : (emit (OutCursor.ofRegion region) (p.headBytes (Icmp4.innerOf cx.innerSize))).buffer =
      p.headBytes (Icmp4.innerOf cx.innerSize) ++ region.drop p.hdr := by
    rw [emit_ofRegion_buffer, hhl]
  have hdone : (emit (OutCursor.ofRegion region) (p.headBytes (Icmp4.innerOf cx.innerSize))).done.length = p.hdr := by
    simp [OutCursor.ofRegion, hhl]
  have hrl : (p.headBytes (Icmp4.innerOf cx.innerSize) ++ region.drop p.hdr).length = region.length := by
    rw [← hhl]; exact length_prefix_replaced _ region (by omega)
  rw [hbuf, hdone]
  by_cases he : p.hasExt
  · simp only [he, if_true]
    have hne : p.ext.exts.isEmpty = false := by simpa [Icmp6.hasExt] using he
    rcases writeExtPart_window "ICMPv6::write_serialization memset" p.ext (Icmp4.innerOf cx.innerSize) 8 p.hdr p.hdr
        (p.headBytes (Icmp4.innerOf cx.innerSize) ++ region.drop p.hdr) hs.2 hne (.inr rfl) (Nat.le_refl _)
        (by rw [hrl, hreg, hgetD]; simp only [Icmp6.trl]) with ⟨r1, e1, l1, w1⟩
    rw [e1]
    simp only [Out.bind_ok]
    exact ⟨r1, by omega, fun a n h => w1 a n (by rw [hgetD]; exact h), rfl⟩
  · simp only [he, Bool.false_eq_true, if_false, Out.pure_eq, Out.bind_ok]
    exact ⟨_, hrl, fun _ _ _ => rfl, rfl⟩

theorem icmp6_headBytes_check (p : Icmp6) (inner : Option Nat) (rest : Bytes) :
    (p.headBytes inner ++ rest)[2]? = some 0 ∧ (p.headBytes inner ++ rest)[3]? = some 0 := by
  simp [Icmp6.headBytes]

theorem not16_mod (x : Nat) : not16 x % 65536 = not16 x := by unfold not16; omega

/-- **ICMPv6 checksum, in situ** (RFC 4443 §2.3).  For every object satisfying the class invariant (any options, multicast
    records, extension structure), directly inside an `IPv6` whose address getters print `s` / `d`, on the region
    `PDU::serialize` hands out (at most 65535 bytes), `write_serialization` succeeds, leaves the quoted datagram untouched,
    and the RFC 1071 sum over the RFC 8200 pseudo header (source, destination, 32-bit length, three zero bytes, next
    header 58) followed by the whole message it leaves in the region is 0xffff. -/
theorem wire_icmp6_checksum_verifies (cx : Ctx) (p : Icmp6) (hi : p.Inv) (hs : p.Ser) (region s d : Bytes)
    (hp : ParentIp6 cx s d) (hs16 : s.length = 16) (hd16 : d.length = 16)
    (hreg : region.length = p.hdr + cx.innerSize + p.trl cx.innerSize) (h16 : region.length ≤ 65535) :
    ∃ out, p.write cx region = .ok out ∧ out.length = region.length ∧
      window out p.hdr cx.innerSize = window region p.hdr cx.innerSize ∧
      Ck.Spec.verifies (Ck.Spec.pseudo6 s d 58 out.length ++ out) = true := by
  have hhl := icmp6_headBytes_length p hi hs (Icmp4.innerOf cx.innerSize)
  have h8 : 8 ≤ p.hdr := by rw [icmp6_hdr_eq p hi hs]; omega
  rcases icmp6_before_checksum cx p hi hs region hreg with ⟨r1, l1, w1, hw⟩
  have hck := icmp6_headBytes_check p (Icmp4.innerOf cx.innerSize) (region.drop p.hdr)
  have g2 : r1[2]? = some 0 := by rw [get_of_window _ r1 2 (w1 2 1 (by omega))]; exact hck.1
  have g3 : r1[2 + 1]? = some 0 := by rw [get_of_window _ r1 3 (w1 3 1 (by omega))]; exact hck.2
  have hm : (p.hdr + cx.innerSize + p.trl cx.innerSize) % 65536 = r1.length := by rw [l1, hreg]; omega
  rcases pseudo6_stands_for s d 58 r1.length hs16 hd16 (by omega) (by omega) with ⟨a1, a2, a3, a4⟩
  rcases store_verifies "ICMPv6::write_serialization checksum" _ r1 _ 2 a1 a2 a3 a4 (by omega) (by omega) g2 g3
    with ⟨v, hpk, hv⟩
  refine ⟨Ck.poke16 r1 2 v, ?_, by rw [length_poke16, l1], ?_, by rw [length_poke16]; exact hv⟩
  · rw [hw, icmp6_pseudoOf_ip6 cx s d _ hp, hm]
    simp only [not16_mod]
    exact hpk
  · have hpw : window (Ck.poke16 r1 2 v) p.hdr cx.innerSize = window r1 p.hdr cx.innerSize := by
      unfold window; rw [drop_poke16 _ _ _ _ (by omega)]
    rw [hpw, w1 p.hdr cx.innerSize (Nat.le_refl _), ← hhl]
    exact window_prefix_replaced _ region _ _ (Nat.le_refl _)

/-- **without an IPv6 parent ICMPv6 writes no checksum**: the checksum bytes stay zero -/
theorem wire_icmp6_no_parent (cx : Ctx) (p : Icmp6) (hi : p.Inv) (hs : p.Ser) (region : Bytes) (hp : NoIp6Parent cx)
    (hreg : region.length = p.hdr + cx.innerSize + p.trl cx.innerSize) :
    ∃ out, p.write cx region = .ok out ∧ out[2]? = some 0 ∧ out[3]? = some 0 := by
  have h8 : 8 ≤ p.hdr := by rw [icmp6_hdr_eq p hi hs]; omega
  rcases icmp6_before_checksum cx p hi hs region hreg with ⟨r1, l1, w1, hw⟩
  have hck := icmp6_headBytes_check p (Icmp4.innerOf cx.innerSize) (region.drop p.hdr)
  rw [icmp6_pseudoOf_none cx _ hp] at hw
  refine ⟨r1, hw, ?_, ?_⟩
  · rw [get_of_window _ r1 2 (w1 2 1 (by omega))]; exact hck.1
  · rw [get_of_window _ r1 3 (w1 3 1 (by omega))]; exact hck.2

/-- the length octet `ICMPv6::write_serialization` derives sits at offset 4 -/
theorem patch_un_get0 (un : Bytes) (h : un.length = 4) (x : UInt8) : (patch un 0 [x])[0]? = some x := by
  rcases len4 un h with ⟨a, b, c, d, rfl⟩
  simp [patch]

theorem icmp6_unBytes_get0 (p : Icmp6) (hi : p.Inv) (inner : Option Nat) :
    (p.unBytes inner)[0]? = some (UInt8.ofNat (p.lengthFor inner)) := by
  have h1 : (patch p.un 0 [UInt8.ofNat (p.lengthFor inner)]).length = 4 := by
    rw [patch_length _ _ _ (by simp [hi.un])]; exact hi.un
  unfold Icmp6.unBytes
  split
  · rcases len4 _ h1 with ⟨a, b, c, d, e⟩
    have h0 := patch_un_get0 p.un hi.un (UInt8.ofNat (p.lengthFor inner))
    rw [e] at h0 ⊢
    simp only [List.getElem?_cons_zero, Option.some.injEq] at h0
    subst h0
    simp [patch]
  · exact patch_un_get0 p.un hi.un _

/-- **ICMPv6 RFC 4884 length field.**  For the types RFC 4884 extends (1, 3), when the length field is in use, the length
    octet (offset 4) is the code's `covered / 8`; and outside known finding KF-C05-2 — with an extension structure, or a
    quoted datagram that is a multiple of 8 octets — times 8 it is exactly the number of octets between the header and the
    extension structure (the end of the message when there is none), whenever that fits the 8-bit field.  Stated for a
    context without IPv6 parent or with one: the octet does not depend on the checksum. -/
theorem wire_icmp6_rfc4884_length (cx : Ctx) (p : Icmp6) (hi : p.Inv) (hs : p.Ser) (region : Bytes)
    (hreg : region.length = p.hdr + cx.innerSize + p.trl cx.innerSize) (h16 : region.length ≤ 65535)
    (ht : Icmp6.extAllowed p.type = true)
    (huse : p.length ≠ 0 ∨ paddedInner (Icmp4.innerOf cx.innerSize) 8 > 128) :
    ∃ out, p.write cx region = .ok out ∧
      Icmp.byteAt out 4 = covered p.hasExt cx.innerSize 8 / 8 % 256 ∧
      ((p.hasExt = true ∨ cx.innerSize % 8 = 0) → covered p.hasExt cx.innerSize 8 ≤ 2040 →
        Icmp.byteAt out 4 * 8 = covered p.hasExt cx.innerSize 8 ∧
        p.hdr + covered p.hasExt cx.innerSize 8 + (if p.hasExt then p.ext.plainSize else 0) = region.length) := by
  have h8 : 8 ≤ p.hdr := by rw [icmp6_hdr_eq p hi hs]; omega
  rcases icmp6_before_checksum cx p hi hs region hreg with ⟨r1, l1, w1, hw⟩
  have hu4 := unBytes_length p hi (Icmp4.innerOf cx.innerSize)
  have g4 : r1[4]? = some (UInt8.ofNat (p.lengthFor (Icmp4.innerOf cx.innerSize))) := by
    rw [get_of_window _ r1 4 (w1 4 1 (by omega))]
    simp only [Icmp6.headBytes, List.append_assoc]
    rw [List.getElem?_append_right (by simp), List.getElem?_append_left (by simp [hu4])]
    exact icmp6_unBytes_get0 p hi _
  -- the written bytes, whatever the parent is
  have hout : ∃ out, p.write cx region = .ok out ∧ out[4]? = r1[4]? := by
    rw [hw]
    cases Icmp6.pseudoOf cx (p.hdr + cx.innerSize + p.trl cx.innerSize) with
    | none => exact ⟨r1, rfl, rfl⟩
    | some ps =>
      refine ⟨_, poke_le16 _ _ _ _ (by omega), ?_⟩
      rw [getElem?_poke16_of_ne _ _ _ _ (by omega) (by omega)]
  rcases hout with ⟨out, hwo, ho4⟩
  have hb : Icmp.byteAt out 4 = p.lengthFor (Icmp4.innerOf cx.innerSize) % 256 := by
    unfold Icmp.byteAt
    rw [List.getD_eq_getElem?_getD, ho4, g4]
    simp [UInt8.toNat_ofNat']
  have hlf : p.lengthFor (Icmp4.innerOf cx.innerSize) = covered p.hasExt cx.innerSize 8 / 8 % 256 := by
    unfold Icmp6.lengthFor covered
    have hu : (p.length != 0 || paddedInner (Icmp4.innerOf cx.innerSize) 8 > 128) = true := by
      rcases huse with h | h <;> simp [h]
    simp only [ht, if_true, hu]
    by_cases h0 : paddedInner (Icmp4.innerOf cx.innerSize) 8 = 0
    · simp [h0]
    · have hpos : paddedInner (Icmp4.innerOf cx.innerSize) 8 > 0 := by omega
      by_cases he : p.hasExt <;> simp [h0, he, hpos]
  refine ⟨out, hwo, by rw [hb, hlf, Nat.mod_mod], ?_⟩
  intro hkf hfit
  have hcov := covered_geometry p.ext p.hasExt rfl hs.2 cx.innerSize 8 (.inr rfl) hkf
  have hgeo : p.hdr + covered p.hasExt cx.innerSize 8 + (if p.hasExt then p.ext.plainSize else 0) = region.length := by
    have := hcov.2
    rw [hreg]; simp only [Icmp6.trl]; omega
  refine ⟨?_, hgeo⟩
  rw [hb, hlf, Nat.mod_mod, Nat.mod_eq_of_lt (by omega)]
  omega

/-! ### non-vacuity -/

/-- ICMP echo request (id 0x1234, seq 1) with a 3-byte payload -/
def exIcmp : Icmp4 := ((Icmp4.create 8).setUn 0 (OutCursor.beBytes 2 0x1234)).setUn 2 (OutCursor.beBytes 2 1)
def exIcmpCtx : Ctx := ⟨[⟨"IP", [], 20, 0⟩], [⟨"RawPDU", [], 3, 0⟩]⟩

example : exIcmp.Inv ∧ exIcmp.Ser := ⟨⟨rfl, rfl, rfl, rfl⟩, by unfold Icmp4.Ser; decide⟩
example : ∃ out, exIcmp.write exIcmpCtx (List.replicate 8 0 ++ [0xaa, 0xbb, 0xcc]) = .ok out ∧ out.length = 11 ∧
    Ck.Spec.verifies out = true := ⟨_, rfl, rfl, by decide⟩

/-- ICMP Time Exceeded quoting 8 bytes, with one RFC 4884 extension object: quote padded to 128, length octet 32 -/
def exIcmpExt : Icmp4 := ({ Icmp4.create 11 with un := [0, 1, 0, 0] }).addExt ⟨1, 1, [1, 2, 3, 4]⟩
def exIcmpExtCtx : Ctx := ⟨[], [⟨"RawPDU", [], 8, 0⟩]⟩

example : exIcmpExt.trl 8 = 132 ∧ covered exIcmpExt.hasExt 8 4 = 128 := ⟨rfl, rfl⟩
set_option maxRecDepth 8000 in
example : ∃ out, exIcmpExt.write exIcmpExtCtx (List.replicate 8 0 ++ [1, 2, 3, 4, 5, 6, 7, 8] ++ List.replicate 132 0) = .ok out ∧
    out[5]? = some 32 ∧ Ck.Spec.verifies out = true ∧ Ck.Spec.verifies (out.drop 136) = true := ⟨_, rfl, rfl, by decide +kernel, by decide +kernel⟩

/-- ICMPv6 echo request inside IPv6 fe80::1 → fe80::2, odd payload -/
def exIcmp6 : Icmp6 := (Icmp6.create 128).setUn 0 (OutCursor.beBytes 2 0x1234)
def exIcmp6Ctx : Ctx :=
  ⟨[⟨"IPv6", [("src_addr", "fe800000000000000000000000000001"), ("dst_addr", "fe800000000000000000000000000002")], 40, 0⟩],
   [⟨"RawPDU", [], 3, 0⟩]⟩

example : ParentIp6 exIcmp6Ctx ([0xfe, 0x80] ++ List.replicate 13 0 ++ [1]) ([0xfe, 0x80] ++ List.replicate 13 0 ++ [2]) :=
  ⟨_, rfl, rfl, by decide, by decide⟩
example : ∃ out, exIcmp6.write exIcmp6Ctx (List.replicate 8 0 ++ [0xaa, 0xbb, 0xcc]) = .ok out ∧
    Ck.Spec.verifies (Ck.Spec.pseudo6 ([0xfe, 0x80] ++ List.replicate 13 0 ++ [1]) ([0xfe, 0x80] ++ List.replicate 13 0 ++ [2])
      58 11 ++ out) = true := ⟨_, rfl, by decide⟩

end Tins.Wire.Derived
