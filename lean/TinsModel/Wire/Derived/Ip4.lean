import TinsModel.Wire.Derived.Bridge
import TinsModel.Wire.Ip.ThIp4Reparse
import TinsModel.Wire.Ip.ThFamily
/-
  Property C05 over the wire model of `IP::write_serialization` (`Wire/Ip/Ip4.lean`): the header checksum verifies under
  RFC 791 / 1071 for every option list, the total length is the number of bytes from the header to the end of the IP
  payload, IHL·4 is the header size (20 + padded options), and the protocol field is the number libtins assigns to the
  inner layer's class.
-/
set_option autoImplicit false
namespace Tins.Wire.Derived
open Tins Tins.Wire Tins.Wire.Ip

/-! ### header checksum -/

/-- `do_checksum` + the caller's fold loop on a folded sum: the byte swap -/
theorem fold32_bswap32 (x : Nat) (h : x ≤ 65535) : Ck.fold32 (Ck.bswap32 x) = Ck.bswap16 x := by
  unfold Ck.bswap32 Ck.bswap16
  have e1 : x / 65536 % 256 = 0 := by omega
  have e2 : x / 16777216 % 256 = 0 := by omega
  rw [e1, e2]
  have hb : x % 256 * 16777216 + x / 256 % 256 * 65536 + 0 * 256 + 0 < 4294967296 := by omega
  rw [Ck.fold32_eq _ hb]
  unfold Ck.foldv; split <;> omega

/-- the complement of a byte-swapped value, swapped back, is the complement -/
theorem bswap16_not_bswap16 (x : Nat) (h : x ≤ 65535) :
    Ck.bswap16 (Ck.wrap16 (Ck.not32 (Ck.bswap16 x))) = 65535 - x := by
  rw [Ck.not32_wrap16 _ (Ck.bswap16_le _)]
  unfold Ck.bswap16
  have hq : x / 256 % 256 = x / 256 := by omega
  rw [hq]
  have e1 : (65535 - (x % 256 * 256 + x / 256)) % 256 = 255 - x / 256 := by omega
  have e2 : (65535 - (x % 256 * 256 + x / 256)) / 256 % 256 = 255 - x % 256 := by omega
  rw [e1, e2]; omega

/-- the value `IP::write_serialization` stores through `((ip_header*)buffer)->check` -/
theorem checksumField_value (buf : Bytes) (hlen : Nat) (hh : hlen < 131072) :
    Ip4.checksumField buf hlen = 65535 - Ck.foldv (Ck.leSum (buf.take hlen)) := by
  have hl : (buf.take hlen).length < 131072 := by simp only [List.length_take]; omega
  have hs : Ck.sumRange (buf.take hlen) ≤ 65535 := by rw [Ck.sumRange_eq _ hl]; exact Ck.foldv_le _
  unfold Ip4.checksumField Ck.doChecksum
  simp only []
  rw [fold32_bswap32 _ hs, bswap16_not_bswap16 _ hs, Ck.sumRange_eq _ hl]

/-- the header as written before the checksum is patched in has a zero checksum field -/
theorem headerImage_check (cx : Ctx) (o : Ip4) (total : Nat) (rest : Bytes) :
    (Ip4.headerImage cx o total ++ rest)[10]? = some 0 ∧ (Ip4.headerImage cx o total ++ rest)[10 + 1]? = some 0 := by
  simp [Ip4.headerImage, Ip4.headerBytes, Ip4.written, OutCursor.beBytes]

/-- **IPv4 header checksum, in situ** (RFC 791).  For every object satisfying the class invariant — any option list
    reachable by parsing or through the API — whose header fits the 4-bit length field, in every context and on every
    region of at least `header_size()` bytes, `write_serialization` succeeds, leaves the payload as it found it, and the
    RFC 1071 sum over the `header_size()` header bytes it wrote (fixed part, options, padding, checksum) is 0xffff. -/
theorem wire_ip4_header_checksum_verifies (cx : Ctx) (o : Ip4) (h : o.Inv) (hf : o.Fits) (region : Bytes)
    (hr : o.hdr ≤ region.length) :
    ∃ out, o.write cx region = .ok out ∧ out.length = region.length ∧ out.drop o.hdr = region.drop o.hdr ∧
      Ck.Spec.verifies (out.take o.hdr) = true := by
  have hlen := headerImage_length cx o region.length h
  have hge : 20 ≤ o.hdr := (hdr_mod4 o).2
  have hle : o.hdr ≤ 60 := hf
  have hck := headerImage_check cx o region.length (region.drop o.hdr)
  generalize hbuf : Ip4.headerImage cx o region.length ++ region.drop o.hdr = buf at hck
  have hbl : buf.length = region.length := by
    rw [← hbuf]; simp only [List.length_append, List.length_drop, hlen]; omega
  have hbd : buf.drop o.hdr = region.drop o.hdr := by rw [← hbuf]; exact List.drop_left' hlen
  have hw := ip4_write_eq cx o h hf region hr
  rw [hbuf, checksumField_value buf o.hdr (by omega), poke_le16 _ _ _ _ (by omega)] at hw
  refine ⟨_, hw, ?_, ?_, ?_⟩
  · rw [length_poke16, hbl]
  · rw [drop_poke16 _ _ _ _ (by omega), hbd]
  · have := Ck.stored_verifies [] (buf.take o.hdr) 0 10 (by simp) (by simp [Ck.beSum]) (by simp [Ck.beSum]) (by omega)
      (by rw [List.getElem?_take]; simp [hck.1]; omega) (by rw [List.getElem?_take]; simp [hck.2]; omega)
    simp only [List.nil_append, Nat.zero_add] at this
    have ht : (Ck.poke16 buf 10 (65535 - Ck.foldv (Ck.leSum (buf.take o.hdr)))).take o.hdr =
        Ck.poke16 (buf.take o.hdr) 10 (65535 - Ck.foldv (Ck.leSum (buf.take o.hdr))) := by
      unfold Ck.poke16; rw [List.take_set, List.take_set]
    rw [ht]
    simp [Ck.Spec.verifies, this]

/-! ### length, header length, protocol -/

theorem byteAt_append_left (a r : Bytes) (i : Nat) (h : i < a.length) : byteAt (a ++ r) i = byteAt a i := by
  unfold byteAt
  rw [List.getD_eq_getElem?_getD, List.getD_eq_getElem?_getD, List.getElem?_append_left h]

theorem slice_append_left (a r : Bytes) (i n : Nat) (h : i + n ≤ a.length) : ((a ++ r).drop i).take n = (a.drop i).take n := by
  rw [List.drop_append_of_le_length (by omega), List.take_append_of_le_length (by simp only [List.length_drop]; omega)]

/-- the source and destination addresses lie at bytes 12..19 of the header -/
theorem ip4_headerBytes_addrs (o : Ip4) (hs : o.src.length = 4) (hd : o.dst.length = 4) (rest : Bytes) :
    ((o.headerBytes ++ rest).drop 12).take 8 = o.src ++ o.dst := by
  have e : o.headerBytes ++ rest =
      ([UInt8.ofNat (o.ihl + o.version * 16), UInt8.ofNat o.tos] ++ OutCursor.beBytes 2 o.totLen ++ OutCursor.beBytes 2 o.id ++
        OutCursor.beBytes 2 o.fragOff ++ [UInt8.ofNat o.ttl, UInt8.ofNat o.protocol] ++ OutCursor.beBytes 2 o.check) ++
        ((o.src ++ o.dst) ++ rest) := by
    simp [Ip4.headerBytes, List.append_assoc]
  rw [e, List.drop_left' (by simp), List.take_left' (by simp [hs, hd])]

/-- the fixed header `write_serialization` leaves in the region decodes (as the parsing constructor decodes it) to the
    object `Ip4.final`: every derived field can be read off the bytes -/
theorem ip4_written_header (cx : Ctx) (o : Ip4) (h : o.Inv) (hf : o.Fits) (region : Bytes) (hr : o.hdr ≤ region.length) :
    ∃ out, o.write cx region = .ok out ∧ out.length = region.length ∧
      byteAt out 0 % 16 = o.hdr / 4 ∧ byteAt out 0 / 16 = o.version ∧
      Cursor.beNat ((out.drop 2).take 2) = region.length % 65536 ∧
      byteAt out 9 = Ip4.protocolFor cx o ∧ (out.drop 12).take 8 = o.src ++ o.dst := by
  have hfi := final_inv cx o region h hf
  have hbl := ip4_headerBytes_length (Ip4.final cx o region) hfi.src hfi.dst
  have hdec := ofHeader_headerBytes (Ip4.final cx o region) hfi
  rcases wire_ip4_header_checksum_verifies cx o h hf region hr with ⟨out', hw', hl', _, _⟩
  have hw := ip4_write_final cx o h hf region hr
  have he : out' = _ := Out.ok.inj (hw'.symm.trans hw)
  generalize hrest : (Ip4.optsBytes o.opts ++ (List.replicate (Ip4.padOptionsSize (Ip4.calcOptionsSize o.opts) -
    Ip4.calcOptionsSize o.opts) 0 ++ region.drop o.hdr)) = rest at hw he
  refine ⟨_, hw, by rw [← he]; exact hl', ?_, ?_, ?_, ?_, ip4_headerBytes_addrs _ hfi.src hfi.dst _⟩
  · have := congrArg Ip4.ihl hdec
    simp only [Ip4.ofHeader, Ip4.setOpts] at this
    rw [byteAt_append_left _ _ 0 (by omega), this]; rfl
  · have := congrArg Ip4.version hdec
    simp only [Ip4.ofHeader, Ip4.setOpts] at this
    rw [byteAt_append_left _ _ 0 (by omega), this]; rfl
  · have := congrArg Ip4.totLen hdec
    simp only [Ip4.ofHeader, Ip4.setOpts] at this
    rw [slice_append_left _ _ 2 2 (by omega), this]; rfl
  · have := congrArg Ip4.protocol hdec
    simp only [Ip4.ofHeader, Ip4.setOpts] at this
    rw [byteAt_append_left _ _ 9 (by omega), this]; rfl

/-- **IPv4 total length.**  On the region `PDU::serialize` hands out (header + inner chain), the 16-bit total-length
    field in the bytes `write_serialization` leaves there equals `header_size()` plus the size of everything inside the
    IP layer — the number of bytes from the first header byte to the end of the IP payload — whenever that fits the field. -/
theorem wire_ip4_tot_len (cx : Ctx) (o : Ip4) (h : o.Inv) (hf : o.Fits) (region : Bytes)
    (hreg : region.length = o.hdr + cx.innerSize) (h16 : o.hdr + cx.innerSize < 65536) :
    ∃ out, o.write cx region = .ok out ∧ out.length = region.length ∧
      Cursor.beNat ((out.drop 2).take 2) = o.hdr + cx.innerSize := by
  rcases ip4_written_header cx o h hf region (by omega) with ⟨out, hw, hl, _, _, ht, _, _⟩
  exact ⟨out, hw, hl, by rw [ht, hreg]; exact Nat.mod_eq_of_lt h16⟩

/-- **IPv4 header length.**  IHL (low nibble of byte 0) times 4 is `header_size()` = 20 + the options padded to a
    multiple of four bytes = the offset at which the payload starts (`out.drop o.hdr = region.drop o.hdr`), and the
    version nibble is kept. -/
theorem wire_ip4_ihl (cx : Ctx) (o : Ip4) (h : o.Inv) (hf : o.Fits) (region : Bytes) (hr : o.hdr ≤ region.length) :
    ∃ out, o.write cx region = .ok out ∧ byteAt out 0 % 16 * 4 = o.hdr ∧
      o.hdr = 20 + Ip4.padOptionsSize (Ip4.calcOptionsSize o.opts) ∧
      Ip4.padOptionsSize (Ip4.calcOptionsSize o.opts) % 4 = 0 ∧
      Ip4.calcOptionsSize o.opts ≤ Ip4.padOptionsSize (Ip4.calcOptionsSize o.opts) ∧
      Ip4.padOptionsSize (Ip4.calcOptionsSize o.opts) < Ip4.calcOptionsSize o.opts + 4 := by
  rcases ip4_written_header cx o h hf region hr with ⟨out, hw, _, hi, _, _, _, _⟩
  have hm := hdr_mod4 o
  have hp := padOptionsSize_le (Ip4.calcOptionsSize o.opts)
  exact ⟨out, hw, by rw [hi]; omega, rfl, hp.2.2, hp.1, hp.2.1⟩

/-- **IPv4 protocol names the follower.**  The protocol octet (byte 9) in the bytes `write_serialization` leaves is
    `Ip4.protocolFor`: when the inner layer's class has a protocol number in libtins' table
    (`pdu_flag_to_ip_type`), that number — and the parser's dispatch table maps it back to a class
    (`derived_ip_tag_dispatches`); when it has none (e.g. RawPDU) the stored protocol is kept; 0 without inner layer. -/
theorem wire_ip4_protocol (cx : Ctx) (o : Ip4) (h : o.Inv) (hf : o.Fits) (region : Bytes) (hr : o.hdr ≤ region.length) :
    ∃ out, o.write cx region = .ok out ∧
      (∀ i, cx.inners.head? = some i → Tags.ipProtoOfPduType (Tags.pduTypeOf i.cls) ≠ 255 →
        byteAt out 9 = Tags.ipProtoOfPduType (Tags.pduTypeOf i.cls) ∧
        (Tags.classOfIpProto (byteAt out 9)).isSome = true) ∧
      (∀ i, cx.inners.head? = some i → Tags.ipProtoOfPduType (Tags.pduTypeOf i.cls) = 255 → byteAt out 9 = o.protocol) ∧
      (cx.inners.head? = none → byteAt out 9 = 0) := by
  rcases ip4_written_header cx o h hf region hr with ⟨out, hw, _, _, _, _, hp, _⟩
  refine ⟨out, hw, ?_, ?_, ?_⟩
  · intro i hi hne
    have hlt := ipProtoOfPduType_lt (Tags.pduTypeOf i.cls)
    have e : byteAt out 9 = Tags.ipProtoOfPduType (Tags.pduTypeOf i.cls) := by
      rw [hp]; unfold Ip4.protocolFor; rw [hi]; simp [hne, Nat.mod_eq_of_lt hlt]
    refine ⟨e, ?_⟩
    rw [e]
    exact ipProto_dispatches _ hne
  · intro i hi he
    rw [hp]; exact protocolFor_kept cx o i hi he
  · intro hn
    rw [hp]; unfold Ip4.protocolFor; rw [hn]
where
  /-- every number `pdu_flag_to_ip_type` can return other than the "unknown" marker is one the parsers dispatch on -/
  ipProto_dispatches (t : String) (hne : Tags.ipProtoOfPduType t ≠ 255) :
      (Tags.classOfIpProto (Tags.ipProtoOfPduType t)).isSome = true := by
    unfold Tags.ipProtoOfPduType Tags.assocStr at *
    cases hf : List.find? (fun x => x.1 == t) Gen.Tags.pduTypeToIpProto with
    | none => rw [hf] at hne; exact absurd rfl hne
    | some p =>
      simp only [Option.map_some, Option.getD_some]
      exact Ip.derived_ip_tag_dispatches p (List.mem_of_find?_eq_some hf)

/-! ### non-vacuity -/

/-- an IP header with options (NOOP, stream identifier; 6 option bytes padded to 8) in front of a 5-byte payload -/
def exIp : Ip4 := { Ip4.create [10, 0, 0, 2] [10, 0, 0, 1] with opts := [⟨1, 0, []⟩, ⟨136, 2, [0xab, 0xcd]⟩, ⟨1, 0, []⟩] }
def exIpCtx : Ctx := ⟨[], [⟨"UDP", [], 8, 0⟩, ⟨"RawPDU", [], 5, 0⟩]⟩

example : exIp.hdr = 28 ∧ exIp.Fits := ⟨rfl, by show exIp.hdr ≤ 60; decide⟩
example : ∃ out, exIp.write exIpCtx (List.replicate 41 0) = .ok out ∧ out.take 4 = [0x47, 0, 0, 41] ∧ out[9]? = some 17 ∧
    Ck.Spec.verifies (out.take 28) = true := ⟨_, rfl, rfl, rfl, by decide⟩

end Tins.Wire.Derived
