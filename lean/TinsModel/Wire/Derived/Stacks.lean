import TinsModel.Wire.Derived.Packet
/-
  Property C05 inside the final packet bytes, for the transport stacks: in `serialize()` of **any** stack of layers
  satisfying their invariants that contains `… / IP / UDP|TCP / …` or `… / IPv6 / UDP|TCP|ICMPv6 / …` (whatever is above:
  EthernetII, 802.1Q, SLL, tunnels …; whatever is below: payload of any length) the IP header checksum and the transport
  checksum verify under RFC 1071 over the bytes of the final packet, and the IP length fields equal the number of bytes
  they govern.  Built from `layer_in_packet` (C02: the layers above do not disturb a layer's bytes) and the per-layer
  theorems of `Wire/Derived/{Ip4,Ip6,Udp,Tcp,Icmp}.lean`.
-/
set_option autoImplicit false
namespace Tins.Wire.Derived
open Tins Tins.Wire

/-- the bytes of layer `n` and everything inside it, cut out of the serialized packet -/
def layerBytes (os : List AnyObj) (n : Nat) (o : AnyObj) (out : Bytes) : Bytes :=
  (out.drop (layerOffset os n)).take (o.hdr + (ctxAt os n).innerSize + o.trl (ctxAt os n).innerSize)

/-- below a layer without trailer, the next layer's bytes start right behind its header and run to its end -/
theorem layerBytes_succ (os : List AnyObj) (n : Nat) (o o' : AnyObj) (out : Bytes) (h1 : os[n]? = some o)
    (h2 : os[n + 1]? = some o') (ht : o.trl (ctxAt os n).innerSize = 0) :
    (layerBytes os n o out).drop o.hdr = layerBytes os (n + 1) o' out := by
  unfold layerBytes
  rw [ht, List.drop_take, List.drop_drop, layerOffset_succ os n o h1, ctxAt_innerSize_succ os n o' h2]
  congr 1
  omega

theorem mem_of_get {α} (l : List α) (n : Nat) (x : α) (h : l[n]? = some x) : x ∈ l := List.mem_of_getElem? h

/-! ### the IP layer of a packet -/

/-- **IPv4 header inside a packet.**  For an `IP` at any position `n` of any stack satisfying the invariants, whose datagram
    (header + everything inside) fits the 16-bit total length: in the final packet bytes, the datagram `dg` at the IP
    layer's offset has its header checksum verifying, its total-length field equal to the number of bytes from the first
    header byte to the end of the IP payload, and IHL·4 equal to the offset at which the payload starts. -/
theorem packet_ip4 (os : List AnyObj) (h : ∀ o ∈ os, registryPreds.Inv o ∧ registryPreds.Ser o)
    (n : Nat) (ip : Ip.Ip4) (h1 : os[n]? = some (.ip (.ip ip))) (h16 : ip.hdr + (ctxAt os n).innerSize < 65536) :
    ∃ out, serializeObjs os = .ok out ∧
      (layerBytes os n (.ip (.ip ip)) out).length = ip.hdr + (ctxAt os n).innerSize ∧
      Ck.Spec.verifies ((layerBytes os n (.ip (.ip ip)) out).take ip.hdr) = true ∧
      Cursor.beNat (((layerBytes os n (.ip (.ip ip)) out).drop 2).take 2) = (layerBytes os n (.ip (.ip ip)) out).length ∧
      Ip.byteAt (layerBytes os n (.ip (.ip ip)) out) 0 % 16 * 4 = ip.hdr ∧
      Ip.byteAt (layerBytes os n (.ip (.ip ip)) out) 9 = Ip.Ip4.protocolFor (ctxAt os n) ip ∧
      ((layerBytes os n (.ip (.ip ip)) out).drop 12).take 8 = ip.src ++ ip.dst := by
  have hm := h _ (mem_of_get os n _ h1)
  have hinv : ip.Inv := hm.1
  have hfit : ip.Fits := hm.2
  rcases layer_in_packet os h n _ h1 with ⟨out, region, e1, hlen, hw⟩
  have hlen' : region.length = ip.hdr + (ctxAt os n).innerSize := by
    have : region.length = ip.hdr + (ctxAt os n).innerSize + 0 := hlen
    omega
  have hw' : ip.write (ctxAt os n) region = .ok (layerBytes os n (.ip (.ip ip)) out) := hw
  rcases wire_ip4_header_checksum_verifies (ctxAt os n) ip hinv hfit region (by omega) with ⟨o1, w1, l1, _, v1⟩
  rcases ip4_written_header (ctxAt os n) ip hinv hfit region (by omega) with ⟨o2, w2, _, i2, _, t2, p2, a2⟩
  have ed1 : o1 = _ := Out.ok.inj (w1.symm.trans hw')
  have ed2 : o2 = _ := Out.ok.inj (w2.symm.trans hw')
  subst ed1
  subst ed2
  have hm4 := Ip.hdr_mod4 ip
  refine ⟨out, e1, by rw [l1, hlen'], v1, ?_, by rw [i2]; omega, p2, a2⟩
  rw [t2, l1, hlen']
  exact Nat.mod_eq_of_lt h16

/-- **IPv6 fixed header inside a packet**: the payload-length field equals the number of bytes behind the 40-byte fixed
    header up to the end of the IPv6 payload. -/
theorem packet_ip6 (os : List AnyObj) (h : ∀ o ∈ os, registryPreds.Inv o ∧ registryPreds.Ser o)
    (n : Nat) (p : Ip6.Ipv6) (h1 : os[n]? = some (.ip6 (.ip6 p)))
    (h16 : Ip6.Ipv6.headersSize p.headers + (ctxAt os n).innerSize < 65536) :
    ∃ out, serializeObjs os = .ok out ∧
      (layerBytes os n (.ip6 (.ip6 p)) out).length = 40 + (Ip6.Ipv6.headersSize p.headers + (ctxAt os n).innerSize) ∧
      Cursor.beNat (((layerBytes os n (.ip6 (.ip6 p)) out).drop 4).take 2) + 40 = (layerBytes os n (.ip6 (.ip6 p)) out).length ∧
      ((layerBytes os n (.ip6 (.ip6 p)) out).drop 8).take 32 = p.src ++ p.dst := by
  have hm := h _ (mem_of_get os n _ h1)
  have hinv : p.Inv := hm.1
  rcases layer_in_packet os h n _ h1 with ⟨out, region, e1, hlen, hw⟩
  have hlen' : region.length = p.hdr + (ctxAt os n).innerSize := by
    have : region.length = p.hdr + (ctxAt os n).innerSize + 0 := hlen
    omega
  have hw' : p.write (ctxAt os n) region = .ok (layerBytes os n (.ip6 (.ip6 p)) out) := hw
  rcases wire_ip6_payload_length (ctxAt os n) p hinv region hlen' h16 with ⟨o1, w1, _, t1, l1⟩
  rcases wire_ip6_addrs (ctxAt os n) p hinv region (by omega) with ⟨o2, w2, a2⟩
  have ed1 : o1 = _ := Out.ok.inj (w1.symm.trans hw')
  have ed2 : o2 = _ := Out.ok.inj (w2.symm.trans hw')
  subst ed1
  subst ed2
  exact ⟨out, e1, l1, by rw [t1, l1]; omega, a2⟩

/-! ### IP / UDP and IP / TCP -/

/-- **… / IP / UDP / … inside a packet.**  In the serialization of any stack satisfying the invariants in which an `IP`
    (any options) is directly followed by a `UDP` (anything above, any payload below), with the IP datagram within 65535
    bytes: in the final packet bytes, at the IP layer's offset, the IP header checksum verifies, the total length equals the
    number of bytes from the IP header to the end of the IP payload, the protocol octet is 17, and the UDP checksum
    verifies over the RFC 768 pseudo header — built from the very source and destination address bytes of that IP
    header — followed by the UDP datagram; the UDP length field is the datagram's length. -/
theorem packet_ip_udp (os : List AnyObj) (h : ∀ o ∈ os, registryPreds.Inv o ∧ registryPreds.Ser o)
    (n : Nat) (ip : Ip.Ip4) (u : Transport.Udp) (h1 : os[n]? = some (.ip (.ip ip))) (h2 : os[n + 1]? = some (.tr (.udp u)))
    (h16 : ip.hdr + (ctxAt os n).innerSize < 65536) :
    ∃ out dg seg, serializeObjs os = .ok out ∧
      dg = (out.drop (layerOffset os n)).take (ip.hdr + (ctxAt os n).innerSize) ∧ seg = dg.drop ip.hdr ∧
      dg.length = ip.hdr + (ctxAt os n).innerSize ∧
      Ck.Spec.verifies (dg.take ip.hdr) = true ∧
      Cursor.beNat ((dg.drop 2).take 2) = dg.length ∧
      Ip.byteAt dg 0 % 16 * 4 = ip.hdr ∧ Ip.byteAt dg 9 = 17 ∧
      (dg.drop 12).take 8 = ip.src ++ ip.dst ∧
      Ck.Spec.verifies (Ck.Spec.pseudo4 ip.src ip.dst 17 seg.length ++ seg) = true ∧
      Cursor.beNat ((seg.drop 4).take 2) = seg.length ∧
      ¬ (seg[6]? = some 0 ∧ seg[7]? = some 0) := by
  have hinv : ip.Inv := (h _ (mem_of_get os n _ h1)).1
  have hfit : ip.Fits := (h _ (mem_of_get os n _ h1)).2
  rcases packet_ip4 os h n ip h1 h16 with ⟨out, e1, l1, v1, t1, i1, p1, a1⟩
  rcases layer_in_packet os h (n + 1) _ h2 with ⟨out', region, e1', hlen, hw⟩
  have eo : out' = out := Out.ok.inj (e1'.symm.trans e1)
  subst eo
  have hsucc := layerBytes_succ os n (.ip (.ip ip)) (.tr (.udp u)) out' h1 h2 rfl
  have hin := ctxAt_innerSize_succ os n (.tr (.udp u)) h2
  have hin' : (ctxAt os n).innerSize = 8 + (ctxAt os (n + 1)).innerSize := by
    have : (ctxAt os n).innerSize = 8 + 0 + (ctxAt os (n + 1)).innerSize := hin
    omega
  have hlen' : region.length = 8 + (ctxAt os (n + 1)).innerSize := by
    have : region.length = 8 + (ctxAt os (n + 1)).innerSize + 0 := hlen
    omega
  have hw' : u.write (ctxAt os (n + 1)) region = .ok (layerBytes os (n + 1) (.tr (.udp u)) out') := hw
  rw [← hsucc] at hw'
  have hdg : layerBytes os n (.ip (.ip ip)) out' = (out'.drop (layerOffset os n)).take (ip.hdr + (ctxAt os n).innerSize) := by
    unfold layerBytes
    show List.take (ip.hdr + (ctxAt os n).innerSize + 0) _ = _
    rw [Nat.add_zero]
  rw [hdg] at hw' l1 v1 t1 i1 p1 a1
  generalize hdq : (out'.drop (layerOffset os n)).take (ip.hdr + (ctxAt os n).innerSize) = dg at hw' l1 v1 t1 i1 p1 a1
  have hpar := parentIp4_of os n ip h1
  rcases wire_udp_checksum_verifies_ip4 (ctxAt os (n + 1)) u region ip.src ip.dst hpar hinv.src hinv.dst hlen' (by omega)
    with ⟨o1, w1, _, _, c1⟩
  rcases wire_udp_length (ctxAt os (n + 1)) u region hlen' (by omega) with ⟨o2, w2, c2⟩
  have ed1 : o1 = dg.drop ip.hdr := Out.ok.inj (w1.symm.trans hw')
  have ed2 : o2 = dg.drop ip.hdr := Out.ok.inj (w2.symm.trans hw')
  subst ed1
  rw [ed2] at c2
  have hz := wire_udp_zero (ctxAt os (n + 1)) u region ip.src ip.dst (.inl hpar) (by omega) _ hw'
  refine ⟨out', dg, dg.drop ip.hdr, e1, hdq.symm, rfl, l1, v1, t1, i1, ?_, ?_, c1, c2, hz⟩
  · rw [p1]
    have hi : (ctxAt os n).inners.head? = some (infoOf (.tr (.udp u)) (ctxAt os (n + 1)).innerSize) := by
      show ((infos os).drop (n + 1)).head? = _
      rw [drop_of_get (infos os) (n + 1) _ (infos_get os (n + 1) _ h2)]; rfl
    have hu : Tags.ipProtoOfPduType (Tags.pduTypeOf "UDP") = 17 := by decide
    have hc : (infoOf (.tr (.udp u)) (ctxAt os (n + 1)).innerSize).cls = "UDP" := rfl
    unfold Ip.Ip4.protocolFor
    rw [hi]
    simp only [hc, hu]
    rfl
  · exact a1

/-! ### the layer directly below a trailer-less layer -/

/-- the region `PDU::serialize` handed to layer `n + 1` and what its writer returned: the bytes behind layer `n`'s header -/
theorem below_in_packet (os : List AnyObj) (h : ∀ o ∈ os, registryPreds.Inv o ∧ registryPreds.Ser o)
    (n : Nat) (o o' : AnyObj) (h1 : os[n]? = some o) (h2 : os[n + 1]? = some o') (ht : o.trl (ctxAt os n).innerSize = 0)
    (out : Bytes) (e1 : serializeObjs os = .ok out) :
    ∃ region, region.length = o'.hdr + (ctxAt os (n + 1)).innerSize + o'.trl (ctxAt os (n + 1)).innerSize ∧
      o'.write (ctxAt os (n + 1)) region = .ok ((layerBytes os n o out).drop o.hdr) ∧
      (ctxAt os n).innerSize = o'.hdr + (ctxAt os (n + 1)).innerSize + o'.trl (ctxAt os (n + 1)).innerSize := by
  rcases layer_in_packet os h (n + 1) _ h2 with ⟨out', region, e1', hlen, hw⟩
  have eo : out' = out := Out.ok.inj (e1'.symm.trans e1)
  subst eo
  refine ⟨region, hlen, ?_, ?_⟩
  · rw [layerBytes_succ os n o o' out' h1 h2 ht]; exact hw
  · rw [ctxAt_innerSize_succ os n o' h2]; omega

theorem protocolFor_of_inner (os : List AnyObj) (n : Nat) (ip : Ip.Ip4) (o' : AnyObj) (h2 : os[n + 1]? = some o')
    (v : Nat) (hv : Tags.ipProtoOfPduType (Tags.pduTypeOf o'.info.1) = v) (hne : v ≠ 255) (hlt : v < 256) :
    Ip.Ip4.protocolFor (ctxAt os n) ip = v := by
  have hi : (ctxAt os n).inners.head? = some (infoOf o' (ctxAt os (n + 1)).innerSize) := by
    show ((infos os).drop (n + 1)).head? = _
    rw [drop_of_get (infos os) (n + 1) _ (infos_get os (n + 1) _ h2)]; rfl
  have hc : (infoOf o' (ctxAt os (n + 1)).innerSize).cls = o'.info.1 := rfl
  unfold Ip.Ip4.protocolFor
  rw [hi]
  simp only [hc, hv]
  simp [hne, Nat.mod_eq_of_lt hlt]

/-- **… / IP / TCP / … inside a packet.**  As `packet_ip_udp`, for a `TCP` with any option list that fits the option area:
    IP header checksum, total length, IHL, protocol 6, and the TCP checksum over the RFC 793 pseudo header built from the
    address bytes of that IP header followed by the whole segment (header, options, padding, payload); data offset · 4 is
    the TCP header size. -/
theorem packet_ip_tcp (os : List AnyObj) (h : ∀ o ∈ os, registryPreds.Inv o ∧ registryPreds.Ser o)
    (n : Nat) (ip : Ip.Ip4) (t : Transport.Tcp) (h1 : os[n]? = some (.ip (.ip ip))) (h2 : os[n + 1]? = some (.tr (.tcp t)))
    (h16 : ip.hdr + (ctxAt os n).innerSize < 65536) :
    ∃ out dg seg, serializeObjs os = .ok out ∧
      dg = layerBytes os n (.ip (.ip ip)) out ∧ seg = dg.drop ip.hdr ∧
      dg.length = ip.hdr + (ctxAt os n).innerSize ∧
      Ck.Spec.verifies (dg.take ip.hdr) = true ∧
      Cursor.beNat ((dg.drop 2).take 2) = dg.length ∧
      Ip.byteAt dg 0 % 16 * 4 = ip.hdr ∧ Ip.byteAt dg 9 = 6 ∧
      (dg.drop 12).take 8 = ip.src ++ ip.dst ∧
      Ck.Spec.verifies (Ck.Spec.pseudo4 ip.src ip.dst 6 seg.length ++ seg) = true ∧
      Transport.byteAt seg 12 / 16 * 4 = t.hdr := by
  have hinv : ip.Inv := (h _ (mem_of_get os n _ h1)).1
  have htinv : t.Inv := (h _ (mem_of_get os (n + 1) _ h2)).1
  have hts : Transport.Tcp.optsSum t.opts ≤ 40 := (h _ (mem_of_get os (n + 1) _ h2)).2
  rcases packet_ip4 os h n ip h1 h16 with ⟨out, e1, l1, v1, t1, i1, p1, a1⟩
  rcases below_in_packet os h n _ _ h1 h2 rfl out e1 with ⟨region, hlen, hw, hin⟩
  have hlen' : region.length = t.hdr + (ctxAt os (n + 1)).innerSize := by
    have : region.length = t.hdr + (ctxAt os (n + 1)).innerSize + 0 := hlen
    omega
  have hin' : (ctxAt os n).innerSize = t.hdr + (ctxAt os (n + 1)).innerSize + 0 := hin
  have hw' : t.write (ctxAt os (n + 1)) region = .ok ((layerBytes os n (.ip (.ip ip)) out).drop ip.hdr) := hw
  have hpar := parentIp4_of os n ip h1
  rcases wire_tcp_checksum_verifies_ip4 (ctxAt os (n + 1)) t hts region ip.src ip.dst hpar hinv.src hinv.dst hlen' (by omega)
    with ⟨o1, w1, _, _, c1⟩
  rcases wire_tcp_data_offset (ctxAt os (n + 1)) t htinv hts region (by omega) with ⟨o2, w2, c2, _⟩
  have ed1 : o1 = _ := Out.ok.inj (w1.symm.trans hw')
  have ed2 : o2 = _ := Out.ok.inj (w2.symm.trans hw')
  subst ed1
  subst ed2
  refine ⟨out, _, _, e1, rfl, rfl, l1, v1, t1, i1, ?_, a1, c1, c2⟩
  rw [p1]
  exact protocolFor_of_inner os n ip _ h2 6 (show Tags.ipProtoOfPduType (Tags.pduTypeOf "TCP") = 6 by decide) (by decide) (by decide)

/-- **… / IP / ICMP / … inside a packet.**  IP header checksum, total length, protocol 1, and the ICMP checksum over the
    whole ICMP message (header, quoted datagram, RFC 4884 padding and extension structure). -/
theorem packet_ip_icmp (os : List AnyObj) (h : ∀ o ∈ os, registryPreds.Inv o ∧ registryPreds.Ser o)
    (n : Nat) (ip : Ip.Ip4) (p : Icmp.Icmp4) (h1 : os[n]? = some (.ip (.ip ip))) (h2 : os[n + 1]? = some (.icmp (.icmp p)))
    (h16 : ip.hdr + (ctxAt os n).innerSize < 65536) :
    ∃ out dg msg, serializeObjs os = .ok out ∧
      dg = layerBytes os n (.ip (.ip ip)) out ∧ msg = dg.drop ip.hdr ∧
      dg.length = ip.hdr + (ctxAt os n).innerSize ∧
      Ck.Spec.verifies (dg.take ip.hdr) = true ∧
      Cursor.beNat ((dg.drop 2).take 2) = dg.length ∧ Ip.byteAt dg 9 = 1 ∧
      Ck.Spec.verifies msg = true := by
  have hpinv : p.Inv := (h _ (mem_of_get os (n + 1) _ h2)).1
  have hpser : p.Ser := (h _ (mem_of_get os (n + 1) _ h2)).2
  rcases packet_ip4 os h n ip h1 h16 with ⟨out, e1, l1, v1, t1, _, p1, _⟩
  rcases below_in_packet os h n _ _ h1 h2 rfl out e1 with ⟨region, hlen, hw, hin⟩
  have hlen' : region.length = p.hdr + (ctxAt os (n + 1)).innerSize + p.trl (ctxAt os (n + 1)).innerSize := hlen
  have hin' : (ctxAt os n).innerSize = p.hdr + (ctxAt os (n + 1)).innerSize + p.trl (ctxAt os (n + 1)).innerSize := hin
  have hw' : p.write (ctxAt os (n + 1)) region = .ok ((layerBytes os n (.ip (.ip ip)) out).drop ip.hdr) := hw
  rcases wire_icmp_checksum_verifies (ctxAt os (n + 1)) p hpinv hpser region hlen' (by omega) with ⟨o1, w1, _, _, c1⟩
  have ed1 : o1 = _ := Out.ok.inj (w1.symm.trans hw')
  subst ed1
  refine ⟨out, _, _, e1, rfl, rfl, l1, v1, t1, ?_, c1⟩
  rw [p1]
  exact protocolFor_of_inner os n ip _ h2 1 (show Tags.ipProtoOfPduType (Tags.pduTypeOf "ICMP") = 1 by decide) (by decide) (by decide)

/-! ### IPv6 / UDP, TCP, ICMPv6 -/

/-- **… / IPv6 / UDP / … inside a packet** (any extension headers inside the IPv6 layer): the payload length counts the
    bytes behind the 40-byte fixed header, and the UDP checksum verifies over the RFC 8200 pseudo header built from the
    address bytes of that IPv6 header, followed by the datagram; a computed 0 is sent as 0xffff. -/
theorem packet_ip6_udp (os : List AnyObj) (h : ∀ o ∈ os, registryPreds.Inv o ∧ registryPreds.Ser o)
    (n : Nat) (p : Ip6.Ipv6) (u : Transport.Udp) (h1 : os[n]? = some (.ip6 (.ip6 p))) (h2 : os[n + 1]? = some (.tr (.udp u)))
    (h16 : Ip6.Ipv6.headersSize p.headers + (ctxAt os n).innerSize < 65536) :
    ∃ out dg seg, serializeObjs os = .ok out ∧
      dg = layerBytes os n (.ip6 (.ip6 p)) out ∧ seg = dg.drop p.hdr ∧
      Cursor.beNat ((dg.drop 4).take 2) + 40 = dg.length ∧
      (dg.drop 8).take 32 = p.src ++ p.dst ∧
      Ck.Spec.verifies (Ck.Spec.pseudo6 p.src p.dst 17 seg.length ++ seg) = true ∧
      Cursor.beNat ((seg.drop 4).take 2) = seg.length ∧
      ¬ (seg[6]? = some 0 ∧ seg[7]? = some 0) := by
  have hinv : p.Inv := (h _ (mem_of_get os n _ h1)).1
  rcases packet_ip6 os h n p h1 h16 with ⟨out, e1, l1, t1, a1⟩
  rcases below_in_packet os h n _ _ h1 h2 rfl out e1 with ⟨region, hlen, hw, hin⟩
  have hlen' : region.length = 8 + (ctxAt os (n + 1)).innerSize := by
    have : region.length = 8 + (ctxAt os (n + 1)).innerSize + 0 := hlen
    omega
  have hin' : (ctxAt os n).innerSize = 8 + (ctxAt os (n + 1)).innerSize + 0 := hin
  have hw' : u.write (ctxAt os (n + 1)) region = .ok ((layerBytes os n (.ip6 (.ip6 p)) out).drop p.hdr) := hw
  have hpar := parentIp6_of os n p h1
  rcases wire_udp_checksum_verifies_ip6 (ctxAt os (n + 1)) u region p.src p.dst hpar hinv.src hinv.dst hlen' (by omega)
    with ⟨o1, w1, _, _, c1⟩
  rcases wire_udp_length (ctxAt os (n + 1)) u region hlen' (by omega) with ⟨o2, w2, c2⟩
  have hz := wire_udp_zero (ctxAt os (n + 1)) u region p.src p.dst (.inr hpar) (by omega) _ hw'
  have ed1 : o1 = _ := Out.ok.inj (w1.symm.trans hw')
  have ed2 : o2 = _ := Out.ok.inj (w2.symm.trans hw')
  subst ed1
  subst ed2
  exact ⟨out, _, _, e1, rfl, rfl, t1, a1, c1, c2, hz⟩

/-- **… / IPv6 / TCP / … inside a packet.** -/
theorem packet_ip6_tcp (os : List AnyObj) (h : ∀ o ∈ os, registryPreds.Inv o ∧ registryPreds.Ser o)
    (n : Nat) (p : Ip6.Ipv6) (t : Transport.Tcp) (h1 : os[n]? = some (.ip6 (.ip6 p))) (h2 : os[n + 1]? = some (.tr (.tcp t)))
    (h16 : Ip6.Ipv6.headersSize p.headers + (ctxAt os n).innerSize < 65536) :
    ∃ out dg seg, serializeObjs os = .ok out ∧
      dg = layerBytes os n (.ip6 (.ip6 p)) out ∧ seg = dg.drop p.hdr ∧
      Cursor.beNat ((dg.drop 4).take 2) + 40 = dg.length ∧
      (dg.drop 8).take 32 = p.src ++ p.dst ∧
      Ck.Spec.verifies (Ck.Spec.pseudo6 p.src p.dst 6 seg.length ++ seg) = true ∧
      Transport.byteAt seg 12 / 16 * 4 = t.hdr := by
  have hinv : p.Inv := (h _ (mem_of_get os n _ h1)).1
  have htinv : t.Inv := (h _ (mem_of_get os (n + 1) _ h2)).1
  have hts : Transport.Tcp.optsSum t.opts ≤ 40 := (h _ (mem_of_get os (n + 1) _ h2)).2
  rcases packet_ip6 os h n p h1 h16 with ⟨out, e1, l1, t1, a1⟩
  rcases below_in_packet os h n _ _ h1 h2 rfl out e1 with ⟨region, hlen, hw, hin⟩
  have hlen' : region.length = t.hdr + (ctxAt os (n + 1)).innerSize := by
    have : region.length = t.hdr + (ctxAt os (n + 1)).innerSize + 0 := hlen
    omega
  have hin' : (ctxAt os n).innerSize = t.hdr + (ctxAt os (n + 1)).innerSize + 0 := hin
  have hw' : t.write (ctxAt os (n + 1)) region = .ok ((layerBytes os n (.ip6 (.ip6 p)) out).drop p.hdr) := hw
  have hpar := parentIp6_of os n p h1
  rcases wire_tcp_checksum_verifies_ip6 (ctxAt os (n + 1)) t hts region p.src p.dst hpar hinv.src hinv.dst hlen' (by omega)
    with ⟨o1, w1, _, _, c1⟩
  rcases wire_tcp_data_offset (ctxAt os (n + 1)) t htinv hts region (by omega) with ⟨o2, w2, c2, _⟩
  have ed1 : o1 = _ := Out.ok.inj (w1.symm.trans hw')
  have ed2 : o2 = _ := Out.ok.inj (w2.symm.trans hw')
  subst ed1
  subst ed2
  exact ⟨out, _, _, e1, rfl, rfl, t1, a1, c1, c2⟩

/-- **… / IPv6 (+ extension headers) / ICMPv6 / … inside a packet**: the ICMPv6 checksum verifies over the RFC 8200 pseudo
    header (next header 58 — the upper-layer protocol, not the first extension header) built from the address bytes of
    that IPv6 header, followed by the whole ICMPv6 message. -/
theorem packet_ip6_icmp6 (os : List AnyObj) (h : ∀ o ∈ os, registryPreds.Inv o ∧ registryPreds.Ser o)
    (n : Nat) (p : Ip6.Ipv6) (q : Icmp.Icmp6) (h1 : os[n]? = some (.ip6 (.ip6 p))) (h2 : os[n + 1]? = some (.icmp (.icmp6 q)))
    (h16 : Ip6.Ipv6.headersSize p.headers + (ctxAt os n).innerSize < 65536) :
    ∃ out dg msg, serializeObjs os = .ok out ∧
      dg = layerBytes os n (.ip6 (.ip6 p)) out ∧ msg = dg.drop p.hdr ∧
      Cursor.beNat ((dg.drop 4).take 2) + 40 = dg.length ∧
      (dg.drop 8).take 32 = p.src ++ p.dst ∧
      Ck.Spec.verifies (Ck.Spec.pseudo6 p.src p.dst 58 msg.length ++ msg) = true := by
  have hinv : p.Inv := (h _ (mem_of_get os n _ h1)).1
  have hqinv : q.Inv := (h _ (mem_of_get os (n + 1) _ h2)).1
  have hqser : q.Ser := (h _ (mem_of_get os (n + 1) _ h2)).2
  rcases packet_ip6 os h n p h1 h16 with ⟨out, e1, l1, t1, a1⟩
  rcases below_in_packet os h n _ _ h1 h2 rfl out e1 with ⟨region, hlen, hw, hin⟩
  have hlen' : region.length = q.hdr + (ctxAt os (n + 1)).innerSize + q.trl (ctxAt os (n + 1)).innerSize := hlen
  have hin' : (ctxAt os n).innerSize = q.hdr + (ctxAt os (n + 1)).innerSize + q.trl (ctxAt os (n + 1)).innerSize := hin
  have hw' : q.write (ctxAt os (n + 1)) region = .ok ((layerBytes os n (.ip6 (.ip6 p)) out).drop p.hdr) := hw
  have hpar := parentIp6_of os n p h1
  rcases wire_icmp6_checksum_verifies (ctxAt os (n + 1)) q hqinv hqser region p.src p.dst hpar hinv.src hinv.dst hlen' (by omega)
    with ⟨o1, w1, _, _, c1⟩
  have ed1 : o1 = _ := Out.ok.inj (w1.symm.trans hw')
  subst ed1
  exact ⟨out, _, _, e1, rfl, rfl, t1, a1, c1⟩

/-! ### the Ethernet frame around it -/

/-- **EthernetII at the bottom of the stack** (position 0): the serialized packet is at least 60 bytes — exactly
    `max 60 (14 + size of the inner chain)` — everything behind the inner chain is zero padding, and bytes 12..13 are the
    EtherType libtins assigns to the class of layer 1. -/
theorem packet_eth (os : List AnyObj) (h : ∀ o ∈ os, registryPreds.Inv o ∧ registryPreds.Ser o)
    (e : L2.Eth) (rest : List AnyObj) (hos : os = .l2 (.eth e) :: rest) :
    ∃ out, serializeObjs os = .ok out ∧ out.length = max 60 (14 + (ctxAt os 0).innerSize) ∧
      out.drop (14 + (ctxAt os 0).innerSize) = List.replicate (46 - (ctxAt os 0).innerSize) 0 ∧
      Cursor.beNat ((out.drop 12).take 2) = L2.Eth.tagFor (ctxAt os 0) e := by
  have h0 : os[0]? = some (.l2 (.eth e)) := by rw [hos]; rfl
  have hwf : e.WF := (h _ (mem_of_get os 0 _ h0)).1
  rcases layer_in_packet os h 0 _ h0 with ⟨out, region, e1, hlen, hw⟩
  have hlen' : region.length = 14 + (ctxAt os 0).innerSize + L2.Eth.trl (ctxAt os 0).innerSize := hlen
  have hoff : layerOffset os 0 = 0 := by rw [layerOffset_eq]; rfl
  have hw' : e.write (ctxAt os 0) region =
      .ok (out.take (14 + (ctxAt os 0).innerSize + L2.Eth.trl (ctxAt os 0).innerSize)) := by
    have := hw; rw [hoff] at this; exact this
  -- the packet is exactly this layer's region
  rcases built_packet_serializes os h with ⟨out2, e2, l2⟩
  have eo : out2 = out := Out.ok.inj (e2.symm.trans e1)
  subst eo
  have hsz : Wire.sizeOf (sems os) = 14 + (ctxAt os 0).innerSize + L2.Eth.trl (ctxAt os 0).innerSize := by
    have hd := sems_drop_cons os 0 _ h0
    rw [List.drop_zero] at hd
    rw [hd]
    simp only [Wire.sizeOf]
    rw [sizeOf_semsAux', infos_drop]
    show 14 + L2.Eth.trl (ctxAt os 0).innerSize + (ctxAt os 0).innerSize = _
    omega
  rw [← hsz, ← l2, List.take_length] at hw'
  rcases wire_eth_min_60 (ctxAt os 0) e hwf region hlen' with ⟨o1, w1, c1, _, c3⟩
  rcases wire_eth_tag (ctxAt os 0) e hwf region hlen' with ⟨o2, w2, c4, _⟩
  have ed1 : o1 = out2 := Out.ok.inj (w1.symm.trans hw')
  have ed2 : o2 = out2 := Out.ok.inj (w2.symm.trans hw')
  rw [ed1] at c1 c3
  rw [ed2] at c4
  exact ⟨out2, e1, c1, c3, c4⟩

/-! ### where the hypothesis comes from -/

/-- every packet libtins accepts (any entry point, any bytes a `uint32_t` can measure) that contains neither PPI nor PKTAP
    satisfies the hypothesis of `layer_in_packet` and of the `packet_*` theorems — so they hold for the re-serialization of
    every parsed packet; for API-built stacks the hypothesis is what the constructors establish and the setters preserve
    (`<fam>_mk_inv`, `<fam>_apply_inv`) -/
theorem parsed_packet_good (cls : String) (b : Bytes) (os : List AnyObj) (hb : b.length < 4294967296)
    (h : parseChain (b.length + 2) cls b = .ok os) (hn : ∀ o ∈ os, NotPseudo o) :
    ∀ o ∈ os, registryPreds.Inv o ∧ registryPreds.Ser o :=
  good_to_invSer os (parsed_layers_good cls b os hb h) hn

end Tins.Wire.Derived
