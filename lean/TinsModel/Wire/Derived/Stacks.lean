import TinsModel.Wire.Derived.Packet
/-
  Property C05 inside the final packet bytes, for the transport stacks: in `serialize()` of **any** stack of layers
  satisfying their invariants that contains `… / IP / UDP|TCP / …` or `… / IPv6 / UDP|TCP|ICMPv6 / …` (whatever is above:
  EthernetII, 802.1Q, SLL, tunnels …; whatever is below: payload of any length) the IP header checksum and the transport
  checksum verify under RFC 1071 over the bytes of the final packet, and the IP length fields equal the number of bytes
  they govern.  Built from `layer_in_packet` (C02: the layers above do not disturb a layer's bytes) and the per-layer
  theorems of `Wire/Derived/{Ip4,Ip6,Udp,Tcp,Icmp}.lean`.
-/
set_option autoImplicit false
namespace Tins.Wire.Derived
open Tins Tins.Wire

/-- the bytes of layer `n` and everything inside it, cut out of the serialized packet -/
def layerBytes (os : List AnyObj) (n : Nat) (o : AnyObj) (out : Bytes) : Bytes :=
  (out.drop (layerOffset os n)).take (o.hdr + (ctxAt os n).innerSize + o.trl (ctxAt os n).innerSize)

/-- below a layer without trailer, the next layer's bytes start right behind its header and run to its end -/
theorem layerBytes_succ (os : List AnyObj) (n : Nat) (o o' : AnyObj) (out : Bytes) (h1 : os[n]? = some o)
    (h2 : os[n + 1]? = some o') (ht : o.trl (ctxAt os n).innerSize = 0) :
    (layerBytes os n o out).drop o.hdr = layerBytes os (n + 1) o' out := by
  unfold layerBytes
  rw [ht, List.drop_take, List.drop_drop, layerOffset_succ os n o h1, ctxAt_innerSize_succ os n o' h2]
  congr 1
  omega

theorem mem_of_get {α} (l : List α) (n : Nat) (x : α) (h : l[n]? = some x) : x ∈ l := List.mem_of_getElem? h

/-! ### the IP layer of a packet -/

/-- **IPv4 header inside a packet.**  For an `IP` at any position `n` of any stack satisfying the invariants, whose datagram
    (header + everything inside) fits the 16-bit total length: in the final packet bytes, the datagram `dg` at the IP
    layer's offset has its header checksum verifying, its total-length field equal to the number of bytes from the first
    header byte to the end of the IP payload, and IHL·4 equal to the offset at which the payload starts. -/
theorem packet_ip4 (os : List AnyObj) (h : ∀ o ∈ os, registryPreds.Inv o ∧ registryPreds.Ser o)
    (n : Nat) (ip : Ip.Ip4) (h1 : os[n]? = some (.ip (.ip ip))) (h16 : ip.hdr + (ctxAt os n).innerSize < 65536) :
    ∃ out, serializeObjs os = .ok out ∧
      (layerBytes os n (.ip (.ip ip)) out).length = ip.hdr + (ctxAt os n).innerSize ∧
      Ck.Spec.verifies ((layerBytes os n (.ip (.ip ip)) out).take ip.hdr) = true ∧
      Cursor.beNat (((layerBytes os n (.ip (.ip ip)) out).drop 2).take 2) = (layerBytes os n (.ip (.ip ip)) out).length ∧
      Ip.byteAt (layerBytes os n (.ip (.ip ip)) out) 0 % 16 * 4 = ip.hdr ∧
      Ip.byteAt (layerBytes os n (.ip (.ip ip)) out) 9 = Ip.Ip4.protocolFor (ctxAt os n) ip ∧
      ((layerBytes os n (.ip (.ip ip)) out).drop 12).take 8 = ip.src ++ ip.dst := by
  have hm := h _ (mem_of_get os n _ h1)
  have hinv : ip.Inv := hm.1
  have hfit : ip.Fits := hm.2
  rcases layer_in_packet os h n _ h1 with ⟨out, region, e1, hlen, hw⟩
  have hlen' : region.length = ip.hdr + (ctxAt os n).innerSize := by
    have : region.length = ip.hdr + (ctxAt os n).innerSize + 0 := hlen
    omega
  have hw' : ip.write (ctxAt os n) region = .ok (layerBytes os n (.ip (.ip ip)) out) := hw
  rcases wire_ip4_header_checksum_verifies (ctxAt os n) ip hinv hfit region (by omega) with ⟨o1, w1, l1, _, v1⟩
  rcases ip4_written_header (ctxAt os n) ip hinv hfit region (by omega) with ⟨o2, w2, _, i2, _, t2, p2, a2⟩
  have ed1 : o1 = _ := Out.ok.inj (w1.symm.trans hw')
  have ed2 : o2 = _ := Out.ok.inj (w2.symm.trans hw')
  subst ed1
  subst ed2
  have hm4 := Ip.hdr_mod4 ip
  refine ⟨out, e1, by rw [l1, hlen'], v1, ?_, by rw [i2]; omega, p2, a2⟩
  rw [t2, l1, hlen']
  exact Nat.mod_eq_of_lt h16

/-- **IPv6 fixed header inside a packet**: the payload-length field equals the number of bytes behind the 40-byte fixed
    header up to the end of the IPv6 payload. -/
theorem packet_ip6 (os : List AnyObj) (h : ∀ o ∈ os, registryPreds.Inv o ∧ registryPreds.Ser o)
    (n : Nat) (p : Ip6.Ipv6) (h1 : os[n]? = some (.ip6 (.ip6 p)))
    (h16 : Ip6.Ipv6.headersSize p.headers + (ctxAt os n).innerSize < 65536) :
    ∃ out, serializeObjs os = .ok out ∧
      (layerBytes os n (.ip6 (.ip6 p)) out).length = 40 + (Ip6.Ipv6.headersSize p.headers + (ctxAt os n).innerSize) ∧
      Cursor.beNat (((layerBytes os n (.ip6 (.ip6 p)) out).drop 4).take 2) + 40 = (layerBytes os n (.ip6 (.ip6 p)) out).length := by
  have hm := h _ (mem_of_get os n _ h1)
  have hinv : p.Inv := hm.1
  rcases layer_in_packet os h n _ h1 with ⟨out, region, e1, hlen, hw⟩
  have hlen' : region.length = p.hdr + (ctxAt os n).innerSize := by
    have : region.length = p.hdr + (ctxAt os n).innerSize + 0 := hlen
    omega
  have hw' : p.write (ctxAt os n) region = .ok (layerBytes os n (.ip6 (.ip6 p)) out) := hw
  rcases wire_ip6_payload_length (ctxAt os n) p hinv region hlen' h16 with ⟨o1, w1, _, t1, l1⟩
  have ed1 : o1 = _ := Out.ok.inj (w1.symm.trans hw')
  subst ed1
  exact ⟨out, e1, l1, by rw [t1, l1]; omega⟩

/-! ### IP / UDP and IP / TCP -/

/-- **… / IP / UDP / … inside a packet.**  In the serialization of any stack satisfying the invariants in which an `IP`
    (any options) is directly followed by a `UDP` (anything above, any payload below), with the IP datagram within 65535
    bytes: in the final packet bytes, at the IP layer's offset, the IP header checksum verifies, the total length equals the
    number of bytes from the IP header to the end of the IP payload, the protocol octet is 17, and the UDP checksum
    verifies over the RFC 768 pseudo header — built from the very source and destination address bytes of that IP
    header — followed by the UDP datagram; the UDP length field is the datagram's length. -/
theorem packet_ip_udp (os : List AnyObj) (h : ∀ o ∈ os, registryPreds.Inv o ∧ registryPreds.Ser o)
    (n : Nat) (ip : Ip.Ip4) (u : Transport.Udp) (h1 : os[n]? = some (.ip (.ip ip))) (h2 : os[n + 1]? = some (.tr (.udp u)))
    (h16 : ip.hdr + (ctxAt os n).innerSize < 65536) :
    ∃ out dg seg, serializeObjs os = .ok out ∧
      dg = (out.drop (layerOffset os n)).take (ip.hdr + (ctxAt os n).innerSize) ∧ seg = dg.drop ip.hdr ∧
      dg.length = ip.hdr + (ctxAt os n).innerSize ∧
      Ck.Spec.verifies (dg.take ip.hdr) = true ∧
      Cursor.beNat ((dg.drop 2).take 2) = dg.length ∧
      Ip.byteAt dg 0 % 16 * 4 = ip.hdr ∧ Ip.byteAt dg 9 = 17 ∧
      (dg.drop 12).take 8 = ip.src ++ ip.dst ∧
      Ck.Spec.verifies (Ck.Spec.pseudo4 ip.src ip.dst 17 seg.length ++ seg) = true ∧
      Cursor.beNat ((seg.drop 4).take 2) = seg.length ∧
      ¬ (seg[6]? = some 0 ∧ seg[7]? = some 0) := by
  have hinv : ip.Inv := (h _ (mem_of_get os n _ h1)).1
  have hfit : ip.Fits := (h _ (mem_of_get os n _ h1)).2
  rcases packet_ip4 os h n ip h1 h16 with ⟨out, e1, l1, v1, t1, i1, p1, a1⟩
  rcases layer_in_packet os h (n + 1) _ h2 with ⟨out', region, e1', hlen, hw⟩
  have eo : out' = out := Out.ok.inj (e1'.symm.trans e1)
  subst eo
  have hsucc := layerBytes_succ os n (.ip (.ip ip)) (.tr (.udp u)) out' h1 h2 rfl
  have hin := ctxAt_innerSize_succ os n (.tr (.udp u)) h2
  have hin' : (ctxAt os n).innerSize = 8 + (ctxAt os (n + 1)).innerSize := by
    have : (ctxAt os n).innerSize = 8 + 0 + (ctxAt os (n + 1)).innerSize := hin
    omega
  have hlen' : region.length = 8 + (ctxAt os (n + 1)).innerSize := by
    have : region.length = 8 + (ctxAt os (n + 1)).innerSize + 0 := hlen
    omega
  have hw' : u.write (ctxAt os (n + 1)) region = .ok (layerBytes os (n + 1) (.tr (.udp u)) out') := hw
  rw [← hsucc] at hw'
  have hdg : layerBytes os n (.ip (.ip ip)) out' = (out'.drop (layerOffset os n)).take (ip.hdr + (ctxAt os n).innerSize) := by
    unfold layerBytes
    show List.take (ip.hdr + (ctxAt os n).innerSize + 0) _ = _
    rw [Nat.add_zero]
  rw [hdg] at hw' l1 v1 t1 i1 p1 a1
  generalize hdq : (out'.drop (layerOffset os n)).take (ip.hdr + (ctxAt os n).innerSize) = dg at hw' l1 v1 t1 i1 p1 a1
  have hpar := parentIp4_of os n ip h1
  rcases wire_udp_checksum_verifies_ip4 (ctxAt os (n + 1)) u region ip.src ip.dst hpar hinv.src hinv.dst hlen' (by omega)
    with ⟨o1, w1, _, _, c1⟩
  rcases wire_udp_length (ctxAt os (n + 1)) u region hlen' (by omega) with ⟨o2, w2, c2⟩
  have ed1 : o1 = dg.drop ip.hdr := Out.ok.inj (w1.symm.trans hw')
  have ed2 : o2 = dg.drop ip.hdr := Out.ok.inj (w2.symm.trans hw')
  subst ed1
  rw [ed2] at c2
  have hz := wire_udp_zero (ctxAt os (n + 1)) u region ip.src ip.dst (.inl hpar) (by omega) _ hw'
  refine ⟨out', dg, dg.drop ip.hdr, e1, hdq.symm, rfl, l1, v1, t1, i1, ?_, ?_, c1, c2, hz⟩
  · rw [p1]
    have hi : (ctxAt os n).inners.head? = some (infoOf (.tr (.udp u)) (ctxAt os (n + 1)).innerSize) := by
      show ((infos os).drop (n + 1)).head? = _
      rw [drop_of_get (infos os) (n + 1) _ (infos_get os (n + 1) _ h2)]; rfl
    have hu : Tags.ipProtoOfPduType (Tags.pduTypeOf "UDP") = 17 := by decide
    have hc : (infoOf (.tr (.udp u)) (ctxAt os (n + 1)).innerSize).cls = "UDP" := rfl
    unfold Ip.Ip4.protocolFor
    rw [hi]
    simp only [hc, hu]
    rfl
  · exact a1

end Tins.Wire.Derived
