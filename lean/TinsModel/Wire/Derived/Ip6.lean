import TinsModel.Wire.Derived.Ip4
import TinsModel.Wire.Ip6.ThWrite
import TinsModel.Wire.Ip6.ThFamily
/-
  Property C05 over the wire model of `IPv6::write_serialization` (`Wire/Ip6/Ipv6.lean`): the payload length counts the
  extension headers and everything inside, every extension header's Hdr Ext Len is its size in 8-octet units minus one,
  and the next-header octets form the chain fixed header → first extension header … last extension header → inner class.
-/
set_option autoImplicit false
namespace Tins.Wire.Derived
open Tins Tins.Wire Tins.Wire.Ip6 Tins.Wire.Ip6.Ipv6

theorem sub32_of_le (a b : Nat) (h1 : b ≤ a) (h2 : a < 4294967296) : Ip6.sub32 a b = a - b := by
  unfold Ip6.sub32; omega

/-- the 40 fixed bytes: where the derived fields sit -/
theorem ip6_headerBytes_fields (p : Ipv6) (rest : Bytes) :
    ((p.headerBytes ++ rest).drop 4).take 2 = OutCursor.beBytes 2 p.payloadLength ∧
    (p.headerBytes ++ rest)[6]? = some (UInt8.ofNat p.nextHeader) := by
  constructor
  · have e : p.headerBytes ++ rest =
        [UInt8.ofNat (p.version * 16 + p.trafficClass / 16), UInt8.ofNat (p.trafficClass % 16 * 16 + p.flowLabel / 65536),
         UInt8.ofNat (p.flowLabel / 256 % 256), UInt8.ofNat (p.flowLabel % 256)] ++
        (OutCursor.beBytes 2 p.payloadLength ++ ([UInt8.ofNat p.nextHeader, UInt8.ofNat p.hopLimit] ++ p.src ++ p.dst ++ rest)) := by
      simp [Ipv6.headerBytes, List.append_assoc]
    rw [e, List.drop_left' (by rfl), List.take_left' (by simp)]
  · simp [Ipv6.headerBytes, OutCursor.beBytes]

/-- **IPv6 payload length.**  On the region `PDU::serialize` hands out, the 16-bit payload-length field (bytes 4..5) in
    the bytes `write_serialization` leaves there equals the size of the extension headers plus everything inside the IPv6
    layer — the number of bytes behind the 40-byte fixed header — whenever that fits the field. -/
theorem wire_ip6_payload_length (cx : Ctx) (p : Ipv6) (h : p.Inv) (region : Bytes)
    (hreg : region.length = p.hdr + cx.innerSize) (h16 : headersSize p.headers + cx.innerSize < 65536) :
    ∃ out, p.write cx region = .ok out ∧ out.length = region.length ∧
      Cursor.beNat ((out.drop 4).take 2) = headersSize p.headers + cx.innerSize ∧ out.length = 40 + (headersSize p.headers + cx.innerSize) := by
  have hr : p.hdr ≤ region.length := by omega
  rcases ipv6_writesOnly cx p h region (by simpa [ipv6Sem] using hr) with ⟨out', hw', hl', _⟩
  have hw := ipv6_write_eq cx p h region hr
  simp only [ipv6Sem] at hw'
  have he : out' = _ := Out.ok.inj (hw'.symm.trans hw)
  refine ⟨_, hw, by rw [← he]; exact hl', ?_, by rw [← he, hl', hreg]; simp only [Ipv6.hdr]; omega⟩
  rw [List.append_assoc, (ip6_headerBytes_fields _ _).1, beNat_beBytes]
  simp only [Ipv6.written, Ipv6.hdr] at hreg ⊢
  rw [sub32_of_le _ _ (by omega) (by omega), hreg]
  omega

/-- **IPv6 extension headers: Hdr Ext Len.**  The bytes `write_serialization` leaves are the 40 fixed bytes, then one block
    per extension header, then the payload; the block of a header whose length field is not spoofed
    (`lenField = data.length`, what `add_header` and the parser produce) is `hdrSize` bytes long — next-header octet,
    length octet, data, zero padding to a multiple of 8 — and its length octet (offset 1) is that size in 8-octet units
    minus one (RFC 8200 §4), for every data size (including 7 modulo 8) up to the 2048 bytes the octet can express. -/
theorem wire_ip6_ext_len_octets (cx : Ctx) (p : Ipv6) (h : p.Inv) (region : Bytes) (hr : p.hdr ≤ region.length) :
    ∃ out fixed, p.write cx region = .ok out ∧ fixed.length = 40 ∧
      out = fixed ++ (Ipv6.wireHeaders cx p).flatMap (fun x => hdrBytes x.1 x.2) ++ region.drop p.hdr ∧
      (Ipv6.wireHeaders cx p).map (·.1) = p.headers ∧
      ∀ x ∈ Ipv6.wireHeaders cx p,
        (hdrBytes x.1 x.2).length = hdrSize x.1 ∧ hdrSize x.1 % 8 = 0 ∧
        (hdrBytes x.1 x.2)[1]? = some (UInt8.ofNat (lengthOctet x.1)) ∧
        (hdrBytes x.1 x.2).drop (2 + x.1.data.length) = List.replicate (paddingSize x.1) 0 ∧
        (x.1.lenField = x.1.data.length → hdrSize x.1 ≤ 2048 →
          lengthOctet x.1 < 256 ∧ (lengthOctet x.1 + 1) * 8 = hdrSize x.1) := by
  refine ⟨_, _, ipv6_write_eq cx p h region hr, headerBytes_length _ (written_inv cx p h region.length), rfl,
    zip_map_fst _ _ (wireChain_length p _), ?_⟩
  intro x _
  refine ⟨hdrBytes_length x.1 x.2, (hdrSize_mod8 x.1).1, by simp [hdrBytes], ?_, ?_⟩
  · simp only [hdrBytes, List.append_assoc]
    rw [show (2 + x.1.data.length) = ([UInt8.ofNat x.2, UInt8.ofNat (lengthOctet x.1)] ++ x.1.data).length by simp; omega,
      ← List.append_assoc, List.drop_left' rfl]
  · intro hl hf
    have := lengthOctet_exact x.1 hl hf
    have hm := hdrSize_mod8 x.1
    exact ⟨by omega, this⟩

theorem wireChain_cons (p : Ipv6) (last : Nat) :
    (wireChain p last).1 :: (wireChain p last).2 = p.headers.map (·.option) ++ [last] := by
  unfold wireChain
  cases hm : p.headers.map (·.option) with
  | nil => rfl
  | cons t ts => rfl

theorem zip_map_snd {α β} (a : List α) (b : List β) (h : b.length = a.length) : (a.zip b).map (·.2) = b := by
  induction a generalizing b with
  | nil => cases b with
    | nil => rfl
    | cons y ys => simp at h
  | cons x xs ih =>
    cases b with
    | nil => simp at h
    | cons y ys => simp only [List.zip_cons_cons, List.map_cons, List.cons.injEq, true_and]; exact ih ys (by simpa using h)

/-- **IPv6 next-header chain.**  In the bytes `write_serialization` leaves, the fixed header's next-header octet (byte 6)
    followed by the first octets of the extension-header blocks, in order, is exactly: the types of the extension headers
    in order, then `lastNext` — the fixed header names the first extension header, every extension header names the one
    behind it, and the last one (the fixed header when there is none) names what follows the IPv6 layer
    (`wire_ip6_last_next`). -/
theorem wire_ip6_next_header_chain (cx : Ctx) (p : Ipv6) (h : p.Inv) (region : Bytes) (hr : p.hdr ≤ region.length) :
    ∃ out fixed nh, p.write cx region = .ok out ∧ fixed.length = 40 ∧
      out = fixed ++ (Ipv6.wireHeaders cx p).flatMap (fun x => hdrBytes x.1 x.2) ++ region.drop p.hdr ∧
      out[6]? = some (UInt8.ofNat nh) ∧ nh < 256 ∧
      nh :: (Ipv6.wireHeaders cx p).map (·.2) = p.headers.map (·.option) ++ [lastNext cx p] ∧
      (Ipv6.wireHeaders cx p).map (·.1) = p.headers ∧
      ∀ x ∈ Ipv6.wireHeaders cx p, (hdrBytes x.1 x.2)[0]? = some (UInt8.ofNat x.2) := by
  refine ⟨_, _, (wireChain p (lastNext cx p)).1, ipv6_write_eq cx p h region hr,
    headerBytes_length _ (written_inv cx p h region.length), rfl, ?_, written_nextHeader_lt cx p h, ?_,
    zip_map_fst _ _ (wireChain_length p _), fun x _ => by simp [hdrBytes]⟩
  · rw [List.append_assoc]; exact (ip6_headerBytes_fields _ _).2
  · simp only [Ipv6.wireHeaders]
    rw [zip_map_snd _ _ (wireChain_length p _)]
    exact wireChain_cons p _

/-- what the last next-header octet names: the protocol number libtins assigns to the inner layer's class when it knows
    one — a number the IPv6 parser dispatches on and does not mistake for an extension header; the stored `next_header_`
    when the class has none (RawPDU); No Next Header (59) when nothing follows -/
theorem wire_ip6_last_next (cx : Ctx) (p : Ipv6) :
    (∀ cls, cx.innerCls = some cls → Tags.ipProtoOfPduType (Tags.pduTypeOf cls) ≠ 255 →
      lastNext cx p = Tags.ipProtoOfPduType (Tags.pduTypeOf cls) ∧
      (Tags.classOfIpProto (lastNext cx p)).isSome = true ∧
      (isExtensionHeader (lastNext cx p) && lastNext cx p != NO_NEXT_HEADER) = false) ∧
    (∀ cls, cx.innerCls = some cls → Tags.ipProtoOfPduType (Tags.pduTypeOf cls) = 255 → lastNext cx p = p.finalNext) ∧
    (cx.innerCls = none → lastNext cx p = 59) := by
  refine ⟨?_, ?_, ?_⟩
  · intro cls hc hne
    have e : lastNext cx p = Tags.ipProtoOfPduType (Tags.pduTypeOf cls) := by
      unfold lastNext; rw [hc]; simp [hne]
    rw [e]
    refine ⟨rfl, ?_⟩
    generalize Tags.pduTypeOf cls = t at hne
    unfold Tags.ipProtoOfPduType Tags.assocStr at *
    cases hf : List.find? (fun x => x.1 == t) Gen.Tags.pduTypeToIpProto with
    | none => rw [hf] at hne; exact absurd rfl hne
    | some q =>
      simp only [Option.map_some, Option.getD_some]
      exact Ip6.derived_ip_tag_dispatches q (List.mem_of_find?_eq_some hf)
  · intro cls hc he
    unfold lastNext; rw [hc]; simp [he]
  · intro hn
    unfold lastNext; rw [hn]; rfl

/-- the source and destination addresses lie at bytes 8..39 of the fixed header -/
theorem wire_ip6_addrs (cx : Ctx) (p : Ipv6) (h : p.Inv) (region : Bytes) (hr : p.hdr ≤ region.length) :
    ∃ out, p.write cx region = .ok out ∧ (out.drop 8).take 32 = p.src ++ p.dst := by
  refine ⟨_, ipv6_write_eq cx p h region hr, ?_⟩
  have e : (Ipv6.written cx p region.length).headerBytes ++ flatHeaders (Ipv6.wireHeaders cx p) ++ region.drop p.hdr =
      ([UInt8.ofNat (p.version * 16 + p.trafficClass / 16), UInt8.ofNat (p.trafficClass % 16 * 16 + p.flowLabel / 65536),
        UInt8.ofNat (p.flowLabel / 256 % 256), UInt8.ofNat (p.flowLabel % 256)] ++
        OutCursor.beBytes 2 (Ipv6.written cx p region.length).payloadLength ++
        [UInt8.ofNat (Ipv6.written cx p region.length).nextHeader, UInt8.ofNat p.hopLimit]) ++
        ((p.src ++ p.dst) ++ (flatHeaders (Ipv6.wireHeaders cx p) ++ region.drop p.hdr)) := by
    simp [Ipv6.headerBytes, Ipv6.written, List.append_assoc]
  rw [e, List.drop_left' (by simp), List.take_left' (by simp [h.src, h.dst])]

/-! ### non-vacuity -/

/-- IPv6 with a hop-by-hop header (5 data bytes: 7 modulo 8, one byte of padding) and a destination-options header in
    front of an ICMPv6 of 11 bytes -/
def exIp6 : Ipv6 :=
  { Ipv6.create ([0xfe, 0x80] ++ List.replicate 13 0 ++ [2]) ([0xfe, 0x80] ++ List.replicate 13 0 ++ [1]) with
    headers := [⟨0, 5, [1, 3, 0, 0, 0]⟩, ⟨60, 6, [1, 4, 0, 0, 0, 0]⟩] }
def exIp6Ctx : Ctx := ⟨[], [⟨"ICMPv6", [], 8, 0⟩, ⟨"RawPDU", [], 3, 0⟩]⟩

example : exIp6.hdr = 56 := rfl
example : ∃ out, exIp6.write exIp6Ctx (List.replicate 67 0) = .ok out ∧
    (out.drop 4).take 4 = [0, 27, 0, 0] ∧          -- payload length 16 + 11, next header: hop-by-hop
    (out.drop 40).take 2 = [60, 0] ∧               -- hop-by-hop names destination options; (0 + 1) * 8 = 8 bytes
    (out.drop 48).take 2 = [58, 0] :=              -- destination options names ICMPv6
  ⟨_, rfl, rfl, rfl, rfl⟩

end Tins.Wire.Derived
