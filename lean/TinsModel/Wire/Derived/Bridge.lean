import TinsModel.Wire.Icmp.ThChecksum
import TinsModel.Checksum.Lemmas
/-
  Property C05 over the wire models — the bridge.

  The wire models of C01–C04 (`Wire/<Family>/`) compute their checksums with the helpers of `Wire/Checksum.lean`
  (`rawSum`, `fold16`, `sumRange`, `not16`, `le16`, `pseudo4`, `pseudo6`, `poke`); property C05's arithmetic
  (`Checksum/Lemmas.lean`) is stated over `Checksum/Model.lean` (`sumWords`, `fold32`, `sumRange`, `poke16`, `pseudoSum`).
  Both are code-shaped models of the same C++ (`Utils::sum_range`, the fold loop, `pseudoheader_checksum`, the raw
  `uint16_t` store).  This file shows they compute the same values, so that every C05 lemma about the RFC 1071 sum
  applies to the bytes the wire writers produce — nothing of the one's-complement arithmetic is proved twice.
-/
set_option autoImplicit false
namespace Tins.Wire.Derived
open Tins Tins.Wire

/-! ### the same functions, twice -/

/-- `Utils::sum_range` of the wire models = `Utils::sum_range` of C05's model (ranges below 128 KiB, where the
    `uint32_t` accumulator cannot wrap) -/
theorem sumRange_eq_ck (bs : Bytes) (h : bs.length < 131072) : sumRange bs = Ck.sumRange bs := by
  rw [Icmp.sumRange_foldv bs h, Ck.sumRange_eq bs h]

/-- the two-round fold of the wire models = the fold loop of C05's model, on every `uint32_t` -/
theorem fold16_eq_fold32 (x : Nat) (h : x < 4294967296) : fold16 x = Ck.fold32 x := by
  rw [Icmp.fold16_eq x h, Ck.fold32_eq x h]

/-- `~x` truncated to 16 bits, both ways of writing it -/
theorem not16_eq_ck (x : Nat) : not16 x = Ck.wrap16 (Ck.not32 x) := by
  unfold not16 Ck.wrap16 Ck.not32; omega

theorem set_set_eq {α} (buf : List α) (off : Nat) (a b : α) (h : off + 2 ≤ buf.length) :
    (buf.set off a).set (off + 1) b = buf.take off ++ [a, b] ++ buf.drop (off + 2) := by
  induction buf generalizing off with
  | nil => simp at h
  | cons x xs ih =>
    cases off with
    | zero =>
      cases xs with
      | nil => simp at h
      | cons y ys => simp
    | succ k =>
      simp only [List.length_cons] at h
      have := ih k (by omega)
      simp only [List.set_cons_succ, List.take_succ_cons, List.cons_append, List.drop_succ_cons, this]

/-- the raw `uint16_t` store of the wire models (`poke … (le16 v)`) = `poke16` of C05's model, when it is in range -/
theorem poke_le16 (site : String) (buf : Bytes) (off v : Nat) (h : off + 2 ≤ buf.length) :
    poke site buf off (le16 v) = .ok (Ck.poke16 buf off v) := by
  rw [poke_eq site buf (le16 v) off (by simpa [le16] using h)]
  unfold Ck.poke16
  rw [set_set_eq buf off _ _ h]
  rfl

theorem length_poke16 (buf : Bytes) (off v : Nat) : (Ck.poke16 buf off v).length = buf.length :=
  Ck.length_poke16 buf off v

/-- the store touches nothing at or behind `off + 2` … -/
theorem drop_poke16 (buf : Bytes) (off v n : Nat) (hn : off + 2 ≤ n) : (Ck.poke16 buf off v).drop n = buf.drop n := by
  unfold Ck.poke16
  rw [List.drop_set_of_lt (by omega), List.drop_set_of_lt (by omega)]

/-- … and nothing before `off` -/
theorem take_poke16 (buf : Bytes) (off v n : Nat) (hn : n ≤ off) : (Ck.poke16 buf off v).take n = buf.take n := by
  unfold Ck.poke16
  rw [List.take_set_of_le (by omega), List.take_set_of_le (by omega)]

theorem getElem?_poke16_of_ne (buf : Bytes) (off v i : Nat) (h1 : i ≠ off) (h2 : i ≠ off + 1) :
    (Ck.poke16 buf off v)[i]? = buf[i]? := by
  unfold Ck.poke16
  rw [List.getElem?_set_ne (by omega), List.getElem?_set_ne (by omega)]

/-! ### pseudo headers -/

/-- the buffer `generic_pseudoheader_checksum` sums: addresses, `be16 flag`, `be16 len` (C05's model spelling) -/
def phBytes (src dst : Bytes) (len flag : Nat) : Bytes :=
  src ++ dst ++ Ck.be16 (Ck.wrap16 flag) ++ Ck.be16 (Ck.wrap16 len)

theorem phBytes_eq (src dst : Bytes) (len flag : Nat) :
    src ++ dst ++ [UInt8.ofNat (flag / 256 % 256), UInt8.ofNat (flag % 256),
                   UInt8.ofNat (len / 256 % 256), UInt8.ofNat (len % 256)] = phBytes src dst len flag := by
  have e1 : flag % 65536 / 256 % 256 = flag / 256 % 256 := by omega
  have e2 : flag % 65536 % 256 = flag % 256 := by omega
  have e3 : len % 65536 / 256 % 256 = len / 256 % 256 := by omega
  have e4 : len % 65536 % 256 = len % 256 := by omega
  simp only [phBytes, Ck.be16, Ck.wrap16, e1, e2, e3, e4, List.append_assoc, List.cons_append, List.nil_append]

theorem phBytes_length (src dst : Bytes) (len flag : Nat) : (phBytes src dst len flag).length = src.length + dst.length + 4 := by
  simp [phBytes, Ck.be16]; omega

/-- `pseudoheader_checksum` of the wire models is the little-endian word sum of that buffer (the `uint32_t` cannot wrap
    on at most 36 bytes) -/
theorem pseudo4_eq_leSum (src dst : Bytes) (len flag : Nat) (hs : src.length ≤ 16) (hd : dst.length ≤ 16) :
    pseudo4 src dst len flag = Ck.leSum (phBytes src dst len flag) := by
  unfold pseudo4
  rw [phBytes_eq, Icmp.rawSum_eq]
  have := Ck.leSum_le (phBytes src dst len flag)
  rw [phBytes_length] at this
  exact Nat.mod_eq_of_lt (by omega)

theorem pseudo6_eq_pseudo4 (src dst : Bytes) (len flag : Nat) : pseudo6 src dst len flag = pseudo4 src dst len flag := rfl

theorem pseudo4_small (src dst : Bytes) (len flag : Nat) (hs : src.length ≤ 16) (hd : dst.length ≤ 16) :
    pseudo4 src dst len flag ≤ 2000000 := by
  rw [pseudo4_eq_leSum _ _ _ _ hs hd]
  have := Ck.leSum_le (phBytes src dst len flag)
  rw [phBytes_length] at this
  omega

/-- … and equals `generic_pseudoheader_checksum` of C05's model -/
theorem pseudo4_eq_ck (src dst : Bytes) (len flag : Nat) (hs : src.length % 2 = 0) (hd : dst.length % 2 = 0)
    (hsl : src.length ≤ 16) (hdl : dst.length ≤ 16) : pseudo4 src dst len flag = Ck.pseudoSum src dst len flag := by
  rw [pseudo4_eq_leSum _ _ _ _ hsl hdl, Ck.pseudoSum_le _ _ _ _ hs hd hsl hdl]; rfl

/-! ### the tails: fold, complement, store -/

/-- the value every pseudo-header tail of the wire models stores -/
theorem tail_value (P : Nat) (buf : Bytes) (hP : P ≤ 2000000) (hlen : buf.length < 131072) :
    not16 (fold16 ((P + sumRange buf) % 4294967296)) = 65535 - Ck.foldv (P + Ck.leSum buf) := by
  rw [Icmp.sumRange_foldv buf hlen]
  have := Ck.foldv_le (Ck.leSum buf)
  rw [Nat.mod_eq_of_lt (by omega), Icmp.fold16_eq _ (by omega), Ck.foldv_foldv_add]
  have := Ck.foldv_le (P + Ck.leSum buf)
  unfold not16; omega

/-- the value the tails without pseudo header store (ICMP, the extension structure) -/
theorem tail_value0 (buf : Bytes) (hlen : buf.length < 131072) :
    not16 (sumRange buf) = 65535 - Ck.foldv (Ck.leSum buf) := by
  rw [Icmp.sumRange_foldv buf hlen]
  have := Ck.foldv_le (Ck.leSum buf)
  unfold not16; omega

theorem in_range_of_get {buf : Bytes} {off : Nat} {x : UInt8} (h1 : buf[off + 1]? = some x) : off + 2 ≤ buf.length := by
  rcases List.getElem?_eq_some_iff.mp h1 with ⟨h, _⟩
  omega

/-- **pseudo-header tail, in the wire models' spelling**: computing over a zeroed field, complementing and storing makes
    the RFC 1071 sum of `ph ++ buffer` all ones, for any `ph` whose big-endian sum the little-endian `P` stands for -/
theorem store_verifies (site : String) (ph buf : Bytes) (P off : Nat) (hph : ph.length % 2 = 0)
    (hmod : (256 * P) % 65535 = Ck.beSum ph % 65535) (hz : P = 0 ↔ Ck.beSum ph = 0) (hP : P ≤ 2000000)
    (hlen : buf.length < 131072) (hoff : off % 2 = 0) (h0 : buf[off]? = some 0) (h1 : buf[off + 1]? = some 0) :
    ∃ v, poke site buf off (le16 (not16 (fold16 ((P + sumRange buf) % 4294967296)))) = .ok (Ck.poke16 buf off v) ∧
      Ck.Spec.verifies (ph ++ Ck.poke16 buf off v) = true := by
  refine ⟨65535 - Ck.foldv (P + Ck.leSum buf), ?_, ?_⟩
  · rw [tail_value P buf hP hlen]; exact poke_le16 site buf off _ (in_range_of_get h1)
  · have := Ck.stored_verifies ph buf P off hph hmod hz hoff h0 h1
    simp [Ck.Spec.verifies, this]

/-- the UDP variant: a computed 0 is stored as 0xffff -/
theorem store_verifies_udp (site : String) (ph buf : Bytes) (P off : Nat) (hph : ph.length % 2 = 0)
    (hmod : (256 * P) % 65535 = Ck.beSum ph % 65535) (hz : P = 0 ↔ Ck.beSum ph = 0) (hP : P ≤ 2000000)
    (hlen : buf.length < 131072) (hoff : off % 2 = 0) (h0 : buf[off]? = some 0) (h1 : buf[off + 1]? = some 0) :
    ∃ v, 1 ≤ v ∧ v ≤ 65535 ∧
      poke site buf off (le16 (if not16 (fold16 ((P + sumRange buf) % 4294967296)) = 0 then 65535
        else not16 (fold16 ((P + sumRange buf) % 4294967296)))) = .ok (Ck.poke16 buf off v) ∧
      Ck.Spec.verifies (ph ++ Ck.poke16 buf off v) = true := by
  refine ⟨if 65535 - Ck.foldv (P + Ck.leSum buf) = 0 then 65535 else 65535 - Ck.foldv (P + Ck.leSum buf), ?_, ?_, ?_, ?_⟩
  · split <;> omega
  · split <;> omega
  · rw [tail_value P buf hP hlen]; exact poke_le16 site buf off _ (in_range_of_get h1)
  · have := Ck.stored_verifies_udp ph buf P off hph hmod hz hoff h0 h1
    simp [Ck.Spec.verifies, this]

/-- the tail without pseudo header (ICMP, ICMP extension structure) -/
theorem store_verifies0 (site : String) (buf : Bytes) (off : Nat) (hlen : buf.length < 131072) (hoff : off % 2 = 0)
    (h0 : buf[off]? = some 0) (h1 : buf[off + 1]? = some 0) :
    ∃ v, poke site buf off (le16 (not16 (sumRange buf))) = .ok (Ck.poke16 buf off v) ∧
      Ck.Spec.verifies (Ck.poke16 buf off v) = true := by
  refine ⟨65535 - Ck.foldv (Ck.leSum buf), ?_, ?_⟩
  · rw [tail_value0 buf hlen]; exact poke_le16 site buf off _ (in_range_of_get h1)
  · have := Ck.stored_verifies [] buf 0 off (by simp) (by simp [Ck.beSum]) (by simp [Ck.beSum]) hoff h0 h1
    simp only [List.nil_append, Nat.zero_add] at this
    simp [Ck.Spec.verifies, this]

/-! ### the RFC pseudo headers against libtins' buffer -/

/-- IPv4 (RFC 768 / 793): libtins' 12-byte buffer is the RFC pseudo header, so its little-endian sum `P` stands for the
    RFC pseudo header's big-endian sum -/
theorem pseudo4_stands_for (src dst : Bytes) (proto len : Nat) (hs : src.length = 4) (hd : dst.length = 4)
    (hp : proto ≤ 255) (hl : len ≤ 65535) :
    (Ck.Spec.pseudo4 src dst proto len).length % 2 = 0 ∧
    (256 * pseudo4 src dst len proto) % 65535 = Ck.beSum (Ck.Spec.pseudo4 src dst proto len) % 65535 ∧
    (pseudo4 src dst len proto = 0 ↔ Ck.beSum (Ck.Spec.pseudo4 src dst proto len) = 0) ∧
    pseudo4 src dst len proto ≤ 2000000 := by
  have hb : phBytes src dst len proto = Ck.Spec.pseudo4 src dst proto len := Ck.pseudo4_bytes src dst proto len hp hl
  rw [pseudo4_eq_leSum _ _ _ _ (by omega) (by omega), hb]
  refine ⟨by rw [Ck.pseudo4_len]; omega, Ck.le_be_mod _, Ck.le_be_zero _, ?_⟩
  rw [← hb, ← pseudo4_eq_leSum _ _ _ _ (by omega) (by omega)]
  exact pseudo4_small _ _ _ _ (by omega) (by omega)

/-- IPv6 (RFC 8200 §8.1): the RFC pseudo header is 40 bytes (32-bit length, three zero bytes, next header); libtins sums
    a 36-byte buffer with the same big-endian sum -/
theorem pseudo6_stands_for (src dst : Bytes) (proto len : Nat) (hs : src.length = 16) (hd : dst.length = 16)
    (hp : proto ≤ 255) (hl : len ≤ 65535) :
    (Ck.Spec.pseudo6 src dst proto len).length % 2 = 0 ∧
    (256 * pseudo6 src dst len proto) % 65535 = Ck.beSum (Ck.Spec.pseudo6 src dst proto len) % 65535 ∧
    (pseudo6 src dst len proto = 0 ↔ Ck.beSum (Ck.Spec.pseudo6 src dst proto len) = 0) ∧
    pseudo6 src dst len proto ≤ 2000000 := by
  have hb := Ck.pseudo6_beSum src dst proto len (by omega) (by omega) hp hl
  rw [pseudo6_eq_pseudo4, pseudo4_eq_leSum _ _ _ _ (by omega) (by omega), hb]
  refine ⟨by rw [Ck.pseudo6_len]; omega, Ck.le_be_mod _, Ck.le_be_zero _, ?_⟩
  rw [← pseudo4_eq_leSum _ _ _ _ (by omega) (by omega)]
  exact pseudo4_small _ _ _ _ (by omega) (by omega)

/-! ### what `tins_cast<IP*>(parent_pdu())` sees -/

/-- the nearest ancestor is an `IP` whose `src_addr` / `dst_addr` getters print `s` / `d` -/
def ParentIp4 (cx : Ctx) (s d : Bytes) : Prop :=
  ∃ p, cx.parents.head? = some p ∧ p.cls = "IP" ∧ (p.fields.get "src_addr").bind parseHexStr = some s ∧
    (p.fields.get "dst_addr").bind parseHexStr = some d

/-- the nearest ancestor is an `IPv6` whose `src_addr` / `dst_addr` getters print `s` / `d` -/
def ParentIp6 (cx : Ctx) (s d : Bytes) : Prop :=
  ∃ p, cx.parents.head? = some p ∧ p.cls = "IPv6" ∧ (p.fields.get "src_addr").bind parseHexStr = some s ∧
    (p.fields.get "dst_addr").bind parseHexStr = some d

/-- there is no parent, or it is neither `IP` nor `IPv6` -/
def NoIpParent (cx : Ctx) : Prop := ∀ p, cx.parents.head? = some p → p.cls ≠ "IP" ∧ p.cls ≠ "IPv6"

/-- there is no parent, or it is not `IPv6` (ICMPv6 only looks for an IPv6 parent) -/
def NoIp6Parent (cx : Ctx) : Prop := ∀ p, cx.parents.head? = some p → p.cls ≠ "IPv6"

-- non-vacuity: sums with carries, odd lengths
example : sumRange [0xff, 0xff, 0xff, 0xff, 0x01] = Ck.sumRange [0xff, 0xff, 0xff, 0xff, 0x01] := by decide
example : pseudo4 [10, 0, 0, 1] [10, 0, 0, 2] 21 6 = Ck.pseudoSum [10, 0, 0, 1] [10, 0, 0, 2] 21 6 := by decide

end Tins.Wire.Derived
