import TinsModel.Wire.Derived.Bridge
import TinsModel.Wire.Transport.ThTcpWrite
/-
  Property C05 over the wire model of `TCP::write_serialization` (`Wire/Transport/Tcp.lean`): the checksum verifies under
  RFC 793 / RFC 8200 over the RFC pseudo header built from the parent's addresses (header, options of any kinds, padding
  and payload covered), no checksum is written without an IP / IPv6 parent, and data offset · 4 is the header size.
-/
set_option autoImplicit false
namespace Tins.Wire.Derived
open Tins Tins.Wire Tins.Wire.Transport

/-- the region after the stream part of `write_serialization`: header with the derived data offset and a zero checksum,
    options, zero padding, then the payload as the inner layers left it -/
def tcpZeroed (t : Tcp) (region : Bytes) : Bytes :=
  ({ t with check := 0, doff := (20 + Tcp.padded (Tcp.optsSum t.opts)) / 4 } : Tcp).headerBytes ++ Tcp.optsBytes t.opts ++
    List.replicate (Tcp.padded (Tcp.optsSum t.opts) - Tcp.optsSum t.opts) 0 ++ region.drop (20 + Tcp.padded (Tcp.optsSum t.opts))

/-- sharp closed form of `TCP::write_serialization` (the checksum value is kept, unlike in `tcp_write_eq`) -/
theorem tcp_write_sharp (cx : Ctx) (t : Tcp) (hs : Tcp.optsSum t.opts ≤ 40) (region : Bytes) (hr : t.hdr ≤ region.length) :
    t.write cx region =
      match Tcp.pseudoOf cx (t.hdr + cx.innerSize) with
      | none => .ok (tcpZeroed t region)
      | some ps => poke "TCP::write_serialization ((tcp_header*)buffer)->check" (tcpZeroed t region) 16
          (le16 (not16 (fold16 ((ps + sumRange (tcpZeroed t region)) % 4294967296)))) := by
  have hp := tcp_padded_spec (Tcp.optsSum t.opts)
  have hh := tcp_hdr_eq t hs
  rw [hh] at hr
  have hcalc : Tcp.calcOptionsSize t.opts = Tcp.optsSum t.opts := Nat.mod_eq_of_lt (by omega)
  have hpad : Tcp.padOptionsSize (Tcp.optsSum t.opts) = Tcp.padded (Tcp.optsSum t.opts) :=
    tcp_padOptionsSize_eq _ (by omega)
  have hnd' : ¬ (20 + Tcp.padded (Tcp.optsSum t.opts)) / 4 > 15 := by omega
  have hmod : (20 + Tcp.padded (Tcp.optsSum t.opts)) % 4294967296 = 20 + Tcp.padded (Tcp.optsSum t.opts) :=
    Nat.mod_eq_of_lt (by omega)
  unfold tcpZeroed
  generalize hS : Tcp.optsSum t.opts = S at *
  generalize hP : Tcp.padded S = P at *
  have hb := tcp_headerBytes_length ({ t with check := 0, doff := (20 + P) / 4 } : Tcp)
  unfold Tcp.write
  simp only [hcalc, hpad, hnd', if_false, hmod]
  exact tcp_stream_ok region _ t.opts S P (fun r1 : Bytes => match Tcp.pseudoOf cx (t.hdr + cx.innerSize) with
     | none => (pure r1 : Out Bytes)
     | some ps => poke "TCP::write_serialization ((tcp_header*)buffer)->check" r1 16
         (le16 (not16 (fold16 ((ps + sumRange r1) % 4294967296))))) hb hS hp.1 hp.2.1 hr

theorem tcp_pseudoOf_ip4 (cx : Ctx) (s d : Bytes) (size : Nat) (hp : ParentIp4 cx s d) :
    Tcp.pseudoOf cx size = some (pseudo4 s d (size % 65536) 6) := by
  rcases hp with ⟨p, h1, h2, h3, h4⟩
  simp [Tcp.pseudoOf, h1, h2, h3, h4]

theorem tcp_pseudoOf_ip6 (cx : Ctx) (s d : Bytes) (size : Nat) (hp : ParentIp6 cx s d) :
    Tcp.pseudoOf cx size = some (pseudo6 s d (size % 65536) 6) := by
  rcases hp with ⟨p, h1, h2, h3, h4⟩
  have hne : ("IPv6" == "IP") = false := by decide
  simp [Tcp.pseudoOf, h1, h2, h3, h4, hne]

theorem tcp_pseudoOf_none (cx : Ctx) (size : Nat) (hp : NoIpParent cx) : Tcp.pseudoOf cx size = none := by
  unfold Tcp.pseudoOf
  cases h : cx.parents.head? with
  | none => rfl
  | some p =>
    have := hp p h
    simp [this.1, this.2]

theorem tcpZeroed_length (t : Tcp) (hs : Tcp.optsSum t.opts ≤ 40) (region : Bytes) (hr : t.hdr ≤ region.length) :
    (tcpZeroed t region).length = region.length := by
  have hh := tcp_hdr_eq t hs
  have hl := tcp_written_length ({ t with check := 0, doff := (20 + Tcp.padded (Tcp.optsSum t.opts)) / 4 } : Tcp) t.opts
  unfold tcpZeroed
  rw [List.length_append, hl, List.length_drop]; omega

theorem tcpZeroed_drop (t : Tcp) (hs : Tcp.optsSum t.opts ≤ 40) (region : Bytes) :
    (tcpZeroed t region).drop t.hdr = region.drop t.hdr := by
  have hh := tcp_hdr_eq t hs
  have hl := tcp_written_length ({ t with check := 0, doff := (20 + Tcp.padded (Tcp.optsSum t.opts)) / 4 } : Tcp) t.opts
  unfold tcpZeroed
  rw [hh]; exact drop_append_len _ _ _ hl

/-- the checksum field is zero while the sum is computed (`header_.check = 0`) -/
theorem tcpZeroed_check (t : Tcp) (region : Bytes) :
    (tcpZeroed t region)[16]? = some 0 ∧ (tcpZeroed t region)[16 + 1]? = some 0 := by
  simp [tcpZeroed, Tcp.headerBytes, OutCursor.beBytes]

/-- **TCP over IPv4, in situ** (RFC 793).  For every option list that fits the 40-byte option area (any kinds, any
    advertised lengths), directly inside an `IP` whose address getters print `s` / `d`, on the region `PDU::serialize`
    hands out (header + inner chain, at most 65535 bytes), `write_serialization` succeeds, keeps the payload, and the
    RFC 1071 sum over the RFC pseudo header (source, destination, zero, 6, TCP length) followed by the whole segment it
    leaves in the region — header, options, padding, payload — is 0xffff. -/
theorem wire_tcp_checksum_verifies_ip4 (cx : Ctx) (t : Tcp) (hs : Tcp.optsSum t.opts ≤ 40) (region s d : Bytes)
    (hp : ParentIp4 cx s d) (hs4 : s.length = 4) (hd4 : d.length = 4) (hreg : region.length = t.hdr + cx.innerSize)
    (h16 : region.length ≤ 65535) :
    ∃ out, t.write cx region = .ok out ∧ out.length = region.length ∧ out.drop t.hdr = region.drop t.hdr ∧
      Ck.Spec.verifies (Ck.Spec.pseudo4 s d 6 out.length ++ out) = true := by
  have hr : t.hdr ≤ region.length := by omega
  have hge : 20 ≤ t.hdr := by rw [tcp_hdr_eq t hs]; omega
  have hzl := tcpZeroed_length t hs region hr
  have hm : (t.hdr + cx.innerSize) % 65536 = (tcpZeroed t region).length := by rw [hzl, hreg]; omega
  rcases pseudo4_stands_for s d 6 (tcpZeroed t region).length hs4 hd4 (by omega) (by omega) with ⟨a1, a2, a3, a4⟩
  rcases store_verifies "TCP::write_serialization ((tcp_header*)buffer)->check" _ (tcpZeroed t region) _ 16 a1 a2 a3 a4
    (by omega) (by omega) (tcpZeroed_check t region).1 (tcpZeroed_check t region).2 with ⟨v, hw, hv⟩
  refine ⟨Ck.poke16 (tcpZeroed t region) 16 v, ?_, ?_, ?_, ?_⟩
  · rw [tcp_write_sharp cx t hs region hr, tcp_pseudoOf_ip4 cx s d _ hp, hm]; exact hw
  · rw [length_poke16, hzl]
  · rw [drop_poke16 _ _ _ _ (by omega), tcpZeroed_drop t hs]
  · rw [length_poke16]; exact hv

/-- **TCP over IPv6, in situ** (RFC 8200 §8.1 pseudo header: 32-bit upper-layer length, three zero bytes, next header 6). -/
theorem wire_tcp_checksum_verifies_ip6 (cx : Ctx) (t : Tcp) (hs : Tcp.optsSum t.opts ≤ 40) (region s d : Bytes)
    (hp : ParentIp6 cx s d) (hs16 : s.length = 16) (hd16 : d.length = 16) (hreg : region.length = t.hdr + cx.innerSize)
    (h16 : region.length ≤ 65535) :
    ∃ out, t.write cx region = .ok out ∧ out.length = region.length ∧ out.drop t.hdr = region.drop t.hdr ∧
      Ck.Spec.verifies (Ck.Spec.pseudo6 s d 6 out.length ++ out) = true := by
  have hr : t.hdr ≤ region.length := by omega
  have hge : 20 ≤ t.hdr := by rw [tcp_hdr_eq t hs]; omega
  have hzl := tcpZeroed_length t hs region hr
  have hm : (t.hdr + cx.innerSize) % 65536 = (tcpZeroed t region).length := by rw [hzl, hreg]; omega
  rcases pseudo6_stands_for s d 6 (tcpZeroed t region).length hs16 hd16 (by omega) (by omega) with ⟨a1, a2, a3, a4⟩
  rcases store_verifies "TCP::write_serialization ((tcp_header*)buffer)->check" _ (tcpZeroed t region) _ 16 a1 a2 a3 a4
    (by omega) (by omega) (tcpZeroed_check t region).1 (tcpZeroed_check t region).2 with ⟨v, hw, hv⟩
  refine ⟨Ck.poke16 (tcpZeroed t region) 16 v, ?_, ?_, ?_, ?_⟩
  · rw [tcp_write_sharp cx t hs region hr, tcp_pseudoOf_ip6 cx s d _ hp, hm]; exact hw
  · rw [length_poke16, hzl]
  · rw [drop_poke16 _ _ _ _ (by omega), tcpZeroed_drop t hs]
  · rw [length_poke16]; exact hv

/-- **without an IP / IPv6 parent no checksum is written**: the checksum bytes stay zero -/
theorem wire_tcp_no_parent (cx : Ctx) (t : Tcp) (hs : Tcp.optsSum t.opts ≤ 40) (region : Bytes) (hp : NoIpParent cx)
    (hr : t.hdr ≤ region.length) :
    t.write cx region = .ok (tcpZeroed t region) ∧
      (tcpZeroed t region)[16]? = some 0 ∧ (tcpZeroed t region)[17]? = some 0 := by
  rw [tcp_write_sharp cx t hs region hr, tcp_pseudoOf_none cx _ hp]
  exact ⟨rfl, tcpZeroed_check t region⟩

theorem byteAt_append_left_tr (a r : Bytes) (i : Nat) (h : i < a.length) : Transport.byteAt (a ++ r) i = Transport.byteAt a i := by
  unfold Transport.byteAt
  rw [List.getD_eq_getElem?_getD, List.getD_eq_getElem?_getD, List.getElem?_append_left h]

/-- **TCP data offset.**  For every object satisfying the class invariant whose options fit the option area, in every
    context: the high nibble of byte 12 of what `write_serialization` leaves in its region, times 4, is `header_size()` =
    20 + the option bytes as `write_option` encodes them, rounded up to a multiple of 4 — the offset at which the payload
    starts (`out.drop t.hdr = region.drop t.hdr`). -/
theorem wire_tcp_data_offset (cx : Ctx) (t : Tcp) (hi : t.Inv) (hs : Tcp.optsSum t.opts ≤ 40) (region : Bytes)
    (hr : t.hdr ≤ region.length) :
    ∃ out, t.write cx region = .ok out ∧ Transport.byteAt out 12 / 16 * 4 = t.hdr ∧
      t.hdr = 20 + Tcp.padded (Tcp.optsSum t.opts) ∧ (Tcp.optsBytes t.opts).length = Tcp.optsSum t.opts ∧
      out.drop t.hdr = region.drop t.hdr := by
  have hp := tcp_padded_spec (Tcp.optsSum t.opts)
  have hh := tcp_hdr_eq t hs
  rcases tcp_write_eq cx t hs region hr with ⟨c, _, hw⟩
  refine ⟨_, hw, ?_, hh, tcp_optsBytes_length t.opts, ?_⟩
  · have hres := hi.res1
    rw [List.append_assoc, List.append_assoc, byteAt_append_left_tr _ _ 12 (by rw [tcp_headerBytes_length]; omega)]
    have e : Transport.byteAt ({ t with doff := (20 + Tcp.padded (Tcp.optsSum t.opts)) / 4, check := c } : Tcp).headerBytes 12 =
        ((20 + Tcp.padded (Tcp.optsSum t.opts)) / 4 * 16 + t.res1) % 256 := by
      simp [Transport.byteAt, Tcp.headerBytes, OutCursor.beBytes]
    rw [e, hh]
    omega
  · have hl := tcp_written_length ({ t with doff := (20 + Tcp.padded (Tcp.optsSum t.opts)) / 4, check := c } : Tcp) t.opts
    rw [hh]; exact drop_append_len _ _ _ hl

/-! ### non-vacuity -/

/-- TCP with options (MSS, NOP, SACK-permitted: 7 option bytes padded to 8) inside IP, odd payload -/
def exTcp : Tcp := { Tcp.create 80 1234 with opts := [⟨2, 2, [5, 0xb4]⟩, ⟨1, 0, []⟩, ⟨4, 0, []⟩] }
def exTcpCtx : Ctx :=
  ⟨[⟨"IP", [("src_addr", "0a000001"), ("dst_addr", "0a000002")], 20, 0⟩], [⟨"RawPDU", [], 3, 0⟩]⟩

example : exTcp.hdr = 28 ∧ Tcp.optsSum exTcp.opts ≤ 40 ∧ ParentIp4 exTcpCtx [10, 0, 0, 1] [10, 0, 0, 2] :=
  ⟨rfl, by decide, ⟨_, rfl, rfl, by decide, by decide⟩⟩
example : ∃ out, exTcp.write exTcpCtx (List.replicate 28 0 ++ [1, 2, 3]) = .ok out ∧ out[12]? = some 0x70 ∧
    Ck.Spec.verifies (Ck.Spec.pseudo4 [10, 0, 0, 1] [10, 0, 0, 2] 6 31 ++ out) = true := ⟨_, rfl, rfl, by decide⟩

end Tins.Wire.Derived
