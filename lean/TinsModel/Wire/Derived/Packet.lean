import TinsModel.Wire.RegistryFacts
import TinsModel.Wire.Derived.Hex
import TinsModel.Wire.Derived.Udp
import TinsModel.Wire.Derived.Tcp
import TinsModel.Wire.Derived.Ip4
import TinsModel.Wire.Derived.Ip6
import TinsModel.Wire.Derived.Icmp
import TinsModel.Wire.Derived.L2
/-
  Property C05 over whole packets of the wire model.

  `layer_in_packet`: in `Wire.serializeObjs os` of any stack `os` whose layers satisfy their class invariants
  (`registryPreds`), the bytes that belong to layer `n` — at the offset given by the header sizes of the layers above it —
  are exactly what that layer's own `write_serialization` produced on its region, in the context `Wire.sems` gave it
  (`ctxAt os n`: the layers above as parents, the layers below as inner PDUs).  The layers above do not disturb them
  (`serializeObjs_frame`, the C02 theorem).  Hence every per-layer statement of `Wire/Derived/*` holds *inside the final
  packet bytes*; `packet_ip_udp`, `packet_ip_tcp`, `packet_ip6_udp`, `packet_ip6_tcp` spell that out for the transport
  stacks.
-/
set_option autoImplicit false
namespace Tins.Wire.Derived
open Tins Tins.Wire

/-! ### the context `Wire.sems` hands to layer `n` -/

/-- what layer `n` of the stack sees: the dumps of the layers above it (nearest first) and below it (nearest first) -/
def ctxAt (os : List AnyObj) (n : Nat) : Ctx := ⟨((infos os).take n).reverse, (infos os).drop (n + 1)⟩

/-- offset of layer `n` inside the packet: the header sizes of the layers above it -/
def layerOffset (os : List AnyObj) (n : Nat) : Nat := offsetOf (sems os) n

/-- the dump `Wire.infos` computes for one layer above an inner chain of `innerSize` bytes -/
def infoOf (o : AnyObj) (innerSize : Nat) : LayerInfo :=
  { cls := o.info.1, fields := o.info.2, hdr := o.hdr, trl := o.trl innerSize }

theorem infos_cons (o : AnyObj) (os : List AnyObj) :
    infos (o :: os) = infoOf o ((infos os).map (fun l => l.hdr + l.trl)).sum :: infos os := rfl

theorem infos_drop (os : List AnyObj) (n : Nat) : infos (os.drop n) = (infos os).drop n := by
  induction n generalizing os with
  | zero => rfl
  | succ n ih =>
    cases os with
    | nil => rfl
    | cons o os => rw [List.drop_succ_cons, infos_cons, List.drop_succ_cons]; exact ih os

theorem drop_of_get {α} (l : List α) (n : Nat) (x : α) (h : l[n]? = some x) : l.drop n = x :: l.drop (n + 1) := by
  induction l generalizing n with
  | nil => simp at h
  | cons a as ih =>
    cases n with
    | zero => simp at h; subst h; rfl
    | succ k => simp only [List.getElem?_cons_succ] at h; simpa using ih k h

theorem infos_get (os : List AnyObj) (n : Nat) (o : AnyObj) (h : os[n]? = some o) :
    (infos os)[n]? = some (infoOf o (ctxAt os n).innerSize) := by
  induction os generalizing n with
  | nil => simp at h
  | cons x xs ih =>
    cases n with
    | zero =>
      simp only [List.getElem?_cons_zero, Option.some.injEq] at h; subst h
      rw [infos_cons]; rfl
    | succ k =>
      simp only [List.getElem?_cons_succ] at h
      rw [infos_cons, List.getElem?_cons_succ, ih k h]
      rfl

theorem semsAux_nil (parents : List LayerInfo) (lis : List LayerInfo) : semsAux parents [] lis = [] := by
  unfold semsAux; rfl

theorem semsAux_drop (os : List AnyObj) (n : Nat) (parents : List LayerInfo) :
    (semsAux parents os (infos os)).drop n =
      semsAux (((infos os).take n).reverse ++ parents) (os.drop n) ((infos os).drop n) := by
  induction n generalizing os parents with
  | zero => rfl
  | succ n ih =>
    cases os with
    | nil => simp [semsAux_nil]
    | cons o os =>
      rw [infos_cons]
      simp only [semsAux, List.drop_succ_cons, List.take_succ_cons, List.reverse_cons, List.append_assoc,
        List.cons_append, List.nil_append]
      exact ih os _

theorem semsAux_length (os : List AnyObj) (parents : List LayerInfo) : (semsAux parents os (infos os)).length = os.length := by
  induction os generalizing parents with
  | nil => simp [semsAux_nil]
  | cons o os ih => rw [infos_cons]; simp only [semsAux, List.length_cons, ih]

theorem sems_length (os : List AnyObj) : (sems os).length = os.length := semsAux_length os []

/-- the chain from layer `n` on: that layer's `LayerSem` — its own `write` in the context `ctxAt os n` — and the rest -/
theorem sems_drop_cons (os : List AnyObj) (n : Nat) (o : AnyObj) (h : os[n]? = some o) :
    (sems os).drop n =
      { name := o.info.1, hdr := o.hdr, trl := o.trl (ctxAt os n).innerSize, write := o.write (ctxAt os n) } ::
        semsAux (infoOf o (ctxAt os n).innerSize :: (ctxAt os n).parents) (os.drop (n + 1)) (infos (os.drop (n + 1))) := by
  unfold sems
  rw [semsAux_drop, drop_of_get os n o h, drop_of_get (infos os) n _ (infos_get os n o h), infos_drop, List.append_nil]
  rfl

theorem serialize_cons (l : LayerSem) (ls : List LayerSem) :
    serialize (l :: ls) =
      (serializeInto ls (List.replicate (sizeOf ls) 0) >>= fun io =>
        l.write (splice (List.replicate (sizeOf (l :: ls)) 0) l.hdr io)) := by
  have hz : (List.drop l.hdr (List.replicate (sizeOf (l :: ls)) (0 : UInt8))).take
      ((List.replicate (sizeOf (l :: ls)) (0 : UInt8)).length - (l.hdr + l.trl)) = List.replicate (sizeOf ls) 0 := by
    simp only [sizeOf, List.length_replicate, List.drop_replicate, List.take_replicate]
    congr 1; omega
  simp only [serialize, serializeInto, hz]

theorem offsetOf_semsAux (os : List AnyObj) (n : Nat) (parents : List LayerInfo) :
    offsetOf (semsAux parents os (infos os)) n = ((os.take n).map AnyObj.hdr).sum := by
  induction os generalizing n parents with
  | nil => simp [semsAux_nil, offsetOf]
  | cons o os ih =>
    cases n with
    | zero => rw [infos_cons]; simp [semsAux, offsetOf]
    | succ k =>
      rw [infos_cons]
      simp only [semsAux, offsetOf, List.take_succ_cons, List.map_cons, List.sum_cons, ih]
      rfl

/-- the offset of a layer is the sum of the `header_size()`s above it -/
theorem layerOffset_eq (os : List AnyObj) (n : Nat) : layerOffset os n = ((os.take n).map AnyObj.hdr).sum :=
  offsetOf_semsAux os n []

theorem layerOffset_succ (os : List AnyObj) (n : Nat) (o : AnyObj) (h : os[n]? = some o) :
    layerOffset os (n + 1) = layerOffset os n + o.hdr := by
  rw [layerOffset_eq, layerOffset_eq, List.take_add_one, h]
  simp

/-- the inner chain of layer `n` is layer `n + 1` (header, trailer) and its inner chain -/
theorem ctxAt_innerSize_succ (os : List AnyObj) (n : Nat) (o : AnyObj) (h : os[n + 1]? = some o) :
    (ctxAt os n).innerSize = o.hdr + o.trl (ctxAt os (n + 1)).innerSize + (ctxAt os (n + 1)).innerSize := by
  unfold Ctx.innerSize ctxAt
  simp only
  rw [drop_of_get (infos os) (n + 1) _ (infos_get os (n + 1) o h)]
  simp only [List.map_cons, List.sum_cons, infoOf]
  rfl

theorem infos_length (os : List AnyObj) : (infos os).length = os.length := by
  induction os with
  | nil => rfl
  | cons o os ih => rw [infos_cons]; simp [ih]

/-- no layer below `n`: the inner chain is empty -/
theorem ctxAt_innerSize_last (os : List AnyObj) (n : Nat) (h : os.length ≤ n + 1) : (ctxAt os n).innerSize = 0 := by
  unfold Ctx.innerSize ctxAt
  have : (infos os).drop (n + 1) = [] := List.drop_eq_nil_of_le (by rw [infos_length]; exact h)
  simp [this]

/-! ### a layer inside the packet -/

/-- **The slice of the packet that belongs to layer `n` is what layer `n`'s writer produced.**  For every stack whose
    layers satisfy their class invariants and serializability predicates (every parsed packet without PPI/PKTAP:
    `parsed_layers_good`; every API-built stack: `<fam>_mk_inv` / `<fam>_apply_inv`), `serialize()` succeeds, and for every
    layer `o` at position `n` there is a region of exactly `header + inner chain + trailer` bytes — the one
    `PDU::serialize` handed it, the inner layers already written — such that `o`'s `write_serialization`, run in the context
    `ctxAt os n`, returned exactly the bytes found in the final packet at the layer's offset.  No layer above changes them. -/
theorem layer_in_packet (os : List AnyObj) (h : ∀ o ∈ os, registryPreds.Inv o ∧ registryPreds.Ser o)
    (n : Nat) (o : AnyObj) (hn : os[n]? = some o) :
    ∃ out region, serializeObjs os = .ok out ∧
      region.length = o.hdr + (ctxAt os n).innerSize + o.trl (ctxAt os n).innerSize ∧
      o.write (ctxAt os n) region =
        .ok ((out.drop (layerOffset os n)).take (o.hdr + (ctxAt os n).innerSize + o.trl (ctxAt os n).innerSize)) := by
  have hlt : n < os.length := (List.getElem?_eq_some_iff.mp hn).1
  rcases serializeObjs_frame registryWriteFacts os h n (by rw [sems_length]; omega) with ⟨out, sub, e1, e2, e3⟩
  have hck : ChainOK ((sems os).drop n) := chainOK_drop _ (sems_chainOK registryWriteFacts os h) n
  rw [sems_drop_cons os n o hn] at e2 e3 hck
  generalize hls : semsAux (infoOf o (ctxAt os n).innerSize :: (ctxAt os n).parents) (os.drop (n + 1))
    (infos (os.drop (n + 1))) = ls at e2 e3 hck
  have hsz : sizeOf ls = (ctxAt os n).innerSize := by
    rw [← hls, sizeOf_semsAux', infos_drop]; rfl
  rw [serialize_cons] at e2
  rcases serializeInto_ok_at ls hck.2 (List.replicate (sizeOf ls) 0) (by simp) with ⟨io, hio, hiol⟩
  rw [hio] at e2
  simp only [Out.bind_ok] at e2
  refine ⟨out, splice (List.replicate (sizeOf
    (LayerSem.mk o.info.1 o.hdr (o.trl (ctxAt os n).innerSize) (o.write (ctxAt os n)) :: ls)) 0) o.hdr io, e1, ?_, ?_⟩
  · rw [splice_length _ _ _ (by simp only [List.length_replicate, sizeOf] at hiol ⊢; omega)]
    simp only [List.length_replicate, sizeOf, hsz]; omega
  · rw [e2, ← e3]
    simp only [sizeOf, hsz, layerOffset]
    congr 2; omega

/-- the same with the writer's result named: whatever a per-layer theorem says about "the `out` with `write = .ok out`"
    holds of the slice of the packet -/
theorem layer_slice_spec (os : List AnyObj) (h : ∀ o ∈ os, registryPreds.Inv o ∧ registryPreds.Ser o)
    (n : Nat) (o : AnyObj) (hn : os[n]? = some o) :
    ∃ out region, serializeObjs os = .ok out ∧
      region.length = o.hdr + (ctxAt os n).innerSize + o.trl (ctxAt os n).innerSize ∧
      ∀ P : Bytes → Prop, (∃ r, o.write (ctxAt os n) region = .ok r ∧ P r) →
        P ((out.drop (layerOffset os n)).take (o.hdr + (ctxAt os n).innerSize + o.trl (ctxAt os n).innerSize)) := by
  rcases layer_in_packet os h n o hn with ⟨out, region, e1, e2, e3⟩
  refine ⟨out, region, e1, e2, fun P ⟨r, hr, hp⟩ => ?_⟩
  have := Out.ok.inj (hr.symm.trans e3)
  rw [← this]; exact hp

/-! ### what a transport layer sees of its IP / IPv6 parent -/

theorem take_succ_reverse_head {α} (l : List α) (n : Nat) (x : α) (h : l[n]? = some x) :
    ((l.take (n + 1)).reverse).head? = some x := by
  rw [List.take_add_one, h]; simp

theorem ip4_fields_addr (ip : Ip.Ip4) :
    (Fields.get ip.fields "src_addr").bind parseHexStr = some ip.src ∧
    (Fields.get ip.fields "dst_addr").bind parseHexStr = some ip.dst := by
  have e1 : Fields.get ip.fields "src_addr" = some (hexStr ip.src) := by
    simp [Fields.get, Ip.Ip4.fields, List.find?]
  have e2 : Fields.get ip.fields "dst_addr" = some (hexStr ip.dst) := by
    simp [Fields.get, Ip.Ip4.fields, List.find?]
  rw [e1, e2]
  exact ⟨parseHexStr_hexStr _, parseHexStr_hexStr _⟩

theorem ip6_fields_addr (p : Ip6.Ipv6) :
    (Fields.get p.fields "src_addr").bind parseHexStr = some p.src ∧
    (Fields.get p.fields "dst_addr").bind parseHexStr = some p.dst := by
  have e1 : Fields.get p.fields "src_addr" = some (hexStr p.src) := by
    by_cases hh : p.headers.isEmpty <;> simp [Fields.get, Ip6.Ipv6.fields, List.find?, hh]
  have e2 : Fields.get p.fields "dst_addr" = some (hexStr p.dst) := by
    by_cases hh : p.headers.isEmpty <;> simp [Fields.get, Ip6.Ipv6.fields, List.find?, hh]
  rw [e1, e2]
  exact ⟨parseHexStr_hexStr _, parseHexStr_hexStr _⟩

/-- the layer directly below an `IP` sees an IP parent with that object's addresses -/
theorem parentIp4_of (os : List AnyObj) (n : Nat) (ip : Ip.Ip4) (h : os[n]? = some (.ip (.ip ip))) :
    ParentIp4 (ctxAt os (n + 1)) ip.src ip.dst := by
  refine ⟨_, take_succ_reverse_head _ n _ (infos_get os n _ h), rfl, ?_, ?_⟩
  · exact (ip4_fields_addr ip).1
  · exact (ip4_fields_addr ip).2

/-- the layer directly below an `IPv6` sees an IPv6 parent with that object's addresses -/
theorem parentIp6_of (os : List AnyObj) (n : Nat) (p : Ip6.Ipv6) (h : os[n]? = some (.ip6 (.ip6 p))) :
    ParentIp6 (ctxAt os (n + 1)) p.src p.dst := by
  refine ⟨_, take_succ_reverse_head _ n _ (infos_get os n _ h), rfl, ?_, ?_⟩
  · exact (ip6_fields_addr p).1
  · exact (ip6_fields_addr p).2

end Tins.Wire.Derived
