import TinsModel.Wire.Derived.Bridge
import TinsModel.Wire.L2.Theorems
/-
  Property C05 over the wire models of the link-layer writers (`Wire/L2/`): Ethernet frames are zero-padded to 60 bytes
  (802.1Q to 50 when `append_padding` is set), the PPPoE payload length counts what follows its 6-byte header, and every
  next-protocol tag (EtherType of EthernetII / 802.1Q / SNAP / SLL, the loopback family word, the MPLS bottom-of-stack
  marker) is the one libtins assigns to the class of the layer that actually follows.
-/
set_option autoImplicit false
namespace Tins.Wire.Derived
open Tins Tins.Wire Tins.Wire.L2

/-! ### the EtherType libtins derives from a layer -/

/-- every non-zero EtherType `pdu_flag_to_ether_type` returns is one the parsers dispatch on -/
theorem etherOfPduType_dispatches (t : String) (h : Tags.etherOfPduType t ≠ 0) :
    (Tags.classOfEther (Tags.etherOfPduType t)).isSome = true := by
  unfold Tags.etherOfPduType Tags.assocStr at *
  cases hf : List.find? (fun x => x.1 == t) Gen.Tags.pduTypeToEther with
  | none => rw [hf] at h; exact absurd rfl h
  | some p =>
    simp only [Option.map_some, Option.getD_some]
    exact derived_ether_tag_dispatches p (List.mem_of_find?_eq_some hf)

/-- `Internals::pdu_to_ether_type`: a derived tag always names a class the parsers construct (PPPoE by stage) -/
theorem etherTagOf_dispatches (i : LayerInfo) (h : etherTagOf i ≠ 0) : (Tags.classOfEther (etherTagOf i)).isSome = true := by
  unfold etherTagOf at *
  simp only at h ⊢
  split at h
  · rename_i hp
    simp only [hp, if_true]
    split <;> decide
  · rename_i hp
    simp only [hp]
    exact etherOfPduType_dispatches _ h

/-- … and for every class but PPPoE it is the table entry of the class -/
theorem etherTagOf_plain (i : LayerInfo) (hp : Tags.pduTypeOf i.cls ≠ "PPPOE") :
    etherTagOf i = Tags.etherOfPduType (Tags.pduTypeOf i.cls) := by
  simp [etherTagOf, hp]

/-- PPPoE is tagged by its stage: session (code 0) 0x8864, discovery 0x8863 -/
theorem etherTagOf_pppoe (i : LayerInfo) (hp : Tags.pduTypeOf i.cls = "PPPOE") :
    etherTagOf i = if i.fields.get "code" == some "0" then 0x8864 else 0x8863 := by
  simp [etherTagOf, hp]

/-- the flag `EthernetII::write_serialization` computes for its inner PDU `i` followed by `rest` -/
def ethFlag (i : LayerInfo) (rest : List LayerInfo) : Nat :=
  if Tags.pduTypeOf i.cls == "DOT1Q" then
    (match rest.head? with
     | some j => if Tags.pduTypeOf j.cls == "DOT1Q" then 0x88a8 else Tags.etherOfPduType (Tags.pduTypeOf i.cls)
     | none => Tags.etherOfPduType (Tags.pduTypeOf i.cls))
  else etherTagOf i

theorem eth_tagFor_eq (cx : Ctx) (e : Eth) (i : LayerInfo) (rest : List LayerInfo) (hc : cx.inners = i :: rest) :
    Eth.tagFor cx e = if ethFlag i rest ≠ 0 then ethFlag i rest else e.ptype := by
  unfold Eth.tagFor ethFlag etherTagOf
  rw [hc]
  simp only
  by_cases hp : (Tags.pduTypeOf i.cls == "PPPOE") = true
  · have hq : (Tags.pduTypeOf i.cls == "DOT1Q") = false := by
      have := eq_of_beq hp; rw [this]; decide
    simp [hp, hq]
  · by_cases hq : (Tags.pduTypeOf i.cls == "DOT1Q") = true
    · simp only [hp, hq, Bool.false_eq_true, if_false, if_true]
      cases rest.head? <;> simp
    · simp [hp, hq]

theorem ethFlag_dispatches (i : LayerInfo) (rest : List LayerInfo) (h : ethFlag i rest ≠ 0) :
    (Tags.classOfEther (ethFlag i rest)).isSome = true := by
  unfold ethFlag at *
  split at h
  · rename_i hq
    simp only [hq, if_true]
    split at h
    · split at h
      · rename_i hj; simp only [hj, if_true]; decide
      · rename_i hj; simp only [hj]; exact etherOfPduType_dispatches _ h
    · exact etherOfPduType_dispatches _ h
  · rename_i hq
    simp only [hq]
    exact etherTagOf_dispatches i h

/-! ### EthernetII -/

/-- **Ethernet minimum frame.**  On the region `PDU::serialize` hands out, what `EthernetII::write_serialization` leaves
    is: the 14-byte header, the inner layers' bytes untouched, then `46 - inner size` **zero** bytes — so the frame has
    exactly `max 60 (14 + inner size)` bytes: padded to 60, never beyond. -/
theorem wire_eth_min_60 (cx : Ctx) (e : Eth) (h : e.WF) (region : Bytes)
    (hl : region.length = 14 + cx.innerSize + Eth.trl cx.innerSize) :
    ∃ out, e.write cx region = .ok out ∧ out.length = max 60 (14 + cx.innerSize) ∧
      (out.drop 14).take cx.innerSize = (region.drop 14).take cx.innerSize ∧
      out.drop (14 + cx.innerSize) = List.replicate (46 - cx.innerSize) 0 := by
  have hb := eth_headerBytes_length { e with ptype := Eth.tagFor cx e } ⟨h.dst, h.src, eth_tagFor_lt cx e h⟩
  have hil : ((region.drop 14).take cx.innerSize).length = cx.innerSize := by
    simp only [List.length_take, List.length_drop]; omega
  refine ⟨_, eth_write_eq cx e h region hl, ?_, ?_, ?_⟩
  · simp only [List.length_append, hb, hil, List.length_replicate, Eth.trl]; omega
  · rw [List.append_assoc, List.drop_left' hb, List.take_left' hil]
  · rw [List.drop_left' (by simp only [List.length_append, hb, hil])]; rfl

/-- **Ethernet type names the follower.**  Bytes 12..13 of what `write_serialization` leaves are `Eth.tagFor`: 0 without
    inner PDU; when libtins has an EtherType for the inner layer (`ethFlag`: the class's table entry; PPPoE by stage —
    0x8864 session / 0x8863 discovery; 0x88a8 for an 802.1Q directly followed by another 802.1Q) that EtherType — and it is
    one the parsers dispatch on; otherwise the stored `payload_type` is kept. -/
theorem wire_eth_tag (cx : Ctx) (e : Eth) (h : e.WF) (region : Bytes)
    (hl : region.length = 14 + cx.innerSize + Eth.trl cx.innerSize) :
    ∃ out, e.write cx region = .ok out ∧ Cursor.beNat ((out.drop 12).take 2) = Eth.tagFor cx e ∧
      (cx.inners = [] → Eth.tagFor cx e = 0) ∧
      (∀ i rest, cx.inners = i :: rest →
        (ethFlag i rest ≠ 0 → Eth.tagFor cx e = ethFlag i rest ∧ (Tags.classOfEther (Eth.tagFor cx e)).isSome = true) ∧
        (ethFlag i rest = 0 → Eth.tagFor cx e = e.ptype) ∧
        (Tags.pduTypeOf i.cls ≠ "PPPOE" → Tags.pduTypeOf i.cls ≠ "DOT1Q" →
          ethFlag i rest = Tags.etherOfPduType (Tags.pduTypeOf i.cls))) := by
  refine ⟨_, eth_write_eq cx e h region hl, ?_, ?_, ?_⟩
  · have e1 : ({ e with ptype := Eth.tagFor cx e } : Eth).headerBytes ++ (region.drop 14).take cx.innerSize ++
        List.replicate (Eth.trl cx.innerSize) 0 = (e.dst ++ e.src) ++ (OutCursor.beBytes 2 (Eth.tagFor cx e) ++
          ((region.drop 14).take cx.innerSize ++ List.replicate (Eth.trl cx.innerSize) 0)) := by
      simp [Eth.headerBytes, List.append_assoc]
    rw [e1, List.drop_left' (by simp [h.dst, h.src]), List.take_left' (by simp), beNat_beBytes]
    exact Nat.mod_eq_of_lt (by have := eth_tagFor_lt cx e h; omega)
  · intro hn; unfold Eth.tagFor; rw [hn]
  · intro i rest hc
    have ht := eth_tagFor_eq cx e i rest hc
    refine ⟨fun hne => ?_, fun he => by rw [ht]; simp [he], fun hp hq => ?_⟩
    · have : Eth.tagFor cx e = ethFlag i rest := by rw [ht]; simp [hne]
      exact ⟨this, by rw [this]; exact ethFlag_dispatches i rest hne⟩
    · have hq' : (Tags.pduTypeOf i.cls == "DOT1Q") = false := by simpa using hq
      simp only [ethFlag, hq', Bool.false_eq_true, if_false]
      exact etherTagOf_plain i hp

/-! ### 802.1Q -/

/-- **802.1Q padding.**  With `append_padding` set, `header + inner` is zero-padded to 50 bytes (so that the enclosing
    Ethernet frame reaches 64 with its 14-byte header); without it nothing is appended. -/
theorem wire_dot1q_pad_50 (cx : Ctx) (q : Dot1Q) (region : Bytes)
    (hl : region.length = 4 + cx.innerSize + q.trl cx.innerSize) :
    ∃ out, q.write cx region = .ok out ∧
      out.length = (if q.appendPadding then max 50 (4 + cx.innerSize) else 4 + cx.innerSize) ∧
      (out.drop 4).take cx.innerSize = (region.drop 4).take cx.innerSize ∧
      out.drop (4 + cx.innerSize) = List.replicate (if q.appendPadding then 50 - (4 + cx.innerSize) else 0) 0 := by
  have hb := dot1q_headerBytes_length { q with ptype := Dot1Q.tagFor cx q }
  have hil : ((region.drop 4).take cx.innerSize).length = cx.innerSize := by
    simp only [List.length_take, List.length_drop]; omega
  have ht := dot1q_trl_spec q cx.innerSize
  refine ⟨_, dot1q_write_eq cx q region hl, ?_, ?_, ?_⟩
  · simp only [List.length_append, hb, hil, List.length_replicate, ht]
    split <;> omega
  · rw [List.append_assoc, List.drop_left' hb, List.take_left' hil]
  · rw [List.drop_left' (by simp only [List.length_append, hb, hil]), ht]

/-- the common shape of the 802.1Q / SNAP / SLL tag choice -/
theorem tag_choice (stored tag : Nat) (cx : Ctx)
    (hdef : tag = match cx.inners.head? with
      | none => stored
      | some i => if etherTagOf i != 0 then etherTagOf i else stored) :
    (∀ i, cx.inners.head? = some i →
      (etherTagOf i ≠ 0 → tag = etherTagOf i ∧ (Tags.classOfEther tag).isSome = true) ∧
      (etherTagOf i = 0 → tag = stored) ∧
      (Tags.pduTypeOf i.cls ≠ "PPPOE" → etherTagOf i = Tags.etherOfPduType (Tags.pduTypeOf i.cls))) ∧
    (cx.inners.head? = none → tag = stored) := by
  refine ⟨fun i hi => ?_, fun hn => by rw [hdef, hn]⟩
  rw [hi] at hdef
  refine ⟨fun hne => ?_, fun he => by rw [hdef]; simp [he], etherTagOf_plain i⟩
  have : tag = etherTagOf i := by rw [hdef]; simp [hne]
  exact ⟨this, by rw [this]; exact etherTagOf_dispatches i hne⟩

/-- **802.1Q type names the follower.**  Bytes 2..3 are `Dot1Q.tagFor`: 0 without inner PDU; the EtherType libtins has
    for the inner layer (the class's table entry, PPPoE by stage) when it has one — a type the parsers dispatch on —,
    else the stored `payload_type`. -/
theorem wire_dot1q_tag (cx : Ctx) (q : Dot1Q) (h : q.WF) (region : Bytes)
    (hl : region.length = 4 + cx.innerSize + q.trl cx.innerSize) :
    ∃ out, q.write cx region = .ok out ∧ Cursor.beNat ((out.drop 2).take 2) = Dot1Q.tagFor cx q ∧
      (cx.inners.head? = none → Dot1Q.tagFor cx q = 0) ∧
      (∀ i, cx.inners.head? = some i →
        (etherTagOf i ≠ 0 → Dot1Q.tagFor cx q = etherTagOf i ∧ (Tags.classOfEther (Dot1Q.tagFor cx q)).isSome = true) ∧
        (etherTagOf i = 0 → Dot1Q.tagFor cx q = q.ptype) ∧
        (Tags.pduTypeOf i.cls ≠ "PPPOE" → etherTagOf i = Tags.etherOfPduType (Tags.pduTypeOf i.cls))) := by
  refine ⟨_, dot1q_write_eq cx q region hl, ?_, ?_, ?_⟩
  · have e1 : ({ q with ptype := Dot1Q.tagFor cx q } : Dot1Q).headerBytes ++ (region.drop 4).take cx.innerSize ++
        List.replicate (q.trl cx.innerSize) 0 =
        [UInt8.ofNat (q.priority * 32 + q.cfi * 16 + q.id / 256), UInt8.ofNat (q.id % 256)] ++
          (OutCursor.beBytes 2 (Dot1Q.tagFor cx q) ++ ((region.drop 4).take cx.innerSize ++ List.replicate (q.trl cx.innerSize) 0)) := by
      simp [Dot1Q.headerBytes, List.append_assoc]
    rw [e1, List.drop_left' (by rfl), List.take_left' (by simp), beNat_beBytes]
    exact Nat.mod_eq_of_lt (by have := dot1q_tagFor_lt cx q h; omega)
  · intro hn; unfold Dot1Q.tagFor; rw [hn]
  · intro i hi
    unfold Dot1Q.tagFor
    rw [hi]
    refine ⟨fun hne => ?_, fun he => by simp [he], etherTagOf_plain i⟩
    have : (if (etherTagOf i != 0) = true then etherTagOf i else q.ptype) = etherTagOf i := by simp [hne]
    simp only [this]
    exact ⟨trivial, etherTagOf_dispatches i hne⟩

/-! ### SNAP, SLL -/

/-- **SNAP eth_type names the follower** (bytes 6..7): as for 802.1Q, except that without inner PDU the stored value stays. -/
theorem wire_snap_tag (cx : Ctx) (s : Snap) (h : s.WF) (region : Bytes) (hr : 8 ≤ region.length) :
    ∃ out, s.write cx region = .ok out ∧ Cursor.beNat ((out.drop 6).take 2) = Snap.tagFor cx s ∧
      out.drop 8 = region.drop 8 ∧
      (∀ i, cx.inners.head? = some i →
        (etherTagOf i ≠ 0 → Snap.tagFor cx s = etherTagOf i ∧ (Tags.classOfEther (Snap.tagFor cx s)).isSome = true) ∧
        (etherTagOf i = 0 → Snap.tagFor cx s = s.ethType) ∧
        (Tags.pduTypeOf i.cls ≠ "PPPOE" → etherTagOf i = Tags.etherOfPduType (Tags.pduTypeOf i.cls))) ∧
      (cx.inners.head? = none → Snap.tagFor cx s = s.ethType) := by
  rcases writeAtStart_ok region _ 8 (snap_headerBytes_length { s with ethType := Snap.tagFor cx s }) hr with ⟨hw, _, _, hd⟩
  refine ⟨_, hw, ?_, hd, tag_choice s.ethType (Snap.tagFor cx s) cx rfl⟩
  have e1 : ({ s with ethType := Snap.tagFor cx s } : Snap).headerBytes ++ region.drop 8 =
      ([UInt8.ofNat s.dsap, UInt8.ofNat s.ssap, UInt8.ofNat s.control] ++ OutCursor.beBytes 3 s.org) ++
        (OutCursor.beBytes 2 (Snap.tagFor cx s) ++ region.drop 8) := by
    simp [Snap.headerBytes, List.append_assoc]
  rw [e1, List.drop_left' (by simp), List.take_left' (by simp), beNat_beBytes]
  exact Nat.mod_eq_of_lt (by have := snap_tagFor_lt cx s h; omega)

/-- **SLL protocol names the follower** (bytes 14..15). -/
theorem wire_sll_tag (cx : Ctx) (s : Sll) (h : s.WF) (region : Bytes) (hr : 16 ≤ region.length) :
    ∃ out, s.write cx region = .ok out ∧ Cursor.beNat ((out.drop 14).take 2) = Sll.tagFor cx s ∧
      out.drop 16 = region.drop 16 ∧
      (∀ i, cx.inners.head? = some i →
        (etherTagOf i ≠ 0 → Sll.tagFor cx s = etherTagOf i ∧ (Tags.classOfEther (Sll.tagFor cx s)).isSome = true) ∧
        (etherTagOf i = 0 → Sll.tagFor cx s = s.protocol) ∧
        (Tags.pduTypeOf i.cls ≠ "PPPOE" → etherTagOf i = Tags.etherOfPduType (Tags.pduTypeOf i.cls))) ∧
      (cx.inners.head? = none → Sll.tagFor cx s = s.protocol) := by
  rcases writeAtStart_ok region _ 16 (sll_headerBytes_length { s with protocol := Sll.tagFor cx s } h.address) hr with
    ⟨hw, _, _, hd⟩
  refine ⟨_, hw, ?_, hd, tag_choice s.protocol (Sll.tagFor cx s) cx rfl⟩
  have e1 : ({ s with protocol := Sll.tagFor cx s } : Sll).headerBytes ++ region.drop 16 =
      (OutCursor.beBytes 2 s.packetType ++ OutCursor.beBytes 2 s.lladdrType ++ OutCursor.beBytes 2 s.lladdrLen ++ s.address) ++
        (OutCursor.beBytes 2 (Sll.tagFor cx s) ++ region.drop 16) := by
    simp [Sll.headerBytes, List.append_assoc]
  rw [e1, List.drop_left' (by simp [h.address]), List.take_left' (by simp), beNat_beBytes]
  exact Nat.mod_eq_of_lt (by have := sll_tagFor_lt cx s h; omega)

/-! ### Loopback, MPLS, PPPoE -/

/-- **Loopback family names the follower.**  The 4-byte host-order family word is PF_INET (2) in front of IP, PF_INET6 (10)
    in front of IPv6, PF_LLC (26) in front of LLC — the values `Loopback`'s parser dispatches on to exactly these classes —
    and the stored family otherwise. -/
theorem wire_loopback_family (cx : Ctx) (l : Loopback) (h : l.WF) (region : Bytes) (hr : 4 ≤ region.length) :
    ∃ out, l.write cx region = .ok out ∧ Cursor.leNat (out.take 4) = Loopback.familyFor cx l ∧
      out.drop 4 = region.drop 4 ∧
      (cx.innerCls = some "IP" → Loopback.familyFor cx l = 2) ∧
      (cx.innerCls = some "IPv6" → Loopback.familyFor cx l = 10) ∧
      (cx.innerCls = some "LLC" → Loopback.familyFor cx l = 26) ∧
      (cx.innerCls ≠ some "IP" → cx.innerCls ≠ some "IPv6" → cx.innerCls ≠ some "LLC" →
        Loopback.familyFor cx l = l.family) ∧
      (∀ rest, Loopback.innerFor 2 rest = .cls "IP" rest false ∧ Loopback.innerFor 10 rest = .cls "IPv6" rest false ∧
        Loopback.innerFor 26 rest = .cls "LLC" rest false) := by
  rcases writeAtStart_ok region (OutCursor.leBytes 4 (Loopback.familyFor cx l)) 4 (by simp) hr with ⟨hw, _, ht, hd⟩
  refine ⟨_, hw, ?_, hd, ?_, ?_, ?_, fun h1 h2 h3 => loopback_family_kept cx l ⟨h1, h2, h3⟩, fun rest => ⟨rfl, rfl, rfl⟩⟩
  · rw [ht, leNat_leBytes]
    exact Nat.mod_eq_of_lt (by have := loopback_familyFor_lt cx l h; omega)
  · intro hc; unfold Loopback.familyFor; rw [hc]; rfl
  · intro hc; unfold Loopback.familyFor; rw [hc]; rfl
  · intro hc; unfold Loopback.familyFor; rw [hc]; rfl

/-- **MPLS bottom-of-stack marker.**  Inside a packet (there is a parent layer), the bottom-of-stack bit (bit 0 of
    byte 2) of what `write_serialization` leaves is 1 exactly on the last label of the stack — the one not followed by
    another MPLS —, label, traffic class and TTL being kept; a top-level MPLS keeps its stored bit. -/
theorem wire_mpls_marker (cx : Ctx) (m : Mpls) (h : m.WF) (region : Bytes) (hr : 4 ≤ region.length) :
    ∃ out, m.write cx region = .ok out ∧ out.drop 4 = region.drop 4 ∧
      out.take 4 = (Mpls.written cx m).headerBytes ∧
      (cx.parents ≠ [] → cx.innerCls ≠ some "MPLS" → (Mpls.written cx m).bottomOfStack = 1) ∧
      (cx.parents ≠ [] → cx.innerCls = some "MPLS" → (Mpls.written cx m).bottomOfStack = m.bottomOfStack) ∧
      (cx.parents = [] → Mpls.written cx m = m) ∧
      (Mpls.written cx m).view = m.view := by
  rcases writeAtStart_ok region _ 4 (mpls_headerBytes_length (Mpls.written cx m)) hr with ⟨hw, _, ht, hd⟩
  refine ⟨_, by rw [mpls_write_eq]; exact hw, hd, ht, ?_, ?_, ?_, mpls_written_view cx m h⟩
  · intro hp hi
    have h1 : cx.parents.isEmpty = false := by cases hc : cx.parents with
      | nil => exact absurd hc hp
      | cons a as => rfl
    have h2 : (cx.innerCls != some "MPLS") = true := by simpa using hi
    simp only [Mpls.written, h1, h2, Bool.not_false, Bool.and_self, if_true, Mpls.bottomOfStack]
    omega
  · intro _ hi
    have h2 : (cx.innerCls != some "MPLS") = false := by simp [hi]
    simp [Mpls.written, h2]
  · intro hp
    simp [Mpls.written, hp]

/-- **PPPoE payload length.**  With tags or an inner PDU, bytes 4..5 of what `write_serialization` leaves count everything
    behind the 6-byte header of its region — tags and session payload (after fix KF-C05-4) —, when that fits 16 bits. -/
theorem wire_pppoe_payload_length (cx : Ctx) (p : PPPoE) (h : p.Inv) (region : Bytes)
    (hreg : region.length = p.hdr + cx.innerSize) (h16 : region.length - 6 < 65536)
    (hne : p.tagsSize > 0 ∨ cx.inners ≠ []) :
    ∃ out, p.write cx region = .ok out ∧ out.length = region.length ∧
      Cursor.beNat ((out.drop 4).take 2) = out.length - 6 := by
  have hr : p.hdr ≤ region.length := by omega
  have hsz := h.size
  have hlen : ((PPPoE.written cx p region.length).headerBytes ++ p.tags.flatMap PPPoE.tagBytes ++ region.drop p.hdr).length =
      region.length := by
    simp only [List.length_append, pppoe_headerBytes_length, pppoe_flat_length, List.length_drop, PPPoE.hdr, hsz] at hr ⊢
    omega
  refine ⟨_, pppoe_write_eq cx p h region hr, hlen, ?_⟩
  rw [hlen]
  have e1 : (PPPoE.written cx p region.length).headerBytes ++ p.tags.flatMap PPPoE.tagBytes ++ region.drop p.hdr =
      ([UInt8.ofNat (p.type + p.version * 16), UInt8.ofNat p.code] ++ OutCursor.beBytes 2 p.sessionId) ++
        (OutCursor.beBytes 2 (PPPoE.lengthFor cx p region.length) ++ (p.tags.flatMap PPPoE.tagBytes ++ region.drop p.hdr)) := by
    simp [PPPoE.headerBytes, PPPoE.written, List.append_assoc]
  rw [e1, List.drop_left' (by simp), List.take_left' (by simp), beNat_beBytes]
  have hc : (p.tagsSize > 0 || !cx.inners.isEmpty) = true := by
    rcases hne with h1 | h1
    · simp [h1]
    · cases hi : cx.inners with
      | nil => exact absurd hi h1
      | cons a as => simp
  simp only [PPPoE.lengthFor, hc, if_true]
  omega

/-! ### non-vacuity -/

def exEth : Eth := ⟨[1, 2, 3, 4, 5, 6], [7, 8, 9, 10, 11, 12], 0⟩
/-- Ethernet in front of an IP of 20 + 8 + 3 bytes: 15 bytes of padding -/
def exEthCtx : Ctx := ⟨[], [⟨"IP", [], 20, 0⟩, ⟨"UDP", [], 8, 0⟩, ⟨"RawPDU", [], 3, 0⟩]⟩

example : exEth.WF := ⟨rfl, rfl, by decide⟩
example : ∃ out, exEth.write exEthCtx (List.replicate 60 0) = .ok out ∧ out.length = 60 ∧ (out.drop 12).take 2 = [0x08, 0x00] :=
  ⟨_, rfl, rfl, rfl⟩
example : ethFlag ⟨"IP", [], 20, 0⟩ [] = 0x0800 ∧ ethFlag ⟨"Dot1Q", [], 4, 0⟩ [⟨"Dot1Q", [], 4, 0⟩] = 0x88a8 ∧
    ethFlag ⟨"PPPoE", [("code", "0")], 6, 0⟩ [] = 0x8864 ∧ ethFlag ⟨"RawPDU", [], 3, 0⟩ [] = 0 := by decide

end Tins.Wire.Derived
