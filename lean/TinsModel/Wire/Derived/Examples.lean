import TinsModel.Wire.Derived.Stacks
import TinsModel.Wire.Chain.Examples
/-
  Whole-packet C05 over the wire models: **non-vacuity**.  The concrete stacks of `Wire/Chain/Examples.lean` (whose
  serialization is checked there byte for byte against the bytes the real library produces) satisfy every hypothesis of the
  `packet_*` theorems; the conclusions are instantiated, and — independently of the theorems — the RFC 1071 sums are
  evaluated on the literal packet bytes.
-/
set_option autoImplicit false
namespace Tins.Wire.Derived
open Tins Tins.Wire

/-! #### 1. EthernetII / IP / UDP / 3 payload bytes (odd length; the 45-byte frame is padded to 60) -/

theorem ex1_good : ∀ o ∈ ChainAll.ex1, registryPreds.Inv o ∧ registryPreds.Ser o := by
  intro o ho
  simp only [ChainAll.ex1, List.mem_cons, List.mem_nil_iff, or_false] at ho
  rcases ho with rfl | rfl | rfl | rfl
  · exact ⟨ChainAll.exEth_inv, trivial⟩
  · exact ⟨ChainAll.exIp_inv, (by decide : ChainAll.exIp.hdr ≤ 60)⟩
  · exact ⟨ChainAll.exUdp_wf, trivial⟩
  · exact ⟨trivial, trivial⟩

/-- the theorem applied: inside the serialized frame the IP header checksum and the UDP checksum verify, the total length
    is 31 = 20 + 8 + 3, protocol 17 … -/
example : ∃ out dg seg, serializeObjs ChainAll.ex1 = .ok out ∧
    dg = (out.drop (layerOffset ChainAll.ex1 1)).take (ChainAll.exIp.hdr + (ctxAt ChainAll.ex1 1).innerSize) ∧ seg = dg.drop ChainAll.exIp.hdr ∧
    dg.length = ChainAll.exIp.hdr + (ctxAt ChainAll.ex1 1).innerSize ∧ Ck.Spec.verifies (dg.take ChainAll.exIp.hdr) = true ∧
    Cursor.beNat ((dg.drop 2).take 2) = dg.length ∧ Ip.byteAt dg 0 % 16 * 4 = ChainAll.exIp.hdr ∧ Ip.byteAt dg 9 = 17 ∧
    (dg.drop 12).take 8 = ChainAll.exIp.src ++ ChainAll.exIp.dst ∧
    Ck.Spec.verifies (Ck.Spec.pseudo4 ChainAll.exIp.src ChainAll.exIp.dst 17 seg.length ++ seg) = true ∧
    Cursor.beNat ((seg.drop 4).take 2) = seg.length ∧ ¬ (seg[6]? = some 0 ∧ seg[7]? = some 0) :=
  packet_ip_udp ChainAll.ex1 ex1_good 1 ChainAll.exIp ChainAll.exUdp rfl rfl (by decide)

example : layerOffset ChainAll.ex1 1 = 14 ∧ ChainAll.exIp.hdr + (ctxAt ChainAll.ex1 1).innerSize = 31 := by decide

/-- … and the same facts evaluated on the literal bytes (no theorem involved) -/
example : ChainAll.ex1_bytes.length = 60 ∧ ChainAll.ex1_bytes.drop 45 = List.replicate 15 0 ∧ (ChainAll.ex1_bytes.drop 12).take 2 = [8, 0] ∧
    Ck.Spec.verifies ((ChainAll.ex1_bytes.drop 14).take 20) = true ∧ (ChainAll.ex1_bytes.drop 16).take 2 = [0, 31] ∧
    Ck.Spec.verifies (Ck.Spec.pseudo4 [10, 0, 0, 1] [10, 0, 0, 2] 17 11 ++ (ChainAll.ex1_bytes.drop 34).take 11) = true ∧
    (ChainAll.ex1_bytes.drop 38).take 2 = [0, 11] := by decide

/-- the Ethernet frame: 60 bytes, zero padded, EtherType 0x0800 (IP) -/
example : ∃ out, serializeObjs ChainAll.ex1 = .ok out ∧ out.length = max 60 (14 + (ctxAt ChainAll.ex1 0).innerSize) ∧
    out.drop (14 + (ctxAt ChainAll.ex1 0).innerSize) = List.replicate (46 - (ctxAt ChainAll.ex1 0).innerSize) 0 ∧
    Cursor.beNat ((out.drop 12).take 2) = L2.Eth.tagFor (ctxAt ChainAll.ex1 0) ⟨[1,2,3,4,5,6], [7,8,9,10,11,12], 0⟩ :=
  packet_eth ChainAll.ex1 ex1_good _ _ rfl

example : (ctxAt ChainAll.ex1 0).innerSize = 31 ∧ L2.Eth.tagFor (ctxAt ChainAll.ex1 0) ⟨[1,2,3,4,5,6], [7,8,9,10,11,12], 0⟩ = 0x0800 := by decide

/-! #### 2. EthernetII / IP (NOOP, stream identifier: 5 option bytes padded to 8) / TCP (MSS, NOP, window scale) / 3 bytes -/

theorem ex2_good : ∀ o ∈ ChainAll.ex2, registryPreds.Inv o ∧ registryPreds.Ser o := by
  intro o ho
  simp only [ChainAll.ex2, List.mem_cons, List.mem_nil_iff, or_false] at ho
  rcases ho with rfl | rfl | rfl | rfl
  · exact ⟨ChainAll.exEth_inv, trivial⟩
  · exact ⟨ChainAll.exIp2_inv, (by decide : ChainAll.exIp2.hdr ≤ 60)⟩
  · exact ⟨ChainAll.exTcp_inv, (by decide : Transport.Tcp.optsSum ChainAll.exTcp.opts ≤ 40)⟩
  · exact ⟨trivial, trivial⟩

example : ∃ out dg seg, serializeObjs ChainAll.ex2 = .ok out ∧
    dg = layerBytes ChainAll.ex2 1 (.ip (.ip ChainAll.exIp2)) out ∧ seg = dg.drop ChainAll.exIp2.hdr ∧
    dg.length = ChainAll.exIp2.hdr + (ctxAt ChainAll.ex2 1).innerSize ∧ Ck.Spec.verifies (dg.take ChainAll.exIp2.hdr) = true ∧
    Cursor.beNat ((dg.drop 2).take 2) = dg.length ∧ Ip.byteAt dg 0 % 16 * 4 = ChainAll.exIp2.hdr ∧ Ip.byteAt dg 9 = 6 ∧
    (dg.drop 12).take 8 = ChainAll.exIp2.src ++ ChainAll.exIp2.dst ∧
    Ck.Spec.verifies (Ck.Spec.pseudo4 ChainAll.exIp2.src ChainAll.exIp2.dst 6 seg.length ++ seg) = true ∧
    Transport.byteAt seg 12 / 16 * 4 = ChainAll.exTcp.hdr :=
  packet_ip_tcp ChainAll.ex2 ex2_good 1 ChainAll.exIp2 ChainAll.exTcp rfl rfl (by decide)

example : ChainAll.exIp2.hdr = 28 ∧ ChainAll.exTcp.hdr = 28 ∧ ChainAll.exIp2.hdr + (ctxAt ChainAll.ex2 1).innerSize = 59 := by decide

example : Ck.Spec.verifies ((ChainAll.ex2_bytes.drop 14).take 28) = true ∧ (ChainAll.ex2_bytes.drop 16).take 2 = [0, 59] ∧
    Ck.Spec.verifies (Ck.Spec.pseudo4 [192, 168, 0, 1] [192, 168, 0, 2] 6 31 ++ (ChainAll.ex2_bytes.drop 42).take 31) = true := by
  decide

/-! #### 3. EthernetII / Dot1Q / IPv6 / hop-by-hop header / ICMPv6 echo request / 4 bytes -/

theorem ex3_good : ∀ o ∈ ChainAll.ex3, registryPreds.Inv o ∧ registryPreds.Ser o := by
  intro o ho
  simp only [ChainAll.ex3, List.mem_cons, List.mem_nil_iff, or_false] at ho
  rcases ho with rfl | rfl | rfl | rfl | rfl
  · exact ⟨ChainAll.exEth_inv, trivial⟩
  · exact ⟨⟨by decide, by decide, by decide, by decide⟩, trivial⟩
  · exact ⟨ChainAll.exIp6_inv, trivial⟩
  · exact ⟨ChainAll.exIcmp6_inv, ⟨by decide, by decide⟩⟩
  · exact ⟨trivial, trivial⟩

example : ∃ out dg msg, serializeObjs ChainAll.ex3 = .ok out ∧
    dg = layerBytes ChainAll.ex3 2 (.ip6 (.ip6 ChainAll.exIp6)) out ∧ msg = dg.drop ChainAll.exIp6.hdr ∧
    Cursor.beNat ((dg.drop 4).take 2) + 40 = dg.length ∧ (dg.drop 8).take 32 = ChainAll.exIp6.src ++ ChainAll.exIp6.dst ∧
    Ck.Spec.verifies (Ck.Spec.pseudo6 ChainAll.exIp6.src ChainAll.exIp6.dst 58 msg.length ++ msg) = true :=
  packet_ip6_icmp6 ChainAll.ex3 ex3_good 2 ChainAll.exIp6 ChainAll.exIcmp6 rfl rfl (by decide)

/-- evaluated on the literal bytes: payload length 20 = 8 (hop-by-hop) + 12 (ICMPv6); the fixed header names the hop-by-hop
    header (0), which names ICMPv6 (58) and has Hdr Ext Len 0 = 8 / 8 − 1; the ICMPv6 checksum verifies under the RFC 8200
    pseudo header with next header 58 -/
example : (ChainAll.ex3_bytes.drop 22).take 3 = [0, 20, 0] ∧ (ChainAll.ex3_bytes.drop 58).take 2 = [58, 0] ∧
    Ck.Spec.verifies (Ck.Spec.pseudo6 (List.replicate 15 0 ++ [1]) (List.replicate 15 0 ++ [2]) 58 12 ++
      (ChainAll.ex3_bytes.drop 66).take 12) = true := by decide

/-! #### 4. IP / UDP whose computed checksum is 0: 0xffff is transmitted -/

def exUdp0 : Transport.Udp := ⟨0, 0, 0, 0⟩
def ex5 : List AnyObj := [.ip (.ip ChainAll.exIp), .tr (.udp exUdp0), .raw [0xeb, 0xd7]]

theorem ex5_good : ∀ o ∈ ex5, registryPreds.Inv o ∧ registryPreds.Ser o := by
  intro o ho
  simp only [ex5, List.mem_cons, List.mem_nil_iff, or_false] at ho
  rcases ho with rfl | rfl | rfl
  · exact ⟨ChainAll.exIp_inv, (by decide : ChainAll.exIp.hdr ≤ 60)⟩
  · exact ⟨⟨by decide, by decide, by decide, by decide⟩, trivial⟩
  · exact ⟨trivial, trivial⟩

example : ∃ out, serializeObjs ex5 = .ok out ∧ (out.drop 20) = [0, 0, 0, 0, 0, 10, 0xff, 0xff, 0xeb, 0xd7] ∧
    Ck.Spec.ocSum (Ck.Spec.pseudo4 [10, 0, 0, 1] [10, 0, 0, 2] 17 10 ++ [0, 0, 0, 0, 0, 10, 0, 0, 0xeb, 0xd7]) = 0xffff ∧
    Ck.Spec.verifies (Ck.Spec.pseudo4 [10, 0, 0, 1] [10, 0, 0, 2] 17 10 ++ out.drop 20) = true :=
  ⟨_, rfl, rfl, by decide, by decide⟩

example : ∃ out dg seg, serializeObjs ex5 = .ok out ∧
    dg = (out.drop (layerOffset ex5 0)).take (ChainAll.exIp.hdr + (ctxAt ex5 0).innerSize) ∧ seg = dg.drop ChainAll.exIp.hdr ∧
    dg.length = ChainAll.exIp.hdr + (ctxAt ex5 0).innerSize ∧ Ck.Spec.verifies (dg.take ChainAll.exIp.hdr) = true ∧
    Cursor.beNat ((dg.drop 2).take 2) = dg.length ∧ Ip.byteAt dg 0 % 16 * 4 = ChainAll.exIp.hdr ∧ Ip.byteAt dg 9 = 17 ∧
    (dg.drop 12).take 8 = ChainAll.exIp.src ++ ChainAll.exIp.dst ∧
    Ck.Spec.verifies (Ck.Spec.pseudo4 ChainAll.exIp.src ChainAll.exIp.dst 17 seg.length ++ seg) = true ∧
    Cursor.beNat ((seg.drop 4).take 2) = seg.length ∧ ¬ (seg[6]? = some 0 ∧ seg[7]? = some 0) :=
  packet_ip_udp ex5 ex5_good 0 ChainAll.exIp exUdp0 rfl rfl (by decide)

/-! #### 5. IP / ICMP echo request / 4 bytes -/

theorem ex4_good : ∀ o ∈ ChainAll.ex4, registryPreds.Inv o ∧ registryPreds.Ser o := by
  intro o ho
  simp only [ChainAll.ex4, List.mem_cons, List.mem_nil_iff, or_false] at ho
  rcases ho with rfl | rfl | rfl
  · exact ⟨ChainAll.exIp_inv, (by decide : ChainAll.exIp.hdr ≤ 60)⟩
  · exact ⟨⟨rfl, rfl, rfl, rfl⟩, (by decide : ChainAll.exIcmp.ext.plainSize < 4294967296)⟩
  · exact ⟨trivial, trivial⟩

example : ∃ out dg msg, serializeObjs ChainAll.ex4 = .ok out ∧ dg = layerBytes ChainAll.ex4 0 (.ip (.ip ChainAll.exIp)) out ∧ msg = dg.drop ChainAll.exIp.hdr ∧
    dg.length = ChainAll.exIp.hdr + (ctxAt ChainAll.ex4 0).innerSize ∧ Ck.Spec.verifies (dg.take ChainAll.exIp.hdr) = true ∧
    Cursor.beNat ((dg.drop 2).take 2) = dg.length ∧ Ip.byteAt dg 9 = 1 ∧ Ck.Spec.verifies msg = true :=
  packet_ip_icmp ChainAll.ex4 ex4_good 0 ChainAll.exIp ChainAll.exIcmp rfl rfl (by decide)

example : Ck.Spec.verifies (ChainAll.ex4_bytes.take 20) = true ∧ Ck.Spec.verifies (ChainAll.ex4_bytes.drop 20) = true := by decide

end Tins.Wire.Derived
