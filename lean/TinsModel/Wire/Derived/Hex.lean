import TinsModel.Wire.Iface
/-
  The wire writers read their parent's addresses from the parent's getter dump (`Ctx`: `src_addr`, `dst_addr` as lowercase
  hex).  This file shows the dump is lossless: `parseHexStr (hexStr bs) = some bs` for every byte string — so what a
  transport layer's `write_serialization` sees of an `IP` / `IPv6` parent *is* the parent's address bytes.
-/
set_option autoImplicit false
namespace Tins.Wire.Derived
open Tins Tins.Wire

/-- the hex digit `hexStr` prints for a nibble -/
def hexCh (n : Nat) : Char := if n < 10 then Char.ofNat (48 + n) else Char.ofNat (87 + n)

def hexChars (bs : Bytes) : List Char := bs.foldr (fun b acc => hexCh (b.toNat / 16) :: hexCh (b.toNat % 16) :: acc) []

theorem hexStr_eq (bs : Bytes) : hexStr bs = if bs.isEmpty then "-" else String.ofList (hexChars bs) := rfl

theorem hexDigitVal_hexCh : ∀ n : Fin 16, hexDigitVal (hexCh n.val) = some n.val := by decide

theorem parseHexChars_hexChars (bs : Bytes) : parseHexChars (hexChars bs) = some bs := by
  induction bs with
  | nil => rfl
  | cons b r ih =>
    have hb := UInt8.toNat_lt b
    have h1 := hexDigitVal_hexCh ⟨b.toNat / 16, by omega⟩
    have h2 := hexDigitVal_hexCh ⟨b.toNat % 16, by omega⟩
    simp only at h1 h2
    have e : hexChars (b :: r) = hexCh (b.toNat / 16) :: hexCh (b.toNat % 16) :: hexChars r := rfl
    rw [e]
    simp only [parseHexChars, h1, h2, ih, bind, Option.bind, pure]
    have : b.toNat / 16 * 16 + b.toNat % 16 = b.toNat := by omega
    rw [this, UInt8.ofNat_toNat]

theorem hexChars_length (bs : Bytes) : (hexChars bs).length = 2 * bs.length := by
  induction bs with
  | nil => rfl
  | cons b r ih =>
    have e : hexChars (b :: r) = hexCh (b.toNat / 16) :: hexCh (b.toNat % 16) :: hexChars r := rfl
    rw [e]; simp only [List.length_cons, ih]; omega

/-- **the getter dump of a byte string is lossless** -/
theorem parseHexStr_hexStr (bs : Bytes) : parseHexStr (hexStr bs) = some bs := by
  rw [hexStr_eq]
  cases bs with
  | nil => rfl
  | cons b r =>
    simp only [List.isEmpty_cons, Bool.false_eq_true, if_false]
    unfold parseHexStr
    have hne : (String.ofList (hexChars (b :: r)) == "-") = false := by
      apply Bool.eq_false_iff.mpr
      intro h
      have h' : String.ofList (hexChars (b :: r)) = "-" := eq_of_beq h
      have := congrArg (fun s : String => s.toList.length) h'
      simp only [String.toList_ofList, hexChars_length, List.length_cons] at this
      have hl : ("-" : String).toList.length = 1 := by decide
      omega
    simp only [hne, Bool.false_eq_true, if_false, String.toList_ofList]
    exact parseHexChars_hexChars (b :: r)

example : parseHexStr (hexStr [10, 0, 0xab, 0xff]) = some [10, 0, 0xab, 0xff] := by decide

end Tins.Wire.Derived
