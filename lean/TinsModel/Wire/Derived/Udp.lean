import TinsModel.Wire.Derived.Bridge
import TinsModel.Wire.Transport.ThUdp
/-
  Property C05 over the wire model of `UDP::write_serialization` (`Wire/Transport/Udp.lean`): the checksum it stores
  verifies under RFC 768 / RFC 8200 over the RFC pseudo header built from the parent's addresses, a computed 0 is sent as
  0xffff, no checksum is written without an IP / IPv6 parent, and the length field is the datagram's length.
-/
set_option autoImplicit false
namespace Tins.Wire.Derived
open Tins Tins.Wire Tins.Wire.Transport

/-- the region after `stream.write(header_)`: header with the derived length and a zero checksum, the payload as the
    inner layers left it -/
def udpZeroed (cx : Ctx) (u : Udp) (region : Bytes) : Bytes :=
  ({ u with check := 0, len := (8 + cx.innerSize) % 65536 } : Udp).headerBytes ++ region.drop 8

/-- sharp closed form of `UDP::write_serialization` (the checksum value is kept, unlike in `udp_write_eq`) -/
theorem udp_write_sharp (cx : Ctx) (u : Udp) (region : Bytes) (hr : 8 ≤ region.length) :
    u.write cx region =
      match Udp.pseudoOf cx (8 + cx.innerSize) with
      | none => .ok (udpZeroed cx u region)
      | some ps =>
        poke "UDP::write_serialization check" (udpZeroed cx u region) 6
          (le16 (if not16 (fold16 ((ps + sumRange (udpZeroed cx u region)) % 4294967296)) = 0 then 65535
            else not16 (fold16 ((ps + sumRange (udpZeroed cx u region)) % 4294967296)))) := by
  have hlen : ({ u with check := 0, len := (8 + cx.innerSize) % 65536 } : Udp).headerBytes.length = 8 :=
    udp_headerBytes_length _
  have hw := writeAtStart_eq region _ (by rw [hlen]; exact hr)
  simp only [Udp.write, hw, bind, Out.bind, hlen, Udp.pseudoOf, udpZeroed]
  rfl

theorem udp_pseudoOf_ip4 (cx : Ctx) (s d : Bytes) (size : Nat) (hp : ParentIp4 cx s d) :
    Udp.pseudoOf cx size = some (pseudo4 s d (size % 65536) 17) := by
  rcases hp with ⟨p, h1, h2, h3, h4⟩
  simp [Udp.pseudoOf, h1, h2, h3, h4]

theorem udp_pseudoOf_ip6 (cx : Ctx) (s d : Bytes) (size : Nat) (hp : ParentIp6 cx s d) :
    Udp.pseudoOf cx size = some (pseudo6 s d (size % 65536) 17) := by
  rcases hp with ⟨p, h1, h2, h3, h4⟩
  have hne : ("IPv6" == "IP") = false := by decide
  simp [Udp.pseudoOf, h1, h2, h3, h4, hne]

theorem udp_pseudoOf_none (cx : Ctx) (size : Nat) (hp : NoIpParent cx) : Udp.pseudoOf cx size = none := by
  unfold Udp.pseudoOf
  cases h : cx.parents.head? with
  | none => rfl
  | some p =>
    have := hp p h
    simp [this.1, this.2]

theorem udpZeroed_length (cx : Ctx) (u : Udp) (region : Bytes) (hr : 8 ≤ region.length) :
    (udpZeroed cx u region).length = region.length := by
  simp only [udpZeroed, List.length_append, udp_headerBytes_length, List.length_drop]; omega

/-- the checksum field is zero while the sum is computed (`header_.check = 0`) -/
theorem udpZeroed_check (cx : Ctx) (u : Udp) (region : Bytes) :
    (udpZeroed cx u region)[6]? = some 0 ∧ (udpZeroed cx u region)[6 + 1]? = some 0 := by
  simp [udpZeroed, Udp.headerBytes, OutCursor.beBytes]

theorem udpZeroed_drop (cx : Ctx) (u : Udp) (region : Bytes) : (udpZeroed cx u region).drop 8 = region.drop 8 :=
  drop_append_len _ _ 8 (udp_headerBytes_length _)

/-- **UDP over IPv4, in situ** (RFC 768).  Directly inside an `IP` whose address getters print `s` / `d`, on the region
    `PDU::serialize` hands out (header + inner chain, at most 65535 bytes), `write_serialization` succeeds, keeps the
    payload, and the RFC 1071 sum over the RFC pseudo header (source, destination, zero, 17, UDP length) followed by the
    bytes it leaves in the region is 0xffff. -/
theorem wire_udp_checksum_verifies_ip4 (cx : Ctx) (u : Udp) (region s d : Bytes) (hp : ParentIp4 cx s d)
    (hs : s.length = 4) (hd : d.length = 4) (hreg : region.length = 8 + cx.innerSize) (h16 : region.length ≤ 65535) :
    ∃ out, u.write cx region = .ok out ∧ out.length = region.length ∧ out.drop 8 = region.drop 8 ∧
      Ck.Spec.verifies (Ck.Spec.pseudo4 s d 17 out.length ++ out) = true := by
  have hr : 8 ≤ region.length := by omega
  have hzl := udpZeroed_length cx u region hr
  have hm : (8 + cx.innerSize) % 65536 = (udpZeroed cx u region).length := by rw [hzl, hreg]; omega
  rcases pseudo4_stands_for s d 17 (udpZeroed cx u region).length hs hd (by omega) (by omega) with ⟨a1, a2, a3, a4⟩
  rcases store_verifies_udp "UDP::write_serialization check" _ (udpZeroed cx u region) _ 6 a1 a2 a3 a4 (by omega) (by omega)
    (udpZeroed_check cx u region).1 (udpZeroed_check cx u region).2 with ⟨v, _, _, hw, hv⟩
  refine ⟨Ck.poke16 (udpZeroed cx u region) 6 v, ?_, ?_, ?_, ?_⟩
  · rw [udp_write_sharp cx u region hr, udp_pseudoOf_ip4 cx s d _ hp, hm]; exact hw
  · rw [length_poke16, hzl]
  · rw [drop_poke16 _ _ _ _ (by omega), udpZeroed_drop]
  · rw [length_poke16]; exact hv

/-- **UDP over IPv6, in situ** (RFC 8200 §8.1: 32-bit upper-layer length, three zero bytes, next header 17). -/
theorem wire_udp_checksum_verifies_ip6 (cx : Ctx) (u : Udp) (region s d : Bytes) (hp : ParentIp6 cx s d)
    (hs : s.length = 16) (hd : d.length = 16) (hreg : region.length = 8 + cx.innerSize) (h16 : region.length ≤ 65535) :
    ∃ out, u.write cx region = .ok out ∧ out.length = region.length ∧ out.drop 8 = region.drop 8 ∧
      Ck.Spec.verifies (Ck.Spec.pseudo6 s d 17 out.length ++ out) = true := by
  have hr : 8 ≤ region.length := by omega
  have hzl := udpZeroed_length cx u region hr
  have hm : (8 + cx.innerSize) % 65536 = (udpZeroed cx u region).length := by rw [hzl, hreg]; omega
  rcases pseudo6_stands_for s d 17 (udpZeroed cx u region).length hs hd (by omega) (by omega) with ⟨a1, a2, a3, a4⟩
  rcases store_verifies_udp "UDP::write_serialization check" _ (udpZeroed cx u region) _ 6 a1 a2 a3 a4 (by omega) (by omega)
    (udpZeroed_check cx u region).1 (udpZeroed_check cx u region).2 with ⟨v, _, _, hw, hv⟩
  refine ⟨Ck.poke16 (udpZeroed cx u region) 6 v, ?_, ?_, ?_, ?_⟩
  · rw [udp_write_sharp cx u region hr, udp_pseudoOf_ip6 cx s d _ hp, hm]; exact hw
  · rw [length_poke16, hzl]
  · rw [drop_poke16 _ _ _ _ (by omega), udpZeroed_drop]
  · rw [length_poke16]; exact hv

theorem poke16_nonzero (buf : Bytes) (off v : Nat) (h : off + 2 ≤ buf.length) (h1 : 1 ≤ v) (h2 : v ≤ 65535) :
    ¬ ((Ck.poke16 buf off v)[off]? = some 0 ∧ (Ck.poke16 buf off v)[off + 1]? = some 0) := by
  unfold Ck.poke16
  rw [List.getElem?_set_ne (by omega), List.getElem?_set_self (by omega), List.getElem?_set_self (by simp; omega)]
  intro ⟨e1, e2⟩
  have t1 := congrArg UInt8.toNat (Option.some.inj e1)
  have t2 := congrArg UInt8.toNat (Option.some.inj e2)
  rw [Ck.toNat_ofNat_lt _ (by omega)] at t1 t2
  have z : UInt8.toNat 0 = 0 := rfl
  omega

/-- **UDP: a computed 0 is transmitted as 0xffff.**  Under an IP or IPv6 parent (addresses of any length the getters
    print) the two checksum bytes `write_serialization` leaves in the region are never both zero — "no checksum" in
    RFC 768 — whatever the datagram, whatever its length. -/
theorem wire_udp_zero (cx : Ctx) (u : Udp) (region s d : Bytes) (hp : ParentIp4 cx s d ∨ ParentIp6 cx s d)
    (hr : 8 ≤ region.length) (out : Bytes) (hw : u.write cx region = .ok out) :
    ¬ (out[6]? = some 0 ∧ out[7]? = some 0) := by
  rw [udp_write_sharp cx u region hr] at hw
  have hzl := udpZeroed_length cx u region hr
  have key : ∀ ps, poke "UDP::write_serialization check" (udpZeroed cx u region) 6
      (le16 (if not16 (fold16 ((ps + sumRange (udpZeroed cx u region)) % 4294967296)) = 0 then 65535
        else not16 (fold16 ((ps + sumRange (udpZeroed cx u region)) % 4294967296)))) = .ok out →
      ¬ (out[6]? = some 0 ∧ out[7]? = some 0) := by
    intro ps h
    rw [poke_le16 _ _ _ _ (by omega)] at h
    injection h with h; subst h
    apply poke16_nonzero _ 6 _ (by omega)
    · unfold not16; split <;> omega
    · unfold not16; split <;> omega
  rcases hp with hp | hp
  · rw [udp_pseudoOf_ip4 cx s d _ hp] at hw; exact key _ hw
  · rw [udp_pseudoOf_ip6 cx s d _ hp] at hw; exact key _ hw

/-- **without an IP / IPv6 parent no checksum is written**: the checksum bytes stay zero, the rest of the header is the
    same (`tins_cast<const IP*>(parent_pdu())` and `tins_cast<const IPv6*>` both fail) -/
theorem wire_udp_no_parent (cx : Ctx) (u : Udp) (region : Bytes) (hp : NoIpParent cx) (hr : 8 ≤ region.length) :
    u.write cx region = .ok (udpZeroed cx u region) ∧
      (udpZeroed cx u region)[6]? = some 0 ∧ (udpZeroed cx u region)[7]? = some 0 := by
  rw [udp_write_sharp cx u region hr, udp_pseudoOf_none cx _ hp]
  exact ⟨rfl, udpZeroed_check cx u region⟩

/-- **UDP length field**: bytes 4..5 of what `write_serialization` leaves in its region are the big-endian length of the
    datagram (header + inner chain), in every context, whenever that fits 16 bits -/
theorem wire_udp_length (cx : Ctx) (u : Udp) (region : Bytes) (hreg : region.length = 8 + cx.innerSize)
    (h16 : region.length ≤ 65535) :
    ∃ out, u.write cx region = .ok out ∧ Cursor.beNat ((out.drop 4).take 2) = out.length := by
  have hr : 8 ≤ region.length := by omega
  rcases udp_reparse_len cx u region hr with ⟨out, hw, hl, hf⟩
  exact ⟨out, hw, by rw [hf, hl, hreg]; omega⟩
where
  udp_reparse_len (cx : Ctx) (u : Udp) (region : Bytes) (hr : 8 ≤ region.length) :
      ∃ out, u.write cx region = .ok out ∧ out.length = region.length ∧
        Cursor.beNat ((out.drop 4).take 2) = (8 + cx.innerSize) % 65536 := by
    rcases udp_write_eq cx u region hr with ⟨c, _, hw⟩
    refine ⟨_, hw, ?_, ?_⟩
    · simp only [List.length_append, udp_headerBytes_length, List.length_drop]; omega
    · have e : (({ u with len := (8 + cx.innerSize) % 65536, check := c } : Udp).headerBytes ++ region.drop 8) =
          (OutCursor.beBytes 2 u.sport ++ OutCursor.beBytes 2 u.dport) ++ (OutCursor.beBytes 2 ((8 + cx.innerSize) % 65536) ++
            (OutCursor.beBytes 2 c ++ region.drop 8)) := by
        simp [Udp.headerBytes, List.append_assoc]
      rw [e, drop_append_len _ _ 4 (by simp), take_append_len _ _ 2 (by simp), beNat_beBytes]
      exact Nat.mod_eq_of_lt (by omega)

/-! ### non-vacuity: concrete contexts -/

/-- the context of a UDP directly inside an IP 10.0.0.1 → 10.0.0.2 carrying `n` payload bytes -/
def exCtx4 (n : Nat) : Ctx :=
  ⟨[⟨"IP", [("src_addr", "0a000001"), ("dst_addr", "0a000002")], 20, 0⟩], [⟨"RawPDU", [], n, 0⟩]⟩

example : ParentIp4 (exCtx4 3) [10, 0, 0, 1] [10, 0, 0, 2] := ⟨_, rfl, rfl, by decide, by decide⟩

/-- odd payload length: the written datagram verifies (evaluated), as the theorem says -/
example : ∃ out, (Udp.create 53 4000).write (exCtx4 3) (List.replicate 8 0 ++ [1, 2, 3]) = .ok out ∧
    Ck.Spec.verifies (Ck.Spec.pseudo4 [10, 0, 0, 1] [10, 0, 0, 2] 17 11 ++ out) = true := ⟨_, rfl, by decide⟩

/-- a datagram whose computed checksum is 0: 0xffff is stored -/
example : ∃ out, (Udp.create 0 0).write (exCtx4 2) (List.replicate 8 0 ++ [0xeb, 0xd7]) = .ok out ∧
    out[6]? = some 0xff ∧ out[7]? = some 0xff ∧
    Ck.Spec.verifies (Ck.Spec.pseudo4 [10, 0, 0, 1] [10, 0, 0, 2] 17 10 ++ out) = true := ⟨_, rfl, rfl, rfl, by decide⟩

example : NoIpParent ⟨[⟨"EthernetII", [], 14, 0⟩], []⟩ := by
  intro p h; injection h with h; subst h; exact ⟨by decide, by decide⟩

end Tins.Wire.Derived
