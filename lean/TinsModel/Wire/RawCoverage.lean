import Lean.Elab.Term
import TinsModel.Gen.RawSites
/-
  Property C01 — raw-site coverage (the tie DESIGN.md §3 planned as `Gen/RawSites.lean`).

  The C01 theorems (`Props.C01.parse_any_safe`, `wire_modelled_safe`, …) are about hand-written Lean models in which every RAW memory
  access of the C++ (`*ptr`, `ptr[i]`, `p->f` through a cast pointer, `memcpy` / `std::copy` / container constructors with pointer
  operands, pointer arithmetic) is a fault-explicit read (`rd` / `rdN` / `Cursor.peek` / `Cursor.rest`), while accesses through
  `InputMemoryStream` are `Cursor` operations.  A raw access ADDED to a parser does not change those models.  It does change
  `TinsModel/Gen/RawSites.lean`, which translator/gen_rawsites.py regenerates on every run from the clang AST of every translation
  unit: one row per raw site in a function on the parse path, keyed by *function | kind | normalised expression text [| xN]*
  (no line numbers), plus one `Guard` row per condition of such a function.

  This file is the HAND-MAINTAINED disposition of every site of the current tree:

    * `modelled model site thm guards`   the Lean function `model` mirrors the access with a fault-explicit read whose site string is
                                         `site` ("" when the model has no read there: pure pointer arithmetic, or the Dns models whose
                                         `rd` carries no site string), and theorem `thm` shows for ALL inputs that it never faults;
    * `argued why guards`                no read of the model corresponds to it, and `why` says why it cannot leave the buffer
                                         (own object, caller's obligation recorded at the caller's row, …) — an argument, not a theorem;
    * `unmodelled why`                   the access reads wire bytes and the Lean side has NO fault-explicit mirror of it (typically: the
                                         model of a typed option decoder is a total function over a byte list where the C++ walks a raw
                                         pointer).  Correspondence under the sanitizers only.  Counted in the evidence
                                         (`raw_sites_unmodelled`).  (The typed decoders that walk a raw pointer have such mirrors
                                         since TinsModel/Wire/Raw/*.lean: `raw decoder = total decoder` for all byte strings.)
    `guards` cites the conditions of the same function the disposition relies on, as keys of `Gen.RawSites.guards`.

  Three kinds of sites are handled by RULE, because the translator establishes the relevant fact syntactically:
    * `forward`     the call hands on the function's own (pointer, size) parameter pair, neither of which the function ever modifies;
    * `streamRest`  the call hands on `(S.pointer(), S.size())` of one `InputMemoryStream S` — inside the buffer by the stream
                    invariant `size ≤ mem.length` (`Props.C01.cursor_safe`); the models read it with `Cursor.rest`;
    * `optionData`  the call hands on `(O.data_ptr(), O.data_size())` of one `PDUOption O` — the option's own copy of exactly
                    `data_size()` bytes (`PDUOption::set_payload_contents`).

  Theorems (all by `decide +kernel` over the generated tables; rows are looked up by `keyNat`, the key's UTF-8 bytes as one number,
  because the kernel compares strings slowly):
    * `rawSites_covered`  every site of the current tree has a disposition: a raw access added to (or edited in) a function on the
                          parse path has none, and the check reports `raw-site coverage: new raw memory access without a model`;
    * `guards_present`    every guard a disposition cites is still a condition of that function: removing or editing a bounds check
                          the safety argument relies on is reported as well;
    * `scan_complete`     clang parsed every translation unit and found a definition for every entry point.
  A `#eval` at the end makes Lean itself name the offending rows.  `Audit/C01Raw.lean` checks that every model / theorem named here
  exists, and prints the table for checks/C01.py (which also checks that every `site` string is one a model really reads at).
-/
namespace Tins.Wire.RawCoverage
open Tins.Gen.RawSites

structure Key where
  n : Nat
  s : String
deriving Repr

def natOfString (s : String) : Nat := s.toUTF8.foldl (fun acc b => acc * 256 + b.toNat) 0

-- `rk% "…"`: the key text together with its number, computed when this file is elaborated
open Lean Elab Term in
elab "rk%" s:str : term => do
  let str := s.getString
  return mkApp2 (mkConst ``Key.mk) (mkNatLit (natOfString str)) (mkStrLit str)

inductive Disposition
  | modelled (model site thm : String) (guards : List Key)
  | argued (why : String) (guards : List Key)
  | unmodelled (why : String)
deriving Repr

def Disposition.tag : Disposition → String
  | .modelled .. => "modelled"
  | .argued .. => "argued"
  | .unmodelled .. => "unmodelled"

def Disposition.guards : Disposition → List Key
  | .modelled _ _ _ g => g
  | .argued _ g => g
  | .unmodelled _ => []

def Disposition.text : Disposition → String
  | .modelled m s t _ => s!"model {m}; site \"{s}\"; theorem {t}"
  | .argued w _ => w
  | .unmodelled w => w

/-! ### the table (sorted by function; `python3 translator/gen_rawsites.py --skeleton` prints the rows that are missing) -/

def table : List (Key × Disposition) := [
  -- DHCP::DHCP(const uint8_t *, uint32_t)
  (rk% "DHCP::DHCP(const uint8_t *, uint32_t) | ptrPass | option(option_type, option_length, stream.pointer())",
    .modelled "Tins.Wire.App.Dhcp.parseOpts" "DHCP::DHCP option payload" "Tins.Wire.App.dhcp_parse_safe" [rk% "DHCP::DHCP(const uint8_t *, uint32_t) | guard | !stream.can_read(option_length)"]),
  -- DHCPv6::DHCPv6(const uint8_t *, uint32_t)
  (rk% "DHCPv6::DHCPv6(const uint8_t *, uint32_t) | deref | *stream.pointer()",
    .modelled "Tins.Wire.App.Dhcpv6.parse" "DHCPv6::DHCPv6 *stream.pointer()" "Tins.Wire.App.dhcpv6_parse_safe" [rk% "DHCPv6::DHCPv6(const uint8_t *, uint32_t) | guard | !stream"]),
  (rk% "DHCPv6::DHCPv6(const uint8_t *, uint32_t) | ptrPass | option(opt, stream.pointer(), stream.pointer() + data_size)",
    .modelled "Tins.Wire.App.Dhcpv6.parseOpts" "DHCPv6::DHCPv6 option payload" "Tins.Wire.App.dhcpv6_parse_safe" [rk% "DHCPv6::DHCPv6(const uint8_t *, uint32_t) | guard | !stream.can_read(data_size)"]),
  (rk% "DHCPv6::DHCPv6(const uint8_t *, uint32_t) | ptrPass | stream.read(&header_data_, required_size)",
    .modelled "Tins.Wire.App.Dhcpv6.parse (`c.read required`, required ∈ {2, 4}; the destination header_data_ is the object's own uint8_t[4])" "InputMemoryStream::read" "Tins.Wire.App.dhcpv6_parse_safe" []),
  -- DHCPv6::duid_type::from_option(const Tins::DHCPv6::option &)
  (rk% "DHCPv6::duid_type::from_option(const Tins::DHCPv6::option &) | externCall | serialization_type(stream.pointer(), stream.pointer() + stream.size())",
    .argued "copies [pointer(), pointer() + size()): the rest of the stream, inside the option data by the stream invariant (Props.C01.cursor_safe); the Lean decoder (Wire/App/Dhcpv6.lean) is total" [rk% "DHCPv6::duid_type::from_option(const Tins::DHCPv6::option &) | guard | opt.data_size() < sizeof(uint16_t) + 1"]),
  -- DHCPv6::msg_type()
  (rk% "DHCPv6::msg_type() | arraySubscript | header_data_[0]",
    .argued "constant index 0 into the object's own uint8_t[4]" []),
  -- DHCPv6::status_code_type::from_option(const Tins::DHCPv6::option &)
  (rk% "DHCPv6::status_code_type::from_option(const Tins::DHCPv6::option &) | externCall | output.message.assign(stream.pointer(), stream.pointer() + stream.size())",
    .argued "assigns [pointer(), pointer() + size()): the rest of the stream, inside the option data by the stream invariant (Props.C01.cursor_safe); the Lean decoder (Wire/App/Dhcpv6.lean) is total" [rk% "DHCPv6::status_code_type::from_option(const Tins::DHCPv6::option &) | guard | opt.data_size() < sizeof(uint16_t)"]),
  -- DNS::decode_domain_name(const std::string &)
  (rk% "DNS::decode_domain_name(const std::string &) | castPtr | (const uint8_t*)&domain_name[0]",
    .modelled "Tins.Dns.decodeDomainName / decodeGo (every *ptr, ptr + size over the string's memory `dn ++ [0]` is an rd / rdN)" "" "Tins.Props.C10.soa_init_safe" [rk% "DNS::decode_domain_name(const std::string &) | guard | domain_name.empty()", rk% "DNS::decode_domain_name(const std::string &) | guard | ptr + size > end"]),
  (rk% "DNS::decode_domain_name(const std::string &) | deref | *ptr | x3",
    .modelled "Tins.Dns.decodeDomainName / decodeGo (every *ptr, ptr + size over the string's memory `dn ++ [0]` is an rd / rdN)" "" "Tins.Props.C10.soa_init_safe" [rk% "DNS::decode_domain_name(const std::string &) | guard | domain_name.empty()", rk% "DNS::decode_domain_name(const std::string &) | guard | ptr + size > end"]),
  (rk% "DNS::decode_domain_name(const std::string &) | externCall | output.insert(output.end(), ptr, ptr + size)",
    .modelled "Tins.Dns.decodeDomainName / decodeGo (every *ptr, ptr + size over the string's memory `dn ++ [0]` is an rd / rdN)" "" "Tins.Props.C10.soa_init_safe" [rk% "DNS::decode_domain_name(const std::string &) | guard | domain_name.empty()", rk% "DNS::decode_domain_name(const std::string &) | guard | ptr + size > end"]),
  (rk% "DNS::decode_domain_name(const std::string &) | ptrArith | ptr + domain_name.size()",
    .modelled "Tins.Dns.decodeDomainName / decodeGo (every *ptr, ptr + size over the string's memory `dn ++ [0]` is an rd / rdN)" "" "Tins.Props.C10.soa_init_safe" [rk% "DNS::decode_domain_name(const std::string &) | guard | domain_name.empty()", rk% "DNS::decode_domain_name(const std::string &) | guard | ptr + size > end"]),
  (rk% "DNS::decode_domain_name(const std::string &) | ptrArith | ptr + size",
    .modelled "Tins.Dns.decodeDomainName / decodeGo (every *ptr, ptr + size over the string's memory `dn ++ [0]` is an rd / rdN)" "" "Tins.Props.C10.soa_init_safe" [rk% "DNS::decode_domain_name(const std::string &) | guard | domain_name.empty()", rk% "DNS::decode_domain_name(const std::string &) | guard | ptr + size > end"]),
  (rk% "DNS::decode_domain_name(const std::string &) | ptrArith | ptr += size",
    .modelled "Tins.Dns.decodeDomainName / decodeGo (every *ptr, ptr + size over the string's memory `dn ++ [0]` is an rd / rdN)" "" "Tins.Props.C10.soa_init_safe" [rk% "DNS::decode_domain_name(const std::string &) | guard | domain_name.empty()", rk% "DNS::decode_domain_name(const std::string &) | guard | ptr + size > end"]),
  (rk% "DNS::decode_domain_name(const std::string &) | ptrArith | ptr++",
    .modelled "Tins.Dns.decodeDomainName / decodeGo (every *ptr, ptr + size over the string's memory `dn ++ [0]` is an rd / rdN)" "" "Tins.Props.C10.soa_init_safe" [rk% "DNS::decode_domain_name(const std::string &) | guard | domain_name.empty()", rk% "DNS::decode_domain_name(const std::string &) | guard | ptr + size > end"]),
  -- Dot11::add_tagged_option(Tins::Dot11::OptionTypes, uint8_t, const uint8_t *)
  (rk% "Dot11::add_tagged_option(Tins::Dot11::OptionTypes, uint8_t, const uint8_t *) | ptrPass | option((uint8_t)opt, val, val + len)",
    .modelled "Tins.Wire.Wifi.Dot11.taggedLoop (the `peek` of `len` bytes is this range [val, val + len); on the parse path the only caller is parse_tagged_parameters after can_read(length))" "Dot11::add_tagged_option" "Tins.Wire.Wifi.Dot11.dot11_parse_safe" []),
  -- Dot11::from_bytes(const uint8_t *, uint32_t)
  (rk% "Dot11::from_bytes(const uint8_t *, uint32_t) | arrow | hdr->control | x6",
    .modelled "Tins.Wire.Wifi.Dot11.fromBytes" "Dot11::from_bytes hdr->control" "Tins.Wire.Wifi.Dot11.dot11_fromBytes_safe" [rk% "Dot11::from_bytes(const uint8_t *, uint32_t) | guard | total_sz < 2"]),
  (rk% "Dot11::from_bytes(const uint8_t *, uint32_t) | castToStruct | (const dot11_header*)buffer",
    .modelled "Tins.Wire.Wifi.Dot11.fromBytes" "Dot11::from_bytes hdr->control" "Tins.Wire.Wifi.Dot11.dot11_fromBytes_safe" [rk% "Dot11::from_bytes(const uint8_t *, uint32_t) | guard | total_sz < 2"]),
  -- Dot11::parse_tagged_parameters(Memory::InputMemoryStream &)
  (rk% "Dot11::parse_tagged_parameters(Memory::InputMemoryStream &) | ptrPass | add_tagged_option(opcode, length, stream.pointer())",
    .modelled "Tins.Wire.Wifi.Dot11.taggedLoop" "Dot11::add_tagged_option" "Tins.Wire.Wifi.Dot11.dot11_parse_safe" [rk% "Dot11::parse_tagged_parameters(Memory::InputMemoryStream &) | guard | !stream.can_read(length)"]),
  -- Dot11ManagementFrame::channel_switch_type::from_option(const Tins::Dot11::option &)
  (rk% "Dot11ManagementFrame::channel_switch_type::from_option(const Tins::Dot11::option &) | deref | *(ptr++) | x3",
    .modelled "Tins.Wire.Raw.Wifi.channelSwitch" "channel_switch_type::from_option *(ptr++)" "Tins.Wire.Raw.Wifi.channelSwitch_eq (= Tagged.decodeChannelSwitch, which harness/wire_wifi.h compares with the typed getter; Props.C01.raw_decoders_safe_wifi)" [rk% "Dot11ManagementFrame::channel_switch_type::from_option(const Tins::Dot11::option &) | guard | opt.data_size() != sizeof(uint8_t) * 3"]),
  -- Dot11ManagementFrame::country_params::from_option(const Tins::Dot11::option &)
  (rk% "Dot11ManagementFrame::country_params::from_option(const Tins::Dot11::option &) | deref | *(ptr++) | x3",
    .modelled "Tins.Wire.Raw.Wifi.countryLoop" "country_params::from_option *(ptr++)" "Tins.Wire.Raw.Wifi.country_eq (= Tagged.decodeCountry, which harness/wire_wifi.h compares with the typed getter; Props.C01.raw_decoders_safe_wifi)" [rk% "Dot11ManagementFrame::country_params::from_option(const Tins::Dot11::option &) | guard | opt.data_size() < country_params::minimum_size", rk% "Dot11ManagementFrame::country_params::from_option(const Tins::Dot11::option &) | guard | end - ptr >= 3", rk% "Dot11ManagementFrame::country_params::from_option(const Tins::Dot11::option &) | guard | ptr != end && !only_padding_left"]),
  (rk% "Dot11ManagementFrame::country_params::from_option(const Tins::Dot11::option &) | ptrArith | ptr + opt.data_size()",
    .modelled "Tins.Wire.Raw.Wifi.country (ptr, end as offsets)" "" "Tins.Wire.Raw.Wifi.country_eq (= Tagged.decodeCountry, which harness/wire_wifi.h compares with the typed getter; Props.C01.raw_decoders_safe_wifi)" [rk% "Dot11ManagementFrame::country_params::from_option(const Tins::Dot11::option &) | guard | opt.data_size() < country_params::minimum_size", rk% "Dot11ManagementFrame::country_params::from_option(const Tins::Dot11::option &) | guard | end - ptr >= 3", rk% "Dot11ManagementFrame::country_params::from_option(const Tins::Dot11::option &) | guard | ptr != end && !only_padding_left"]),
  (rk% "Dot11ManagementFrame::country_params::from_option(const Tins::Dot11::option &) | ptrArith | ptr += output.country.size()",
    .modelled "Tins.Wire.Raw.Wifi.country (ptr, end as offsets)" "" "Tins.Wire.Raw.Wifi.country_eq (= Tagged.decodeCountry, which harness/wire_wifi.h compares with the typed getter; Props.C01.raw_decoders_safe_wifi)" [rk% "Dot11ManagementFrame::country_params::from_option(const Tins::Dot11::option &) | guard | opt.data_size() < country_params::minimum_size", rk% "Dot11ManagementFrame::country_params::from_option(const Tins::Dot11::option &) | guard | end - ptr >= 3", rk% "Dot11ManagementFrame::country_params::from_option(const Tins::Dot11::option &) | guard | ptr != end && !only_padding_left"]),
  (rk% "Dot11ManagementFrame::country_params::from_option(const Tins::Dot11::option &) | stdCopy | copy(ptr, ptr + 3, back_inserter(output.country))",
    .modelled "Tins.Wire.Raw.Wifi.country" "country_params::from_option copy(ptr, ptr + 3, back_inserter(output.country))" "Tins.Wire.Raw.Wifi.country_eq (= Tagged.decodeCountry, which harness/wire_wifi.h compares with the typed getter; Props.C01.raw_decoders_safe_wifi)" [rk% "Dot11ManagementFrame::country_params::from_option(const Tins::Dot11::option &) | guard | opt.data_size() < country_params::minimum_size", rk% "Dot11ManagementFrame::country_params::from_option(const Tins::Dot11::option &) | guard | end - ptr >= 3", rk% "Dot11ManagementFrame::country_params::from_option(const Tins::Dot11::option &) | guard | ptr != end && !only_padding_left"]),
  -- Dot11ManagementFrame::fh_pattern_type::from_option(const Tins::Dot11::option &)
  (rk% "Dot11ManagementFrame::fh_pattern_type::from_option(const Tins::Dot11::option &) | deref | *(ptr++) | x4",
    .modelled "Tins.Wire.Raw.Wifi.fhPattern" "fh_pattern_type::from_option *(ptr++)" "Tins.Wire.Raw.Wifi.fhPattern_eq (= Tagged.decodeFhPattern, which harness/wire_wifi.h compares with the typed getter; Props.C01.raw_decoders_safe_wifi)" [rk% "Dot11ManagementFrame::fh_pattern_type::from_option(const Tins::Dot11::option &) | guard | opt.data_size() < fh_pattern_type::minimum_size"]),
  (rk% "Dot11ManagementFrame::fh_pattern_type::from_option(const Tins::Dot11::option &) | externCall | output.random_table.assign(ptr, end)",
    .modelled "Tins.Wire.Raw.Wifi.fhPattern" "fh_pattern_type::from_option random_table.assign(ptr, end)" "Tins.Wire.Raw.Wifi.fhPattern_eq (= Tagged.decodeFhPattern, which harness/wire_wifi.h compares with the typed getter; Props.C01.raw_decoders_safe_wifi)" [rk% "Dot11ManagementFrame::fh_pattern_type::from_option(const Tins::Dot11::option &) | guard | opt.data_size() < fh_pattern_type::minimum_size"]),
  (rk% "Dot11ManagementFrame::fh_pattern_type::from_option(const Tins::Dot11::option &) | ptrArith | ptr + opt.data_size()",
    .modelled "Tins.Wire.Raw.Wifi.fhPattern (end as an offset)" "" "Tins.Wire.Raw.Wifi.fhPattern_eq (= Tagged.decodeFhPattern, which harness/wire_wifi.h compares with the typed getter; Props.C01.raw_decoders_safe_wifi)" [rk% "Dot11ManagementFrame::fh_pattern_type::from_option(const Tins::Dot11::option &) | guard | opt.data_size() < fh_pattern_type::minimum_size"]),
  -- Dot11ManagementFrame::ibss_dfs_params::from_option(const Tins::Dot11::option &)
  (rk% "Dot11ManagementFrame::ibss_dfs_params::from_option(const Tins::Dot11::option &) | deref | *(ptr++) | x3",
    .modelled "Tins.Wire.Raw.Wifi.ibssDfs / dfsLoop" "ibss_dfs_params::from_option *(ptr++)" "Tins.Wire.Raw.Wifi.ibssDfs_eq (= Tagged.decodeIbssDfs, which harness/wire_wifi.h compares with the typed getter; Props.C01.raw_decoders_safe_wifi)" [rk% "Dot11ManagementFrame::ibss_dfs_params::from_option(const Tins::Dot11::option &) | guard | opt.data_size() < ibss_dfs_params::minimum_size", rk% "Dot11ManagementFrame::ibss_dfs_params::from_option(const Tins::Dot11::option &) | guard | ptr != end", rk% "Dot11ManagementFrame::ibss_dfs_params::from_option(const Tins::Dot11::option &) | guard | ptr == end"]),
  (rk% "Dot11ManagementFrame::ibss_dfs_params::from_option(const Tins::Dot11::option &) | ptrArith | ptr + opt.data_size()",
    .modelled "Tins.Wire.Raw.Wifi.ibssDfs (ptr, end as offsets)" "" "Tins.Wire.Raw.Wifi.ibssDfs_eq (= Tagged.decodeIbssDfs, which harness/wire_wifi.h compares with the typed getter; Props.C01.raw_decoders_safe_wifi)" [rk% "Dot11ManagementFrame::ibss_dfs_params::from_option(const Tins::Dot11::option &) | guard | opt.data_size() < ibss_dfs_params::minimum_size", rk% "Dot11ManagementFrame::ibss_dfs_params::from_option(const Tins::Dot11::option &) | guard | ptr != end", rk% "Dot11ManagementFrame::ibss_dfs_params::from_option(const Tins::Dot11::option &) | guard | ptr == end"]),
  (rk% "Dot11ManagementFrame::ibss_dfs_params::from_option(const Tins::Dot11::option &) | ptrArith | ptr += output.dfs_owner.size()",
    .modelled "Tins.Wire.Raw.Wifi.ibssDfs (ptr, end as offsets)" "" "Tins.Wire.Raw.Wifi.ibssDfs_eq (= Tagged.decodeIbssDfs, which harness/wire_wifi.h compares with the typed getter; Props.C01.raw_decoders_safe_wifi)" [rk% "Dot11ManagementFrame::ibss_dfs_params::from_option(const Tins::Dot11::option &) | guard | opt.data_size() < ibss_dfs_params::minimum_size", rk% "Dot11ManagementFrame::ibss_dfs_params::from_option(const Tins::Dot11::option &) | guard | ptr != end", rk% "Dot11ManagementFrame::ibss_dfs_params::from_option(const Tins::Dot11::option &) | guard | ptr == end"]),
  (rk% "Dot11ManagementFrame::ibss_dfs_params::from_option(const Tins::Dot11::option &) | ptrPass | ptr",
    .modelled "Tins.Wire.Raw.Wifi.ibssDfs" "ibss_dfs_params::from_option dfs_owner = ptr" "Tins.Wire.Raw.Wifi.ibssDfs_eq (= Tagged.decodeIbssDfs, which harness/wire_wifi.h compares with the typed getter; Props.C01.raw_decoders_safe_wifi)" [rk% "Dot11ManagementFrame::ibss_dfs_params::from_option(const Tins::Dot11::option &) | guard | opt.data_size() < ibss_dfs_params::minimum_size", rk% "Dot11ManagementFrame::ibss_dfs_params::from_option(const Tins::Dot11::option &) | guard | ptr != end", rk% "Dot11ManagementFrame::ibss_dfs_params::from_option(const Tins::Dot11::option &) | guard | ptr == end"]),
  -- Dot11ManagementFrame::tim_type::from_option(const Tins::Dot11::option &)
  (rk% "Dot11ManagementFrame::tim_type::from_option(const Tins::Dot11::option &) | deref | *(ptr++) | x3",
    .modelled "Tins.Wire.Raw.Wifi.tim" "tim_type::from_option *(ptr++)" "Tins.Wire.Raw.Wifi.tim_eq (= Tagged.decodeTim, which harness/wire_wifi.h compares with the typed getter; Props.C01.raw_decoders_safe_wifi)" [rk% "Dot11ManagementFrame::tim_type::from_option(const Tins::Dot11::option &) | guard | opt.data_size() < 4 * sizeof(uint8_t)"]),
  (rk% "Dot11ManagementFrame::tim_type::from_option(const Tins::Dot11::option &) | externCall | output.partial_virtual_bitmap.assign(ptr, end)",
    .modelled "Tins.Wire.Raw.Wifi.tim" "tim_type::from_option partial_virtual_bitmap.assign(ptr, end)" "Tins.Wire.Raw.Wifi.tim_eq (= Tagged.decodeTim, which harness/wire_wifi.h compares with the typed getter; Props.C01.raw_decoders_safe_wifi)" [rk% "Dot11ManagementFrame::tim_type::from_option(const Tins::Dot11::option &) | guard | opt.data_size() < 4 * sizeof(uint8_t)"]),
  (rk% "Dot11ManagementFrame::tim_type::from_option(const Tins::Dot11::option &) | ptrArith | ptr + opt.data_size()",
    .modelled "Tins.Wire.Raw.Wifi.tim (end as an offset)" "" "Tins.Wire.Raw.Wifi.tim_eq (= Tagged.decodeTim, which harness/wire_wifi.h compares with the typed getter; Props.C01.raw_decoders_safe_wifi)" [rk% "Dot11ManagementFrame::tim_type::from_option(const Tins::Dot11::option &) | guard | opt.data_size() < 4 * sizeof(uint8_t)"]),
  -- Dot11ManagementFrame::vendor_specific_type::from_bytes(const uint8_t *, uint32_t)
  (rk% "Dot11ManagementFrame::vendor_specific_type::from_bytes(const uint8_t *, uint32_t) | externCall | byte_array(buffer + 3, buffer + sz)",
    .modelled "Tins.Wire.Raw.Wifi.vendorFromBytes" "vendor_specific_type::from_bytes byte_array(buffer + 3, buffer + sz)" "Tins.Wire.Raw.Wifi.vendorFromBytes_noFault (and vendorSpecific_eq: = Tagged.decodeVendor for the getter vendor_specific(); Props.C01.raw_decoders_safe_wifi)" [rk% "Dot11ManagementFrame::vendor_specific_type::from_bytes(const uint8_t *, uint32_t) | guard | sz < 3"]),
  (rk% "Dot11ManagementFrame::vendor_specific_type::from_bytes(const uint8_t *, uint32_t) | ptrPass | buffer",
    .modelled "Tins.Wire.Raw.Wifi.vendorFromBytes" "vendor_specific_type::from_bytes oui_type(buffer)" "Tins.Wire.Raw.Wifi.vendorFromBytes_noFault (and vendorSpecific_eq: = Tagged.decodeVendor for the getter vendor_specific(); Props.C01.raw_decoders_safe_wifi)" [rk% "Dot11ManagementFrame::vendor_specific_type::from_bytes(const uint8_t *, uint32_t) | guard | sz < 3"]),
  -- EAPOL::extract_metadata(const uint8_t *, uint32_t)
  (rk% "EAPOL::extract_metadata(const uint8_t *, uint32_t) | arrow | header->length",
    .modelled "Tins.Wire.Raw.Misc.eapolMetadata" "EAPOL::extract_metadata header->length" "Tins.Wire.Raw.Misc.eapolMetadata_safe (Props.C01.raw_decoders_safe_misc; sizes / offsets = Gen.Layout: metadata_layout; tie: `entry-raw-model` clause of Driver/C01.lean on harness/c01_entry.cpp)" [rk% "EAPOL::extract_metadata(const uint8_t *, uint32_t) | guard | TINS_UNLIKELY(total_sz < sizeof(eapol_header))"]),
  (rk% "EAPOL::extract_metadata(const uint8_t *, uint32_t) | castToStruct | (const eapol_header*)buffer",
    .modelled "Tins.Wire.Raw.Misc.eapolMetadata (the cast reads nothing; the read through it is the arrow row)" "" "Tins.Wire.Raw.Misc.eapolMetadata_safe (Props.C01.raw_decoders_safe_misc; sizes / offsets = Gen.Layout: metadata_layout; tie: `entry-raw-model` clause of Driver/C01.lean on harness/c01_entry.cpp)" [rk% "EAPOL::extract_metadata(const uint8_t *, uint32_t) | guard | TINS_UNLIKELY(total_sz < sizeof(eapol_header))"]),
  -- EAPOL::from_bytes(const uint8_t *, uint32_t)
  (rk% "EAPOL::from_bytes(const uint8_t *, uint32_t) | arrow | ptr->length",
    .modelled "Tins.Wire.Wifi.Eapol.fromBytes" "EAPOL::from_bytes ptr->length/type" "Tins.Wire.Wifi.Eapol.eapol_fromBytes_safe" [rk% "EAPOL::from_bytes(const uint8_t *, uint32_t) | guard | TINS_UNLIKELY(total_sz < sizeof(eapol_header))"]),
  (rk% "EAPOL::from_bytes(const uint8_t *, uint32_t) | arrow | ptr->type",
    .modelled "Tins.Wire.Wifi.Eapol.fromBytes" "EAPOL::from_bytes ptr->length/type" "Tins.Wire.Wifi.Eapol.eapol_fromBytes_safe" [rk% "EAPOL::from_bytes(const uint8_t *, uint32_t) | guard | TINS_UNLIKELY(total_sz < sizeof(eapol_header))"]),
  (rk% "EAPOL::from_bytes(const uint8_t *, uint32_t) | castToStruct | (const eapol_header*)buffer",
    .modelled "Tins.Wire.Wifi.Eapol.fromBytes" "EAPOL::from_bytes ptr->length/type" "Tins.Wire.Wifi.Eapol.eapol_fromBytes_safe" [rk% "EAPOL::from_bytes(const uint8_t *, uint32_t) | guard | TINS_UNLIKELY(total_sz < sizeof(eapol_header))"]),
  (rk% "EAPOL::from_bytes(const uint8_t *, uint32_t) | ptrPass | Tins::RC4EAPOL(buffer, total_sz)",
    .modelled "Tins.Wire.Wifi.Eapol.fromBytes (total_sz = min(total_sz, advertised length + 4): only ever decreased)" "" "Tins.Wire.Wifi.Eapol.eapol_fromBytes_safe" [rk% "EAPOL::from_bytes(const uint8_t *, uint32_t) | guard | (total_sz < data_len)"]),
  (rk% "EAPOL::from_bytes(const uint8_t *, uint32_t) | ptrPass | Tins::RSNEAPOL(buffer, total_sz)",
    .modelled "Tins.Wire.Wifi.Eapol.fromBytes (total_sz = min(total_sz, advertised length + 4): only ever decreased)" "" "Tins.Wire.Wifi.Eapol.eapol_fromBytes_safe" [rk% "EAPOL::from_bytes(const uint8_t *, uint32_t) | guard | (total_sz < data_len)"]),
  -- EthernetII::extract_metadata(const uint8_t *, uint32_t)
  (rk% "EthernetII::extract_metadata(const uint8_t *, uint32_t) | arrow | header->payload_type",
    .modelled "Tins.Wire.Raw.Misc.ethMetadata" "EthernetII::extract_metadata header->payload_type" "Tins.Wire.Raw.Misc.ethMetadata_safe (Props.C01.raw_decoders_safe_misc; sizes / offsets = Gen.Layout: metadata_layout; tie: `entry-raw-model` clause of Driver/C01.lean on harness/c01_entry.cpp)" [rk% "EthernetII::extract_metadata(const uint8_t *, uint32_t) | guard | TINS_UNLIKELY(total_sz < sizeof(ethernet_header))"]),
  (rk% "EthernetII::extract_metadata(const uint8_t *, uint32_t) | castToStruct | (const ethernet_header*)buffer",
    .modelled "Tins.Wire.Raw.Misc.ethMetadata (the cast reads nothing; the reads through it are the arrow rows)" "" "Tins.Wire.Raw.Misc.ethMetadata_safe (Props.C01.raw_decoders_safe_misc; sizes / offsets = Gen.Layout: metadata_layout; tie: `entry-raw-model` clause of Driver/C01.lean on harness/c01_entry.cpp)" [rk% "EthernetII::extract_metadata(const uint8_t *, uint32_t) | guard | TINS_UNLIKELY(total_sz < sizeof(ethernet_header))"]),
  -- HWAddress::HWAddress(const Tins::HWAddress::storage_type *)
  (rk% "HWAddress::HWAddress(const Tins::HWAddress::storage_type *) | memcpy | std::memcpy(buffer_, ptr, address_size)",
    .argued "reads address_size (n) bytes from the pointer it is given: every caller on the parse path is a row of its own (InputMemoryStream::read(HWAddress<6>&) after can_read(6), Converters::convert<HWAddress<6>> after data_size == 6, ibss_dfs_params::from_option after data_size >= 9); a null pointer takes the memset branch" [rk% "HWAddress::HWAddress(const Tins::HWAddress::storage_type *) | guard | ptr"]),
  (rk% "HWAddress::HWAddress(const Tins::HWAddress::storage_type *) | memset | std::memset(buffer_, 0, address_size)",
    .argued "writes the object's own n-byte array" []),
  -- ICMPExtensionsStructure::validate_extensions(const uint8_t *, uint32_t)
  (rk% "ICMPExtensionsStructure::validate_extensions(const uint8_t *, uint32_t) | ptrArith | buffer += BASE_HEADER_SIZE",
    .modelled "Tins.Wire.Icmp.ExtS.validate (offset 4 of the rdN)" "ICMPExtensionsStructure::validate_extensions sum_range" "Tins.Wire.Icmp.validate_ok" [rk% "ICMPExtensionsStructure::validate_extensions(const uint8_t *, uint32_t) | guard | total_sz < BASE_HEADER_SIZE"]),
  (rk% "ICMPExtensionsStructure::validate_extensions(const uint8_t *, uint32_t) | ptrPass | Utils::sum_range(buffer, buffer + total_sz)",
    .modelled "Tins.Wire.Icmp.ExtS.validate" "ICMPExtensionsStructure::validate_extensions sum_range" "Tins.Wire.Icmp.validate_ok" [rk% "ICMPExtensionsStructure::validate_extensions(const uint8_t *, uint32_t) | guard | total_sz < BASE_HEADER_SIZE"]),
  (rk% "ICMPExtensionsStructure::validate_extensions(const uint8_t *, uint32_t) | ptrPass | input(buffer, total_sz)",
    .modelled "Tins.Wire.Icmp.ExtS.validate (Cursor ⟨mem, totalSz⟩; buffer / total_sz are reassigned only after the stream was built)" "" "Tins.Wire.Icmp.validate_ok" []),
  -- ICMPv6::addr_list_type::addr_list_type(const Tins::ICMPv6::addr_list_type::addresses_type &)
  (rk% "ICMPv6::addr_list_type::addr_list_type(const Tins::ICMPv6::addr_list_type::addresses_type &) | externCall | std::fill(reserved, reserved + sizeof(reserved), static_cast<uint8_t>(0))",
    .argued "std::fill over the object's own fixed-size array with its own sizeof; no wire byte is read" []),
  -- ICMPv6::addr_list_type::from_option(const Tins::ICMPv6::option &)
  (rk% "ICMPv6::addr_list_type::from_option(const Tins::ICMPv6::option &) | ptrPass | stream.read(output.reserved, 6)",
    .argued "stream.read(void*, 6) into the 6-byte member `reserved`: the source side is InputMemoryStream::read (can_read), the destination is the object's own array" []),
  -- ICMPv6::dns_search_list_type::from_option(const Tins::ICMPv6::option &)
  (rk% "ICMPv6::dns_search_list_type::from_option(const Tins::ICMPv6::option &) | deref | *ptr | x6",
    .modelled "Tins.Wire.Raw.Icmp6.labelsLoop / domainsLoop" "dns_search_list_type::from_option *ptr" "Tins.Wire.Raw.Icmp6.dnsSearch_eq (= ok of Icmp6.decDnsSearch, which harness/wire_icmp.h compares with the typed getter; Props.C01.raw_decoders_safe_icmp6)" [rk% "ICMPv6::dns_search_list_type::from_option(const Tins::ICMPv6::option &) | guard | opt.data_size() < 2 + sizeof(uint32_t)", rk% "ICMPv6::dns_search_list_type::from_option(const Tins::ICMPv6::option &) | guard | ptr < end && *ptr", rk% "ICMPv6::dns_search_list_type::from_option(const Tins::ICMPv6::option &) | guard | ptr < end && *ptr && *ptr < (end - ptr)", rk% "ICMPv6::dns_search_list_type::from_option(const Tins::ICMPv6::option &) | guard | ptr < end && *ptr != 0"]),
  (rk% "ICMPv6::dns_search_list_type::from_option(const Tins::ICMPv6::option &) | externCall | domain.insert(domain.end(), ptr + 1, ptr + *ptr + 1)",
    .modelled "Tins.Wire.Raw.Icmp6.labelsLoop" "dns_search_list_type::from_option domain.insert(domain.end(), ptr + 1, ptr + *ptr + 1)" "Tins.Wire.Raw.Icmp6.dnsSearch_eq (= ok of Icmp6.decDnsSearch, which harness/wire_icmp.h compares with the typed getter; Props.C01.raw_decoders_safe_icmp6)" [rk% "ICMPv6::dns_search_list_type::from_option(const Tins::ICMPv6::option &) | guard | opt.data_size() < 2 + sizeof(uint32_t)", rk% "ICMPv6::dns_search_list_type::from_option(const Tins::ICMPv6::option &) | guard | ptr < end && *ptr", rk% "ICMPv6::dns_search_list_type::from_option(const Tins::ICMPv6::option &) | guard | ptr < end && *ptr && *ptr < (end - ptr)", rk% "ICMPv6::dns_search_list_type::from_option(const Tins::ICMPv6::option &) | guard | ptr < end && *ptr != 0"]),
  (rk% "ICMPv6::dns_search_list_type::from_option(const Tins::ICMPv6::option &) | memcpy | memcpy(&output.lifetime, ptr + 2, sizeof(uint32_t))",
    .modelled "Tins.Wire.Raw.Icmp6.dnsSearch" "dns_search_list_type::from_option memcpy(&output.lifetime, ptr + 2, sizeof(uint32_t))" "Tins.Wire.Raw.Icmp6.dnsSearch_eq (= ok of Icmp6.decDnsSearch, which harness/wire_icmp.h compares with the typed getter; Props.C01.raw_decoders_safe_icmp6)" [rk% "ICMPv6::dns_search_list_type::from_option(const Tins::ICMPv6::option &) | guard | opt.data_size() < 2 + sizeof(uint32_t)", rk% "ICMPv6::dns_search_list_type::from_option(const Tins::ICMPv6::option &) | guard | ptr < end && *ptr", rk% "ICMPv6::dns_search_list_type::from_option(const Tins::ICMPv6::option &) | guard | ptr < end && *ptr && *ptr < (end - ptr)", rk% "ICMPv6::dns_search_list_type::from_option(const Tins::ICMPv6::option &) | guard | ptr < end && *ptr != 0"]),
  (rk% "ICMPv6::dns_search_list_type::from_option(const Tins::ICMPv6::option &) | ptrArith | ptr + opt.data_size()",
    .modelled "Tins.Wire.Raw.Icmp6.dnsSearch / labelsLoop / domainsLoop (ptr, end as offsets: advanced and compared; read only by the rows above)" "" "Tins.Wire.Raw.Icmp6.dnsSearch_eq (= ok of Icmp6.decDnsSearch, which harness/wire_icmp.h compares with the typed getter; Props.C01.raw_decoders_safe_icmp6)" [rk% "ICMPv6::dns_search_list_type::from_option(const Tins::ICMPv6::option &) | guard | opt.data_size() < 2 + sizeof(uint32_t)", rk% "ICMPv6::dns_search_list_type::from_option(const Tins::ICMPv6::option &) | guard | ptr < end && *ptr", rk% "ICMPv6::dns_search_list_type::from_option(const Tins::ICMPv6::option &) | guard | ptr < end && *ptr && *ptr < (end - ptr)", rk% "ICMPv6::dns_search_list_type::from_option(const Tins::ICMPv6::option &) | guard | ptr < end && *ptr != 0"]),
  (rk% "ICMPv6::dns_search_list_type::from_option(const Tins::ICMPv6::option &) | ptrArith | ptr += *ptr + 1",
    .modelled "Tins.Wire.Raw.Icmp6.dnsSearch / labelsLoop / domainsLoop (ptr, end as offsets: advanced and compared; read only by the rows above)" "" "Tins.Wire.Raw.Icmp6.dnsSearch_eq (= ok of Icmp6.decDnsSearch, which harness/wire_icmp.h compares with the typed getter; Props.C01.raw_decoders_safe_icmp6)" [rk% "ICMPv6::dns_search_list_type::from_option(const Tins::ICMPv6::option &) | guard | opt.data_size() < 2 + sizeof(uint32_t)", rk% "ICMPv6::dns_search_list_type::from_option(const Tins::ICMPv6::option &) | guard | ptr < end && *ptr", rk% "ICMPv6::dns_search_list_type::from_option(const Tins::ICMPv6::option &) | guard | ptr < end && *ptr && *ptr < (end - ptr)", rk% "ICMPv6::dns_search_list_type::from_option(const Tins::ICMPv6::option &) | guard | ptr < end && *ptr != 0"]),
  (rk% "ICMPv6::dns_search_list_type::from_option(const Tins::ICMPv6::option &) | ptrArith | ptr += 2 + sizeof(uint32_t)",
    .modelled "Tins.Wire.Raw.Icmp6.dnsSearch / labelsLoop / domainsLoop (ptr, end as offsets: advanced and compared; read only by the rows above)" "" "Tins.Wire.Raw.Icmp6.dnsSearch_eq (= ok of Icmp6.decDnsSearch, which harness/wire_icmp.h compares with the typed getter; Props.C01.raw_decoders_safe_icmp6)" [rk% "ICMPv6::dns_search_list_type::from_option(const Tins::ICMPv6::option &) | guard | opt.data_size() < 2 + sizeof(uint32_t)", rk% "ICMPv6::dns_search_list_type::from_option(const Tins::ICMPv6::option &) | guard | ptr < end && *ptr", rk% "ICMPv6::dns_search_list_type::from_option(const Tins::ICMPv6::option &) | guard | ptr < end && *ptr && *ptr < (end - ptr)", rk% "ICMPv6::dns_search_list_type::from_option(const Tins::ICMPv6::option &) | guard | ptr < end && *ptr != 0"]),
  (rk% "ICMPv6::dns_search_list_type::from_option(const Tins::ICMPv6::option &) | ptrArith | ptr++",
    .modelled "Tins.Wire.Raw.Icmp6.dnsSearch / labelsLoop / domainsLoop (ptr, end as offsets: advanced and compared; read only by the rows above)" "" "Tins.Wire.Raw.Icmp6.dnsSearch_eq (= ok of Icmp6.decDnsSearch, which harness/wire_icmp.h compares with the typed getter; Props.C01.raw_decoders_safe_icmp6)" [rk% "ICMPv6::dns_search_list_type::from_option(const Tins::ICMPv6::option &) | guard | opt.data_size() < 2 + sizeof(uint32_t)", rk% "ICMPv6::dns_search_list_type::from_option(const Tins::ICMPv6::option &) | guard | ptr < end && *ptr", rk% "ICMPv6::dns_search_list_type::from_option(const Tins::ICMPv6::option &) | guard | ptr < end && *ptr && *ptr < (end - ptr)", rk% "ICMPv6::dns_search_list_type::from_option(const Tins::ICMPv6::option &) | guard | ptr < end && *ptr != 0"]),
  -- ICMPv6::handover_assist_info_type::from_option(const Tins::ICMPv6::option &)
  (rk% "ICMPv6::handover_assist_info_type::from_option(const Tins::ICMPv6::option &) | deref | * ptr",
    .modelled "Tins.Wire.Raw.Icmp6.codeLen" "handover_assist_info_type::from_option *ptr" "Tins.Wire.Raw.Icmp6.codeLen_eq (= ok of Icmp6.decCodeLen, which harness/wire_icmp.h compares with the typed getter; Props.C01.raw_decoders_safe_icmp6)" [rk% "ICMPv6::handover_assist_info_type::from_option(const Tins::ICMPv6::option &) | guard | opt.data_size() < 2", rk% "ICMPv6::handover_assist_info_type::from_option(const Tins::ICMPv6::option &) | guard | (end - ptr - 1) <* ptr"]),
  (rk% "ICMPv6::handover_assist_info_type::from_option(const Tins::ICMPv6::option &) | deref | *ptr",
    .modelled "Tins.Wire.Raw.Icmp6.codeLen" "handover_assist_info_type::from_option *ptr" "Tins.Wire.Raw.Icmp6.codeLen_eq (= ok of Icmp6.decCodeLen, which harness/wire_icmp.h compares with the typed getter; Props.C01.raw_decoders_safe_icmp6)" [rk% "ICMPv6::handover_assist_info_type::from_option(const Tins::ICMPv6::option &) | guard | opt.data_size() < 2", rk% "ICMPv6::handover_assist_info_type::from_option(const Tins::ICMPv6::option &) | guard | (end - ptr - 1) <* ptr"]),
  (rk% "ICMPv6::handover_assist_info_type::from_option(const Tins::ICMPv6::option &) | deref | *ptr++",
    .modelled "Tins.Wire.Raw.Icmp6.codeLen" "handover_assist_info_type::from_option *ptr++" "Tins.Wire.Raw.Icmp6.codeLen_eq (= ok of Icmp6.decCodeLen, which harness/wire_icmp.h compares with the typed getter; Props.C01.raw_decoders_safe_icmp6)" [rk% "ICMPv6::handover_assist_info_type::from_option(const Tins::ICMPv6::option &) | guard | opt.data_size() < 2", rk% "ICMPv6::handover_assist_info_type::from_option(const Tins::ICMPv6::option &) | guard | (end - ptr - 1) <* ptr"]),
  (rk% "ICMPv6::handover_assist_info_type::from_option(const Tins::ICMPv6::option &) | externCall | output.hai.assign(ptr + 1, ptr + 1 + *ptr)",
    .modelled "Tins.Wire.Raw.Icmp6.codeLen" "handover_assist_info_type::from_option hai.assign(ptr + 1, ptr + 1 + *ptr)" "Tins.Wire.Raw.Icmp6.codeLen_eq (= ok of Icmp6.decCodeLen, which harness/wire_icmp.h compares with the typed getter; Props.C01.raw_decoders_safe_icmp6)" [rk% "ICMPv6::handover_assist_info_type::from_option(const Tins::ICMPv6::option &) | guard | opt.data_size() < 2", rk% "ICMPv6::handover_assist_info_type::from_option(const Tins::ICMPv6::option &) | guard | (end - ptr - 1) <* ptr"]),
  (rk% "ICMPv6::handover_assist_info_type::from_option(const Tins::ICMPv6::option &) | ptrArith | ptr + opt.data_size()",
    .modelled "Tins.Wire.Raw.Icmp6.codeLen (end as an offset: compared only)" "" "Tins.Wire.Raw.Icmp6.codeLen_eq (= ok of Icmp6.decCodeLen, which harness/wire_icmp.h compares with the typed getter; Props.C01.raw_decoders_safe_icmp6)" [rk% "ICMPv6::handover_assist_info_type::from_option(const Tins::ICMPv6::option &) | guard | opt.data_size() < 2", rk% "ICMPv6::handover_assist_info_type::from_option(const Tins::ICMPv6::option &) | guard | (end - ptr - 1) <* ptr"]),
  -- ICMPv6::handover_key_reply_type::from_option(const Tins::ICMPv6::option &)
  (rk% "ICMPv6::handover_key_reply_type::from_option(const Tins::ICMPv6::option &) | deref | *opt.data_ptr() | x2",
    .modelled "Tins.Wire.Raw.Icmp6.handoverReply" "handover_key_reply_type::from_option *opt.data_ptr()" "Tins.Wire.Raw.Icmp6.handoverReply_eq (= ok of Icmp6.decHandoverReply, which harness/wire_icmp.h compares with the typed getter; Props.C01.raw_decoders_safe_icmp6)" [rk% "ICMPv6::handover_key_reply_type::from_option(const Tins::ICMPv6::option &) | guard | opt.data_size() < 2 + sizeof(uint32_t)", rk% "ICMPv6::handover_key_reply_type::from_option(const Tins::ICMPv6::option &) | guard | !stream.can_read(*opt.data_ptr())"]),
  (rk% "ICMPv6::handover_key_reply_type::from_option(const Tins::ICMPv6::option &) | externCall | output.key.assign(stream.pointer(), stream.pointer() + stream.size() - *opt.data_ptr())",
    .modelled "Tins.Wire.Raw.Icmp6.handoverReply" "handover_key_reply_type::from_option key.assign" "Tins.Wire.Raw.Icmp6.handoverReply_eq (= ok of Icmp6.decHandoverReply, which harness/wire_icmp.h compares with the typed getter; Props.C01.raw_decoders_safe_icmp6)" [rk% "ICMPv6::handover_key_reply_type::from_option(const Tins::ICMPv6::option &) | guard | opt.data_size() < 2 + sizeof(uint32_t)", rk% "ICMPv6::handover_key_reply_type::from_option(const Tins::ICMPv6::option &) | guard | !stream.can_read(*opt.data_ptr())"]),
  -- ICMPv6::handover_key_req_type::from_option(const Tins::ICMPv6::option &)
  (rk% "ICMPv6::handover_key_req_type::from_option(const Tins::ICMPv6::option &) | deref | *opt.data_ptr() | x2",
    .modelled "Tins.Wire.Raw.Icmp6.handoverReq" "handover_key_req_type::from_option *opt.data_ptr()" "Tins.Wire.Raw.Icmp6.handoverReq_eq (= ok of Icmp6.decHandoverReq, which harness/wire_icmp.h compares with the typed getter; Props.C01.raw_decoders_safe_icmp6)" [rk% "ICMPv6::handover_key_req_type::from_option(const Tins::ICMPv6::option &) | guard | opt.data_size() < 2 + sizeof(uint32_t)", rk% "ICMPv6::handover_key_req_type::from_option(const Tins::ICMPv6::option &) | guard | !stream.can_read(*opt.data_ptr())"]),
  (rk% "ICMPv6::handover_key_req_type::from_option(const Tins::ICMPv6::option &) | externCall | output.key.assign(stream.pointer(), stream.pointer() + stream.size() - *opt.data_ptr())",
    .modelled "Tins.Wire.Raw.Icmp6.handoverReq" "handover_key_req_type::from_option key.assign" "Tins.Wire.Raw.Icmp6.handoverReq_eq (= ok of Icmp6.decHandoverReq, which harness/wire_icmp.h compares with the typed getter; Props.C01.raw_decoders_safe_icmp6)" [rk% "ICMPv6::handover_key_req_type::from_option(const Tins::ICMPv6::option &) | guard | opt.data_size() < 2 + sizeof(uint32_t)", rk% "ICMPv6::handover_key_req_type::from_option(const Tins::ICMPv6::option &) | guard | !stream.can_read(*opt.data_ptr())"]),
  -- ICMPv6::lladdr_type::from_option(const Tins::ICMPv6::option &)
  (rk% "ICMPv6::lladdr_type::from_option(const Tins::ICMPv6::option &) | deref | *ptr++",
    .modelled "Tins.Wire.Raw.Icmp6.lladdr" "lladdr_type::from_option *ptr++" "Tins.Wire.Raw.Icmp6.lladdr_eq (= ok of Icmp6.decLladdr, which harness/wire_icmp.h compares with the typed getter; Props.C01.raw_decoders_safe_icmp6)" [rk% "ICMPv6::lladdr_type::from_option(const Tins::ICMPv6::option &) | guard | opt.data_size() < 2"]),
  (rk% "ICMPv6::lladdr_type::from_option(const Tins::ICMPv6::option &) | externCall | output.address.assign(ptr, opt.data_ptr() + opt.data_size())",
    .modelled "Tins.Wire.Raw.Icmp6.lladdr" "lladdr_type::from_option address.assign(ptr, opt.data_ptr() + opt.data_size())" "Tins.Wire.Raw.Icmp6.lladdr_eq (= ok of Icmp6.decLladdr, which harness/wire_icmp.h compares with the typed getter; Props.C01.raw_decoders_safe_icmp6)" [rk% "ICMPv6::lladdr_type::from_option(const Tins::ICMPv6::option &) | guard | opt.data_size() < 2"]),
  -- ICMPv6::map_type::from_option(const Tins::ICMPv6::option &)
  (rk% "ICMPv6::map_type::from_option(const Tins::ICMPv6::option &) | deref | *stream.pointer()",
    .modelled "Tins.Wire.Raw.Icmp6.mapOpt" "map_type::from_option *stream.pointer()" "Tins.Wire.Raw.Icmp6.mapOpt_eq (= ok of Icmp6.decMap, which harness/wire_icmp.h compares with the typed getter; Props.C01.raw_decoders_safe_icmp6)" [rk% "ICMPv6::map_type::from_option(const Tins::ICMPv6::option &) | guard | opt.data_size() != 2 + sizeof(uint32_t) + ipaddress_type::address_size"]),
  -- ICMPv6::mobile_node_id_type::from_option(const Tins::ICMPv6::option &)
  (rk% "ICMPv6::mobile_node_id_type::from_option(const Tins::ICMPv6::option &) | deref | * ptr",
    .modelled "Tins.Wire.Raw.Icmp6.codeLen (mobile_node_id_type::from_option is the same code, statement for statement)" "handover_assist_info_type::from_option *ptr" "Tins.Wire.Raw.Icmp6.codeLen_eq (= ok of Icmp6.decCodeLen, which harness/wire_icmp.h compares with the typed getter; Props.C01.raw_decoders_safe_icmp6)" [rk% "ICMPv6::mobile_node_id_type::from_option(const Tins::ICMPv6::option &) | guard | opt.data_size() < 2", rk% "ICMPv6::mobile_node_id_type::from_option(const Tins::ICMPv6::option &) | guard | (end - ptr - 1) <* ptr"]),
  (rk% "ICMPv6::mobile_node_id_type::from_option(const Tins::ICMPv6::option &) | deref | *ptr",
    .modelled "Tins.Wire.Raw.Icmp6.codeLen (mobile_node_id_type::from_option is the same code, statement for statement)" "handover_assist_info_type::from_option *ptr" "Tins.Wire.Raw.Icmp6.codeLen_eq (= ok of Icmp6.decCodeLen, which harness/wire_icmp.h compares with the typed getter; Props.C01.raw_decoders_safe_icmp6)" [rk% "ICMPv6::mobile_node_id_type::from_option(const Tins::ICMPv6::option &) | guard | opt.data_size() < 2", rk% "ICMPv6::mobile_node_id_type::from_option(const Tins::ICMPv6::option &) | guard | (end - ptr - 1) <* ptr"]),
  (rk% "ICMPv6::mobile_node_id_type::from_option(const Tins::ICMPv6::option &) | deref | *ptr++",
    .modelled "Tins.Wire.Raw.Icmp6.codeLen (mobile_node_id_type::from_option is the same code, statement for statement)" "handover_assist_info_type::from_option *ptr++" "Tins.Wire.Raw.Icmp6.codeLen_eq (= ok of Icmp6.decCodeLen, which harness/wire_icmp.h compares with the typed getter; Props.C01.raw_decoders_safe_icmp6)" [rk% "ICMPv6::mobile_node_id_type::from_option(const Tins::ICMPv6::option &) | guard | opt.data_size() < 2", rk% "ICMPv6::mobile_node_id_type::from_option(const Tins::ICMPv6::option &) | guard | (end - ptr - 1) <* ptr"]),
  (rk% "ICMPv6::mobile_node_id_type::from_option(const Tins::ICMPv6::option &) | externCall | output.mn.assign(ptr + 1, ptr + 1 + *ptr)",
    .modelled "Tins.Wire.Raw.Icmp6.codeLen (mobile_node_id_type::from_option is the same code, statement for statement)" "handover_assist_info_type::from_option hai.assign(ptr + 1, ptr + 1 + *ptr)" "Tins.Wire.Raw.Icmp6.codeLen_eq (= ok of Icmp6.decCodeLen, which harness/wire_icmp.h compares with the typed getter; Props.C01.raw_decoders_safe_icmp6)" [rk% "ICMPv6::mobile_node_id_type::from_option(const Tins::ICMPv6::option &) | guard | opt.data_size() < 2", rk% "ICMPv6::mobile_node_id_type::from_option(const Tins::ICMPv6::option &) | guard | (end - ptr - 1) <* ptr"]),
  (rk% "ICMPv6::mobile_node_id_type::from_option(const Tins::ICMPv6::option &) | ptrArith | ptr + opt.data_size()",
    .modelled "Tins.Wire.Raw.Icmp6.codeLen (end as an offset: compared only) (mobile_node_id_type::from_option is the same code, statement for statement)" "" "Tins.Wire.Raw.Icmp6.codeLen_eq (= ok of Icmp6.decCodeLen, which harness/wire_icmp.h compares with the typed getter; Props.C01.raw_decoders_safe_icmp6)" [rk% "ICMPv6::mobile_node_id_type::from_option(const Tins::ICMPv6::option &) | guard | opt.data_size() < 2", rk% "ICMPv6::mobile_node_id_type::from_option(const Tins::ICMPv6::option &) | guard | (end - ptr - 1) <* ptr"]),
  -- ICMPv6::multicast_address_record::multicast_address_record(const uint8_t *, uint32_t)
  (rk% "ICMPv6::multicast_address_record::multicast_address_record(const uint8_t *, uint32_t) | externCall | aux_data.assign(stream.pointer(), stream.pointer() + aux_data_len)",
    .modelled "Tins.Wire.Icmp.McastRec.parse" "ICMPv6::multicast_address_record aux_data" "Tins.Wire.Icmp.icmp6_parse_safe" [rk% "ICMPv6::multicast_address_record::multicast_address_record(const uint8_t *, uint32_t) | guard | !stream.can_read(aux_data_len)"]),
  -- ICMPv6::naack_type::from_option(const Tins::ICMPv6::option &)
  (rk% "ICMPv6::naack_type::from_option(const Tins::ICMPv6::option &) | deref | *opt.data_ptr()",
    .modelled "Tins.Wire.Raw.Icmp6.naack" "naack_type::from_option *opt.data_ptr()" "Tins.Wire.Raw.Icmp6.naack_eq (= ok of Icmp6.decNaack, which harness/wire_icmp.h compares with the typed getter; Props.C01.raw_decoders_safe_icmp6)" [rk% "ICMPv6::naack_type::from_option(const Tins::ICMPv6::option &) | guard | opt.data_size() != 6"]),
  (rk% "ICMPv6::naack_type::from_option(const Tins::ICMPv6::option &) | subscript | opt.data_ptr()[1]",
    .modelled "Tins.Wire.Raw.Icmp6.naack" "naack_type::from_option opt.data_ptr()[1]" "Tins.Wire.Raw.Icmp6.naack_eq (= ok of Icmp6.decNaack, which harness/wire_icmp.h compares with the typed getter; Props.C01.raw_decoders_safe_icmp6)" [rk% "ICMPv6::naack_type::from_option(const Tins::ICMPv6::option &) | guard | opt.data_size() != 6"]),
  -- ICMPv6::naack_type::naack_type(uint8_t, uint8_t)
  (rk% "ICMPv6::naack_type::naack_type(uint8_t, uint8_t) | externCall | std::fill(reserved, reserved + 4, static_cast<uint8_t>(0))",
    .argued "std::fill over the object's own fixed-size array with its own sizeof; no wire byte is read" []),
  -- ICMPv6::parse_options(Memory::InputMemoryStream &)
  (rk% "ICMPv6::parse_options(Memory::InputMemoryStream &) | ptrPass | option( opt_type, payload_size, stream.pointer() )",
    .modelled "Tins.Wire.Icmp.Icmp6.parseOpts" "ICMPv6::parse_options option payload" "Tins.Wire.Icmp.icmp6_parse_safe" [rk% "ICMPv6::parse_options(Memory::InputMemoryStream &) | guard | !stream.can_read(payload_size)"]),
  -- ICMPv6::prefix_info_type::from_option(const Tins::ICMPv6::option &)
  (rk% "ICMPv6::prefix_info_type::from_option(const Tins::ICMPv6::option &) | deref | *stream.pointer()",
    .modelled "Tins.Wire.Raw.Icmp6.prefixInfo" "prefix_info_type::from_option *stream.pointer()" "Tins.Wire.Raw.Icmp6.prefixInfo_eq (= ok of Icmp6.decPrefixInfo, which harness/wire_icmp.h compares with the typed getter; Props.C01.raw_decoders_safe_icmp6)" [rk% "ICMPv6::prefix_info_type::from_option(const Tins::ICMPv6::option &) | guard | opt.data_size() != 2 + sizeof(uint32_t) * 3 + ICMPv6::ipaddress_type::address_size"]),
  -- ICMPv6::route_info_type::from_option(const Tins::ICMPv6::option &)
  (rk% "ICMPv6::route_info_type::from_option(const Tins::ICMPv6::option &) | externCall | output.prefix.assign(stream.pointer(), stream.pointer() + stream.size())",
    .argued "assigns [pointer(), pointer() + size()): the rest of the stream, inside the option data by the stream invariant (Props.C01.cursor_safe); Lean side Icmp6.decRouteInfo is total (`b.drop 6`)" [rk% "ICMPv6::route_info_type::from_option(const Tins::ICMPv6::option &) | guard | opt.data_size() < 2 + sizeof(uint32_t)"]),
  -- ICMPv6::rsa_sign_type::from_option(const Tins::ICMPv6::option &)
  (rk% "ICMPv6::rsa_sign_type::from_option(const Tins::ICMPv6::option &) | externCall | output.signature.assign(stream.pointer(), stream.pointer() + stream.size())",
    .argued "assigns [pointer(), pointer() + size()): the rest of the stream, inside the option data by the stream invariant (Props.C01.cursor_safe); Lean side Icmp6.decRsa is total (`b.drop 18`)" [rk% "ICMPv6::rsa_sign_type::from_option(const Tins::ICMPv6::option &) | guard | opt.data_size() < 2 + 16 + 1"]),
  (rk% "ICMPv6::rsa_sign_type::from_option(const Tins::ICMPv6::option &) | ptrPass | stream.read(output.key_hash, sizeof(output.key_hash))",
    .argued "stream.read(void*, 16) into the 16-byte member key_hash: the source side is InputMemoryStream::read (can_read), the destination is the object's own array of sizeof(key_hash)" []),
  -- ICMPv6::rsa_sign_type::rsa_sign_type()
  (rk% "ICMPv6::rsa_sign_type::rsa_sign_type() | externCall | std::fill(key_hash, key_hash + sizeof(key_hash), static_cast<uint8_t>(0))",
    .argued "std::fill over the object's own fixed-size array with its own sizeof; no wire byte is read" []),
  -- ICMPv6::timestamp_type::from_option(const Tins::ICMPv6::option &)
  (rk% "ICMPv6::timestamp_type::from_option(const Tins::ICMPv6::option &) | ptrPass | stream.read(output.reserved, 6)",
    .argued "stream.read(void*, 6) into the 6-byte member `reserved`: the source side is InputMemoryStream::read (can_read), the destination is the object's own array" []),
  -- ICMPv6::timestamp_type::timestamp_type(uint64_t)
  (rk% "ICMPv6::timestamp_type::timestamp_type(uint64_t) | externCall | std::fill(reserved, reserved + sizeof(reserved), static_cast<uint8_t>(0))",
    .argued "std::fill over the object's own fixed-size array with its own sizeof; no wire byte is read" []),
  -- IP::IP(const uint8_t *, uint32_t)
  (rk% "IP::IP(const uint8_t *, uint32_t) | ptrArith | buffer + head_len() * sizeof(uint32_t)",
    .modelled "Tins.Wire.Ip.Ip4.parse (optEnd := ihl * 4, an offset ≤ |b| by the guard; only compared, never dereferenced)" "" "Tins.Wire.Ip.ip4_parse_safe" [rk% "IP::IP(const uint8_t *, uint32_t) | guard | TINS_UNLIKELY(head_len() * sizeof(uint32_t) > total_sz || head_len() * sizeof(uint32_t) < sizeof(header_))"]),
  (rk% "IP::IP(const uint8_t *, uint32_t) | ptrArith | stream.pointer() + data_size",
    .modelled "Tins.Wire.Ip.Ip4.parseOpts (pos + dataSize > optEnd: compared only)" "" "Tins.Wire.Ip.ip4_parse_safe" []),
  (rk% "IP::IP(const uint8_t *, uint32_t) | ptrPass | Internals::allocate<IP>( header_.protocol, stream.pointer(), total_sz )",
    .modelled "Tins.Wire.Ip.Ip4.parse (total_sz = min(stream.size(), advertised) or stream.size())" "IP::IP inner(stream.pointer(), total_sz)" "Tins.Wire.Ip.ip4_parse_safe" [rk% "IP::IP(const uint8_t *, uint32_t) | guard | tot_len() != 0", rk% "IP::IP(const uint8_t *, uint32_t) | guard | (stream_size < advertised_length)"]),
  (rk% "IP::IP(const uint8_t *, uint32_t) | ptrPass | Internals::pdu_from_flag( static_cast<Constants::IP::e>(header_.protocol), stream.pointer(), total_sz, false )",
    .modelled "Tins.Wire.Ip.Ip4.parse (total_sz = min(stream.size(), advertised) or stream.size())" "IP::IP inner(stream.pointer(), total_sz)" "Tins.Wire.Ip.ip4_parse_safe" [rk% "IP::IP(const uint8_t *, uint32_t) | guard | tot_len() != 0", rk% "IP::IP(const uint8_t *, uint32_t) | guard | (stream_size < advertised_length)"]),
  (rk% "IP::IP(const uint8_t *, uint32_t) | ptrPass | RawPDU(stream.pointer(), total_sz) | x2",
    .modelled "Tins.Wire.Ip.Ip4.parse (total_sz = min(stream.size(), advertised) or stream.size())" "IP::IP inner(stream.pointer(), total_sz)" "Tins.Wire.Ip.ip4_parse_safe" [rk% "IP::IP(const uint8_t *, uint32_t) | guard | tot_len() != 0", rk% "IP::IP(const uint8_t *, uint32_t) | guard | (stream_size < advertised_length)"]),
  (rk% "IP::IP(const uint8_t *, uint32_t) | ptrPass | option(opt_type, stream.pointer(), stream.pointer() + data_size)",
    .modelled "Tins.Wire.Ip.Ip4.parseOpts" "IP::IP option(opt_type, stream.pointer(), stream.pointer() + data_size)" "Tins.Wire.Ip.ip4_parse_safe" [rk% "IP::IP(const uint8_t *, uint32_t) | guard | stream.pointer() + data_size > options_end", rk% "IP::IP(const uint8_t *, uint32_t) | guard | TINS_UNLIKELY(head_len() * sizeof(uint32_t) > total_sz || head_len() * sizeof(uint32_t) < sizeof(header_))"]),
  (rk% "IP::IP(const uint8_t *, uint32_t) | ptrPass | stream(buffer, total_sz)",
    .modelled "Tins.Wire.Ip.Ip4.parse (Cursor.ofBytes b: total_sz is reassigned only after the stream was built)" "" "Tins.Wire.Ip.ip4_parse_safe" []),
  -- IP::extract_metadata(const uint8_t *, uint32_t)
  (rk% "IP::extract_metadata(const uint8_t *, uint32_t) | arrow | header->ihl",
    .modelled "Tins.Wire.Raw.Misc.ipMetadata" "IP::extract_metadata header->ihl" "Tins.Wire.Raw.Misc.ipMetadata_safe (Props.C01.raw_decoders_safe_misc; sizes / offsets = Gen.Layout: metadata_layout; tie: `entry-raw-model` clause of Driver/C01.lean on harness/c01_entry.cpp)" [rk% "IP::extract_metadata(const uint8_t *, uint32_t) | guard | TINS_UNLIKELY(total_sz < sizeof(ip_header))"]),
  (rk% "IP::extract_metadata(const uint8_t *, uint32_t) | arrow | header->protocol",
    .modelled "Tins.Wire.Raw.Misc.ipMetadata" "IP::extract_metadata header->protocol" "Tins.Wire.Raw.Misc.ipMetadata_safe (Props.C01.raw_decoders_safe_misc; sizes / offsets = Gen.Layout: metadata_layout; tie: `entry-raw-model` clause of Driver/C01.lean on harness/c01_entry.cpp)" [rk% "IP::extract_metadata(const uint8_t *, uint32_t) | guard | TINS_UNLIKELY(total_sz < sizeof(ip_header))"]),
  (rk% "IP::extract_metadata(const uint8_t *, uint32_t) | castToStruct | (const ip_header*)buffer",
    .modelled "Tins.Wire.Raw.Misc.ipMetadata (the cast reads nothing; the reads through it are the arrow rows)" "" "Tins.Wire.Raw.Misc.ipMetadata_safe (Props.C01.raw_decoders_safe_misc; sizes / offsets = Gen.Layout: metadata_layout; tie: `entry-raw-model` clause of Driver/C01.lean on harness/c01_entry.cpp)" [rk% "IP::extract_metadata(const uint8_t *, uint32_t) | guard | TINS_UNLIKELY(total_sz < sizeof(ip_header))"]),
  -- IP::generic_route_option_type::from_option(const Tins::IP::option &)
  (rk% "IP::generic_route_option_type::from_option(const Tins::IP::option &) | deref | *opt.data_ptr()",
    .modelled "Tins.Wire.Raw.Misc.route" "generic_route_option_type::from_option *opt.data_ptr()" "Tins.Wire.Raw.Misc.route_eq (= Ip4.decodeRoute, which harness/wire_ip.h compares with the typed getters; Props.C01.raw_decoders_safe_misc)" [rk% "IP::generic_route_option_type::from_option(const Tins::IP::option &) | guard | opt.data_size() < 1 || ((opt.data_size() - 1) % sizeof(uint32_t)) != 0", rk% "IP::generic_route_option_type::from_option(const Tins::IP::option &) | guard | route < end"]),
  (rk% "IP::generic_route_option_type::from_option(const Tins::IP::option &) | memcpy | memcpy(&uint32_t_buffer, route, sizeof(uint32_t))",
    .modelled "Tins.Wire.Raw.Misc.routeLoop" "generic_route_option_type::from_option memcpy(&uint32_t_buffer, route, sizeof(uint32_t))" "Tins.Wire.Raw.Misc.route_eq (= Ip4.decodeRoute, which harness/wire_ip.h compares with the typed getters; Props.C01.raw_decoders_safe_misc)" [rk% "IP::generic_route_option_type::from_option(const Tins::IP::option &) | guard | opt.data_size() < 1 || ((opt.data_size() - 1) % sizeof(uint32_t)) != 0", rk% "IP::generic_route_option_type::from_option(const Tins::IP::option &) | guard | route < end"]),
  (rk% "IP::generic_route_option_type::from_option(const Tins::IP::option &) | ptrArith | opt.data_ptr() + 1",
    .modelled "Tins.Wire.Raw.Misc.route / routeLoop (route, end as offsets; compared / advanced, read only by the memcpy row)" "" "Tins.Wire.Raw.Misc.route_eq (= Ip4.decodeRoute, which harness/wire_ip.h compares with the typed getters; Props.C01.raw_decoders_safe_misc)" [rk% "IP::generic_route_option_type::from_option(const Tins::IP::option &) | guard | opt.data_size() < 1 || ((opt.data_size() - 1) % sizeof(uint32_t)) != 0", rk% "IP::generic_route_option_type::from_option(const Tins::IP::option &) | guard | route < end"]),
  (rk% "IP::generic_route_option_type::from_option(const Tins::IP::option &) | ptrArith | route + opt.data_size() - 1",
    .modelled "Tins.Wire.Raw.Misc.route / routeLoop (route, end as offsets; compared / advanced, read only by the memcpy row)" "" "Tins.Wire.Raw.Misc.route_eq (= Ip4.decodeRoute, which harness/wire_ip.h compares with the typed getters; Props.C01.raw_decoders_safe_misc)" [rk% "IP::generic_route_option_type::from_option(const Tins::IP::option &) | guard | opt.data_size() < 1 || ((opt.data_size() - 1) % sizeof(uint32_t)) != 0", rk% "IP::generic_route_option_type::from_option(const Tins::IP::option &) | guard | route < end"]),
  (rk% "IP::generic_route_option_type::from_option(const Tins::IP::option &) | ptrArith | route += sizeof(uint32_t)",
    .modelled "Tins.Wire.Raw.Misc.route / routeLoop (route, end as offsets; compared / advanced, read only by the memcpy row)" "" "Tins.Wire.Raw.Misc.route_eq (= Ip4.decodeRoute, which harness/wire_ip.h compares with the typed getters; Props.C01.raw_decoders_safe_misc)" [rk% "IP::generic_route_option_type::from_option(const Tins::IP::option &) | guard | opt.data_size() < 1 || ((opt.data_size() - 1) % sizeof(uint32_t)) != 0", rk% "IP::generic_route_option_type::from_option(const Tins::IP::option &) | guard | route < end"]),
  -- IPv4Address::ip_to_int(const char *)
  (rk% "IPv4Address::ip_to_int(const char *) | externCall | inet_pton(AF_INET, ip, &addr)",
    .argued "text → address conversion of the (const char*) constructor, reached only because a construction is followed to every constructor it could name; `&addr` is a local; no wire byte is involved" []),
  -- IPv6::IPv6(const uint8_t *, uint32_t)
  (rk% "IPv6::IPv6(const uint8_t *, uint32_t) | ptrPass | Internals::allocate<IPv6>( current_header, stream.pointer(), actual_payload_length )",
    .modelled "Tins.Wire.Ip6.Ipv6.payloadStep" "IPv6::IPv6 inner(stream.pointer(), actual_payload_length)" "Tins.Wire.Ip6.ipv6_parse_safe" [rk% "IPv6::IPv6(const uint8_t *, uint32_t) | guard | !stream.can_read(actual_payload_length)"]),
  (rk% "IPv6::IPv6(const uint8_t *, uint32_t) | ptrPass | Internals::pdu_from_flag( static_cast<Constants::IP::e>(current_header), stream.pointer(), actual_payload_length, false )",
    .modelled "Tins.Wire.Ip6.Ipv6.payloadStep" "IPv6::IPv6 inner(stream.pointer(), actual_payload_length)" "Tins.Wire.Ip6.ipv6_parse_safe" [rk% "IPv6::IPv6(const uint8_t *, uint32_t) | guard | !stream.can_read(actual_payload_length)"]),
  (rk% "IPv6::IPv6(const uint8_t *, uint32_t) | ptrPass | Tins::RawPDU(stream.pointer(), actual_payload_length) | x2",
    .modelled "Tins.Wire.Ip6.Ipv6.payloadStep" "IPv6::IPv6 inner(stream.pointer(), actual_payload_length)" "Tins.Wire.Ip6.ipv6_parse_safe" [rk% "IPv6::IPv6(const uint8_t *, uint32_t) | guard | !stream.can_read(actual_payload_length)"]),
  (rk% "IPv6::IPv6(const uint8_t *, uint32_t) | ptrPass | ext_header(current_header, payload_size, stream.pointer())",
    .modelled "Tins.Wire.Ip6.Ipv6.extStep" "IPv6::IPv6 ext_header(current_header, payload_size, stream.pointer())" "Tins.Wire.Ip6.ipv6_parse_safe" [rk% "IPv6::IPv6(const uint8_t *, uint32_t) | guard | !stream.can_read(payload_size)"]),
  (rk% "IPv6::IPv6(const uint8_t *, uint32_t) | ptrPass | options(stream.pointer(), payload_size)",
    .modelled "Tins.Wire.Ip6.Ipv6.extStep (the jumbo walk runs on a Cursor over the first payload_size bytes)" "" "Tins.Wire.Ip6.ipv6_parse_safe" [rk% "IPv6::IPv6(const uint8_t *, uint32_t) | guard | !stream.can_read(payload_size)"]),
  -- IPv6::extract_metadata(const uint8_t *, uint32_t)
  (rk% "IPv6::extract_metadata(const uint8_t *, uint32_t) | arrow | header->next_header",
    .modelled "Tins.Wire.Ip6.Ipv6.extractMetadata" "IPv6::extract_metadata header->next_header" "Tins.Wire.Ip6.extractMetadata_safe" [rk% "IPv6::extract_metadata(const uint8_t *, uint32_t) | guard | TINS_UNLIKELY(total_sz < sizeof(ipv6_header))"]),
  (rk% "IPv6::extract_metadata(const uint8_t *, uint32_t) | castToStruct | (const ipv6_header*)buffer",
    .modelled "Tins.Wire.Ip6.Ipv6.extractMetadata" "IPv6::extract_metadata header->next_header" "Tins.Wire.Ip6.extractMetadata_safe" [rk% "IPv6::extract_metadata(const uint8_t *, uint32_t) | guard | TINS_UNLIKELY(total_sz < sizeof(ipv6_header))"]),
  -- IPv6::parse_header_options(const uint8_t *, size_t)
  (rk% "IPv6::parse_header_options(const uint8_t *, size_t) | externCall | vector<uint8_t>(stream.pointer(), stream.pointer() + size)",
    .modelled "Tins.Wire.Ip6.Ipv6.parseHeaderOptions" "IPv6::parse_header_options vector(stream.pointer(), stream.pointer() + size)" "Tins.Wire.Ip6.parseHeaderOptions_safe" [rk% "IPv6::parse_header_options(const uint8_t *, size_t) | guard | size > stream.size()"]),
  -- IPv6::routing_header::from_extension_header(const Tins::IPv6::ext_header &)
  (rk% "IPv6::routing_header::from_extension_header(const Tins::IPv6::ext_header &) | externCall | header.data.assign(stream.pointer(), stream.pointer() + stream.size())",
    .modelled "Tins.Wire.Ip6.Ipv6.decodeRouting" "IPv6::routing_header data.assign(stream.pointer(), stream.pointer() + stream.size())" "Tins.Wire.Ip6.decodeRouting_safe" []),
  -- IPv6Address::IPv6Address()
  (rk% "IPv6Address::IPv6Address() | memset | memset(address_, 0, address_size)",
    .argued "writes the object's own 16-byte array" []),
  -- IPv6Address::IPv6Address(Tins::IPv6Address::const_iterator)
  (rk% "IPv6Address::IPv6Address(Tins::IPv6Address::const_iterator) | memcpy | memcpy(address_, ptr, address_size)",
    .argued "reads 16 bytes from the pointer it is given: every caller on the parse path is a row of its own (InputMemoryStream::read(IPv6Address&) after can_read(16), Converters::convert<IPv6Address> after data_size == 16, convert<vector<IPv6Address>> inside `ptr < end` with data_size % 16 == 0)" []),
  -- Internals::Converters::convert(const uint8_t *, uint32_t, PDU::endian_type, type_to_type<HWAddress<6>>)
  (rk% "Internals::Converters::convert(const uint8_t *, uint32_t, PDU::endian_type, type_to_type<HWAddress<6>>) | ptrPass | HWAddress<6>(ptr)",
    .argued "HWAddress<6>(ptr) reads 6 bytes after data_size == 6; the Lean decoders (e.g. Icmp6.decHw) are total" [rk% "Internals::Converters::convert(const uint8_t *, uint32_t, PDU::endian_type, type_to_type<HWAddress<6>>) | guard | data_size != 6"]),
  -- Internals::Converters::convert(const uint8_t *, uint32_t, PDU::endian_type, type_to_type<Tins::IPv6Address>)
  (rk% "Internals::Converters::convert(const uint8_t *, uint32_t, PDU::endian_type, type_to_type<Tins::IPv6Address>) | ptrPass | IPv6Address(ptr)",
    .argued "IPv6Address(ptr) reads 16 bytes after data_size == 16; the Lean decoders (e.g. Dhcpv6.decIp6) are total" [rk% "Internals::Converters::convert(const uint8_t *, uint32_t, PDU::endian_type, type_to_type<Tins::IPv6Address>) | guard | data_size != IPv6Address::address_size"]),
  -- Internals::Converters::convert(const uint8_t *, uint32_t, PDU::endian_type, type_to_type<int8_t>)
  (rk% "Internals::Converters::convert(const uint8_t *, uint32_t, PDU::endian_type, type_to_type<int8_t>) | deref | *ptr",
    .argued "`*ptr` after data_size == 1: same shape as convert<uint8_t> (Tins.Wire.Transport.Tcp.decodeU8, tcp_decodeU8_safe); no typed getter of a modelled class uses int8_t" [rk% "Internals::Converters::convert(const uint8_t *, uint32_t, PDU::endian_type, type_to_type<int8_t>) | guard | data_size != 1"]),
  -- Internals::Converters::convert(const uint8_t *, uint32_t, PDU::endian_type, type_to_type<std::string>)
  (rk% "Internals::Converters::convert(const uint8_t *, uint32_t, PDU::endian_type, type_to_type<std::string>) | externCall | string(ptr, ptr + data_size)",
    .argued "string(ptr, ptr + data_size): exactly the (pointer, size) pair it was handed (optionData at every caller)" []),
  -- Internals::Converters::convert(const uint8_t *, uint32_t, PDU::endian_type, type_to_type<std::vector<IPv6Address>>)
  (rk% "Internals::Converters::convert(const uint8_t *, uint32_t, PDU::endian_type, type_to_type<std::vector<IPv6Address>>) | ptrArith | ptr + data_size",
    .modelled "Tins.Wire.Raw.Misc.addr6Loop (ptr, end as offsets)" "" "Tins.Wire.Raw.Misc.addr6List_eq / addr6List_noFault (= `chunks 16 (n / 16)` of the total decoders; Props.C01.raw_decoders_safe_misc)" [rk% "Internals::Converters::convert(const uint8_t *, uint32_t, PDU::endian_type, type_to_type<std::vector<IPv6Address>>) | guard | data_size % IPv6Address::address_size != 0", rk% "Internals::Converters::convert(const uint8_t *, uint32_t, PDU::endian_type, type_to_type<std::vector<IPv6Address>>) | guard | ptr < end"]),
  (rk% "Internals::Converters::convert(const uint8_t *, uint32_t, PDU::endian_type, type_to_type<std::vector<IPv6Address>>) | ptrArith | ptr += IPv6Address::address_size",
    .modelled "Tins.Wire.Raw.Misc.addr6Loop (ptr, end as offsets)" "" "Tins.Wire.Raw.Misc.addr6List_eq / addr6List_noFault (= `chunks 16 (n / 16)` of the total decoders; Props.C01.raw_decoders_safe_misc)" [rk% "Internals::Converters::convert(const uint8_t *, uint32_t, PDU::endian_type, type_to_type<std::vector<IPv6Address>>) | guard | data_size % IPv6Address::address_size != 0", rk% "Internals::Converters::convert(const uint8_t *, uint32_t, PDU::endian_type, type_to_type<std::vector<IPv6Address>>) | guard | ptr < end"]),
  (rk% "Internals::Converters::convert(const uint8_t *, uint32_t, PDU::endian_type, type_to_type<std::vector<IPv6Address>>) | ptrPass | IPv6Address(ptr)",
    .modelled "Tins.Wire.Raw.Misc.addr6Loop" "Converters::convert<vector<IPv6Address>> IPv6Address(ptr)" "Tins.Wire.Raw.Misc.addr6List_eq / addr6List_noFault (= `chunks 16 (n / 16)` of the total decoders; Props.C01.raw_decoders_safe_misc)" [rk% "Internals::Converters::convert(const uint8_t *, uint32_t, PDU::endian_type, type_to_type<std::vector<IPv6Address>>) | guard | data_size % IPv6Address::address_size != 0", rk% "Internals::Converters::convert(const uint8_t *, uint32_t, PDU::endian_type, type_to_type<std::vector<IPv6Address>>) | guard | ptr < end"]),
  -- Internals::Converters::convert(const uint8_t *, uint32_t, PDU::endian_type, type_to_type<std::vector<float>>)
  (rk% "Internals::Converters::convert(const uint8_t *, uint32_t, PDU::endian_type, type_to_type<std::vector<float>>) | deref | *(ptr++)",
    .modelled "Tins.Wire.Raw.Wifi.ratesLoop" "Converters::convert<vector<float>> *(ptr++)" "Tins.Wire.Raw.Wifi.rates_eq (= ok of Tagged.decodeRates, compared with supported_rates() by harness/wire_wifi.h; Props.C01.raw_decoders_safe_wifi)" [rk% "Internals::Converters::convert(const uint8_t *, uint32_t, PDU::endian_type, type_to_type<std::vector<float>>) | guard | ptr != end"]),
  (rk% "Internals::Converters::convert(const uint8_t *, uint32_t, PDU::endian_type, type_to_type<std::vector<float>>) | ptrArith | ptr + data_size",
    .modelled "Tins.Wire.Raw.Wifi.rates (end as an offset)" "" "Tins.Wire.Raw.Wifi.rates_eq (= ok of Tagged.decodeRates, compared with supported_rates() by harness/wire_wifi.h; Props.C01.raw_decoders_safe_wifi)" [rk% "Internals::Converters::convert(const uint8_t *, uint32_t, PDU::endian_type, type_to_type<std::vector<float>>) | guard | ptr != end"]),
  -- Internals::Converters::convert(const uint8_t *, uint32_t, PDU::endian_type, type_to_type<uint8_t>)
  (rk% "Internals::Converters::convert(const uint8_t *, uint32_t, PDU::endian_type, type_to_type<uint8_t>) | deref | *ptr",
    .modelled "Tins.Wire.Transport.Tcp.decodeU8" "Converters::convert<uint8_t> *ptr" "Tins.Wire.Transport.tcp_decodeU8_safe" [rk% "Internals::Converters::convert(const uint8_t *, uint32_t, PDU::endian_type, type_to_type<uint8_t>) | guard | data_size != 1"]),
  -- Internals::Converters::convert_to_integral(const uint8_t *, uint32_t, PDU::endian_type)
  (rk% "Internals::Converters::convert_to_integral(const uint8_t *, uint32_t, PDU::endian_type) | deref | *(T*)ptr",
    .modelled "Tins.Wire.Transport.Tcp.decodeU16 (T = uint16_t; uint32_t / uint64_t: the same guard data_size != sizeof(T))" "convert_to_integral<uint16_t> *(T*)ptr" "Tins.Wire.Transport.tcp_decodeU16_safe" [rk% "Internals::Converters::convert_to_integral(const uint8_t *, uint32_t, PDU::endian_type) | guard | data_size != sizeof(T)"]),
  -- Internals::PDUAllocator::allocate(Tins::Internals::PDUAllocator::id_type, const uint8_t *, uint32_t)
  (rk% "Internals::PDUAllocator::allocate(Tins::Internals::PDUAllocator::id_type, const uint8_t *, uint32_t) | externCall | (*it->second)(buffer, size)",
    .argued "calls the user-registered allocator with the (buffer, size) pair it was handed, unmodified (a call through a function pointer: the scan sees no parameter-forwarding)" []),
  -- Internals::allocate(typename pdu_tag_mapper<PDUType>::type::identifier_type, const uint8_t *, uint32_t)
  (rk% "Internals::allocate(typename pdu_tag_mapper<PDUType>::type::identifier_type, const uint8_t *, uint32_t) | externCall | PDUAllocator<typename pdu_tag_mapper<PDUType>::type>::allocate(id, buffer, size)",
    .argued "forwards (id, buffer, size) unmodified to PDUAllocator<Tag>::allocate (dependent call in a template: the scan cannot resolve the callee)" []),
  -- Internals::hw_address_to_string(const uint8_t *, size_t)
  (rk% "Internals::hw_address_to_string(const uint8_t *, size_t) | subscript | ptr[i]",
    .modelled "Tins.Wire.Raw.Misc.hwToStringLoop" "hw_address_to_string ptr[i]" "Tins.Wire.Raw.Misc.hwToString_noFault (for every count ≤ the bytes that exist; tie: `entry-raw-model` clause of Driver/C01.lean compares the text)" [rk% "Internals::hw_address_to_string(const uint8_t *, size_t) | guard | i < count"]),
  -- Internals::is_dot3(const uint8_t *, size_t)
  (rk% "Internals::is_dot3(const uint8_t *, size_t) | subscript | ptr[12]",
    .modelled "Tins.Wire.L2.Ppi.isDot3" "Internals::is_dot3 ptr[12]" "Tins.Wire.L2.isDot3_safe" []),
  -- Internals::option2class_option_data(const uint8_t *, uint32_t)
  (rk% "Internals::option2class_option_data(const uint8_t *, uint32_t) | externCall | value_type(ptr + index, ptr + index + size)",
    .modelled "Tins.Wire.Raw.Misc.classLoop" "option2class_option_data value_type(ptr + index, ptr + index + size)" "Tins.Wire.Raw.Misc.classDataRaw_eq (= ok of App.Dhcpv6.classData, which harness/wire_app.h compares with user_class / vendor_class; Props.C01.raw_decoders_safe_misc)" [rk% "Internals::option2class_option_data(const uint8_t *, uint32_t) | guard | index + 2 <= total_sz", rk% "Internals::option2class_option_data(const uint8_t *, uint32_t) | guard | index + size > total_sz", rk% "Internals::option2class_option_data(const uint8_t *, uint32_t) | guard | index != total_sz"]),
  (rk% "Internals::option2class_option_data(const uint8_t *, uint32_t) | memcpy | memcpy(&size, ptr + index, sizeof(uint16_t))",
    .modelled "Tins.Wire.Raw.Misc.classLoop" "option2class_option_data memcpy(&size, ptr + index, sizeof(uint16_t))" "Tins.Wire.Raw.Misc.classDataRaw_eq (= ok of App.Dhcpv6.classData, which harness/wire_app.h compares with user_class / vendor_class; Props.C01.raw_decoders_safe_misc)" [rk% "Internals::option2class_option_data(const uint8_t *, uint32_t) | guard | index + 2 <= total_sz", rk% "Internals::option2class_option_data(const uint8_t *, uint32_t) | guard | index + size > total_sz", rk% "Internals::option2class_option_data(const uint8_t *, uint32_t) | guard | index != total_sz"]),
  -- Internals::try_parse_icmp_extensions(Memory::InputMemoryStream &, uint32_t, Tins::ICMPExtensionsStructure &)
  (rk% "Internals::try_parse_icmp_extensions(Memory::InputMemoryStream &, uint32_t, Tins::ICMPExtensionsStructure &) | ptrArith | stream.pointer() + minimum_payload",
    .modelled "Tins.Wire.Icmp.tryParseExt (extMem := c.mem.drop off, extSize := c.size - off with off ≤ c.size by can_read)" "" "Tins.Wire.Icmp.tryParseExt_good" [rk% "Internals::try_parse_icmp_extensions(Memory::InputMemoryStream &, uint32_t, Tins::ICMPExtensionsStructure &) | guard | stream.can_read(payload_length) && payload_length >= minimum_payload", rk% "Internals::try_parse_icmp_extensions(Memory::InputMemoryStream &, uint32_t, Tins::ICMPExtensionsStructure &) | guard | stream.can_read(minimum_payload)"]),
  (rk% "Internals::try_parse_icmp_extensions(Memory::InputMemoryStream &, uint32_t, Tins::ICMPExtensionsStructure &) | ptrArith | stream.pointer() + payload_length",
    .modelled "Tins.Wire.Icmp.tryParseExt (extMem := c.mem.drop off, extSize := c.size - off with off ≤ c.size by can_read)" "" "Tins.Wire.Icmp.tryParseExt_good" [rk% "Internals::try_parse_icmp_extensions(Memory::InputMemoryStream &, uint32_t, Tins::ICMPExtensionsStructure &) | guard | stream.can_read(payload_length) && payload_length >= minimum_payload", rk% "Internals::try_parse_icmp_extensions(Memory::InputMemoryStream &, uint32_t, Tins::ICMPExtensionsStructure &) | guard | stream.can_read(minimum_payload)"]),
  (rk% "Internals::try_parse_icmp_extensions(Memory::InputMemoryStream &, uint32_t, Tins::ICMPExtensionsStructure &) | ptrPass | ICMPExtensionsStructure::validate_extensions(extensions_ptr, extensions_size)",
    .modelled "Tins.Wire.Icmp.tryParseExt (extMem := c.mem.drop off, extSize := c.size - off with off ≤ c.size by can_read)" "" "Tins.Wire.Icmp.tryParseExt_good" [rk% "Internals::try_parse_icmp_extensions(Memory::InputMemoryStream &, uint32_t, Tins::ICMPExtensionsStructure &) | guard | stream.can_read(payload_length) && payload_length >= minimum_payload", rk% "Internals::try_parse_icmp_extensions(Memory::InputMemoryStream &, uint32_t, Tins::ICMPExtensionsStructure &) | guard | stream.can_read(minimum_payload)"]),
  (rk% "Internals::try_parse_icmp_extensions(Memory::InputMemoryStream &, uint32_t, Tins::ICMPExtensionsStructure &) | ptrPass | parsed(extensions_ptr, extensions_size)",
    .modelled "Tins.Wire.Icmp.tryParseExt (extMem := c.mem.drop off, extSize := c.size - off with off ≤ c.size by can_read)" "" "Tins.Wire.Icmp.tryParseExt_good" [rk% "Internals::try_parse_icmp_extensions(Memory::InputMemoryStream &, uint32_t, Tins::ICMPExtensionsStructure &) | guard | stream.can_read(payload_length) && payload_length >= minimum_payload", rk% "Internals::try_parse_icmp_extensions(Memory::InputMemoryStream &, uint32_t, Tins::ICMPExtensionsStructure &) | guard | stream.can_read(minimum_payload)"]),
  -- LLC::LLC(const uint8_t *, uint32_t)
  (rk% "LLC::LLC(const uint8_t *, uint32_t) | deref | *stream.pointer() | x2",
    .modelled "Tins.Wire.L2.Llc.parse" "LLC::LLC *stream.pointer()" "Tins.Wire.L2.llc_parse_safe" [rk% "LLC::LLC(const uint8_t *, uint32_t) | guard | !stream"]),
  -- MPLS::MPLS(const uint8_t *, uint32_t)
  (rk% "MPLS::MPLS(const uint8_t *, uint32_t) | deref | *stream.pointer()",
    .modelled "Tins.Wire.L2.Mpls.parse" "MPLS::MPLS *stream.pointer()" "Tins.Wire.L2.mpls_parse_safe" [rk% "MPLS::MPLS(const uint8_t *, uint32_t) | guard | stream"]),
  -- Memory::InputMemoryStream::read(HWAddress<6> &)
  (rk% "Memory::InputMemoryStream::read(HWAddress<6> &) | ptrPass | pointer()",
    .modelled "Tins.Cursor.read (n = 6: every `stream.read(addr)` of a hardware address in the family models is `c.read 6`)" "InputMemoryStream::read" "Tins.Props.C01.cursor_safe" [rk% "Memory::InputMemoryStream::read(HWAddress<6> &) | guard | !can_read(address.size())"]),
  -- Memory::InputMemoryStream::read(T &)
  (rk% "Memory::InputMemoryStream::read(T &) | ptrPass | read_value(buffer_, value)",
    .modelled "Tins.Cursor.read" "InputMemoryStream::read" "Tins.Props.C01.cursor_safe (Cursor.run_safe: read keeps size ≤ mem.length)" [rk% "Memory::InputMemoryStream::read(T &) | guard | !can_read(sizeof(value))"]),
  -- Memory::InputMemoryStream::read(Tins::IPv6Address &)
  (rk% "Memory::InputMemoryStream::read(Tins::IPv6Address &) | ptrPass | pointer()",
    .modelled "Tins.Cursor.read (n = 16)" "InputMemoryStream::read" "Tins.Props.C01.cursor_safe" [rk% "Memory::InputMemoryStream::read(Tins::IPv6Address &) | guard | !can_read(IPv6Address::address_size)"]),
  -- Memory::InputMemoryStream::read(std::vector<uint8_t> &, size_t)
  (rk% "Memory::InputMemoryStream::read(std::vector<uint8_t> &, size_t) | externCall | value.assign(pointer(), pointer() + count)",
    .modelled "Tins.Cursor.read" "InputMemoryStream::read" "Tins.Props.C01.cursor_safe" [rk% "Memory::InputMemoryStream::read(std::vector<uint8_t> &, size_t) | guard | !can_read(count)"]),
  -- Memory::InputMemoryStream::read(void *, size_t)
  (rk% "Memory::InputMemoryStream::read(void *, size_t) | ptrPass | read_data(buffer_, (uint8_t*)output_buffer, output_buffer_size)",
    .modelled "Tins.Cursor.read" "InputMemoryStream::read" "Tins.Props.C01.cursor_safe" [rk% "Memory::InputMemoryStream::read(void *, size_t) | guard | !can_read(output_buffer_size)"]),
  -- Memory::InputMemoryStream::skip(size_t)
  (rk% "Memory::InputMemoryStream::skip(size_t) | ptrArith | buffer_ += size",
    .modelled "Tins.Cursor.skip" "" "Tins.Props.C01.cursor_safe (no byte is touched: only the pointer moves, by at most size_)" [rk% "Memory::InputMemoryStream::skip(size_t) | guard | TINS_UNLIKELY(size > size_)"]),
  -- Memory::read_data(const uint8_t *, uint8_t *, size_t)
  (rk% "Memory::read_data(const uint8_t *, uint8_t *, size_t) | memcpy | std::memcpy(output_buffer, buffer, size)",
    .modelled "Tins.Cursor.read (the memcpy is the `mem.take n` of the read; its only callers on the parse path are InputMemoryStream::read(void*, size_t) after can_read)" "InputMemoryStream::read" "Tins.Props.C01.cursor_safe" []),
  -- Memory::read_value(const uint8_t *, T &)
  (rk% "Memory::read_value(const uint8_t *, T &) | memcpy | std::memcpy(&value, buffer, sizeof(value))",
    .modelled "Tins.Cursor.read (n = sizeof(T); its only caller is InputMemoryStream::read<T> after can_read(sizeof(value)))" "InputMemoryStream::read" "Tins.Props.C01.cursor_safe" []),
  -- OfflinePacketFilter::matches_filter(const uint8_t *, uint32_t)
  (rk% "OfflinePacketFilter::matches_filter(const uint8_t *, uint32_t) | externCall | pcap_offline_filter(&filter_, &header, buffer)",
    .argued "hands (buffer, caplen = len = total_sz) to libpcap's pcap_offline_filter: external code, trusted base of C17 (BPF programs are bounds-checked against caplen)" []),
  (rk% "OfflinePacketFilter::matches_filter(const uint8_t *, uint32_t) | memset | memset(&header, 0, sizeof(header))",
    .argued "zeroes the local pcap_pkthdr" []),
  -- PDUOption::PDUOption(Tins::PDUOption::option_type, ForwardIterator, ForwardIterator)
  (rk% "PDUOption::PDUOption(Tins::PDUOption::option_type, ForwardIterator, ForwardIterator) | externCall | std::distance(start, end)",
    .argued "hands [start, end) on to set_payload_contents / measures it; the range is the caller's obligation: every caller on the parse path is a ptrPass row of its own, modelled by a `peek` of `end - start` bytes" []),
  (rk% "PDUOption::PDUOption(Tins::PDUOption::option_type, ForwardIterator, ForwardIterator) | ptrPass | set_payload_contents(start, end)",
    .argued "hands [start, end) on to set_payload_contents / measures it; the range is the caller's obligation: every caller on the parse path is a ptrPass row of its own, modelled by a `peek` of `end - start` bytes" []),
  -- PDUOption::PDUOption(Tins::PDUOption::option_type, size_t, const Tins::PDUOption::data_type *)
  (rk% "PDUOption::PDUOption(Tins::PDUOption::option_type, size_t, const Tins::PDUOption::data_type *) | externCall | set_payload_contents(data, data + length)",
    .argued "hands [data, data + length) on to set_payload_contents; the range is the caller's obligation: every caller on the parse path is a ptrPass row of its own, modelled by a `peek` of `length` bytes" []),
  (rk% "PDUOption::PDUOption(Tins::PDUOption::option_type, size_t, const Tins::PDUOption::data_type *) | ptrPass | set_payload_contents(data, data + length)",
    .argued "hands [data, data + length) on to set_payload_contents; the range is the caller's obligation: every caller on the parse path is a ptrPass row of its own, modelled by a `peek` of `length` bytes" []),
  -- PDUOption::set_payload_contents(ForwardIterator, ForwardIterator)
  (rk% "PDUOption::set_payload_contents(ForwardIterator, ForwardIterator) | deref | *ptr",
    .argued "copies exactly [start, end) (memcpy of total_size = distance(start, end) bytes into the 8-byte small buffer when total_size <= 8, else a `new[]` of total_size and an element-wise copy bounded by `start < end`): reads nothing outside the range it is handed; the range is what the callers' `peek`s model" [rk% "PDUOption::set_payload_contents(ForwardIterator, ForwardIterator) | guard | total_size > 65535", rk% "PDUOption::set_payload_contents(ForwardIterator, ForwardIterator) | guard | real_size_ <= small_buffer_size", rk% "PDUOption::set_payload_contents(ForwardIterator, ForwardIterator) | guard | total_size > 0", rk% "PDUOption::set_payload_contents(ForwardIterator, ForwardIterator) | guard | start < end"]),
  (rk% "PDUOption::set_payload_contents(ForwardIterator, ForwardIterator) | deref | *start | x2",
    .argued "copies exactly [start, end) (memcpy of total_size = distance(start, end) bytes into the 8-byte small buffer when total_size <= 8, else a `new[]` of total_size and an element-wise copy bounded by `start < end`): reads nothing outside the range it is handed; the range is what the callers' `peek`s model" [rk% "PDUOption::set_payload_contents(ForwardIterator, ForwardIterator) | guard | total_size > 65535", rk% "PDUOption::set_payload_contents(ForwardIterator, ForwardIterator) | guard | real_size_ <= small_buffer_size", rk% "PDUOption::set_payload_contents(ForwardIterator, ForwardIterator) | guard | total_size > 0", rk% "PDUOption::set_payload_contents(ForwardIterator, ForwardIterator) | guard | start < end"]),
  (rk% "PDUOption::set_payload_contents(ForwardIterator, ForwardIterator) | externCall | std::distance(start, end)",
    .argued "copies exactly [start, end) (memcpy of total_size = distance(start, end) bytes into the 8-byte small buffer when total_size <= 8, else a `new[]` of total_size and an element-wise copy bounded by `start < end`): reads nothing outside the range it is handed; the range is what the callers' `peek`s model" [rk% "PDUOption::set_payload_contents(ForwardIterator, ForwardIterator) | guard | total_size > 65535", rk% "PDUOption::set_payload_contents(ForwardIterator, ForwardIterator) | guard | real_size_ <= small_buffer_size", rk% "PDUOption::set_payload_contents(ForwardIterator, ForwardIterator) | guard | total_size > 0", rk% "PDUOption::set_payload_contents(ForwardIterator, ForwardIterator) | guard | start < end"]),
  (rk% "PDUOption::set_payload_contents(ForwardIterator, ForwardIterator) | memcpy | std::memcpy(payload_.small_buffer, &*start, total_size)",
    .argued "copies exactly [start, end) (memcpy of total_size = distance(start, end) bytes into the 8-byte small buffer when total_size <= 8, else a `new[]` of total_size and an element-wise copy bounded by `start < end`): reads nothing outside the range it is handed; the range is what the callers' `peek`s model" [rk% "PDUOption::set_payload_contents(ForwardIterator, ForwardIterator) | guard | total_size > 65535", rk% "PDUOption::set_payload_contents(ForwardIterator, ForwardIterator) | guard | real_size_ <= small_buffer_size", rk% "PDUOption::set_payload_contents(ForwardIterator, ForwardIterator) | guard | total_size > 0", rk% "PDUOption::set_payload_contents(ForwardIterator, ForwardIterator) | guard | start < end"]),
  (rk% "PDUOption::set_payload_contents(ForwardIterator, ForwardIterator) | ptrArith | ++ptr",
    .argued "copies exactly [start, end) (memcpy of total_size = distance(start, end) bytes into the 8-byte small buffer when total_size <= 8, else a `new[]` of total_size and an element-wise copy bounded by `start < end`): reads nothing outside the range it is handed; the range is what the callers' `peek`s model" [rk% "PDUOption::set_payload_contents(ForwardIterator, ForwardIterator) | guard | total_size > 65535", rk% "PDUOption::set_payload_contents(ForwardIterator, ForwardIterator) | guard | real_size_ <= small_buffer_size", rk% "PDUOption::set_payload_contents(ForwardIterator, ForwardIterator) | guard | total_size > 0", rk% "PDUOption::set_payload_contents(ForwardIterator, ForwardIterator) | guard | start < end"]),
  (rk% "PDUOption::set_payload_contents(ForwardIterator, ForwardIterator) | ptrArith | ++start",
    .argued "copies exactly [start, end) (memcpy of total_size = distance(start, end) bytes into the 8-byte small buffer when total_size <= 8, else a `new[]` of total_size and an element-wise copy bounded by `start < end`): reads nothing outside the range it is handed; the range is what the callers' `peek`s model" [rk% "PDUOption::set_payload_contents(ForwardIterator, ForwardIterator) | guard | total_size > 65535", rk% "PDUOption::set_payload_contents(ForwardIterator, ForwardIterator) | guard | real_size_ <= small_buffer_size", rk% "PDUOption::set_payload_contents(ForwardIterator, ForwardIterator) | guard | total_size > 0", rk% "PDUOption::set_payload_contents(ForwardIterator, ForwardIterator) | guard | start < end"]),
  -- PPI::parse_80211(const uint8_t *, uint32_t)
  (rk% "PPI::parse_80211(const uint8_t *, uint32_t) | ptrPass | Dot11::from_bytes(buffer, total_sz)",
    .modelled "Tins.Wire.L2.Ppi.dispatch (total_sz is only ever decreased, by 4 after `total_sz < sizeof(uint32_t)` was excluded)" "PPI::parse_80211" "Tins.Wire.L2.ppi_parse_safe" [rk% "PPI::parse_80211(const uint8_t *, uint32_t) | guard | total_sz < sizeof(uint32_t)"]),
  -- PPPoE::PPPoE(const uint8_t *, uint32_t)
  (rk% "PPPoE::PPPoE(const uint8_t *, uint32_t) | ptrPass | tag(opt_type, opt_len, stream.pointer())",
    .modelled "Tins.Wire.L2.PPPoE.parseTags" "PPPoE::PPPoE tag(opt_type, opt_len, stream.pointer())" "Tins.Wire.L2.pppoe_parse_safe" [rk% "PPPoE::PPPoE(const uint8_t *, uint32_t) | guard | !stream.can_read(opt_len)"]),
  -- RTP::RTP(const uint8_t *, uint32_t)
  (rk% "RTP::RTP(const uint8_t *, uint32_t) | ptrPass | Internals::pdu_from_flag( PDU::RAW, data_ptr, data_size - padding_size() )",
    .modelled "Tins.Wire.App.Rtp.finish" "RTP::RTP RawPDU" "Tins.Wire.App.rtp_parse_safe" [rk% "RTP::RTP(const uint8_t *, uint32_t) | guard | data_size > padding_size()", rk% "RTP::RTP(const uint8_t *, uint32_t) | guard | padding_size() > data_size"]),
  -- RadioTap::RadioTap(const uint8_t *, uint32_t)
  (rk% "RadioTap::RadioTap(const uint8_t *, uint32_t) | deref | *parser.current_option_ptr()",
    .modelled "Tins.Wire.Wifi.RadioTap.parse" "RadioTap::RadioTap *parser.current_option_ptr()" "Tins.Wire.Wifi.RadioTap.radiotap_parse_safe" [rk% "RadioTap::RadioTap(const uint8_t *, uint32_t) | guard | parser.skip_to_field(FLAGS)"]),
  (rk% "RadioTap::RadioTap(const uint8_t *, uint32_t) | externCall | options_payload_.assign(input.pointer(), input.pointer() + radiotap_size)",
    .modelled "Tins.Wire.Wifi.RadioTap.parse" "RadioTap::RadioTap options_payload_.assign" "Tins.Wire.Wifi.RadioTap.radiotap_parse_safe" [rk% "RadioTap::RadioTap(const uint8_t *, uint32_t) | guard | TINS_UNLIKELY(radiotap_size + sizeof(uint32_t) > input.size())", rk% "RadioTap::RadioTap(const uint8_t *, uint32_t) | guard | TINS_UNLIKELY(radiotap_size < sizeof(header_) + sizeof(uint32_t))"]),
  (rk% "RadioTap::RadioTap(const uint8_t *, uint32_t) | ptrPass | Dot11::from_bytes(input.pointer(), total_sz)",
    .modelled "Tins.Wire.Wifi.RadioTap.parse" "RadioTap::RadioTap Dot11::from_bytes" "Tins.Wire.Wifi.RadioTap.radiotap_parse_safe" [rk% "RadioTap::RadioTap(const uint8_t *, uint32_t) | guard | TINS_UNLIKELY(total_sz < sizeof(uint32_t))", rk% "RadioTap::RadioTap(const uint8_t *, uint32_t) | guard | (flags_value & FCS) != 0"]),
  (rk% "RadioTap::RadioTap(const uint8_t *, uint32_t) | ptrPass | input(buffer, total_sz)",
    .modelled "Tins.Wire.Wifi.RadioTap.parse (Cursor.ofBytes b; total_sz is reassigned only after the stream was built)" "" "Tins.Wire.Wifi.RadioTap.radiotap_parse_safe" []),
  -- RawPDU::RawPDU(const uint8_t *, uint32_t)
  (rk% "RawPDU::RawPDU(const uint8_t *, uint32_t) | externCall | payload_(pload, pload + size)",
    .modelled "Tins.Wire.parseOne \"RawPDU\" (copies exactly the (pointer, size) pair it is handed; the pair's validity is the caller's row: `Cursor.rest` / `peek` / `rdN` at every site that builds a RawPDU)" "" "Tins.Props.C01.wire_modelled_safe" []),
  -- TCP::TCP(const uint8_t *, uint32_t)
  (rk% "TCP::TCP(const uint8_t *, uint32_t) | ptrArith | buffer + (data_offset() * sizeof(uint32_t))",
    .modelled "Tins.Wire.Transport.Tcp.parse (header_end := data_offset * 4 ≤ |b| by the guard; compared only)" "" "Tins.Wire.Transport.tcp_parse_safe" [rk% "TCP::TCP(const uint8_t *, uint32_t) | guard | TINS_UNLIKELY(data_offset() * sizeof(uint32_t) > total_sz || data_offset() * sizeof(uint32_t) < sizeof(tcp_header))"]),
  (rk% "TCP::TCP(const uint8_t *, uint32_t) | ptrArith | data_start + len",
    .modelled "Tins.Wire.Transport.Tcp.parseOpts (compared with header_end only)" "" "Tins.Wire.Transport.tcp_parse_safe" []),
  (rk% "TCP::TCP(const uint8_t *, uint32_t) | ptrPass | add_option(option_type, data_start, data_start + len)",
    .modelled "Tins.Wire.Transport.Tcp.parseOpts" "TCP::TCP add_option(option_type, data_start, data_start + len)" "Tins.Wire.Transport.tcp_parse_safe" [rk% "TCP::TCP(const uint8_t *, uint32_t) | guard | TINS_UNLIKELY(data_start + len > header_end)", rk% "TCP::TCP(const uint8_t *, uint32_t) | guard | TINS_UNLIKELY(data_offset() * sizeof(uint32_t) > total_sz || data_offset() * sizeof(uint32_t) < sizeof(tcp_header))"]),
  -- TCP::add_option(Args &&...)
  (rk% "TCP::add_option(Args &&...) | externCall | options_.emplace_back(std::forward<Args>(args)...)",
    .argued "perfect forwarding of the arguments to the PDUOption constructor (C++11 emplace_back); no byte is touched here" []),
  (rk% "TCP::add_option(Args &&...) | externCall | std::forward<Args>(args) | x2",
    .argued "perfect forwarding of the arguments to the PDUOption constructor (C++11 emplace_back); no byte is touched here" []),
  -- TCP::extract_metadata(const uint8_t *, uint32_t)
  (rk% "TCP::extract_metadata(const uint8_t *, uint32_t) | arrow | header->doff",
    .modelled "Tins.Wire.Raw.Misc.tcpMetadata" "TCP::extract_metadata header->doff" "Tins.Wire.Raw.Misc.tcpMetadata_safe (Props.C01.raw_decoders_safe_misc; sizes / offsets = Gen.Layout: metadata_layout; tie: `entry-raw-model` clause of Driver/C01.lean on harness/c01_entry.cpp)" [rk% "TCP::extract_metadata(const uint8_t *, uint32_t) | guard | TINS_UNLIKELY(total_sz < sizeof(tcp_header))"]),
  (rk% "TCP::extract_metadata(const uint8_t *, uint32_t) | castToStruct | (const tcp_header*)buffer",
    .modelled "Tins.Wire.Raw.Misc.tcpMetadata (the cast reads nothing; the read through it is the arrow row)" "" "Tins.Wire.Raw.Misc.tcpMetadata_safe (Props.C01.raw_decoders_safe_misc; sizes / offsets = Gen.Layout: metadata_layout; tie: `entry-raw-model` clause of Driver/C01.lean on harness/c01_entry.cpp)" [rk% "TCP::extract_metadata(const uint8_t *, uint32_t) | guard | TINS_UNLIKELY(total_sz < sizeof(tcp_header))"]),
  -- Tins::read_encoded_dname(Tins::Memory::InputMemoryStream &)
  (rk% "Tins::read_encoded_dname(Tins::Memory::InputMemoryStream &) | externCall | output(start, terminator)",
    .modelled "Tins.Dns.readEncodedDname / findNul (std::find over [start, start + stream.size()) is a bounded rd loop, string(start, terminator) an rdN)" "" "Tins.Props.C10.soa_init_safe" [rk% "Tins::read_encoded_dname(Tins::Memory::InputMemoryStream &) | guard | terminator == end"]),
  (rk% "Tins::read_encoded_dname(Tins::Memory::InputMemoryStream &) | externCall | std::find(start, end, 0)",
    .modelled "Tins.Dns.readEncodedDname / findNul (std::find over [start, start + stream.size()) is a bounded rd loop, string(start, terminator) an rdN)" "" "Tins.Props.C10.soa_init_safe" [rk% "Tins::read_encoded_dname(Tins::Memory::InputMemoryStream &) | guard | terminator == end"]),
  (rk% "Tins::read_encoded_dname(Tins::Memory::InputMemoryStream &) | ptrArith | start + stream.size()",
    .modelled "Tins.Dns.readEncodedDname / findNul (std::find over [start, start + stream.size()) is a bounded rd loop, string(start, terminator) an rdN)" "" "Tins.Props.C10.soa_init_safe" [rk% "Tins::read_encoded_dname(Tins::Memory::InputMemoryStream &) | guard | terminator == end"]),
  -- Utils::RadioTapParser::RadioTapParser(const std::vector<uint8_t> &)
  (rk% "Utils::RadioTapParser::RadioTapParser(const std::vector<uint8_t> &) | ptrArith | start_ + buffer.size()",
    .modelled "Tins.Wire.Wifi.RtParser (buf = [start_, end_): end_ is compared only)" "" "Tins.Wire.Wifi.RadioTap.radiotap_parse_safe" []),
  -- Utils::RadioTapParser::advance_to_next_field()
  (rk% "Utils::RadioTapParser::advance_to_next_field() | arraySubscript | RADIOTAP_METADATA[current_bit_]",
    .modelled "Tins.Wire.Wifi.RtParser.advanceToNextField (rtAlign bit, `rtMeta.getD`)" "" "Tins.Wire.Wifi.RadioTap.radiotap_parse_safe" [rk% "Utils::RadioTapParser::advance_to_next_field() | guard | current_bit_ < MAX_RADIOTAP_FIELD"]),
  (rk% "Utils::RadioTapParser::advance_to_next_field() | ptrArith | start_ - sizeof(uint32_t)",
    .modelled "Tins.Wire.Wifi.RtParser.advanceToNextField ((ptr + 4) % n: arithmetic only)" "" "Tins.Wire.Wifi.RadioTap.radiotap_parse_safe" []),
  (rk% "Utils::RadioTapParser::advance_to_next_field() | ptrPass | align_buffer(radiotap_start, current_ptr_, RADIOTAP_METADATA[current_bit_].alignment)",
    .modelled "Tins.Wire.Wifi.RtParser.advanceToNextField ((ptr + 4) % n: arithmetic only)" "" "Tins.Wire.Wifi.RadioTap.radiotap_parse_safe" []),
  -- Utils::RadioTapParser::advance_to_next_namespace()
  (rk% "Utils::RadioTapParser::advance_to_next_namespace() | arrow | flags->ext",
    .modelled "Tins.Wire.Wifi.RtParser.nextNsLoop / extOf (no bounds check in the C++: the model faults when the word does not exist; radiotap_parse_safe shows it exists)" "RadioTapParser::advance_to_next_namespace flags->ext" "Tins.Wire.Wifi.RadioTap.radiotap_parse_safe" []),
  (rk% "Utils::RadioTapParser::advance_to_next_namespace() | ptrArith | flags++",
    .modelled "Tins.Wire.Wifi.RtParser.nextNsLoop (index i + 1: arithmetic only)" "" "Tins.Wire.Wifi.RadioTap.radiotap_parse_safe" []),
  -- Utils::RadioTapParser::find_options_start()
  (rk% "Utils::RadioTapParser::find_options_start() | arrow | flags->ext",
    .modelled "Tins.Wire.Wifi.RtParser.findStartLoop / extOf" "RadioTapParser::find_options_start flags->ext" "Tins.Wire.Wifi.RadioTap.radiotap_parse_safe" [rk% "Utils::RadioTapParser::find_options_start() | guard | TINS_UNLIKELY(total_sz < sizeof(RadioTapFlags)) | x2"]),
  (rk% "Utils::RadioTapParser::find_options_start() | ptrArith | ++flags",
    .modelled "Tins.Wire.Wifi.RtParser.findStartLoop (index i + 1 / result 4 * i + 4: arithmetic only)" "" "Tins.Wire.Wifi.RadioTap.radiotap_parse_safe" [rk% "Utils::RadioTapParser::find_options_start() | guard | TINS_UNLIKELY(total_sz < sizeof(RadioTapFlags)) | x2"]),
  (rk% "Utils::RadioTapParser::find_options_start() | ptrArith | reinterpret_cast<const uint8_t*>(flags) + sizeof(RadioTapFlags)",
    .modelled "Tins.Wire.Wifi.RtParser.findStartLoop (index i + 1 / result 4 * i + 4: arithmetic only)" "" "Tins.Wire.Wifi.RadioTap.radiotap_parse_safe" [rk% "Utils::RadioTapParser::find_options_start() | guard | TINS_UNLIKELY(total_sz < sizeof(RadioTapFlags)) | x2"]),
  -- Utils::RadioTapParser::get_flags_ptr()
  (rk% "Utils::RadioTapParser::get_flags_ptr() | castToStruct | (const RadioTapFlags*)(start_ + sizeof(uint32_t) * namespace_index_)",
    .modelled "Tins.Wire.Wifi.RtParser.extOf / loadFlags (offset 4 * namespace_index_; the read happens where the pointer is used)" "RadioTapParser::load_current_flags" "Tins.Wire.Wifi.RadioTap.radiotap_parse_safe" []),
  -- Utils::RadioTapParser::is_field_set(uint32_t, const Tins::Utils::RadioTapFlags *)
  (rk% "Utils::RadioTapParser::is_field_set(uint32_t, const Tins::Utils::RadioTapFlags *) | arrow | flags_union->flags_32",
    .argued "re-reads, as one 32-bit word, the present word whose `ext` bit the caller (advance_to_next_namespace) has just read through the same pointer (extOf in the model reads all 4 bytes); it only selects current_namespace_, which the wire model does not carry" []),
  (rk% "Utils::RadioTapParser::is_field_set(uint32_t, const Tins::Utils::RadioTapFlags *) | castToStruct | reinterpret_cast<const FlagsUnion*>(flags)",
    .argued "re-reads, as one 32-bit word, the present word whose `ext` bit the caller (advance_to_next_namespace) has just read through the same pointer (extOf in the model reads all 4 bytes); it only selects current_namespace_, which the wire model does not carry" []),
  -- Utils::RadioTapParser::load_current_flags()
  (rk% "Utils::RadioTapParser::load_current_flags() | memcpy | memcpy(&current_flags_, get_flags_ptr(), sizeof(current_flags_))",
    .modelled "Tins.Wire.Wifi.RtParser.loadFlags" "RadioTapParser::load_current_flags" "Tins.Wire.Wifi.RadioTap.radiotap_parse_safe" []),
  -- Utils::RadioTapParser::skip_current_field()
  (rk% "Utils::RadioTapParser::skip_current_field() | arraySubscript | RADIOTAP_METADATA[current_bit_]",
    .argued "RADIOTAP_METADATA[current_bit_] with current_bit_ < 22: callers (advance_field, skip_to_field) test current_bit_ != MAX_RADIOTAP_FIELD first; Lean side RtParser.skipCurrentField uses the total `rtSize` (getD)" []),
  (rk% "Utils::RadioTapParser::skip_current_field() | ptrArith | current_ptr_ += RADIOTAP_METADATA[current_bit_].size",
    .modelled "Tins.Wire.Wifi.RtParser.skipCurrentField (ptr + rtSize bit: arithmetic only; has_fields() compares with end_ before any use)" "" "Tins.Wire.Wifi.RadioTap.radiotap_parse_safe" []),
  -- Utils::align_buffer(const uint8_t *, const uint8_t *&, size_t)
  (rk% "Utils::align_buffer(const uint8_t *, const uint8_t *&, size_t) | ptrArith | buffer += offset",
    .modelled "Tins.Wire.Wifi.RtParser.advanceToNextField (arithmetic only)" "" "Tins.Wire.Wifi.RadioTap.radiotap_parse_safe" []),
  -- Utils::crc32(const uint8_t *, uint32_t)
  (rk% "Utils::crc32(const uint8_t *, uint32_t) | arraySubscript | crc_table[(crc ^ (data[i] >> 4)) & 0x0F]",
    .argued "index `& 0x0F` into the 16-entry table" []),
  (rk% "Utils::crc32(const uint8_t *, uint32_t) | arraySubscript | crc_table[(crc ^ data[i]) & 0x0F]",
    .argued "index `& 0x0F` into the 16-entry table" []),
  (rk% "Utils::crc32(const uint8_t *, uint32_t) | subscript | data[i] | x2",
    .modelled "Tins.Wire.Raw.Misc.crcLoop" "crc32 data[i]" "Tins.Wire.Raw.Misc.crc32Raw_eq (= Wifi.crc32 over exactly data[0 .. data_size); tie: `entry-raw-model` clause of Driver/C01.lean compares the value)" [rk% "Utils::crc32(const uint8_t *, uint32_t) | guard | i < data_size"]),
  -- Utils::sum_range(const uint8_t *, const uint8_t *)
  (rk% "Utils::sum_range(const uint8_t *, const uint8_t *) | deref | *(end - 1)",
    .modelled "Tins.Wire.Raw.Misc.sumRangeRaw" "sum_range *(end - 1)" "Tins.Wire.Raw.Misc.sumRangeRaw_eq (= Wire.sumRange over exactly [start, end), the total model every checksum writer / validate_extensions uses)" [rk% "Utils::sum_range(const uint8_t *, const uint8_t *) | guard | ((end - start) & 1) == 1", rk% "Utils::sum_range(const uint8_t *, const uint8_t *) | guard | ptr < last"]),
  (rk% "Utils::sum_range(const uint8_t *, const uint8_t *) | memcpy | memcpy(&buffer, ptr, sizeof(uint16_t))",
    .modelled "Tins.Wire.Raw.Misc.sumLoop" "sum_range memcpy(&buffer, ptr, sizeof(uint16_t))" "Tins.Wire.Raw.Misc.sumRangeRaw_eq (= Wire.sumRange over exactly [start, end), the total model every checksum writer / validate_extensions uses)" [rk% "Utils::sum_range(const uint8_t *, const uint8_t *) | guard | ((end - start) & 1) == 1", rk% "Utils::sum_range(const uint8_t *, const uint8_t *) | guard | ptr < last"]),
  (rk% "Utils::sum_range(const uint8_t *, const uint8_t *) | ptrArith | end - 1",
    .modelled "Tins.Wire.Raw.Misc.sumRangeRaw / sumLoop (last, ptr as offsets)" "" "Tins.Wire.Raw.Misc.sumRangeRaw_eq (= Wire.sumRange over exactly [start, end), the total model every checksum writer / validate_extensions uses)" [rk% "Utils::sum_range(const uint8_t *, const uint8_t *) | guard | ((end - start) & 1) == 1", rk% "Utils::sum_range(const uint8_t *, const uint8_t *) | guard | ptr < last"]),
  (rk% "Utils::sum_range(const uint8_t *, const uint8_t *) | ptrArith | ptr += sizeof(uint16_t)",
    .modelled "Tins.Wire.Raw.Misc.sumRangeRaw / sumLoop (last, ptr as offsets)" "" "Tins.Wire.Raw.Misc.sumRangeRaw_eq (= Wire.sumRange over exactly [start, end), the total model every checksum writer / validate_extensions uses)" [rk% "Utils::sum_range(const uint8_t *, const uint8_t *) | guard | ((end - start) & 1) == 1", rk% "Utils::sum_range(const uint8_t *, const uint8_t *) | guard | ptr < last"])
]

/-! ### rule rows -/

def ruleFor (s : RawSite) : Option Disposition :=
  match s.kind with
  | .forward => some (.argued ("hands on the function's own (pointer, size) parameter pair, neither of which the function modifies " ++
      "(established by the translator): the callee gets exactly what the caller was given") [])
  | .streamRest => some (.modelled "Tins.Wire.Cursor.rest (`rdN site c.mem 0 c.size`) in the caller's family model" ""
      "Tins.Props.C01.cursor_safe (size ≤ mem.length is invariant) + the family's *_parse_safe" [])
  | .optionData => some (.argued ("hands on (data_ptr(), data_size()) of one PDUOption: the option's own copy of exactly data_size() " ++
      "bytes (small buffer or heap block filled by set_payload_contents)") [])
  | _ => none

def lookup (n : Nat) : Option Disposition := (table.find? (fun r => r.1.n == n)).map (·.2)

def disposition (s : RawSite) : Option Disposition :=
  match ruleFor s with
  | some d => some d
  | none => lookup s.keyNat

/-- sites without a disposition -/
def uncovered : List RawSite := all.filter (fun s => (disposition s).isNone)

/-- every guard key cited by a row of the table -/
def citedGuards : List Key := table.flatMap (fun r => r.2.guards)

/-- cited guards that are no condition of the current source any more -/
def missingGuards : List Key := citedGuards.filter (fun g => !(guards.any (fun x => x.keyNat == g.n)))

/-- rows of the table that name no site of the current tree (stale rows: reported, not an error) -/
def stale : List String := (table.filter (fun r => !(all.any (fun s => s.keyNat == r.1.n)))).map (·.1.s)

/-- rows of the generated tables whose number is not the encoding of their key (a translator defect; must be empty) -/
def misencoded : List String :=
  (all.filter (fun s => natOfString s.key != s.keyNat)).map (·.key) ++ (guards.filter (fun g => natOfString g.key != g.keyNat)).map (·.key)

def count (tag : String) : Nat := (all.filter (fun s => ((disposition s).map (·.tag)) == some tag)).length

/-- one line per site for checks/C01.py (printed by Audit/C01Raw.lean) -/
def report : List String :=
  all.map (fun s =>
    let d := disposition s
    String.intercalate "\t" ["RAWSITE", (d.map (·.tag)).getD "NONE", s.function, toString (repr s.kind), s.expr,
      (match d with | some (.modelled _ site _ _) => site | _ => ""), (d.map (·.text)).getD "-"])

/-! ### the theorems -/

/-- clang parsed every translation unit, and the scan found a definition for every entry point that is a root -/
theorem scan_complete : Gen.RawSites.unparsed = [] := by decide

/-- **rawSites_covered** — every raw memory access site on the parse path of the current tree has a disposition.
    A raw access added to a parser (or an existing one whose expression was edited) has none, and this stops checking. -/
theorem rawSites_covered : ∀ s ∈ Gen.RawSites.all, (disposition s).isSome := by decide +kernel

/-- **guards_present** — every condition a disposition cites as the guard of a raw access is still a condition of that
    function in the current source. -/
theorem guards_present : ∀ g ∈ citedGuards, (Gen.RawSites.guards.any (fun x => x.keyNat == g.n)) = true := by decide +kernel

/-- the table is not vacuous: a made-up site has no disposition, real rows of each kind do -/
example : (disposition ⟨"IP::IP(const uint8_t *, uint32_t) | subscript | buffer[12]",
    (rk% "IP::IP(const uint8_t *, uint32_t) | subscript | buffer[12]").n, "IP::IP(const uint8_t *, uint32_t)", .subscript, "buffer[12]", 1,
    "src/ip.cpp"⟩).isNone := by decide +kernel
example : (lookup (rk% "LLC::LLC(const uint8_t *, uint32_t) | deref | *stream.pointer() | x2").n).isSome ∧
    (lookup (rk% "Internals::is_dot3(const uint8_t *, size_t) | subscript | ptr[12]").n).isSome := by decide +kernel
example : 0 < count "modelled" ∧ 0 < count "argued" := by decide +kernel

/- Named by the check when a theorem above fails: elaborating this file then prints the offending rows. -/
#eval show IO Unit from
  if !misencoded.isEmpty then
    throw (IO.userError ("translator defect, keyNat is not the encoding of key: " ++ String.intercalate " ;; " misencoded))
  else if uncovered.isEmpty && missingGuards.isEmpty then pure ()
  else throw (IO.userError (
    (if uncovered.isEmpty then "" else
      "RAW SITES WITHOUT A DISPOSITION in lean/TinsModel/Wire/RawCoverage.lean: " ++
        String.intercalate " ;; " (uncovered.map (·.key)) ++ " ;;END\n") ++
    (if missingGuards.isEmpty then "" else
      "GUARDS CITED BY lean/TinsModel/Wire/RawCoverage.lean THAT ARE GONE FROM THE SOURCE: " ++
        String.intercalate " ;; " (missingGuards.map (·.s)) ++ " ;;END\n")))

end Tins.Wire.RawCoverage
