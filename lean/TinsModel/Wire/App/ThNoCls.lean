import TinsModel.Wire.App.TheoremsFixed
import TinsModel.Wire.App.TheoremsRtp
import TinsModel.Wire.App.TheoremsDhcp
import TinsModel.Wire.App.TheoremsDhcpv6
/-
  C01 / termination of the nested constructors for the App classes that never build an inner class:
  ARP, STP, RTP, BootP, DHCP and DHCPv6 only ever return `Inner.none` or `Inner.raw` (a RawPDU), whatever the input.
  (VXLAN hands the rest to EthernetII: `vxlan_parse_consumes` in `TheoremsFixed`.)
-/
namespace Tins.Wire.App
open Tins Tins.Wire

/-- the result is never "construct class `name` on `pb`" -/
def NoCls {α} (x : Out (α × Inner)) : Prop := ∀ a name pb fb, x ≠ .ok (a, .cls name pb fb)

theorem NoCls.throw {α} (e : Exc) : NoCls (Out.throw e : Out (α × Inner)) := by
  intro a name pb fb h; cases h

theorem NoCls.fault {α} (s : String) : NoCls (Out.fault s : Out (α × Inner)) := by
  intro a name pb fb h; cases h

theorem NoCls.none {α} (a : α) : NoCls (pure (a, Inner.none) : Out (α × Inner)) := by
  intro a' name pb fb h; injection h with h; injection h with _ h; cases h

theorem NoCls.raw {α} (a : α) (r : Bytes) : NoCls (pure (a, Inner.raw r) : Out (α × Inner)) := by
  intro a' name pb fb h; injection h with h; injection h with _ h; cases h

theorem NoCls.bind {α β} {x : Out β} {f : β → Out (α × Inner)} (hf : ∀ v, NoCls (f v)) : NoCls (x >>= f) := by
  intro a name pb fb h
  cases x with
  | ok v => exact hf v a name pb fb h
  | throw e => cases h
  | fault s => cases h

theorem NoCls.ite {α} {c : Prop} [Decidable c] {x y : Out (α × Inner)} (hx : NoCls x) (hy : NoCls y) :
    NoCls (if c then x else y) := by
  split
  · exact hx
  · exact hy

/-- ARP: the bytes behind the header become a RawPDU -/
theorem arp_parse_no_cls (b : Bytes) : NoCls (Arp.parse b) := by
  unfold Arp.parse
  refine NoCls.bind (fun ⟨h, c⟩ => ?_)
  dsimp only
  exact NoCls.ite (NoCls.bind (fun r => NoCls.raw _ _)) (NoCls.none _)

/-- STP: what follows the 35-byte header is ignored -/
theorem stp_parse_no_cls (b : Bytes) : NoCls (Stp.parse b) := by
  unfold Stp.parse
  exact NoCls.bind (fun ⟨h, c⟩ => NoCls.none _)

/-- BootP -/
theorem bootp_parse_no_cls (b : Bytes) : NoCls (BootP.parse b) := by
  unfold BootP.parse
  exact NoCls.bind (fun ⟨p, c⟩ => NoCls.none _)

theorem rtp_finish_no_cls (r : Rtp) (c : Cursor) : NoCls (Rtp.finish r c) := by
  unfold Rtp.finish
  dsimp only
  exact NoCls.ite (NoCls.throw _) (NoCls.ite (NoCls.bind (fun pl => NoCls.raw _ _)) (NoCls.none _))

/-- RTP: `pdu_from_flag(PDU::RAW, …)` -/
theorem rtp_parse_no_cls (b : Bytes) : NoCls (Rtp.parse b) := by
  unfold Rtp.parse
  refine NoCls.bind (fun ⟨h, c⟩ => ?_)
  dsimp only
  refine NoCls.bind (fun ⟨csrc, c⟩ => ?_)
  dsimp only
  refine NoCls.bind (fun ⟨prof, len, ext, c⟩ => ?_)
  dsimp only
  exact NoCls.bind (fun p => rtp_finish_no_cls _ _)

/-- DHCP -/
theorem dhcp_parse_no_cls (b : Bytes) : NoCls (Dhcp.parse b) := by
  unfold Dhcp.parse
  refine NoCls.bind (fun ⟨bp, x⟩ => ?_)
  dsimp only
  refine NoCls.bind (fun c => ?_)
  refine NoCls.bind (fun ⟨m, c⟩ => ?_)
  dsimp only
  exact NoCls.ite (NoCls.throw _) (NoCls.bind (fun os => NoCls.none _))

/-- DHCPv6 -/
theorem dhcpv6_parse_no_cls (b : Bytes) : NoCls (Dhcpv6.parse b) := by
  unfold Dhcpv6.parse
  dsimp only
  refine NoCls.ite (NoCls.throw _) (NoCls.bind (fun t => ?_))
  refine NoCls.bind (fun ⟨hd, c⟩ => ?_)
  dsimp only
  refine NoCls.bind (fun ⟨l, p, c⟩ => ?_)
  dsimp only
  exact NoCls.bind (fun os => NoCls.none _)

end Tins.Wire.App
