import TinsModel.Wire.App.Raw
/- `Tins::RTP` (src/rtp.cpp, include/tins/rtp.h): 12-byte header, CSRC list, optional extension header + data,
   optional padding trailer. -/
namespace Tins.Wire.App

structure Rtp where
  h : Bytes              -- `header_` (12 bytes): V(2) P(1) X(1) CC(4) | M(1) PT(7) | seq | timestamp | ssrc
  csrc : List Nat        -- `csrc_ids_` (each element = the big-endian wire value of the stored word)
  extProfile : Nat       -- `ext_header_.profile` (host value)
  extLength : Nat        -- `ext_header_.length` (host value)
  extData : List Nat     -- `ext_data_`
  padding : Nat          -- `padding_size_`
deriving Repr, DecidableEq

namespace Rtp

def version (r : Rtp) : Nat := getU8 r.h 0 / 64
def paddingBit (r : Rtp) : Nat := getU8 r.h 0 / 32 % 2
def extensionBit (r : Rtp) : Nat := getU8 r.h 0 / 16 % 2
def csrcCount (r : Rtp) : Nat := getU8 r.h 0 % 16
def markerBit (r : Rtp) : Nat := getU8 r.h 1 / 128
def payloadType (r : Rtp) : Nat := getU8 r.h 1 % 128

/-- assignment to a bit-field of the first header byte: `width` bits at bit `shift` -/
def setBits (h : Bytes) (off shift width v : Nat) : Bytes :=
  let old := getU8 h off
  let m := 2 ^ width
  setU8 h off (old - (old / 2 ^ shift % m) * 2 ^ shift + (v % m) * 2 ^ shift)

/-- `for (i < count) { stream.read(uint32_t); push_back }` -/
def readWords : Nat → Cursor → Out (List Nat × Cursor)
  | 0, c => .ok ([], c)
  | n + 1, c => do
    let (w, c) ← c.readBE 4
    let (ws, c) ← readWords n c
    pure (w :: ws, c)

/-- `if (extension_bit() == 1) { stream.read(ext_header_); for (i < extension_length()) … }` -/
def parseExt (on : Bool) (c : Cursor) : Out (Nat × Nat × List Nat × Cursor) :=
  if on then do
    let (prof, c) ← c.readBE 2
    let (len, c) ← c.readBE 2
    let (ext, c) ← readWords len c
    pure (prof, len, ext, c)
  else pure (0, 0, [], c)

/-- `if (padding_bit() == 1) { … }`: the padding size is the last byte of the data -/
def parsePadding (on : Bool) (c : Cursor) : Out Nat :=
  if on then
    if c.size > 0 then do
      let c1 ← c.skip (c.size - 1)
      let (p, _) ← c1.readU8
      if p == 0 then .throw .malformedPacket else pure p
    else .throw .malformedPacket
  else pure 0

/-- the tail of the constructor: `data_ptr = stream.pointer()`, `data_size = stream.size()` -/
def finish (r : Rtp) (c : Cursor) : Out (Rtp × Inner) :=
  let dataSize := c.size
  if r.padding > dataSize then .throw .malformedPacket else
  if dataSize > r.padding then do
    -- Internals::pdu_from_flag(PDU::RAW, data_ptr, data_size - padding_size()): `new RawPDU`
    let pl ← c.peek "RTP::RTP RawPDU" 0 (dataSize - r.padding)
    pure (r, .raw pl)
  else pure (r, .none)

/-- `RTP::RTP(const uint8_t* buffer, uint32_t total_sz)` -/
def parse (b : Bytes) : Out (Rtp × Inner) := do
  let c := Cursor.ofBytes b
  let (h, c) ← c.read 12
  let r0 : Rtp := ⟨h, [], 0, 0, [], 0⟩
  let (csrc, c) ← readWords r0.csrcCount c
  let (prof, len, ext, c) ← parseExt (r0.extensionBit == 1) c
  let padding ← parsePadding (r0.paddingBit == 1) c
  finish ⟨h, csrc, prof, len, ext, padding⟩ c

def wordsStr (ws : List Nat) : String := joinComma (ws.map toString)

def fields (r : Rtp) : Fields :=
  [("version", toString r.version), ("padding_bit", toString r.paddingBit), ("extension_bit", toString r.extensionBit),
   ("csrc_count", toString r.csrcCount), ("marker_bit", toString r.markerBit), ("payload_type", toString r.payloadType),
   ("sequence_number", toString (getBE r.h 2 2)), ("timestamp", toString (getBE r.h 4 4)),
   ("ssrc_id", toString (getBE r.h 8 4)), ("csrc_ids", wordsStr r.csrc),
   ("extension_profile", toString r.extProfile), ("extension_length", toString r.extLength),
   ("extension_data", wordsStr r.extData), ("padding_size", toString r.padding)]

/-- `RTP::header_size()` -/
def hdr (r : Rtp) : Nat :=
  12 + 4 * r.csrc.length + (if r.extensionBit == 1 then 4 + 4 * r.extLength else 0)

/-- `RTP::trailer_size()` -/
def trl (r : Rtp) : Nat := r.padding

/-- `RTP::RTP()`: zeroed header, `version(2)` -/
def create : Rtp := ⟨setBits (List.replicate 12 0) 0 6 2 2, [], 0, 0, [], 0⟩

def writeWords (o : OutCursor) : List Nat → Out OutCursor
  | [] => .ok o
  | w :: ws => do
    let o ← o.writeBE 4 w
    writeWords o ws

def writeExt (r : Rtp) (o : OutCursor) : Out OutCursor :=
  if r.extensionBit == 1 then do
    let o ← o.writeBE 2 r.extProfile
    let o ← o.writeBE 2 r.extLength
    writeWords o r.extData
  else pure o

/-- `if (inner_pdu()) stream.skip(inner_pdu()->size())` -/
def skipInner (cx : Ctx) (o : OutCursor) : Out OutCursor :=
  if cx.inners.isEmpty then pure o else o.skip cx.innerSize

def writePadding (cx : Ctx) (r : Rtp) (o : OutCursor) : Out OutCursor :=
  if r.paddingBit == 1 then
    if r.padding > 0 then do
      let o ← skipInner cx o
      let o ← o.fill (r.padding - 1) 0
      o.write [UInt8.ofNat r.padding]
    else .throw .pduNotSerializable
  else pure o

/-- `RTP::write_serialization` -/
def write (cx : Ctx) (r : Rtp) (region : Bytes) : Out Bytes := do
  let o ← (OutCursor.ofRegion region).write r.h
  let o ← writeWords o r.csrc
  let o ← writeExt r o
  let o ← writePadding cx r o
  pure o.buffer

/-- `std::find` + `erase` -/
def eraseFirst : List Nat → Nat → List Nat
  | [], _ => []
  | x :: xs, v => if x == v then xs else x :: eraseFirst xs v

def apply (r : Rtp) : List String → Out Rtp
  | ["version", v] => do let n ← natArg v; pure { r with h := setBits r.h 0 6 2 n }
  | ["extension_bit", v] => do let n ← natArg v; pure { r with h := setBits r.h 0 4 1 n }
  | ["marker_bit", v] => do let n ← natArg v; pure { r with h := setBits r.h 1 7 1 n }
  | ["payload_type", v] => do let n ← natArg v; pure { r with h := setBits r.h 1 0 7 n }
  | ["sequence_number", v] => do let n ← natArg v; pure { r with h := setBE r.h 2 2 n }
  | ["timestamp", v] => do let n ← natArg v; pure { r with h := setBE r.h 4 4 n }
  | ["ssrc_id", v] => do let n ← natArg v; pure { r with h := setBE r.h 8 4 n }
  | ["padding_size", v] => do
    let n ← natArg v
    let n := n % 256
    pure { r with h := setBits r.h 0 5 1 (if n > 0 then 1 else 0), padding := n }
  | ["extension_profile", v] => do let n ← natArg v; pure { r with extProfile := n % 65536 }
  | ["add_extension_data", v] => do
    let n ← natArg v
    if r.extLength ≥ 65535 then .throw .stdOther else      -- std::logic_error
    pure { r with h := setBits r.h 0 4 1 1, extData := r.extData ++ [n % 4294967296],
                  extLength := (r.extLength + 1) % 65536 }
  | ["remove_extension_data", v] => do
    let n ← natArg v
    let n := n % 4294967296
    if r.extensionBit == 0 || r.extLength == 0 then pure r
    else if !r.extData.contains n then pure r
    else
      let len := (r.extLength + 65535) % 65536       -- `extension_length() - 1` as uint16_t
      let r1 := { r with extData := eraseFirst r.extData n, extLength := len }
      pure (if len == 0 then { r1 with h := setBits r1.h 0 4 1 0 } else r1)
  | ["add_csrc_id", v] => do
    let n ← natArg v
    if r.csrcCount ≥ 15 then .throw .stdOther else         -- std::logic_error
    pure { r with csrc := r.csrc ++ [n % 4294967296], h := setBits r.h 0 0 4 (r.csrcCount + 1) }
  | ["remove_csrc_id", v] => do
    let n ← natArg v
    let n := n % 4294967296
    if r.csrcCount == 0 then pure r
    else if !r.csrc.contains n then pure r
    else pure { r with csrc := eraseFirst r.csrc n, h := setBits r.h 0 0 4 (r.csrcCount - 1) }
  | _ => .throw .stdOther

def make : List String → Out Rtp
  | [] => .ok create
  | _ => .throw .stdOther

end Rtp
end Tins.Wire.App
