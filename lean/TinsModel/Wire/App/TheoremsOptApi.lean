import TinsModel.Wire.App.TheoremsReparse
import TinsModel.Wire.App.TheoremsApi
/- C02 for API histories of the option-bearing classes: every public call of DHCP / DHCPv6 / BootP modelled in `apply`
   keeps the invariant the size theorems rely on (as long as the option list stays below the 4 GiB a uint32_t counts). -/
namespace Tins.Wire.App
open Tins Tins.Wire

theorem bind_ok {α β} (x : Out α) (f : α → Out β) (r : β) (h : (x >>= f) = .ok r) : ∃ a, x = .ok a ∧ f a = .ok r := by
  cases x with
  | ok a => exact ⟨a, rfl, h⟩
  | throw e => cases h
  | fault s => cases h

/-- `add_option` keeps the invariant when the resulting list fits a `uint32_t` -/
theorem dhcp_add_fit (d : Dhcp) (o : Opt) (hi : d.Inv) (hfit : 4 + Dhcp.wireSum (d.addOption o).opts < 4294967296) :
    (d.addOption o).Inv := by
  apply dhcp_addOption_inv d o hi
  have hs := hi.size
  simp only [Dhcp.addOption, dhcp_wireSum_append, Dhcp.wireSum] at hfit
  omega

/-- **every public DHCP call keeps the invariant** -/
theorem dhcp_apply_inv (d d' : Dhcp) (op : List String) (hi : d.Inv) (hlt : d.size < 4294967296)
    (e : d.apply op = .ok d') (hfit : 4 + Dhcp.wireSum d'.opts < 4294967296) : d'.Inv := by
  unfold Dhcp.apply at e
  split at e
  -- add_option
  · obtain ⟨c, _, e⟩ := bind_ok _ _ _ e
    obtain ⟨b, _, e⟩ := bind_ok _ _ _ e
    simp only [Out.pure_eq] at e; injection e with e; subst e; exact dhcp_add_fit d _ hi hfit
  -- remove_option
  · obtain ⟨c, _, e⟩ := bind_ok _ _ _ e
    simp only [Out.pure_eq] at e; injection e with e; subst e; exact dhcp_removeOption_inv d _ hi hlt
  -- type
  · obtain ⟨c, _, e⟩ := bind_ok _ _ _ e
    simp only [Out.pure_eq] at e; injection e with e; subst e; exact dhcp_add_fit d _ hi hfit
  -- end
  · simp only [Out.pure_eq] at e; injection e with e; subst e; exact dhcp_add_fit d _ hi hfit
  -- the typed setters: one argument, one `add_option`
  all_goals first
    | (obtain ⟨c, _, e⟩ := bind_ok _ _ _ e
       simp only [Out.pure_eq] at e; injection e with e; subst e; exact dhcp_add_fit d _ hi hfit)
    | skip
  -- BootP header setters
  · split at e
    · rename_i r hr
      obtain ⟨h', hh, e⟩ := bind_ok _ _ _ e
      simp only [Out.pure_eq] at e; injection e with e; subst e
      exact ⟨bootp_setHeader_length d.h h' _ r hi.hlen hr hh, hi.size⟩
    · cases e

theorem dhcpv6_add_fit (d : Dhcpv6) (o : Opt) (hi : d.Inv) (hfit : Dhcpv6.wireSum (d.addOption o).opts < 4294967296) :
    (d.addOption o).Inv := by
  apply dhcpv6_addOption_inv d o hi
  have hs := hi.size
  simp only [Dhcpv6.addOption, dhcpv6_wireSum_append, Dhcpv6.wireSum] at hfit
  omega

/-- **every public DHCPv6 call keeps the invariant** -/
theorem dhcpv6_apply_inv (d d' : Dhcpv6) (op : List String) (hi : d.Inv) (hlt : d.optsSize < 4294967296)
    (e : d.apply op = .ok d') (hfit : Dhcpv6.wireSum d'.opts < 4294967296) : d'.Inv := by
  unfold Dhcpv6.apply at e
  split at e
  -- msg_type, hop_count, transaction_id: the 4 header bytes stay 4 bytes
  · obtain ⟨n, _, e⟩ := bind_ok _ _ _ e
    simp only [Out.pure_eq] at e; injection e with e; subst e
    exact ⟨by simp only; rw [setU8_length _ _ _ (by have := hi.hlen; omega)]; exact hi.hlen, hi.link, hi.peer, hi.size⟩
  · obtain ⟨n, _, e⟩ := bind_ok _ _ _ e
    simp only [Out.pure_eq] at e; injection e with e; subst e
    exact ⟨by simp only; rw [setU8_length _ _ _ (by have := hi.hlen; omega)]; exact hi.hlen, hi.link, hi.peer, hi.size⟩
  · obtain ⟨n, _, e⟩ := bind_ok _ _ _ e
    simp only [Out.pure_eq] at e; injection e with e; subst e
    exact ⟨by simp only; rw [setBE_length _ _ _ _ (by have := hi.hlen; omega)]; exact hi.hlen, hi.link, hi.peer, hi.size⟩
  -- peer_address, link_address
  · obtain ⟨b, hb, e⟩ := bind_ok _ _ _ e
    simp only [Out.pure_eq] at e; injection e with e; subst e
    exact ⟨hi.hlen, hi.link, hexArgN_ok _ _ _ hb, hi.size⟩
  · obtain ⟨b, hb, e⟩ := bind_ok _ _ _ e
    simp only [Out.pure_eq] at e; injection e with e; subst e
    exact ⟨hi.hlen, hexArgN_ok _ _ _ hb, hi.peer, hi.size⟩
  -- add_option
  · obtain ⟨c, _, e⟩ := bind_ok _ _ _ e
    obtain ⟨b, _, e⟩ := bind_ok _ _ _ e
    simp only [Out.pure_eq] at e; injection e with e; subst e; exact dhcpv6_add_fit d _ hi hfit
  -- remove_option
  · obtain ⟨c, _, e⟩ := bind_ok _ _ _ e
    simp only [Out.pure_eq] at e; injection e with e; subst e; exact dhcpv6_removeOption_inv d _ hi hlt
  -- the typed setters: up to five arguments, one `add_option`
  all_goals first
    | (simp only [Out.pure_eq] at e; injection e with e; subst e; exact dhcpv6_add_fit d _ hi hfit)
    | (obtain ⟨a1, _, e⟩ := bind_ok _ _ _ e
       simp only [Out.pure_eq] at e; injection e with e; subst e; exact dhcpv6_add_fit d _ hi hfit)
    | (obtain ⟨a1, _, e⟩ := bind_ok _ _ _ e
       obtain ⟨a2, _, e⟩ := bind_ok _ _ _ e
       simp only [Out.pure_eq] at e; injection e with e; subst e; exact dhcpv6_add_fit d _ hi hfit)
    | (obtain ⟨a1, _, e⟩ := bind_ok _ _ _ e
       obtain ⟨a2, _, e⟩ := bind_ok _ _ _ e
       obtain ⟨a3, _, e⟩ := bind_ok _ _ _ e
       simp only [Out.pure_eq] at e; injection e with e; subst e; exact dhcpv6_add_fit d _ hi hfit)
    | (obtain ⟨a1, _, e⟩ := bind_ok _ _ _ e
       obtain ⟨a2, _, e⟩ := bind_ok _ _ _ e
       obtain ⟨a3, _, e⟩ := bind_ok _ _ _ e
       obtain ⟨a4, _, e⟩ := bind_ok _ _ _ e
       simp only [Out.pure_eq] at e; injection e with e; subst e; exact dhcpv6_add_fit d _ hi hfit)
    | (obtain ⟨a1, _, e⟩ := bind_ok _ _ _ e
       obtain ⟨a2, _, e⟩ := bind_ok _ _ _ e
       obtain ⟨a3, _, e⟩ := bind_ok _ _ _ e
       obtain ⟨a4, _, e⟩ := bind_ok _ _ _ e
       obtain ⟨a5, _, e⟩ := bind_ok _ _ _ e
       simp only [Out.pure_eq] at e; injection e with e; subst e; exact dhcpv6_add_fit d _ hi hfit)
    | cases e

/-- every BootP call keeps the header image at 236 bytes -/
theorem bootp_apply_inv (p p' : BootP) (op : List String) (hi : p.Inv) (e : p.apply op = .ok p') : p'.Inv := by
  unfold BootP.apply at e
  split at e
  · obtain ⟨b, _, e⟩ := bind_ok _ _ _ e
    simp only [Out.pure_eq] at e; injection e with e; subst e; exact hi
  · split at e
    · rename_i r hr
      obtain ⟨h', hh, e⟩ := bind_ok _ _ _ e
      simp only [Out.pure_eq] at e; injection e with e; subst e
      exact bootp_setHeader_length p.h h' _ r hi hr hh
    · cases e

end Tins.Wire.App
