import TinsModel.Wire.App.TheoremsCodec
/-
  C04, codec half (WCodec): the typed DHCP / DHCPv6 option codecs that were modelled and compared but had no inverse theorem:
  DHCPv6 `ia_na`, `ia_address`, `option_request`; DHCP `routers` / `domain_name_servers` (address lists of any length).
  Still correspondence-only: DHCPv6 `authentication` (see tools/CODEC-INVENTORY.md).
-/
namespace Tins.Wire.App
open Tins Tins.Wire

theorem slice_skip (a r : Bytes) (n i k : Nat) (h : a.length = n) : slice (a ++ r) (i + n) k = slice r i k := by
  subst h; unfold slice
  rw [show i + a.length = a.length + i by omega, List.drop_append, List.drop_eq_nil_of_le (by omega)]; simp

theorem drop_skip (a r : Bytes) (n i : Nat) (h : a.length = n) : (a ++ r).drop (i + n) = r.drop i := by
  subst h; rw [show i + a.length = a.length + i by omega, List.drop_append, List.drop_eq_nil_of_le (by omega)]; simp

theorem be32_len (v : Nat) : (Dhcpv6.be32 v).length = 4 := by simp [Dhcpv6.be32]

theorem be32_val (v : Nat) (r : Bytes) : Cursor.beNat (slice (Dhcpv6.be32 v ++ r) 0 4) = v % 4294967296 := by
  have := slice_first (Dhcpv6.be32 v) r
  rw [be32_len] at this
  rw [this, Dhcpv6.be32, beNat_beBytes]

/-- **`ia_na`**: IAID, T1, T2 and the nested options (any octets) -/
theorem decIaNa_enc (id t1 t2 : Nat) (opts : Bytes) :
    Dhcpv6.decIaNa (Dhcpv6.be32 id ++ Dhcpv6.be32 t1 ++ Dhcpv6.be32 t2 ++ opts) =
      .val s!"{id % 4294967296}.{t1 % 4294967296}.{t2 % 4294967296}.{hexStr opts}" := by
  have e : Dhcpv6.be32 id ++ Dhcpv6.be32 t1 ++ Dhcpv6.be32 t2 ++ opts =
      Dhcpv6.be32 id ++ (Dhcpv6.be32 t1 ++ (Dhcpv6.be32 t2 ++ opts)) := by simp
  rw [e]
  have hl : ¬ (Dhcpv6.be32 id ++ (Dhcpv6.be32 t1 ++ (Dhcpv6.be32 t2 ++ opts))).length < 12 := by
    simp only [List.length_append, be32_len]; omega
  have s0 := be32_val id (Dhcpv6.be32 t1 ++ (Dhcpv6.be32 t2 ++ opts))
  have s1 : Cursor.beNat (slice (Dhcpv6.be32 id ++ (Dhcpv6.be32 t1 ++ (Dhcpv6.be32 t2 ++ opts))) 4 4) = t1 % 4294967296 := by
    rw [slice_skip _ _ 4 0 4 (be32_len _), be32_val]
  have s2 : Cursor.beNat (slice (Dhcpv6.be32 id ++ (Dhcpv6.be32 t1 ++ (Dhcpv6.be32 t2 ++ opts))) 8 4) = t2 % 4294967296 := by
    rw [slice_skip _ _ 4 4 4 (be32_len _), slice_skip _ _ 4 0 4 (be32_len _), be32_val]
  have d : (Dhcpv6.be32 id ++ (Dhcpv6.be32 t1 ++ (Dhcpv6.be32 t2 ++ opts))).drop 12 = opts := by
    rw [drop_skip _ _ 4 8 (be32_len _), drop_skip _ _ 4 4 (be32_len _), drop_skip _ _ 4 0 (be32_len _), List.drop_zero]
  simp only [Dhcpv6.decIaNa, hl, if_false, s0, s1, s2, d]

example : Dhcpv6.decIaNa (Dhcpv6.be32 4294967295 ++ Dhcpv6.be32 1 ++ Dhcpv6.be32 0 ++ [1, 2]) = .val "4294967295.1.0.0102" := by decide

/-- **`ia_address`**: address, preferred / valid lifetime, nested options -/
theorem decIaAddr_enc (a : Bytes) (p v : Nat) (opts : Bytes) (ha : a.length = 16) :
    Dhcpv6.decIaAddr (a ++ Dhcpv6.be32 p ++ Dhcpv6.be32 v ++ opts) =
      .val s!"{hexStr a}.{p % 4294967296}.{v % 4294967296}.{hexStr opts}" := by
  have e : a ++ Dhcpv6.be32 p ++ Dhcpv6.be32 v ++ opts = a ++ (Dhcpv6.be32 p ++ (Dhcpv6.be32 v ++ opts)) := by simp
  rw [e]
  have hl : ¬ (a ++ (Dhcpv6.be32 p ++ (Dhcpv6.be32 v ++ opts))).length < 24 := by
    simp only [List.length_append, be32_len, ha]; omega
  have s0 : slice (a ++ (Dhcpv6.be32 p ++ (Dhcpv6.be32 v ++ opts))) 0 16 = a := by
    have := slice_first a (Dhcpv6.be32 p ++ (Dhcpv6.be32 v ++ opts)); rwa [ha] at this
  have s1 : Cursor.beNat (slice (a ++ (Dhcpv6.be32 p ++ (Dhcpv6.be32 v ++ opts))) 16 4) = p % 4294967296 := by
    rw [slice_skip _ _ 16 0 4 ha, be32_val]
  have s2 : Cursor.beNat (slice (a ++ (Dhcpv6.be32 p ++ (Dhcpv6.be32 v ++ opts))) 20 4) = v % 4294967296 := by
    rw [slice_skip _ _ 16 4 4 ha, slice_skip _ _ 4 0 4 (be32_len _), be32_val]
  have d : (a ++ (Dhcpv6.be32 p ++ (Dhcpv6.be32 v ++ opts))).drop 24 = opts := by
    rw [drop_skip _ _ 16 8 ha, drop_skip _ _ 4 4 (be32_len _), drop_skip _ _ 4 0 (be32_len _), List.drop_zero]
  simp only [Dhcpv6.decIaAddr, hl, if_false, s0, s1, s2, d]

/-- `chunks2` reads back a list of 16-bit values of ANY length -/
theorem chunks2_enc (l : List Nat) (tail : Bytes) :
    Dhcpv6.chunks2 l.length ((l.map Dhcpv6.be16).flatten ++ tail) = l.map (· % 65536) := by
  induction l with
  | nil => rfl
  | cons x xs ih =>
    have h2 : (Dhcpv6.be16 x).length = 2 := by simp [Dhcpv6.be16]
    simp only [List.length_cons, Dhcpv6.chunks2, List.map_cons, List.flatten_cons, List.append_assoc]
    rw [← h2, List.take_append_length, List.drop_append_length, ih]
    simp [Dhcpv6.be16, beNat_beBytes]

/-- **`option_request`**: any list of option codes (16 bits each; the empty list too) -/
theorem decU16List_enc (l : List Nat) (h : ∀ x ∈ l, x < 65536) :
    Dhcpv6.decU16List (l.map Dhcpv6.be16).flatten = .val (joinComma (l.map toString)) := by
  have hlen : (l.map Dhcpv6.be16).flatten.length = 2 * l.length := by
    induction l with
    | nil => rfl
    | cons x xs ih =>
      simp only [List.map_cons, List.flatten_cons, List.length_append, List.length_cons,
        ih (fun y hy => h y (List.mem_cons_of_mem _ hy))]
      simp [Dhcpv6.be16]; omega
  have hc := chunks2_enc l []
  rw [List.append_nil] at hc
  have hm : l.map (· % 65536) = l := by
    conv => rhs; rw [← List.map_id l]
    exact List.map_congr_left (fun x hx => Nat.mod_eq_of_lt (h x hx))
  have c0 : (2 * l.length % 2 != 0) = false := by simp
  have c1 : 2 * l.length / 2 = l.length := by omega
  simp only [Dhcpv6.decU16List, hlen, c0, Bool.false_eq_true, if_false, c1, hc, hm]

example : Dhcpv6.decU16List ([1, 65535, 0].map Dhcpv6.be16).flatten = .val "1,65535,0" := by decide

/-- `chunks4` reads back a list of IPv4 addresses of ANY length -/
theorem chunks4_enc (l : List Bytes) (h : ∀ x ∈ l, x.length = 4) (tail : Bytes) :
    Dhcp.chunks4 l.length (l.flatten ++ tail) = l := by
  induction l with
  | nil => rfl
  | cons x xs ih =>
    have hx := h x List.mem_cons_self
    simp only [List.length_cons, Dhcp.chunks4, List.flatten_cons, List.append_assoc]
    rw [← hx, List.take_append_length, List.drop_append_length, ih (fun y hy => h y (List.mem_cons_of_mem _ hy))]

theorem flatten4_length (l : List Bytes) (h : ∀ x ∈ l, x.length = 4) : l.flatten.length = 4 * l.length := by
  induction l with
  | nil => rfl
  | cons x xs ih =>
    have ih' := ih (fun y hy => h y (List.mem_cons_of_mem _ hy))
    have hx := h x List.mem_cons_self
    simp only [List.flatten_cons, List.length_append, List.length_cons]
    omega

/-- **`routers` / `domain_name_servers`** (and every other address-list option): the getter of an option whose data is the
    concatenation of the addresses returns the list — any length (through the wire: at most 63 addresses, KF-WApp-6) -/
theorem dhcp_iplist_roundtrip (os : List Opt) (code : Nat) (l : List Bytes) (h : ∀ x ∈ l, x.length = 4) (lf : Nat)
    (hf : findOpt os code = some ⟨code, lf, l.flatten⟩) :
    Dhcp.getIpListOpt os code = joinComma (l.map hexStr) := by
  have hlen := flatten4_length l h
  have hc := chunks4_enc l h []
  rw [List.append_nil] at hc
  have c0 : (4 * l.length % 4 == 0) = true := by simp
  have c1 : 4 * l.length / 4 = l.length := by omega
  simp only [Dhcp.getIpListOpt, hf, hlen, c0, if_true, c1, hc]

example : Dhcp.getIpListOpt [⟨3, 8, [10, 0, 0, 1, 10, 0, 0, 2]⟩] 3 = "0a000001,0a000002" := by decide

end Tins.Wire.App
