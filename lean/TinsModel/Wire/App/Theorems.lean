import TinsModel.Wire.App.TheoremsFixed
import TinsModel.Wire.App.TheoremsRtp
import TinsModel.Wire.App.TheoremsRtpReparse
import TinsModel.Wire.App.TheoremsRtpApi
import TinsModel.Wire.App.TheoremsDhcp
import TinsModel.Wire.App.TheoremsDhcpv6
import TinsModel.Wire.App.TheoremsCodec
import TinsModel.Wire.App.TheoremsCodec2
import TinsModel.Wire.App.TheoremsReparse
import TinsModel.Wire.App.TheoremsApi
import TinsModel.Wire.App.TheoremsOptApi
import TinsModel.Wire.App.TheoremsExamples
import TinsModel.Wire.App.ThFamily
/-
  Per-layer theorems of the App family for the four wire properties (C01 parse_safe, C02 writesOnly, C03 reparse,
  C04 codec inverses).  This module only gathers the per-class files (it is what `Props/C01..C04` import):
    TheoremsFixed   — ARP, VXLAN, STP, BootP (fixed headers)
    TheoremsRtp     — RTP (CSRC list, extension header, padding trailer)
    TheoremsRtpReparse — C03 for RTP
    TheoremsRtpApi  — RTP setters keep the invariant (C02 for API histories)
    TheoremsDhcp    — DHCP (TLV options, cached `size_`)
    TheoremsDhcpv6  — DHCPv6 (TLV options, cached `options_size_`)
    TheoremsReparse — C03: TLV round trips of DHCP / DHCPv6 option lists, write → parse end to end; DHCPv6 invariant
    TheoremsApi     — C02/C04 for API histories of the fixed-header classes: setters keep the invariant, getters read
                      back the last value set, other members untouched
    TheoremsOptApi  — DHCP / DHCPv6 / BootP: every modelled public call keeps the invariant
    TheoremsExamples — non-vacuity: concrete non-trivial inputs/states satisfying the theorems' hypotheses
    ThNoCls         — C01: ARP, STP, RTP, BootP, DHCP, DHCPv6 never build an inner class (chain termination)
    ThOptInv        — DHCP / DHCPv6: the `uint32_t` (modular) size invariant, established by every parse, kept by every call
    ThFamily        — family-level theorems over `App.parse/hdr/trl/write/mk/apply` (what the registry dispatches to)
    TheoremsCodec   — C04: option look-up after add/remove, typed option codecs of DHCP and DHCPv6
  Every theorem is listed with `#print axioms` in lean/Audit/WireApp.lean.
-/
