import TinsModel.Wire.App.Raw
/- `Tins::ARP` (src/arp.cpp, include/tins/arp.h): a packed 28-byte `arp_header`, no options. -/
namespace Tins.Wire.App

structure Arp where
  h : Bytes        -- `header_` (28 bytes)
deriving Repr, DecidableEq

namespace Arp

def hdrSize : Nat := 28

/-- `ARP::ARP(const uint8_t* buffer, uint32_t total_sz)` -/
def parse (b : Bytes) : Out (Arp × Inner) := do
  let c := Cursor.ofBytes b
  let (h, c) ← c.read hdrSize                 -- stream.read(header_)
  if c.toBool then
    let rest ← Cursor.rest "ARP::ARP RawPDU" c
    pure (⟨h⟩, .raw rest)
  else pure (⟨h⟩, .none)

def hwFmt (a : Arp) : Nat := getBE a.h 0 2
def protFmt (a : Arp) : Nat := getBE a.h 2 2
def hwLen (a : Arp) : Nat := getU8 a.h 4
def protLen (a : Arp) : Nat := getU8 a.h 5
def opcode (a : Arp) : Nat := getBE a.h 6 2
def senderHw (a : Arp) : Bytes := slice a.h 8 6
def senderIp (a : Arp) : Bytes := slice a.h 14 4
def targetHw (a : Arp) : Bytes := slice a.h 18 6
def targetIp (a : Arp) : Bytes := slice a.h 24 4

def fields (a : Arp) : Fields :=
  [("hw_addr_format", toString a.hwFmt), ("prot_addr_format", toString a.protFmt),
   ("hw_addr_length", toString a.hwLen), ("prot_addr_length", toString a.protLen),
   ("opcode", toString a.opcode),
   ("sender_hw_addr", hexStr a.senderHw), ("sender_ip_addr", hexStr a.senderIp),
   ("target_hw_addr", hexStr a.targetHw), ("target_ip_addr", hexStr a.targetIp)]

/-- `ARP::ARP(target_ip, sender_ip, target_hw, sender_hw)`: `header_()` then the eight setters -/
def create (tip sip thw shw : Bytes) : Arp :=
  let h := List.replicate 28 (0 : UInt8)
  let h := setBE h 0 2 1            -- hw_addr_format(Constants::ARP::ETHER)
  let h := setBE h 2 2 2048         -- prot_addr_format(Constants::Ethernet::IP)
  let h := setU8 h 4 6
  let h := setU8 h 5 4
  let h := patch h 14 sip
  let h := patch h 24 tip
  let h := patch h 8 shw
  let h := patch h 18 thw
  ⟨h⟩

/-- `ARP::write_serialization`: `stream.write(header_)` -/
def write (_cx : Ctx) (a : Arp) (region : Bytes) : Out Bytes := writeAtStart region a.h

/-- the setters, on the raw header struct -/
def applyH (h : Bytes) : List String → Out Bytes
  | ["hw_addr_format", v] => setNum h 0 2 v
  | ["prot_addr_format", v] => setNum h 2 2 v
  | ["hw_addr_length", v] => setNum h 4 1 v
  | ["prot_addr_length", v] => setNum h 5 1 v
  | ["opcode", v] => setNum h 6 2 v
  | ["sender_hw_addr", v] => setHex h 8 6 v
  | ["sender_ip_addr", v] => setHex h 14 4 v
  | ["target_hw_addr", v] => setHex h 18 6 v
  | ["target_ip_addr", v] => setHex h 24 4 v
  | _ => .throw .stdOther

def apply (a : Arp) (op : List String) : Out Arp := do
  let h ← applyH a.h op
  pure ⟨h⟩

def make : List String → Out Arp
  | [] => .ok (create (List.replicate 4 0) (List.replicate 4 0) (List.replicate 6 0) (List.replicate 6 0))
  | [tip, sip, thw, shw] => do
    let tip ← hexArgN tip 4
    let sip ← hexArgN sip 4
    let thw ← hexArgN thw 6
    let shw ← hexArgN shw 6
    pure (create tip sip thw shw)
  | _ => .throw .stdOther

end Arp
end Tins.Wire.App
