import TinsModel.Wire.App.TheoremsOptApi
/-
  DHCP / DHCPv6: the invariant as the C++ really keeps it.  `size_` / `options_size_` are `uint32_t` counters that
  `add_option` / `remove_option` update with wrap-around, so what parsing establishes and the API preserves — for every
  input and every history — is the *modular* equation `size_ = (4 + Σ wire sizes) mod 2³²` (`InvM`).  The exact equation
  `Dhcp.Inv` / `Dhcpv6.Inv` the C02 theorems use is `InvM` together with `Fits` (the option list is below the 4 GiB a
  `uint32_t` can count — always true of a packet parsed from a `uint32_t`-sized buffer).
-/
namespace Tins.Wire.App
open Tins Tins.Wire

/-! ## DHCP -/

structure Dhcp.InvM (d : Dhcp) : Prop where
  hlen : d.h.length = 236
  size : d.size = (4 + Dhcp.wireSum d.opts) % 4294967296

/-- the option list (with the magic cookie) fits what `uint32_t size_` can count -/
def Dhcp.Fits (d : Dhcp) : Prop := 4 + Dhcp.wireSum d.opts < 4294967296

theorem dhcp_inv_of_invM (d : Dhcp) (hi : d.InvM) (hf : d.Fits) : d.Inv :=
  ⟨hi.hlen, by rw [hi.size]; exact Nat.mod_eq_of_lt hf⟩

theorem dhcp_invM_of_inv (d : Dhcp) (hi : d.Inv) (hf : d.Fits) : d.InvM :=
  ⟨hi.hlen, by rw [hi.size]; exact (Nat.mod_eq_of_lt hf).symm⟩

/-- the running `size_ += …` of the parsing constructor, with the `uint32_t` wrap -/
theorem dhcp_sizeAfter_mod (s : Nat) (os : List Opt) (hs : s < 4294967296) :
    Dhcp.sizeAfter s os = (s + Dhcp.wireSum os) % 4294967296 := by
  unfold Dhcp.sizeAfter
  induction os generalizing s with
  | nil => simp only [List.foldl_nil, Dhcp.wireSum]; omega
  | cons o os ih =>
    simp only [List.foldl_cons, Dhcp.wireSum]
    rw [ih _ (Nat.mod_lt _ (by decide))]
    omega

/-- **the parsing constructor establishes the invariant** — for every byte string -/
theorem dhcp_parse_invM (b : Bytes) (d : Dhcp) (i : Inner) (h : Dhcp.parse b = .ok (d, i)) : d.InvM := by
  unfold Dhcp.parse at h
  rcases bootp_parseWith_safe b 0 with ⟨p, c, e, _, hh, _, hlen⟩ | e
  · simp only [e, bind, Out.bind] at h
    rcases Cursor.skip_spec (Cursor.ofBytes b) (BootP.hdrSize + p.vend.length - p.vend.length) (Cursor.ofBytes_inv b)
      with ⟨c1, e1, i1, hs1, _⟩ | ⟨e1, _⟩
    · simp only [e1] at h
      rcases Cursor.read_spec c1 4 i1 with ⟨m, c2, e2, i2, _, hs2, hn2, _⟩ | ⟨e2, _⟩
      · simp only [e2] at h
        split at h
        · cases h
        · cases e3 : Dhcp.parseOpts c2.size c2 with
          | ok os =>
            simp only [e3] at h
            injection h with h; injection h with h _; subst h
            refine ⟨?_, ?_⟩
            · simp only [hh, List.length_take]; omega
            · exact dhcp_sizeAfter_mod 4 os (by decide)
          | throw e => simp only [e3] at h; cases h
          | fault s => simp only [e3] at h; cases h
      · simp only [e2] at h; cases h
    · simp only [e1] at h; cases h
  · simp only [e, bind, Out.bind] at h; cases h

/-- a packet parsed from a buffer a `uint32_t` can describe fits -/
theorem dhcp_parse_fits (b : Bytes) (hb : b.length < 4294967296) (d : Dhcp) (i : Inner) (h : Dhcp.parse b = .ok (d, i)) :
    d.Fits := by
  have hi := dhcp_parse_inv b hb d i h
  have hm := dhcp_parse_invM b d i h
  have h1 := hi.size
  have h2 := hm.size
  unfold Dhcp.Fits
  omega

theorem dhcp_create_invM : Dhcp.create.InvM := by
  refine ⟨?_, ?_⟩
  · have h0 : (List.replicate 236 (0 : UInt8)).length = 236 := List.length_replicate
    have h1 := setU8_length (List.replicate 236 0) 0 1 (by omega)
    have h2 := setU8_length (setU8 (List.replicate 236 0) 0 1) 1 1 (by omega)
    have h3 := setU8_length (setU8 (setU8 (List.replicate 236 0) 0 1) 1 1) 2 6 (by omega)
    simp only [Dhcp.create]; omega
  · simp only [Dhcp.create, Dhcp.wireSum]

theorem dhcp_create_fits : Dhcp.create.Fits := by simp [Dhcp.Fits, Dhcp.create, Dhcp.wireSum]

/-- `add_option` keeps the modular invariant — unconditionally -/
theorem dhcp_addOption_invM (d : Dhcp) (o : Opt) (hi : d.InvM) : (d.addOption o).InvM := by
  refine ⟨hi.hlen, ?_⟩
  have hs := hi.size
  simp only [Dhcp.addOption, dhcp_wireSum_append, Dhcp.wireSum]
  omega

/-- `remove_option` keeps it whenever the subtraction `size_ -= …` is the `uint32_t` one, i.e. the removed option is not
    larger than `size_ + 2³²` (in C++ an option holds at most 65535 bytes) — in particular when the list fits -/
theorem dhcp_removeOption_invM (d : Dhcp) (code : Nat) (hi : d.InvM) (hf : d.Fits) : (d.removeOption code).InvM := by
  unfold Dhcp.removeOption
  cases hfo : findOpt d.opts code with
  | none => exact hi
  | some o =>
    refine ⟨hi.hlen, ?_⟩
    have := dhcp_erase_wireSum d.opts code o hfo
    have hs := hi.size
    unfold Dhcp.Fits at hf
    simp only
    omega

/-- the statement of `dhcp_removeOption_invM` without the side condition -/
def dhcp_removeOption_invM_all : Prop := ∀ (d : Dhcp) (code : Nat), d.InvM → (d.removeOption code).InvM

/-- … is false *in the model*: the model's option payloads are unbounded byte strings, and for an option of 8 GiB the
    model's `(size_ + 2³² - n) % 2³²` (truncated subtraction on `Nat`) is not the `uint32_t` subtraction.  This is not
    a libtins defect: a `PDUOption` stores its size in a `uint16_t` and refuses payloads above 65535 bytes
    (`option_payload_too_large`), so `n ≤ 65537` there. -/
theorem dhcp_removeOption_invM_all_fails : ¬ dhcp_removeOption_invM_all := by
  intro h
  obtain ⟨data, hd⟩ : ∃ data : Bytes, data.length = 8589934592 := ⟨List.replicate 8589934592 0, List.length_replicate⟩
  have hw : Dhcp.optWire ⟨1, 0, data⟩ = 8589934594 := by simp [Dhcp.optWire, Dhcp.single, hd]
  have hi : Dhcp.InvM ⟨List.replicate 236 0, [], [⟨1, 0, data⟩], 6⟩ :=
    ⟨List.length_replicate, by show 6 = (4 + (Dhcp.optWire ⟨1, 0, data⟩ + 0)) % 4294967296; rw [hw]⟩
  have hf : findOpt [(⟨1, 0, data⟩ : Opt)] 1 = some ⟨1, 0, data⟩ := by simp [findOpt]
  have := (h _ 1 hi).size
  simp only [Dhcp.removeOption, hf, eraseOpt, hw, beq_self_eq_true, if_true, Dhcp.wireSum] at this
  omega

/-- what a successful DHCP API call can be: one `add_option`, one `remove_option`, or a same-size header edit -/
theorem dhcp_apply_cases (d d' : Dhcp) (op : List String) (hl : d.h.length = 236) (e : d.apply op = .ok d') :
    (∃ o, d' = d.addOption o) ∨ (∃ s c, op = ["remove_option", s] ∧ d' = d.removeOption c)
    ∨ (∃ h', h'.length = 236 ∧ d' = { d with h := h' }) := by
  unfold Dhcp.apply at e
  split at e
  · obtain ⟨c, _, e⟩ := bind_ok _ _ _ e
    obtain ⟨b, _, e⟩ := bind_ok _ _ _ e
    simp only [Out.pure_eq] at e; injection e with e; subst e; exact .inl ⟨_, rfl⟩
  · obtain ⟨c, _, e⟩ := bind_ok _ _ _ e
    simp only [Out.pure_eq] at e; injection e with e; subst e; exact .inr (.inl ⟨_, _, rfl, rfl⟩)
  · obtain ⟨c, _, e⟩ := bind_ok _ _ _ e
    simp only [Out.pure_eq] at e; injection e with e; subst e; exact .inl ⟨_, rfl⟩
  · simp only [Out.pure_eq] at e; injection e with e; subst e; exact .inl ⟨_, rfl⟩
  all_goals first
    | (obtain ⟨c, _, e⟩ := bind_ok _ _ _ e
       simp only [Out.pure_eq] at e; injection e with e; subst e; exact .inl ⟨_, rfl⟩)
    | skip
  · split at e
    · rename_i r hr
      obtain ⟨h', hh, e⟩ := bind_ok _ _ _ e
      simp only [Out.pure_eq] at e; injection e with e; subst e
      exact .inr (.inr ⟨h', bootp_setHeader_length d.h h' _ r hl hr hh, rfl⟩)
    · cases e

/-- **every public DHCP call keeps the invariant** (from a state whose option list fits a `uint32_t`) -/
theorem dhcp_apply_invM (d d' : Dhcp) (op : List String) (hi : d.InvM) (hf : d.Fits) (e : d.apply op = .ok d') :
    d'.InvM := by
  rcases dhcp_apply_cases d d' op hi.hlen e with ⟨o, rfl⟩ | ⟨_, c, _, rfl⟩ | ⟨h', hl, rfl⟩
  · exact dhcp_addOption_invM d o hi
  · exact dhcp_removeOption_invM d c hi hf
  · exact ⟨hl, hi.size⟩

/-! ## DHCPv6 -/

structure Dhcpv6.InvM (d : Dhcpv6) : Prop where
  hlen : d.h.length = 4
  link : d.link.length = 16
  peer : d.peer.length = 16
  size : d.optsSize = Dhcpv6.wireSum d.opts % 4294967296

def Dhcpv6.Fits (d : Dhcpv6) : Prop := Dhcpv6.wireSum d.opts < 4294967296

theorem dhcpv6_inv_of_invM (d : Dhcpv6) (hi : d.InvM) (hf : d.Fits) : d.Inv :=
  ⟨hi.hlen, hi.link, hi.peer, by rw [hi.size]; exact Nat.mod_eq_of_lt hf⟩

theorem dhcpv6_invM_of_inv (d : Dhcpv6) (hi : d.Inv) (hf : d.Fits) : d.InvM :=
  ⟨hi.hlen, hi.link, hi.peer, by rw [hi.size]; exact (Nat.mod_eq_of_lt hf).symm⟩

theorem dhcpv6_sizeAfter_mod (s : Nat) (os : List Opt) (hs : s < 4294967296) :
    Dhcpv6.sizeAfter s os = (s + Dhcpv6.wireSum os) % 4294967296 := by
  unfold Dhcpv6.sizeAfter
  induction os generalizing s with
  | nil => simp only [List.foldl_nil, Dhcpv6.wireSum]; omega
  | cons o os ih =>
    simp only [List.foldl_cons, Dhcpv6.wireSum]
    rw [ih _ (Nat.mod_lt _ (by decide))]
    omega

/-- everything the invariant and the size bound need to know about a successful DHCPv6 parse -/
theorem dhcpv6_parse_spec (b : Bytes) (d : Dhcpv6) (i : Inner) (h : Dhcpv6.parse b = .ok (d, i)) :
    d.InvM ∧ Dhcpv6.wireSum d.opts ≤ b.length := by
  unfold Dhcpv6.parse at h
  have i0 := Cursor.ofBytes_inv b
  by_cases hb : (Cursor.ofBytes b).toBool
  · simp only [hb, Bool.not_true, Bool.false_eq_true, if_false] at h
    have hpos : (Cursor.ofBytes b).size > 0 := by simpa [Cursor.toBool] using hb
    rcases peek_safe "DHCPv6::DHCPv6 *stream.pointer()" (Cursor.ofBytes b) 0 1 i0 (by omega) with ⟨t, e0, _⟩
    simp only [e0, bind, Out.bind] at h
    have hreq : (if (Cursor.beNat t == 12 || Cursor.beNat t == 13) = true then 2 else 4) ≤ 4 := by split <;> omega
    generalize (if (Cursor.beNat t == 12 || Cursor.beNat t == 13) = true then 2 else 4) = required at h hreq
    rcases Cursor.read_spec (Cursor.ofBytes b) required i0 with ⟨hd, c1, e1, i1, hl1, hs1, _⟩ | ⟨e1, _⟩
    · simp only [e1] at h
      rcases dhcpv6_readRelay_safe (Dhcpv6.isRelay ⟨hd ++ List.replicate (4 - required) 0, List.replicate 16 0, List.replicate 16 0, [], 0⟩) c1 i1
        with ⟨l, p, c2, e2, i2, hl, hp, hs2⟩ | e2
      · simp only [e2] at h
        cases e4 : Dhcpv6.parseOpts c2.size c2 with
        | ok os =>
          simp only [e4] at h
          injection h with h; injection h with h _; subst h
          have hw := dhcpv6_parseOpts_wireSum c2.size c2 i2 (Nat.le_refl _) os e4
          refine ⟨⟨?_, hl, hp, ?_⟩, ?_⟩
          · simp only [List.length_append, List.length_replicate, hl1]; omega
          · simpa using dhcpv6_sizeAfter_mod 0 os (by decide)
          · simp only [hw]
            have : (Cursor.ofBytes b).size = b.length := rfl
            omega
        | throw e => simp only [e4] at h; cases h
        | fault s => simp only [e4] at h; cases h
      · simp only [e2] at h; cases h
    · simp only [e1] at h; cases h
  · simp only [hb, Bool.not_false, if_true] at h; cases h

/-- **the parsing constructor establishes the invariant** — for every byte string -/
theorem dhcpv6_parse_invM (b : Bytes) (d : Dhcpv6) (i : Inner) (h : Dhcpv6.parse b = .ok (d, i)) : d.InvM :=
  (dhcpv6_parse_spec b d i h).1

theorem dhcpv6_parse_fits (b : Bytes) (hb : b.length < 4294967296) (d : Dhcpv6) (i : Inner)
    (h : Dhcpv6.parse b = .ok (d, i)) : d.Fits := by
  have := (dhcpv6_parse_spec b d i h).2
  unfold Dhcpv6.Fits; omega

theorem dhcpv6_create_invM : Dhcpv6.create.InvM := by
  refine ⟨?_, ?_, ?_, ?_⟩ <;> simp [Dhcpv6.create, Dhcpv6.wireSum]

theorem dhcpv6_create_fits : Dhcpv6.create.Fits := by simp [Dhcpv6.Fits, Dhcpv6.create, Dhcpv6.wireSum]

theorem dhcpv6_addOption_invM (d : Dhcpv6) (o : Opt) (hi : d.InvM) : (d.addOption o).InvM := by
  refine ⟨hi.hlen, hi.link, hi.peer, ?_⟩
  have hs := hi.size
  simp only [Dhcpv6.addOption, dhcpv6_wireSum_append, Dhcpv6.wireSum]
  omega

theorem dhcpv6_removeOption_invM (d : Dhcpv6) (code : Nat) (hi : d.InvM) (hf : d.Fits) : (d.removeOption code).InvM := by
  unfold Dhcpv6.removeOption
  cases hfo : findOpt d.opts code with
  | none => exact hi
  | some o =>
    refine ⟨hi.hlen, hi.link, hi.peer, ?_⟩
    have := dhcpv6_erase_wireSum d.opts code o hfo
    have hs := hi.size
    unfold Dhcpv6.Fits at hf
    simp only
    omega

/-- what a successful DHCPv6 API call can be -/
theorem dhcpv6_apply_cases (d d' : Dhcpv6) (op : List String) (hl : d.h.length = 4) (e : d.apply op = .ok d') :
    (∃ o, d' = d.addOption o) ∨ (∃ s c, op = ["remove_option", s] ∧ d' = d.removeOption c)
    ∨ (∃ h', h'.length = 4 ∧ d' = { d with h := h' })
    ∨ (∃ a, a.length = 16 ∧ d' = { d with peer := a }) ∨ (∃ a, a.length = 16 ∧ d' = { d with link := a }) := by
  unfold Dhcpv6.apply at e
  split at e
  · obtain ⟨n, _, e⟩ := bind_ok _ _ _ e
    simp only [Out.pure_eq] at e; injection e with e; subst e
    exact .inr (.inr (.inl ⟨_, by rw [setU8_length _ _ _ (by omega)]; exact hl, rfl⟩))
  · obtain ⟨n, _, e⟩ := bind_ok _ _ _ e
    simp only [Out.pure_eq] at e; injection e with e; subst e
    exact .inr (.inr (.inl ⟨_, by rw [setU8_length _ _ _ (by omega)]; exact hl, rfl⟩))
  · obtain ⟨n, _, e⟩ := bind_ok _ _ _ e
    simp only [Out.pure_eq] at e; injection e with e; subst e
    exact .inr (.inr (.inl ⟨_, by rw [setBE_length _ _ _ _ (by omega)]; exact hl, rfl⟩))
  · obtain ⟨b, hb, e⟩ := bind_ok _ _ _ e
    simp only [Out.pure_eq] at e; injection e with e; subst e
    exact .inr (.inr (.inr (.inl ⟨_, hexArgN_ok _ _ _ hb, rfl⟩)))
  · obtain ⟨b, hb, e⟩ := bind_ok _ _ _ e
    simp only [Out.pure_eq] at e; injection e with e; subst e
    exact .inr (.inr (.inr (.inr ⟨_, hexArgN_ok _ _ _ hb, rfl⟩)))
  · obtain ⟨c, _, e⟩ := bind_ok _ _ _ e
    obtain ⟨b, _, e⟩ := bind_ok _ _ _ e
    simp only [Out.pure_eq] at e; injection e with e; subst e; exact .inl ⟨_, rfl⟩
  · obtain ⟨c, _, e⟩ := bind_ok _ _ _ e
    simp only [Out.pure_eq] at e; injection e with e; subst e; exact .inr (.inl ⟨_, _, rfl, rfl⟩)
  all_goals first
    | (simp only [Out.pure_eq] at e; injection e with e; subst e; exact .inl ⟨_, rfl⟩)
    | (obtain ⟨a1, _, e⟩ := bind_ok _ _ _ e
       simp only [Out.pure_eq] at e; injection e with e; subst e; exact .inl ⟨_, rfl⟩)
    | (obtain ⟨a1, _, e⟩ := bind_ok _ _ _ e
       obtain ⟨a2, _, e⟩ := bind_ok _ _ _ e
       simp only [Out.pure_eq] at e; injection e with e; subst e; exact .inl ⟨_, rfl⟩)
    | (obtain ⟨a1, _, e⟩ := bind_ok _ _ _ e
       obtain ⟨a2, _, e⟩ := bind_ok _ _ _ e
       obtain ⟨a3, _, e⟩ := bind_ok _ _ _ e
       simp only [Out.pure_eq] at e; injection e with e; subst e; exact .inl ⟨_, rfl⟩)
    | (obtain ⟨a1, _, e⟩ := bind_ok _ _ _ e
       obtain ⟨a2, _, e⟩ := bind_ok _ _ _ e
       obtain ⟨a3, _, e⟩ := bind_ok _ _ _ e
       obtain ⟨a4, _, e⟩ := bind_ok _ _ _ e
       simp only [Out.pure_eq] at e; injection e with e; subst e; exact .inl ⟨_, rfl⟩)
    | (obtain ⟨a1, _, e⟩ := bind_ok _ _ _ e
       obtain ⟨a2, _, e⟩ := bind_ok _ _ _ e
       obtain ⟨a3, _, e⟩ := bind_ok _ _ _ e
       obtain ⟨a4, _, e⟩ := bind_ok _ _ _ e
       obtain ⟨a5, _, e⟩ := bind_ok _ _ _ e
       simp only [Out.pure_eq] at e; injection e with e; subst e; exact .inl ⟨_, rfl⟩)
    | cases e

/-- **every public DHCPv6 call keeps the invariant** (from a state whose option list fits a `uint32_t`) -/
theorem dhcpv6_apply_invM (d d' : Dhcpv6) (op : List String) (hi : d.InvM) (hf : d.Fits) (e : d.apply op = .ok d') :
    d'.InvM := by
  rcases dhcpv6_apply_cases d d' op hi.hlen e with ⟨o, rfl⟩ | ⟨_, c, _, rfl⟩ | ⟨h', hl, rfl⟩ | ⟨a, ha, rfl⟩ | ⟨a, ha, rfl⟩
  · exact dhcpv6_addOption_invM d o hi
  · exact dhcpv6_removeOption_invM d c hi hf
  · exact ⟨hl, hi.link, hi.peer, hi.size⟩
  · exact ⟨hi.hlen, hi.link, ha, hi.size⟩
  · exact ⟨hi.hlen, ha, hi.peer, hi.size⟩

end Tins.Wire.App
