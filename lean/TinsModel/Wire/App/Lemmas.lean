import TinsModel.Wire.App.Raw
import TinsModel.Basic.CursorLemmas
import TinsModel.Basic.CodecLemmas
import TinsModel.Wire.ChainLemmas
import TinsModel.Wire.IfaceLemmas
/- helper lemmas of the App family: stream reads, slices/patches of raw header structs -/
namespace Tins.Wire.App
open Tins Tins.Wire

/-- outcome classes of a parsing constructor: a packet, or `malformed_packet`; never a fault, never another exception -/
def ParseSafe {α} (r : Out α) : Prop := (∃ a, r = .ok a) ∨ r = .throw .malformedPacket

theorem ParseSafe.ok {α} (a : α) : ParseSafe (Out.ok a) := .inl ⟨a, rfl⟩
theorem ParseSafe.malformed {α} : ParseSafe (Out.throw .malformedPacket : Out α) := .inr rfl

/-- sequencing preserves `ParseSafe` -/
theorem ParseSafe.bind {α β} {x : Out α} {f : α → Out β} (hx : ParseSafe x) (hf : ∀ a, x = .ok a → ParseSafe (f a)) :
    ParseSafe (x >>= f) := by
  rcases hx with ⟨a, rfl⟩ | rfl
  · exact hf a rfl
  · exact .inr rfl

theorem readBE_safe (c : Cursor) (n : Nat) (h : c.Inv) :
    (∃ v c', c.readBE n = .ok (v, c') ∧ c'.Inv ∧ c'.size = c.size - n ∧ n ≤ c.size ∧ c'.mem = c.mem.drop n
        ∧ v = Cursor.beNat (c.mem.take n))
    ∨ (c.readBE n = .throw .malformedPacket ∧ c.size < n) := by
  rcases Cursor.read_spec c n h with ⟨bs, c', he, hi, _, hs, hn, hb, hm⟩ | ⟨he, hlt⟩
  · left; exact ⟨Cursor.beNat bs, c', by simp [Cursor.readBE, he, bind, Out.bind], hi, hs, hn, hm, by rw [hb]⟩
  · right; exact ⟨by simp [Cursor.readBE, he, bind, Out.bind], hlt⟩

theorem readU8_safe (c : Cursor) (h : c.Inv) :
    (∃ v c', c.readU8 = .ok (v, c') ∧ c'.Inv ∧ c'.size = c.size - 1 ∧ 1 ≤ c.size ∧ c'.mem = c.mem.drop 1
        ∧ v = Cursor.beNat (c.mem.take 1))
    ∨ (c.readU8 = .throw .malformedPacket ∧ c.size < 1) := readBE_safe c 1 h

theorem rest_safe (site : String) (c : Cursor) (h : c.Inv) :
    ∃ bs, Cursor.rest site c = .ok bs ∧ bs = c.mem.take c.size := by
  unfold Cursor.rest rdN
  have h' : c.size ≤ c.mem.length := h
  simp [h']

theorem peek_safe (site : String) (c : Cursor) (i n : Nat) (h : c.Inv) (hg : i + n ≤ c.size) :
    ∃ bs, c.peek site i n = .ok bs ∧ bs = (c.mem.drop i).take n := by
  unfold Cursor.peek rdN
  have : i + n ≤ c.mem.length := by simp only [Cursor.Inv] at h; omega
  simp [this]

/-! ### slices and patches -/

theorem patch_length (h bs : Bytes) (off : Nat) (hb : off + bs.length ≤ h.length) :
    (patch h off bs).length = h.length := by
  simp only [patch, List.length_append, List.length_take, List.length_drop]; omega

theorem setBE_length (h : Bytes) (off n v : Nat) (hb : off + n ≤ h.length) : (setBE h off n v).length = h.length := by
  unfold setBE; exact patch_length _ _ _ (by simpa using hb)

theorem setU8_length (h : Bytes) (off v : Nat) (hb : off + 1 ≤ h.length) : (setU8 h off v).length = h.length :=
  setBE_length h off 1 v hb

/-- reading back the member just assigned -/
theorem slice_patch_same (h bs : Bytes) (off : Nat) (hb : off + bs.length ≤ h.length) :
    slice (patch h off bs) off bs.length = bs := by
  unfold slice patch
  have h1 : (h.take off).length = off := by simp only [List.length_take]; omega
  rw [List.append_assoc, List.drop_append_of_le_length (by omega)]
  rw [List.drop_eq_nil_of_le (by omega), List.nil_append]
  simp

/-- a member that lies entirely before or entirely after the assigned one is unchanged -/
theorem slice_patch_disjoint (h bs : Bytes) (off off2 n2 : Nat) (hb : off + bs.length ≤ h.length)
    (hd : off2 + n2 ≤ off ∨ off + bs.length ≤ off2) :
    slice (patch h off bs) off2 n2 = slice h off2 n2 := by
  unfold slice patch
  have h1 : (h.take off).length = off := by simp only [List.length_take]; omega
  rcases hd with hd | hd
  · -- before: inside `h.take off`
    rw [List.append_assoc, List.drop_append_of_le_length (by omega)]
    rw [List.take_append_of_le_length (by simp only [List.length_drop, h1]; omega)]
    rw [List.drop_take]
    rw [List.take_take]
    congr 1
    omega
  · -- after: inside `h.drop (off + bs.length)`
    rw [List.append_assoc, List.drop_append, List.drop_append]
    have e1 : List.drop off2 (List.take off h) = [] := List.drop_eq_nil_of_le (by omega)
    have e2 : List.drop (off2 - (List.take off h).length) bs = [] := List.drop_eq_nil_of_le (by omega)
    rw [e1, e2, List.nil_append, List.nil_append, List.drop_drop]
    congr 2
    omega

theorem getBE_setBE_same (h : Bytes) (off n v : Nat) (hb : off + n ≤ h.length) :
    getBE (setBE h off n v) off n = v % 256 ^ n := by
  unfold getBE setBE
  have := slice_patch_same h (OutCursor.beBytes n v) off (by simpa using hb)
  rw [OutCursor.beBytes_length] at this
  rw [this, beNat_beBytes]

theorem getBE_setBE_disjoint (h : Bytes) (off n v off2 n2 : Nat) (hb : off + n ≤ h.length)
    (hd : off2 + n2 ≤ off ∨ off + n ≤ off2) :
    getBE (setBE h off n v) off2 n2 = getBE h off2 n2 := by
  unfold getBE setBE
  rw [slice_patch_disjoint h _ off off2 n2 (by simpa using hb) (by simpa using hd)]

/-- parsing a buffer that starts with a struct image yields that image -/
theorem take_append_length (a b : Bytes) : (a ++ b).take a.length = a := by simp

theorem drop_append_length (a b : Bytes) : (a ++ b).drop a.length = b := by simp


/-! ### `OutputMemoryStream` as "emit these bytes" -/

/-- the stream after `bs` has been written through it -/
def emit (o : OutCursor) (bs : Bytes) : OutCursor := ⟨o.done ++ bs, o.rest.drop bs.length, o.size - bs.length⟩

theorem emit_nil (o : OutCursor) : emit o [] = o := by simp [emit]

theorem emit_emit (o : OutCursor) (a b : Bytes) : emit (emit o a) b = emit o (a ++ b) := by
  simp only [emit, List.append_assoc, List.drop_drop, List.length_append, OutCursor.mk.injEq, true_and]
  omega

theorem emit_inv (o : OutCursor) (bs : Bytes) (hi : o.Inv) (h : bs.length ≤ o.size) : (emit o bs).Inv := by
  simp only [OutCursor.Inv, emit, List.length_drop] at *; omega

theorem emit_size (o : OutCursor) (bs : Bytes) : (emit o bs).size = o.size - bs.length := rfl

theorem write_ok (o : OutCursor) (bs : Bytes) (hi : o.Inv) (h : bs.length ≤ o.size) : o.write bs = .ok (emit o bs) := by
  unfold OutCursor.write emit
  have h1 : ¬ o.size < bs.length := by omega
  have h2 : ¬ o.rest.length < bs.length := by simp only [OutCursor.Inv] at hi; omega
  simp [h1, h2]

theorem write_throws (o : OutCursor) (bs : Bytes) (h : o.size < bs.length) : o.write bs = .throw .serializationError := by
  unfold OutCursor.write; simp [h]

theorem writeBE_ok (o : OutCursor) (n v : Nat) (hi : o.Inv) (h : n ≤ o.size) :
    o.writeBE n v = .ok (emit o (OutCursor.beBytes n v)) := by
  unfold OutCursor.writeBE; exact write_ok o _ hi (by simpa using h)

theorem skip_ok (o : OutCursor) (n : Nat) (hi : o.Inv) (h : n ≤ o.size) : o.skip n = .ok (emit o (o.rest.take n)) := by
  unfold OutCursor.skip emit
  have h1 : ¬ n > o.size := by omega
  have h2 : (o.rest.take n).length = n := by simp only [OutCursor.Inv] at hi; simp only [List.length_take]; omega
  simp [h1, h2]

theorem fill_ok (o : OutCursor) (n : Nat) (v : UInt8) (hi : o.Inv) (h : n ≤ o.size) :
    o.fill n v = .ok (emit o (List.replicate n v)) := by
  unfold OutCursor.fill emit
  have h1 : ¬ o.size < n := by omega
  have h2 : ¬ o.rest.length < n := by simp only [OutCursor.Inv] at hi; omega
  simp [h1, h2]

theorem ofRegion_inv (r : Bytes) : (OutCursor.ofRegion r).Inv := by simp [OutCursor.ofRegion, OutCursor.Inv]

/-- the buffer after emitting `bs` from the start of a region -/
theorem emit_ofRegion_buffer (r bs : Bytes) : (emit (OutCursor.ofRegion r) bs).buffer = bs ++ r.drop bs.length := by
  simp [emit, OutCursor.ofRegion, OutCursor.buffer]

theorem emit_ofRegion_rest (r bs : Bytes) : (emit (OutCursor.ofRegion r) bs).rest = r.drop bs.length := by
  simp [emit, OutCursor.ofRegion]

theorem emit_ofRegion_size (r bs : Bytes) : (emit (OutCursor.ofRegion r) bs).size = r.length - bs.length := by
  simp [emit, OutCursor.ofRegion]


/-! ### a stream over a concatenation: reading the first part leaves a stream over the rest -/

theorem ofBytes_read_append (a rest : Bytes) :
    (Cursor.ofBytes (a ++ rest)).read a.length = .ok (a, Cursor.ofBytes rest) := by
  unfold Cursor.read Cursor.canRead Cursor.ofBytes
  simp

theorem ofBytes_readBE_append (a rest : Bytes) :
    (Cursor.ofBytes (a ++ rest)).readBE a.length = .ok (Cursor.beNat a, Cursor.ofBytes rest) := by
  unfold Cursor.readBE
  rw [ofBytes_read_append]; rfl

theorem ofBytes_skip_append (a rest : Bytes) :
    (Cursor.ofBytes (a ++ rest)).skip a.length = .ok (Cursor.ofBytes rest) := by
  unfold Cursor.skip Cursor.ofBytes
  simp

theorem ofBytes_peek_append (site : String) (a rest : Bytes) :
    (Cursor.ofBytes (a ++ rest)).peek site 0 a.length = .ok a := by
  unfold Cursor.peek rdN Cursor.ofBytes
  simp

theorem ofBytes_canRead_append (a rest : Bytes) : (Cursor.ofBytes (a ++ rest)).canRead a.length = true := by
  simp [Cursor.canRead, Cursor.ofBytes]

theorem ofBytes_toBool (b : Bytes) : (Cursor.ofBytes b).toBool = !b.isEmpty := by
  cases b <;> simp [Cursor.toBool, Cursor.ofBytes]

/-! ### value bounds -/

theorem beNat_foldl_lt (bs : Bytes) (acc : Nat) :
    bs.foldl (fun a b => a * 256 + b.toNat) acc < (acc + 1) * 256 ^ bs.length := by
  induction bs generalizing acc with
  | nil => simp
  | cons b bs ih =>
    simp only [List.foldl_cons, List.length_cons]
    have h1 := ih (acc * 256 + b.toNat)
    have hb := b.toNat_lt
    have h2 : (acc * 256 + b.toNat + 1) * 256 ^ bs.length ≤ ((acc + 1) * 256) * 256 ^ bs.length :=
      Nat.mul_le_mul_right _ (by omega)
    calc _ < (acc * 256 + b.toNat + 1) * 256 ^ bs.length := h1
      _ ≤ ((acc + 1) * 256) * 256 ^ bs.length := h2
      _ = (acc + 1) * 256 ^ (bs.length + 1) := by rw [Nat.mul_assoc, Nat.pow_succ, Nat.mul_comm 256]

/-- an `n`-byte big-endian value is below `256^n` -/
theorem beNat_lt (bs : Bytes) : Cursor.beNat bs < 256 ^ bs.length := by
  have := beNat_foldl_lt bs 0
  simpa [Cursor.beNat] using this

theorem readBE_lt (c : Cursor) (n v : Nat) (c' : Cursor) (hi : c.Inv) (h : c.readBE n = .ok (v, c')) : v < 256 ^ n := by
  rcases readBE_safe c n hi with ⟨v2, c2, e, _, _, hn, _, hv⟩ | ⟨e, _⟩
  · rw [e] at h; injection h with h; injection h with h _; subst h
    rw [hv]
    have := beNat_lt (c.mem.take n)
    have hl : (c.mem.take n).length = n := by
      have : c.size ≤ c.mem.length := hi
      simp only [List.length_take]; omega
    rwa [hl] at this
  · rw [e] at h; cases h

theorem getU8_lt (h : Bytes) (off : Nat) : getU8 h off < 256 := by
  unfold getU8 getBE
  have := beNat_lt (slice h off 1)
  have hl : (slice h off 1).length ≤ 1 := by simp only [slice, List.length_take]; omega
  calc _ < 256 ^ (slice h off 1).length := this
    _ ≤ 256 ^ 1 := Nat.pow_le_pow_right (by omega) hl

end Tins.Wire.App
