import TinsModel.Wire.App.Family
import TinsModel.Wire.App.TheoremsFixed
import TinsModel.Wire.App.TheoremsRtp
import TinsModel.Wire.App.TheoremsRtpApi
import TinsModel.Wire.App.TheoremsApi
import TinsModel.Wire.App.TheoremsOptApi
import TinsModel.Wire.App.ThNoCls
import TinsModel.Wire.App.ThOptInv
/-
  Family-level theorems of App for the four wire properties, over the interface the registry uses
  (`App.parse`, `App.hdr`, `App.trl`, `App.write`, `App.mk`, `App.apply`) — same statement shapes as `L2/ThFamily.lean`.
  The per-class theorems are in `Theorems*.lean`, `ThNoCls.lean` (no inner class is ever built, except below VXLAN)
  and `ThOptInv.lean` (the modular `size_` invariant of DHCP / DHCPv6):
    C01  <cls>_parse_safe, vxlan_parse_consumes / <cls>_parse_no_cls
    C02  <cls>_writesOnly, rtp_writesOnlyExact (padding trailer: exact region only)
    C04  <cls>_apply_inv, <cls>_create_inv

  DHCP / DHCPv6: `size_` / `options_size_` are `uint32_t` counters.  What holds for *every* parsed or API-built object is
  the equation modulo 2³² (`ObjInv`); `write_serialization` is size-exact iff additionally the option list is below the
  4 GiB the counter can count.  That bound is `Serializable` for these two classes (a DHCP object with ≥ 4 GiB of
  options really is not serializable: `header_size()` under-reports and the writer throws).  It holds for every packet
  parsed from a buffer a `uint32_t total_sz` can describe (`app_parse_serializable`) and for every constructed object
  (`app_mk_serializable`).
-/
namespace Tins.Wire.App
open Tins Tins.Wire

/-- the invariant of a family object: what parsing establishes and every API call preserves -/
def ObjInv : Obj → Prop
  | .arp a => a.Inv
  | .vxlan v => v.Inv
  | .stp s => s.Inv
  | .rtp r => r.Inv
  | .bootp p => p.Inv
  | .dhcp d => d.InvM
  | .dhcpv6 d => d.InvM

/-- every class of the family is serializable; for the two classes with a `uint32_t` option-size cache: as long as
    the option list is below the 4 GiB the cache can count -/
def Serializable : Obj → Prop
  | .dhcp d => d.Fits
  | .dhcpv6 d => d.Fits
  | _ => True

/-- the `LayerSem` the registry builds for a family object in context `cx` -/
def appSem (cx : Ctx) (o : Obj) : LayerSem :=
  { name := (info o).1, hdr := hdr o, trl := trl o cx.innerSize, write := write cx o }

/-- **C01 / App**: every parsing constructor of the family, on every byte string, returns a packet or throws
    `malformed_packet`; it never touches a byte outside the buffer -/
theorem app_parse_safe (cls : String) (b : Bytes) (h : cls ∈ classes) : ParseSafe (parse cls b) := by
  simp only [classes, List.mem_cons, List.mem_nil_iff, or_false] at h
  rcases h with h | h | h | h | h | h | h <;> subst h <;> simp only [parse] <;>
    first
    | exact ParseSafe.bind (arp_parse_safe b) (fun a _ => .ok _)
    | exact ParseSafe.bind (vxlan_parse_safe b) (fun a _ => .ok _)
    | exact ParseSafe.bind (stp_parse_safe b) (fun a _ => .ok _)
    | exact ParseSafe.bind (rtp_parse_safe b) (fun a _ => .ok _)
    | exact ParseSafe.bind (bootp_parse_safe b) (fun a _ => .ok _)
    | exact ParseSafe.bind (dhcp_parse_safe b) (fun a _ => .ok _)
    | exact ParseSafe.bind (dhcpv6_parse_safe b) (fun a _ => .ok _)

private theorem map_ok {α β} {x : Out α} {f : α → β} {r : β} (h : (x >>= fun a => pure (f a)) = .ok r) :
    ∃ a, x = .ok a ∧ f a = r := by
  cases x with
  | ok a => exact ⟨a, rfl, by simpa [bind, Out.bind, pure] using h⟩
  | throw e => cases h
  | fault s => cases h

/-- **C01 / App, termination of the nested constructors**: a parsing constructor of the family hands strictly fewer
    bytes to the next constructor (only VXLAN builds one; the others create a RawPDU or nothing) -/
theorem app_parse_consumes (cls : String) (b : Bytes) (o : Obj) (name : String) (pb : Bytes) (fb : Bool)
    (hc : cls ∈ classes) (h : parse cls b = .ok (o, .cls name pb fb)) : pb.length < b.length := by
  simp only [classes, List.mem_cons, List.mem_nil_iff, or_false] at hc
  rcases hc with hc | hc | hc | hc | hc | hc | hc <;> subst hc <;> simp only [parse] at h <;>
    rcases map_ok h with ⟨⟨x, i⟩, hx, hr⟩ <;> injection hr with _ hi <;> subst hi
  · exact absurd hx (arp_parse_no_cls b x name pb fb)
  · exact vxlan_parse_consumes b x name pb fb hx
  · exact absurd hx (stp_parse_no_cls b x name pb fb)
  · exact absurd hx (rtp_parse_no_cls b x name pb fb)
  · exact absurd hx (bootp_parse_no_cls b x name pb fb)
  · exact absurd hx (dhcp_parse_no_cls b x name pb fb)
  · exact absurd hx (dhcpv6_parse_no_cls b x name pb fb)

/-- parsing establishes the invariant -/
theorem app_parse_inv (cls : String) (b : Bytes) (o : Obj) (i : Inner) (hc : cls ∈ classes)
    (h : parse cls b = .ok (o, i)) : ObjInv o := by
  simp only [classes, List.mem_cons, List.mem_nil_iff, or_false] at hc
  rcases hc with hc | hc | hc | hc | hc | hc | hc <;> subst hc <;> simp only [parse] at h <;>
    rcases map_ok h with ⟨⟨x, j⟩, hx, hr⟩ <;> injection hr with ho _ <;> subst ho
  · exact arp_parse_inv b x j hx
  · exact vxlan_parse_inv b x j hx
  · exact stp_parse_inv b x j hx
  · exact rtp_parse_inv b x j hx
  · exact (bootp_parse_inv b x j hx).1
  · exact dhcp_parse_invM b x j hx
  · exact dhcpv6_parse_invM b x j hx

/-- whatever is parsed from a buffer a `uint32_t total_sz` can describe is serializable -/
theorem app_parse_serializable (cls : String) (b : Bytes) (o : Obj) (i : Inner) (hc : cls ∈ classes)
    (hb : b.length < 4294967296) (h : parse cls b = .ok (o, i)) : Serializable o := by
  simp only [classes, List.mem_cons, List.mem_nil_iff, or_false] at hc
  rcases hc with hc | hc | hc | hc | hc | hc | hc <;> subst hc <;> simp only [parse] at h <;>
    rcases map_ok h with ⟨⟨x, j⟩, hx, hr⟩ <;> injection hr with ho _ <;> subst ho
  · trivial
  · trivial
  · trivial
  · trivial
  · trivial
  · exact dhcp_parse_fits b hb x j hx
  · exact dhcpv6_parse_fits b hb x j hx

/-- **C02 / App**: for every serializable family object satisfying the invariant, in every context,
    `write_serialization` succeeds on the region `PDU::serialize` hands out, keeps its length and leaves the inner
    layers' bytes untouched (header-only layers: on every region that is large enough; RTP with its padding trailer:
    on the exact region) -/
theorem app_writesOnlyAt (cx : Ctx) (o : Obj) (hi : ObjInv o) (hs : Serializable o) : WritesOnlyAt (appSem cx o) cx.innerSize := by
  cases o with
  | arp a => exact writesOnlyAt_of_writesOnly (arp_writesOnly cx a hi) _
  | vxlan v => exact writesOnlyAt_of_writesOnly (vxlan_writesOnly cx v hi) _
  | stp s => exact writesOnlyAt_of_writesOnly (stp_writesOnly cx s hi) _
  | rtp r => exact rtp_writesOnlyExact cx r hi
  | bootp p => exact writesOnlyAt_of_writesOnly (bootp_writesOnly cx p hi) _
  | dhcp d => exact writesOnlyAt_of_writesOnly (dhcp_writesOnly cx d (dhcp_inv_of_invM d hi hs)) _
  | dhcpv6 d => exact writesOnlyAt_of_writesOnly (dhcpv6_writesOnly cx d (dhcpv6_inv_of_invM d hi hs)) _

theorem vxlan_create_inv (n : Nat) : (Vxlan.create n).Inv := by
  have h0 : (List.replicate 8 (0 : UInt8)).length = 8 := List.length_replicate
  have h1 := setBE_length (List.replicate 8 (0 : UInt8)) 0 4 ((8 % 256) * 16777216) (by omega)
  have h2 := setBE_length (setBE (List.replicate 8 (0 : UInt8)) 0 4 ((8 % 256) * 16777216)) 4 4 ((n % 16777216) * 256) (by omega)
  simp only [Vxlan.Inv, Vxlan.create, Vxlan.setVni, Vxlan.setFlags]
  omega

theorem stp_create_inv : Stp.create.Inv := by
  simp only [Stp.Inv, Stp.create, List.length_replicate]

theorem bootp_create_inv : BootP.create.Inv := by
  simp only [BootP.Inv, BootP.create, List.length_replicate]

theorem arp_make_inv (args : List String) (a : Arp) (h : Arp.make args = .ok a) : a.Inv := by
  unfold Arp.make at h
  split at h
  · injection h with h; subst h
    exact arp_create_inv _ _ _ _ List.length_replicate List.length_replicate List.length_replicate List.length_replicate
  · obtain ⟨t, ht, h⟩ := bind_ok _ _ _ h
    obtain ⟨s, hs, h⟩ := bind_ok _ _ _ h
    obtain ⟨th, hth, h⟩ := bind_ok _ _ _ h
    obtain ⟨sh, hsh, h⟩ := bind_ok _ _ _ h
    simp only [Out.pure_eq] at h; injection h with h; subst h
    exact arp_create_inv _ _ _ _ (hexArgN_ok _ _ _ ht) (hexArgN_ok _ _ _ hs) (hexArgN_ok _ _ _ hth) (hexArgN_ok _ _ _ hsh)
  · cases h

theorem vxlan_make_inv (args : List String) (v : Vxlan) (h : Vxlan.make args = .ok v) : v.Inv := by
  unfold Vxlan.make at h
  split at h
  · injection h with h; subst h; exact vxlan_create_inv 0
  · obtain ⟨n, _, h⟩ := bind_ok _ _ _ h
    simp only [Out.pure_eq] at h; injection h with h; subst h; exact vxlan_create_inv n
  · cases h

theorem stp_make_inv (args : List String) (s : Stp) (h : Stp.make args = .ok s) : s.Inv := by
  unfold Stp.make at h
  split at h
  · injection h with h; subst h; exact stp_create_inv
  · cases h

theorem rtp_make_inv (args : List String) (r : Rtp) (h : Rtp.make args = .ok r) : r.Inv := by
  unfold Rtp.make at h
  split at h
  · injection h with h; subst h; exact rtp_create_inv
  · cases h

theorem bootp_make_inv (args : List String) (p : BootP) (h : BootP.make args = .ok p) : p.Inv := by
  unfold BootP.make at h
  split at h
  · injection h with h; subst h; exact bootp_create_inv
  · cases h

theorem dhcp_make_inv (args : List String) (d : Dhcp) (h : Dhcp.make args = .ok d) : d.InvM ∧ d.Fits := by
  unfold Dhcp.make at h
  split at h
  · injection h with h; subst h; exact ⟨dhcp_create_invM, dhcp_create_fits⟩
  · cases h

theorem dhcpv6_make_inv (args : List String) (d : Dhcpv6) (h : Dhcpv6.make args = .ok d) : d.InvM ∧ d.Fits := by
  unfold Dhcpv6.make at h
  split at h
  · injection h with h; subst h; exact ⟨dhcpv6_create_invM, dhcpv6_create_fits⟩
  · cases h

private theorem mk_cases (cls : String) (args : List String) (o : Obj) (h : mk cls args = .ok o) :
    (∃ x, Arp.make args = .ok x ∧ o = .arp x) ∨ (∃ x, Vxlan.make args = .ok x ∧ o = .vxlan x)
    ∨ (∃ x, Stp.make args = .ok x ∧ o = .stp x) ∨ (∃ x, Rtp.make args = .ok x ∧ o = .rtp x)
    ∨ (∃ x, BootP.make args = .ok x ∧ o = .bootp x) ∨ (∃ x, Dhcp.make args = .ok x ∧ o = .dhcp x)
    ∨ (∃ x, Dhcpv6.make args = .ok x ∧ o = .dhcpv6 x) := by
  unfold mk at h
  split at h
  · rcases map_ok h with ⟨x, hx, hr⟩; exact .inl ⟨x, hx, hr.symm⟩
  split at h
  · rcases map_ok h with ⟨x, hx, hr⟩; exact .inr (.inl ⟨x, hx, hr.symm⟩)
  split at h
  · rcases map_ok h with ⟨x, hx, hr⟩; exact .inr (.inr (.inl ⟨x, hx, hr.symm⟩))
  split at h
  · rcases map_ok h with ⟨x, hx, hr⟩; exact .inr (.inr (.inr (.inl ⟨x, hx, hr.symm⟩)))
  split at h
  · rcases map_ok h with ⟨x, hx, hr⟩; exact .inr (.inr (.inr (.inr (.inl ⟨x, hx, hr.symm⟩))))
  split at h
  · rcases map_ok h with ⟨x, hx, hr⟩; exact .inr (.inr (.inr (.inr (.inr (.inl ⟨x, hx, hr.symm⟩)))))
  split at h
  · rcases map_ok h with ⟨x, hx, hr⟩; exact .inr (.inr (.inr (.inr (.inr (.inr ⟨x, hx, hr.symm⟩)))))
  · cases h

/-- the public constructors establish the invariant -/
theorem app_mk_inv (cls : String) (args : List String) (o : Obj) (h : mk cls args = .ok o) : ObjInv o := by
  rcases mk_cases cls args o h with ⟨x, hx, rfl⟩ | ⟨x, hx, rfl⟩ | ⟨x, hx, rfl⟩ | ⟨x, hx, rfl⟩ | ⟨x, hx, rfl⟩
    | ⟨x, hx, rfl⟩ | ⟨x, hx, rfl⟩
  · exact arp_make_inv args x hx
  · exact vxlan_make_inv args x hx
  · exact stp_make_inv args x hx
  · exact rtp_make_inv args x hx
  · exact bootp_make_inv args x hx
  · exact (dhcp_make_inv args x hx).1
  · exact (dhcpv6_make_inv args x hx).1

/-- … and yield serializable objects -/
theorem app_mk_serializable (cls : String) (args : List String) (o : Obj) (h : mk cls args = .ok o) : Serializable o := by
  rcases mk_cases cls args o h with ⟨x, hx, rfl⟩ | ⟨x, hx, rfl⟩ | ⟨x, hx, rfl⟩ | ⟨x, hx, rfl⟩ | ⟨x, hx, rfl⟩
    | ⟨x, hx, rfl⟩ | ⟨x, hx, rfl⟩
  · trivial
  · trivial
  · trivial
  · trivial
  · trivial
  · exact (dhcp_make_inv args x hx).2
  · exact (dhcpv6_make_inv args x hx).2

/-- **C04 / App**: every API call keeps the invariant — with `app_mk_inv` and `app_parse_inv`: every object reachable
    by parsing or by any finite sequence of constructor / setter / add-option / remove-option calls satisfies it, so
    `app_writesOnlyAt` applies to all of them.

    The hypothesis `hs` is used by one call only: `remove_option` of DHCP / DHCPv6, whose `size_ -= …` the model writes
    as `(size_ + 2³² - n) % 2³²`; that is the `uint32_t` subtraction exactly when `n ≤ size_ + 2³²`, which the model's
    unbounded option payloads do not guarantee by themselves (in C++ a `PDUOption` holds at most 65535 bytes).  Without
    `hs` the statement is false *in the model* for an option of more than 4 GiB; see `app_apply_inv_of_not_remove` for
    the unconditional statement about all other calls. -/
theorem app_apply_inv (o o' : Obj) (op : List String) (hi : ObjInv o) (hs : Serializable o) (h : apply o op = .ok o') :
    ObjInv o' := by
  cases o with
  | arp a =>
    simp only [apply] at h
    rcases map_ok h with ⟨x, hx, hr⟩; subst hr; exact arp_apply_inv a x op hi hx
  | vxlan v =>
    simp only [apply] at h
    rcases map_ok h with ⟨x, hx, hr⟩; subst hr; exact vxlan_apply_inv v x op hi hx
  | stp s =>
    simp only [apply] at h
    rcases map_ok h with ⟨x, hx, hr⟩; subst hr; exact stp_apply_inv s x op hi hx
  | rtp r =>
    simp only [apply] at h
    rcases map_ok h with ⟨x, hx, hr⟩; subst hr; exact rtp_apply_inv r x op hi hx
  | bootp p =>
    simp only [apply] at h
    rcases map_ok h with ⟨x, hx, hr⟩; subst hr; exact bootp_apply_inv p x op hi hx
  | dhcp d =>
    simp only [apply] at h
    rcases map_ok h with ⟨x, hx, hr⟩; subst hr; exact dhcp_apply_invM d x op hi hs hx
  | dhcpv6 d =>
    simp only [apply] at h
    rcases map_ok h with ⟨x, hx, hr⟩; subst hr; exact dhcpv6_apply_invM d x op hi hs hx

/-- the statement of `app_apply_inv` without the side condition, for every call except `remove_option` -/
theorem app_apply_inv_of_not_remove (o o' : Obj) (op : List String) (hi : ObjInv o)
    (hop : ∀ c, op ≠ ["remove_option", c]) (h : apply o op = .ok o') : ObjInv o' := by
  cases o with
  | arp a => exact app_apply_inv _ _ op hi trivial h
  | vxlan v => exact app_apply_inv _ _ op hi trivial h
  | stp s => exact app_apply_inv _ _ op hi trivial h
  | rtp r => exact app_apply_inv _ _ op hi trivial h
  | bootp p => exact app_apply_inv _ _ op hi trivial h
  | dhcp d =>
    simp only [apply] at h
    rcases map_ok h with ⟨x, hx, hr⟩; subst hr
    have hi' : d.InvM := hi
    rcases dhcp_apply_cases d x op hi'.hlen hx with ⟨o, rfl⟩ | ⟨s, c, hc, _⟩ | ⟨h', hl, rfl⟩
    · exact dhcp_addOption_invM d o hi
    · exact absurd hc (hop s)
    · exact ⟨hl, hi'.size⟩
  | dhcpv6 d =>
    simp only [apply] at h
    rcases map_ok h with ⟨x, hx, hr⟩; subst hr
    have hi' : d.InvM := hi
    rcases dhcpv6_apply_cases d x op hi'.hlen hx with ⟨o, rfl⟩ | ⟨s, c, hc, _⟩ | ⟨h', hl, rfl⟩ | ⟨a, ha, rfl⟩ | ⟨a, ha, rfl⟩
    · exact dhcpv6_addOption_invM d o hi
    · exact absurd hc (hop s)
    · exact ⟨hl, hi'.link, hi'.peer, hi'.size⟩
    · exact ⟨hi'.hlen, hi'.link, ha, hi'.size⟩
    · exact ⟨hi'.hlen, ha, hi'.peer, hi'.size⟩

/-! ### non-vacuity -/

/-- a constructed DHCP object with an option added satisfies the invariant and is serializable -/
example : ∃ o, mk "DHCP" [] = .ok o ∧ ∃ o1, apply o ["end"] = .ok o1 ∧ ObjInv o1 ∧ Serializable o1 ∧ hdr o1 = 241 := by
  refine ⟨_, rfl, ?_⟩
  refine ⟨_, rfl, ?_, ?_, ?_⟩
  · exact app_apply_inv (.dhcp Dhcp.create) _ ["end"] (app_mk_inv "DHCP" [] _ rfl) (app_mk_serializable "DHCP" [] _ rfl) rfl
  · simp [Serializable, Dhcp.Fits, Dhcp.wireSum, Dhcp.optWire, Dhcp.single, Dhcp.addOption, Dhcp.create]
  · rfl

/-- VXLAN is the one class of the family that builds an inner class: 8 header bytes, the rest goes to EthernetII -/
example : parse "VXLAN" [8, 0, 0, 0, 0, 0, 5, 0, 1, 2, 3] = .ok (.vxlan ⟨[8, 0, 0, 0, 0, 0, 5, 0]⟩, .cls "EthernetII" [1, 2, 3] false) := rfl

/-- an RTP packet with one padding byte: invariant holds, trailer of 1 byte, payload is a RawPDU -/
example : ∃ r, parse "RTP" ([0xa0, 0, 0, 0, 0, 0, 0, 0, 0, 0, 0, 0] ++ [7, 1]) = .ok (.rtp r, .raw [7]) ∧ trl (.rtp r) 1 = 1 :=
  ⟨_, rfl, rfl⟩

end Tins.Wire.App
