import TinsModel.Wire.App.Raw
/- `Tins::DHCPv6` (src/dhcpv6.cpp, include/tins/dhcpv6.h): 4-byte client/server header or 34-byte relay header,
   TLV options (16-bit code, 16-bit length) with a cached size, typed option codecs. -/
namespace Tins.Wire.App

structure Dhcpv6 where
  h : Bytes            -- `header_data_[4]`: msg type + transaction id, or msg type + hop count (+ 2 unused bytes)
  link : Bytes         -- `link_addr_` (16 bytes)
  peer : Bytes         -- `peer_addr_` (16 bytes)
  opts : List Opt      -- `options_`
  optsSize : Nat       -- `options_size_` (uint32_t)
deriving Repr, DecidableEq

namespace Dhcpv6

def msgType (d : Dhcpv6) : Nat := getU8 d.h 0
/-- `is_relay_message()` -/
def isRelay (d : Dhcpv6) : Bool := d.msgType == 12 || d.msgType == 13

/-- bytes one option occupies on the wire / contributes to `options_size_` -/
def optWire (o : Opt) : Nat := o.data.length + 4

def sizeAfter (s : Nat) (os : List Opt) : Nat := os.foldl (fun s o => (s + optWire o) % 4294967296) s

/-- the `while (stream)` loop; every round consumes at least four bytes -/
def parseOpts : Nat → Cursor → Out (List Opt)
  | 0, c => if c.toBool then .fault "DHCPv6::DHCPv6: out of fuel" else .ok []
  | fuel + 1, c =>
    if !c.toBool then .ok [] else do
    let (code, c) ← c.readBE 2
    let (len, c) ← c.readBE 2
    if !c.canRead len then .throw .malformedPacket else
    -- option(opt, stream.pointer(), stream.pointer() + data_size): copy through the raw pointer
    let data ← c.peek "DHCPv6::DHCPv6 option payload" 0 len
    let c ← c.skip len
    let rest ← parseOpts fuel c
    pure (⟨code, len, data⟩ :: rest)

/-- `if (is_relay_message()) { stream.read(link_addr_); stream.read(peer_addr_); }` (default-constructed addresses
    otherwise) -/
def readRelay (on : Bool) (c : Cursor) : Out (Bytes × Bytes × Cursor) :=
  if on then do
    let (l, c) ← c.read 16
    let (p, c) ← c.read 16
    pure (l, p, c)
  else pure (List.replicate 16 0, List.replicate 16 0, c)

/-- `DHCPv6::DHCPv6(const uint8_t* buffer, uint32_t total_sz)` -/
def parse (b : Bytes) : Out (Dhcpv6 × Inner) := do
  let c := Cursor.ofBytes b
  if !c.toBool then .throw .malformedPacket else
  -- const MessageType message_type = (MessageType)*stream.pointer();
  let t ← c.peek "DHCPv6::DHCPv6 *stream.pointer()" 0 1
  let mt := Cursor.beNat t
  let isRelayMsg := mt == 12 || mt == 13
  let required := if isRelayMsg then 2 else 4
  let (hd, c) ← c.read required                          -- stream.read(&header_data_, required_size)
  let h := hd ++ List.replicate (4 - required) 0
  let d0 : Dhcpv6 := ⟨h, List.replicate 16 0, List.replicate 16 0, [], 0⟩
  let (link, peer, c) ← readRelay d0.isRelay c
  let opts ← parseOpts c.size c
  pure (⟨h, link, peer, opts, sizeAfter 0 opts⟩, .none)

/-! ### typed option decoders (`search_and_convert<T>` → `T::from_option` / `Converters::convert`) -/

/-- outcome of a typed getter -/
inductive Dec (α : Type)
  | val (a : α)
  | notFound          -- option_not_found
  | malformed         -- malformed_option
deriving Repr, DecidableEq

def Dec.str : Dec String → String
  | .val s => s
  | .notFound => "none"
  | .malformed => "bad"

def withOpt {α} (os : List Opt) (code : Nat) (f : Bytes → Dec α) : Dec α :=
  match findOpt os code with
  | none => .notFound
  | some o => f o.data

/-- `Internals::option2class_option_data`: a list of (16-bit length, bytes) entries filling the buffer exactly.
    `fuel` bounds the rounds (each consumes ≥ 2 bytes). -/
def classData : Nat → Bytes → Dec (List Bytes)
  | 0, b => if b.isEmpty then .val [] else .malformed
  | fuel + 1, b =>
    -- while (index + 2 <= total_sz)
    if b.length < 2 then (if b.isEmpty then .val [] else .malformed) else
    let size := Cursor.beNat (b.take 2)
    let b := b.drop 2
    if size > b.length then .notFound else       -- `throw option_not_found()`
    match classData fuel (b.drop size) with
    | .val rest => .val (b.take size :: rest)
    | e => e

def classDataStr (l : List Bytes) : String := if l.isEmpty then "empty" else ",".intercalate (l.map hexStr)

def decIaNa (b : Bytes) : Dec String :=
  if b.length < 12 then .malformed else
  .val s!"{Cursor.beNat (slice b 0 4)}.{Cursor.beNat (slice b 4 4)}.{Cursor.beNat (slice b 8 4)}.{hexStr (b.drop 12)}"

def decIaTa (b : Bytes) : Dec String :=
  if b.length < 4 then .malformed else .val s!"{Cursor.beNat (slice b 0 4)}.{hexStr (b.drop 4)}"

def decIaAddr (b : Bytes) : Dec String :=
  if b.length < 24 then .malformed else
  .val s!"{hexStr (slice b 0 16)}.{Cursor.beNat (slice b 16 4)}.{Cursor.beNat (slice b 20 4)}.{hexStr (b.drop 24)}"

def chunks2 : Nat → Bytes → List Nat
  | 0, _ => []
  | n + 1, b => Cursor.beNat (b.take 2) :: chunks2 n (b.drop 2)

def decU16List (b : Bytes) : Dec String :=
  if b.length % 2 != 0 then .malformed else .val (joinComma ((chunks2 (b.length / 2) b).map toString))

def decU8 (b : Bytes) : Dec String := match b with
  | [x] => .val (toString x.toNat)
  | _ => .malformed

def decU16 (b : Bytes) : Dec String := if b.length == 2 then .val (toString (Cursor.beNat b)) else .malformed

def decBytes (b : Bytes) : Dec String := .val (hexStr b)

def decAuth (b : Bytes) : Dec String :=
  if b.length < 11 then .malformed else
  .val s!"{getU8 b 0}.{getU8 b 1}.{getU8 b 2}.{Cursor.beNat (slice b 3 8)}.{hexStr (b.drop 11)}"

def decIp6 (b : Bytes) : Dec String := if b.length == 16 then .val (hexStr b) else .malformed

def decStatus (b : Bytes) : Dec String :=
  if b.length < 2 then .malformed else .val s!"{Cursor.beNat (slice b 0 2)}.{hexStr (b.drop 2)}"

def decUserClass (b : Bytes) : Dec String :=
  if b.length < 2 then .malformed else
  match classData b.length b with
  | .val l => .val (classDataStr l)
  | .notFound => .notFound
  | .malformed => .malformed

def decVendorClass (b : Bytes) : Dec String :=
  if b.length < 4 then .malformed else
  match classData b.length (b.drop 4) with
  | .val l => .val s!"{Cursor.beNat (slice b 0 4)}.{classDataStr l}"
  | .notFound => .notFound
  | .malformed => .malformed

def decVendorInfo (b : Bytes) : Dec String :=
  if b.length < 4 then .malformed else .val s!"{Cursor.beNat (slice b 0 4)}.{hexStr (b.drop 4)}"

def decDuid (b : Bytes) : Dec String :=
  if b.length < 3 then .malformed else .val s!"{Cursor.beNat (slice b 0 2)}.{hexStr (b.drop 2)}"

def hasOpt (os : List Opt) (code : Nat) : String := if (findOpt os code).isSome then "1" else "0"

def typedFields (os : List Opt) : Fields :=
  [("ia_na", (withOpt os 3 decIaNa).str), ("ia_ta", (withOpt os 4 decIaTa).str),
   ("ia_address", (withOpt os 5 decIaAddr).str), ("option_request", (withOpt os 6 decU16List).str),
   ("preference", (withOpt os 7 decU8).str), ("elapsed_time", (withOpt os 8 decU16).str),
   ("relay_message", (withOpt os 9 decBytes).str), ("authentication", (withOpt os 11 decAuth).str),
   ("server_unicast", (withOpt os 12 decIp6).str), ("status_code", (withOpt os 13 decStatus).str),
   ("has_rapid_commit", hasOpt os 14), ("user_class", (withOpt os 15 decUserClass).str),
   ("vendor_class", (withOpt os 16 decVendorClass).str), ("vendor_info", (withOpt os 17 decVendorInfo).str),
   ("interface_id", (withOpt os 18 decBytes).str), ("reconfigure_msg", (withOpt os 19 decU8).str),
   ("has_reconfigure_accept", hasOpt os 20), ("client_id", (withOpt os 1 decDuid).str),
   ("server_id", (withOpt os 2 decDuid).str)]

def fields (d : Dhcpv6) : Fields :=
  [("msg_type", toString d.msgType)] ++
  (if d.isRelay then [("hop_count", toString (getU8 d.h 1)), ("link_address", hexStr d.link), ("peer_address", hexStr d.peer)]
   else [("transaction_id", toString (getBE d.h 1 3))]) ++
  [("opts", optsStr d.opts)] ++ typedFields d.opts

/-- `DHCPv6::header_size()` -/
def hdr (d : Dhcpv6) : Nat := (if d.isRelay then 2 + 16 * 2 else 4) + d.optsSize

/-- `DHCPv6::DHCPv6()` -/
def create : Dhcpv6 := ⟨List.replicate 4 0, List.replicate 16 0, List.replicate 16 0, [], 0⟩

/-- `write_option` -/
def optBytes (o : Opt) : Bytes := OutCursor.beBytes 2 o.code ++ OutCursor.beBytes 2 o.lenField ++ o.data

def writeOpts (o : OutCursor) : List Opt → Out OutCursor
  | [] => .ok o
  | x :: xs => do
    let o ← o.writeBE 2 x.code
    let o ← o.writeBE 2 x.lenField
    let o ← o.write x.data
    writeOpts o xs

/-- `DHCPv6::write_serialization` -/
def write (_cx : Ctx) (d : Dhcpv6) (region : Bytes) : Out Bytes := do
  let required := if d.isRelay then 2 else 4
  let o ← (OutCursor.ofRegion region).write (d.h.take required)
  let o ← if d.isRelay then do
      let o ← o.write d.link
      o.write d.peer
    else pure o
  let o ← writeOpts o d.opts
  pure o.buffer

def addOption (d : Dhcpv6) (o : Opt) : Dhcpv6 :=
  { d with opts := d.opts ++ [o], optsSize := (d.optsSize + optWire o) % 4294967296 }

def removeOption (d : Dhcpv6) (code : Nat) : Dhcpv6 :=
  match findOpt d.opts code with
  | none => d
  | some o => { d with opts := eraseOpt d.opts code, optsSize := (d.optsSize + 4294967296 - optWire o) % 4294967296 }

def mkOpt (code : Nat) (data : Bytes) : Opt := ⟨code % 65536, data.length % 65536, data⟩

/-! ### typed option encoders -/

/-- `Internals::class_option_data2option` -/
def encClassData : List Bytes → Bytes
  | [] => []
  | e :: es => OutCursor.beBytes 2 e.length ++ e ++ encClassData es

def be32 (v : Nat) : Bytes := OutCursor.beBytes 4 v
def be16 (v : Nat) : Bytes := OutCursor.beBytes 2 v

/-- class-data argument: `empty` = no entries, otherwise comma-separated hex entries (`-` = empty entry) -/
def classArg (s : String) : Out (List Bytes) :=
  if s == "empty" then .ok [] else (s.splitOn ",").mapM hexArg

def u16ListArg (s : String) : Out Bytes :=
  (listArg s).foldlM (fun acc x => do let n ← natArg x; pure (acc ++ be16 n)) []

def apply (d : Dhcpv6) (op : List String) : Out Dhcpv6 :=
  match op with
  | ["msg_type", v] => do let n ← natArg v; pure { d with h := setU8 d.h 0 n }
  | ["hop_count", v] => do let n ← natArg v; pure { d with h := setU8 d.h 1 n }
  | ["transaction_id", v] => do let n ← natArg v; pure { d with h := setBE d.h 1 3 n }
  | ["peer_address", v] => do let b ← hexArgN v 16; pure { d with peer := b }
  | ["link_address", v] => do let b ← hexArgN v 16; pure { d with link := b }
  | ["add_option", c, v] => do let c ← natArg c; let b ← hexArg v; pure (d.addOption (mkOpt c b))
  | ["remove_option", c] => do let c ← natArg c; pure (d.removeOption (c % 65536))
  | ["ia_na", id, t1, t2, o] => do
    let id ← natArg id; let t1 ← natArg t1; let t2 ← natArg t2; let o ← hexArg o
    pure (d.addOption (mkOpt 3 (be32 id ++ be32 t1 ++ be32 t2 ++ o)))
  | ["ia_ta", id, o] => do
    let id ← natArg id; let o ← hexArg o
    pure (d.addOption (mkOpt 4 (be32 id ++ o)))
  | ["ia_address", a, p, v, o] => do
    let a ← hexArgN a 16; let p ← natArg p; let v ← natArg v; let o ← hexArg o
    pure (d.addOption (mkOpt 5 (a ++ be32 p ++ be32 v ++ o)))
  | ["option_request", l] => do let b ← u16ListArg l; pure (d.addOption (mkOpt 6 b))
  | ["preference", v] => do let n ← natArg v; pure (d.addOption (mkOpt 7 [UInt8.ofNat n]))
  | ["elapsed_time", v] => do let n ← natArg v; pure (d.addOption (mkOpt 8 (be16 n)))
  | ["relay_message", v] => do let b ← hexArg v; pure (d.addOption (mkOpt 9 b))
  | ["authentication", p, a, r, rd, info] => do
    let p ← natArg p; let a ← natArg a; let r ← natArg r; let rd ← natArg rd; let info ← hexArg info
    pure (d.addOption (mkOpt 11 ([UInt8.ofNat p, UInt8.ofNat a, UInt8.ofNat r] ++ OutCursor.beBytes 8 rd ++ info)))
  | ["server_unicast", v] => do let b ← hexArgN v 16; pure (d.addOption (mkOpt 12 b))
  | ["status_code", c, m] => do
    let c ← natArg c; let m ← hexArg m
    pure (d.addOption (mkOpt 13 (be16 c ++ m)))
  | ["rapid_commit"] => pure (d.addOption ⟨14, 0, []⟩)
  | ["user_class", l] => do let l ← classArg l; pure (d.addOption (mkOpt 15 (encClassData l)))
  | ["vendor_class", e, l] => do
    let e ← natArg e; let l ← classArg l
    pure (d.addOption (mkOpt 16 (be32 e ++ encClassData l)))
  | ["vendor_info", e, v] => do
    let e ← natArg e; let b ← hexArg v
    pure (d.addOption (mkOpt 17 (be32 e ++ b)))
  | ["interface_id", v] => do let b ← hexArg v; pure (d.addOption (mkOpt 18 b))
  | ["reconfigure_msg", v] => do let n ← natArg v; pure (d.addOption (mkOpt 19 [UInt8.ofNat n]))
  | ["reconfigure_accept"] => pure (d.addOption ⟨20, 0, []⟩)
  | ["client_id", id, v] => do
    let id ← natArg id; let b ← hexArg v
    pure (d.addOption (mkOpt 1 (be16 id ++ b)))
  | ["server_id", id, v] => do
    let id ← natArg id; let b ← hexArg v
    pure (d.addOption (mkOpt 2 (be16 id ++ b)))
  | _ => .throw .stdOther

def make : List String → Out Dhcpv6
  | [] => .ok create
  | _ => .throw .stdOther

end Dhcpv6
end Tins.Wire.App
