import TinsModel.Wire.Iface
/-
  Helpers shared by the App family models.  libtins keeps every fixed header as a packed C struct holding the
  wire bytes (`header_`); getters convert on the way out (`Endian::be_to_host`, bit-fields), setters overwrite the
  bytes of one member.  The models keep the same representation: a raw byte string plus slice accessors.
-/
namespace Tins.Wire.App
open Tins

/-- the bytes of a struct member at `[off, off+n)` -/
def slice (h : Bytes) (off n : Nat) : Bytes := (h.drop off).take n

/-- assignment to a struct member: overwrite `bs.length` bytes at `off` -/
def patch (h : Bytes) (off : Nat) (bs : Bytes) : Bytes := h.take off ++ bs ++ h.drop (off + bs.length)

/-- `Endian::be_to_host(header_.member)` for a member of `n` bytes at `off` -/
def getBE (h : Bytes) (off n : Nat) : Nat := Cursor.beNat (slice h off n)

/-- `header_.member = Endian::host_to_be<uintN_t>(v)` -/
def setBE (h : Bytes) (off n v : Nat) : Bytes := patch h off (OutCursor.beBytes n v)

/-- one byte member -/
def getU8 (h : Bytes) (off : Nat) : Nat := getBE h off 1
def setU8 (h : Bytes) (off v : Nat) : Bytes := setBE h off 1 v

def natArg (s : String) : Out Nat :=
  match s.toNat? with
  | some n => .ok n
  | none => .throw .stdOther

/-- a hex argument of exactly `n` bytes -/
def hexArgN (s : String) (n : Nat) : Out Bytes :=
  match parseHexStr s with
  | some b => if b.length == n then .ok b else .throw .stdOther
  | none => .throw .stdOther

def hexArg (s : String) : Out Bytes :=
  match parseHexStr s with
  | some b => .ok b
  | none => .throw .stdOther

/-- a numeric setter of an `n`-byte big-endian member at `off`: `header_.m = Endian::host_to_be<uintN_t>(v)` -/
def setNum (h : Bytes) (off n : Nat) (v : String) : Out Bytes := do
  let x ← natArg v
  pure (setBE h off n x)

/-- a setter copying exactly `n` bytes (address types, byte arrays) to `off` -/
def setHex (h : Bytes) (off n : Nat) (v : String) : Out Bytes := do
  let b ← hexArgN v n
  pure (patch h off b)

/-- comma separated list argument; "-" = empty list -/
def listArg (s : String) : List String := if s == "-" then [] else s.splitOn ","

def joinComma (xs : List String) : String := if xs.isEmpty then "-" else ",".intercalate xs

/-- a generic TLV option as `PDUOption` stores it: code, advertised length (`size_`), data (`real_size_` bytes) -/
structure Opt where
  code : Nat
  lenField : Nat
  data : Bytes
deriving Repr, DecidableEq

/-- `opts=<code>:<lengthfield>:<hex>,…` -/
def optsStr (os : List Opt) : String :=
  joinComma (os.map (fun o => s!"{o.code}:{o.lenField}:{hexStr o.data}"))

/-- `Internals::find_option`: first option with the given code -/
def findOpt (os : List Opt) (code : Nat) : Option Opt := os.find? (fun o => o.code == code)

/-- `options_.erase(iter)` for the first option with the given code -/
def eraseOpt : List Opt → Nat → List Opt
  | [], _ => []
  | o :: os, code => if o.code == code then os else o :: eraseOpt os code

end Tins.Wire.App
