import TinsModel.Wire.App.TheoremsRtp
/- RTP, C02 for API histories: every public setter (scalar fields, padding_size, extension_profile,
   add/remove_extension_data, add/remove_csrc_id) keeps `Rtp.Inv`, hence `rtp_writesOnlyExact` applies after any
   sequence of calls starting from `RTP()`. -/
namespace Tins.Wire.App
open Tins Tins.Wire

theorem getU8_setU8_same (h : Bytes) (off v : Nat) (hb : off + 1 ≤ h.length) : getU8 (setU8 h off v) off = v % 256 := by
  have := getBE_setBE_same h off 1 v hb
  simpa [getU8, setU8] using this

theorem getU8_setBE_other (h : Bytes) (off n v off2 : Nat) (hb : off + n ≤ h.length)
    (hd : off2 + 1 ≤ off ∨ off + n ≤ off2) : getU8 (setBE h off n v) off2 = getU8 h off2 := by
  unfold getU8; exact getBE_setBE_disjoint h off n v off2 1 hb hd

theorem setBits_length (h : Bytes) (off s w v : Nat) (hb : off + 1 ≤ h.length) : (Rtp.setBits h off s w v).length = h.length := by
  unfold Rtp.setBits; exact setU8_length h off _ hb

theorem getU8_setBits_same (h : Bytes) (off s w v : Nat) (hb : off + 1 ≤ h.length) :
    getU8 (Rtp.setBits h off s w v) off
      = (getU8 h off - (getU8 h off / 2 ^ s % 2 ^ w) * 2 ^ s + (v % 2 ^ w) * 2 ^ s) % 256 := by
  unfold Rtp.setBits; exact getU8_setU8_same h off _ hb

theorem getU8_setBits_other (h : Bytes) (off s w v off2 : Nat) (hb : off + 1 ≤ h.length) (hne : off2 ≠ off) :
    getU8 (Rtp.setBits h off s w v) off2 = getU8 h off2 := by
  unfold Rtp.setBits setU8; exact getU8_setBE_other h off 1 _ off2 hb (by omega)

/-- the padding bit (bit 5 of the first byte) is untouched by the version, extension-bit and CSRC-count fields -/
theorem bit5_keep (old v : Nat) (ho : old < 256) :
    ((old - (old / 2 ^ 6 % 2 ^ 2) * 2 ^ 6 + (v % 2 ^ 2) * 2 ^ 6) % 256) / 32 % 2 = old / 32 % 2 ∧
    ((old - (old / 2 ^ 4 % 2 ^ 1) * 2 ^ 4 + (v % 2 ^ 1) * 2 ^ 4) % 256) / 32 % 2 = old / 32 % 2 ∧
    ((old - (old / 2 ^ 0 % 2 ^ 4) * 2 ^ 0 + (v % 2 ^ 4) * 2 ^ 0) % 256) / 32 % 2 = old / 32 % 2 := by
  simp only [Nat.reducePow]
  refine ⟨by omega, by omega, by omega⟩

theorem bit5_set (old v : Nat) (ho : old < 256) :
    ((old - (old / 2 ^ 5 % 2 ^ 1) * 2 ^ 5 + (v % 2 ^ 1) * 2 ^ 5) % 256) / 32 % 2 = v % 2 := by
  simp only [Nat.reducePow]; omega

/-- rebuilding the object with a header image of the same size and the same padding bit keeps the invariant -/
theorem rtp_inv_of_header (h h' : Bytes) (cs cs' : List Nat) (p p' l : Nat) (ed : List Nat) (pd : Nat)
    (hi : Rtp.Inv ⟨h, cs, p, l, ed, pd⟩) (hl : h'.length = 12) (hb : getU8 h' 0 / 32 % 2 = getU8 h 0 / 32 % 2) :
    Rtp.Inv ⟨h', cs', p', l, ed, pd⟩ := by
  refine ⟨hl, hi.ext, ?_, hi.padLt, hi.extLt⟩
  have := hi.padBit
  simp only [Rtp.paddingBit] at this ⊢
  rw [hb]; exact this

/-- … also with a new extension list, as long as the length field counts it -/
theorem rtp_inv_build (h h' : Bytes) (cs cs' : List Nat) (p p' l l' : Nat) (ed ed' : List Nat) (pd : Nat)
    (hi : Rtp.Inv ⟨h, cs, p, l, ed, pd⟩) (hl : h'.length = 12) (hb : getU8 h' 0 / 32 % 2 = getU8 h 0 / 32 % 2)
    (hext : l' = ed'.length) (hl16 : l' < 65536) :
    Rtp.Inv ⟨h', cs', p', l', ed', pd⟩ := by
  refine ⟨hl, hext, ?_, hi.padLt, hl16⟩
  have := hi.padBit
  simp only [Rtp.paddingBit] at this ⊢
  rw [hb]; exact this

theorem eraseFirst_length (l : List Nat) (v : Nat) (h : l.contains v = true) :
    (Rtp.eraseFirst l v).length + 1 = l.length := by
  induction l with
  | nil => simp at h
  | cons x xs ih =>
    unfold Rtp.eraseFirst
    cases hx : (x == v) with
    | true => simp
    | false =>
      simp only [Bool.false_eq_true, if_false, List.length_cons]
      have : xs.contains v = true := by
        simp only [List.contains_cons] at h
        have hx' : (v == x) = false := by
          have : x ≠ v := by simpa using hx
          simp; exact fun e => this e.symm
        simpa [hx'] using h
      have := ih this
      omega

/-- **every public RTP setter keeps the invariant** -/
theorem rtp_apply_inv (r r' : Rtp) (op : List String) (hi : r.Inv) (e : r.apply op = .ok r') : r'.Inv := by
  obtain ⟨h, cs, p, l, ed, pd⟩ := r
  have hl12 : h.length = 12 := hi.hlen
  have ho := getU8_lt h 0
  unfold Rtp.apply at e
  split at e
  -- version
  · rcases natArg_cases ‹String› with ⟨n, hn⟩ | hn
    · simp only [hn, bind, Out.bind, Out.pure_eq] at e; injection e with e; subst e
      exact rtp_inv_of_header h _ cs cs p p l ed pd hi (by rw [setBits_length _ _ _ _ _ (by omega)]; exact hl12)
        (by rw [getU8_setBits_same _ _ _ _ _ (by omega)]; exact (bit5_keep _ n ho).1)
    · simp only [hn, bind, Out.bind] at e; cases e
  -- extension_bit
  · rcases natArg_cases ‹String› with ⟨n, hn⟩ | hn
    · simp only [hn, bind, Out.bind, Out.pure_eq] at e; injection e with e; subst e
      exact rtp_inv_of_header h _ cs cs p p l ed pd hi (by rw [setBits_length _ _ _ _ _ (by omega)]; exact hl12)
        (by rw [getU8_setBits_same _ _ _ _ _ (by omega)]; exact (bit5_keep _ n ho).2.1)
    · simp only [hn, bind, Out.bind] at e; cases e
  -- marker_bit
  · rcases natArg_cases ‹String› with ⟨n, hn⟩ | hn
    · simp only [hn, bind, Out.bind, Out.pure_eq] at e; injection e with e; subst e
      exact rtp_inv_of_header h _ cs cs p p l ed pd hi (by rw [setBits_length _ _ _ _ _ (by omega)]; exact hl12)
        (by rw [getU8_setBits_other _ _ _ _ _ _ (by omega) (by omega)])
    · simp only [hn, bind, Out.bind] at e; cases e
  -- payload_type
  · rcases natArg_cases ‹String› with ⟨n, hn⟩ | hn
    · simp only [hn, bind, Out.bind, Out.pure_eq] at e; injection e with e; subst e
      exact rtp_inv_of_header h _ cs cs p p l ed pd hi (by rw [setBits_length _ _ _ _ _ (by omega)]; exact hl12)
        (by rw [getU8_setBits_other _ _ _ _ _ _ (by omega) (by omega)])
    · simp only [hn, bind, Out.bind] at e; cases e
  -- sequence_number
  · rcases natArg_cases ‹String› with ⟨n, hn⟩ | hn
    · simp only [hn, bind, Out.bind, Out.pure_eq] at e; injection e with e; subst e
      exact rtp_inv_of_header h _ cs cs p p l ed pd hi (by rw [setBE_length _ _ _ _ (by omega)]; exact hl12)
        (by rw [getU8_setBE_other _ _ _ _ _ (by omega) (by omega)])
    · simp only [hn, bind, Out.bind] at e; cases e
  -- timestamp
  · rcases natArg_cases ‹String› with ⟨n, hn⟩ | hn
    · simp only [hn, bind, Out.bind, Out.pure_eq] at e; injection e with e; subst e
      exact rtp_inv_of_header h _ cs cs p p l ed pd hi (by rw [setBE_length _ _ _ _ (by omega)]; exact hl12)
        (by rw [getU8_setBE_other _ _ _ _ _ (by omega) (by omega)])
    · simp only [hn, bind, Out.bind] at e; cases e
  -- ssrc_id
  · rcases natArg_cases ‹String› with ⟨n, hn⟩ | hn
    · simp only [hn, bind, Out.bind, Out.pure_eq] at e; injection e with e; subst e
      exact rtp_inv_of_header h _ cs cs p p l ed pd hi (by rw [setBE_length _ _ _ _ (by omega)]; exact hl12)
        (by rw [getU8_setBE_other _ _ _ _ _ (by omega) (by omega)])
    · simp only [hn, bind, Out.bind] at e; cases e
  -- padding_size
  · rcases natArg_cases ‹String› with ⟨n, hn⟩ | hn
    · simp only [hn, bind, Out.bind, Out.pure_eq] at e; injection e with e; subst e
      refine ⟨by rw [setBits_length _ _ _ _ _ (by omega)]; exact hl12, hi.ext, ?_, Nat.mod_lt _ (by omega), hi.extLt⟩
      simp only [Rtp.paddingBit]
      rw [getU8_setBits_same _ _ _ _ _ (by omega), bit5_set _ _ ho]
      by_cases hz : n % 256 > 0
      · simp [hz]
      · simp [hz]
    · simp only [hn, bind, Out.bind] at e; cases e
  -- extension_profile
  · rcases natArg_cases ‹String› with ⟨n, hn⟩ | hn
    · simp only [hn, bind, Out.bind, Out.pure_eq] at e; injection e with e; subst e
      exact rtp_inv_of_header h h cs cs p _ l ed pd hi hl12 rfl
    · simp only [hn, bind, Out.bind] at e; cases e
  -- add_extension_data
  · rcases natArg_cases ‹String› with ⟨n, hn⟩ | hn
    · simp only [hn, bind, Out.bind] at e
      split at e
      · cases e
      · rename_i hlt
        simp only [Out.pure_eq] at e; injection e with e; subst e
        have hl : l < 65535 := by simpa using hlt
        have hext : l = ed.length := hi.ext
        refine ⟨by rw [setBits_length _ _ _ _ _ (by omega)]; exact hl12, ?_, ?_, hi.padLt, Nat.mod_lt _ (by omega)⟩
        · simp only [List.length_append, List.length_cons, List.length_nil]
          rw [Nat.mod_eq_of_lt (by omega)]; omega
        · simp only [Rtp.paddingBit]
          rw [getU8_setBits_same _ _ _ _ _ (by omega), (bit5_keep _ 1 ho).2.1]
          exact hi.padBit
    · simp only [hn, bind, Out.bind] at e; cases e
  -- remove_extension_data
  · rcases natArg_cases ‹String› with ⟨n, hn⟩ | hn
    · simp only [hn, bind, Out.bind, Out.pure_eq] at e
      split at e
      · injection e with e; subst e; exact hi
      · split at e
        · injection e with e; subst e; exact hi
        · rename_i hguard hcont
          have hl1 : l ≥ 1 := by
            simp only [Bool.or_eq_true, beq_iff_eq, not_or] at hguard
            have := hguard.2; omega
          have hext : l = ed.length := hi.ext
          have hl16 : l < 65536 := hi.extLt
          have hc : ed.contains (n % 4294967296) = true := by simpa using hcont
          have hel := eraseFirst_length ed _ hc
          have hmod : (l + 65535) % 65536 = l - 1 := by omega
          injection e with e
          have hinv1 : Rtp.Inv ⟨h, cs, p, (l + 65535) % 65536, Rtp.eraseFirst ed (n % 4294967296), pd⟩ :=
            rtp_inv_build h h cs cs p p l _ ed _ pd hi hl12 rfl (by omega) (Nat.mod_lt _ (by omega))
          split at e
          · subst e
            exact rtp_inv_of_header h _ cs cs p p _ _ pd hinv1 (by rw [setBits_length _ _ _ _ _ (by omega)]; exact hl12)
              (by rw [getU8_setBits_same _ _ _ _ _ (by omega)]; exact (bit5_keep _ 0 ho).2.1)
          · subst e; exact hinv1
    · simp only [hn, bind, Out.bind] at e; cases e
  -- add_csrc_id
  · rcases natArg_cases ‹String› with ⟨n, hn⟩ | hn
    · simp only [hn, bind, Out.bind] at e
      split at e
      · cases e
      · simp only [Out.pure_eq] at e; injection e with e; subst e
        exact rtp_inv_of_header h _ cs _ p p l ed pd hi (by rw [setBits_length _ _ _ _ _ (by omega)]; exact hl12)
          (by rw [getU8_setBits_same _ _ _ _ _ (by omega)]; exact (bit5_keep _ _ ho).2.2)
    · simp only [hn, bind, Out.bind] at e; cases e
  -- remove_csrc_id
  · rcases natArg_cases ‹String› with ⟨n, hn⟩ | hn
    · simp only [hn, bind, Out.bind, Out.pure_eq] at e
      split at e
      · injection e with e; subst e; exact hi
      · split at e
        · injection e with e; subst e; exact hi
        · injection e with e; subst e
          exact rtp_inv_of_header h _ cs _ p p l ed pd hi (by rw [setBits_length _ _ _ _ _ (by omega)]; exact hl12)
            (by rw [getU8_setBits_same _ _ _ _ _ (by omega)]; exact (bit5_keep _ _ ho).2.2)
    · simp only [hn, bind, Out.bind] at e; cases e
  · cases e

/-- `RTP()` satisfies the invariant -/
theorem rtp_create_inv : Rtp.create.Inv := by
  refine ⟨by decide, rfl, ?_, by decide, by decide⟩
  constructor
  · intro h; revert h; decide
  · intro h; revert h; decide

/-- **C02 for API histories**: after any sequence of public calls from `RTP()` the size functions agree with the writer -/
theorem rtp_history_inv (ops : List (List String)) (r r' : Rtp) (hi : r.Inv)
    (e : ops.foldlM (fun x op => x.apply op) r = .ok r') : r'.Inv := by
  induction ops generalizing r with
  | nil => simp only [List.foldlM_nil, Out.pure_eq] at e; injection e with e; subst e; exact hi
  | cons op ops ih =>
    simp only [List.foldlM_cons, bind, Out.bind] at e
    cases hx : r.apply op with
    | ok r1 => simp only [hx] at e; exact ih r1 (rtp_apply_inv r r1 op hi hx) e
    | throw x => simp only [hx] at e; cases e
    | fault s => simp only [hx] at e; cases e


/-! ### why RTP is stated with `WritesOnlyExact`

`Wire.WritesOnly` asks for success on *every* region of at least header + trailer bytes.  A writer that reaches its
trailer by skipping `inner_pdu()->size()` bytes cannot meet it on a region longer than header + inner + trailer (which
`PDU::serialize` never hands it): it then puts the trailer in the middle.  The full statement is kept visible and
refuted on a witness; `rtp_writesOnlyExact` is the statement that holds (and `serializeInto_ok_exact` the chain theorem
built on it). -/

def rtp_writesOnly_all : Prop := ∀ (cx : Ctx) (r : Rtp), r.Inv → WritesOnly (rtpSem cx r)

def rtpPadWitness : Rtp := ⟨[0xa0, 0, 0, 0, 0, 0, 0, 0, 0, 0, 0, 0], [], 0, 0, [], 1⟩

theorem rtpPadWitness_inv : rtpPadWitness.Inv := by
  refine ⟨by decide, rfl, ?_, by decide, by decide⟩
  constructor
  · intro _; decide
  · intro _; decide

theorem rtp_writesOnly_all_fails : ¬ rtp_writesOnly_all := by
  intro h
  have hw := h ⟨[], []⟩ rtpPadWitness rtpPadWitness_inv (List.replicate 14 7) (by decide)
  rcases hw with ⟨out, ho, _, hin⟩
  have hcomp : (rtpSem ⟨[], []⟩ rtpPadWitness).write (List.replicate 14 7)
      = .ok [0xa0, 0, 0, 0, 0, 0, 0, 0, 0, 0, 0, 0, 1, 7] := by rfl
  rw [hcomp] at ho
  injection ho with ho
  subst ho
  revert hin
  decide

end Tins.Wire.App
