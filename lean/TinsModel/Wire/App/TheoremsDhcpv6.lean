import TinsModel.Wire.App.TheoremsFixed
/- DHCPv6: C01 (option loop), C02 (`options_size_` equals the bytes written), invariant, typed option codecs (C04) -/
namespace Tins.Wire.App
open Tins Tins.Wire

/-! ## C01 -/

theorem dhcpv6_parseOpts_safe (fuel : Nat) (c : Cursor) (hi : c.Inv) (hf : c.size ≤ fuel) :
    (∃ os, Dhcpv6.parseOpts fuel c = .ok os) ∨ Dhcpv6.parseOpts fuel c = .throw .malformedPacket := by
  induction fuel generalizing c with
  | zero =>
    left; refine ⟨[], ?_⟩
    unfold Dhcpv6.parseOpts
    have : c.toBool = false := by simp only [Cursor.toBool]; simp; omega
    simp [this]
  | succ fuel ih =>
    unfold Dhcpv6.parseOpts
    by_cases hb : c.toBool
    · simp only [hb, Bool.not_true, Bool.false_eq_true, if_false]
      rcases readBE_safe c 2 hi with ⟨t, c1, e1, i1, hs1, hn1, _⟩ | ⟨e1, hlt⟩
      · simp only [e1, bind, Out.bind]
        rcases readBE_safe c1 2 i1 with ⟨len, c2, e2, i2, hs2, hn2, _⟩ | ⟨e2, _⟩
        · simp only [e2]
          by_cases hc : c2.canRead len
          · simp only [hc, Bool.not_true, Bool.false_eq_true, if_false]
            have hle : len ≤ c2.size := by simpa [Cursor.canRead] using hc
            rcases peek_safe "DHCPv6::DHCPv6 option payload" c2 0 len i2 (by omega) with ⟨d, e3, _⟩
            rcases Cursor.skip_spec c2 len i2 with ⟨c3, e4, i3, hs3, _⟩ | ⟨e4, hlt⟩
            · simp only [e3, e4]
              rcases ih c3 i3 (by omega) with ⟨os, e5⟩ | e5
              · left; exact ⟨_, by simp only [e5]; rfl⟩
              · right; simp only [e5]
            · omega
          · simp only [hc, Bool.not_false, if_true]; right; trivial
        · simp only [e2]; right; trivial
      · simp only [e1, bind, Out.bind]; right; trivial
    · simp only [hb, Bool.not_false, if_true]; left; exact ⟨[], rfl⟩

theorem dhcpv6_readRelay_safe (on : Bool) (c : Cursor) (hi : c.Inv) :
    (∃ l p c', Dhcpv6.readRelay on c = .ok (l, p, c') ∧ c'.Inv ∧ l.length = 16 ∧ p.length = 16 ∧ c'.size ≤ c.size)
    ∨ Dhcpv6.readRelay on c = .throw .malformedPacket := by
  unfold Dhcpv6.readRelay
  cases on with
  | false => left; exact ⟨_, _, c, rfl, hi, by simp, by simp, Nat.le_refl _⟩
  | true =>
    simp only [if_true]
    rcases Cursor.read_spec c 16 hi with ⟨l, c1, e1, i1, hl1, hs1, _⟩ | ⟨e1, _⟩
    · rcases Cursor.read_spec c1 16 i1 with ⟨p, c2, e2, i2, hl2, hs2, _⟩ | ⟨e2, _⟩
      · left; exact ⟨l, p, c2, by simp only [e1, e2, bind, Out.bind]; rfl, i2, hl1, hl2, by omega⟩
      · right; simp only [e1, e2, bind, Out.bind]
    · right; simp only [e1, bind, Out.bind]

/-- **C01 / DHCPv6**: the unchecked `*stream.pointer()` is guarded by `if (!stream) throw`, the option payload copy
    by `can_read`; for every input only `malformed_packet` can be thrown -/
theorem dhcpv6_parse_safe (b : Bytes) : ParseSafe (Dhcpv6.parse b) := by
  unfold Dhcpv6.parse
  have i0 := Cursor.ofBytes_inv b
  by_cases hb : (Cursor.ofBytes b).toBool
  · simp only [hb, Bool.not_true, Bool.false_eq_true, if_false]
    have hpos : (Cursor.ofBytes b).size > 0 := by simpa [Cursor.toBool] using hb
    rcases peek_safe "DHCPv6::DHCPv6 *stream.pointer()" (Cursor.ofBytes b) 0 1 i0 (by omega) with ⟨t, e0, _⟩
    simp only [e0, bind, Out.bind]
    generalize hreq : (if (Cursor.beNat t == 12 || Cursor.beNat t == 13) = true then 2 else 4) = required
    rcases Cursor.read_spec (Cursor.ofBytes b) required i0 with ⟨hd, c1, e1, i1, _⟩ | ⟨e1, _⟩
    · simp only [e1]
      rcases dhcpv6_readRelay_safe (Dhcpv6.isRelay ⟨hd ++ List.replicate (4 - required) 0, List.replicate 16 0, List.replicate 16 0, [], 0⟩) c1 i1
        with ⟨l, p, c2, e2, i2, _⟩ | e2
      · simp only [e2]
        rcases dhcpv6_parseOpts_safe c2.size c2 i2 (Nat.le_refl _) with ⟨os, e4⟩ | e4
        · simp only [e4]; exact .ok _
        · simp only [e4]; exact .malformed
      · simp only [e2]; exact .malformed
    · simp only [e1]; exact .malformed
  · simp only [hb, Bool.not_false, if_true]; exact .malformed


/-! ## C02 -/

def Dhcpv6.wireSum : List Opt → Nat
  | [] => 0
  | o :: os => Dhcpv6.optWire o + Dhcpv6.wireSum os

def Dhcpv6.optsBytes : List Opt → Bytes
  | [] => []
  | o :: os => Dhcpv6.optBytes o ++ Dhcpv6.optsBytes os

theorem dhcpv6_optBytes_length (o : Opt) : (Dhcpv6.optBytes o).length = Dhcpv6.optWire o := by
  simp [Dhcpv6.optBytes, Dhcpv6.optWire]; omega

/-- **`x_options_size_exact`** -/
theorem dhcpv6_optsBytes_length (os : List Opt) : (Dhcpv6.optsBytes os).length = Dhcpv6.wireSum os := by
  induction os with
  | nil => rfl
  | cons o os ih => simp only [Dhcpv6.optsBytes, Dhcpv6.wireSum, List.length_append, dhcpv6_optBytes_length, ih]

theorem dhcpv6_writeOpts_ok (o : OutCursor) (os : List Opt) (hi : o.Inv) (h : Dhcpv6.wireSum os ≤ o.size) :
    Dhcpv6.writeOpts o os = .ok (emit o (Dhcpv6.optsBytes os)) := by
  induction os generalizing o with
  | nil => simp [Dhcpv6.writeOpts, Dhcpv6.optsBytes, emit_nil]
  | cons x xs ih =>
    simp only [Dhcpv6.wireSum, Dhcpv6.optWire] at h
    unfold Dhcpv6.writeOpts
    rw [writeBE_ok o 2 _ hi (by omega)]
    simp only [bind, Out.bind]
    have i1 := emit_inv o (OutCursor.beBytes 2 x.code) hi (by simp; omega)
    rw [writeBE_ok _ 2 _ i1 (by simp only [emit_size, OutCursor.beBytes_length]; omega)]
    simp only []
    have i2 := emit_inv _ (OutCursor.beBytes 2 x.lenField) i1 (by simp only [emit_size, OutCursor.beBytes_length]; omega)
    rw [write_ok _ x.data i2 (by simp only [emit_size, OutCursor.beBytes_length]; omega)]
    simp only []
    have i3 := emit_inv _ x.data i2 (by simp only [emit_size, OutCursor.beBytes_length]; omega)
    rw [ih _ i3 (by simp only [emit_size, OutCursor.beBytes_length]; omega)]
    simp only [emit_emit, Dhcpv6.optsBytes, Dhcpv6.optBytes, List.append_assoc]

structure Dhcpv6.Inv (d : Dhcpv6) : Prop where
  hlen : d.h.length = 4
  link : d.link.length = 16
  peer : d.peer.length = 16
  size : d.optsSize = Dhcpv6.wireSum d.opts

/-- the fixed part as written: 4 bytes, or 2 bytes + link + peer address for relay messages -/
def Dhcpv6.fixedBytes (d : Dhcpv6) : Bytes :=
  if d.isRelay then d.h.take 2 ++ d.link ++ d.peer else d.h.take 4

theorem dhcpv6_fixed_length (d : Dhcpv6) (hi : d.Inv) : d.fixedBytes.length = (if d.isRelay then 2 + 16 * 2 else 4) := by
  unfold Dhcpv6.fixedBytes
  split
  · simp only [List.length_append, List.length_take, hi.hlen, hi.link, hi.peer]; omega
  · simp only [List.length_take, hi.hlen]; omega

theorem dhcpv6_hdr_eq (d : Dhcpv6) (hi : d.Inv) : d.hdr = d.fixedBytes.length + Dhcpv6.wireSum d.opts := by
  unfold Dhcpv6.hdr; rw [dhcpv6_fixed_length d hi, hi.size]

theorem dhcpv6_write_eq (cx : Ctx) (d : Dhcpv6) (hi : d.Inv) (region : Bytes) (hr : d.hdr ≤ region.length) :
    d.write cx region = .ok (d.fixedBytes ++ Dhcpv6.optsBytes d.opts ++ region.drop d.hdr) := by
  have hh := dhcpv6_hdr_eq d hi
  have hfl := dhcpv6_fixed_length d hi
  unfold Dhcpv6.write
  have iG := ofRegion_inv region
  cases hrel : d.isRelay with
  | true =>
    simp only [hrel, if_true] at hfl
    have hfix : d.fixedBytes = d.h.take 2 ++ d.link ++ d.peer := by simp [Dhcpv6.fixedBytes, hrel]
    have ht : (d.h.take 2).length = 2 := by simp only [List.length_take, hi.hlen]; omega
    simp only [if_true]
    rw [write_ok _ _ iG (by simp only [OutCursor.ofRegion, ht]; omega)]
    simp only [bind, Out.bind]
    have i1 := emit_inv _ (d.h.take 2) iG (by simp only [OutCursor.ofRegion, ht]; omega)
    rw [write_ok _ d.link i1 (by simp only [emit_ofRegion_size, ht, hi.link]; omega)]
    simp only []
    have i2 := emit_inv _ d.link i1 (by simp only [emit_ofRegion_size, ht, hi.link]; omega)
    rw [write_ok _ d.peer i2 (by simp only [emit_emit, emit_ofRegion_size, List.length_append, ht, hi.link, hi.peer]; omega)]
    simp only []
    have i3 := emit_inv _ d.peer i2 (by simp only [emit_emit, emit_ofRegion_size, List.length_append, ht, hi.link, hi.peer]; omega)
    rw [dhcpv6_writeOpts_ok _ _ i3 (by
      simp only [emit_emit, emit_ofRegion_size, List.length_append, ht, hi.link, hi.peer]; omega)]
    simp only [emit_emit, emit_ofRegion_buffer, Out.pure_eq, ← hfix]
    rw [List.length_append, dhcpv6_optsBytes_length, ← hh]
  | false =>
    simp only [hrel, Bool.false_eq_true, if_false] at hfl
    have hfix : d.fixedBytes = d.h.take 4 := by simp [Dhcpv6.fixedBytes, hrel]
    have ht : (d.h.take 4).length = 4 := by simp only [List.length_take, hi.hlen]; omega
    simp only [Bool.false_eq_true, if_false]
    rw [write_ok _ _ iG (by simp only [OutCursor.ofRegion, ht]; omega)]
    simp only [bind, Out.bind, Out.pure_eq]
    have i1 := emit_inv _ (d.h.take 4) iG (by simp only [OutCursor.ofRegion, ht]; omega)
    rw [dhcpv6_writeOpts_ok _ _ i1 (by simp only [emit_ofRegion_size, ht]; omega)]
    simp only [emit_emit, emit_ofRegion_buffer, ← hfix]
    rw [List.length_append, dhcpv6_optsBytes_length, ← hh]

def dhcpv6Sem (cx : Ctx) (d : Dhcpv6) : LayerSem := { name := "DHCPv6", hdr := d.hdr, trl := 0, write := d.write cx }

/-- **C02 / DHCPv6**: `header_size()` (fixed part + cached `options_size_`) is exactly what is written -/
theorem dhcpv6_writesOnly (cx : Ctx) (d : Dhcpv6) (hi : d.Inv) : WritesOnly (dhcpv6Sem cx d) := by
  apply writesOnly_of_header_only _ rfl
  intro region hr
  simp only [dhcpv6Sem] at hr
  have hh := dhcpv6_hdr_eq d hi
  have hpre : (d.fixedBytes ++ Dhcpv6.optsBytes d.opts).length = d.hdr := by
    rw [List.length_append, dhcpv6_optsBytes_length, hh]
  refine ⟨_, dhcpv6_write_eq cx d hi region hr, ?_, ?_⟩
  · rw [List.length_append, hpre, List.length_drop]; omega
  · simp only [dhcpv6Sem]
    rw [← hpre, List.drop_append_length, hpre]

end Tins.Wire.App
