import TinsModel.Wire.App.TheoremsFixed
/- RTP: C01 parse safety (CSRC loop, extension loop, padding), C02 size exactness of header + extension + padding -/
namespace Tins.Wire.App
open Tins Tins.Wire

/-! ## C01 -/

theorem readWords_safe (n : Nat) (c : Cursor) (hi : c.Inv) :
    (∃ ws c', Rtp.readWords n c = .ok (ws, c') ∧ c'.Inv ∧ ws.length = n) ∨ Rtp.readWords n c = .throw .malformedPacket := by
  induction n generalizing c with
  | zero => left; exact ⟨[], c, rfl, hi, rfl⟩
  | succ n ih =>
    unfold Rtp.readWords
    rcases readBE_safe c 4 hi with ⟨w, c1, e1, i1, _⟩ | ⟨e1, _⟩
    · rcases ih c1 i1 with ⟨ws, c2, e2, i2, hl⟩ | e2
      · left; exact ⟨w :: ws, c2, by simp only [e1, e2, bind, Out.bind]; rfl, i2, by simp [hl]⟩
      · right; simp only [e1, e2, bind, Out.bind]
    · right; simp only [e1, bind, Out.bind]

theorem parseExt_safe (on : Bool) (c : Cursor) (hi : c.Inv) :
    (∃ p l e c', Rtp.parseExt on c = .ok (p, l, e, c') ∧ c'.Inv ∧ (on = true → e.length = l) ∧ (on = false → e = [] ∧ l = 0)
        ∧ l < 65536)
    ∨ Rtp.parseExt on c = .throw .malformedPacket := by
  unfold Rtp.parseExt
  cases on with
  | false => left; exact ⟨0, 0, [], c, rfl, hi, by simp, by simp, by omega⟩
  | true =>
    simp only [if_true]
    rcases readBE_safe c 2 hi with ⟨p, c1, e1, i1, _⟩ | ⟨e1, _⟩
    · rcases readBE_safe c1 2 i1 with ⟨l, c2, e2, i2, _⟩ | ⟨e2, _⟩
      · rcases readWords_safe l c2 i2 with ⟨ws, c3, e3, i3, hl⟩ | e3
        · left; exact ⟨p, l, ws, c3, by simp only [e1, e2, e3, bind, Out.bind]; rfl, i3, fun _ => hl, by simp,
            by have := readBE_lt c1 2 l c2 i1 e2; omega⟩
        · right; simp only [e1, e2, e3, bind, Out.bind]
      · right; simp only [e1, e2, bind, Out.bind]
    · right; simp only [e1, bind, Out.bind]

theorem parsePadding_safe (on : Bool) (c : Cursor) (hi : c.Inv) :
    (∃ p, Rtp.parsePadding on c = .ok p ∧ (on = true → 0 < p ∧ p < 256) ∧ (on = false → p = 0))
    ∨ Rtp.parsePadding on c = .throw .malformedPacket := by
  unfold Rtp.parsePadding
  cases on with
  | false => left; exact ⟨0, rfl, by simp, by simp⟩
  | true =>
    simp only [if_true]
    by_cases hs : c.size > 0
    · simp only [hs, if_true]
      rcases Cursor.skip_spec c (c.size - 1) hi with ⟨c1, e1, i1, hs1, _⟩ | ⟨e1, hlt⟩
      · rcases readU8_safe c1 i1 with ⟨p, c2, e2, _, _, _, _, hv⟩ | ⟨e2, hlt2⟩
        · simp only [e1, e2, bind, Out.bind]
          by_cases hp : (p == 0) = true
          · right; simp only [hp, if_true]
          · left
            refine ⟨p, by simp only [hp]; rfl, ?_, by simp⟩
            intro _
            have hp' : p ≠ 0 := by simpa using hp
            refine ⟨by omega, ?_⟩
            rw [hv]
            -- one byte: value below 256
            cases hm : c1.mem.take 1 with
            | nil => simp [Cursor.beNat]
            | cons x xs =>
              have : xs = [] := by
                have hl : (c1.mem.take 1).length ≤ 1 := by simp only [List.length_take]; omega
                rw [hm] at hl; simp only [List.length_cons] at hl
                cases xs with
                | nil => rfl
                | cons _ _ => simp at hl
              subst this
              simp only [Cursor.beNat, List.foldl_cons, List.foldl_nil]
              have := x.toNat_lt
              omega
        · right; simp only [e1, e2, bind, Out.bind]
      · omega
    · simp only [hs, if_false]; right; trivial

theorem finish_safe (r : Rtp) (c : Cursor) (hi : c.Inv) : ParseSafe (Rtp.finish r c) := by
  unfold Rtp.finish
  simp only
  split
  · exact .malformed
  · split
    · rcases peek_safe "RTP::RTP RawPDU" c 0 (c.size - r.padding) hi (by omega) with ⟨bs, e, _⟩
      simp only [e, bind, Out.bind]; exact .ok _
    · exact .ok _

/-- **C01 / RTP**: the CSRC loop, the extension loop, the padding look-ahead through `skip` and the raw payload copy
    stay inside the buffer for every input -/
theorem rtp_parse_safe (b : Bytes) : ParseSafe (Rtp.parse b) := by
  unfold Rtp.parse
  rcases Cursor.read_spec (Cursor.ofBytes b) 12 (Cursor.ofBytes_inv b) with ⟨h, c1, e1, i1, _⟩ | ⟨e1, _⟩
  · simp only [e1, bind, Out.bind]
    rcases readWords_safe (Rtp.csrcCount ⟨h, [], 0, 0, [], 0⟩) c1 i1 with ⟨ws, c2, e2, i2, _⟩ | e2
    · simp only [e2]
      rcases parseExt_safe (Rtp.extensionBit ⟨h, [], 0, 0, [], 0⟩ == 1) c2 i2 with ⟨p, l, e, c3, e3, i3, _⟩ | e3
      · simp only [e3]
        rcases parsePadding_safe (Rtp.paddingBit ⟨h, [], 0, 0, [], 0⟩ == 1) c3 i3 with ⟨pd, e4, _⟩ | e4
        · simp only [e4]; exact finish_safe _ c3 i3
        · simp only [e4]; exact .malformed
      · simp only [e3]; exact .malformed
    · simp only [e2]; exact .malformed
  · simp only [e1, bind, Out.bind]; exact .malformed


/-! ## C02 -/

/-- The per-layer obligation of C02 for a layer whose trailer lies *behind* the inner layers (its writer skips
    `inner_pdu()->size()` bytes): on the region `PDU::serialize` hands it — exactly header + inner chain (`n` bytes) +
    trailer — `write_serialization` succeeds, keeps the length and leaves the inner part untouched.
    `WritesOnly l` implies `WritesOnlyExact l n` for every `n`. -/
def WritesOnlyExact (l : LayerSem) (n : Nat) : Prop :=
  ∀ region : Bytes, region.length = l.hdr + n + l.trl →
    ∃ out, l.write region = .ok out ∧ out.length = region.length ∧ innerOf l out = innerOf l region

theorem writesOnlyExact_of_writesOnly (l : LayerSem) (h : WritesOnly l) (n : Nat) : WritesOnlyExact l n :=
  fun region hr => h region (by omega)

/-- `serialize` is total and size-exact for chains whose layers meet the exact-region obligation (any depth) -/
theorem serializeInto_ok_exact (ls : List LayerSem)
    (hall : ∀ i (hi : i < ls.length), WritesOnlyExact ls[i] (sizeOf (ls.drop (i + 1)))) (region : Bytes)
    (hlen : region.length = sizeOf ls) :
    ∃ out, serializeInto ls region = .ok out ∧ out.length = region.length := by
  induction ls generalizing region with
  | nil => exact ⟨region, rfl, rfl⟩
  | cons l ls ih =>
    simp only [sizeOf] at hlen
    have hin : ((region.drop l.hdr).take (region.length - (l.hdr + l.trl))).length = sizeOf ls := by
      simp only [List.length_take, List.length_drop]; omega
    have hall' : ∀ i (hi : i < ls.length), WritesOnlyExact ls[i] (sizeOf (ls.drop (i + 1))) := by
      intro i hi
      have := hall (i + 1) (by simp only [List.length_cons]; omega)
      simpa using this
    rcases ih hall' _ hin with ⟨io, hio, hiol⟩
    have hsl : (splice region l.hdr io).length = region.length := splice_length _ _ _ (by omega)
    have h0 := hall 0 (by simp)
    simp only [List.getElem_cons_zero, Nat.zero_add, List.drop_succ_cons, List.drop_zero] at h0
    rcases h0 (splice region l.hdr io) (by omega) with ⟨out, ho, hol, _⟩
    refine ⟨out, ?_, by omega⟩
    simp only [serializeInto, hio, bind, Out.bind] at *
    exact ho

/-- the bytes of a word list on the wire -/
def Rtp.wordsBytes : List Nat → Bytes
  | [] => []
  | w :: ws => OutCursor.beBytes 4 w ++ Rtp.wordsBytes ws

theorem wordsBytes_length (ws : List Nat) : (Rtp.wordsBytes ws).length = 4 * ws.length := by
  induction ws with
  | nil => rfl
  | cons w ws ih => simp only [Rtp.wordsBytes, List.length_append, OutCursor.beBytes_length, ih, List.length_cons]; omega

theorem writeWords_ok (o : OutCursor) (ws : List Nat) (hi : o.Inv) (h : 4 * ws.length ≤ o.size) :
    Rtp.writeWords o ws = .ok (emit o (Rtp.wordsBytes ws)) := by
  induction ws generalizing o with
  | nil => simp [Rtp.writeWords, Rtp.wordsBytes, emit_nil]
  | cons w ws ih =>
    simp only [List.length_cons] at h
    unfold Rtp.writeWords
    rw [writeBE_ok o 4 w hi (by omega)]
    simp only [bind, Out.bind]
    rw [ih _ (emit_inv o _ hi (by simp; omega)) (by simp only [emit_size, OutCursor.beBytes_length]; omega)]
    rw [emit_emit]; rfl

/-- `h.length = 12`, the extension length field counts the stored words, the padding bit is set exactly when there
    is padding — established by the parsing constructor and kept by every public setter -/
structure Rtp.Inv (r : Rtp) : Prop where
  hlen : r.h.length = 12
  ext : r.extLength = r.extData.length
  padBit : r.paddingBit = 1 ↔ r.padding > 0
  padLt : r.padding < 256
  extLt : r.extLength < 65536

/-- the extension header + data as written -/
def Rtp.extBytes (r : Rtp) : Bytes :=
  if r.extensionBit == 1 then OutCursor.beBytes 2 r.extProfile ++ OutCursor.beBytes 2 r.extLength ++ Rtp.wordsBytes r.extData
  else []

/-- everything `write_serialization` puts in front of the payload -/
def Rtp.headerBytes (r : Rtp) : Bytes := r.h ++ Rtp.wordsBytes r.csrc ++ r.extBytes

/-- **size exactness**: `header_size()` is the number of bytes the writer emits in front of the payload -/
theorem rtp_headerBytes_length (r : Rtp) (hi : r.Inv) : r.headerBytes.length = r.hdr := by
  unfold Rtp.headerBytes Rtp.extBytes Rtp.hdr
  simp only [List.length_append, hi.hlen, wordsBytes_length]
  split
  · simp only [List.length_append, OutCursor.beBytes_length, wordsBytes_length, hi.ext] <;> omega
  · simp

theorem writeExt_ok (r : Rtp) (o : OutCursor) (hi : o.Inv) (hr : r.Inv) (h : r.extBytes.length ≤ o.size) :
    Rtp.writeExt r o = .ok (emit o r.extBytes) := by
  unfold Rtp.writeExt
  unfold Rtp.extBytes at h ⊢
  split
  · rename_i hx
    simp only [hx, if_true, List.length_append, OutCursor.beBytes_length, wordsBytes_length] at h
    rw [writeBE_ok o 2 _ hi (by omega)]
    simp only [bind, Out.bind]
    have i1 := emit_inv o (OutCursor.beBytes 2 r.extProfile) hi (by simp; omega)
    rw [writeBE_ok _ 2 _ i1 (by simp only [emit_size, OutCursor.beBytes_length] <;> omega)]
    simp only []
    have i2 := emit_inv _ (OutCursor.beBytes 2 r.extLength) i1 (by simp only [emit_size, OutCursor.beBytes_length] <;> omega)
    rw [writeWords_ok _ _ i2 (by simp only [emit_size, OutCursor.beBytes_length] <;> omega)]
    rw [emit_emit, emit_emit, List.append_assoc]
  · simp [emit_nil]

def rtpSem (cx : Ctx) (r : Rtp) : LayerSem := { name := "RTP", hdr := r.hdr, trl := r.trl, write := r.write cx }

/-- **C02 / RTP**: on the region `PDU::serialize` hands it (header + inner chain + padding trailer) the writer
    succeeds, writes `header_size()` bytes in front, `trailer_size()` bytes behind the payload and nothing else -/
theorem rtp_writesOnlyExact (cx : Ctx) (r : Rtp) (hi : r.Inv) : WritesOnlyExact (rtpSem cx r) cx.innerSize := by
  intro region hr
  simp only [rtpSem, Rtp.trl] at hr
  have hH := rtp_headerBytes_length r hi
  have hHsplit : r.headerBytes = r.h ++ Rtp.wordsBytes r.csrc ++ r.extBytes := rfl
  have hcs := wordsBytes_length r.csrc
  have hlen12 := hi.hlen
  -- the three header writes
  have e1 : (OutCursor.ofRegion region).write r.h = .ok (emit (OutCursor.ofRegion region) r.h) :=
    write_ok _ _ (ofRegion_inv region) (by
      simp only [OutCursor.ofRegion, hlen12]
      have : 12 ≤ r.hdr := by unfold Rtp.hdr; omega
      omega)
  have i1 : (emit (OutCursor.ofRegion region) r.h).Inv := emit_inv _ _ (ofRegion_inv region) (by
      simp only [OutCursor.ofRegion, hlen12]
      have : 12 ≤ r.hdr := by unfold Rtp.hdr; omega
      omega)
  have hsz : r.h.length + (Rtp.wordsBytes r.csrc).length + r.extBytes.length = r.hdr := by
    rw [← hH, hHsplit]; simp only [List.length_append]
  have e2 := writeWords_ok (emit (OutCursor.ofRegion region) r.h) r.csrc i1 (by
      simp only [emit_ofRegion_size]; omega)
  have i2 := emit_inv _ (Rtp.wordsBytes r.csrc) i1 (by simp only [emit_ofRegion_size]; omega)
  have e3 : r.writeExt (emit (emit (OutCursor.ofRegion region) r.h) (Rtp.wordsBytes r.csrc))
      = .ok (emit (OutCursor.ofRegion region) r.headerBytes) := by
    rw [writeExt_ok r _ i2 hi (by simp only [emit_emit, emit_ofRegion_size, List.length_append] <;> omega)]
    simp only [emit_emit, hHsplit, List.append_assoc]
  have i3 : (emit (OutCursor.ofRegion region) r.headerBytes).Inv := by
    have := emit_inv _ r.extBytes i2 (by simp only [emit_emit, emit_ofRegion_size, List.length_append] <;> omega)
    simpa only [emit_emit, hHsplit, List.append_assoc] using this
  unfold rtpSem Rtp.write
  simp only [e1, e2, e3, bind, Out.bind]
  unfold Rtp.writePadding
  by_cases hp : r.paddingBit = 1
  · have hpos : r.padding > 0 := hi.padBit.mp hp
    simp only [hp, beq_self_eq_true, if_true, hpos]
    -- skip over the inner chain (or nothing when there is no inner PDU: then `innerSize = 0`)
    have hskip : Rtp.skipInner cx (emit (OutCursor.ofRegion region) r.headerBytes)
        = Out.ok (emit (OutCursor.ofRegion region) (r.headerBytes ++ (region.drop r.hdr).take cx.innerSize)) := by
      unfold Rtp.skipInner
      split
      · rename_i he
        have : cx.innerSize = 0 := by
          unfold Ctx.innerSize
          have : cx.inners = [] := by simpa using he
          simp [this]
        simp [this]
      · rw [skip_ok _ _ i3 (by simp only [emit_ofRegion_size]; omega), emit_emit, emit_ofRegion_rest, hH]
    rw [hskip]
    simp only [bind, Out.bind]
    have hmid : ((region.drop r.hdr).take cx.innerSize).length = cx.innerSize := by
      simp only [List.length_take, List.length_drop]; omega
    have i4 := emit_inv _ ((region.drop r.hdr).take cx.innerSize) i3 (by simp only [emit_ofRegion_size, hmid]; omega)
    simp only [emit_emit] at i4
    rw [fill_ok _ _ _ i4 (by simp only [emit_ofRegion_size, List.length_append, hmid, hH]; omega)]
    simp only []
    have i5 := emit_inv _ (List.replicate (r.padding - 1) (0 : UInt8)) i4
      (by simp only [emit_ofRegion_size, List.length_append, hmid, hH, List.length_replicate]; omega)
    simp only [emit_emit] at i5 ⊢
    rw [write_ok _ _ i5 (by
      simp only [emit_ofRegion_size, List.length_append, hmid, hH, List.length_replicate, List.length_cons, List.length_nil]; omega)]
    simp only [emit_emit, emit_ofRegion_buffer]
    refine ⟨_, rfl, ?_, ?_⟩
    · simp only [List.length_append, hmid, hH, List.length_replicate, List.length_cons, List.length_nil, List.length_drop]
      omega
    · simp only [innerOf, Rtp.trl]
      have hlenout : (r.headerBytes ++ List.take cx.innerSize (List.drop r.hdr region) ++ List.replicate (r.padding - 1) (0 : UInt8) ++
          [UInt8.ofNat r.padding] ++ List.drop (r.headerBytes ++ List.take cx.innerSize (List.drop r.hdr region) ++
          List.replicate (r.padding - 1) (0 : UInt8) ++ [UInt8.ofNat r.padding]).length region).length = region.length := by
        simp only [List.length_append, hmid, hH, List.length_replicate, List.length_cons, List.length_nil, List.length_drop]
        omega
      rw [hlenout]
      have hn : region.length - (r.hdr + r.padding) = cx.innerSize := by omega
      rw [hn]
      simp only [List.append_assoc]
      rw [← hH, List.drop_append_length, hH]
      rw [List.take_append_of_le_length (by omega), List.take_of_length_le (by omega)]
  · have hz : r.padding = 0 := by
      have := hi.padBit
      by_cases h0 : r.padding > 0
      · exact absurd (this.mpr h0) hp
      · omega
    have hp' : (r.paddingBit == 1) = false := by simpa using hp
    simp only [hp', Bool.false_eq_true, if_false, pure, emit_ofRegion_buffer]
    refine ⟨_, rfl, ?_, ?_⟩
    · simp only [List.length_append, List.length_drop, hH]; omega
    · simp only [innerOf, Rtp.trl, hz, Nat.add_zero]
      rw [← hH, List.drop_append_length]
      simp only [List.length_append, List.length_drop]
      congr 1
      omega

theorem finish_ok (r r' : Rtp) (c : Cursor) (i : Inner) (h : Rtp.finish r c = .ok (r', i)) : r' = r := by
  unfold Rtp.finish at h
  simp only at h
  split at h
  · cases h
  · split at h
    · cases hp : c.peek "RTP::RTP RawPDU" 0 (c.size - r.padding) with
      | ok bs => simp only [hp, bind, Out.bind] at h; injection h with h; injection h with h _; exact h.symm
      | throw e => simp only [hp, bind, Out.bind] at h; cases h
      | fault s => simp only [hp, bind, Out.bind] at h; cases h
    · injection h with h; injection h with h _; exact h.symm

/-- **the parsing constructor establishes the invariant** the size functions rely on -/
theorem rtp_parse_inv (b : Bytes) (r : Rtp) (i : Inner) (h : Rtp.parse b = .ok (r, i)) : r.Inv := by
  unfold Rtp.parse at h
  rcases Cursor.read_spec (Cursor.ofBytes b) 12 (Cursor.ofBytes_inv b) with ⟨hd, c1, e1, i1, hl, _⟩ | ⟨e1, _⟩
  · simp only [e1, bind, Out.bind] at h
    rcases readWords_safe (Rtp.csrcCount ⟨hd, [], 0, 0, [], 0⟩) c1 i1 with ⟨ws, c2, e2, i2, _⟩ | e2
    · simp only [e2] at h
      rcases parseExt_safe (Rtp.extensionBit ⟨hd, [], 0, 0, [], 0⟩ == 1) c2 i2 with ⟨p, l, e, c3, e3, i3, hon, hoff, hl16⟩ | e3
      · simp only [e3] at h
        rcases parsePadding_safe (Rtp.paddingBit ⟨hd, [], 0, 0, [], 0⟩ == 1) c3 i3 with ⟨pd, e4, pon, poff⟩ | e4
        · simp only [e4] at h
          have := finish_ok _ _ _ _ h
          subst this
          refine ⟨hl, ?_, ?_, ?_, hl16⟩
          · simp only
            cases hx : (Rtp.extensionBit ⟨hd, [], 0, 0, [], 0⟩ == 1) with
            | true => exact (hon hx).symm
            | false => rcases hoff hx with ⟨he, hl0⟩; simp [he, hl0]
          · simp only
            have hsame : Rtp.paddingBit ⟨hd, ws, p, l, e, pd⟩ = Rtp.paddingBit ⟨hd, [], 0, 0, [], 0⟩ := rfl
            rw [hsame]
            cases hx : (Rtp.paddingBit ⟨hd, [], 0, 0, [], 0⟩ == 1) with
            | true => have := pon hx; constructor
                      · intro _; exact this.1
                      · intro _; simpa using hx
            | false => have := poff hx; constructor
                       · intro h1; rw [h1] at hx; simp at hx
                       · intro h1; omega
          · simp only
            cases hx : (Rtp.paddingBit ⟨hd, [], 0, 0, [], 0⟩ == 1) with
            | true => exact (pon hx).2
            | false => have := poff hx; omega
        · simp only [e4] at h; cases h
      · simp only [e3] at h; cases h
    · simp only [e2] at h; cases h
  · simp only [e1, bind, Out.bind] at h; cases h

/-- without padding the general obligation holds (every region at least `header_size()` long) -/
theorem rtp_writesOnly_nopad (cx : Ctx) (r : Rtp) (hi : r.Inv) (hz : r.padding = 0) : WritesOnly (rtpSem cx r) := by
  intro region hr
  simp only [rtpSem, Rtp.trl, hz, Nat.add_zero] at hr
  -- reuse the exact statement with a context whose inner size matches this region
  have := rtp_writesOnlyExact ⟨cx.parents, [⟨"", [], region.length - r.hdr, 0⟩]⟩ r hi region (by
    simp only [rtpSem, Rtp.trl, hz, Ctx.innerSize, List.map_cons, List.map_nil, List.sum_cons, List.sum_nil]; omega)
  rcases this with ⟨out, ho, hl, hin⟩
  refine ⟨out, ?_, hl, hin⟩
  -- the writer looks at the context only when the padding bit is set
  have hp : (r.paddingBit == 1) = false := by
    have := hi.padBit
    cases h : r.paddingBit == 1 with
    | false => rfl
    | true => have : r.padding > 0 := this.mp (by simpa using h); omega
  simpa only [rtpSem, Rtp.write, Rtp.writePadding, hp, Bool.false_eq_true, if_false] using ho

end Tins.Wire.App
