import TinsModel.Wire.App.Family
import TinsModel.Wire.App.Lemmas
/-
  Per-layer theorems of the App family for the four wire properties (C01 parse_safe, C02 writesOnly,
  C03 reparse, C04 codec inverses).  Classes: ARP, VXLAN, STP, BootP (this file), RTP (TheoremsRtp),
  DHCP (TheoremsDhcp), DHCPv6 (TheoremsDhcpv6).
-/
namespace Tins.Wire.App
open Tins Tins.Wire

/-! ## C01 — fixed-header classes -/

/-- **C01 / ARP** -/
theorem arp_parse_safe (b : Bytes) : ParseSafe (Arp.parse b) := by
  unfold Arp.parse
  rcases Cursor.read_spec (Cursor.ofBytes b) Arp.hdrSize (Cursor.ofBytes_inv b) with ⟨h, c1, e1, i1, _⟩ | ⟨e1, _⟩
  · simp only [e1, bind, Out.bind]
    split
    · rcases rest_safe "ARP::ARP RawPDU" c1 i1 with ⟨bs, er, _⟩
      simp only [er]; exact .ok _
    · exact .ok _
  · simp only [e1, bind, Out.bind]; exact .malformed

/-- **C01 / VXLAN** -/
theorem vxlan_parse_safe (b : Bytes) : ParseSafe (Vxlan.parse b) := by
  unfold Vxlan.parse
  rcases Cursor.read_spec (Cursor.ofBytes b) Vxlan.hdrSize (Cursor.ofBytes_inv b) with ⟨h, c1, e1, i1, _⟩ | ⟨e1, _⟩
  · simp only [e1, bind, Out.bind]
    split
    · rcases rest_safe "VXLAN::VXLAN inner" c1 i1 with ⟨bs, er, _⟩
      simp only [er]; exact .ok _
    · exact .ok _
  · simp only [e1, bind, Out.bind]; exact .malformed

/-- the chain parser terminates below VXLAN: the inner EthernetII is built on strictly fewer bytes -/
theorem vxlan_parse_consumes (b : Bytes) (v : Vxlan) (name : String) (pb : Bytes) (fb : Bool)
    (h : Vxlan.parse b = .ok (v, .cls name pb fb)) : pb.length < b.length := by
  unfold Vxlan.parse at h
  rcases Cursor.read_spec (Cursor.ofBytes b) Vxlan.hdrSize (Cursor.ofBytes_inv b) with ⟨hb, c1, e1, i1, _, hs, hn, _, hm⟩ | ⟨e1, _⟩
  · simp only [e1, bind, Out.bind] at h
    split at h
    · rcases rest_safe "VXLAN::VXLAN inner" c1 i1 with ⟨bs, er, hbs⟩
      simp only [er] at h
      injection h with h
      injection h with _ h
      injection h with _ h2 _
      subst h2
      rw [hbs]
      simp only [List.length_take, hm, List.length_drop, Cursor.ofBytes] at *
      simp only [Vxlan.hdrSize] at *
      omega
    · injection h with h; injection h with _ h; cases h
  · simp only [e1, bind, Out.bind] at h; cases h

/-- **C01 / STP** -/
theorem stp_parse_safe (b : Bytes) : ParseSafe (Stp.parse b) := by
  unfold Stp.parse
  rcases Cursor.read_spec (Cursor.ofBytes b) Stp.hdrSize (Cursor.ofBytes_inv b) with ⟨h, c1, e1, i1, _⟩ | ⟨e1, _⟩
  · simp only [e1, bind, Out.bind]; exact .ok _
  · simp only [e1, bind, Out.bind]; exact .malformed

theorem bootp_parseWith_safe (b : Bytes) (n : Nat) :
    (∃ p c, BootP.parseWith b n = .ok (p, c) ∧ c.Inv ∧ p.h = b.take 236 ∧ p.vend = (b.drop 236).take n ∧ 236 + n ≤ b.length)
    ∨ BootP.parseWith b n = .throw .malformedPacket := by
  unfold BootP.parseWith
  rcases Cursor.read_spec (Cursor.ofBytes b) BootP.hdrSize (Cursor.ofBytes_inv b) with ⟨h, c1, e1, i1, _, hs1, hn1, hb1, hm1⟩ | ⟨e1, _⟩
  · simp only [e1, bind, Out.bind]
    by_cases hc : c1.canRead n
    · simp only [hc]
      rcases Cursor.read_spec c1 n i1 with ⟨v, c2, e2, i2, _, hs2, hn2, hb2, hm2⟩ | ⟨e2, hlt⟩
      · left
        refine ⟨⟨h, v⟩, c2, by simp [e2], i2, ?_, ?_, ?_⟩
        · simpa [Cursor.ofBytes, BootP.hdrSize] using hb1
        · simp only [hb2, hm1, Cursor.ofBytes, BootP.hdrSize]
        · simp only [Cursor.ofBytes, BootP.hdrSize] at *; omega
      · simp only [Cursor.canRead, decide_eq_true_eq] at hc; omega
    · simp only [hc]; right; rfl
  · right; simp only [e1, bind, Out.bind]

/-- **C01 / BootP** -/
theorem bootp_parse_safe (b : Bytes) : ParseSafe (BootP.parse b) := by
  unfold BootP.parse
  rcases bootp_parseWith_safe b 64 with ⟨p, c, e, _⟩ | e
  · simp only [e, bind, Out.bind]; exact .ok _
  · simp only [e, bind, Out.bind]; exact .malformed


/-! ## C02 / C03 — fixed-header classes -/

/-- writing a raw header struct of `n` bytes at the start of a region of at least `n` bytes -/
theorem header_write (h region : Bytes) (n : Nat) (hl : h.length = n) (hr : n ≤ region.length) :
    ∃ out, writeAtStart region h = .ok out ∧ out.length = region.length ∧ out.drop n = region.drop n
      ∧ out = h ++ region.drop n := by
  refine ⟨h ++ region.drop n, ?_, ?_, ?_, rfl⟩
  · rw [writeAtStart_eq region h (by omega), hl]
  · simp only [List.length_append, List.length_drop]; omega
  · rw [← hl]; simp

theorem natArg_cases (v : String) : (∃ n, natArg v = .ok n) ∨ natArg v = .throw .stdOther := by
  unfold natArg; split
  · exact .inl ⟨_, rfl⟩
  · exact .inr rfl

theorem hexArgN_ok (v : String) (n : Nat) (b : Bytes) (h : hexArgN v n = .ok b) : b.length = n := by
  unfold hexArgN at h
  split at h
  · split at h
    · next hlen => injection h with h; subst h; simpa using hlen
    · cases h
  · cases h

def Arp.Inv (a : Arp) : Prop := a.h.length = 28
def Vxlan.Inv (v : Vxlan) : Prop := v.h.length = 8
def Stp.Inv (s : Stp) : Prop := s.h.length = 35
def BootP.Inv (p : BootP) : Prop := p.h.length = 236

theorem arp_parse_inv (b : Bytes) (a : Arp) (i : Inner) (h : Arp.parse b = .ok (a, i)) : a.Inv := by
  unfold Arp.parse at h
  rcases Cursor.read_spec (Cursor.ofBytes b) Arp.hdrSize (Cursor.ofBytes_inv b) with ⟨hb, c1, e1, i1, hl, _⟩ | ⟨e1, _⟩
  · simp only [e1, bind, Out.bind] at h
    split at h
    · rcases rest_safe "ARP::ARP RawPDU" c1 i1 with ⟨bs, er, _⟩
      simp only [er] at h; injection h with h; injection h with h _; subst h; exact hl
    · injection h with h; injection h with h _; subst h; exact hl
  · simp only [e1, bind, Out.bind] at h; cases h

theorem vxlan_parse_inv (b : Bytes) (a : Vxlan) (i : Inner) (h : Vxlan.parse b = .ok (a, i)) : a.Inv := by
  unfold Vxlan.parse at h
  rcases Cursor.read_spec (Cursor.ofBytes b) Vxlan.hdrSize (Cursor.ofBytes_inv b) with ⟨hb, c1, e1, i1, hl, _⟩ | ⟨e1, _⟩
  · simp only [e1, bind, Out.bind] at h
    split at h
    · rcases rest_safe "VXLAN::VXLAN inner" c1 i1 with ⟨bs, er, _⟩
      simp only [er] at h; injection h with h; injection h with h _; subst h; exact hl
    · injection h with h; injection h with h _; subst h; exact hl
  · simp only [e1, bind, Out.bind] at h; cases h

theorem stp_parse_inv (b : Bytes) (a : Stp) (i : Inner) (h : Stp.parse b = .ok (a, i)) : a.Inv := by
  unfold Stp.parse at h
  rcases Cursor.read_spec (Cursor.ofBytes b) Stp.hdrSize (Cursor.ofBytes_inv b) with ⟨hb, c1, e1, i1, hl, _⟩ | ⟨e1, _⟩
  · simp only [e1, bind, Out.bind] at h
    injection h with h; injection h with h _; subst h; exact hl
  · simp only [e1, bind, Out.bind] at h; cases h

theorem bootp_parse_inv (b : Bytes) (a : BootP) (i : Inner) (h : BootP.parse b = .ok (a, i)) :
    a.Inv ∧ a.vend.length = 64 := by
  unfold BootP.parse at h
  rcases bootp_parseWith_safe b 64 with ⟨p, c, e, _, hh, hv, hlen⟩ | e
  · simp only [e, bind, Out.bind] at h
    injection h with h; injection h with h _; subst h
    refine ⟨?_, ?_⟩
    · simp only [BootP.Inv, hh, List.length_take]; omega
    · simp only [hv, List.length_take, List.length_drop]; omega
  · simp only [e, bind, Out.bind] at h; cases h

def arpSem (cx : Ctx) (a : Arp) : LayerSem := { name := "ARP", hdr := 28, trl := 0, write := a.write cx }
def vxlanSem (cx : Ctx) (v : Vxlan) : LayerSem := { name := "VXLAN", hdr := 8, trl := 0, write := v.write cx }
def stpSem (cx : Ctx) (s : Stp) : LayerSem := { name := "STP", hdr := 35, trl := 0, write := s.write cx }
def bootpSem (cx : Ctx) (p : BootP) : LayerSem := { name := "BootP", hdr := p.hdr, trl := 0, write := p.write cx }

/-- **C02 / ARP**: `write_serialization` succeeds on every region of at least 28 bytes, keeps its length and touches
    only the header bytes -/
theorem arp_writesOnly (cx : Ctx) (a : Arp) (hi : a.Inv) : WritesOnly (arpSem cx a) := by
  apply writesOnly_of_header_only _ rfl
  intro region hr
  rcases header_write a.h region 28 hi hr with ⟨out, ho, hl, hd, _⟩
  exact ⟨out, ho, hl, hd⟩

/-- **C02 / VXLAN** -/
theorem vxlan_writesOnly (cx : Ctx) (v : Vxlan) (hi : v.Inv) : WritesOnly (vxlanSem cx v) := by
  apply writesOnly_of_header_only _ rfl
  intro region hr
  rcases header_write v.h region 8 hi hr with ⟨out, ho, hl, hd, _⟩
  exact ⟨out, ho, hl, hd⟩

/-- **C02 / STP** -/
theorem stp_writesOnly (cx : Ctx) (s : Stp) (hi : s.Inv) : WritesOnly (stpSem cx s) := by
  apply writesOnly_of_header_only _ rfl
  intro region hr
  rcases header_write s.h region 35 hi hr with ⟨out, ho, hl, hd, _⟩
  exact ⟨out, ho, hl, hd⟩

/-- `BootP::write_serialization` writes exactly `bootp_ ++ vend_` at the start of the region -/
theorem bootp_write_eq (cx : Ctx) (p : BootP) (region : Bytes) (hr : p.h.length + p.vend.length ≤ region.length) :
    p.write cx region = .ok (p.h ++ p.vend ++ region.drop (p.h.length + p.vend.length)) := by
  unfold BootP.write OutCursor.ofRegion OutCursor.write
  have h1 : ¬ region.length < p.h.length := by omega
  simp only [h1, if_false, bind, Out.bind]
  have h2 : ¬ region.length - p.h.length < p.vend.length := by omega
  have h3 : ¬ (region.drop p.h.length).length < p.vend.length := by simp only [List.length_drop]; omega
  simp only [h2, h3, if_false, OutCursor.buffer, List.nil_append, List.drop_drop]
  rfl

/-- **C02 / BootP** -/
theorem bootp_writesOnly (cx : Ctx) (p : BootP) (hi : p.Inv) : WritesOnly (bootpSem cx p) := by
  apply writesOnly_of_header_only _ rfl
  intro region hr
  have hr' : p.h.length + p.vend.length ≤ region.length := by
    simp only [bootpSem, BootP.hdr, BootP.hdrSize] at hr; rw [hi]; exact hr
  refine ⟨_, bootp_write_eq cx p region hr', ?_, ?_⟩
  · simp only [List.length_append, List.length_drop]; omega
  · simp only [bootpSem, BootP.hdr, BootP.hdrSize]
    rw [← hi, ← List.length_append, List.drop_append_length]

/-- **C03 / ARP**: parsing a buffer that starts with the header image gives back the same object; the rest of the
    buffer becomes the RawPDU payload -/
theorem arp_reparse (a : Arp) (hi : a.Inv) (tail : Bytes) :
    Arp.parse (a.h ++ tail) = .ok (a, if tail.isEmpty then Inner.none else Inner.raw tail) := by
  unfold Arp.parse Cursor.read Cursor.canRead Cursor.ofBytes
  have hl : a.h.length = 28 := hi
  simp only [Arp.hdrSize, List.length_append, hl, bind, Out.bind]
  have e1 : (a.h ++ tail).take 28 = a.h := by rw [← hl]; simp
  have e2 : (a.h ++ tail).drop 28 = tail := by rw [← hl]; simp
  simp only [e1, e2, show (28 ≤ 28 + tail.length) from by omega, show ¬ (28 + tail.length < 28) from by omega,
    decide_true, Bool.not_true, Bool.false_eq_true, if_false]
  cases tail with
  | nil => simp [Cursor.toBool]
  | cons x xs => simp [Cursor.toBool, Cursor.rest, rdN]

/-- **C03 / VXLAN** -/
theorem vxlan_reparse (v : Vxlan) (hi : v.Inv) (tail : Bytes) :
    Vxlan.parse (v.h ++ tail) = .ok (v, if tail.isEmpty then Inner.none else Inner.cls "EthernetII" tail false) := by
  unfold Vxlan.parse Cursor.read Cursor.canRead Cursor.ofBytes
  have hl : v.h.length = 8 := hi
  simp only [Vxlan.hdrSize, List.length_append, hl, bind, Out.bind]
  have e1 : (v.h ++ tail).take 8 = v.h := by rw [← hl]; simp
  have e2 : (v.h ++ tail).drop 8 = tail := by rw [← hl]; simp
  simp only [e1, e2, show (8 ≤ 8 + tail.length) from by omega, show ¬ (8 + tail.length < 8) from by omega,
    decide_true, Bool.not_true, Bool.false_eq_true, if_false]
  cases tail with
  | nil => simp [Cursor.toBool]
  | cons x xs => simp [Cursor.toBool, Cursor.rest, rdN]

/-- **C03 / STP**: whatever follows the header is ignored -/
theorem stp_reparse (s : Stp) (hi : s.Inv) (tail : Bytes) : Stp.parse (s.h ++ tail) = .ok (s, Inner.none) := by
  unfold Stp.parse Cursor.read Cursor.canRead Cursor.ofBytes
  have hl : s.h.length = 35 := hi
  simp only [Stp.hdrSize, List.length_append, hl, bind, Out.bind]
  have e1 : (s.h ++ tail).take 35 = s.h := by rw [← hl]; simp
  simp only [e1, show (35 ≤ 35 + tail.length) from by omega, show ¬ (35 + tail.length < 35) from by omega,
    decide_true, Bool.not_true, Bool.false_eq_true, if_false]
  rfl

/-- **C03 / BootP**: with the 64-byte vendor area the wire format fixes -/
theorem bootp_reparse (p : BootP) (hi : p.Inv) (hv : p.vend.length = 64) (tail : Bytes) :
    BootP.parse (p.h ++ p.vend ++ tail) = .ok (p, Inner.none) := by
  unfold BootP.parse BootP.parseWith Cursor.read Cursor.canRead Cursor.ofBytes
  have hl : p.h.length = 236 := hi
  simp only [BootP.hdrSize, List.length_append, hl, hv, bind, Out.bind]
  have e1 : (p.h ++ p.vend ++ tail).take 236 = p.h := by rw [← hl, List.append_assoc]; simp
  have e2 : (p.h ++ p.vend ++ tail).drop 236 = p.vend ++ tail := by rw [← hl, List.append_assoc]; simp
  have e3 : (p.vend ++ tail).take 64 = p.vend := by rw [← hv]; simp
  simp only [e1, e2, e3, show (236 ≤ 236 + 64 + tail.length) from by omega,
    show ¬ (236 + 64 + tail.length < 236) from by omega,
    show (64 ≤ 236 + 64 + tail.length - 236) from by omega,
    decide_true, Bool.not_true, Bool.false_eq_true, if_false]
  have e4 : ¬ ((p.vend ++ tail).length < 64) := by simp only [List.length_append, hv]; omega
  simp only [e4, if_false]
  rfl

/-- **C03 end to end / ARP**: parse what `write_serialization` produced (on the exact-size region of a packet whose
    payload is `pl`) -/
theorem arp_write_reparse (cx : Ctx) (a : Arp) (hi : a.Inv) (region : Bytes) (hr : 28 ≤ region.length) :
    ∃ out, a.write cx region = .ok out ∧
      Arp.parse out = .ok (a, if (region.drop 28).isEmpty then Inner.none else Inner.raw (region.drop 28)) := by
  rcases header_write a.h region 28 hi hr with ⟨out, ho, _, _, he⟩
  exact ⟨out, ho, by rw [he]; exact arp_reparse a hi _⟩

end Tins.Wire.App
