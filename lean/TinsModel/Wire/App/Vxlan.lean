import TinsModel.Wire.App.Raw
/- `Tins::VXLAN` (src/vxlan.cpp, include/tins/vxlan.h): two big-endian 32-bit words (flags<<24, vni<<8). -/
namespace Tins.Wire.App

structure Vxlan where
  h : Bytes        -- `header_` (8 bytes)
deriving Repr, DecidableEq

namespace Vxlan

def hdrSize : Nat := 8

/-- `VXLAN::VXLAN(const uint8_t* buffer, uint32_t total_sz)` -/
def parse (b : Bytes) : Out (Vxlan × Inner) := do
  let c := Cursor.ofBytes b
  let (h, c) ← c.read hdrSize
  if c.toBool then
    let rest ← Cursor.rest "VXLAN::VXLAN inner" c
    -- Internals::pdu_from_flag(PDU::ETHERNET_II, ptr, size): `new EthernetII`, no try/catch
    pure (⟨h⟩, .cls "EthernetII" rest false)
  else pure (⟨h⟩, .none)

/-- `get_flags()`: `be_to_host(header_.flags) >> 24` -/
def flags (v : Vxlan) : Nat := getBE v.h 0 4 / 16777216
/-- `get_vni()`: `be_to_host(header_.vni) >> 8` -/
def vni (v : Vxlan) : Nat := getBE v.h 4 4 / 256

def fields (v : Vxlan) : Fields := [("flags", toString v.flags), ("vni", toString v.vni)]

/-- `set_flags(uint8_t)`: `header_.flags = host_to_be(new_flags << 24)` -/
def setFlags (v : Vxlan) (f : Nat) : Vxlan := ⟨setBE v.h 0 4 ((f % 256) * 16777216)⟩
/-- `set_vni(small_uint<24>)`: `header_.vni = host_to_be(new_vni << 8)` -/
def setVni (v : Vxlan) (n : Nat) : Vxlan := ⟨setBE v.h 4 4 ((n % 16777216) * 256)⟩

/-- `VXLAN::VXLAN(small_uint<24> vni)`: both words are assigned by the two setters -/
def create (n : Nat) : Vxlan := setVni (setFlags ⟨List.replicate 8 0⟩ 8) n

def write (_cx : Ctx) (v : Vxlan) (region : Bytes) : Out Bytes := writeAtStart region v.h

def apply (v : Vxlan) : List String → Out Vxlan
  | ["flags", x] => do let n ← natArg x; pure (v.setFlags n)
  | ["vni", x] => do let n ← natArg x; pure (v.setVni n)
  | _ => .throw .stdOther

def make : List String → Out Vxlan
  | [] => .ok (create 0)
  | [x] => do let n ← natArg x; pure (create n)
  | _ => .throw .stdOther

end Vxlan
end Tins.Wire.App
