import TinsModel.Wire.App.TheoremsFixed
/- C02/C04 for API histories of the fixed-header classes: every setter keeps the header image at its size (so the
   C02 theorems apply after any sequence of calls), getters read back exactly what the last setter stored and the
   other members are untouched (last-write map). -/
namespace Tins.Wire.App
open Tins Tins.Wire

theorem setNum_length (h h' : Bytes) (off n : Nat) (v : String) (hb : off + n ≤ h.length) (e : setNum h off n v = .ok h') :
    h'.length = h.length := by
  unfold setNum at e
  rcases natArg_cases v with ⟨x, hx⟩ | hx
  · simp only [hx, bind, Out.bind, Out.pure_eq] at e; injection e with e; subst e; exact setBE_length h off n x hb
  · simp only [hx, bind, Out.bind] at e; cases e

theorem setHex_length (h h' : Bytes) (off n : Nat) (v : String) (hb : off + n ≤ h.length) (e : setHex h off n v = .ok h') :
    h'.length = h.length := by
  unfold setHex at e
  cases hx : hexArgN v n with
  | ok b =>
    simp only [hx, bind, Out.bind, Out.pure_eq] at e; injection e with e; subst e
    exact patch_length h b off (by rw [hexArgN_ok v n b hx]; exact hb)
  | throw x => simp only [hx, bind, Out.bind] at e; cases e
  | fault s => simp only [hx, bind, Out.bind] at e; cases e

/-- a numeric setter stores `v mod 2^(8n)` and the getter of the same member reads it back -/
theorem setNum_get (h h' : Bytes) (off n : Nat) (v : String) (x : Nat) (hb : off + n ≤ h.length) (hv : natArg v = .ok x)
    (e : setNum h off n v = .ok h') : getBE h' off n = x % 256 ^ n := by
  unfold setNum at e
  simp only [hv, bind, Out.bind, Out.pure_eq] at e; injection e with e; subst e
  exact getBE_setBE_same h off n x hb

/-- … and leaves every member that does not overlap it unchanged -/
theorem setNum_frame (h h' : Bytes) (off n : Nat) (v : String) (off2 n2 : Nat) (hb : off + n ≤ h.length)
    (hd : off2 + n2 ≤ off ∨ off + n ≤ off2) (e : setNum h off n v = .ok h') : slice h' off2 n2 = slice h off2 n2 := by
  unfold setNum at e
  rcases natArg_cases v with ⟨x, hx⟩ | hx
  · simp only [hx, bind, Out.bind, Out.pure_eq] at e; injection e with e; subst e
    unfold setBE
    exact slice_patch_disjoint h _ off off2 n2 (by simpa using hb) (by simpa using hd)
  · simp only [hx, bind, Out.bind] at e; cases e

theorem setHex_get (h h' : Bytes) (off n : Nat) (v : String) (b : Bytes) (hb : off + n ≤ h.length) (hv : hexArgN v n = .ok b)
    (e : setHex h off n v = .ok h') : slice h' off n = b := by
  unfold setHex at e
  simp only [hv, bind, Out.bind, Out.pure_eq] at e; injection e with e; subst e
  have hl := hexArgN_ok v n b hv
  have := slice_patch_same h b off (by rw [hl]; exact hb)
  rwa [hl] at this

theorem setHex_frame (h h' : Bytes) (off n : Nat) (v : String) (off2 n2 : Nat) (hb : off + n ≤ h.length)
    (hd : off2 + n2 ≤ off ∨ off + n ≤ off2) (e : setHex h off n v = .ok h') : slice h' off2 n2 = slice h off2 n2 := by
  unfold setHex at e
  cases hx : hexArgN v n with
  | ok b =>
    simp only [hx, bind, Out.bind, Out.pure_eq] at e; injection e with e; subst e
    have hl := hexArgN_ok v n b hx
    exact slice_patch_disjoint h b off off2 n2 (by rw [hl]; exact hb) (by rw [hl]; exact hd)
  | throw x => simp only [hx, bind, Out.bind] at e; cases e
  | fault s => simp only [hx, bind, Out.bind] at e; cases e

/-! ## ARP -/

theorem arp_applyH_length (h h' : Bytes) (op : List String) (hl : h.length = 28) (e : Arp.applyH h op = .ok h') :
    h'.length = 28 := by
  unfold Arp.applyH at e
  split at e
  all_goals first
    | (rw [← hl]; exact setNum_length _ _ _ _ _ (by omega) e)
    | (rw [← hl]; exact setHex_length _ _ _ _ _ (by omega) e)
    | cases e

/-- every ARP setter keeps the invariant -/
theorem arp_apply_inv (a a' : Arp) (op : List String) (hi : a.Inv) (e : a.apply op = .ok a') : a'.Inv := by
  unfold Arp.apply at e
  cases hx : Arp.applyH a.h op with
  | ok h' => simp only [hx, bind, Out.bind, Out.pure_eq] at e; injection e with e; subst e; exact arp_applyH_length _ _ _ hi hx
  | throw x => simp only [hx, bind, Out.bind] at e; cases e
  | fault s => simp only [hx, bind, Out.bind] at e; cases e

/-- the invariant holds after **any** API history from the default constructor -/
theorem arp_history_inv (ops : List (List String)) (a a' : Arp) (hi : a.Inv)
    (e : ops.foldlM (fun x op => x.apply op) a = .ok a') : a'.Inv := by
  induction ops generalizing a with
  | nil => simp only [List.foldlM_nil, Out.pure_eq] at e; injection e with e; subst e; exact hi
  | cons op ops ih =>
    simp only [List.foldlM_cons, bind, Out.bind] at e
    cases hx : a.apply op with
    | ok a1 => simp only [hx] at e; exact ih a1 (arp_apply_inv a a1 op hi hx) e
    | throw x => simp only [hx] at e; cases e
    | fault s => simp only [hx] at e; cases e

theorem arp_create_inv (tip sip thw shw : Bytes) (h1 : tip.length = 4) (h2 : sip.length = 4) (h3 : thw.length = 6)
    (h4 : shw.length = 6) : (Arp.create tip sip thw shw).Inv := by
  unfold Arp.create Arp.Inv
  simp only
  have l0 : (List.replicate 28 (0 : UInt8)).length = 28 := by simp
  have l1 := setBE_length (List.replicate 28 (0 : UInt8)) 0 2 1 (by simp)
  have l2 := setBE_length (setBE (List.replicate 28 (0 : UInt8)) 0 2 1) 2 2 2048 (by omega)
  have l3 := setU8_length _ 4 6 (show 4 + 1 ≤ (setBE (setBE (List.replicate 28 (0 : UInt8)) 0 2 1) 2 2 2048).length by omega)
  have l4 := setU8_length _ 5 4 (show 5 + 1 ≤ (setU8 (setBE (setBE (List.replicate 28 (0 : UInt8)) 0 2 1) 2 2 2048) 4 6).length by omega)
  have l5 := patch_length _ sip 14 (show 14 + sip.length ≤ (setU8 (setU8 (setBE (setBE (List.replicate 28 (0 : UInt8)) 0 2 1) 2 2 2048) 4 6) 5 4).length by omega)
  have l6 := patch_length _ tip 24 (show 24 + tip.length ≤ (patch (setU8 (setU8 (setBE (setBE (List.replicate 28 (0 : UInt8)) 0 2 1) 2 2 2048) 4 6) 5 4) 14 sip).length by omega)
  have l7 := patch_length _ shw 8 (show 8 + shw.length ≤ (patch (patch (setU8 (setU8 (setBE (setBE (List.replicate 28 (0 : UInt8)) 0 2 1) 2 2 2048) 4 6) 5 4) 14 sip) 24 tip).length by omega)
  have l8 := patch_length _ thw 18 (show 18 + thw.length ≤ (patch (patch (patch (setU8 (setU8 (setBE (setBE (List.replicate 28 (0 : UInt8)) 0 2 1) 2 2 2048) 4 6) 5 4) 14 sip) 24 tip) 8 shw).length by omega)
  omega

/-- **C04 / ARP `opcode`**: the getter returns the value set (mod 2^16) and no other getter changes -/
theorem arp_opcode_set_get (a a' : Arp) (v : String) (x : Nat) (hi : a.Inv) (hv : natArg v = .ok x)
    (e : a.apply ["opcode", v] = .ok a') :
    a'.opcode = x % 65536 ∧ a'.hwFmt = a.hwFmt ∧ a'.protFmt = a.protFmt ∧ a'.hwLen = a.hwLen ∧ a'.protLen = a.protLen
      ∧ a'.senderHw = a.senderHw ∧ a'.senderIp = a.senderIp ∧ a'.targetHw = a.targetHw ∧ a'.targetIp = a.targetIp := by
  unfold Arp.apply at e
  cases hx : Arp.applyH a.h ["opcode", v] with
  | ok h' =>
    simp only [hx, bind, Out.bind, Out.pure_eq] at e; injection e with e; subst e
    have hs : setNum a.h 6 2 v = .ok h' := hx
    have hl : 6 + 2 ≤ a.h.length := by have : a.h.length = 28 := hi; omega
    refine ⟨?_, ?_, ?_, ?_, ?_, ?_, ?_, ?_, ?_⟩
    · exact setNum_get a.h h' 6 2 v x hl hv hs
    · simp only [Arp.hwFmt, getBE]; rw [setNum_frame a.h h' 6 2 v 0 2 hl (by omega) hs]
    · simp only [Arp.protFmt, getBE]; rw [setNum_frame a.h h' 6 2 v 2 2 hl (by omega) hs]
    · simp only [Arp.hwLen, getU8, getBE]; rw [setNum_frame a.h h' 6 2 v 4 1 hl (by omega) hs]
    · simp only [Arp.protLen, getU8, getBE]; rw [setNum_frame a.h h' 6 2 v 5 1 hl (by omega) hs]
    · simp only [Arp.senderHw]; exact setNum_frame a.h h' 6 2 v 8 6 hl (by omega) hs
    · simp only [Arp.senderIp]; exact setNum_frame a.h h' 6 2 v 14 4 hl (by omega) hs
    · simp only [Arp.targetHw]; exact setNum_frame a.h h' 6 2 v 18 6 hl (by omega) hs
    · simp only [Arp.targetIp]; exact setNum_frame a.h h' 6 2 v 24 4 hl (by omega) hs
  | throw x => simp only [hx, bind, Out.bind] at e; cases e
  | fault s => simp only [hx, bind, Out.bind] at e; cases e

/-- **C04 / ARP `sender_ip_addr`** -/
theorem arp_sender_ip_set_get (a a' : Arp) (v : String) (b : Bytes) (hi : a.Inv) (hv : hexArgN v 4 = .ok b)
    (e : a.apply ["sender_ip_addr", v] = .ok a') :
    a'.senderIp = b ∧ a'.opcode = a.opcode ∧ a'.senderHw = a.senderHw ∧ a'.targetHw = a.targetHw ∧ a'.targetIp = a.targetIp := by
  unfold Arp.apply at e
  cases hx : Arp.applyH a.h ["sender_ip_addr", v] with
  | ok h' =>
    simp only [hx, bind, Out.bind, Out.pure_eq] at e; injection e with e; subst e
    have hs : setHex a.h 14 4 v = .ok h' := hx
    have hl : 14 + 4 ≤ a.h.length := by have : a.h.length = 28 := hi; omega
    refine ⟨?_, ?_, ?_, ?_, ?_⟩
    · exact setHex_get a.h h' 14 4 v b hl hv hs
    · simp only [Arp.opcode, getBE]; rw [setHex_frame a.h h' 14 4 v 6 2 hl (by omega) hs]
    · simp only [Arp.senderHw]; exact setHex_frame a.h h' 14 4 v 8 6 hl (by omega) hs
    · simp only [Arp.targetHw]; exact setHex_frame a.h h' 14 4 v 18 6 hl (by omega) hs
    · simp only [Arp.targetIp]; exact setHex_frame a.h h' 14 4 v 24 4 hl (by omega) hs
  | throw x => simp only [hx, bind, Out.bind] at e; cases e
  | fault s => simp only [hx, bind, Out.bind] at e; cases e

/-! ## STP, VXLAN, BootP: setters keep the header size -/

theorem setAge_length (h h' : Bytes) (off : Nat) (v : String) (hb : off + 2 ≤ h.length) (e : Stp.setAge h off v = .ok h') :
    h'.length = h.length := by
  unfold Stp.setAge at e
  rcases natArg_cases v with ⟨x, hx⟩ | hx
  · simp only [hx, bind, Out.bind, Out.pure_eq] at e; injection e with e; subst e; exact setBE_length h off 2 _ hb
  · simp only [hx, bind, Out.bind] at e; cases e

theorem setId_length (h : Bytes) (off p e : Nat) (m : Bytes) (hm : m.length = 6) (hb : off + 8 ≤ h.length) :
    (Stp.setId h off p e m).length = h.length := by
  unfold Stp.setId
  simp only
  have l1 := setU8_length h off ((p % 16) * 16 + (e / 256) % 16) (by omega)
  have l2 := setU8_length (setU8 h off ((p % 16) * 16 + (e / 256) % 16)) (off + 1) (e % 256) (by omega)
  rw [patch_length _ m (off + 2) (by omega)]
  omega

theorem setIdArg_length (h h' : Bytes) (off : Nat) (p e m : String) (hb : off + 8 ≤ h.length)
    (eq : Stp.setIdArg h off p e m = .ok h') : h'.length = h.length := by
  unfold Stp.setIdArg at eq
  rcases natArg_cases p with ⟨x, hx⟩ | hx
  · rcases natArg_cases e with ⟨y, hy⟩ | hy
    · cases hm : hexArgN m 6 with
      | ok b =>
        simp only [hx, hy, hm, bind, Out.bind, Out.pure_eq] at eq; injection eq with eq; subst eq
        exact setId_length h off x y b (hexArgN_ok m 6 b hm) hb
      | throw z => simp only [hx, hy, hm, bind, Out.bind] at eq; cases eq
      | fault s => simp only [hx, hy, hm, bind, Out.bind] at eq; cases eq
    · simp only [hx, hy, bind, Out.bind] at eq; cases eq
  · simp only [hx, bind, Out.bind] at eq; cases eq

theorem stp_applyH_length (h h' : Bytes) (op : List String) (hl : h.length = 35) (e : Stp.applyH h op = .ok h') :
    h'.length = 35 := by
  unfold Stp.applyH at e
  split at e
  all_goals first
    | (rw [← hl]; exact setNum_length _ _ _ _ _ (by omega) e)
    | (rw [← hl]; exact setAge_length _ _ _ _ (by omega) e)
    | (rw [← hl]; exact setIdArg_length _ _ _ _ _ _ (by omega) e)
    | cases e

/-- every STP setter keeps the invariant -/
theorem stp_apply_inv (s s' : Stp) (op : List String) (hi : s.Inv) (e : s.apply op = .ok s') : s'.Inv := by
  unfold Stp.apply at e
  cases hx : Stp.applyH s.h op with
  | ok h' => simp only [hx, bind, Out.bind, Out.pure_eq] at e; injection e with e; subst e; exact stp_applyH_length _ _ _ hi hx
  | throw x => simp only [hx, bind, Out.bind] at e; cases e
  | fault s => simp only [hx, bind, Out.bind] at e; cases e

/-- every VXLAN setter keeps the invariant -/
theorem vxlan_apply_inv (v v' : Vxlan) (op : List String) (hi : v.Inv) (e : v.apply op = .ok v') : v'.Inv := by
  have hl : v.h.length = 8 := hi
  unfold Vxlan.apply at e
  split at e
  · rcases natArg_cases ‹String› with ⟨x, hx⟩ | hx
    · simp only [hx, bind, Out.bind, Out.pure_eq] at e; injection e with e; subst e
      simp only [Vxlan.Inv, Vxlan.setFlags]; rw [setBE_length _ _ _ _ (by omega)]; exact hl
    · simp only [hx, bind, Out.bind] at e; cases e
  · rcases natArg_cases ‹String› with ⟨x, hx⟩ | hx
    · simp only [hx, bind, Out.bind, Out.pure_eq] at e; injection e with e; subst e
      simp only [Vxlan.Inv, Vxlan.setVni]; rw [setBE_length _ _ _ _ (by omega)]; exact hl
    · simp only [hx, bind, Out.bind] at e; cases e
  · cases e

theorem setChaddr_length (h h' : Bytes) (v : String) (hb : 44 ≤ h.length) (e : BootP.setChaddr h v = .ok h') :
    h'.length = h.length := by
  unfold BootP.setChaddr at e
  cases hx : hexArg v with
  | ok b =>
    simp only [hx, bind, Out.bind] at e
    split at e
    · rename_i hlen
      simp only [Out.pure_eq] at e; injection e with e; subst e
      have : b.length = 6 ∨ b.length = 16 := by simpa using hlen
      exact patch_length h (b ++ List.replicate (16 - b.length) 0) 28 (by
        simp only [List.length_append, List.length_replicate]; omega)
    · cases e
  | throw x => simp only [hx, bind, Out.bind] at e; cases e
  | fault s => simp only [hx, bind, Out.bind] at e; cases e

/-- every BootP header setter (shared by DHCP) keeps the 236-byte header image -/
theorem bootp_setHeader_length (h h' : Bytes) (op : List String) (r : Out Bytes) (hl : h.length = 236)
    (hs : BootP.setHeader h op = some r) (e : r = .ok h') : h'.length = 236 := by
  unfold BootP.setHeader at hs
  split at hs
  all_goals first
    | (injection hs with hs; subst hs; rw [← hl]; exact setNum_length _ _ _ _ _ (by omega) e)
    | (injection hs with hs; subst hs; rw [← hl]; exact setHex_length _ _ _ _ _ (by omega) e)
    | (injection hs with hs; subst hs; rw [← hl]; exact setChaddr_length _ _ _ (by omega) e)
    | cases hs

end Tins.Wire.App
