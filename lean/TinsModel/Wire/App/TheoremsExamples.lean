import TinsModel.Wire.App.TheoremsRtpApi
import TinsModel.Wire.App.TheoremsOptApi
import TinsModel.Wire.App.TheoremsCodec
import TinsModel.Wire.App.TheoremsRtpReparse
/- non-vacuity: concrete, non-trivial states and inputs that satisfy the hypotheses of the family's theorems -/
namespace Tins.Wire.App
open Tins Tins.Wire

/-- an ARP request followed by two trailing bytes: accepted, the trailing bytes become the RawPDU payload -/
example : ∃ a, Arp.parse ([0, 1, 8, 0, 6, 4, 0, 1] ++ List.replicate 20 7 ++ [1, 2]) = .ok (a, .raw [1, 2]) ∧ a.Inv ∧ a.opcode = 1 :=
  ⟨_, rfl, by show List.length _ = 28; rfl, by decide⟩

/-- too short: rejected with `malformed_packet` -/
example : Arp.parse [0, 1, 8, 0] = .throw .malformedPacket := rfl

/-- VXLAN with an inner Ethernet frame -/
example : ∃ v, Vxlan.parse ([8, 0, 0, 0, 0, 0, 123, 0] ++ List.replicate 14 1) = .ok (v, .cls "EthernetII" (List.replicate 14 1) false)
    ∧ v.vni = 123 ∧ v.flags = 8 := ⟨_, rfl, by decide, by decide⟩

/-- RTP with two CSRC identifiers, a one-word extension and three bytes of padding behind a two-byte payload -/
def rtpExample : Rtp := ⟨[0xb2, 0x60, 0, 1, 0, 0, 0, 2, 0, 0, 0, 3], [17, 18], 5, 1, [9], 3⟩

example : rtpExample.Inv := by
  refine ⟨by decide, rfl, ?_, by decide, by decide⟩
  constructor <;> (intro _; decide)

example : rtpExample.Canon := by
  refine ⟨by decide, by decide, by decide, by decide, by decide, ?_⟩
  intro h; exact absurd (by decide) h

example : Rtp.parse (rtpExample.headerBytes ++ ([0xaa, 0xbb] ++ rtpExample.padBytes)) = .ok (rtpExample, .raw [0xaa, 0xbb]) := rfl

/-- padding bit set but the last byte says 0: rejected -/
example : Rtp.parse [0xa0, 0, 0, 0, 0, 0, 0, 0, 0, 0, 0, 0, 5, 0] = .throw .malformedPacket := rfl

/-- a DHCP option list with PAD, a typed option, an 9-byte option (beyond the small-buffer threshold) and END -/
def dhcpOptsExample : List Opt := [⟨0, 0, []⟩, ⟨53, 1, [1]⟩, ⟨61, 9, [1, 2, 3, 4, 5, 6, 7, 8, 9]⟩, ⟨255, 0, []⟩]

example : ∀ o ∈ dhcpOptsExample, Dhcp.Canon o := by
  intro o ho
  simp only [dhcpOptsExample, List.mem_cons, List.mem_nil_iff, or_false] at ho
  rcases ho with rfl | rfl | rfl | rfl <;> exact ⟨by decide, by decide, by decide⟩

example : Dhcp.parseOpts 20 (Cursor.ofBytes (Dhcp.optsBytes dhcpOptsExample)) = .ok dhcpOptsExample := rfl

example : Dhcp.wireSum dhcpOptsExample = 16 := by decide

/-- the pre-fix behaviour is gone: END and PAD occupy one byte -/
example : Dhcp.optsBytes [⟨255, 0, []⟩, ⟨0, 0, []⟩] = [255, 0] := by decide

/-- DHCPv6 class data ending in an empty entry (defect #19, fixed) round-trips -/
example : Dhcpv6.classData 5 (Dhcpv6.encClassData [[0xaa], []]) = .val [[0xaa], []] := by decide

example : Dhcpv6.decUserClass (Dhcpv6.encClassData [[0xaa], []]) = .val "aa,-" := by decide

/-- a truncated class-data entry is reported as `option_not_found`, a dangling byte as `malformed_option` -/
example : Dhcpv6.classData 5 [0, 3, 1] = .notFound := by decide
example : Dhcpv6.classData 5 [0, 1, 1, 9] = .malformed := by decide

/-- a DHCPv6 SOLICIT with a client id and an elapsed-time option -/
example : ∃ d, Dhcpv6.parse [1, 0xaa, 0xbb, 0xcc, 0, 1, 0, 3, 0, 1, 9, 0, 8, 0, 2, 0, 5] = .ok (d, .none)
    ∧ d.opts = [⟨1, 3, [0, 1, 9]⟩, ⟨8, 2, [0, 5]⟩] ∧ d.optsSize = 13 := ⟨_, rfl, rfl, rfl⟩

/-- an option length running past the end of the buffer: rejected -/
example : Dhcpv6.parse [1, 0, 0, 0, 0, 1, 0, 9, 1] = .throw .malformedPacket := rfl

/-- the first byte is read through the raw pointer only after `if (!stream) throw` -/
example : Dhcpv6.parse [] = .throw .malformedPacket := rfl

end Tins.Wire.App
