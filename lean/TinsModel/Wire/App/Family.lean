import TinsModel.Wire.App.Arp
import TinsModel.Wire.App.Vxlan
import TinsModel.Wire.App.Stp
import TinsModel.Wire.App.Rtp
import TinsModel.Wire.App.BootP
import TinsModel.Wire.App.Dhcp
import TinsModel.Wire.App.Dhcpv6
/-
  Family interface of `App`: BootP, DHCP, DHCPv6, RTP, VXLAN, ARP, STP (DNS belongs to C10).
  Exports, in namespace `Tins.Wire.App`: Obj, classes, parse, info, hdr, trl, write, mk, apply.
-/
namespace Tins.Wire.App

inductive Obj
  | arp (a : Arp)
  | vxlan (v : Vxlan)
  | stp (s : Stp)
  | rtp (r : Rtp)
  | bootp (p : BootP)
  | dhcp (d : Dhcp)
  | dhcpv6 (d : Dhcpv6)
deriving Repr

/-- C++ class names whose parsing constructor this family models -/
def classes : List String := ["ARP", "VXLAN", "STP", "RTP", "BootP", "DHCP", "DHCPv6"]

/-- the parsing constructor `cls(buffer, total_sz)` -/
def parse (cls : String) (b : Bytes) : Out (Obj × Inner) :=
  if cls == "ARP" then (Arp.parse b) >>= fun (o, i) => pure (.arp o, i)
  else if cls == "VXLAN" then (Vxlan.parse b) >>= fun (o, i) => pure (.vxlan o, i)
  else if cls == "STP" then (Stp.parse b) >>= fun (o, i) => pure (.stp o, i)
  else if cls == "RTP" then (Rtp.parse b) >>= fun (o, i) => pure (.rtp o, i)
  else if cls == "BootP" then (BootP.parse b) >>= fun (o, i) => pure (.bootp o, i)
  else if cls == "DHCP" then (Dhcp.parse b) >>= fun (o, i) => pure (.dhcp o, i)
  else if cls == "DHCPv6" then (Dhcpv6.parse b) >>= fun (o, i) => pure (.dhcpv6 o, i)
  else .throw .stdOther

/-- (actual class name, getter dump) -/
def info : Obj → String × Fields
  | .arp o => ("ARP", o.fields)
  | .vxlan o => ("VXLAN", o.fields)
  | .stp o => ("STP", o.fields)
  | .rtp o => ("RTP", o.fields)
  | .bootp o => ("BootP", o.fields)
  | .dhcp o => ("DHCP", o.fields)
  | .dhcpv6 o => ("DHCPv6", o.fields)

def hdr : Obj → Nat
  | .arp _ => Arp.hdrSize
  | .vxlan _ => Vxlan.hdrSize
  | .stp _ => Stp.hdrSize
  | .rtp o => o.hdr
  | .bootp o => o.hdr
  | .dhcp o => o.hdr
  | .dhcpv6 o => o.hdr

def trl : Obj → Nat → Nat
  | .rtp o, _ => o.trl
  | _, _ => 0

/-- `write_serialization(buffer, total_sz)` on the layer's region -/
def write (cx : Ctx) : Obj → Bytes → Out Bytes
  | .arp o, r => o.write cx r
  | .vxlan o, r => o.write cx r
  | .stp o, r => o.write cx r
  | .rtp o, r => o.write cx r
  | .bootp o, r => o.write cx r
  | .dhcp o, r => o.write cx r
  | .dhcpv6 o, r => o.write cx r

/-- public (non-parsing) constructors: `push <cls> args…` -/
def mk (cls : String) (args : List String) : Out Obj :=
  if cls == "ARP" then (Arp.make args) >>= fun o => pure (.arp o)
  else if cls == "VXLAN" then (Vxlan.make args) >>= fun o => pure (.vxlan o)
  else if cls == "STP" then (Stp.make args) >>= fun o => pure (.stp o)
  else if cls == "RTP" then (Rtp.make args) >>= fun o => pure (.rtp o)
  else if cls == "BootP" then (BootP.make args) >>= fun o => pure (.bootp o)
  else if cls == "DHCP" then (Dhcp.make args) >>= fun o => pure (.dhcp o)
  else if cls == "DHCPv6" then (Dhcpv6.make args) >>= fun o => pure (.dhcpv6 o)
  else .throw .stdOther

/-- one API call on the object: setters, add/remove option … -/
def apply : Obj → List String → Out Obj
  | .arp o, op => (o.apply op) >>= fun x => pure (.arp x)
  | .vxlan o, op => (o.apply op) >>= fun x => pure (.vxlan x)
  | .stp o, op => (o.apply op) >>= fun x => pure (.stp x)
  | .rtp o, op => (o.apply op) >>= fun x => pure (.rtp x)
  | .bootp o, op => (o.apply op) >>= fun x => pure (.bootp x)
  | .dhcp o, op => (o.apply op) >>= fun x => pure (.dhcp x)
  | .dhcpv6 o, op => (o.apply op) >>= fun x => pure (.dhcpv6 x)

end Tins.Wire.App
