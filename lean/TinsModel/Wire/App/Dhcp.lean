import TinsModel.Wire.App.BootP
/- `Tins::DHCP` (src/dhcp.cpp, include/tins/dhcp.h): BootP header, magic cookie, TLV options with a cached size. -/
namespace Tins.Wire.App

structure Dhcp where
  h : Bytes            -- `bootp_` (236 bytes)
  vend : Bytes         -- `vend_` of the BootP base (scratch buffer of `write_serialization`)
  opts : List Opt      -- `options_`
  size : Nat           -- `size_` (uint32_t): cached size of magic cookie + options
deriving Repr, DecidableEq

namespace Dhcp

def magic : Bytes := [0x63, 0x82, 0x53, 0x63]

/-- PAD (0) and END (255) are single-byte options: no length byte, no data -/
def single (code : Nat) : Bool := code == 0 || code == 255

/-- bytes one option occupies on the wire — what `internal_add_option` adds to / `remove_option` takes off `size_` -/
def optWire (o : Opt) : Nat := if single o.code then 1 else o.data.length + 2

/-- `add_option` for every option in order, starting from `size_ = sizeof(uint32_t)` -/
def sizeAfter (s : Nat) (os : List Opt) : Nat := os.foldl (fun s o => (s + optWire o) % 4294967296) s

/-- `if (option_type != END && option_type != PAD) option_length = stream.read<uint8_t>();` -/
def readLen (t : Nat) (c : Cursor) : Out (Nat × Cursor) := if !single t then c.readU8 else pure (0, c)

/-- the `while (stream)` loop of the parsing constructor; every round consumes at least one byte, so `fuel` =
    remaining size suffices (`parseOpts_fuel`) -/
def parseOpts : Nat → Cursor → Out (List Opt)
  | 0, c => if c.toBool then .fault "DHCP::DHCP: out of fuel" else .ok []
  | fuel + 1, c =>
    if !c.toBool then .ok [] else do
    let (t, c) ← c.readU8
    -- We should only read the length if it's not END nor PAD
    let (len, c) ← readLen t c
    if !c.canRead len then .throw .malformedPacket else
    -- option(option_type, option_length, stream.pointer()): memcpy of `len` bytes from the raw pointer
    let data ← c.peek "DHCP::DHCP option payload" 0 len
    let c ← c.skip len
    let rest ← parseOpts fuel c
    pure (⟨t, len, data⟩ :: rest)

/-- `DHCP::DHCP(const uint8_t* buffer, uint32_t total_sz)` -/
def parse (b : Bytes) : Out (Dhcp × Inner) := do
  let (bp, _) ← BootP.parseWith b 0                         -- BootP(buffer, total_sz, 0)
  let c := Cursor.ofBytes b
  let c ← c.skip (BootP.hdrSize + bp.vend.length - bp.vend.length)   -- BootP::header_size() - vend().size()
  let (m, c) ← c.read 4
  if m != magic then .throw .malformedPacket else
  let opts ← parseOpts c.size c
  pure (⟨bp.h, bp.vend, opts, sizeAfter 4 opts⟩, .none)

/- typed getters: `search_and_convert<T>(code)` → `none` (option_not_found), `bad` (malformed_option) or the value -/
def getU8Opt (os : List Opt) (code : Nat) : String :=
  match findOpt os code with
  | none => "none"
  | some o => match o.data with
    | [x] => toString x.toNat
    | _ => "bad"

def getU32Opt (os : List Opt) (code : Nat) : String :=
  match findOpt os code with
  | none => "none"
  | some o => if o.data.length == 4 then toString (Cursor.beNat o.data) else "bad"

def getIpOpt (os : List Opt) (code : Nat) : String :=
  match findOpt os code with
  | none => "none"
  | some o => if o.data.length == 4 then hexStr o.data else "bad"

def chunks4 : Nat → Bytes → List Bytes
  | 0, _ => []
  | n + 1, b => b.take 4 :: chunks4 n (b.drop 4)

def getIpListOpt (os : List Opt) (code : Nat) : String :=
  match findOpt os code with
  | none => "none"
  | some o => if o.data.length % 4 == 0 then joinComma ((chunks4 (o.data.length / 4) o.data).map hexStr) else "bad"

def getStrOpt (os : List Opt) (code : Nat) : String :=
  match findOpt os code with
  | none => "none"
  | some o => hexStr o.data

def typedFields (os : List Opt) : Fields :=
  [("type", getU8Opt os 53), ("server_identifier", getIpOpt os 54), ("lease_time", getU32Opt os 51),
   ("renewal_time", getU32Opt os 58), ("rebind_time", getU32Opt os 59), ("subnet_mask", getIpOpt os 1),
   ("routers", getIpListOpt os 3), ("domain_name_servers", getIpListOpt os 6), ("broadcast", getIpOpt os 28),
   ("requested_ip", getIpOpt os 50), ("domain_name", getStrOpt os 15), ("hostname", getStrOpt os 12)]

def fields (d : Dhcp) : Fields :=
  BootP.headerFields d.h ++ [("opts", optsStr d.opts)] ++ typedFields d.opts

/-- `DHCP::header_size()`: `BootP::header_size() - vend().size() + size_` -/
def hdr (d : Dhcp) : Nat := BootP.hdrSize + d.vend.length - d.vend.length + d.size

/-- `DHCP::DHCP()`: `BootP()`, `size_(4)`, `opcode(BOOTREQUEST)`, `htype(1)`, `hlen(6)` -/
def create : Dhcp :=
  ⟨setU8 (setU8 (setU8 (List.replicate 236 0) 0 1) 1 1) 2 6, List.replicate 64 0, [], 4⟩

/-- what the loop of `write_serialization` emits for one option -/
def optBytes (o : Opt) : Bytes :=
  if single o.code then [UInt8.ofNat o.code]
  else [UInt8.ofNat o.code, UInt8.ofNat o.lenField] ++ o.data

def writeOpts (o : OutCursor) : List Opt → Out OutCursor
  | [] => .ok o
  | x :: xs => do
    let o ← o.write [UInt8.ofNat x.code]                       -- stream.write(it->option())
    let o ← if single x.code then pure o else do
      let o ← o.write [UInt8.ofNat x.lenField]                 -- stream.write<uint8_t>(it->length_field())
      o.write x.data                                           -- stream.write(it->data_ptr(), it->data_size())
    writeOpts o xs

/-- `vector::resize(n)` -/
def resize (v : Bytes) (n : Nat) : Bytes := v.take n ++ List.replicate (n - v.length) 0

/-- `DHCP::write_serialization` -/
def write (_cx : Ctx) (d : Dhcp) (region : Bytes) : Out Bytes := do
  let vend ←
    if d.size != 0 then do
      let result := resize d.vend d.size
      let o ← (OutCursor.ofRegion result).write magic
      let o ← writeOpts o d.opts
      pure o.buffer
    else pure d.vend
  -- BootP::write_serialization(buffer, total_sz)
  let o ← (OutCursor.ofRegion region).write d.h
  let o ← o.write vend
  pure o.buffer

/-- `add_option(opt)` -/
def addOption (d : Dhcp) (o : Opt) : Dhcp :=
  { d with opts := d.opts ++ [o], size := (d.size + optWire o) % 4294967296 }

/-- `remove_option(type)` -/
def removeOption (d : Dhcp) (code : Nat) : Dhcp :=
  match findOpt d.opts code with
  | none => d
  | some o => { d with opts := eraseOpt d.opts code, size := (d.size + 4294967296 - optWire o) % 4294967296 }

/-- `option(code, length, data)` / `option(code, begin, end)` built by the API: `size_ = real_size_ = data length` -/
def mkOpt (code : Nat) (data : Bytes) : Opt := ⟨code % 256, data.length, data⟩

def ipList (s : String) : Out Bytes :=
  (listArg s).foldlM (fun acc x => do let b ← hexArgN x 4; pure (acc ++ b)) []

def apply (d : Dhcp) (op : List String) : Out Dhcp :=
  match op with
  | ["add_option", c, v] => do let c ← natArg c; let b ← hexArg v; pure (d.addOption (mkOpt c b))
  | ["remove_option", c] => do let c ← natArg c; pure (d.removeOption (c % 256))
  | ["type", v] => do let n ← natArg v; pure (d.addOption (mkOpt 53 [UInt8.ofNat n]))
  | ["end"] => pure (d.addOption ⟨255, 0, []⟩)
  | ["server_identifier", v] => do let b ← hexArgN v 4; pure (d.addOption (mkOpt 54 b))
  | ["lease_time", v] => do let n ← natArg v; pure (d.addOption (mkOpt 51 (OutCursor.beBytes 4 n)))
  | ["renewal_time", v] => do let n ← natArg v; pure (d.addOption (mkOpt 58 (OutCursor.beBytes 4 n)))
  | ["rebind_time", v] => do let n ← natArg v; pure (d.addOption (mkOpt 59 (OutCursor.beBytes 4 n)))
  | ["subnet_mask", v] => do let b ← hexArgN v 4; pure (d.addOption (mkOpt 1 b))
  | ["routers", v] => do let b ← ipList v; pure (d.addOption (mkOpt 3 b))
  | ["domain_name_servers", v] => do let b ← ipList v; pure (d.addOption (mkOpt 6 b))
  | ["broadcast", v] => do let b ← hexArgN v 4; pure (d.addOption (mkOpt 28 b))
  | ["requested_ip", v] => do let b ← hexArgN v 4; pure (d.addOption (mkOpt 50 b))
  | ["domain_name", v] => do let b ← hexArg v; pure (d.addOption (mkOpt 15 b))
  | ["hostname", v] => do let b ← hexArg v; pure (d.addOption (mkOpt 12 b))
  | _ => match BootP.setHeader d.h op with
    | some r => do let h ← r; pure { d with h := h }
    | none => .throw .stdOther

def make : List String → Out Dhcp
  | [] => .ok create
  | _ => .throw .stdOther

end Dhcp
end Tins.Wire.App
