import TinsModel.Wire.App.TheoremsFixed
/- DHCP: C01 (option loop safe for every input, fuel suffices), C02 (`size_` equals the bytes the writer emits) -/
namespace Tins.Wire.App
open Tins Tins.Wire

/-! ## C01 -/

/-- one round of the option loop consumes at least one byte, so `fuel ≥ size` never runs out; the raw `memcpy` of
    the option payload is guarded by `can_read`; only `malformed_packet` is thrown -/
theorem dhcp_parseOpts_safe (fuel : Nat) (c : Cursor) (hi : c.Inv) (hf : c.size ≤ fuel) :
    (∃ os, Dhcp.parseOpts fuel c = .ok os) ∨ Dhcp.parseOpts fuel c = .throw .malformedPacket := by
  induction fuel generalizing c with
  | zero =>
    left; refine ⟨[], ?_⟩
    unfold Dhcp.parseOpts
    have : c.toBool = false := by simp only [Cursor.toBool]; simp; omega
    simp [this]
  | succ fuel ih =>
    unfold Dhcp.parseOpts
    by_cases hb : c.toBool
    · simp only [hb, Bool.not_true, Bool.false_eq_true, if_false]
      have hpos : c.size > 0 := by simpa [Cursor.toBool] using hb
      rcases readU8_safe c hi with ⟨t, c1, e1, i1, hs1, _⟩ | ⟨e1, hlt⟩
      · simp only [e1, bind, Out.bind]
        -- the optional length byte
        have hlen : (∃ len c2, Dhcp.readLen t c1 = Out.ok (len, c2) ∧ c2.Inv ∧ c2.size ≤ c1.size)
            ∨ Dhcp.readLen t c1 = Out.throw .malformedPacket := by
          unfold Dhcp.readLen
          split
          · rcases readU8_safe c1 i1 with ⟨l, c2, e2, i2, hs2, _⟩ | ⟨e2, _⟩
            · left; exact ⟨l, c2, e2, i2, by omega⟩
            · right; exact e2
          · left; exact ⟨0, c1, rfl, i1, Nat.le_refl _⟩
        rcases hlen with ⟨len, c2, e2, i2, hs2⟩ | e2
        · simp only [e2]
          by_cases hc : c2.canRead len
          · simp only [hc, Bool.not_true, Bool.false_eq_true, if_false]
            have hle : len ≤ c2.size := by simpa [Cursor.canRead] using hc
            rcases peek_safe "DHCP::DHCP option payload" c2 0 len i2 (by omega) with ⟨d, e3, _⟩
            rcases Cursor.skip_spec c2 len i2 with ⟨c3, e4, i3, hs3, _⟩ | ⟨e4, hlt⟩
            · simp only [e3, e4]
              rcases ih c3 i3 (by omega) with ⟨os, e5⟩ | e5
              · left; exact ⟨_, by simp only [e5]; rfl⟩
              · right; simp only [e5]
            · omega
          · simp only [hc, Bool.not_false, if_true]; right; trivial
        · simp only [e2]; right; trivial
      · omega
    · simp only [hb, Bool.not_false, if_true]; left; exact ⟨[], rfl⟩

/-- **C01 / DHCP** -/
theorem dhcp_parse_safe (b : Bytes) : ParseSafe (Dhcp.parse b) := by
  unfold Dhcp.parse
  rcases bootp_parseWith_safe b 0 with ⟨p, c, e, _⟩ | e
  · simp only [e, bind, Out.bind]
    rcases Cursor.skip_spec (Cursor.ofBytes b) (BootP.hdrSize + p.vend.length - p.vend.length) (Cursor.ofBytes_inv b)
      with ⟨c1, e1, i1, _⟩ | ⟨e1, _⟩
    · simp only [e1]
      rcases Cursor.read_spec c1 4 i1 with ⟨m, c2, e2, i2, _⟩ | ⟨e2, _⟩
      · simp only [e2]
        split
        · exact .malformed
        · rcases dhcp_parseOpts_safe c2.size c2 i2 (Nat.le_refl _) with ⟨os, e3⟩ | e3
          · simp only [e3]; exact .ok _
          · simp only [e3]; exact .malformed
      · simp only [e2]; exact .malformed
    · simp only [e1]; exact .malformed
  · simp only [e, bind, Out.bind]; exact .malformed


/-! ## C02 -/

/-- total wire size of an option list -/
def Dhcp.wireSum : List Opt → Nat
  | [] => 0
  | o :: os => Dhcp.optWire o + Dhcp.wireSum os

/-- the bytes of an option list on the wire -/
def Dhcp.optsBytes : List Opt → Bytes
  | [] => []
  | o :: os => Dhcp.optBytes o ++ Dhcp.optsBytes os

theorem dhcp_optBytes_length (o : Opt) : (Dhcp.optBytes o).length = Dhcp.optWire o := by
  unfold Dhcp.optBytes Dhcp.optWire
  split <;> simp <;> omega

/-- **`x_options_size_exact`**: the bytes the writer emits for an option list are exactly what `size_` counts -/
theorem dhcp_optsBytes_length (os : List Opt) : (Dhcp.optsBytes os).length = Dhcp.wireSum os := by
  induction os with
  | nil => rfl
  | cons o os ih => simp only [Dhcp.optsBytes, Dhcp.wireSum, List.length_append, dhcp_optBytes_length, ih]

theorem dhcp_writeOpts_ok (o : OutCursor) (os : List Opt) (hi : o.Inv) (h : Dhcp.wireSum os ≤ o.size) :
    Dhcp.writeOpts o os = .ok (emit o (Dhcp.optsBytes os)) := by
  induction os generalizing o with
  | nil => simp [Dhcp.writeOpts, Dhcp.optsBytes, emit_nil]
  | cons x xs ih =>
    simp only [Dhcp.wireSum] at h
    unfold Dhcp.writeOpts
    have hw : Dhcp.optWire x ≥ 1 := by unfold Dhcp.optWire; split <;> omega
    rw [write_ok o _ hi (by simp; omega)]
    simp only [bind, Out.bind]
    have i1 := emit_inv o [UInt8.ofNat x.code] hi (by simp; omega)
    cases hs : Dhcp.single x.code with
    | true =>
      have hw1 : Dhcp.optWire x = 1 := by simp [Dhcp.optWire, hs]
      simp only [if_true, pure]
      rw [ih _ i1 (by simp only [emit_size, List.length_cons, List.length_nil]; omega)]
      rw [emit_emit]
      simp [Dhcp.optsBytes, Dhcp.optBytes, hs]
    | false =>
      have hw2 : Dhcp.optWire x = x.data.length + 2 := by simp [Dhcp.optWire, hs]
      simp only [Bool.false_eq_true, if_false]
      rw [write_ok _ _ i1 (by simp only [emit_size, List.length_cons, List.length_nil]; omega)]
      simp only []
      have i2 := emit_inv _ [UInt8.ofNat x.lenField] i1 (by simp only [emit_size, List.length_cons, List.length_nil]; omega)
      rw [write_ok _ _ i2 (by simp only [emit_size, List.length_cons, List.length_nil]; omega)]
      simp only []
      have i3 := emit_inv _ x.data i2 (by simp only [emit_size, List.length_cons, List.length_nil]; omega)
      rw [ih _ i3 (by simp only [emit_size, List.length_cons, List.length_nil]; omega)]
      simp only [emit_emit]
      simp [Dhcp.optsBytes, Dhcp.optBytes, hs]

/-- `bootp_` has its 236 bytes and the cached `size_` is the magic cookie plus the wire size of the option list -/
structure Dhcp.Inv (d : Dhcp) : Prop where
  hlen : d.h.length = 236
  size : d.size = 4 + Dhcp.wireSum d.opts

theorem dhcp_resize_length (v : Bytes) (n : Nat) : (Dhcp.resize v n).length = n := by
  simp only [Dhcp.resize, List.length_append, List.length_take, List.length_replicate]; omega

/-- what `DHCP::write_serialization` leaves in the region: header, magic cookie, options -/
theorem dhcp_write_eq (cx : Ctx) (d : Dhcp) (hi : d.Inv) (region : Bytes) (hr : 236 + d.size ≤ region.length) :
    d.write cx region = .ok (d.h ++ (Dhcp.magic ++ Dhcp.optsBytes d.opts) ++ region.drop (236 + d.size)) := by
  unfold Dhcp.write
  have hsz := hi.size
  have hne : (d.size != 0) = true := by simp; omega
  simp only [hne, if_true]
  have hrl := dhcp_resize_length d.vend d.size
  have iR := ofRegion_inv (Dhcp.resize d.vend d.size)
  rw [write_ok _ Dhcp.magic iR (by simp [OutCursor.ofRegion, hrl, Dhcp.magic]; omega)]
  simp only [bind, Out.bind]
  have i1 := emit_inv _ Dhcp.magic iR (by simp [OutCursor.ofRegion, hrl, Dhcp.magic]; omega)
  rw [dhcp_writeOpts_ok _ _ i1 (by simp [emit_ofRegion_size, hrl, Dhcp.magic]; omega)]
  simp only [emit_emit, emit_ofRegion_buffer]
  have hvl : (Dhcp.magic ++ Dhcp.optsBytes d.opts).length = d.size := by
    simp [Dhcp.magic, dhcp_optsBytes_length]; omega
  have hdrop : List.drop (Dhcp.magic ++ Dhcp.optsBytes d.opts).length (Dhcp.resize d.vend d.size) = [] :=
    List.drop_eq_nil_of_le (by rw [hvl, hrl]; exact Nat.le_refl _)
  rw [hdrop, List.append_nil]
  simp only [Out.pure_eq]
  -- BootP::write_serialization
  have iG := ofRegion_inv region
  rw [write_ok _ d.h iG (by simp [OutCursor.ofRegion, hi.hlen]; omega)]
  simp only []
  have i2 := emit_inv _ d.h iG (by simp [OutCursor.ofRegion, hi.hlen]; omega)
  rw [write_ok _ _ i2 (by simp only [emit_ofRegion_size, hvl, hi.hlen]; omega)]
  simp only [emit_emit, emit_ofRegion_buffer]
  have hpre : (d.h ++ (Dhcp.magic ++ Dhcp.optsBytes d.opts)).length = 236 + d.size := by
    rw [List.length_append, hvl, hi.hlen]
  rw [hpre]

def dhcpSem (cx : Ctx) (d : Dhcp) : LayerSem := { name := "DHCP", hdr := d.hdr, trl := 0, write := d.write cx }

theorem dhcp_hdr_eq (d : Dhcp) : d.hdr = 236 + d.size := by
  unfold Dhcp.hdr BootP.hdrSize; omega

/-- **C02 / DHCP**: `header_size()` (computed from the cached `size_`) is exactly what `write_serialization` writes;
    it succeeds on every region at least that long and touches nothing behind it -/
theorem dhcp_writesOnly (cx : Ctx) (d : Dhcp) (hi : d.Inv) : WritesOnly (dhcpSem cx d) := by
  apply writesOnly_of_header_only _ rfl
  intro region hr
  simp only [dhcpSem, dhcp_hdr_eq] at hr
  have hvl : (Dhcp.magic ++ Dhcp.optsBytes d.opts).length = d.size := by
    have := hi.size
    simp [Dhcp.magic, dhcp_optsBytes_length]; omega
  refine ⟨_, dhcp_write_eq cx d hi region hr, ?_, ?_⟩
  · simp only [List.length_append, List.length_drop, hi.hlen] at hvl ⊢; omega
  · simp only [dhcpSem, dhcp_hdr_eq]
    have hpre : (d.h ++ (Dhcp.magic ++ Dhcp.optsBytes d.opts)).length = 236 + d.size := by
      simp only [List.length_append, hi.hlen] at hvl ⊢; omega
    rw [← hpre, List.drop_append_length]

/-! ### the invariant is established by the parser and kept by the API -/

theorem dhcp_sizeAfter_eq (s : Nat) (os : List Opt) (h : s + Dhcp.wireSum os < 4294967296) :
    Dhcp.sizeAfter s os = s + Dhcp.wireSum os := by
  unfold Dhcp.sizeAfter
  induction os generalizing s with
  | nil => simp [Dhcp.wireSum]
  | cons o os ih =>
    simp only [Dhcp.wireSum] at h
    simp only [List.foldl_cons, Dhcp.wireSum]
    rw [Nat.mod_eq_of_lt (by omega), ih _ (by omega)]
    omega

/-- the option loop consumes the whole stream: the options' wire sizes add up to the bytes that were left -/
theorem dhcp_parseOpts_wireSum (fuel : Nat) (c : Cursor) (hi : c.Inv) (hf : c.size ≤ fuel) (os : List Opt)
    (h : Dhcp.parseOpts fuel c = .ok os) : Dhcp.wireSum os = c.size := by
  induction fuel generalizing c os with
  | zero =>
    unfold Dhcp.parseOpts at h
    have : c.toBool = false := by simp only [Cursor.toBool]; simp; omega
    simp only [this, Bool.false_eq_true, if_false] at h
    injection h with h; subst h; simp [Dhcp.wireSum]; omega
  | succ fuel ih =>
    unfold Dhcp.parseOpts at h
    by_cases hb : c.toBool
    · simp only [hb, Bool.not_true, Bool.false_eq_true, if_false] at h
      have hpos : c.size > 0 := by simpa [Cursor.toBool] using hb
      rcases readU8_safe c hi with ⟨t, c1, e1, i1, hs1, _⟩ | ⟨e1, hlt⟩
      · simp only [e1, bind, Out.bind] at h
        cases hsgl : Dhcp.single t with
        | true =>
          simp only [Dhcp.readLen, hsgl, Bool.not_true, Bool.false_eq_true, if_false, pure] at h
          have hc : c1.canRead 0 = true := by simp [Cursor.canRead]
          simp only [hc, Bool.not_true, Bool.false_eq_true, if_false] at h
          rcases peek_safe "DHCP::DHCP option payload" c1 0 0 i1 (by omega) with ⟨d, e3, hd⟩
          rcases Cursor.skip_spec c1 0 i1 with ⟨c3, e4, i3, hs3, _⟩ | ⟨e4, hlt⟩
          · simp only [e3, e4] at h
            cases e5 : Dhcp.parseOpts fuel c3 with
            | ok rest =>
              simp only [e5] at h
              injection h with h; subst h
              have := ih c3 i3 (by omega) rest e5
              simp only [Dhcp.wireSum, Dhcp.optWire, hsgl, if_true, this]; omega
            | throw e => simp only [e5] at h; cases h
            | fault s => simp only [e5] at h; cases h
          · omega
        | false =>
          simp only [Dhcp.readLen, hsgl, Bool.not_false, if_true] at h
          rcases readU8_safe c1 i1 with ⟨len, c2, e2, i2, hs2, _⟩ | ⟨e2, _⟩
          · simp only [e2] at h
            by_cases hc : c2.canRead len
            · simp only [hc, Bool.not_true, Bool.false_eq_true, if_false] at h
              have hle : len ≤ c2.size := by simpa [Cursor.canRead] using hc
              rcases peek_safe "DHCP::DHCP option payload" c2 0 len i2 (by omega) with ⟨d, e3, hd⟩
              rcases Cursor.skip_spec c2 len i2 with ⟨c3, e4, i3, hs3, _⟩ | ⟨e4, hlt⟩
              · simp only [e3, e4] at h
                cases e5 : Dhcp.parseOpts fuel c3 with
                | ok rest =>
                  simp only [e5] at h
                  injection h with h; subst h
                  have := ih c3 i3 (by omega) rest e5
                  have hdl : d.length = len := by
                    rw [hd]; simp only [List.drop_zero, List.length_take]
                    have : c2.size ≤ c2.mem.length := i2
                    omega
                  simp only [Dhcp.wireSum, Dhcp.optWire, hsgl, Bool.false_eq_true, if_false, this, hdl]; omega
                | throw e => simp only [e5] at h; cases h
                | fault s => simp only [e5] at h; cases h
              · omega
            · simp only [hc, Bool.not_false, if_true] at h; cases h
          · simp only [e2] at h; cases h
      · omega
    · simp only [hb, Bool.not_false, if_true] at h
      injection h with h; subst h
      have : c.size = 0 := by simpa [Cursor.toBool] using hb
      simp [Dhcp.wireSum, this]

/-- **the parsing constructor establishes the invariant** (the C++ signature bounds the buffer by `uint32_t`) -/
theorem dhcp_parse_inv (b : Bytes) (hb : b.length < 4294967296) (d : Dhcp) (i : Inner) (h : Dhcp.parse b = .ok (d, i)) :
    d.Inv := by
  unfold Dhcp.parse at h
  rcases bootp_parseWith_safe b 0 with ⟨p, c, e, _, hh, _, hlen⟩ | e
  · simp only [e, bind, Out.bind] at h
    rcases Cursor.skip_spec (Cursor.ofBytes b) (BootP.hdrSize + p.vend.length - p.vend.length) (Cursor.ofBytes_inv b)
      with ⟨c1, e1, i1, hs1, _⟩ | ⟨e1, _⟩
    · simp only [e1] at h
      rcases Cursor.read_spec c1 4 i1 with ⟨m, c2, e2, i2, _, hs2, hn2, _⟩ | ⟨e2, _⟩
      · simp only [e2] at h
        split at h
        · cases h
        · cases e3 : Dhcp.parseOpts c2.size c2 with
          | ok os =>
            simp only [e3] at h
            injection h with h; injection h with h _; subst h
            have hw := dhcp_parseOpts_wireSum c2.size c2 i2 (Nat.le_refl _) os e3
            refine ⟨?_, ?_⟩
            · simp only [hh, List.length_take]; omega
            · simp only
              have hc2 : c2.size + 4 ≤ b.length := by simp only [Cursor.ofBytes] at hs1; omega
              rw [dhcp_sizeAfter_eq 4 os (by omega)]
          | throw e => simp only [e3] at h; cases h
          | fault s => simp only [e3] at h; cases h
      · simp only [e2] at h; cases h
    · simp only [e1] at h; cases h
  · simp only [e, bind, Out.bind] at h; cases h

theorem dhcp_wireSum_append (a b : List Opt) : Dhcp.wireSum (a ++ b) = Dhcp.wireSum a + Dhcp.wireSum b := by
  induction a with
  | nil => simp [Dhcp.wireSum]
  | cons x xs ih => simp only [List.cons_append, Dhcp.wireSum, ih]; omega

/-- `add_option` keeps the invariant (as long as the list stays below the 4 GiB a `uint32_t` can count) -/
theorem dhcp_addOption_inv (d : Dhcp) (o : Opt) (hi : d.Inv) (hsmall : d.size + Dhcp.optWire o < 4294967296) :
    (d.addOption o).Inv := by
  refine ⟨hi.hlen, ?_⟩
  simp only [Dhcp.addOption, dhcp_wireSum_append, Dhcp.wireSum]
  rw [Nat.mod_eq_of_lt hsmall, hi.size]; omega

theorem dhcp_erase_wireSum (os : List Opt) (code : Nat) (o : Opt) (h : findOpt os code = some o) :
    Dhcp.wireSum (eraseOpt os code) + Dhcp.optWire o = Dhcp.wireSum os := by
  induction os with
  | nil => simp [findOpt] at h
  | cons x xs ih =>
    unfold findOpt at h
    simp only [List.find?_cons] at h
    unfold eraseOpt
    cases hx : (x.code == code) with
    | true =>
      simp only [hx] at h
      injection h with h; subst h
      simp only [if_true, Dhcp.wireSum]; omega
    | false =>
      simp only [hx] at h
      have := ih (by unfold findOpt; exact h)
      simp only [Bool.false_eq_true, if_false, Dhcp.wireSum]; omega

/-- `remove_option` keeps the invariant -/
theorem dhcp_removeOption_inv (d : Dhcp) (code : Nat) (hi : d.Inv) (hlt : d.size < 4294967296) :
    (d.removeOption code).Inv := by
  unfold Dhcp.removeOption
  cases hf : findOpt d.opts code with
  | none => exact hi
  | some o =>
    refine ⟨hi.hlen, ?_⟩
    have := dhcp_erase_wireSum d.opts code o hf
    have hs := hi.size
    simp only
    omega

end Tins.Wire.App
