import TinsModel.Wire.App.TheoremsDhcp
import TinsModel.Wire.App.TheoremsDhcpv6
/- C03: TLV option lists of DHCPv6 and DHCP survive serialize → parse (any number of options) -/
namespace Tins.Wire.App
open Tins Tins.Wire

/-! ## DHCPv6 -/

/-- an option the wire can express: 16-bit code, length field = data length < 64 KiB (what the parser produces and
    what `option(code, begin, end)` builds) -/
structure Dhcpv6.Canon (o : Opt) : Prop where
  code : o.code < 65536
  len : o.lenField = o.data.length
  small : o.data.length < 65536

/-- **TLV round trip (16-bit code, 16-bit length)**: the option loop reads back exactly the list that was written -/
theorem dhcpv6_parseOpts_optsBytes (os : List Opt) (hc : ∀ o ∈ os, Dhcpv6.Canon o) (fuel : Nat)
    (hf : (Dhcpv6.optsBytes os).length ≤ fuel) :
    Dhcpv6.parseOpts fuel (Cursor.ofBytes (Dhcpv6.optsBytes os)) = .ok os := by
  induction os generalizing fuel with
  | nil =>
    cases fuel <;> simp [Dhcpv6.parseOpts, Dhcpv6.optsBytes, ofBytes_toBool]
  | cons x xs ih =>
    have cx := hc x List.mem_cons_self
    have hlen : (Dhcpv6.optsBytes (x :: xs)).length = 4 + x.data.length + (Dhcpv6.optsBytes xs).length := by
      simp [Dhcpv6.optsBytes, Dhcpv6.optBytes]; omega
    cases fuel with
    | zero => omega
    | succ f =>
      unfold Dhcpv6.parseOpts
      have hne : (Cursor.ofBytes (Dhcpv6.optsBytes (x :: xs))).toBool = true := by
        rw [ofBytes_toBool]
        cases h : Dhcpv6.optsBytes (x :: xs) with
        | nil => rw [h] at hlen; simp at hlen; omega
        | cons _ _ => rfl
      simp only [hne, Bool.not_true, Bool.false_eq_true, if_false]
      have hshape : Dhcpv6.optsBytes (x :: xs)
          = OutCursor.beBytes 2 x.code ++ (OutCursor.beBytes 2 x.lenField ++ (x.data ++ Dhcpv6.optsBytes xs)) := by
        simp [Dhcpv6.optsBytes, Dhcpv6.optBytes, List.append_assoc]
      rw [hshape]
      have r1 := ofBytes_readBE_append (OutCursor.beBytes 2 x.code) (OutCursor.beBytes 2 x.lenField ++ (x.data ++ Dhcpv6.optsBytes xs))
      rw [OutCursor.beBytes_length] at r1
      simp only [r1, bind, Out.bind]
      have r2 := ofBytes_readBE_append (OutCursor.beBytes 2 x.lenField) (x.data ++ Dhcpv6.optsBytes xs)
      rw [OutCursor.beBytes_length] at r2
      simp only [r2]
      have hcode : Cursor.beNat (OutCursor.beBytes 2 x.code) = x.code := by
        rw [beNat_beBytes]; exact Nat.mod_eq_of_lt (by have := cx.code; omega)
      have hlf : Cursor.beNat (OutCursor.beBytes 2 x.lenField) = x.data.length := by
        rw [beNat_beBytes, cx.len]; exact Nat.mod_eq_of_lt (by have := cx.small; omega)
      rw [hcode, hlf]
      simp only [ofBytes_canRead_append, Bool.not_true, Bool.false_eq_true, if_false, ofBytes_peek_append,
        ofBytes_skip_append]
      rw [ih (fun o ho => hc o (List.mem_cons_of_mem _ ho)) f (by omega)]
      simp only [Out.pure_eq]
      congr 2
      cases x with
      | mk c l d =>
        have hl := cx.len
        simp only at hl
        subst hl
        rfl

/-- the options a parse produces are canonical -/
theorem dhcpv6_parseOpts_canon (fuel : Nat) (c : Cursor) (hi : c.Inv) (os : List Opt)
    (h : Dhcpv6.parseOpts fuel c = .ok os) : ∀ o ∈ os, Dhcpv6.Canon o := by
  induction fuel generalizing c os with
  | zero =>
    unfold Dhcpv6.parseOpts at h
    split at h
    · cases h
    · injection h with h; subst h; simp
  | succ fuel ih =>
    unfold Dhcpv6.parseOpts at h
    by_cases hb : c.toBool
    · simp only [hb, Bool.not_true, Bool.false_eq_true, if_false] at h
      rcases readBE_safe c 2 hi with ⟨t, c1, e1, i1, _, _, _, ht⟩ | ⟨e1, _⟩
      · simp only [e1, bind, Out.bind] at h
        rcases readBE_safe c1 2 i1 with ⟨len, c2, e2, i2, _, _, _, hl⟩ | ⟨e2, _⟩
        · simp only [e2] at h
          by_cases hc : c2.canRead len
          · simp only [hc, Bool.not_true, Bool.false_eq_true, if_false] at h
            have hle : len ≤ c2.size := by simpa [Cursor.canRead] using hc
            rcases peek_safe "DHCPv6::DHCPv6 option payload" c2 0 len i2 (by omega) with ⟨d, e3, hd⟩
            rcases Cursor.skip_spec c2 len i2 with ⟨c3, e4, i3, _, _⟩ | ⟨e4, hlt⟩
            · simp only [e3, e4] at h
              cases e5 : Dhcpv6.parseOpts fuel c3 with
              | ok rest =>
                simp only [e5] at h
                injection h with h; subst h
                have hdl : d.length = len := by
                  rw [hd]; simp only [List.drop_zero, List.length_take]
                  have : c2.size ≤ c2.mem.length := i2
                  omega
                -- a two-byte big-endian value is below 65536
                have lt16 : ∀ bs : Bytes, bs.length ≤ 2 → Cursor.beNat bs < 65536 := by
                  intro bs hbs
                  match bs, hbs with
                  | [], _ => simp [Cursor.beNat]
                  | [a], _ => simp [Cursor.beNat]; have := a.toNat_lt; omega
                  | [a, b], _ => simp [Cursor.beNat]; have := a.toNat_lt; have := b.toNat_lt; omega
                  | _ :: _ :: _ :: _, h => simp at h
                have htl : t < 65536 := by rw [ht]; exact lt16 _ (by simp only [List.length_take]; omega)
                have hll : len < 65536 := by rw [hl]; exact lt16 _ (by simp only [List.length_take]; omega)
                intro o ho
                rcases List.mem_cons.mp ho with rfl | ho
                · exact ⟨htl, hdl.symm, by show d.length < 65536; omega⟩
                · exact ih c3 i3 rest e5 o ho
              | throw e => simp only [e5] at h; cases h
              | fault s => simp only [e5] at h; cases h
            · omega
          · simp only [hc, Bool.not_false, if_true] at h; cases h
        · simp only [e2] at h; cases h
      · simp only [e1, bind, Out.bind] at h; cases h
    · simp only [hb, Bool.not_false, if_true] at h
      injection h with h; subst h; simp

/-- **C03 / DHCPv6, client/server messages**: parsing `header ++ options` as written gives back the header bytes and
    the option list -/
theorem dhcpv6_reparse_plain (d : Dhcpv6) (hi : d.Inv) (hrel : d.isRelay = false) (hc : ∀ o ∈ d.opts, Dhcpv6.Canon o)
    (hsmall : Dhcpv6.wireSum d.opts < 4294967296) :
    Dhcpv6.parse (d.fixedBytes ++ Dhcpv6.optsBytes d.opts)
      = .ok (⟨d.h, List.replicate 16 0, List.replicate 16 0, d.opts, d.optsSize⟩, Inner.none) := by
  have hfix : d.fixedBytes = d.h := by
    simp only [Dhcpv6.fixedBytes, hrel, Bool.false_eq_true, if_false]
    exact List.take_of_length_le (by rw [hi.hlen]; exact Nat.le_refl _)
  rw [hfix]
  unfold Dhcpv6.parse
  have hh4 := hi.hlen
  obtain ⟨b0, b1, b2, b3, hd⟩ : ∃ b0 b1 b2 b3, d.h = [b0, b1, b2, b3] := by
    match hdh : d.h, hh4 with
    | [a, b, c, e], _ => exact ⟨a, b, c, e, rfl⟩
  have hne : (Cursor.ofBytes (d.h ++ Dhcpv6.optsBytes d.opts)).toBool = true := by
    rw [ofBytes_toBool, hd]; rfl
  simp only [hne, Bool.not_true, Bool.false_eq_true, if_false]
  -- the first byte is the message type
  have hpeek : (Cursor.ofBytes (d.h ++ Dhcpv6.optsBytes d.opts)).peek "DHCPv6::DHCPv6 *stream.pointer()" 0 1 = .ok [b0] := by
    unfold Cursor.peek rdN Cursor.ofBytes; rw [hd]; simp
  simp only [hpeek, bind, Out.bind]
  have hmt : Cursor.beNat [b0] = d.msgType := by
    simp [Dhcpv6.msgType, getU8, getBE, slice, hd]
  have hrel' : (d.msgType == 12 || d.msgType == 13) = false := hrel
  rw [hmt]
  simp only [hrel', Bool.false_eq_true, if_false]
  have r1 := ofBytes_read_append d.h (Dhcpv6.optsBytes d.opts)
  rw [hh4] at r1
  simp only [r1, List.replicate, List.append_nil, Nat.sub_self]
  have hrel2 : Dhcpv6.isRelay ⟨d.h, [0, 0, 0, 0, 0, 0, 0, 0, 0, 0, 0, 0, 0, 0, 0, 0], [0, 0, 0, 0, 0, 0, 0, 0, 0, 0, 0, 0, 0, 0, 0, 0], [], 0⟩ = false := hrel
  simp only [hrel2, Dhcpv6.readRelay, Bool.false_eq_true, if_false, Out.pure_eq]
  have hsz : (Cursor.ofBytes (Dhcpv6.optsBytes d.opts)).size = (Dhcpv6.optsBytes d.opts).length := rfl
  rw [hsz, dhcpv6_parseOpts_optsBytes d.opts hc _ (Nat.le_refl _)]
  simp only [List.replicate]
  -- the cached size
  have hs : Dhcpv6.sizeAfter 0 d.opts = d.optsSize := by
    rw [hi.size]
    have : ∀ (s : Nat) (os : List Opt), s + Dhcpv6.wireSum os < 4294967296 → Dhcpv6.sizeAfter s os = s + Dhcpv6.wireSum os := by
      intro s os
      unfold Dhcpv6.sizeAfter
      induction os generalizing s with
      | nil => intro _; simp [Dhcpv6.wireSum]
      | cons o os ih =>
        intro h
        simp only [Dhcpv6.wireSum] at h
        simp only [List.foldl_cons, Dhcpv6.wireSum]
        rw [Nat.mod_eq_of_lt (by omega), ih _ (by omega)]; omega
    rw [this 0 d.opts (by omega)]; omega
  rw [hs]


theorem dhcpv6_sizeAfter_eq (s : Nat) (os : List Opt) (h : s + Dhcpv6.wireSum os < 4294967296) :
    Dhcpv6.sizeAfter s os = s + Dhcpv6.wireSum os := by
  unfold Dhcpv6.sizeAfter
  induction os generalizing s with
  | nil => simp [Dhcpv6.wireSum]
  | cons o os ih =>
    simp only [Dhcpv6.wireSum] at h
    simp only [List.foldl_cons, Dhcpv6.wireSum]
    rw [Nat.mod_eq_of_lt (by omega), ih _ (by omega)]; omega

/-- **C03 / DHCPv6, relay messages**: message type, hop count, link and peer address and the option list come back;
    the two unused bytes of `header_data_` are not on the wire -/
theorem dhcpv6_reparse_relay (d : Dhcpv6) (hi : d.Inv) (hrel : d.isRelay = true) (hc : ∀ o ∈ d.opts, Dhcpv6.Canon o)
    (hsmall : Dhcpv6.wireSum d.opts < 4294967296) :
    Dhcpv6.parse (d.fixedBytes ++ Dhcpv6.optsBytes d.opts)
      = .ok (⟨d.h.take 2 ++ [0, 0], d.link, d.peer, d.opts, d.optsSize⟩, Inner.none) := by
  have hfix : d.fixedBytes = d.h.take 2 ++ (d.link ++ (d.peer ++ [])) := by
    simp only [Dhcpv6.fixedBytes, hrel, if_true, List.append_assoc, List.append_nil]
  rw [hfix]
  unfold Dhcpv6.parse
  have hh4 := hi.hlen
  obtain ⟨b0, b1, b2, b3, hd⟩ : ∃ b0 b1 b2 b3, d.h = [b0, b1, b2, b3] := by
    match hdh : d.h, hh4 with
    | [a, b, c, e], _ => exact ⟨a, b, c, e, rfl⟩
  have ht2 : d.h.take 2 = [b0, b1] := by rw [hd]; rfl
  simp only [List.append_assoc, List.append_nil]
  have hne : (Cursor.ofBytes (d.h.take 2 ++ (d.link ++ (d.peer ++ Dhcpv6.optsBytes d.opts)))).toBool = true := by
    rw [ofBytes_toBool, ht2]; rfl
  simp only [hne, Bool.not_true, Bool.false_eq_true, if_false]
  have hpeek : (Cursor.ofBytes (d.h.take 2 ++ (d.link ++ (d.peer ++ Dhcpv6.optsBytes d.opts)))).peek
      "DHCPv6::DHCPv6 *stream.pointer()" 0 1 = .ok [b0] := by
    unfold Cursor.peek rdN Cursor.ofBytes; rw [ht2]; simp
  simp only [hpeek, bind, Out.bind]
  have hmt : Cursor.beNat [b0] = d.msgType := by
    simp [Dhcpv6.msgType, getU8, getBE, slice, hd]
  have hrel' : (d.msgType == 12 || d.msgType == 13) = true := hrel
  rw [hmt]
  simp only [hrel', if_true]
  have r1 := ofBytes_read_append (d.h.take 2) (d.link ++ (d.peer ++ Dhcpv6.optsBytes d.opts))
  have hl2 : (d.h.take 2).length = 2 := by rw [ht2]; rfl
  rw [hl2] at r1
  simp only [r1]
  -- the parsed object is a relay message as well: same first byte
  have hrel2 : Dhcpv6.isRelay ⟨d.h.take 2 ++ List.replicate (4 - 2) 0, List.replicate 16 0, List.replicate 16 0, [], 0⟩ = true := by
    have : Dhcpv6.msgType ⟨d.h.take 2 ++ List.replicate (4 - 2) 0, List.replicate 16 0, List.replicate 16 0, [], 0⟩ = d.msgType := by
      simp [Dhcpv6.msgType, getU8, getBE, slice, hd]
    simp only [Dhcpv6.isRelay, this]; exact hrel
  simp only [hrel2, Dhcpv6.readRelay, if_true]
  have rl := ofBytes_read_append d.link (d.peer ++ Dhcpv6.optsBytes d.opts)
  rw [hi.link] at rl
  have rp := ofBytes_read_append d.peer (Dhcpv6.optsBytes d.opts)
  rw [hi.peer] at rp
  simp only [rl, rp, bind, Out.bind, Out.pure_eq]
  have hsz : (Cursor.ofBytes (Dhcpv6.optsBytes d.opts)).size = (Dhcpv6.optsBytes d.opts).length := rfl
  rw [hsz, dhcpv6_parseOpts_optsBytes d.opts hc _ (Nat.le_refl _)]
  simp only
  rw [dhcpv6_sizeAfter_eq 0 d.opts (by omega), hi.size]
  simp

/-! ## DHCP -/

/-- an option the wire can express: 8-bit code; PAD / END carry nothing; otherwise length byte = data length < 256 -/
structure Dhcp.Canon (o : Opt) : Prop where
  code : o.code < 256
  single : Dhcp.single o.code = true → o.data = [] ∧ o.lenField = 0
  tlv : Dhcp.single o.code = false → o.lenField = o.data.length ∧ o.data.length < 256

theorem beNat_singleton_ofNat (n : Nat) (h : n < 256) : Cursor.beNat [UInt8.ofNat n] = n := by
  simp [Cursor.beNat, UInt8.toNat_ofNat', Nat.mod_eq_of_lt h]

theorem ofBytes_readU8_cons (b : UInt8) (rest : Bytes) :
    (Cursor.ofBytes (b :: rest)).readU8 = .ok (Cursor.beNat [b], Cursor.ofBytes rest) := by
  have := ofBytes_readBE_append [b] rest
  simpa [Cursor.readU8] using this

/-- **TLV round trip (8-bit code, 8-bit length, single-byte PAD/END)** -/
theorem dhcp_parseOpts_optsBytes (os : List Opt) (hc : ∀ o ∈ os, Dhcp.Canon o) (fuel : Nat)
    (hf : (Dhcp.optsBytes os).length ≤ fuel) :
    Dhcp.parseOpts fuel (Cursor.ofBytes (Dhcp.optsBytes os)) = .ok os := by
  induction os generalizing fuel with
  | nil =>
    cases fuel <;> simp [Dhcp.parseOpts, Dhcp.optsBytes, ofBytes_toBool]
  | cons x xs ih =>
    have cx := hc x List.mem_cons_self
    have hw : Dhcp.optWire x ≥ 1 := by unfold Dhcp.optWire; split <;> omega
    have hlen : (Dhcp.optsBytes (x :: xs)).length = Dhcp.optWire x + (Dhcp.optsBytes xs).length := by
      simp only [Dhcp.optsBytes, List.length_append, dhcp_optBytes_length]
    cases fuel with
    | zero => omega
    | succ f =>
      have ihx := ih (fun o ho => hc o (List.mem_cons_of_mem _ ho)) f (by omega)
      unfold Dhcp.parseOpts
      cases hs : Dhcp.single x.code with
      | true =>
        have hshape : Dhcp.optsBytes (x :: xs) = UInt8.ofNat x.code :: Dhcp.optsBytes xs := by
          simp [Dhcp.optsBytes, Dhcp.optBytes, hs]
        rw [hshape]
        have hne : (Cursor.ofBytes (UInt8.ofNat x.code :: Dhcp.optsBytes xs)).toBool = true := by
          rw [ofBytes_toBool]; rfl
        simp only [hne, Bool.not_true, Bool.false_eq_true, if_false, ofBytes_readU8_cons, bind, Out.bind,
          beNat_singleton_ofNat x.code cx.code, Dhcp.readLen, hs, Out.pure_eq]
        have hcr : (Cursor.ofBytes (Dhcp.optsBytes xs)).canRead 0 = true := by simp [Cursor.canRead]
        have hpk : (Cursor.ofBytes (Dhcp.optsBytes xs)).peek "DHCP::DHCP option payload" 0 0 = .ok [] := by
          simp [Cursor.peek, rdN]
        have hsk : (Cursor.ofBytes (Dhcp.optsBytes xs)).skip 0 = .ok (Cursor.ofBytes (Dhcp.optsBytes xs)) := by
          simp [Cursor.skip, Cursor.ofBytes]
        simp only [hcr, Bool.not_true, Bool.false_eq_true, if_false, hpk, hsk, ihx]
        congr 2
        rcases cx.single hs with ⟨hd, hl⟩
        cases x with
        | mk c l d => simp only at hd hl; subst hd; subst hl; rfl
      | false =>
        rcases cx.tlv hs with ⟨hl, hsm⟩
        have hshape : Dhcp.optsBytes (x :: xs)
            = UInt8.ofNat x.code :: (UInt8.ofNat x.lenField :: (x.data ++ Dhcp.optsBytes xs)) := by
          simp [Dhcp.optsBytes, Dhcp.optBytes, hs]
        rw [hshape]
        have hne : (Cursor.ofBytes (UInt8.ofNat x.code :: (UInt8.ofNat x.lenField :: (x.data ++ Dhcp.optsBytes xs)))).toBool = true := by
          rw [ofBytes_toBool]; rfl
        have hlf : Cursor.beNat [UInt8.ofNat x.lenField] = x.data.length := by
          rw [beNat_singleton_ofNat _ (by omega), hl]
        simp only [hne, Bool.not_true, Bool.false_eq_true, if_false, ofBytes_readU8_cons, bind, Out.bind,
          beNat_singleton_ofNat x.code cx.code, Dhcp.readLen, hs, Bool.not_false, if_true, hlf,
          ofBytes_canRead_append, ofBytes_peek_append, ofBytes_skip_append, ihx, Out.pure_eq]
        congr 2
        cases x with
        | mk c l d => simp only at hl; subst hl; rfl

/-- the round trip *without* the representability predicate: every option list whose codes fit a byte and whose
    length fields equal the data lengths.  False of the code (and of the wire format): known finding KF-WApp-6. -/
def dhcp_tlv_roundtrip_all : Prop :=
  ∀ os : List Opt, (∀ o ∈ os, o.code < 256 ∧ Dhcp.single o.code = false ∧ o.lenField = o.data.length) → ∀ fuel : Nat,
    (Dhcp.optsBytes os).length ≤ fuel → Dhcp.parseOpts fuel (Cursor.ofBytes (Dhcp.optsBytes os)) = .ok os

/-- witness: one option (code 60) with 256 data bytes — its length byte is written as 0, the parser reads an empty
    option 60 followed by 256 PADs (replayed on the real code by `known_finding_probes` in checks/wire_gen_app.py) -/
theorem dhcp_long_option_breaks (d : Bytes) (hd : d.length = 256) (fuel : Nat) :
    Dhcp.parseOpts (fuel + 1) (Cursor.ofBytes (Dhcp.optsBytes [⟨60, 256, d⟩])) ≠ .ok [⟨60, 256, d⟩] := by
  intro h
  have hs60 : Dhcp.single 60 = false := by decide
  have hshape : Dhcp.optsBytes [⟨60, 256, d⟩] = UInt8.ofNat 60 :: (UInt8.ofNat 256 :: (([] : Bytes) ++ d)) := by
    simp [Dhcp.optsBytes, Dhcp.optBytes, hs60]
  rw [hshape] at h
  unfold Dhcp.parseOpts at h
  have hne : (Cursor.ofBytes (UInt8.ofNat 60 :: (UInt8.ofNat 256 :: (([] : Bytes) ++ d)))).toBool = true := by
    rw [ofBytes_toBool]; rfl
  have h60 : Cursor.beNat [UInt8.ofNat 60] = 60 := by decide
  have h256 : Cursor.beNat [UInt8.ofNat 256] = ([] : Bytes).length := by decide
  simp only [hne, Bool.not_true, Bool.false_eq_true, if_false, ofBytes_readU8_cons, bind, Out.bind, h60,
    Dhcp.readLen, hs60, Bool.not_false, if_true, h256, ofBytes_canRead_append, ofBytes_peek_append,
    ofBytes_skip_append] at h
  cases hr : Dhcp.parseOpts fuel (Cursor.ofBytes d) with
  | ok rest =>
    simp only [hr, Out.pure_eq] at h
    injection h with h
    injection h with h _
    injection h with _ hl _
    simp at hl
  | throw e => simp only [hr] at h; cases h
  | fault s => simp only [hr] at h; cases h

theorem dhcp_tlv_roundtrip_all_fails : ¬ dhcp_tlv_roundtrip_all := by
  intro hall
  have hlen : (List.replicate 256 (0 : UInt8)).length = 256 := List.length_replicate
  generalize List.replicate 256 (0 : UInt8) = d at hlen
  have h := hall [⟨60, 256, d⟩]
    (by intro o ho; simp only [List.mem_singleton] at ho; subst ho; exact ⟨by show 60 < 256; omega, by show Dhcp.single 60 = false; decide, hlen.symm⟩) 258
    (by simp [Dhcp.optsBytes, Dhcp.optBytes, Dhcp.single, hlen])
  exact dhcp_long_option_breaks d hlen 257 h

/-- the partial theorem: the round trip for representable option lists (`Dhcp.Canon`) -/
theorem dhcp_tlv_roundtrip_partial (os : List Opt) (hc : ∀ o ∈ os, Dhcp.Canon o) (fuel : Nat)
    (hf : (Dhcp.optsBytes os).length ≤ fuel) :
    Dhcp.parseOpts fuel (Cursor.ofBytes (Dhcp.optsBytes os)) = .ok os := dhcp_parseOpts_optsBytes os hc fuel hf

/-- **C03 / DHCP**: parsing `bootp header ++ magic cookie ++ options` as written gives back the header, the option
    list (PAD and END included, in place) and the cached size -/
theorem dhcp_reparse (d : Dhcp) (hi : d.Inv) (hc : ∀ o ∈ d.opts, Dhcp.Canon o) (hsmall : d.size < 4294967296) :
    Dhcp.parse (d.h ++ (Dhcp.magic ++ Dhcp.optsBytes d.opts)) = .ok (⟨d.h, [], d.opts, d.size⟩, Inner.none) := by
  unfold Dhcp.parse BootP.parseWith
  have hh := hi.hlen
  have r1 := ofBytes_read_append d.h (Dhcp.magic ++ Dhcp.optsBytes d.opts)
  rw [hh] at r1
  have hcr : (Cursor.ofBytes (Dhcp.magic ++ Dhcp.optsBytes d.opts)).canRead 0 = true := by simp [Cursor.canRead]
  have r0 : (Cursor.ofBytes (Dhcp.magic ++ Dhcp.optsBytes d.opts)).read 0
      = .ok ([], Cursor.ofBytes (Dhcp.magic ++ Dhcp.optsBytes d.opts)) := by
    have := ofBytes_read_append [] (Dhcp.magic ++ Dhcp.optsBytes d.opts)
    simpa using this
  have rs := ofBytes_skip_append d.h (Dhcp.magic ++ Dhcp.optsBytes d.opts)
  rw [hh] at rs
  have rm := ofBytes_read_append Dhcp.magic (Dhcp.optsBytes d.opts)
  have hm4 : Dhcp.magic.length = 4 := rfl
  rw [hm4] at rm
  simp only [BootP.hdrSize, r1, bind, Out.bind, hcr, Bool.not_true, Bool.false_eq_true, if_false, r0,
    List.length_nil, Nat.add_zero, Nat.sub_zero, rs, rm, Out.pure_eq, bne_self_eq_false]
  have hsz : (Cursor.ofBytes (Dhcp.optsBytes d.opts)).size = (Dhcp.optsBytes d.opts).length := rfl
  rw [hsz, dhcp_parseOpts_optsBytes d.opts hc _ (Nat.le_refl _)]
  simp only
  rw [dhcp_sizeAfter_eq 4 d.opts (by have := hi.size; omega), ← hi.size]

/-- the options a parse produces are canonical -/
theorem dhcp_parseOpts_canon (fuel : Nat) (c : Cursor) (hi : c.Inv) (os : List Opt)
    (h : Dhcp.parseOpts fuel c = .ok os) : ∀ o ∈ os, Dhcp.Canon o := by
  have lt8 : ∀ bs : Bytes, bs.length ≤ 1 → Cursor.beNat bs < 256 := by
    intro bs hbs
    match bs, hbs with
    | [], _ => simp [Cursor.beNat]
    | [a], _ => simp [Cursor.beNat]; exact a.toNat_lt
    | _ :: _ :: _, h => simp at h
  induction fuel generalizing c os with
  | zero =>
    unfold Dhcp.parseOpts at h
    split at h
    · cases h
    · injection h with h; subst h; simp
  | succ fuel ih =>
    unfold Dhcp.parseOpts at h
    by_cases hb : c.toBool
    · simp only [hb, Bool.not_true, Bool.false_eq_true, if_false] at h
      rcases readU8_safe c hi with ⟨t, c1, e1, i1, _, _, _, ht⟩ | ⟨e1, _⟩
      · simp only [e1, bind, Out.bind] at h
        have htl : t < 256 := by rw [ht]; exact lt8 _ (by simp only [List.length_take]; omega)
        cases hsgl : Dhcp.single t with
        | true =>
          simp only [Dhcp.readLen, hsgl, Bool.not_true, Bool.false_eq_true, if_false, Out.pure_eq] at h
          have hc : c1.canRead 0 = true := by simp [Cursor.canRead]
          simp only [hc, Bool.not_true, Bool.false_eq_true, if_false] at h
          rcases peek_safe "DHCP::DHCP option payload" c1 0 0 i1 (by omega) with ⟨d, e3, hd⟩
          rcases Cursor.skip_spec c1 0 i1 with ⟨c3, e4, i3, _, _⟩ | ⟨e4, hlt⟩
          · simp only [e3, e4] at h
            cases e5 : Dhcp.parseOpts fuel c3 with
            | ok rest =>
              simp only [e5] at h
              injection h with h; subst h
              have hd0 : d = [] := by rw [hd]; simp
              intro o ho
              rcases List.mem_cons.mp ho with rfl | ho
              · exact ⟨htl, fun _ => ⟨hd0, rfl⟩, fun hf => by simp only [hsgl] at hf; cases hf⟩
              · exact ih c3 i3 rest e5 o ho
            | throw e => simp only [e5] at h; cases h
            | fault s => simp only [e5] at h; cases h
          · omega
        | false =>
          simp only [Dhcp.readLen, hsgl, Bool.not_false, if_true] at h
          rcases readU8_safe c1 i1 with ⟨len, c2, e2, i2, _, _, _, hl⟩ | ⟨e2, _⟩
          · simp only [e2] at h
            have hll : len < 256 := by rw [hl]; exact lt8 _ (by simp only [List.length_take]; omega)
            by_cases hc : c2.canRead len
            · simp only [hc, Bool.not_true, Bool.false_eq_true, if_false] at h
              have hle : len ≤ c2.size := by simpa [Cursor.canRead] using hc
              rcases peek_safe "DHCP::DHCP option payload" c2 0 len i2 (by omega) with ⟨d, e3, hd⟩
              rcases Cursor.skip_spec c2 len i2 with ⟨c3, e4, i3, _, _⟩ | ⟨e4, hlt⟩
              · simp only [e3, e4] at h
                cases e5 : Dhcp.parseOpts fuel c3 with
                | ok rest =>
                  simp only [e5] at h
                  injection h with h; subst h
                  have hdl : d.length = len := by
                    rw [hd]; simp only [List.drop_zero, List.length_take]
                    have : c2.size ≤ c2.mem.length := i2
                    omega
                  intro o ho
                  rcases List.mem_cons.mp ho with rfl | ho
                  · exact ⟨htl, fun hf => (by simp only [hsgl] at hf; cases hf),
                      fun _ => ⟨hdl.symm, (by show d.length < 256; omega)⟩⟩
                  · exact ih c3 i3 rest e5 o ho
                | throw e => simp only [e5] at h; cases h
                | fault s => simp only [e5] at h; cases h
              · omega
            · simp only [hc, Bool.not_false, if_true] at h; cases h
          · simp only [e2] at h; cases h
      · simp only [e1, bind, Out.bind] at h; cases h
    · simp only [hb, Bool.not_false, if_true] at h
      injection h with h; subst h; simp


/-! ## end to end: parse what `write_serialization` produced -/

/-- **C03 / DHCP end to end**: on the exact-size region (`header_size()` bytes) the writer's output re-parses to the
    same header, option list and cached size -/
theorem dhcp_write_reparse (cx : Ctx) (d : Dhcp) (hi : d.Inv) (hc : ∀ o ∈ d.opts, Dhcp.Canon o)
    (hsmall : d.size < 4294967296) (region : Bytes) (hr : region.length = d.hdr) :
    ∃ out, d.write cx region = .ok out ∧ Dhcp.parse out = .ok (⟨d.h, [], d.opts, d.size⟩, Inner.none) := by
  rw [dhcp_hdr_eq] at hr
  refine ⟨_, dhcp_write_eq cx d hi region (by omega), ?_⟩
  have : region.drop (236 + d.size) = [] := List.drop_eq_nil_of_le (by omega)
  rw [this, List.append_nil]
  exact dhcp_reparse d hi hc hsmall

/-- **C03 / DHCPv6 end to end** (client/server messages) -/
theorem dhcpv6_write_reparse_plain (cx : Ctx) (d : Dhcpv6) (hi : d.Inv) (hrel : d.isRelay = false)
    (hc : ∀ o ∈ d.opts, Dhcpv6.Canon o) (hsmall : Dhcpv6.wireSum d.opts < 4294967296) (region : Bytes)
    (hr : region.length = d.hdr) :
    ∃ out, d.write cx region = .ok out ∧
      Dhcpv6.parse out = .ok (⟨d.h, List.replicate 16 0, List.replicate 16 0, d.opts, d.optsSize⟩, Inner.none) := by
  refine ⟨_, dhcpv6_write_eq cx d hi region (by omega), ?_⟩
  have : region.drop d.hdr = [] := List.drop_eq_nil_of_le (by omega)
  rw [this, List.append_nil]
  exact dhcpv6_reparse_plain d hi hrel hc hsmall

/-- **the DHCPv6 parsing constructor establishes the invariant** -/
theorem dhcpv6_parseOpts_wireSum (fuel : Nat) (c : Cursor) (hi : c.Inv) (hf : c.size ≤ fuel) (os : List Opt)
    (h : Dhcpv6.parseOpts fuel c = .ok os) : Dhcpv6.wireSum os = c.size := by
  induction fuel generalizing c os with
  | zero =>
    unfold Dhcpv6.parseOpts at h
    have : c.toBool = false := by simp only [Cursor.toBool]; simp; omega
    simp only [this, Bool.false_eq_true, if_false] at h
    injection h with h; subst h; simp [Dhcpv6.wireSum]; omega
  | succ fuel ih =>
    unfold Dhcpv6.parseOpts at h
    by_cases hb : c.toBool
    · simp only [hb, Bool.not_true, Bool.false_eq_true, if_false] at h
      rcases readBE_safe c 2 hi with ⟨t, c1, e1, i1, hs1, hn1, _⟩ | ⟨e1, _⟩
      · simp only [e1, bind, Out.bind] at h
        rcases readBE_safe c1 2 i1 with ⟨len, c2, e2, i2, hs2, hn2, _⟩ | ⟨e2, _⟩
        · simp only [e2] at h
          by_cases hc : c2.canRead len
          · simp only [hc, Bool.not_true, Bool.false_eq_true, if_false] at h
            have hle : len ≤ c2.size := by simpa [Cursor.canRead] using hc
            rcases peek_safe "DHCPv6::DHCPv6 option payload" c2 0 len i2 (by omega) with ⟨d, e3, hd⟩
            rcases Cursor.skip_spec c2 len i2 with ⟨c3, e4, i3, hs3, _⟩ | ⟨e4, hlt⟩
            · simp only [e3, e4] at h
              cases e5 : Dhcpv6.parseOpts fuel c3 with
              | ok rest =>
                simp only [e5] at h
                injection h with h; subst h
                have := ih c3 i3 (by omega) rest e5
                have hdl : d.length = len := by
                  rw [hd]; simp only [List.drop_zero, List.length_take]
                  have : c2.size ≤ c2.mem.length := i2
                  omega
                simp only [Dhcpv6.wireSum, Dhcpv6.optWire, this, hdl]; omega
              | throw e => simp only [e5] at h; cases h
              | fault s => simp only [e5] at h; cases h
            · omega
          · simp only [hc, Bool.not_false, if_true] at h; cases h
        · simp only [e2] at h; cases h
      · simp only [e1, bind, Out.bind] at h; cases h
    · simp only [hb, Bool.not_false, if_true] at h
      injection h with h; subst h
      have : c.size = 0 := by simpa [Cursor.toBool] using hb
      simp [Dhcpv6.wireSum, this]

theorem dhcpv6_wireSum_append (a b : List Opt) : Dhcpv6.wireSum (a ++ b) = Dhcpv6.wireSum a + Dhcpv6.wireSum b := by
  induction a with
  | nil => simp [Dhcpv6.wireSum]
  | cons x xs ih => simp only [List.cons_append, Dhcpv6.wireSum, ih]; omega

/-- `add_option` keeps the DHCPv6 invariant -/
theorem dhcpv6_addOption_inv (d : Dhcpv6) (o : Opt) (hi : d.Inv) (hsmall : d.optsSize + Dhcpv6.optWire o < 4294967296) :
    (d.addOption o).Inv := by
  refine ⟨hi.hlen, hi.link, hi.peer, ?_⟩
  simp only [Dhcpv6.addOption, dhcpv6_wireSum_append, Dhcpv6.wireSum]
  rw [Nat.mod_eq_of_lt hsmall, hi.size]; omega

theorem dhcpv6_erase_wireSum (os : List Opt) (code : Nat) (o : Opt) (h : findOpt os code = some o) :
    Dhcpv6.wireSum (eraseOpt os code) + Dhcpv6.optWire o = Dhcpv6.wireSum os := by
  induction os with
  | nil => simp [findOpt] at h
  | cons x xs ih =>
    unfold findOpt at h
    simp only [List.find?_cons] at h
    unfold eraseOpt
    cases hx : (x.code == code) with
    | true =>
      simp only [hx] at h
      injection h with h; subst h
      simp only [if_true, Dhcpv6.wireSum]; omega
    | false =>
      simp only [hx] at h
      have := ih (by unfold findOpt; exact h)
      simp only [Bool.false_eq_true, if_false, Dhcpv6.wireSum]; omega

/-- `remove_option` keeps the DHCPv6 invariant -/
theorem dhcpv6_removeOption_inv (d : Dhcpv6) (code : Nat) (hi : d.Inv) (hlt : d.optsSize < 4294967296) :
    (d.removeOption code).Inv := by
  unfold Dhcpv6.removeOption
  cases hf : findOpt d.opts code with
  | none => exact hi
  | some o =>
    refine ⟨hi.hlen, hi.link, hi.peer, ?_⟩
    have := dhcpv6_erase_wireSum d.opts code o hf
    have hs := hi.size
    simp only
    omega

end Tins.Wire.App
