import TinsModel.Wire.App.Raw
/- `Tins::BootP` (src/bootp.cpp, include/tins/bootp.h): packed 236-byte `bootp_header` + `vend_` vector. -/
namespace Tins.Wire.App

structure BootP where
  h : Bytes        -- `bootp_` (236 bytes)
  vend : Bytes     -- `vend_`
deriving Repr, DecidableEq

namespace BootP

def hdrSize : Nat := 236

/- member offsets: opcode 0, htype 1, hlen 2, hops 3, xid 4, secs 8, padding 10, ciaddr 12, yiaddr 16, siaddr 20,
   giaddr 24, chaddr 28 (16), sname 44 (64), file 108 (128) -/

/-- `BootP::BootP(const uint8_t* buffer, uint32_t total_sz, uint32_t vend_field_size)` -/
def parseWith (b : Bytes) (vendSize : Nat) : Out (BootP × Cursor) := do
  let c := Cursor.ofBytes b
  let (h, c) ← c.read hdrSize
  if !c.canRead vendSize then .throw .malformedPacket else
  let (v, c) ← c.read vendSize
  pure (⟨h, v⟩, c)

/-- the harness calls the two-argument form: `vend_field_size = 64` -/
def parse (b : Bytes) : Out (BootP × Inner) := do
  let (p, _) ← parseWith b 64
  pure (p, .none)

/-- the getters every class deriving from BootP shares -/
def headerFields (h : Bytes) : Fields :=
  [("opcode", toString (getU8 h 0)), ("htype", toString (getU8 h 1)), ("hlen", toString (getU8 h 2)),
   ("hops", toString (getU8 h 3)), ("xid", toString (getBE h 4 4)), ("secs", toString (getBE h 8 2)),
   ("padding", toString (getBE h 10 2)),
   ("ciaddr", hexStr (slice h 12 4)), ("yiaddr", hexStr (slice h 16 4)), ("siaddr", hexStr (slice h 20 4)),
   ("giaddr", hexStr (slice h 24 4)), ("chaddr", hexStr (slice h 28 16)),
   ("sname", hexStr (slice h 44 64)), ("file", hexStr (slice h 108 128))]

def fields (p : BootP) : Fields := headerFields p.h ++ [("vend", hexStr p.vend)]

/-- `BootP::header_size()` -/
def hdr (p : BootP) : Nat := hdrSize + p.vend.length

/-- `BootP::BootP()`: `bootp_()`, `vend_(64)` -/
def create : BootP := ⟨List.replicate 236 0, List.replicate 64 0⟩

/-- `BootP::write_serialization` -/
def write (_cx : Ctx) (p : BootP) (region : Bytes) : Out Bytes := do
  let o ← (OutCursor.ofRegion region).write p.h
  let o ← o.write p.vend
  pure o.buffer

/-- `chaddr(const HWAddress<n>&)`: copies min(n, 16) bytes and zeroes the rest of the 16-byte field (since 'fix:
    BootP::chaddr did not zero the rest of the field …'); the harness passes n = 6 or n = 16 -/
def setChaddr (h : Bytes) (v : String) : Out Bytes := do
  let b ← hexArg v
  if b.length == 6 || b.length == 16 then pure (patch h 28 (b ++ List.replicate (16 - b.length) 0)) else .throw .stdOther

/-- the setters of the fixed header; `none` = not a header setter -/
def setHeader (h : Bytes) : List String → Option (Out Bytes)
  | ["opcode", v] => some (setNum h 0 1 v)
  | ["htype", v] => some (setNum h 1 1 v)
  | ["hlen", v] => some (setNum h 2 1 v)
  | ["hops", v] => some (setNum h 3 1 v)
  | ["xid", v] => some (setNum h 4 4 v)
  | ["secs", v] => some (setNum h 8 2 v)
  | ["padding", v] => some (setNum h 10 2 v)
  | ["ciaddr", v] => some (setHex h 12 4 v)
  | ["yiaddr", v] => some (setHex h 16 4 v)
  | ["siaddr", v] => some (setHex h 20 4 v)
  | ["giaddr", v] => some (setHex h 24 4 v)
  | ["chaddr", v] => some (setChaddr h v)
  | ["sname", v] => some (setHex h 44 64 v)
  | ["file", v] => some (setHex h 108 128 v)
  | _ => none

def apply (p : BootP) (op : List String) : Out BootP :=
  match op with
  | ["vend", v] => do let b ← hexArg v; pure { p with vend := b }
  | _ => match setHeader p.h op with
    | some r => do let h ← r; pure { p with h := h }
    | none => .throw .stdOther

def make : List String → Out BootP
  | [] => .ok create
  | _ => .throw .stdOther

end BootP
end Tins.Wire.App
