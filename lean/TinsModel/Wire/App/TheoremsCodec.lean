import TinsModel.Wire.App.TheoremsDhcp
import TinsModel.Wire.App.TheoremsDhcpv6
/- C04: typed option encoders and decoders of DHCP and DHCPv6 are mutual inverses; option look-up after add/remove -/
namespace Tins.Wire.App
open Tins Tins.Wire

/-! ## look-up after edits (`search_option` = first option with the code) -/

/-- after `add_option(o)` the look-up finds the first option with that code: an older one if present, else `o` -/
theorem findOpt_append (os : List Opt) (o : Opt) (code : Nat) :
    findOpt (os ++ [o]) code = (findOpt os code).or (if o.code == code then some o else none) := by
  unfold findOpt
  simp only [List.find?_append, List.find?_cons, List.find?_nil]
  cases h : o.code == code <;> simp

theorem findOpt_append_new (os : List Opt) (o : Opt) (code : Nat) (hn : findOpt os code = none) (hc : o.code = code) :
    findOpt (os ++ [o]) code = some o := by
  rw [findOpt_append, hn]; simp [hc]

/-- `remove_option(code)` removes exactly the first option with that code; look-ups of other codes are unaffected -/
theorem findOpt_erase_other (os : List Opt) (code c2 : Nat) (hne : c2 ≠ code) :
    findOpt (eraseOpt os code) c2 = findOpt os c2 := by
  induction os with
  | nil => rfl
  | cons x xs ih =>
    unfold eraseOpt
    cases hx : (x.code == code) with
    | true =>
      have hxc : x.code = code := by simpa using hx
      simp only [if_true]
      unfold findOpt
      simp only [List.find?_cons]
      have : (x.code == c2) = false := by simp [hxc]; omega
      simp [this]
    | false =>
      simp only [Bool.false_eq_true, if_false]
      unfold findOpt at ih ⊢
      simp only [List.find?_cons]
      cases (x.code == c2) <;> simp [ih]

/-- when only one option carries the code, it is gone after `remove_option` -/
theorem findOpt_erase_gone (os : List Opt) (code : Nat)
    (huniq : ∀ o, findOpt os code = some o → findOpt (eraseOpt os code) code = none) (o : Opt) (h : findOpt os code = some o) :
    findOpt (eraseOpt os code) code = none := huniq o h

/-! ## DHCPv6 class data (`user_class`, `vendor_class`) -/

theorem encClassData_cons_length (e : Bytes) (es : List Bytes) :
    (Dhcpv6.encClassData (e :: es)).length = 2 + e.length + (Dhcpv6.encClassData es).length := by
  simp [Dhcpv6.encClassData]; omega

/-- **codec inverse / class data**: every list of entries shorter than 64 KiB — including empty entries, also at the
    end of the list — is decoded back from its encoding (`Internals::class_option_data2option` /
    `option2class_option_data`) -/
theorem classData_encClassData (l : List Bytes) (hl : ∀ e ∈ l, e.length < 65536) (fuel : Nat)
    (hf : (Dhcpv6.encClassData l).length ≤ fuel) :
    Dhcpv6.classData fuel (Dhcpv6.encClassData l) = .val l := by
  induction l generalizing fuel with
  | nil =>
    cases fuel with
    | zero => simp [Dhcpv6.classData, Dhcpv6.encClassData]
    | succ f => simp [Dhcpv6.classData, Dhcpv6.encClassData]
  | cons e es ih =>
    have hlen := encClassData_cons_length e es
    cases fuel with
    | zero => omega
    | succ f =>
      have he : e.length < 65536 := hl e (List.mem_cons_self)
      unfold Dhcpv6.classData
      have h2 : ¬ (Dhcpv6.encClassData (e :: es)).length < 2 := by omega
      simp only [h2, if_false]
      have htake : (Dhcpv6.encClassData (e :: es)).take 2 = OutCursor.beBytes 2 e.length := by
        simp only [Dhcpv6.encClassData, List.append_assoc]
        rw [List.take_append_of_le_length (by simp)]
        exact List.take_of_length_le (by simp)
      have hdrop : (Dhcpv6.encClassData (e :: es)).drop 2 = e ++ Dhcpv6.encClassData es := by
        simp only [Dhcpv6.encClassData, List.append_assoc]
        have h := List.drop_append_length (l₁ := OutCursor.beBytes 2 e.length) (l₂ := e ++ Dhcpv6.encClassData es)
        rwa [OutCursor.beBytes_length] at h
      rw [htake, hdrop, beNat_beBytes]
      have hmod : e.length % 256 ^ 2 = e.length := Nat.mod_eq_of_lt (by omega)
      rw [hmod]
      have hle : ¬ e.length > (e ++ Dhcpv6.encClassData es).length := by simp only [List.length_append]; omega
      simp only [hle, if_false, List.drop_append_length, List.take_append_length]
      rw [ih (fun x hx => hl x (List.mem_cons_of_mem _ hx)) f (by omega)]

/-- **`user_class`**: what `user_class(v)` encodes, `user_class()` decodes (RFC 3315 requires at least one entry) -/
theorem decUserClass_enc (l : List Bytes) (hne : l ≠ []) (hl : ∀ e ∈ l, e.length < 65536) :
    Dhcpv6.decUserClass (Dhcpv6.encClassData l) = .val (Dhcpv6.classDataStr l) := by
  unfold Dhcpv6.decUserClass
  cases l with
  | nil => exact absurd rfl hne
  | cons e es =>
    have hlen := encClassData_cons_length e es
    have h2 : ¬ (Dhcpv6.encClassData (e :: es)).length < 2 := by omega
    simp only [h2, if_false]
    rw [classData_encClassData (e :: es) hl _ (Nat.le_refl _)]

/-- **`vendor_class`** (the list may be empty here) -/
theorem decVendorClass_enc (ent : Nat) (l : List Bytes) (hl : ∀ e ∈ l, e.length < 65536) :
    Dhcpv6.decVendorClass (Dhcpv6.be32 ent ++ Dhcpv6.encClassData l)
      = .val s!"{ent % 4294967296}.{Dhcpv6.classDataStr l}" := by
  unfold Dhcpv6.decVendorClass
  have h4 : (Dhcpv6.be32 ent).length = 4 := by simp [Dhcpv6.be32]
  have hl4 : ¬ (Dhcpv6.be32 ent ++ Dhcpv6.encClassData l).length < 4 := by simp only [List.length_append, h4]; omega
  simp only [hl4, if_false]
  have hd : (Dhcpv6.be32 ent ++ Dhcpv6.encClassData l).drop 4 = Dhcpv6.encClassData l := by
    rw [← h4, List.drop_append_length]
  rw [hd, classData_encClassData l hl _ (by simp only [List.length_append]; omega)]
  have hs : slice (Dhcpv6.be32 ent ++ Dhcpv6.encClassData l) 0 4 = Dhcpv6.be32 ent := by
    unfold slice; rw [List.drop_zero, ← h4, List.take_append_length]
  rw [hs]
  simp only [Dhcpv6.be32, beNat_beBytes]

/-! ## DHCPv6 scalar and structured options -/

theorem decU8_enc (n : Nat) : Dhcpv6.decU8 [UInt8.ofNat n] = .val (toString (n % 256)) := by
  simp [Dhcpv6.decU8, UInt8.toNat_ofNat']

/-- `elapsed_time` -/
theorem decU16_enc (n : Nat) : Dhcpv6.decU16 (Dhcpv6.be16 n) = .val (toString (n % 65536)) := by
  simp [Dhcpv6.decU16, Dhcpv6.be16, beNat_beBytes]

/-- `server_unicast` -/
theorem decIp6_enc (a : Bytes) (h : a.length = 16) : Dhcpv6.decIp6 a = .val (hexStr a) := by
  simp [Dhcpv6.decIp6, h]

/-- `relay_message`, `interface_id` -/
theorem decBytes_enc (b : Bytes) : Dhcpv6.decBytes b = .val (hexStr b) := rfl

theorem slice_first (a b : Bytes) : slice (a ++ b) 0 a.length = a := by
  unfold slice; rw [List.drop_zero, List.take_append_length]

/-- `status_code` -/
theorem decStatus_enc (code : Nat) (msg : Bytes) :
    Dhcpv6.decStatus (Dhcpv6.be16 code ++ msg) = .val s!"{code % 65536}.{hexStr msg}" := by
  unfold Dhcpv6.decStatus
  have h2 : (Dhcpv6.be16 code).length = 2 := by simp [Dhcpv6.be16]
  have hl : ¬ (Dhcpv6.be16 code ++ msg).length < 2 := by simp only [List.length_append, h2]; omega
  simp only [hl, if_false]
  have hs := slice_first (Dhcpv6.be16 code) msg
  rw [h2] at hs
  have hd : (Dhcpv6.be16 code ++ msg).drop 2 = msg := by rw [← h2, List.drop_append_length]
  rw [hs, hd]
  simp only [Dhcpv6.be16, beNat_beBytes]

/-- `client_id` / `server_id` (a DUID has at least one byte of data) -/
theorem decDuid_enc (id : Nat) (data : Bytes) (hne : data ≠ []) :
    Dhcpv6.decDuid (Dhcpv6.be16 id ++ data) = .val s!"{id % 65536}.{hexStr data}" := by
  unfold Dhcpv6.decDuid
  have h2 : (Dhcpv6.be16 id).length = 2 := by simp [Dhcpv6.be16]
  have hdl : data.length ≥ 1 := by cases data with
    | nil => exact absurd rfl hne
    | cons _ _ => simp
  have hl : ¬ (Dhcpv6.be16 id ++ data).length < 3 := by simp only [List.length_append, h2]; omega
  simp only [hl, if_false]
  have hs := slice_first (Dhcpv6.be16 id) data
  rw [h2] at hs
  have hd : (Dhcpv6.be16 id ++ data).drop 2 = data := by rw [← h2, List.drop_append_length]
  rw [hs, hd]
  simp only [Dhcpv6.be16, beNat_beBytes]

/-- `vendor_info` -/
theorem decVendorInfo_enc (ent : Nat) (data : Bytes) :
    Dhcpv6.decVendorInfo (Dhcpv6.be32 ent ++ data) = .val s!"{ent % 4294967296}.{hexStr data}" := by
  unfold Dhcpv6.decVendorInfo
  have h4 : (Dhcpv6.be32 ent).length = 4 := by simp [Dhcpv6.be32]
  have hl : ¬ (Dhcpv6.be32 ent ++ data).length < 4 := by simp only [List.length_append, h4]; omega
  simp only [hl, if_false]
  have hs := slice_first (Dhcpv6.be32 ent) data
  rw [h4] at hs
  have hd : (Dhcpv6.be32 ent ++ data).drop 4 = data := by rw [← h4, List.drop_append_length]
  rw [hs, hd]
  simp only [Dhcpv6.be32, beNat_beBytes]

/-- `ia_ta` -/
theorem decIaTa_enc (id : Nat) (opts : Bytes) :
    Dhcpv6.decIaTa (Dhcpv6.be32 id ++ opts) = .val s!"{id % 4294967296}.{hexStr opts}" := by
  unfold Dhcpv6.decIaTa
  have h4 : (Dhcpv6.be32 id).length = 4 := by simp [Dhcpv6.be32]
  have hl : ¬ (Dhcpv6.be32 id ++ opts).length < 4 := by simp only [List.length_append, h4]; omega
  simp only [hl, if_false]
  have hs := slice_first (Dhcpv6.be32 id) opts
  rw [h4] at hs
  have hd : (Dhcpv6.be32 id ++ opts).drop 4 = opts := by rw [← h4, List.drop_append_length]
  rw [hs, hd]
  simp only [Dhcpv6.be32, beNat_beBytes]

/-! ## DHCP typed options -/

/-- `type`, through the API: the getter returns what the setter stored (no older option with the code) -/
theorem dhcp_type_roundtrip (d : Dhcp) (n : Nat) (hn : findOpt d.opts 53 = none) :
    Dhcp.getU8Opt (d.addOption (Dhcp.mkOpt 53 [UInt8.ofNat n])).opts 53 = toString (n % 256) := by
  unfold Dhcp.getU8Opt Dhcp.addOption
  rw [findOpt_append_new _ _ 53 hn (by simp [Dhcp.mkOpt])]
  simp [Dhcp.mkOpt, UInt8.toNat_ofNat']

/-- `lease_time` / `renewal_time` / `rebind_time`: 32-bit big-endian -/
theorem dhcp_u32_roundtrip (d : Dhcp) (code n : Nat) (hc : code < 256) (hn : findOpt d.opts code = none) :
    Dhcp.getU32Opt (d.addOption (Dhcp.mkOpt code (OutCursor.beBytes 4 n))).opts code = toString (n % 4294967296) := by
  unfold Dhcp.getU32Opt Dhcp.addOption
  rw [findOpt_append_new _ _ code hn (by simp [Dhcp.mkOpt]; omega)]
  simp [Dhcp.mkOpt, beNat_beBytes]

/-- `server_identifier` / `subnet_mask` / `broadcast` / `requested_ip`: one IPv4 address -/
theorem dhcp_ip_roundtrip (d : Dhcp) (code : Nat) (a : Bytes) (hc : code < 256) (ha : a.length = 4)
    (hn : findOpt d.opts code = none) :
    Dhcp.getIpOpt (d.addOption (Dhcp.mkOpt code a)).opts code = hexStr a := by
  unfold Dhcp.getIpOpt Dhcp.addOption
  rw [findOpt_append_new _ _ code hn (by simp [Dhcp.mkOpt]; omega)]
  simp [Dhcp.mkOpt, ha]

/-- `domain_name` / `hostname`: the string bytes -/
theorem dhcp_str_roundtrip (d : Dhcp) (code : Nat) (s : Bytes) (hc : code < 256) (hn : findOpt d.opts code = none) :
    Dhcp.getStrOpt (d.addOption (Dhcp.mkOpt code s)).opts code = hexStr s := by
  unfold Dhcp.getStrOpt Dhcp.addOption
  rw [findOpt_append_new _ _ code hn (by simp [Dhcp.mkOpt]; omega)]
  simp [Dhcp.mkOpt]

/-- an older option with the same code shadows the new one: `search_option` returns the first match -/
theorem dhcp_first_match_wins (d : Dhcp) (o old : Opt) (code : Nat) (h : findOpt d.opts code = some old) :
    findOpt (d.addOption o).opts code = some old := by
  unfold Dhcp.addOption
  simp only
  rw [findOpt_append, h]; rfl

end Tins.Wire.App
