import TinsModel.Wire.App.Raw
/- `Tins::STP` (src/stp.cpp, include/tins/stp.h): a packed 35-byte `stp_header`; no inner PDU is ever created. -/
namespace Tins.Wire.App

structure Stp where
  h : Bytes        -- `header_` (35 bytes)
deriving Repr, DecidableEq

namespace Stp

def hdrSize : Nat := 35

/-- `STP::STP(const uint8_t* buffer, uint32_t total_sz)`: reads the header, ignores what follows -/
def parse (b : Bytes) : Out (Stp × Inner) := do
  let c := Cursor.ofBytes b
  let (h, _) ← c.read hdrSize
  pure (⟨h⟩, .none)

/- member offsets: proto_id 0, proto_version 2, bpdu_type 3, bpdu_flags 4, root_id 5 (8), root_path_cost 13,
   bridge_id 17 (8), port_id 25, msg_age 27, max_age 29, hello_time 31, fwd_delay 33 -/

/-- `convert(pvt_bpdu_id)` on a little-endian host: first byte = priority (high nibble) | ext_id bits 8–11 (low
    nibble), second byte = ext_id bits 0–7, then the 6 address bytes -/
def idPriority (h : Bytes) (off : Nat) : Nat := getU8 h off / 16
def idExt (h : Bytes) (off : Nat) : Nat := (getU8 h off % 16) * 256 + getU8 h (off + 1)
def idAddr (h : Bytes) (off : Nat) : Bytes := slice h (off + 2) 6

/-- `header_.x_id = convert(bpdu_id_type)`; `priority < 16`, `ext < 4096` (small_uint) -/
def setId (h : Bytes) (off prio ext : Nat) (mac : Bytes) : Bytes :=
  let h := setU8 h off ((prio % 16) * 16 + (ext / 256) % 16)
  let h := setU8 h (off + 1) (ext % 256)
  patch h (off + 2) mac

def fields (s : Stp) : Fields :=
  [("proto_id", toString (getBE s.h 0 2)), ("proto_version", toString (getU8 s.h 2)),
   ("bpdu_type", toString (getU8 s.h 3)), ("bpdu_flags", toString (getU8 s.h 4)),
   ("root_id_priority", toString (idPriority s.h 5)), ("root_id_ext_id", toString (idExt s.h 5)),
   ("root_id_id", hexStr (idAddr s.h 5)),
   ("root_path_cost", toString (getBE s.h 13 4)),
   ("bridge_id_priority", toString (idPriority s.h 17)), ("bridge_id_ext_id", toString (idExt s.h 17)),
   ("bridge_id_id", hexStr (idAddr s.h 17)),
   ("port_id", toString (getBE s.h 25 2)),
   -- `be_to_host(x) / 256`
   ("msg_age", toString (getBE s.h 27 2 / 256)), ("max_age", toString (getBE s.h 29 2 / 256)),
   ("hello_time", toString (getBE s.h 31 2 / 256)), ("fwd_delay", toString (getBE s.h 33 2 / 256))]

def create : Stp := ⟨List.replicate 35 0⟩

def write (_cx : Ctx) (s : Stp) (region : Bytes) : Out Bytes := writeAtStart region s.h

/-- `host_to_be<uint16_t>(v * 256)`: `v` is a `uint16_t`, the product is truncated to 16 bits -/
def setAge (h : Bytes) (off : Nat) (v : String) : Out Bytes := do
  let n ← natArg v
  pure (setBE h off 2 ((n % 65536) * 256))

def setIdArg (h : Bytes) (off : Nat) (p e m : String) : Out Bytes := do
  let p ← natArg p
  let e ← natArg e
  let m ← hexArgN m 6
  pure (setId h off p e m)

/-- the setters, on the raw header struct -/
def applyH (h : Bytes) : List String → Out Bytes
  | ["proto_id", v] => setNum h 0 2 v
  | ["proto_version", v] => setNum h 2 1 v
  | ["bpdu_type", v] => setNum h 3 1 v
  | ["bpdu_flags", v] => setNum h 4 1 v
  | ["root_path_cost", v] => setNum h 13 4 v
  | ["port_id", v] => setNum h 25 2 v
  | ["msg_age", v] => setAge h 27 v
  | ["max_age", v] => setAge h 29 v
  | ["hello_time", v] => setAge h 31 v
  | ["fwd_delay", v] => setAge h 33 v
  | ["root_id", p, e, m] => setIdArg h 5 p e m
  | ["bridge_id", p, e, m] => setIdArg h 17 p e m
  | _ => .throw .stdOther

def apply (s : Stp) (op : List String) : Out Stp := do
  let h ← applyH s.h op
  pure ⟨h⟩

def make : List String → Out Stp
  | [] => .ok create
  | _ => .throw .stdOther

end Stp
end Tins.Wire.App
