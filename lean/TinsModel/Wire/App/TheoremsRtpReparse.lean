import TinsModel.Wire.App.TheoremsRtp
/- RTP, C03: a packet laid out as header ++ CSRC list ++ extension ++ payload ++ padding re-parses to the same object
   and the same payload -/
namespace Tins.Wire.App
open Tins Tins.Wire

/-- values the wire can express: 32-bit CSRC / extension words, 16-bit profile and length, CSRC count field equal to
    the number of stored identifiers -/
structure Rtp.Canon (r : Rtp) : Prop where
  csrc : ∀ w ∈ r.csrc, w < 4294967296
  ext : ∀ w ∈ r.extData, w < 4294967296
  profile : r.extProfile < 65536
  extLen : r.extLength < 65536
  count : r.csrcCount = r.csrc.length
  /-- without the extension bit the (unwritten) extension header is the default one -/
  noExt : r.extensionBit ≠ 1 → r.extProfile = 0 ∧ r.extLength = 0 ∧ r.extData = []

theorem readWords_wordsBytes (ws : List Nat) (hw : ∀ w ∈ ws, w < 4294967296) (rest : Bytes) :
    Rtp.readWords ws.length (Cursor.ofBytes (Rtp.wordsBytes ws ++ rest)) = .ok (ws, Cursor.ofBytes rest) := by
  induction ws with
  | nil => simp [Rtp.readWords, Rtp.wordsBytes]
  | cons w ws ih =>
    simp only [List.length_cons, Rtp.readWords, Rtp.wordsBytes, List.append_assoc]
    have r1 := ofBytes_readBE_append (OutCursor.beBytes 4 w) (Rtp.wordsBytes ws ++ rest)
    rw [OutCursor.beBytes_length] at r1
    simp only [r1, bind, Out.bind, ih (fun x hx => hw x (List.mem_cons_of_mem _ hx)), Out.pure_eq]
    rw [beNat_beBytes, Nat.mod_eq_of_lt (by have := hw w List.mem_cons_self; omega)]

/-- the padding trailer as written: `padding - 1` zero bytes and the count -/
def Rtp.padBytes (r : Rtp) : Bytes :=
  if r.padding > 0 then List.replicate (r.padding - 1) 0 ++ [UInt8.ofNat r.padding] else []

theorem padBytes_length (r : Rtp) : r.padBytes.length = r.padding := by
  unfold Rtp.padBytes; split <;> simp <;> omega

/-- **C03 / RTP**: for every representable packet, parsing its wire image gives back the object and the payload -/
theorem rtp_reparse (r : Rtp) (hi : r.Inv) (hc : r.Canon) (pl : Bytes) :
    Rtp.parse (r.headerBytes ++ (pl ++ r.padBytes)) = .ok (r, if pl.isEmpty then Inner.none else Inner.raw pl) := by
  unfold Rtp.parse Rtp.headerBytes
  simp only [List.append_assoc]
  have r1 := ofBytes_read_append r.h (Rtp.wordsBytes r.csrc ++ (r.extBytes ++ (pl ++ r.padBytes)))
  rw [hi.hlen] at r1
  simp only [r1, bind, Out.bind]
  -- bit-fields are read from the same first bytes
  have hcc : Rtp.csrcCount ⟨r.h, [], 0, 0, [], 0⟩ = r.csrc.length := hc.count
  have hxb : Rtp.extensionBit ⟨r.h, [], 0, 0, [], 0⟩ = r.extensionBit := rfl
  have hpb : Rtp.paddingBit ⟨r.h, [], 0, 0, [], 0⟩ = r.paddingBit := rfl
  rw [hcc, readWords_wordsBytes r.csrc hc.csrc]
  simp only [hxb, hpb]
  -- the extension block
  have hext : Rtp.parseExt (r.extensionBit == 1) (Cursor.ofBytes (r.extBytes ++ (pl ++ r.padBytes)))
      = .ok (r.extProfile, r.extLength, r.extData, Cursor.ofBytes (pl ++ r.padBytes)) := by
    unfold Rtp.parseExt Rtp.extBytes
    cases hx : r.extensionBit == 1 with
    | true =>
      simp only [if_true, List.append_assoc]
      have q1 := ofBytes_readBE_append (OutCursor.beBytes 2 r.extProfile)
        (OutCursor.beBytes 2 r.extLength ++ (Rtp.wordsBytes r.extData ++ (pl ++ r.padBytes)))
      rw [OutCursor.beBytes_length] at q1
      have q2 := ofBytes_readBE_append (OutCursor.beBytes 2 r.extLength) (Rtp.wordsBytes r.extData ++ (pl ++ r.padBytes))
      rw [OutCursor.beBytes_length] at q2
      simp only [q1, q2, bind, Out.bind]
      have hp : Cursor.beNat (OutCursor.beBytes 2 r.extProfile) = r.extProfile := by
        rw [beNat_beBytes]; exact Nat.mod_eq_of_lt (by have := hc.profile; omega)
      have hl : Cursor.beNat (OutCursor.beBytes 2 r.extLength) = r.extLength := by
        rw [beNat_beBytes]; exact Nat.mod_eq_of_lt (by have := hc.extLen; omega)
      rw [hp, hl]
      rw [hi.ext, readWords_wordsBytes r.extData hc.ext]
      simp only [Out.pure_eq, hi.ext]
    | false =>
      have hne : r.extensionBit ≠ 1 := by simpa using hx
      rcases hc.noExt hne with ⟨h1, h2, h3⟩
      simp only [Bool.false_eq_true, if_false, List.nil_append, Out.pure_eq, h1, h2, h3]
  simp only [hext]
  have hpl := padBytes_length r
  have hsz : (Cursor.ofBytes (pl ++ r.padBytes)).size = pl.length + r.padding := by
    simp [Cursor.ofBytes, hpl]
  -- the padding look-ahead
  have hpad : Rtp.parsePadding (r.paddingBit == 1) (Cursor.ofBytes (pl ++ r.padBytes)) = .ok r.padding := by
    unfold Rtp.parsePadding
    cases hp : r.paddingBit == 1 with
    | true =>
      have hpos : r.padding > 0 := hi.padBit.mp (by simpa using hp)
      have hgt : (Cursor.ofBytes (pl ++ r.padBytes)).size > 0 := by rw [hsz]; omega
      simp only [if_true, hgt]
      have hshape : pl ++ r.padBytes = (pl ++ List.replicate (r.padding - 1) 0) ++ [UInt8.ofNat r.padding] := by
        simp only [Rtp.padBytes, hpos, if_true, List.append_assoc]
      have hlen1 : (Cursor.ofBytes (pl ++ r.padBytes)).size - 1 = (pl ++ List.replicate (r.padding - 1) (0 : UInt8)).length := by
        rw [hsz]; simp only [List.length_append, List.length_replicate]; omega
      rw [hlen1, hshape, ofBytes_skip_append]
      simp only [bind, Out.bind]
      have q := ofBytes_readBE_append [UInt8.ofNat r.padding] []
      simp only [List.length_cons, List.length_nil, List.append_nil] at q
      have q' : (Cursor.ofBytes [UInt8.ofNat r.padding]).readU8 = .ok (Cursor.beNat [UInt8.ofNat r.padding], Cursor.ofBytes []) := q
      simp only [q']
      have hv : Cursor.beNat [UInt8.ofNat r.padding] = r.padding := by
        simp [Cursor.beNat, UInt8.toNat_ofNat', Nat.mod_eq_of_lt hi.padLt]
      rw [hv]
      have hnz : (r.padding == 0) = false := by simp; omega
      simp only [hnz, Bool.false_eq_true, if_false, Out.pure_eq]
    | false =>
      have hz : r.padding = 0 := by
        by_cases h0 : r.padding > 0
        · have := hi.padBit.mpr h0; rw [this] at hp; simp at hp
        · omega
      simp only [Bool.false_eq_true, if_false, Out.pure_eq, hz]
  simp only [hpad]
  -- the tail
  unfold Rtp.finish
  simp only [hsz]
  have h1 : ¬ r.padding > pl.length + r.padding := by omega
  simp only [h1, if_false]
  cases pl with
  | nil =>
    simp only [List.length_nil, Nat.zero_add, Nat.lt_irrefl, if_false, List.isEmpty_nil, if_true, Out.pure_eq]
  | cons x xs =>
    have h2 : (x :: xs).length + r.padding > r.padding := by simp
    simp only [h2, if_true]
    have hk : (x :: xs).length + r.padding - r.padding = (x :: xs).length := by omega
    rw [hk, ofBytes_peek_append]
    simp only [bind, Out.bind, Out.pure_eq, List.isEmpty_cons, Bool.false_eq_true, if_false]


/-! ### what the parser produces is representable -/

theorem readWords_bound (n : Nat) (c : Cursor) (hi : c.Inv) (ws : List Nat) (c' : Cursor)
    (h : Rtp.readWords n c = .ok (ws, c')) : ∀ w ∈ ws, w < 4294967296 := by
  induction n generalizing c ws c' with
  | zero => simp only [Rtp.readWords] at h; injection h with h; injection h with h _; subst h; simp
  | succ n ih =>
    unfold Rtp.readWords at h
    rcases readBE_safe c 4 hi with ⟨w, c1, e1, i1, _⟩ | ⟨e1, _⟩
    · simp only [e1, bind, Out.bind] at h
      cases e2 : Rtp.readWords n c1 with
      | ok r =>
        obtain ⟨ws2, c2⟩ := r
        simp only [e2, Out.pure_eq] at h
        injection h with h; injection h with h _; subst h
        intro x hx
        rcases List.mem_cons.mp hx with rfl | hx
        · have := readBE_lt c 4 _ c1 hi e1; omega
        · exact ih c1 i1 ws2 c2 e2 x hx
      | throw e => simp only [e2] at h; cases h
      | fault s => simp only [e2] at h; cases h
    · simp only [e1, bind, Out.bind] at h; cases h

/-- **the parsing constructor yields representable packets** (so `rtp_reparse` applies to everything it accepts) -/
theorem rtp_parse_canon (b : Bytes) (r : Rtp) (i : Inner) (h : Rtp.parse b = .ok (r, i)) : r.Canon := by
  unfold Rtp.parse at h
  rcases Cursor.read_spec (Cursor.ofBytes b) 12 (Cursor.ofBytes_inv b) with ⟨hd, c1, e1, i1, hl, _⟩ | ⟨e1, _⟩
  · simp only [e1, bind, Out.bind] at h
    rcases readWords_safe (Rtp.csrcCount ⟨hd, [], 0, 0, [], 0⟩) c1 i1 with ⟨ws, c2, e2, i2, hwl⟩ | e2
    · simp only [e2] at h
      have hwb := readWords_bound _ c1 i1 ws c2 e2
      cases e3 : Rtp.parseExt (Rtp.extensionBit ⟨hd, [], 0, 0, [], 0⟩ == 1) c2 with
      | ok q =>
        obtain ⟨p, l, e, c3⟩ := q
        simp only [e3] at h
        have i3 : c3.Inv := by
          rcases parseExt_safe (Rtp.extensionBit ⟨hd, [], 0, 0, [], 0⟩ == 1) c2 i2 with ⟨_, _, _, c3', e3', i3', _⟩ | e3'
          · rw [e3] at e3'; injection e3' with e3'; injection e3' with _ e3'; injection e3' with _ e3'; injection e3' with _ e3'
            subst e3'; exact i3'
          · rw [e3] at e3'; cases e3'
        cases e4 : Rtp.parsePadding (Rtp.paddingBit ⟨hd, [], 0, 0, [], 0⟩ == 1) c3 with
        | ok pd =>
          simp only [e4] at h
          have := finish_ok _ _ _ _ h
          subst this
          -- facts about the extension block
          have hext : (Rtp.extensionBit ⟨hd, [], 0, 0, [], 0⟩ ≠ 1 → p = 0 ∧ l = 0 ∧ e = []) ∧ p < 65536 ∧ l < 65536
              ∧ (∀ w ∈ e, w < 4294967296) := by
            unfold Rtp.parseExt at e3
            cases hx : (Rtp.extensionBit ⟨hd, [], 0, 0, [], 0⟩ == 1) with
            | true =>
              simp only [hx, if_true] at e3
              rcases readBE_safe c2 2 i2 with ⟨p', c21, q1, j1, _⟩ | ⟨q1, _⟩
              · simp only [q1, bind, Out.bind] at e3
                rcases readBE_safe c21 2 j1 with ⟨l', c22, q2, j2, _⟩ | ⟨q2, _⟩
                · simp only [q2] at e3
                  cases q3 : Rtp.readWords l' c22 with
                  | ok rr =>
                    obtain ⟨e', c23⟩ := rr
                    simp only [q3, Out.pure_eq] at e3
                    injection e3 with e3; injection e3 with hp e3; injection e3 with hl' e3; injection e3 with he _
                    subst hp; subst hl'; subst he
                    refine ⟨fun hne => absurd (by simpa using hx) hne, ?_, ?_, readWords_bound _ c22 j2 _ _ q3⟩
                    · have := readBE_lt c2 2 _ c21 i2 q1; omega
                    · have := readBE_lt c21 2 _ c22 j1 q2; omega
                  | throw x => simp only [q3] at e3; cases e3
                  | fault s => simp only [q3] at e3; cases e3
                · simp only [q2] at e3; cases e3
              · simp only [q1, bind, Out.bind] at e3; cases e3
            | false =>
              simp only [hx, Bool.false_eq_true, if_false, Out.pure_eq] at e3
              injection e3 with e3; injection e3 with hp e3; injection e3 with hl' e3; injection e3 with he _
              subst hp; subst hl'; subst he
              exact ⟨fun _ => ⟨rfl, rfl, rfl⟩, by omega, by omega, by simp⟩
          exact ⟨hwb, hext.2.2.2, hext.2.1, hext.2.2.1, hwl.symm, hext.1⟩
        | throw x => simp only [e4] at h; cases h
        | fault s => simp only [e4] at h; cases h
      | throw x => simp only [e3] at h; cases h
      | fault s => simp only [e3] at h; cases h
    · simp only [e2] at h; cases h
  · simp only [e1, bind, Out.bind] at h; cases h

end Tins.Wire.App
