import TinsModel.Gen.Tags
/- look-ups over the generated next-protocol tables -/
namespace Tins.Wire.Tags
open Tins.Gen.Tags

def assocNat (t : List (Nat × String)) (k : Nat) : Option String := (t.find? (·.1 == k)).map (·.2)
def assocStr (t : List (String × Nat)) (k : String) : Option Nat := (t.find? (·.1 == k)).map (·.2)

/-- PDUType enumerator name of a class ("UNKNOWN" when the class has none) -/
def pduTypeOf (cls : String) : String := ((classPduType.find? (·.1 == cls)).map (·.2)).getD "UNKNOWN"

/-- `Internals::pdu_from_flag(Constants::Ethernet::e flag, …)` with `rawpdu_on_no_match = true` -/
def classOfEther (flag : Nat) : Option String := assocNat etherToClass flag

/-- `Internals::pdu_from_flag(Constants::IP::e flag, …)` -/
def classOfIpProto (flag : Nat) : Option String := assocNat ipProtoToClass flag

/-- `Internals::pdu_flag_to_ether_type(PDUType)`; 0 = `Constants::Ethernet::UNKNOWN` -/
def etherOfPduType (t : String) : Nat := (assocStr pduTypeToEther t).getD 0

/-- `Internals::pdu_flag_to_ip_type(PDUType)` -/
def ipProtoOfPduType (t : String) : Nat := (assocStr pduTypeToIpProto t).getD pduTypeToIpProtoDefault

end Tins.Wire.Tags
