import TinsModel.Dns.Names
import TinsModel.Dns.Safety
/-
  `compose_name` against RFC 1035 name resolution (`Resolves`): whatever it returns is a resolution of the name
  (soundness), so a pointer loop or a pointer outside the message can only end in an exception.
-/
namespace Tins.Dns
open Out

theorem rd_ok_iff {buf : Bytes} {i v : Nat} (h : rd buf i = ok v) : ∃ b : UInt8, buf[i]? = some b ∧ b.toNat = v := by
  unfold rd at h
  cases hb : buf[i]? with
  | none => rw [hb] at h; cases h
  | some b => rw [hb] at h; cases h; exact ⟨b, rfl, rfl⟩

theorem u8_ofNat_toNat_self (b : UInt8) : UInt8.ofNat b.toNat = b := by
  apply UInt8.toNat_inj.1
  rw [UInt8.toNat_ofNat']
  exact Nat.mod_eq_of_lt (u8_toNat_lt b)

/-- soundness of `compose_name`: a returned name is an RFC 1035 resolution reached with at most 31 - `counter`
    further jumps, and the output buffer received exactly its labels -/
theorem composeName_sound (recs : Bytes) : ∀ (fuel p : Nat) (out : Bytes) (c : Nat) (e : Option Nat) (r : Bytes × Nat),
    c ≤ 31 → composeName recs fuel p out c e = ok r →
    ∃ n j, Resolves recs p n j ∧ r.1 = appendName out n ∧ c + j ≤ 31
  | 0, _, _, _, _, _, _, h => by simp [composeName] at h
  | f + 1, p, out, c, e, r, hc, h => by
    unfold composeName at h
    split at h
    · cases h
    · rename_i hp
      cases hv : rd recs p with
      | fault s => rw [hv] at h; cases h
      | throw x => rw [hv] at h; cases h
      | ok v =>
        rw [hv] at h; simp only [Out.ok_bind] at h
        obtain ⟨b, hb, hbv⟩ := rd_ok_iff hv
        split at h
        · -- terminator
          rename_i hv0
          cases ho : outPut out [0] with
          | fault s => rw [ho] at h; cases h
          | throw x => rw [ho] at h; cases h
          | ok o =>
            rw [ho] at h; simp only [Out.ok_bind] at h
            cases h
            have hb0 : b = 0 := by
              apply UInt8.toNat_inj.1; rw [hbv, hv0]; rfl
            exact ⟨[], 0, Resolves.root (by rw [hb, hb0]), rfl, by omega⟩
        · rename_i hv0
          split at h
          · -- pointer
            rename_i hv3
            split at h
            · cases h
            · split at h
              · cases h
              · rename_i hcnt hp2
                cases hlo : rd recs (p + 1) with
                | fault s => rw [hlo] at h; cases h
                | throw x => rw [hlo] at h; cases h
                | ok lo =>
                  rw [hlo] at h; simp only [Out.ok_bind] at h
                  obtain ⟨bl, hbl, hblv⟩ := rd_ok_iff hlo
                  split at h
                  · cases h
                  · rename_i hidx
                    obtain ⟨n, j, hres, hout, hj⟩ := composeName_sound recs f _ out (c + 1) _ r (by omega) h
                    refine ⟨n, j + 1, Resolves.pointer b bl hb hbl (by rw [hbv]; exact hv3) ?_ ?_, hout, by omega⟩
                    · rw [hbv, hblv]; omega
                    · rw [hbv, hblv]; exact hres
          · split at h
            · cases h
            · split at h
              · cases h
              · rename_i hv64 hchk
                cases hd : dotOut out with
                | fault s => rw [hd] at h; cases h
                | throw x => rw [hd] at h; cases h
                | ok out1 =>
                  rw [hd] at h; simp only [Out.ok_bind] at h
                  cases hl : rdN recs (p + 1) v with
                  | fault s => rw [hl] at h; cases h
                  | throw x => rw [hl] at h; cases h
                  | ok label =>
                    rw [hl] at h; simp only [Out.ok_bind] at h
                    cases ho2 : outPut out1 label with
                    | fault s => rw [ho2] at h; cases h
                    | throw x => rw [ho2] at h; cases h
                    | ok out2 =>
                      rw [ho2] at h; simp only [Out.ok_bind] at h
                      obtain ⟨n, j, hres, hout, hj⟩ := composeName_sound recs f _ out2 c e r hc h
                      have hlabel : label = (recs.drop (p + 1)).take v ∧ p + 1 + v ≤ recs.length := by
                        unfold rdN at hl
                        split at hl
                        · cases hl; exact ⟨rfl, by omega⟩
                        · cases hl
                      have hlen : label.length = v := by
                        rw [hlabel.1, List.length_take, List.length_drop]; omega
                      have hout1 : out1 = if out.length ≠ 0 then out ++ [46] else out := by
                        unfold dotOut at hd
                        split at hd
                        · rename_i hne
                          unfold outPut at hd
                          split at hd
                          · cases hd; rw [if_pos hne]
                          · cases hd
                        · rename_i hne
                          cases hd; rw [if_neg hne]
                      have hout2 : out2 = out1 ++ label := by
                        unfold outPut at ho2
                        split at ho2
                        · cases ho2; rfl
                        · cases ho2
                      refine ⟨label :: n, j, Resolves.label v label ?_ (by omega) (by omega) hlen hlabel.1.symm hlabel.2 hres,
                        ?_, hj⟩
                      · rw [hb, ← hbv, u8_ofNat_toNat_self]
                      · rw [hout, appendName, hout2, hout1]

/-- a name that has no RFC 1035 resolution — a pointer loop, a pointer outside the message, a label running past the
    end, a reserved label type — is never returned: `compose_name` reports an error (and does not fault) -/
theorem composeName_rejects (recs : Bytes) (p : Nat) (h : ¬ ∃ n j, Resolves recs p n j) :
    ∃ x, composeName recs composeFuel p [] 0 none = throw x := by
  have hs := composeName_init_sat recs p
  cases hc : composeName recs composeFuel p [] 0 none with
  | fault s => rw [hc] at hs; exact hs.elim
  | throw x => exact ⟨x, rfl⟩
  | ok r =>
    obtain ⟨n, j, hres, _, _⟩ := composeName_sound recs composeFuel p [] 0 none r (by omega) hc
    exact (h ⟨n, j, hres⟩).elim

/-- a pointer that points at itself has no resolution -/
theorem no_resolution_self_pointer (recs : Bytes) (p : Nat) (hi lo : UInt8) (h0 : recs[p]? = some hi) (h1 : recs[p + 1]? = some lo)
    (h3 : hi.toNat / 64 = 3) (hself : hi.toNat % 64 * 256 + lo.toNat - 12 = p) : ¬ ∃ n j, Resolves recs p n j := by
  rintro ⟨n, j, hr⟩
  induction j generalizing n with
  | zero =>
    cases hr with
    | root h => rw [h0] at h; cases h; simp at h3
    | label len l hb h1' h2' =>
      rw [h0] at hb; cases hb
      rw [u8_ofNat_toNat (by omega)] at h3; omega
  | succ j ih =>
    cases hr with
    | label len l hb h1' h2' _ _ _ hsub =>
      rw [h0] at hb; cases hb
      rw [u8_ofNat_toNat (by omega)] at h3; omega
    | pointer hi' lo' hb0 hb1 h3' h12 hsub =>
      rw [h0] at hb0; cases hb0
      rw [h1] at hb1; cases hb1
      rw [hself] at hsub
      exact ih n hsub

/-- every resolution starts inside the records -/
theorem Resolves.lt_length {recs : Bytes} {p : Nat} {n : Name} {j : Nat} (h : Resolves recs p n j) : p < recs.length := by
  have hget : ∃ b, recs[p]? = some b := by
    cases h with
    | root h0 => exact ⟨_, h0⟩
    | label len l hb => exact ⟨_, hb⟩
    | pointer hi lo h0 => exact ⟨_, h0⟩
  obtain ⟨b, hb⟩ := hget
  rcases Nat.lt_or_ge p recs.length with hx | hx
  · exact hx
  · rw [List.getElem?_eq_none hx] at hb; cases hb

/-- a pointer whose offset is inside the 12-byte header or at / after the end of the message has no resolution -/
theorem no_resolution_oob_pointer (recs : Bytes) (p : Nat) (hi lo : UInt8) (h0 : recs[p]? = some hi)
    (h1 : recs[p + 1]? = some lo) (h3 : hi.toNat / 64 = 3)
    (hoob : hi.toNat % 64 * 256 + lo.toNat < 12 ∨ recs.length + 12 ≤ hi.toNat % 64 * 256 + lo.toNat) :
    ¬ ∃ n j, Resolves recs p n j := by
  rintro ⟨n, j, hr⟩
  cases hr with
  | root h => rw [h0] at h; cases h; simp at h3
  | label len l hb h1' h2' =>
    rw [h0] at hb; cases hb
    rw [u8_ofNat_toNat (by omega)] at h3; omega
  | pointer hi' lo' hb0 hb1 h3' h12 hsub =>
    rw [h0] at hb0; cases hb0
    rw [h1] at hb1; cases hb1
    have := hsub.lt_length
    omega

end Tins.Dns
