import TinsModel.Dns.EditAny
/-
  The Lean reference compressor (`compressName`, `Spec.lean`): what it writes for a name is a name site that resolves to
  the name, whose pointer (if it ends in one) designates a label boundary of an earlier name site, and every suffix it
  enters into the table is such a label boundary.
-/
namespace Tins.Dns
open Out

/-! ### facts about a buffer survive appending octets -/

theorem getElem?_append_some {buf ext : Bytes} {i : Nat} {b : UInt8} (h : buf[i]? = some b) : (buf ++ ext)[i]? = some b := by
  rw [List.getElem?_append_left (getElem?_lt_length h)]; exact h

theorem NameSite.append {buf : Bytes} {p x e : Nat} (h : NameSite buf p x e) (ext : Bytes) : NameSite (buf ++ ext) p x e := by
  induction h with
  | zero h0 => exact NameSite.zero (getElem?_append_some h0)
  | ptr hi lo h0 h1 h3 => exact NameSite.ptr hi lo (getElem?_append_some h0) (getElem?_append_some h1) h3
  | label len hb h1 h2 _ ih => exact NameSite.label len (getElem?_append_some hb) h1 h2 ih

theorem Resolves.append {buf : Bytes} {p : Nat} {n : Name} {j : Nat} (h : Resolves buf p n j) (ext : Bytes) :
    Resolves (buf ++ ext) p n j := by
  induction h with
  | root h0 => exact Resolves.root (getElem?_append_some h0)
  | @label p n j len l hb h1 h2 h3 h4 h5 _ ih =>
    refine Resolves.label len l (getElem?_append_some hb) h1 h2 h3 ?_ (by rw [List.length_append]; omega) ih
    rw [List.drop_append_of_le_length (by omega), List.take_append_of_le_length (by rw [List.length_drop]; omega)]
    exact h4
  | pointer hi lo h0 h1 h3 h12 _ ih =>
    exact Resolves.pointer hi lo (getElem?_append_some h0) (getElem?_append_some h1) h3 h12 ih

theorem ptrAt_append {buf : Bytes} {x : Nat} (h : x + 2 ≤ buf.length) (ext : Bytes) : ptrAt (buf ++ ext) x = ptrAt buf x :=
  ptrAt_congr (List.getElem?_append_left (by omega)) (List.getElem?_append_left (by omega))

/-! ### the suffix table -/

theorem lookup'_mem : ∀ (t : CTable) (n : Name) (off : Nat), t.lookup' n = some off → (n, off) ∈ t
  | [], _, _, h => by simp [CTable.lookup'] at h
  | (k, v) :: r, n, off, h => by
    unfold CTable.lookup' at h
    split at h
    · rename_i hk
      cases h
      subst hk
      exact List.mem_cons_self
    · exact List.mem_cons_of_mem _ (lookup'_mem r n off h)

theorem lookup'_append_none : ∀ (t pend : CTable) (n : Name), (∀ k off, (k, off) ∈ pend → k ≠ n) →
    CTable.lookup' (t ++ pend) n = CTable.lookup' t n
  | [], pend, n, h => by
    induction pend with
    | nil => rfl
    | cons a r ih =>
      obtain ⟨k, v⟩ := a
      simp only [List.nil_append] at ih ⊢
      unfold CTable.lookup'
      rw [if_neg (h k v List.mem_cons_self)]
      rw [ih (fun k' off' hm => h k' off' (List.mem_cons_of_mem _ hm))]
      rfl
  | (k, v) :: r, pend, n, h => by
    rw [List.cons_append]
    unfold CTable.lookup'
    split
    · rfl
    · exact lookup'_append_none r pend n h

/-- what a table entry `(k, off)` promises, for the octets `buf` written so far and the name sites `ss` among them -/
structure TEntry (buf : Bytes) (ss : List Site) (k : Name) (off : Nat) : Prop where
  ne : k ≠ []
  lo : 12 ≤ off
  hi : off < 16384
  site : ∃ σ ∈ ss, σ.s ≤ off - 12 ∧ NameSite buf (off - 12) σ.x σ.e
  res : ∃ j, Resolves buf (off - 12) k j ∧ j + 1 ≤ k.length

def TOk (buf : Bytes) (ss : List Site) (t : CTable) : Prop := ∀ k off, (k, off) ∈ t → TEntry buf ss k off

theorem TEntry.mono {buf : Bytes} {ss : List Site} {k : Name} {off : Nat} (h : TEntry buf ss k off) (ext : Bytes)
    (ss' : List Site) : TEntry (buf ++ ext) (ss ++ ss') k off := by
  obtain ⟨σ, hσ, hs, hn⟩ := h.site
  obtain ⟨j, hr, hj⟩ := h.res
  exact ⟨h.ne, h.lo, h.hi, ⟨σ, List.mem_append_left _ hσ, hs, hn.append ext⟩, ⟨j, hr.append ext, hj⟩⟩

theorem TOk.mono {buf : Bytes} {ss : List Site} {t : CTable} (h : TOk buf ss t) (ext : Bytes) (ss' : List Site) :
    TOk (buf ++ ext) (ss ++ ss') t := fun k off hm => (h k off hm).mono ext ss'

/-- the pointer that ends a name site written by the compressor: backwards, to a label boundary of an earlier site -/
def PtrBack (buf : Bytes) (ss : List Site) (lim : Nat) (σ : Site) : Prop :=
  σ.e = σ.x + 2 → 12 ≤ ptrAt buf σ.x ∧ ptrAt buf σ.x - 12 < lim ∧
    ∃ τ ∈ ss, τ.s ≤ ptrAt buf σ.x - 12 ∧ NameSite buf (ptrAt buf σ.x - 12) τ.x τ.e

theorem slice_after (buf : Bytes) (a : UInt8) (l c : Bytes) :
    ((buf ++ (a :: (l ++ c))).drop (buf.length + 1)).take l.length = l := by
  have h1 : (buf ++ (a :: (l ++ c))).drop (buf.length + 1) = l ++ c := by
    rw [show buf ++ (a :: (l ++ c)) = (buf ++ [a]) ++ (l ++ c) by simp,
      show buf.length + 1 = (buf ++ [a]).length by simp, List.drop_left]
  rw [h1, List.take_left]

theorem u8_192 {off : Nat} (h : off < 16384) :
    (UInt8.ofNat (192 + off / 256)).toNat / 64 = 3 ∧
    (UInt8.ofNat (192 + off / 256)).toNat % 64 * 256 + (UInt8.ofNat (off % 256)).toNat = off := by
  rw [u8_ofNat_toNat (by omega), u8_ofNat_toNat (by omega)]
  omega

/-- **`compressName`** at the end of `buf`, with a table whose old part `t` is sound and whose pending part `pend`
    (the longer suffixes of the name being written) is never hit -/
theorem compressName_spec (lim : Nat) : ∀ (n : Name) (t pend : CTable) (buf : Bytes) (ss : List Site),
    LabelsOk n → TOk buf ss t → (∀ k off, (k, off) ∈ t → off - 12 < lim) →
    (∀ k off, (k, off) ∈ pend → n.length < k.length) →
    ∃ x added, (compressName (t ++ pend) buf.length n).2 = t ++ pend ++ added ∧
      NameSite (buf ++ (compressName (t ++ pend) buf.length n).1) buf.length x
        (buf.length + (compressName (t ++ pend) buf.length n).1.length) ∧
      (∃ j, Resolves (buf ++ (compressName (t ++ pend) buf.length n).1) buf.length n j ∧ j ≤ n.length) ∧
      PtrBack (buf ++ (compressName (t ++ pend) buf.length n).1) ss lim
        ⟨buf.length, x, buf.length + (compressName (t ++ pend) buf.length n).1.length⟩ ∧
      (∀ k off, (k, off) ∈ added → k ≠ [] ∧ 12 ≤ off ∧ off < 16384 ∧ buf.length ≤ off - 12 ∧ k.length ≤ n.length ∧
        NameSite (buf ++ (compressName (t ++ pend) buf.length n).1) (off - 12) x
          (buf.length + (compressName (t ++ pend) buf.length n).1.length) ∧
        ∃ j, Resolves (buf ++ (compressName (t ++ pend) buf.length n).1) (off - 12) k j ∧ j + 1 ≤ k.length) ∧
      (compressName (t ++ pend) buf.length n).1.length ≤ (wireName n).length
  | [], t, pend, buf, ss, _, _, _, _ => by
    refine ⟨buf.length, [], by simp [compressName], ?_, ⟨0, ?_, Nat.le_refl _⟩, ?_, ?_, by simp [compressName]⟩
    · simp only [compressName]
      exact (NameSite.zero (by simp)).cast rfl rfl (by simp)
    · simp only [compressName]
      exact Resolves.root (by simp)
    · intro he; simp only [compressName, List.length_cons, List.length_nil] at he; omega
    · intro k off hm; cases hm
  | l :: r, t, pend, buf, ss, hok, ht, hlim, hp => by
    have hl := hok.head
    have hlook : CTable.lookup' (t ++ pend) (l :: r) = CTable.lookup' t (l :: r) :=
      lookup'_append_none t pend _ (fun k off hm hk => by have := hp k off hm; rw [hk] at this; omega)
    cases hlk : CTable.lookup' t (l :: r) with
    | some off =>
      have hent := ht _ _ (lookup'_mem t _ off hlk)
      have hb : compressName (t ++ pend) buf.length (l :: r) =
          ([UInt8.ofNat (192 + off / 256), UInt8.ofNat (off % 256)], t ++ pend) := by
        rw [compressName, hlook, hlk]
      rw [hb]
      obtain ⟨h3, hval⟩ := u8_192 hent.hi
      have g0 : (buf ++ [UInt8.ofNat (192 + off / 256), UInt8.ofNat (off % 256)])[buf.length]? =
          some (UInt8.ofNat (192 + off / 256)) := by simp
      have g1 : (buf ++ [UInt8.ofNat (192 + off / 256), UInt8.ofNat (off % 256)])[buf.length + 1]? =
          some (UInt8.ofNat (off % 256)) := by simp
      have hpa : ptrAt (buf ++ [UInt8.ofNat (192 + off / 256), UInt8.ofNat (off % 256)]) buf.length = off := by
        rw [ptrAt_of_some g0 g1]; exact hval
      obtain ⟨σ, hσ, hs, hn⟩ := hent.site
      obtain ⟨j, hr, hj⟩ := hent.res
      refine ⟨buf.length, [], by simp, NameSite.ptr _ _ g0 g1 h3, ⟨j + 1, ?_, by simp only [List.length_cons] at hj ⊢; omega⟩,
        ?_, ?_, ?_⟩
      · refine Resolves.pointer _ _ g0 g1 h3 (by rw [hval]; exact hent.lo) ?_
        rw [hval]; exact hr.append _
      · intro _
        dsimp only
        rw [hpa]
        exact ⟨hent.lo, hlim _ _ (lookup'_mem t _ off hlk), σ, hσ, hs, hn.append _⟩
      · intro k off' hm; cases hm
      · simp only [List.length_cons, List.length_nil, wireName_cons, List.length_append]
        have := wireName_length_pos r
        omega
    | none =>
      -- the label is written out; the suffix is entered (if its offset fits 14 bits) and the rest follows
      have hpend' : ∀ (e : CTable), (∀ k off, (k, off) ∈ e → k = l :: r) →
          ∀ k off, (k, off) ∈ pend ++ e → r.length < k.length := by
        intro e he k off hm
        rcases List.mem_append.1 hm with hm | hm
        · have := hp k off hm; simp only [List.length_cons] at this; omega
        · rw [he k off hm]; simp
      have hbuf1 : (buf ++ (UInt8.ofNat l.length :: l)).length = buf.length + 1 + l.length := by
        simp only [List.length_append, List.length_cons]; omega
      have ht1 : TOk (buf ++ (UInt8.ofNat l.length :: l)) ss t := by
        have := ht.mono (UInt8.ofNat l.length :: l) []
        rwa [List.append_nil] at this
      -- the recursive call, for either shape of the table
      have key : ∀ (e : CTable), (∀ k off, (k, off) ∈ e → k = l :: r ∧ off = buf.length + 12 ∧ off < 16384) →
          compressName (t ++ pend) buf.length (l :: r) =
            (UInt8.ofNat l.length :: l ++ (compressName (t ++ pend ++ e) (buf.length + 1 + l.length) r).1,
             (compressName (t ++ pend ++ e) (buf.length + 1 + l.length) r).2) →
          ∃ x added, (compressName (t ++ pend) buf.length (l :: r)).2 = t ++ pend ++ added ∧
            NameSite (buf ++ (compressName (t ++ pend) buf.length (l :: r)).1) buf.length x
              (buf.length + (compressName (t ++ pend) buf.length (l :: r)).1.length) ∧
            (∃ j, Resolves (buf ++ (compressName (t ++ pend) buf.length (l :: r)).1) buf.length (l :: r) j ∧
              j ≤ (l :: r).length) ∧
            PtrBack (buf ++ (compressName (t ++ pend) buf.length (l :: r)).1) ss lim
              ⟨buf.length, x, buf.length + (compressName (t ++ pend) buf.length (l :: r)).1.length⟩ ∧
            (∀ k off, (k, off) ∈ added → k ≠ [] ∧ 12 ≤ off ∧ off < 16384 ∧ buf.length ≤ off - 12 ∧
              k.length ≤ (l :: r).length ∧
              NameSite (buf ++ (compressName (t ++ pend) buf.length (l :: r)).1) (off - 12) x
                (buf.length + (compressName (t ++ pend) buf.length (l :: r)).1.length) ∧
              ∃ j, Resolves (buf ++ (compressName (t ++ pend) buf.length (l :: r)).1) (off - 12) k j ∧ j + 1 ≤ k.length) ∧
            (compressName (t ++ pend) buf.length (l :: r)).1.length ≤ (wireName (l :: r)).length := by
        intro e he heq
        have ih := compressName_spec lim r t (pend ++ e) (buf ++ (UInt8.ofNat l.length :: l)) ss hok.tail ht1 hlim
          (hpend' e (fun k off hm => (he k off hm).1))
        rw [hbuf1, ← List.append_assoc] at ih
        obtain ⟨x, added, e1, e2, ⟨j, e3, e3j⟩, e4, e5, e6⟩ := ih
        rw [heq]
        dsimp only
        have hcat : buf ++ (UInt8.ofNat l.length :: l ++ (compressName (t ++ pend ++ e) (buf.length + 1 + l.length) r).1) =
            buf ++ (UInt8.ofNat l.length :: l) ++ (compressName (t ++ pend ++ e) (buf.length + 1 + l.length) r).1 := by
          simp only [List.append_assoc, List.cons_append]
        have hlen : buf.length + (UInt8.ofNat l.length :: l ++
            (compressName (t ++ pend ++ e) (buf.length + 1 + l.length) r).1).length =
            buf.length + 1 + l.length + (compressName (t ++ pend ++ e) (buf.length + 1 + l.length) r).1.length := by
          simp only [List.length_append, List.length_cons]; omega
        rw [hcat, hlen]
        have hget : (buf ++ (UInt8.ofNat l.length :: l) ++
            (compressName (t ++ pend ++ e) (buf.length + 1 + l.length) r).1)[buf.length]? = some (UInt8.ofNat l.length) := by
          rw [List.append_assoc, List.getElem?_append_right (Nat.le_refl _)]
          simp
        have hsite : NameSite (buf ++ (UInt8.ofNat l.length :: l) ++
            (compressName (t ++ pend ++ e) (buf.length + 1 + l.length) r).1) buf.length x
            (buf.length + 1 + l.length + (compressName (t ++ pend ++ e) (buf.length + 1 + l.length) r).1.length) :=
          NameSite.label l.length hget hl.1 hl.2.1 e2
        have hres : Resolves (buf ++ (UInt8.ofNat l.length :: l) ++
            (compressName (t ++ pend ++ e) (buf.length + 1 + l.length) r).1) buf.length (l :: r) j := by
          refine Resolves.label l.length l hget hl.1 hl.2.1 rfl ?_ ?_ e3
          · rw [List.append_assoc, List.cons_append]
            exact slice_after _ _ _ _
          · simp only [List.length_append, List.length_cons]; omega
        refine ⟨x, e ++ added, by rw [e1]; simp only [List.append_assoc], hsite, ⟨j, hres, by simp only [List.length_cons]; omega⟩,
          ?_, ?_, ?_⟩
        · intro hx
          exact e4 hx
        · intro k off hm
          rcases List.mem_append.1 hm with hm | hm
          · obtain ⟨rfl, rfl, hfit⟩ := he k off hm
            refine ⟨by simp, by omega, hfit, by omega, Nat.le_refl _, ?_, ⟨j, ?_, by simp only [List.length_cons]; omega⟩⟩
            · rw [show buf.length + 12 - 12 = buf.length by omega]; exact hsite
            · rw [show buf.length + 12 - 12 = buf.length by omega]; exact hres
          · obtain ⟨b1, b2, b3, b4, b5, b6, b7⟩ := e5 k off hm
            exact ⟨b1, b2, b3, by omega, by simp only [List.length_cons]; omega, b6, b7⟩
        · simp only [List.length_append, List.length_cons, wireName_cons] at e6 ⊢
          omega
      by_cases hfit : buf.length + 12 < 16384
      · refine key [(l :: r, buf.length + 12)] ?_ ?_
        · intro k off hm
          simp only [List.mem_cons, List.not_mem_nil, or_false, Prod.mk.injEq] at hm
          exact ⟨hm.1, hm.2, by rw [hm.2]; exact hfit⟩
        · rw [compressName, hlook, hlk]
          simp only [if_pos hfit, List.append_assoc]
      · refine key [] (fun k off hm => by cases hm) ?_
        rw [compressName, hlook, hlk]
        simp only [if_neg hfit, List.append_nil]

end Tins.Dns
