import TinsModel.Dns.EditWf
/-
  ANY insertion (whatever the inserted record / question looks like) into a well-formed stored message: it succeeds
  while the message stays below 16 KiB, and every stored name — every question name, owner name and data name of
  every record — resolves to the same labels and is read as the same text by `compose_name` afterwards.
-/
namespace Tins.Dns
open Out

namespace Ins
variable {m : Msg} {L : Layout} {t k : Nat} {d' : Bytes}

theorem resolves_sh (h : Ins m L t k d') {σ : Site} (hσ : σ ∈ L.sites) {n : Name} {j : Nat}
    (hr : Resolves m.recs σ.s n j) : Resolves d' (shift t k σ.s) n j :=
  resolves_shifted h.sh (h.ok.via hr σ hσ (Nat.le_refl _) (h.ok.site σ hσ))

theorem compose_sh (h : Ins m L t k d') {σ : Site} (hσ : σ ∈ L.sites) :
    composeName d' composeFuel (shift t k σ.s) [] 0 none = .ok (nameAt m.recs σ.s, shift t k σ.s + (σ.e - σ.s)) := by
  have hlt := (h.ok.site σ hσ).lt
  unfold shift
  rcases h.ok.side σ hσ with hs | hs
  · rw [if_pos (show σ.s < t by omega), h.name_lo hσ hs, show σ.s + (σ.e - σ.s) = σ.e by omega]
  · rw [if_neg (show ¬ σ.s < t by omega), h.name_hi hσ hs, show σ.s + k + (σ.e - σ.s) = σ.e + k by omega]

end Ins

/-- `add_answer` / `add_authority` / `add_additional` with ANY argument on a well-formed message -/
theorem addRecord_ins {m : Msg} {L : Layout} (h : WFL m L) (sec : Section) {r : NewRec} {bytes : Bytes}
    (hb : recordBytes r = ok bytes) (hsz : m.recs.length + 12 + bytes.length ≤ 16384) :
    ∃ m', addRecord m sec r = ok m' ∧ Ins m L (insPoint m sec) bytes.length m'.recs ∧
      m'.recs.length = m.recs.length + bytes.length := by
  unfold addRecord
  rw [hb]
  simp only [Out.ok_bind]
  cases sec with
  | answer =>
    obtain ⟨d1, d2, h1, h2, hu⟩ := h.upd_ui hsz
    obtain ⟨d3, hd3, _, I, hlen⟩ := h.ins_of_upd (Or.inr (Or.inl rfl)) hu bytes rfl
    dsimp only
    rw [h1]; simp only [Out.ok_bind]
    rw [h2]; simp only [Out.ok_bind]
    rw [hd3]; simp only [Out.ok_bind]
    exact ⟨_, rfl, I, hlen⟩
  | authority =>
    obtain ⟨d1, h1, hu⟩ := h.upd_di hsz
    obtain ⟨d3, hd3, _, I, hlen⟩ := h.ins_of_upd (Or.inr (Or.inr (Or.inl rfl))) hu bytes rfl
    dsimp only
    rw [h1]; simp only [Out.ok_bind]
    rw [hd3]; simp only [Out.ok_bind]
    exact ⟨_, rfl, I, hlen⟩
  | additional =>
    obtain ⟨d3, hd3, _, I, hlen⟩ := h.ins_of_upd (Or.inr (Or.inr (Or.inr rfl))) (h.upd_len bytes.length) bytes rfl
    dsimp only
    rw [hd3]; simp only [Out.ok_bind]
    exact ⟨_, rfl, I, hlen⟩

/-- `add_query` with ANY argument whose type / class are values of the enums -/
theorem addQuery_ins {m : Msg} {L : Layout} (h : WFL m L) {q : Query} (he : q.type < 64 ∧ q.cls < 256)
    (hsz : m.recs.length + 12 + (encodeDomainName q.name ++ be16 q.type ++ be16 q.cls).length ≤ 16384) :
    ∃ m', addQuery m q = ok m' ∧ Ins m L m.ai (encodeDomainName q.name ++ be16 q.type ++ be16 q.cls).length m'.recs ∧
      m'.recs.length = m.recs.length + (encodeDomainName q.name ++ be16 q.type ++ be16 q.cls).length := by
  unfold addQuery enumLoad
  rw [if_pos he]
  simp only [Out.ok_bind]
  obtain ⟨d1, d2, d3, h1, h2, h3, hu⟩ := h.upd_ai hsz
  obtain ⟨d4, hd4, _, I, hlen⟩ := h.ins_of_upd (Or.inl rfl) hu _ rfl
  rw [h1]; simp only [Out.ok_bind]
  rw [h2]; simp only [Out.ok_bind]
  rw [h3]; simp only [Out.ok_bind]
  rw [hd4]; simp only [Out.ok_bind]
  exact ⟨_, rfl, I, hlen⟩

end Tins.Dns
