import TinsModel.Dns.Lemmas
/-
  Names: the textual form and the wire form of a legal name, and how the walkers of the model
  (`encode_domain_name`, `compose_name`, `skip_to_dname_end`, `update_dname`) behave on an uncompressed wire name.
-/
namespace Tins.Dns
open Out

/-- every label has 1..63 octets, none of them '.' or NUL -/
def LabelsOk (n : Name) : Prop := ∀ l ∈ n, 1 ≤ l.length ∧ l.length ≤ 63 ∧ (∀ c ∈ l, c ≠ 46 ∧ c ≠ 0)

theorem legalLabel_iff (l : Label) : legalLabel l = true ↔ 1 ≤ l.length ∧ l.length ≤ 63 ∧ (∀ c ∈ l, c ≠ 46 ∧ c ≠ 0) := by
  unfold legalLabel
  simp only [Bool.and_eq_true, decide_eq_true_eq, List.all_eq_true, bne_iff_ne, ne_eq]
  constructor
  · rintro ⟨⟨h1, h2⟩, h3⟩; exact ⟨h1, h2, h3⟩
  · rintro ⟨h1, h2, h3⟩; exact ⟨⟨h1, h2⟩, h3⟩

theorem legalName_iff (n : Name) : legalName n = true ↔ LabelsOk n ∧ (wireName n).length ≤ 255 := by
  unfold legalName LabelsOk
  simp only [Bool.and_eq_true, List.all_eq_true, decide_eq_true_eq]
  constructor
  · rintro ⟨h1, h2⟩; exact ⟨fun l hl => (legalLabel_iff l).1 (h1 l hl), h2⟩
  · rintro ⟨h1, h2⟩; exact ⟨fun l hl => (legalLabel_iff l).2 (h1 l hl), h2⟩

theorem LabelsOk.tail {l : Label} {n : Name} (h : LabelsOk (l :: n)) : LabelsOk n :=
  fun x hx => h x (List.mem_cons_of_mem _ hx)

theorem LabelsOk.head {l : Label} {n : Name} (h : LabelsOk (l :: n)) :
    1 ≤ l.length ∧ l.length ≤ 63 ∧ (∀ c ∈ l, c ≠ 46 ∧ c ≠ 0) := h l (List.mem_cons_self)

@[simp] theorem wireName_nil : wireName [] = [0] := rfl
@[simp] theorem wireName_cons (l : Label) (n : Name) : wireName (l :: n) = UInt8.ofNat l.length :: l ++ wireName n := rfl

theorem wireName_length_pos (n : Name) : n.length < (wireName n).length := by
  induction n with
  | nil => simp
  | cons l r ih => simp only [wireName_cons, List.length_cons, List.cons_append, List.length_append]; omega

/-! ### text -/

@[simp] theorem textOf_nil : textOf [] = [] := rfl
@[simp] theorem textOf_single (l : Label) : textOf [l] = l := rfl
theorem textOf_cons_cons (l l' : Label) (r : Name) : textOf (l :: l' :: r) = l ++ 46 :: textOf (l' :: r) := rfl

theorem textOf_no_nul {n : Name} (h : LabelsOk n) : ∀ c ∈ textOf n, c ≠ 0 := by
  induction n with
  | nil => intro c hc; simp at hc
  | cons l r ih =>
    cases r with
    | nil => intro c hc; simp only [textOf_single] at hc; exact (h.head.2.2 c hc).2
    | cons l' r' =>
      intro c hc
      rw [textOf_cons_cons] at hc
      simp only [List.mem_append, List.mem_cons] at hc
      rcases hc with hc | hc | hc
      · exact (h.head.2.2 c hc).2
      · subst hc; decide
      · exact ih h.tail c hc

theorem cstr_of_no_nul {b : Bytes} (h : ∀ c ∈ b, c ≠ 0) : cstr b = b := by
  unfold cstr
  induction b with
  | nil => rfl
  | cons x r ih =>
    have hx : x ≠ 0 := h x List.mem_cons_self
    rw [List.takeWhile_cons, if_pos (by simpa using hx), ih (fun c hc => h c (List.mem_cons_of_mem _ hc))]

theorem cstr_textOf {n : Name} (h : LabelsOk n) : cstr (textOf n) = textOf n := cstr_of_no_nul (textOf_no_nul h)

theorem textOf_ne_nil {l : Label} {r : Name} (h : LabelsOk (l :: r)) : textOf (l :: r) ≠ [] := by
  have hl := h.head.1
  cases r with
  | nil => simp only [textOf_single]; intro h0; rw [h0] at hl; simp at hl
  | cons l' r' => rw [textOf_cons_cons]; intro h0; rw [List.append_eq_nil_iff] at h0; rw [h0.1] at hl; simp at hl

/-! ### `encode_domain_name` on the text of a legal name -/

theorem encGo_label (cur : Bytes) : ∀ (l tail : Bytes), (∀ c ∈ l, c ≠ 46) →
    encGo false cur (l ++ tail) = encGo false (cur ++ l) tail
  | [], tail, _ => by simp
  | c :: l, tail, h => by
    have hc : c ≠ 46 := h c List.mem_cons_self
    rw [List.cons_append, encGo, if_neg hc, encGo_label (cur ++ [c]) l tail (fun x hx => h x (List.mem_cons_of_mem _ hx))]
    simp only [List.append_assoc, List.cons_append, List.nil_append]

theorem encGo_start {l : Label} (tail : Bytes) (h1 : 1 ≤ l.length) (h : ∀ c ∈ l, c ≠ 46) :
    encGo true [] (l ++ tail) = encGo false l tail := by
  cases l with
  | nil => simp at h1
  | cons c l' =>
    rw [List.cons_append, encGo, List.nil_append]
    rw [encGo_label [c] l' tail (fun x hx => h x (List.mem_cons_of_mem _ hx))]
    rfl

theorem encGo_textOf : ∀ {l : Label} {r : Name}, LabelsOk (l :: r) → encGo true [] (textOf (l :: r)) = wireName (l :: r)
  | l, [], h => by
    have hl := h.head
    have := encGo_start (l := l) [] hl.1 (fun c hc => (hl.2.2 c hc).1)
    rw [List.append_nil] at this
    rw [textOf_single, this, encGo]
    simp
  | l, l' :: r', h => by
    have hl := h.head
    rw [textOf_cons_cons, encGo_start (l := l) _ hl.1 (fun c hc => (hl.2.2 c hc).1), encGo, if_pos rfl,
      encGo_textOf h.tail]
    simp

theorem encode_textOf {n : Name} (h : LabelsOk n) : encodeDomainName (textOf n) = wireName n := by
  cases n with
  | nil => rfl
  | cons l r =>
    unfold encodeDomainName
    have hne := textOf_ne_nil h
    rw [if_neg (by simpa [List.isEmpty_iff] using hne)]
    exact encGo_textOf h

/-! ### `compose_name` on an uncompressed wire name -/

/-- the output buffer of `compose_name` after the labels of `n` have been appended to `out` -/
def appendName : Bytes → Name → Bytes
  | out, [] => out
  | out, l :: r => appendName ((if out.length ≠ 0 then out ++ [46] else out) ++ l) r

theorem appendName_nonempty {out : Bytes} (ho : out ≠ []) : ∀ {n : Name}, LabelsOk n → n ≠ [] →
    appendName out n = out ++ 46 :: textOf n
  | [], _, hn => (hn rfl).elim
  | [l], h, _ => by
    have : out.length ≠ 0 := by intro h0; exact ho (List.length_eq_zero_iff.1 h0)
    simp only [appendName, if_pos this, textOf_single, List.append_assoc, List.cons_append, List.nil_append]
  | l :: l' :: r, h, _ => by
    have : out.length ≠ 0 := by intro h0; exact ho (List.length_eq_zero_iff.1 h0)
    have hl := h.head.1
    have hne : out ++ [46] ++ l ≠ [] := by simp
    rw [appendName, if_pos this, appendName_nonempty hne h.tail (by simp), textOf_cons_cons]
    simp only [List.append_assoc, List.cons_append, List.nil_append]

theorem appendName_nil_out : ∀ {n : Name}, LabelsOk n → appendName [] n = textOf n
  | [], _ => rfl
  | [l], _ => by simp [appendName]
  | l :: l' :: r, h => by
    have hl := h.head.1
    have hne : l ≠ [] := by intro h0; rw [h0] at hl; simp at hl
    rw [appendName]
    simp only [List.length_nil, ne_eq, not_true_eq_false, if_false, List.nil_append]
    rw [appendName_nonempty hne h.tail (by simp), textOf_cons_cons]

theorem compose_wire (recs : Bytes) : ∀ (n : Name) (fuel p : Nat) (out : Bytes) (c : Nat) (e : Option Nat),
    At recs p (wireName n) → LabelsOk n → out.length + (wireName n).length ≤ 256 → n.length < fuel →
    composeName recs fuel p out c e = ok (appendName out n, e.getD (p + (wireName n).length))
  | [], 0, _, _, _, _, _, _, _, hf => by simp at hf
  | [], f + 1, p, out, c, e, hat, _, hcap, _ => by
    rw [wireName_nil] at hat hcap
    unfold composeName
    have hb := hat.bound
    simp only [List.length_cons, List.length_nil] at hb hcap
    rw [if_neg (by omega), hat.rd_eq]
    simp only [Out.ok_bind, UInt8.toNat_ofNat, if_true]
    unfold outPut
    rw [if_pos (by simp only [List.length_cons, List.length_nil]; omega)]
    rfl
  | l :: r, 0, _, _, _, _, _, _, _, hf => by simp at hf
  | l :: r, f + 1, p, out, c, e, hat, hok, hcap, hf => by
    have hl := hok.head
    rw [wireName_cons] at hat hcap
    have hb := hat.bound
    have hwr := wireName_length_pos r
    simp only [List.length_cons, List.length_append, List.cons_append] at hb hcap
    unfold composeName
    rw [if_neg (by omega), hat.rd_eq, u8_ofNat_toNat (by omega)]
    simp only [Out.ok_bind]
    rw [if_neg (by omega), if_neg (by omega), if_neg (by omega), if_neg (by omega)]
    have hat1 : At recs (p + 1) (l ++ wireName r) := hat.tail
    have hdot : dotOut out = ok (if out.length ≠ 0 then out ++ [46] else out) := by
      unfold dotOut
      split
      · unfold outPut; rw [if_pos (by simp only [List.length_cons, List.length_nil]; omega)]
      · rfl
    rw [hdot]; simp only [Out.ok_bind]
    rw [hat1.rdN_left rfl]; simp only [Out.ok_bind]
    have hlen1 : (if out.length ≠ 0 then out ++ [46] else out).length ≤ out.length + 1 := by
      split <;> simp
    unfold outPut
    rw [if_pos (by omega)]; simp only [Out.ok_bind]
    have hat2 : At recs (p + 1 + l.length) (wireName r) := hat1.right
    have hcap2 : ((if out.length ≠ 0 then out ++ [46] else out) ++ l).length + (wireName r).length ≤ 256 := by
      rw [List.length_append]; omega
    rw [compose_wire recs r f (p + 1 + l.length) _ c e hat2 hok.tail hcap2 (by simp only [List.length_cons] at hf; omega)]
    rw [appendName]
    simp only [wireName_cons, List.length_cons, List.length_append, List.cons_append]
    congr 3
    omega

/-- `compose_name` on an uncompressed legal name returns its text and the position after it -/
theorem compose_wire_init {recs : Bytes} {n : Name} {p : Nat} (hat : At recs p (wireName n)) (hok : LabelsOk n)
    (hlen : (wireName n).length ≤ 255) :
    composeName recs composeFuel p [] 0 none = ok (textOf n, p + (wireName n).length) := by
  have hn := wireName_length_pos n
  rw [compose_wire recs n composeFuel p [] 0 none hat hok (by simp only [List.length_nil]; omega)
    (by unfold composeFuel; omega), appendName_nil_out hok]
  rfl

theorem composeSkip_wire {recs : Bytes} {n : Name} {s : Stream} {rest : Bytes}
    (hat : At recs s.pos (wireName n ++ rest)) (hok : LabelsOk n) (hlen : (wireName n).length ≤ 255)
    (hr : (wireName n).length ≤ s.rem) :
    composeSkip recs s = ok (textOf n, ⟨s.pos + (wireName n).length, s.rem - (wireName n).length⟩) := by
  unfold composeSkip
  rw [compose_wire_init hat.left hok hlen]
  simp only [Out.ok_bind]
  unfold Stream.skip
  rw [if_neg (by omega)]
  simp only [Out.ok_bind, Nat.add_sub_cancel_left]

/-! ### `skip_to_dname_end` and `update_dname` on an uncompressed wire name -/

theorem skipDname_wire (buf : Bytes) : ∀ (n : Name) (f : Nat) (s : Stream),
    At buf s.pos (wireName n) → LabelsOk n → (wireName n).length ≤ s.rem → n.length < f →
    skipDname buf f s = ok ⟨s.pos + (wireName n).length, s.rem - (wireName n).length⟩
  | [], 0, _, _, _, _, hf => by simp at hf
  | [], f + 1, s, hat, _, hr, _ => by
    rw [wireName_nil] at hat hr
    simp only [List.length_cons, List.length_nil] at hr
    unfold skipDname readU8
    rw [if_neg (by omega), if_neg (by omega), hat.rd_eq]
    simp only [Out.ok_bind, UInt8.toNat_ofNat, if_true, wireName_nil, List.length_cons, List.length_nil]
  | l :: r, 0, _, _, _, _, hf => by simp at hf
  | l :: r, f + 1, s, hat, hok, hr, hf => by
    have hl := hok.head
    rw [wireName_cons] at hat hr
    simp only [List.length_cons, List.length_append, List.cons_append] at hr
    unfold skipDname readU8
    rw [if_neg (by omega), if_neg (by omega), hat.rd_eq, u8_ofNat_toNat (by omega)]
    simp only [Out.ok_bind]
    rw [if_neg (by omega), if_neg (by omega), if_pos (by omega)]
    unfold Stream.skip
    dsimp only
    rw [if_neg (by omega)]
    simp only [Out.ok_bind]
    have hat2 : At buf (s.pos + 1 + l.length) (wireName r) := (At.tail hat).right
    rw [skipDname_wire buf r f ⟨s.pos + 1 + l.length, s.rem - 1 - l.length⟩ hat2 hok.tail (by dsimp only; omega)
      (by simp only [List.length_cons] at hf; omega)]
    simp only [wireName_cons, List.length_cons, List.length_append, List.cons_append]
    congr 2 <;> omega

theorem updateDname_wire (thr off : Nat) (data : Bytes) : ∀ (n : Name) (f p stop : Nat),
    At data p (wireName n) → LabelsOk n → p + (wireName n).length ≤ stop → n.length < f →
    updateDname thr off f data p stop = ok (data, p + (wireName n).length)
  | [], 0, _, _, _, _, _, hf => by simp at hf
  | [], f + 1, p, stop, hat, _, hs, _ => by
    rw [wireName_nil] at hat hs
    simp only [List.length_cons, List.length_nil] at hs
    unfold updateDname
    rw [if_neg (by omega), hat.rd_eq]
    simp only [Out.ok_bind, UInt8.toNat_ofNat, if_true, wireName_nil, List.length_cons, List.length_nil]
  | l :: r, 0, _, _, _, _, _, hf => by simp at hf
  | l :: r, f + 1, p, stop, hat, hok, hs, hf => by
    have hl := hok.head
    rw [wireName_cons] at hat hs
    have hwr := wireName_length_pos r
    simp only [List.length_cons, List.length_append, List.cons_append] at hs
    unfold updateDname
    rw [if_neg (by omega), hat.rd_eq, u8_ofNat_toNat (by omega)]
    simp only [Out.ok_bind]
    rw [if_neg (by omega), if_neg (by omega), if_neg (by omega)]
    have hat2 : At data (p + l.length + 1) (wireName r) := by
      have := (At.tail hat).right
      rwa [show p + 1 + l.length = p + l.length + 1 by omega] at this
    rw [updateDname_wire thr off data r f (p + l.length + 1) stop hat2 hok.tail (by omega)
      (by simp only [List.length_cons] at hf; omega)]
    simp only [wireName_cons, List.length_cons, List.length_append, List.cons_append]
    congr 2; omega

end Tins.Dns
