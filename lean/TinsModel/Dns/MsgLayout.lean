import TinsModel.Dns.WireLayout
/-
  Global structure of a laid-out message: the name sites are pairwise disjoint and sorted, each lies inside its
  section; hence the hypotheses `SitesOk` of the pointer-target invariant hold for every insertion point a public
  insertion can use (the three section offsets and the end of the records).
-/
namespace Tins.Dns
open Out

theorem MsgAt.order {m : Msg} {L : Layout} (h : MsgAt m L) : m.ai ≤ m.ui ∧ m.ui ≤ m.di ∧ m.di ≤ m.recs.length :=
  ⟨h.an.le.1, h.au.le.1, h.ad.le.1⟩

/-- which section a name site belongs to -/
theorem MsgAt.site_cases {m : Msg} {L : Layout} (h : MsgAt m L) {σ : Site} (hσ : σ ∈ L.sites) :
    NameSite m.recs σ.s σ.x σ.e ∧
    ((σ ∈ L.qs ∧ σ.e + 4 ≤ m.ai) ∨ (σ ∈ recSites L.an ∧ m.ai ≤ σ.s ∧ σ.e ≤ m.ui) ∨
     (σ ∈ recSites L.au ∧ m.ui ≤ σ.s ∧ σ.e ≤ m.di) ∨ (σ ∈ recSites L.ad ∧ m.di ≤ σ.s ∧ σ.e ≤ m.recs.length)) := by
  simp only [Layout.sites, List.mem_append] at hσ
  rcases hσ with hσ | hσ | hσ | hσ
  · have := h.q.site_mem hσ
    exact ⟨this.2.2, Or.inl ⟨hσ, this.2.1⟩⟩
  · have := h.an.site_mem hσ
    exact ⟨this.2.2, Or.inr (Or.inl ⟨hσ, this.1, this.2.1⟩)⟩
  · have := h.au.site_mem hσ
    exact ⟨this.2.2, Or.inr (Or.inr (Or.inl ⟨hσ, this.1, this.2.1⟩))⟩
  · have := h.ad.site_mem hσ
    exact ⟨this.2.2, Or.inr (Or.inr (Or.inr ⟨hσ, this.1, this.2.1⟩))⟩

/-! ### sorted, hence disjoint -/

def Sorted (ss : List Site) : Prop := ss.Pairwise (fun a b => a.e ≤ b.s)

theorem DataSites.sorted {buf : Bytes} {ty a b : Nat} {ds : List Site} (h : DataSites buf ty a b ds) : Sorted ds := by
  cases h with
  | addr4 _ _ => exact List.Pairwise.nil
  | addr16 _ _ => exact List.Pairwise.nil
  | raw => exact List.Pairwise.nil
  | name σ _ _ _ _ => exact List.pairwise_singleton _ _
  | mx σ _ _ _ _ => exact List.pairwise_singleton _ _
  | soa σ1 σ2 _ _ _ h4 _ _ =>
    refine List.Pairwise.cons ?_ (List.pairwise_singleton _ _)
    intro τ hτ
    simp only [List.mem_cons, List.not_mem_nil, or_false] at hτ
    subst hτ; omega

theorem RecAt.sorted {buf : Bytes} {r : RecL} (h : RecAt buf r) : Sorted r.sites := by
  refine List.Pairwise.cons ?_ h.data.sorted
  intro τ hτ
  have := (h.data.mem hτ).1
  omega

theorem SecAt.sorted {buf : Bytes} {p e : Nat} {rs : List RecL} (h : SecAt buf p rs e) : Sorted (recSites rs) := by
  induction h with
  | nil => exact List.Pairwise.nil
  | @cons p r rs e h1 h2 h3 ih =>
    simp only [recSites, List.flatMap_cons]
    refine List.pairwise_append.2 ⟨h2.sorted, ih, ?_⟩
    intro a ha b hb
    have := (h2.site_mem ha).2.1
    have := (h3.site_mem hb).1
    omega

theorem QSecAt.sorted {buf : Bytes} {p e : Nat} {qs : List Site} (h : QSecAt buf p qs e) : Sorted qs := by
  induction h with
  | nil => exact List.Pairwise.nil
  | @cons p σ qs e h1 h2 h3 _ _ h6 ih =>
    refine List.Pairwise.cons ?_ ih
    intro τ hτ
    have := (h6.site_mem hτ).1
    omega

theorem MsgAt.sorted {m : Msg} {L : Layout} (h : MsgAt m L) : Sorted L.sites := by
  have ho := h.order
  unfold Layout.sites
  refine List.pairwise_append.2 ⟨h.q.sorted, List.pairwise_append.2 ⟨h.an.sorted,
    List.pairwise_append.2 ⟨h.au.sorted, h.ad.sorted, ?_⟩, ?_⟩, ?_⟩
  · intro a ha b hb
    have := (h.au.site_mem ha).2.1
    have := (h.ad.site_mem hb).1
    omega
  · intro a ha b hb
    have := (h.an.site_mem ha).2.1
    rcases List.mem_append.1 hb with hb | hb
    · have := (h.au.site_mem hb).1; omega
    · have := (h.ad.site_mem hb).1; omega
  · intro a ha b hb
    have := (h.q.site_mem ha).2.1
    rcases List.mem_append.1 hb with hb | hb
    · have := (h.an.site_mem hb).1; omega
    · rcases List.mem_append.1 hb with hb | hb
      · have := (h.au.site_mem hb).1; omega
      · have := (h.ad.site_mem hb).1; omega

theorem pairwise_trichotomy {α} {R : α → α → Prop} {l : List α} (h : l.Pairwise R) :
    ∀ a ∈ l, ∀ b ∈ l, a = b ∨ R a b ∨ R b a := by
  induction h with
  | nil => intro a ha; cases ha
  | @cons x l hx _ ih =>
    intro a ha b hb
    rcases List.mem_cons.1 ha with ha | ha <;> rcases List.mem_cons.1 hb with hb | hb
    · left; rw [ha, hb]
    · right; left; rw [ha]; exact hx b hb
    · right; right; rw [hb]; exact hx a ha
    · exact ih a ha b hb

theorem MsgAt.disj {m : Msg} {L : Layout} (h : MsgAt m L) : ∀ σ ∈ L.sites, ∀ τ ∈ L.sites, ∀ y, σ.s ≤ y → y < σ.e →
    τ.s ≤ y → y < τ.e → σ = τ := by
  intro σ hσ τ hτ y a1 a2 a3 a4
  rcases pairwise_trichotomy h.sorted σ hσ τ hτ with h | h | h
  · exact h
  · omega
  · omega

/-! ### the re-targeted set and `SitesOk` -/

/-- the pointer fields an insertion at `t` has to re-target: those ending a name site at or after `t` and
    designating an offset at or after `t` -/
def Rt (L : Layout) (t : Nat) (buf : Bytes) : Nat → Prop := RS (L.sites.filter (fun σ => decide (t ≤ σ.s))) t buf

theorem Rt_iff {L : Layout} {t : Nat} {buf : Bytes} (y : Nat) :
    Rt L t buf y ↔ ∃ σ ∈ L.sites, t ≤ σ.s ∧ y = σ.x ∧ σ.e = σ.x + 2 ∧ t + 12 ≤ ptrAt buf y := by
  unfold Rt RS
  constructor
  · rintro ⟨σ, hσ, h1, h2, h3⟩
    rw [List.mem_filter, decide_eq_true_eq] at hσ
    exact ⟨σ, hσ.1, hσ.2, h1, h2, h3⟩
  · rintro ⟨σ, hσ, h0, h1, h2, h3⟩
    exact ⟨σ, by rw [List.mem_filter, decide_eq_true_eq]; exact ⟨hσ, h0⟩, h1, h2, h3⟩

def Boundary (m : Msg) (t : Nat) : Prop := t = m.ai ∨ t = m.ui ∨ t = m.di ∨ t = m.recs.length

theorem WFL.sitesOk {m : Msg} {L : Layout} (h : WFL m L) {t : Nat} (ht : Boundary m t) :
    SitesOk m.recs L.sites t (Rt L t m.recs) := by
  have ho := h.lay.order
  refine ⟨fun σ hσ => (h.lay.site_cases hσ).1, h.lay.disj, ?_, Rt_iff, ?_⟩
  · intro σ hσ
    obtain ⟨hn, hc⟩ := h.lay.site_cases hσ
    have := hn.span
    unfold Boundary at ht
    rcases hc with ⟨_, h1⟩ | ⟨_, h1, h2⟩ | ⟨_, h1, h2⟩ | ⟨_, h1, h2⟩ <;> omega
  · intro σ hσ he
    have hp := h.ptr σ hσ he
    refine ⟨hp.lo, hp.tgt, ?_⟩
    intro hx
    obtain ⟨τ, _, _, hτn⟩ := hp.tgt
    have := hτn.span
    unfold Boundary at ht
    rcases ht with rfl | rfl | rfl | rfl
    · exact hp.sq hx
    · exact hp.sa hx
    · exact hp.su hx
    · omega

/-! ### pointer octets are local to their section -/

theorem MsgAt.pb_qs {m : Msg} {L : Layout} (h : MsgAt m L) {y : Nat} (hy : y < m.ai) (hp : PB L.sites y) : PB L.qs y := by
  obtain ⟨σ, hσ, he, hyx⟩ := hp
  obtain ⟨hn, hc⟩ := h.site_cases hσ
  have := hn.bounds
  rcases hc with ⟨g, _⟩ | ⟨_, h1, _⟩ | ⟨_, h1, _⟩ | ⟨_, h1, _⟩
  · exact ⟨σ, g, he, hyx⟩
  all_goals (have := h.order; omega)

theorem MsgAt.pb_an {m : Msg} {L : Layout} (h : MsgAt m L) {y : Nat} (h1 : m.ai ≤ y) (h2 : y < m.ui) (hp : PB L.sites y) :
    PB (recSites L.an) y := by
  obtain ⟨σ, hσ, he, hyx⟩ := hp
  obtain ⟨hn, hc⟩ := h.site_cases hσ
  have := hn.bounds
  rcases hc with ⟨_, g1⟩ | ⟨g, _, _⟩ | ⟨_, g1, _⟩ | ⟨_, g1, _⟩
  · omega
  · exact ⟨σ, g, he, hyx⟩
  all_goals (have := h.order; omega)

theorem MsgAt.pb_au {m : Msg} {L : Layout} (h : MsgAt m L) {y : Nat} (h1 : m.ui ≤ y) (h2 : y < m.di) (hp : PB L.sites y) :
    PB (recSites L.au) y := by
  obtain ⟨σ, hσ, he, hyx⟩ := hp
  obtain ⟨hn, hc⟩ := h.site_cases hσ
  have := hn.bounds
  have := h.order
  rcases hc with ⟨_, g1⟩ | ⟨_, _, g2⟩ | ⟨g, _, _⟩ | ⟨_, g1, _⟩
  · omega
  · omega
  · exact ⟨σ, g, he, hyx⟩
  · omega

theorem MsgAt.pb_ad {m : Msg} {L : Layout} (h : MsgAt m L) {y : Nat} (h1 : m.di ≤ y) (hp : PB L.sites y) :
    PB (recSites L.ad) y := by
  obtain ⟨σ, hσ, he, hyx⟩ := hp
  obtain ⟨hn, hc⟩ := h.site_cases hσ
  have := hn.bounds
  have := h.order
  rcases hc with ⟨_, g1⟩ | ⟨_, _, g2⟩ | ⟨_, _, g2⟩ | ⟨g, _, _⟩
  · omega
  · omega
  · omega
  · exact ⟨σ, g, he, hyx⟩

end Tins.Dns
