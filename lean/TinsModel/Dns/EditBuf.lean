import TinsModel.Dns.InsertSec
/-
  What the four public insertions do to `records_data_` of a well-formed message: the `update_records` walks succeed
  (as long as the message stays below 16 KiB, so that every offset fits 14 bits) and re-target exactly `Rt`; the splice
  then gives an `Ins` situation.
-/
namespace Tins.Dns
open Out

theorem Shifted.congr {buf buf' : Bytes} {t k : Nat} {R R' : Nat → Prop} (h : Shifted buf buf' t k R)
    (hiff : ∀ y, R y ↔ R' y) : Shifted buf buf' t k R' := by
  refine ⟨h.len, ?_, fun x hx => h.ptr x ((hiff x).2 hx)⟩
  intro x hx hl
  exact h.lit x ⟨fun hr => hx.1 ((hiff x).1 hr), fun hr => hx.2 ⟨hr.1, (hiff _).1 hr.2⟩⟩ hl

theorem insertAt_ok {buf : Bytes} {t : Nat} (ins : Bytes) (ht : t ≤ buf.length) :
    ∃ d, insertAt buf t ins = ok d ∧ At d t (ins ++ buf.drop t) := by
  refine ⟨buf.take t ++ ins ++ buf.drop t, by unfold insertAt; rw [if_pos ht], buf.take t, [], ?_, ?_⟩
  · simp only [List.append_assoc, List.append_nil]
  · rw [List.length_take]; omega

theorem RS_append (a b : List Site) (thr : Nat) (d : Bytes) (y : Nat) :
    RS (a ++ b) thr d y ↔ RS a thr d y ∨ RS b thr d y := by
  unfold RS
  constructor
  · rintro ⟨σ, hσ, h⟩
    rcases List.mem_append.1 hσ with hσ | hσ
    · exact Or.inl ⟨σ, hσ, h⟩
    · exact Or.inr ⟨σ, hσ, h⟩
  · rintro (⟨σ, hσ, h⟩ | ⟨σ, hσ, h⟩)
    · exact ⟨σ, List.mem_append_left _ hσ, h⟩
    · exact ⟨σ, List.mem_append_right _ hσ, h⟩

theorem RS_of_mem {L : Layout} {ss : List Site} {t : Nat} {d : Bytes} (hmem : ∀ σ, σ ∈ ss ↔ σ ∈ L.sites ∧ t ≤ σ.s)
    (y : Nat) : RS ss t d y ↔ Rt L t d y := by
  rw [Rt_iff]
  unfold RS
  constructor
  · rintro ⟨σ, hσ, h1, h2, h3⟩
    exact ⟨σ, ((hmem σ).1 hσ).1, ((hmem σ).1 hσ).2, h1, h2, h3⟩
  · rintro ⟨σ, hσ, h0, h1, h2, h3⟩
    exact ⟨σ, (hmem σ).2 ⟨hσ, h0⟩, h1, h2, h3⟩

namespace MsgAt
variable {m : Msg} {L : Layout}

theorem sub_qs (_ : MsgAt m L) : ∀ σ ∈ L.qs, σ ∈ L.sites := fun σ hσ => by
  simp only [Layout.sites, List.mem_append]; exact Or.inl hσ
theorem sub_an (_ : MsgAt m L) : ∀ σ ∈ recSites L.an, σ ∈ L.sites := fun σ hσ => by
  simp only [Layout.sites, List.mem_append]; exact Or.inr (Or.inl hσ)
theorem sub_au (_ : MsgAt m L) : ∀ σ ∈ recSites L.au, σ ∈ L.sites := fun σ hσ => by
  simp only [Layout.sites, List.mem_append]; exact Or.inr (Or.inr (Or.inl hσ))
theorem sub_ad (_ : MsgAt m L) : ∀ σ ∈ recSites L.ad, σ ∈ L.sites := fun σ hσ => by
  simp only [Layout.sites, List.mem_append]; exact Or.inr (Or.inr (Or.inr hσ))

theorem mem_ge_len (h : MsgAt m L) (σ : Site) : σ ∈ ([] : List Site) ↔ σ ∈ L.sites ∧ m.recs.length ≤ σ.s := by
  constructor
  · intro hσ; cases hσ
  · rintro ⟨hσ, hs⟩
    have := (h.site_cases hσ).1.span
    omega

theorem mem_ge_di (h : MsgAt m L) (σ : Site) : σ ∈ recSites L.ad ↔ σ ∈ L.sites ∧ m.di ≤ σ.s := by
  have ho := h.order
  constructor
  · intro hσ; exact ⟨h.sub_ad σ hσ, (h.ad.site_mem hσ).1⟩
  · rintro ⟨hσ, hs⟩
    obtain ⟨hn, hc⟩ := h.site_cases hσ
    have := hn.span
    rcases hc with ⟨_, g⟩ | ⟨_, _, g⟩ | ⟨_, _, g⟩ | ⟨g, _, _⟩
    · omega
    · omega
    · omega
    · exact g

theorem mem_ge_ui (h : MsgAt m L) (σ : Site) : σ ∈ recSites L.au ++ recSites L.ad ↔ σ ∈ L.sites ∧ m.ui ≤ σ.s := by
  have ho := h.order
  constructor
  · intro hσ
    rcases List.mem_append.1 hσ with hσ | hσ
    · exact ⟨h.sub_au σ hσ, (h.au.site_mem hσ).1⟩
    · exact ⟨h.sub_ad σ hσ, by have := (h.ad.site_mem hσ).1; omega⟩
  · rintro ⟨hσ, hs⟩
    obtain ⟨hn, hc⟩ := h.site_cases hσ
    have := hn.span
    rcases hc with ⟨_, g⟩ | ⟨_, _, g⟩ | ⟨g, _, _⟩ | ⟨g, _, _⟩
    · omega
    · omega
    · exact List.mem_append_left _ g
    · exact List.mem_append_right _ g

theorem mem_ge_ai (h : MsgAt m L) (σ : Site) :
    σ ∈ (recSites L.an ++ recSites L.au) ++ recSites L.ad ↔ σ ∈ L.sites ∧ m.ai ≤ σ.s := by
  have ho := h.order
  constructor
  · intro hσ
    rcases List.mem_append.1 hσ with hσ | hσ
    · rcases List.mem_append.1 hσ with hσ | hσ
      · exact ⟨h.sub_an σ hσ, (h.an.site_mem hσ).1⟩
      · exact ⟨h.sub_au σ hσ, by have := (h.au.site_mem hσ).1; omega⟩
    · exact ⟨h.sub_ad σ hσ, by have := (h.ad.site_mem hσ).1; omega⟩
  · rintro ⟨hσ, hs⟩
    obtain ⟨hn, hc⟩ := h.site_cases hσ
    have := hn.span
    rcases hc with ⟨_, g⟩ | ⟨g, _, _⟩ | ⟨g, _, _⟩ | ⟨g, _, _⟩
    · omega
    · exact List.mem_append_left _ (List.mem_append_left _ g)
    · exact List.mem_append_left _ (List.mem_append_right _ g)
    · exact List.mem_append_right _ g

end MsgAt

/-- below 16 KiB every re-targeted offset still fits 14 bits -/
theorem WFL.fits {m : Msg} {L : Layout} (h : WFL m L) {k : Nat} (hsz : m.recs.length + 12 + k ≤ 16384) {ss : List Site}
    (hsub : ∀ σ ∈ ss, σ ∈ L.sites) (thr : Nat) : Fits ss thr k m.recs := by
  intro σ hσ he _
  have hp := h.ptr σ (hsub σ hσ) he
  obtain ⟨τ, _, _, hn⟩ := hp.tgt
  have := hn.span
  have := hp.lo
  omega

/-! ### the record walks of the four insertions -/

/-- `add_additional`: nothing is walked -/
theorem WFL.upd_len {m : Msg} {L : Layout} (h : WFL m L) (k : Nat) :
    Upd m.recs.length k m.recs.length m.recs.length m.recs m.recs (Rt L m.recs.length m.recs) :=
  (Upd.refl _ k _ _ m.recs).congr (fun y => ⟨fun hf => hf.elim, fun hr => by
    have := (RS_of_mem (d := m.recs) h.lay.mem_ge_len y).2 hr
    obtain ⟨_, hσ, _⟩ := this
    cases hσ⟩)

/-- `add_authority`: the additional records are walked -/
theorem WFL.upd_di {m : Msg} {L : Layout} (h : WFL m L) {k : Nat} (hsz : m.recs.length + 12 + k ≤ 16384) :
    ∃ d1, updateRecords m.recs m.di m.ad m.di k = ok (d1, m.di + k) ∧
      Upd m.di k m.di m.recs.length m.recs d1 (Rt L m.di m.recs) := by
  obtain ⟨d1, h1, u1⟩ := updateRecords_sec m.di k h.lay.ad (d1 := m.recs) rfl (fun _ _ => rfl)
    (h.fits hsz h.lay.sub_ad _)
  rw [← h.lay.cad] at h1
  exact ⟨d1, h1, u1.congr (RS_of_mem h.lay.mem_ge_di)⟩

/-- `add_answer`: the authority and the additional records are walked -/
theorem WFL.upd_ui {m : Msg} {L : Layout} (h : WFL m L) {k : Nat} (hsz : m.recs.length + 12 + k ≤ 16384) :
    ∃ d1 d2, updateRecords m.recs m.ui m.au m.ui k = ok (d1, m.ui + k) ∧
      updateRecords d1 m.di m.ad m.ui k = ok (d2, m.di + k) ∧
      Upd m.ui k m.ui m.recs.length m.recs d2 (Rt L m.ui m.recs) := by
  have ho := h.lay.order
  obtain ⟨d1, h1, u1⟩ := updateRecords_sec m.ui k h.lay.au (d1 := m.recs) rfl (fun _ _ => rfl)
    (h.fits hsz h.lay.sub_au _)
  obtain ⟨d2, h2, u2⟩ := updateRecords_sec m.ui k h.lay.ad (d1 := d1) u1.len (fun y hy => u1.same_after hy)
    (h.fits hsz h.lay.sub_ad _)
  rw [← h.lay.cau] at h1
  rw [← h.lay.cad] at h2
  refine ⟨d1, d2, h1, h2, (u1.trans u2 ho.2.1 ho.2.2).congr ?_⟩
  intro y
  rw [← RS_of_mem h.lay.mem_ge_ui, RS_append]

/-- `add_query`: all three record sections are walked -/
theorem WFL.upd_ai {m : Msg} {L : Layout} (h : WFL m L) {k : Nat} (hsz : m.recs.length + 12 + k ≤ 16384) :
    ∃ d1 d2 d3, updateRecords m.recs m.ai m.an m.ai k = ok (d1, m.ai + k) ∧
      updateRecords d1 m.ui m.au m.ai k = ok (d2, m.ui + k) ∧
      updateRecords d2 m.di m.ad m.ai k = ok (d3, m.di + k) ∧
      Upd m.ai k m.ai m.recs.length m.recs d3 (Rt L m.ai m.recs) := by
  have ho := h.lay.order
  obtain ⟨d1, h1, u1⟩ := updateRecords_sec m.ai k h.lay.an (d1 := m.recs) rfl (fun _ _ => rfl)
    (h.fits hsz h.lay.sub_an _)
  obtain ⟨d2, h2, u2⟩ := updateRecords_sec m.ai k h.lay.au (d1 := d1) u1.len (fun y hy => u1.same_after hy)
    (h.fits hsz h.lay.sub_au _)
  obtain ⟨d3, h3, u3⟩ := updateRecords_sec m.ai k h.lay.ad (d1 := d2) (by rw [u2.len, u1.len])
    (fun y hy => by rw [u2.same_after hy, u1.same_after (by omega)]) (h.fits hsz h.lay.sub_ad _)
  rw [← h.lay.can] at h1
  rw [← h.lay.cau] at h2
  rw [← h.lay.cad] at h3
  refine ⟨d1, d2, d3, h1, h2, h3, ((u1.trans u2 ho.1 ho.2.1).trans u3 (by omega) ho.2.2).congr ?_⟩
  intro y
  rw [← RS_of_mem h.lay.mem_ge_ai, RS_append, RS_append]

/-- the splice after the walks: an `Ins` situation, with the inserted octets at `t` -/
theorem WFL.ins_of_upd {m : Msg} {L : Layout} (h : WFL m L) {t k hi : Nat} {d2 : Bytes} (hb : Boundary m t)
    (hu : Upd t k t hi m.recs d2 (Rt L t m.recs)) (ins : Bytes) (hk : ins.length = k) :
    ∃ d3, insertAt d2 t ins = ok d3 ∧ At d3 t (ins ++ d2.drop t) ∧ Ins m L t k d3 ∧ d3.length = m.recs.length + k := by
  have ht : t ≤ d2.length := by
    rw [hu.len]
    have := h.lay.order
    unfold Boundary at hb
    omega
  obtain ⟨d3, hd3, hat⟩ := insertAt_ok ins ht
  have hs := shifted_of_upd hu (Nat.le_refl _) hd3 hk
  exact ⟨d3, hd3, hat, ⟨h, hb, hs⟩, hs.len⟩

end Tins.Dns
