import TinsModel.Dns.Lemmas
/-
  Insertion and compression pointers: if `k` bytes are inserted at offset `t` of the records and the pointer fields
  that are re-targeted are exactly the ones whose target moves, every name still resolves to the same labels
  (RFC 1035 §4.1.4 resolution, `Resolves`) from the moved position.
-/
namespace Tins.Dns

/-- where the byte at offset `x` ends up after `k` bytes have been inserted at offset `t` -/
def shift (t k x : Nat) : Nat := if x < t then x else x + k

/-- `x` is not inside a pointer field that was re-targeted -/
def Lit (R : Nat → Prop) (x : Nat) : Prop := ¬ R x ∧ ¬ (1 ≤ x ∧ R (x - 1))

/-- `buf'` is `buf` after `k` bytes were inserted at `t` and the pointer fields at the positions in `R` were moved
    from target `τ` (≥ `t`) to `τ + k`; every other byte is where the insertion moved it. -/
structure Shifted (buf buf' : Bytes) (t k : Nat) (R : Nat → Prop) : Prop where
  len : buf'.length = buf.length + k
  lit : ∀ x, Lit R x → x < buf.length → buf'[shift t k x]? = buf[x]?
  ptr : ∀ x, R x → ∃ hi lo hi' lo' : UInt8, buf[x]? = some hi ∧ buf[x + 1]? = some lo ∧
    buf'[shift t k x]? = some hi' ∧ buf'[shift t k x + 1]? = some lo' ∧ hi'.toNat / 64 = 3 ∧
    hi'.toNat % 64 * 256 + lo'.toNat = hi.toNat % 64 * 256 + lo.toNat + k ∧ t + 12 ≤ hi.toNat % 64 * 256 + lo.toNat

/-- RFC 1035 resolution of the name at `p` along a path on which
    * labels and terminators are not inside re-targeted pointer fields and no label straddles the insertion point,
    * every pointer is either one of the re-targeted ones (`R`) or is untouched and designates a name before `t`. -/
inductive ResolvesVia (buf : Bytes) (R : Nat → Prop) (t : Nat) : Nat → Name → Nat → Prop
  | root {p} : buf[p]? = some 0 → Lit R p → ResolvesVia buf R t p [] 0
  | label {p n j} (len : Nat) (l : Label) : buf[p]? = some (UInt8.ofNat len) → 1 ≤ len → len ≤ 63 →
      l.length = len → (buf.drop (p + 1)).take len = l → p + 1 + len ≤ buf.length →
      (∀ x, p ≤ x → x < p + 1 + len → Lit R x) → (p + 1 + len < t ∨ t ≤ p) →
      ResolvesVia buf R t (p + 1 + len) n j → ResolvesVia buf R t p (l :: n) j
  | moved {p n j} (hi lo : UInt8) : R p → buf[p]? = some hi → buf[p + 1]? = some lo → hi.toNat / 64 = 3 →
      12 ≤ hi.toNat % 64 * 256 + lo.toNat →
      ResolvesVia buf R t (hi.toNat % 64 * 256 + lo.toNat - 12) n j → ResolvesVia buf R t p n (j + 1)
  | kept {p n j} (hi lo : UInt8) : Lit R p → Lit R (p + 1) → (p + 2 ≤ t ∨ t ≤ p) →
      buf[p]? = some hi → buf[p + 1]? = some lo → hi.toNat / 64 = 3 →
      12 ≤ hi.toNat % 64 * 256 + lo.toNat → hi.toNat % 64 * 256 + lo.toNat - 12 < t →
      ResolvesVia buf R t (hi.toNat % 64 * 256 + lo.toNat - 12) n j → ResolvesVia buf R t p n (j + 1)

theorem ResolvesVia.resolves {buf : Bytes} {R : Nat → Prop} {t p : Nat} {n : Name} {j : Nat}
    (h : ResolvesVia buf R t p n j) : Resolves buf p n j := by
  induction h with
  | root h0 _ => exact Resolves.root h0
  | label len l hb h1 h2 h3 h4 h5 _ _ _ ih => exact Resolves.label len l hb h1 h2 h3 h4 h5 ih
  | moved hi lo _ h0 h1 h3 h12 _ ih => exact Resolves.pointer hi lo h0 h1 h3 h12 ih
  | kept hi lo _ _ _ h0 h1 h3 h12 _ _ ih => exact Resolves.pointer hi lo h0 h1 h3 h12 ih

theorem getElem?_lt_length {buf : Bytes} {x : Nat} {b : UInt8} (h : buf[x]? = some b) : x < buf.length := by
  rcases Nat.lt_or_ge x buf.length with hx | hx
  · exact hx
  · rw [List.getElem?_eq_none hx] at h; cases h

/-- **pointers are preserved**: every name that resolved before the insertion resolves to the same labels, with the
    same number of jumps, from where the insertion moved its first byte. -/
theorem resolves_shifted {buf buf' : Bytes} {t k : Nat} {R : Nat → Prop} (hs : Shifted buf buf' t k R)
    {p : Nat} {n : Name} {j : Nat} (h : ResolvesVia buf R t p n j) : Resolves buf' (shift t k p) n j := by
  induction h with
  | root h0 hl =>
    exact Resolves.root (by rw [hs.lit _ hl (getElem?_lt_length h0)]; exact h0)
  | @label p n j len l hb h1 h2 h3 h4 h5 hlit hstr _ ih =>
    have hsp : ∀ i, i ≤ 1 + len → shift t k (p + i) = shift t k p + i := by
      intro i hi
      unfold shift
      rcases hstr with hstr | hstr
      · rw [if_pos (by omega), if_pos (by omega)]
      · rw [if_neg (by omega), if_neg (by omega)]; omega
    have hb' : buf'[shift t k p]? = some (UInt8.ofNat len) := by
      rw [hs.lit p (hlit p (Nat.le_refl _) (by omega)) (by omega)]; exact hb
    have hbound : shift t k p + 1 + len ≤ buf'.length := by
      rw [hs.len]; unfold shift; split <;> omega
    have hslice : (buf'.drop (shift t k p + 1)).take len = l := by
      apply List.ext_getElem?
      intro i
      rw [← h4]
      simp only [List.getElem?_take, List.getElem?_drop]
      split
      · rename_i hi
        have := hsp (1 + i) (by omega)
        rw [show shift t k p + 1 + i = shift t k (p + (1 + i)) by rw [this]; omega,
          hs.lit (p + (1 + i)) (hlit _ (by omega) (by omega)) (by omega)]
        congr 1; omega
      · rfl
    have hnext : shift t k (p + 1 + len) = shift t k p + 1 + len := by
      have := hsp (1 + len) (Nat.le_refl _)
      rw [show p + 1 + len = p + (1 + len) by omega, this]; omega
    rw [hnext] at ih
    exact Resolves.label len l hb' h1 h2 h3 hslice hbound ih
  | @moved p n j hi lo hR h0 h1 h3 h12 _ ih =>
    obtain ⟨a, b, a', b', e0, e1, e0', e1', h3', hval, hge⟩ := hs.ptr p hR
    rw [h0] at e0; cases e0
    rw [h1] at e1; cases e1
    have htgt : shift t k (hi.toNat % 64 * 256 + lo.toNat - 12) = a'.toNat % 64 * 256 + b'.toNat - 12 := by
      unfold shift; rw [if_neg (by omega)]; omega
    rw [htgt] at ih
    have h12' : 12 ≤ a'.toNat % 64 * 256 + b'.toNat := by rw [hval]; exact Nat.le_trans h12 (Nat.le_add_right _ _)
    exact Resolves.pointer a' b' e0' e1' h3' h12' ih
  | @kept p n j hi lo hl0 hl1 hstr h0 h1 h3 h12 hlt _ ih =>
    have hsp1 : shift t k (p + 1) = shift t k p + 1 := by
      unfold shift
      rcases hstr with hstr | hstr
      · rw [if_pos (by omega), if_pos (by omega)]
      · rw [if_neg (by omega), if_neg (by omega)]; omega
    have e0 : buf'[shift t k p]? = some hi := by rw [hs.lit p hl0 (getElem?_lt_length h0)]; exact h0
    have e1 : buf'[shift t k p + 1]? = some lo := by
      rw [← hsp1, hs.lit (p + 1) hl1 (getElem?_lt_length h1)]; exact h1
    have htgt : shift t k (hi.toNat % 64 * 256 + lo.toNat - 12) = hi.toNat % 64 * 256 + lo.toNat - 12 := by
      unfold shift; rw [if_pos hlt]
    rw [htgt] at ih
    exact Resolves.pointer hi lo e0 e1 h3 h12 ih

end Tins.Dns
